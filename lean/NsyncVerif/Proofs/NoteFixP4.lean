/-
  Layer `Note`, invariant family P, fourth part: two threads never scan the same `children` list;
  the claims of the threads that do not act are preserved.
-/
import NsyncVerif.Proofs.NoteFixP3

set_option linter.unusedSimpArgs false

namespace Note

/-! ### What a scan entry says about the program counter -/

theorem mem_outerScans {l : List Frame} {m : NoteId} {oc nx : Option NoteId}
    (h : (m, oc, nx) ∈ outerScans l) :
    ∃ i g, oc = some i.note ∧ m = g.note ∧ nx = g.next ∧
      ∃ l1 l2, l = l1 ++ i :: g :: l2 := by
  induction l with
  | nil => simp [outerScans] at h
  | cons i rest ih =>
    cases rest with
    | nil => simp [outerScans] at h
    | cons g gs =>
      simp only [outerScans, List.mem_cons, Prod.mk.injEq] at h
      rcases h with ⟨h1, h2, h3⟩ | h
      · exact ⟨i, g, h2, h1, h3, [], gs, rfl⟩
      · obtain ⟨i', g', e1, e2, e3, l1, l2, e4⟩ := ih h
        exact ⟨i', g', e1, e2, e3, i :: l1, l2, by rw [e4]; rfl⟩

/-- A scan entry of a thread inside `note_notify_child`: the innermost activation in its scan
    phase, or an enclosing activation inside the recursive call for the next inner one. -/
theorem scans_chd {pos : CPos} {f : Frame} {rest : List Frame} {top : Top} {m : NoteId}
    {oc nx : Option NoteId} (h : (m, oc, nx) ∈ (PC.chd pos (f :: rest) top).scans) :
    (m = f.note ∧ pos.scan f = some (oc, nx)) ∨
    (∃ i g, oc = some i.note ∧ m = g.note ∧ nx = g.next ∧
      ∃ l1 l2, f :: rest = l1 ++ i :: g :: l2) := by
  simp only [PC.scans, List.mem_append] at h
  rcases h with h | h
  · left
    cases hp : pos.scan f with
    | none => rw [hp] at h; simp [headScan] at h
    | some x =>
      rw [hp] at h
      obtain ⟨oc', nx'⟩ := x
      simp only [headScan, List.mem_singleton, Prod.mk.injEq] at h
      obtain ⟨rfl, rfl, rfl⟩ := h
      exact ⟨rfl, rfl⟩
  · right; exact mem_outerScans h

theorem scans_fr {pos : FPos} {n : NoteId} {par : Option NoteId} {c : NoteId}
    {nx0 : Option NoteId} {m : NoteId} {oc nx : Option NoteId}
    (h : (m, oc, nx) ∈ (PC.fr pos n par c nx0).scans) : m = n ∧ pos.scan c nx0 = some (oc, nx) := by
  simp only [PC.scans] at h
  cases hp : pos.scan c nx0 with
  | none => rw [hp] at h; simp [headScan] at h
  | some x =>
    rw [hp] at h
    obtain ⟨oc', nx'⟩ := x
    simp only [headScan, List.mem_singleton, Prod.mk.injEq] at h
    obtain ⟨rfl, rfl, rfl⟩ := h
    exact ⟨rfl, rfl⟩

theorem scans_pc {pc : PC} {m : NoteId} {oc nx : Option NoteId} (h : (m, oc, nx) ∈ pc.scans) :
    (∃ pos f rest top, pc = .chd pos (f :: rest) top) ∨ (∃ pos par c nx0, pc = .fr pos m par c nx0) := by
  cases pc with
  | chd pos stk top =>
    cases stk with
    | nil => simp [PC.scans] at h
    | cons f rest => exact Or.inl ⟨_, _, _, _, rfl⟩
  | fr pos n par c nx0 => obtain ⟨rfl, _⟩ := scans_fr h; exact Or.inr ⟨_, _, _, _, rfl⟩
  | _ => simp [PC.scans] at h

theorem CPos.scan_stored {pos : CPos} {f : Frame} {x : Option NoteId × Option NoteId}
    (h : pos.scan f = some x) : pos.stored = true := by
  cases pos <;> simp [CPos.scan] at h <;> rfl

/-- A thread inside `note_notify_child` that scans `m->children` has an activation past the store
    on `m`. -/
theorem scans_active {pos : CPos} {f : Frame} {rest : List Frame} {top : Top} {m : NoteId}
    {oc nx : Option NoteId} (h : (m, oc, nx) ∈ (PC.chd pos (f :: rest) top).scans) :
    Active (.chd pos (f :: rest) top) m := by
  rcases scans_chd h with ⟨rfl, hp⟩ | ⟨i, g, _, rfl, _, l1, l2, hl⟩
  · exact Or.inl ⟨rfl, CPos.scan_stored hp⟩
  · right
    have : g ∈ rest := by
      cases l1 with
      | nil => simp only [List.nil_append, List.cons.injEq] at hl; rw [hl.2]; simp
      | cons x xs =>
        simp only [List.cons_append, List.cons.injEq] at hl
        rw [hl.2]; simp
    exact List.mem_map_of_mem this

/-- A note of the activation stack is the note of the outermost activation, or a child of the note
    of the enclosing activation, whose mutex the thread holds. -/
theorem frame_cases {s : State} (hr : Reachable s) {t : Tid} {pos : CPos} {stk : List Frame}
    {top : Top} (hpc : s.pc t = .chd pos stk top) {m : NoteId} (hm : m ∈ stk.map Frame.note) :
    m = top.n ∨ ∃ g, (s.notes m).parent = some g ∧ g ∈ (s.pc t).held := by
  have hF := hr.invForest
  have hc := hr.inv6.2.2.2.2.1.claim_of hpc
  have hch := hF.chain t _ _ _ hpc
  have hlast := hc.2.2.1
  -- along the stack
  have key : ∀ (l : List Frame), ChainCur s (l.map Frame.note) →
      l.getLast?.map Frame.note = some top.n → m ∈ l.map Frame.note →
      m = top.n ∨ ∃ g, g ∈ l.tail.map Frame.note ∧ (s.notes m).parent = some g := by
    intro l
    induction l with
    | nil => intro _ _ h; simp at h
    | cons f rest ih =>
      intro h1 h2 h3
      cases rest with
      | nil =>
        simp only [List.map_cons, List.map_nil, List.mem_singleton] at h3
        left; rw [h3]; simpa using h2
      | cons g gs =>
        simp only [List.map_cons, List.mem_cons] at h3
        rcases h3 with h3 | h3
        · right
          subst h3
          exact ⟨g.note, by simp, hF.c2p _ _ h1.1⟩
        · rw [List.getLast?_cons_cons] at h2
          rcases ih h1.2 h2 (by simpa using h3) with h | ⟨g', hg', hp⟩
          · exact Or.inl h
          · right
            exact ⟨g', by
              simp only [List.tail_cons] at hg' ⊢
              exact List.mem_cons_of_mem _ hg', hp⟩
  rcases key stk hch hlast hm with h | ⟨g, hg, hp⟩
  · exact Or.inl h
  · exact Or.inr ⟨g, hp, by rw [hpc]; exact held_chd_tail hg⟩

theorem FPos.scan_linked {pos : FPos} {c : NoteId} {nx : Option NoteId}
    {x : Option NoteId × Option NoteId} (h : pos.scan c nx = some x) : pos.linkedB = true := by
  cases pos <;> simp [FPos.scan] at h <;> rfl

/-- The parent of a note being scanned by `nsync_note_free` is the local `parent`, whose mutex
    the thread holds. -/
theorem fr_scan_parent {s : State} (hr : Reachable s) {t : Tid} {pos : FPos} {n : NoteId}
    {par : Option NoteId} {c : NoteId} {nx : Option NoteId} (hpc : s.pc t = .fr pos n par c nx)
    {x : Option NoteId × Option NoteId} (h : pos.scan c nx = some x) :
    (s.notes n).parent = par ∧ ∀ p, par = some p → p ∈ (s.pc t).held := by
  have hF := hr.invForest
  have hl := FPos.scan_linked h
  constructor
  · cases par with
    | none =>
      have hsec : (s.pc t).sec = some (n, none) := by
        rw [hpc]; cases pos <;> simp [FPos.scan] at h <;> rfl
      rcases hF.stale t n none hsec with h1 | h1 <;> exact h1
    | some p => exact hF.linked t n p (by rw [hpc]; simp [linked_fr, hl])
  · intro p hp
    subst hp
    rw [hpc]
    cases pos <;> simp [FPos.scan] at h <;> (try (rename_i b; cases b)) <;> simp [PC.held]

/-- A thread whose call is on `m`, or that is creating `m`, and the thread freeing `m`. -/
theorem top_vs_freer {s : State} (hr : Reachable s) {t a : Tid} {m : NoteId}
    (ht : (s.pc t).arg = some m ∨ (s.pc t).creating = some m) (ha : (s.pc a).freer = some m) :
    t = a := by
  have hU := hr.invU
  have hsole := hU.sole a m ha
  rcases ht with h | h
  · have : t ∈ s.users m := (hU.users t m).mpr h
    rw [hsole] at this; exact List.mem_singleton.mp this
  · have h1 := hr.invR.pub a m (by rw [hsole]; simp)
    rw [(hr.inv6.1.creating t m h).2] at h1; cases h1

theorem chd_top_self (pos : CPos) (stk : List Frame) (top : Top) :
    (PC.chd pos stk top).arg = some top.n ∨ (PC.chd pos stk top).creating = some top.n := by
  cases hk : top.k with
  | ofApi => left; simp [PC.arg, hk, NK.arg]
  | ofDeadline dk => cases dk <;> simp [PC.arg, hk, NK.arg, DK.arg]

/-- Two different threads never scan the same `children` list. -/
theorem scan_excl {s : State} (hr : Reachable s) {t a : Tid} {m : NoteId} (hta : t ≠ a)
    {oc nx oc' nx' : Option NoteId} (ht : (m, oc, nx) ∈ (s.pc t).scans)
    (ha : (m, oc', nx') ∈ (s.pc a).scans) : False := by
  have hK := hr.inv6.2.2.2.2.2
  have hF := hr.invForest
  -- a thread inside note_notify_child against a thread inside nsync_note_free
  have mixed : ∀ (u v : Tid) (pos : CPos) (f : Frame) (rest : List Frame) (top : Top)
      (fpos : FPos) (par : Option NoteId) (c : NoteId) (nx0 : Option NoteId)
      (x : Option NoteId × Option NoteId),
      s.pc u = .chd pos (f :: rest) top → m ∈ (f :: rest).map Frame.note →
      s.pc v = .fr fpos m par c nx0 → fpos.scan c nx0 = some x → u = v := by
    intro u v pos f rest top fpos par c nx0 x hu hm hv hx
    obtain ⟨hpar, hheld⟩ := fr_scan_parent hr hv hx
    rcases frame_cases hr hu hm with h | ⟨g, hp, hg⟩
    · subst h
      have := chd_top_self pos (f :: rest) top
      rw [← hu] at this
      exact top_vs_freer hr this (by rw [hv]; rfl)
    · rw [hpar] at hp
      exact held_excl hK hg (hheld g hp)
  rcases scans_pc ht with ⟨pos, f, rest, top, hpt⟩ | ⟨pos, par, c, nx0, hpt⟩
  · rw [hpt] at ht
    have hat := scans_active ht
    rcases scans_pc ha with ⟨pos', f', rest', top', hpa⟩ | ⟨pos', par', c', nx0', hpa⟩
    · rw [hpa] at ha
      have haa := scans_active ha
      rw [← hpt] at hat; rw [← hpa] at haa
      exact hta (hr.invAct.uniq t a m hat haa)
    · rw [hpa] at ha
      have hm : m ∈ (f :: rest).map Frame.note := by
        rcases hat with h | h
        · simp [h.1]
        · simp only [List.map_cons, List.mem_cons]; exact Or.inr h
      exact hta (mixed t a pos f rest top pos' par' c' nx0' _ hpt hm hpa (scans_fr ha).2)
  · rw [hpt] at ht
    rcases scans_pc ha with ⟨pos', f', rest', top', hpa⟩ | ⟨pos', par', c', nx0', hpa⟩
    · rw [hpa] at ha
      have haa := scans_active ha
      have hm : m ∈ (f' :: rest').map Frame.note := by
        rcases haa with h | h
        · simp [h.1]
        · simp only [List.map_cons, List.mem_cons]; exact Or.inr h
      exact hta (mixed a t pos' f' rest' top' pos par c nx0 _ hpa hm hpt (scans_fr ht).2).symm
    · have h1 := hr.invU.sole t m (by rw [hpt]; rfl)
      have h2 := hr.invU.sole a m (by rw [hpa]; rfl)
      rw [h1] at h2
      exact hta (by simpa using h2)

theorem scans_alloc {s : State} (hr : Reachable s) {t : Tid} {m : NoteId} {oc nx : Option NoteId}
    (h : (m, oc, nx) ∈ (s.pc t).scans) : (s.notes m).allocated = true := by
  rcases scans_pc h with ⟨pos, f, rest, top, hpc⟩ | ⟨pos, par, c, nx0, hpc⟩
  · rw [hpc] at h
    have := scans_active h
    rw [← hpc] at this
    exact hr.inv6.1.flag m (hr.invAct.flag t m this)
  · exact (hr.inv6.2.2.2.2.1.claim_of hpc).1

/-- The thread holds the mutex of the note whose children it scans — except while it is inside a
    WAIT_FOR_NO_CHILDREN that has released it. -/
theorem scans_held_or_parked {pc : PC} {m : NoteId} {oc nx : Option NoteId}
    (h : (m, oc, nx) ∈ pc.scans) :
    m ∈ pc.held ∨
    (oc = none ∧ nx = none ∧
      ((∃ f rest top, pc = .chd (.waitRet false) (f :: rest) top ∧ f.note = m) ∨
       (∃ par c nx0, pc = .fr (.waitRet false) m par c nx0))) := by
  rcases scans_pc h with ⟨pos, f, rest, top, rfl⟩ | ⟨pos, par, c, nx0, rfl⟩
  · rcases scans_chd h with ⟨rfl, hp⟩ | ⟨i, g, _, rfl, _, l1, l2, hl⟩
    · cases pos <;> simp [CPos.scan] at hp <;> (try (simp [PC.held]; done))
      rename_i b
      obtain ⟨rfl, rfl⟩ := hp
      cases b
      · right; exact ⟨rfl, rfl, Or.inl ⟨_, _, _, rfl, rfl⟩⟩
      · left; simp [PC.held]
    · left
      have : g ∈ rest := by
        cases l1 with
        | nil => simp only [List.nil_append, List.cons.injEq] at hl; rw [hl.2]; simp
        | cons x xs =>
          simp only [List.cons_append, List.cons.injEq] at hl
          rw [hl.2]; simp
      exact held_chd_tail (by simpa using List.mem_map_of_mem (f := Frame.note) this)
  · obtain ⟨_, hp⟩ := scans_fr h
    cases pos <;> simp [FPos.scan] at hp <;> (try (simp [PC.held]; done))
    rename_i b
    obtain ⟨rfl, rfl⟩ := hp
    cases b
    · right; exact ⟨rfl, rfl, Or.inr ⟨_, _, _, rfl⟩⟩
    · left; simp [PC.held]

/-- A claim survives a step that leaves the list alone and does not clear `children_adopted`:
    the `disconnecting` counters of the examined children do not return to zero (`dec_safe`). -/
theorem claim_carry {s s' : State} {e : Event} (hr : Reachable s) (hP : InvScan s)
    (hs : step s e = .ok s') {m : NoteId} {oc nx : Option NoteId} (hc : ScanClaim s m oc nx)
    (hch : (s'.notes m).children = (s.notes m).children)
    (had : (s'.notes m).adopted = false → (s.notes m).adopted = false) :
    ScanClaim s' m oc nx := by
  intro h'
  obtain ⟨pre, post, h1, h2, h3⟩ := hc (had h')
  refine ⟨pre, post, by rw [hch]; exact h1, h2, fun x hx => ?_⟩
  have hx1 : x ∈ (s.notes m).children := by rw [h1]; exact List.mem_append_left _ hx
  have hx2 : x ∈ (s'.notes m).children := by rw [hch]; exact hx1
  exact dec_safe hr hP hs (hr.invForest.c2p m x hx1) ((hr.next hs).invForest.c2p m x hx2) (h3 x hx)

/-- The adoption step sets `children_adopted` of the adopting parent. -/
theorem step_adopt_sets {s s' : State} {a : Tid} {n m c : NoteId} {nx : Option NoteId}
    (hpc : s.pc a = .fr .lockChildRet n (some m) c nx) (hd : (s.notes c).disconnecting = 0)
    (hs : step s (.lockRet a) = .ok s') : (s'.notes m).adopted = true := by
  simp only [step, stepLockRet, hpc, need_ok, hd, if_true] at hs
  obtain ⟨_, hs⟩ := hs
  cases hs
  simp

/-- The claims of a thread that does not act are preserved. -/
theorem claim_other {s s' : State} {e : Event} (hr : Reachable s) (hP : InvScan s)
    (hs : step s e = .ok s') {t : Tid} (hta : e.actor ≠ some t) {m : NoteId}
    {oc nx : Option NoteId} (h : (m, oc, nx) ∈ (s.pc t).scans) : ScanClaim s' m oc nx := by
  obtain ⟨_, hN, hS, _, hL, hK⟩ := hr.inv6
  have hr' := hr.next hs
  have hpc' : s'.pc t = s.pc t := step_pc_other hs t hta
  have hc := hP.claim t m oc nx h
  -- nobody else starts a scan of the same list
  have had : (s'.notes m).adopted = false → (s.notes m).adopted = false := by
    intro h'
    cases h0 : (s.notes m).adopted with
    | false => rfl
    | true =>
      exfalso
      obtain ⟨a, oc', nx', ha, hsc⟩ := step_adopted_clear hs (scans_alloc hr h) h0 h'
      have hne : t ≠ a := fun e' => hta (e' ▸ ha)
      exact scan_excl hr' hne (by rw [hpc']; exact h) hsc
  rcases scans_held_or_parked h with hheld | ⟨rfl, rfl, hpark⟩
  · -- the mutex is held: nobody else changes the list
    refine claim_carry hr hP hs hc ?_ had
    cases hd : decide ((s'.notes m).children = (s.notes m).children) with
    | true => exact of_decide_eq_true hd
    | false =>
      exfalso
      obtain ⟨a, ha, hah⟩ := forest_change_lock hS hL hs (of_decide_eq_false hd)
      have := held_excl hK hah hheld
      subst this
      exact hta ha
  · -- inside WAIT_FOR_NO_CHILDREN: children may leave; one that arrives is adopted
    intro h'
    obtain ⟨pre, post, h1, h2, h3⟩ := hc (had h')
    have hpost : post = [] := by cases post <;> simp at h2 ⊢
    subst hpost
    simp only [Option.toList, List.append_nil] at h1
    refine ⟨(s'.notes m).children, [], by simp, rfl, fun x hx => ?_⟩
    rcases step_children' hs m x hx with hold | ⟨a, dl, ha, hpa, hpos⟩ | ⟨a, n0, nx0, he, hpa, hd0⟩
    · exact dec_safe hr hP hs (hr.invForest.c2p m x hold) (hr'.invForest.c2p m x hx)
        (h3 x (by rw [← h1]; exact hold))
    · -- nsync_note_new does not link under a notified note, nor under a note being freed
      exfalso
      rcases hpark with ⟨f, rest, top, hpt, rfl⟩ | ⟨par, c, nx0, hpt⟩
      · have hcN := hN.claim_of hpt
        exact ntime_of_notified (hcN.2.2.2.2.2.1 rfl) hpos
      · have : a = t := (top_vs_freer hr (Or.inl (by rw [hpa]; rfl)) (by rw [hpt]; rfl))
        subst this
        rw [hpt] at hpa; cases hpa
    · exfalso
      subst he
      have := step_adopt_sets hpa hd0 hs
      rw [h'] at this; cases this

end Note
