import NsyncVerif.Proofs.MuCSpinApi
import NsyncVerif.Proofs.MuCQScan
/-
  MuC: mu->waiters (`queue`) is changed only by the owner of MU_SPINLOCK, or by a step that takes the spinlock.
  `queue_frame`: while thread `u` owns the spinlock no step of anybody else changes `queue`.
-/
namespace NsyncVerif.MuC

/-- While conditions are being tested the plain code of the scan does not touch mu->waiters. -/
theorem scanRun_queue_tc : ∀ (n : Nat) (s : State) (t : Tid) (r : Ret) (sc : Scan) (s' : State),
    scanRun n s t r sc = .ok s' → sc.tc = true → s'.queue = s.queue := by
  intro n
  cases n with
  | zero => intro s t r sc s' h; simp [scanRun] at h
  | succ n =>
    intro s t r sc s' h htc
    unfold scanRun at h
    have hsp := scanGo_spec s.wr sc.todo sc
    split at h
    · cases h
    · simp only [Except.ok.injEq] at h; subst h; simp
    · simp only [Except.ok.injEq] at h; subst h; simp
    · rename_i sc' heq
      rw [heq] at hsp
      split at h
      · simp only [Except.ok.injEq] at h; subst h; simp
      · rename_i hn; exact absurd (hsp.2 ▸ htc) hn

theorem afterEval_queue {s : State} {sc : Scan} {t : Tid} {r : Ret} {res : Bool} {s' : State}
    (h : afterEval s t r sc res = .ok s') (htc : sc.tc = true) : s'.queue = s.queue := by
  unfold afterEval at h
  split at h
  · cases h
  · rename_i k rest hk
    split at h
    · exact scanRun_queue_tc _ _ _ _ _ _ h htc
    · split at h
      · simp only [Except.ok.injEq] at h; subst h; simp
      · cases h
      · rename_i sc' hw
        obtain ⟨_, h2, _⟩ := wakeOrPass_inr hw
        exact scanRun_queue_tc _ _ _ _ _ _ h (h2 ▸ htc)

macro "q_local" : tactic => `(tactic|
  first
  | (simp [dropW, setHeld, afterFin_eq, afterWakes_eq, mwLoop_eq]; done)
  | (simp [dropW, setHeld, afterFin_eq, afterWakes_eq, mwLoop_eq] <;> (repeat' split) <;> simp))

/-- a thread at a program point that holds the spinlock is the owner -/
macro "q_owner" h3:ident hsp:ident hne:ident heq:ident : tactic => `(tactic|
  (exfalso
   have hown := (($h3).own _).2 (by rw [$heq:ident]; simp [PC.spin])
   rw [$hsp:ident] at hown
   exact $hne (Option.some.inj hown).symm))

macro "ld_caseQ" hs:ident : tactic => `(tactic|
  (try dsimp only at $hs:ident
   try simp only [ldWord, ldWaiting, casWord] at $hs:ident
   repeat' split at $hs:ident
   all_goals first
     | (cases $hs:ident; done)
     | (cases $hs:ident; q_local)
     | (cases $hs:ident; split <;> q_local)))

variable {s s' : State} {t u : Tid}

theorem queue_stepLd {o : Ord} {loc : Loc} {obs : Nat} (h3 : Inv3 s) (hsp : s.sp = some u) (hne : t ≠ u)
    (hs : stepLd s t o loc obs = .ok s') : s'.queue = s.queue := by
  unfold stepLd at hs
  split at hs
  all_goals first
    | (ld_caseQ hs)
    | skip
  -- mtLdRc
  rename_i c old heq
  q_owner h3 hsp hne heq

theorem queue_stepSt {o : Ord} {loc : Loc} {new obs : Nat} (h3 : Inv3 s) (hsp : s.sp = some u) (hne : t ≠ u)
    (hs : stepSt s t o loc new obs = .ok s') : s'.queue = s.queue := by
  unfold stepSt at hs
  split at hs
  · rename_i c heq; q_owner h3 hsp hne heq
  all_goals first
    | (ld_caseQ hs)
    | skip

end NsyncVerif.MuC
