/-
  Proofs/WaitNSem11.lean — `TI` is preserved by the caller's own steps inside the do-while, part 2:
  nsync_note_notified_deadline_ as note_ready_time (v, &nw[i]).
  The decisive points: the load of `notified` under note_mu (`ld1`: a cleared record belongs to a notified or
  expired note, so the observed value / the clock will say "ready"), and the clock read (`now`).
-/
import NsyncVerif.Proofs.WaitNSem10

set_option linter.unusedSimpArgs false
set_option linter.unusedVariables false

namespace WaitN

theorem ti_stepND_loop {s s' : State} {b : SemId → Bool} {t : Tid} {e : Ev} {i : Nat} {st : NDst}
    (hr : Reachable s) (sb : SB s) (hs : stepThr s t e = .ok s') (ti : TI s b t)
    (hpc : s.pc t = .wND .loop i st) (h : stepND s t .loop i st e = .ok s') : TI s' (binStep b (.thr t e)) t := by
  have hl : LInv (.wND .loop i st) (s.fr t) := hpc ▸ linv_of_reachable hr t
  obtain ⟨n, hn⟩ := hl.2
  have Kd : dflt s t e = .ok s' → TI s' (binStep b (.thr t e)) t := fun h => ti_keeps hr sb hs (keeps_dflt h) ti
  have Ko : stepOpen s t e = .ok s' → TI s' (binStep b (.thr t e)) t := fun h => ti_keeps hr sb hs (keeps_stepOpen h) ti
  have hsl : inSleep (s.pc t) = true := by rw [hpc]; rfl
  have hnp : ∀ j, s.pc t ≠ .wPdWait j := by rw [hpc]; simp
  have hlt := lt_count_of_get hn
  -- a move to another program point of the same call
  have go : ∀ st', s'.fr t = s.fr t → s'.pc t = .wND .loop i st' →
      (∀ r, (s.fr t).recs[i]? = some r → (s'.rcd r).waiting = false → sReady s' (s.fr t) i → ndSees s n st →
        ndSees s' n st') → TI s' (binStep b (.thr t e)) t := by
    intro st' hfr hpc' hsee
    refine ti_scan_go hr sb hs ti hsl (by rw [hpc']; rfl) hnp hfr (by rw [hpc', hpc]; rfl) ?_
    intro i' r hri hw' hrd hseen
    rw [hpc] at hseen; rw [hpc']
    rcases hseen with h1 | h1
    · exact .inl h1
    · right
      rcases (show i < i' ∨ (i = i' ∧ ∀ n, (s.fr t).objs[i]? = some (.note n) → ndSees s n st) from h1) with h2 | ⟨h2, h3⟩
      · exact .inl h2
      · subst h2
        exact .inr ⟨rfl, fun n' hn' => by rw [hn] at hn'; cases hn'; exact hsee r hri hw' hrd (h3 n hn)⟩
  -- the call returns "ready"
  have rdy : ∀ time, dlePast time = true → rtDone s t .loop i time = .ok s' → TI s' (binStep b (.thr t e)) t :=
    fun time ht h => ti_rtDone_loop hr sb hs ti hsl (by rw [hpc]; rfl) hlt hnp
      (fun ht' => by rw [ht] at ht'; cases ht') (fun ht' => by rw [ht] at ht'; cases ht') h
  unfold stepND at h
  rw [hn] at h
  dsimp only at h
  cases st <;> dsimp only at h <;> split_ok h
  all_goals first
    | exact Kd h
    | exact Ko h
    | exact rdy _ rfl h
    | exact rdy _ ‹_› h
    | (cases h; exact go _ rfl (if_pos rfl) (fun _ _ _ _ _ => trivial))
    | skip
  · -- ld1: ATM_LOAD_ACQ (&n->notified) under note_mu
    rename_i n' obs hg
    cases h
    refine go _ rfl (if_pos rfl) ?_
    intro r _ _ hrd _
    unfold sReady at hrd
    rw [hn] at hrd
    rcases hrd with hfl | hex
    · left
      simp only [setPc_obj] at hfl
      rw [hg.2, hfl]; simp
    · exact .inr hex
  · -- unlock of note_mu
    cases h
    refine go _ rfl (if_pos rfl) ?_
    intro r _ _ _ hsee
    rcases hsee with h1 | h1
    · exact .inl h1
    · right; simpa using h1
  · -- not notified, deadline after time zero: read the clock next
    rename_i obs hpc0 hno hnd
    cases h
    refine go _ rfl (if_pos rfl) ?_
    intro r _ _ _ hsee
    rcases hsee with h1 | h1
    · exact absurd h1 hno
    · exact h1
  · -- `now`: the deadline has not passed; ready time = expiry
    rename_i ns hns hne
    subst hns
    refine ti_rtDone_loop hr sb hs ti hsl (by rw [hpc]; rfl) hlt hnp ?_ ?_ h
    · intro _ r _ _ _ hseen
      rw [hpc] at hseen
      rcases hseen with h1 | h1
      · exact h1
      · exfalso
        rcases (show i < i ∨ (i = i ∧ ∀ n, (s.fr t).objs[i]? = some (.note n) → ndSees s n .now) from h1) with h2 | ⟨_, h3⟩
        · exact absurd h2 (Nat.lt_irrefl _)
        · exact hne (h3 n hn)
    · intro _ n' hn'; rw [hn] at hn'; cases hn'; rfl

end WaitN
