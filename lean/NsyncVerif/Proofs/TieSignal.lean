import NsyncVerif.Gen.Sites
import NsyncVerif.Proofs.CvFixVC
/-
  Tie lemma (T-gen) for the cv-signal edge of C03: the order `siteOrd` gives to each of the 45 atomic
  sites of cv.c / wait.c / common.c / debug.c (emit_cv_state, emit_waiters: the observers of C16) that the product CvFix × vector clocks uses is the order the macro
  at that site of /repo's CURRENT source requests (regenerated table `Gen.sites`).  A weakened
  `ATM_STORE_REL (&p_nw->waiting, 0)` or `ATM_LOAD_ACQ (&w->nw.waiting)`, a moved or added site in
  these functions makes this fail — also at sites no explored schedule reaches.
-/
namespace NsyncVerif.Tie
theorem signal_sites_tie : NsyncVerif.CvFix.sitesAgree Gen.sites = true := by decide
end NsyncVerif.Tie
