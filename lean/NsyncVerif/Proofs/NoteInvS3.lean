/-
  Layer `Note`, invariant family S: how flags, children lists and parent pointers change, and the
  preservation of the whole invariant.
-/
import NsyncVerif.Proofs.NoteInvS2

set_option linter.unusedSimpArgs false

namespace Note

/-- A flag is set only by note.c:89, for the note of the innermost activation, or by
    `nsync_note_new` for the note it is creating, when it finds the parent notified (note.c/7). -/
theorem step_flag_new {s s' : State} {e : Event} (hs : step s e = .ok s') (n : NoteId)
    (hn : (s'.notes n).notified = true) :
    (s.notes n).notified = true ∨
    (∃ a f rest top, e.actor = some a ∧ s.pc a = .chd .st (f :: rest) top ∧ f.note = n) ∨
    (∃ a p dl, e.actor = some a ∧ s.pc a = .newP .st n p dl) := by
  cases e
  all_goals step_cases hs
  all_goals (try (left; exact hn))
  all_goals (try (left; simpa using hn))
  all_goals (repeat' split at hn)
  all_goals (try (left; simpa using hn))
  all_goals (first
    | (simp only [childWakeNext_f_notified, setNotified_f_notified] at hn
       split at hn
       · next h =>
         right; left
         exact ⟨_, _, _, _, rfl, by assumption, by
           have := (by assumption : _ = Site.childSt ∧ _ ∧ _ ∧ _).2.2.1
           rw [← this, h]⟩
       · left; exact hn)
    | (simp only [setPc_notes, markBorn_notes, setNotified_f_notified] at hn
       split at hn
       · next h => subst h; right; right; exact ⟨_, _, _, rfl, by assumption⟩
       · left; exact hn)
    | (simp only [setPc_notes, allocNote_f] at hn
       split at hn
       · simp [NoteRec.blank] at hn
       · left; exact hn))

/-- A note enters a children list only by `nsync_note_new` (note.c:186) or by the adoption in
    `nsync_note_free` (note.c:217). -/
theorem step_children {s s' : State} {e : Event} (hs : step s e = .ok s') (p c : NoteId)
    (hc : c ∈ (s'.notes p).children) :
    c ∈ (s.notes p).children ∨
    (∃ a dl, e.actor = some a ∧ s.pc a = .newP .ld c p dl) ∨
    (∃ a n nx, e.actor = some a ∧ s.pc a = .fr .lockChildRet n (some p) c nx) := by
  cases e
  all_goals step_cases hs
  all_goals (try (left; exact hc))
  all_goals (try (left; simpa using hc))
  all_goals (repeat' split at hc)
  all_goals (try (left; simpa using hc))
  -- nsync_note_new links the child
  all_goals (try (
    simp only [setPc_notes, link_f_children, setExpiry_f_children] at hc
    split at hc
    · next hp =>
      subst hp
      rcases List.mem_append.mp hc with h | h
      · left; exact h
      · simp only [List.mem_singleton] at h; subst h
        right; left; exact ⟨_, _, rfl, by assumption⟩
    · left; exact hc))
  -- nsync_note_free adopts / drops a child
  all_goals (try (
    simp only [setPc_notes, link_f_children, eraseChild_f_children, clearParent_f_children,
      acquire_f_children, setAdopted_f_children] at hc
    first
      | (split at hc
         · next hp =>
           subst hp
           rcases List.mem_append.mp hc with h | h
           · left
             split at h
             · exact List.mem_of_mem_erase h
             · exact h
           · simp only [List.mem_singleton] at h; subst h
             right; right; exact ⟨_, _, _, rfl, by assumption⟩
         · left
           split at hc
           · exact List.mem_of_mem_erase hc
           · exact hc)
      | (left
         split at hc
         · exact List.mem_of_mem_erase hc
         · exact hc)))
  -- disconnections
  all_goals (try (
    left
    simp only [setPc_notes, childReturn_f_children, unlink_f_children, acquire_f_children] at hc
    split at hc
    · exact List.mem_of_mem_erase hc
    · exact hc))
  -- malloc
  · left
    simp only [setPc_notes, allocNote_f] at hc
    split at hc
    · simp [NoteRec.blank] at hc
    · exact hc

/-- A parent pointer is set only by `nsync_note_new` (note.c:185) or by the adoption in
    `nsync_note_free` (note.c:216). -/
theorem step_parent {s s' : State} {e : Event} (hs : step s e = .ok s') (p c : NoteId)
    (hc : (s'.notes c).parent = some p) :
    (s.notes c).parent = some p ∨
    (∃ a dl, e.actor = some a ∧ s.pc a = .newP .ld c p dl) ∨
    (∃ a n nx, e.actor = some a ∧ s.pc a = .fr .lockChildRet n (some p) c nx) := by
  cases e
  all_goals step_cases hs
  all_goals (try (left; exact hc))
  all_goals (try (left; simpa using hc))
  all_goals (repeat' split at hc)
  all_goals (try (left; simpa using hc))
  -- nsync_note_new links the child
  all_goals (try (
    simp only [setPc_notes, link_f_parent, setExpiry_f_parent] at hc
    split at hc
    · next hp =>
      subst hp
      simp only [Option.some.injEq] at hc; subst hc
      right; left; exact ⟨_, _, rfl, by assumption⟩
    · left; exact hc))
  -- nsync_note_free adopts a child
  all_goals (try (
    simp only [setPc_notes, link_f_parent, eraseChild_f_parent, acquire_f_parent,
      setAdopted_f_parent] at hc
    split at hc
    · next hp =>
      subst hp
      simp only [Option.some.injEq] at hc; subst hc
      right; right; exact ⟨_, _, _, rfl, by assumption⟩
    · left; exact hc))
  -- parent pointers cleared
  all_goals (try (
    left
    simp only [setPc_notes, childReturn_f_parent, unlink_f_parent, acquire_f_parent,
      clearParent_f_parent, eraseChild_f_parent] at hc
    split at hc
    · simp at hc
    · exact hc))
  -- malloc
  · left
    simp only [setPc_notes, allocNote_f] at hc
    split at hc
    · simp [NoteRec.blank] at hc
    · exact hc

/-- The ghost history of a note is written once, by the `malloc` that creates the note. -/
theorem step_ghost {s s' : State} {e : Event} (hs : step s e = .ok s') (n : NoteId) :
    (s'.ancEver n = s.ancEver n ∧ s'.ownDl n = s.ownDl n ∧ s'.pathMin n = s.pathMin n) ∨
    ((s.notes n).allocated = false ∧ (s'.notes n).allocated = true) := by
  cases e
  all_goals step_cases hs
  all_goals (try (left; exact ⟨rfl, rfl, rfl⟩))
  all_goals (try (left; simp; done))
  all_goals (repeat' split)
  all_goals (try (left; simp; done))
  · rename_i k hfresh
    by_cases hk : n = k
    · subst hk; right; exact ⟨hfresh, by simp⟩
    · left; simp [upd_apply, hk]

end Note
