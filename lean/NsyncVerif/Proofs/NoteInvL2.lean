/-
  Layer `Note`, invariant family L: the claim of the acting thread after its step.
-/
import NsyncVerif.Proofs.NoteInvL

set_option linter.unusedSimpArgs false

namespace Note

/-- The new program counter's claim holds already in the old state. -/
theorem LClaim.actor0 {s s' : State} {e : Event} (hS : InvS s) (hL : InvL s) (hN : InvN s)
    (hs : Note.step s e = .ok s') (a : Tid) (ha : e.actor = some a) : LClaim s (s'.pc a) := by
  have hc := hL.claim a
  have hcN := hN.claim a
  cases e
  all_goals step_cases hs
  all_goals simp only [Event.actor, Option.some.injEq, reduceCtorEq] at ha
  all_goals (try subst ha)
  all_goals (try (rw [‹s.pc _ = _›] at hc hcN))
  all_goals (try (simp only [setPc_pc, upd_same, afterDeadline_pc, afterNotify_pc, childReturn_pc,
    childWakeNext_pc, childScanStart_pc, acquire_f_children, freeLoopStart_pc, enterChild_pc, leave_pc, addUser_pc, markCalled_pc,
    markFreeing_pc, setAfter_pc, pushObs_pc, publish_pc, delUser_pc]))
  all_goals (try (simp [LClaim]; done))
  all_goals (try (simp_all [LClaim]; done))
  all_goals (try (exact LClaim.afterDeadlinePc _ _ _ _))
  all_goals (try (exact LClaim.afterNotifyPc _ _ _))
  all_goals (try (exact LClaim.childReturnPc hc))
  all_goals (try (exact LClaim.childWakeNextPc hS hL hc (by simp)))
  all_goals (try (exact LClaim.childLoopStartPc hS hL hc))
  all_goals (try (exact LClaim.freeLoopStartPc hS hL (by simp) hc.1 hc.2.1))
  all_goals (try (exact LClaim.freeLoopStartPc hS hL (by simp) hc.1 (fun _ h => by cases h)))
  -- call nsync_note_free
  all_goals (try (exact ⟨(by assumption : s.Live _).1, by simp, by simp⟩))
  all_goals (try (exact LClaim.push hc))
  all_goals (try (exact LClaim.enter hc))
  all_goals (try (exact LClaim.enter (fun _ h => by cases h)))
  -- the parent is read under the note's lock
  all_goals (try (
    intro p hp; cases hp
    exact ⟨hS.parent _ _ (by assumption), hL.parent _ _ (by assumption)⟩))
  all_goals (try (
    refine ⟨hc.1, fun p hp => ?_, by simp⟩
    cases hp
    exact ⟨hS.parent _ _ (by assumption), hL.parent _ _ (by assumption)⟩))
  -- the loops move to the next child
  all_goals (try (
    refine LClaim.chdMove hS hL hc rfl ?_
    intro c hc'
    simp only [CPos.cur, Option.some.injEq] at hc'
    subst hc'; assumption))
  all_goals (try (
    exact ⟨hc.1, hc.2.1,
      fun _ => ⟨hS.children _ _ (by assumption), hL.children _ _ (by assumption)⟩⟩))

end Note
