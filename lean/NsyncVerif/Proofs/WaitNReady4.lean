/-
  Proofs/WaitNReady4.lean — `TF` across rtDone / deqDone / afterEnq / startScan (own steps).
-/
import NsyncVerif.Proofs.WaitNReady3

set_option linter.unusedSimpArgs false
set_option linter.unusedVariables false

namespace WaitN

theorem inLoop_upd {f : Frame} (hl : InLoop f) (m : Deadline) (x : Option Nat) (w : Why)
    (hm : dlePast m = true → w ≠ .none) : InLoop { f with min := m, who := x, why := w } :=
  { hl with whyMin := hm }

theorem inLoop_upd2 {f : Frame} (hl : InLoop f) (m : Deadline) (x : Option Nat)
    (hm : dlePast m = true → f.why ≠ .none) : InLoop { f with min := m, who := x } :=
  { hl with whyMin := hm }

theorem dlt_none (d : Deadline) : dlt none d = false := by cases d <;> rfl

theorem tf_rtDone_poll {s s' : State} {t : Tid} {i : Nat} {time : Deadline}
    (hf : Fresh (s.fr t)) (hr : (s.fr t).ready = (s.fr t).count)
    (hw : Waited s (s.fr t) (i + 1)) (hready : dlePast time = true → sReady s (s.fr t) i)
    (h : rtDone s t .poll i time = .ok s') : TF s' (s'.pc t) (s'.fr t) := by
  unfold rtDone at h
  simp only at h
  split at h
  · rename_i hd
    cases h
    simp only [setPc_pc, setPc_fr, setFr_fr, if_true]
    refine tf_congr (s := s) rfl rfl rfl ?_
    refine ⟨fun ht => (by rw [hf.why] at ht; cases ht), fun k hk => (by rw [hf.why] at hk; cases hk), fun _ _ => hready hd, ?_⟩
    intro _ hcv
    have hsr := hready hd
    unfold sReady at hsr
    obtain ⟨c, hc⟩ := hcv
    simp only at hc
    rw [hc] at hsr
    obtain ⟨r, hr, _⟩ := hsr
    rw [hf.recs] at hr; cases hr
  · cases h
    simp only [setPc_pc, setPc_fr, if_true]
    exact tf_congr (s := s) rfl rfl rfl (tf_pollNext hf hr _ hw)

theorem tf_rtDone_loop {s s' : State} {t : Tid} {i : Nat} {time : Deadline}
    (hl : InLoop (s.fr t)) (hw : Waited s (s.fr t) (s.fr t).count) (hlf : LoopF s (s.fr t))
    (hready : dlePast time = true → sReady s (s.fr t) i)
    (hnr : dlePast time = false → time = none ∨ ∃ n, (s.fr t).objs[i]? = some (.note n) ∧ time = (s.obj (.note n)).expiry)
    (h : rtDone s t .loop i time = .ok s') : TF s' (s'.pc t) (s'.fr t) := by
  unfold rtDone at h
  simp only at h
  cases h
  simp only [setPc_pc, setPc_fr, setFr_fr, if_true]
  refine tf_congr (s := s) rfl rfl rfl ?_
  split
  · rename_i hd
    apply tf_loopNext (by exact hw) _ (inLoop_upd hl _ _ _ (fun _ => by simp))
    refine ⟨fun hn => (by cases hn), fun k hk hm => (by simp [dlePast] at hm), ?_, (by simp)⟩
    intro k hk
    simp only at hk; cases hk
    exact hready hd
  · rename_i hd
    have hd : dlePast time = false := by simpa using hd
    split
    · rename_i hlt
      apply tf_loopNext (by exact hw) _ (inLoop_upd2 hl _ _ (fun hm => by rw [hm] at hd; cases hd))
      refine ⟨fun hn => (by cases hn), ?_, hlf.why, hlf.noTmo⟩
      intro k hk hm
      simp only at hk; cases hk
      rcases hnr hd with h0 | h0
      · rw [h0, dlt_none] at hlt; cases hlt
      · exact h0
    · exact tf_loopNext hw hlf hl _

theorem tf_rtDone_deq {s s' : State} {t : Tid} {i : Nat} {time : Deadline} {st : NDst}
    (htf : TF s (.wND .deq i st) (s.fr t))
    (hn : ∀ n, (s.fr t).objs[i]? = some (.note n) → (s.fr t).why = .readyAt i → noteNotif s n)
    (h : rtDone s t .deq i time = .ok s') : TF s' (s'.pc t) (s'.fr t) := by
  unfold rtDone at h
  simp only at h
  cases h
  simp only [setPc_pc, setPc_fr, if_true]
  exact tf_congr (s := s) rfl rfl rfl ⟨htf.1, htf.2.1, hn⟩

/-- the dequeue loop: result `res` of the call on object j -/
theorem deqF_push {s : State} {f : Frame} {j : Nat} {res : Bool} (h : DeqF s f) (hl : f.deqRes.length = j)
    (hjr : j < f.recs.length) (hres : ResF s f j res ∨ (isCvAt f j ∧ (f.why = .readyAt j → res = false))) :
    DeqF s { f with ready := if !res ∧ f.ready = f.count then j else f.ready, deqRes := f.deqRes ++ [res] } := by
  have hw : f.why = .readyAt j → res = false := by
    rcases hres with h' | h'
    · exact h'.1
    · exact h'.2
  refine ⟨h.tmo, ?_, ?_⟩
  · intro k hk
    simp only at hk
    by_cases hkj : k = j
    · subst hkj
      left
      simp [hl, hw hk]
    · rcases h.why k hk with h1 | ⟨h1, h2, h3⟩
      · left
        have : k < f.deqRes.length := by
          rcases Nat.lt_or_ge k f.deqRes.length with h' | h'
          · exact h'
          · rw [List.getElem?_eq_none h'] at h1; cases h1
        simp only [List.getElem?_append_left this]; exact h1
      · right
        refine ⟨by simp; omega, h2, h3⟩
  · show (if !res ∧ f.ready = f.count then j else f.ready) < f.count →
      ¬ isCvAt f (if !res ∧ f.ready = f.count then j else f.ready) → sReady s f (if !res ∧ f.ready = f.count then j else f.ready)
    split
    · rename_i hc
      intro _ hncv
      have hrf : res = false := by simpa using hc.1
      rcases hres with h' | h'
      · exact h'.2 hrf
      · exact absurd h'.1 hncv
    · exact h.rdy

theorem PostF.semFreed {s : State} {f : Frame} (v b) (h : PostF s f) : PostF s { f with sem := v, freed := b } :=
  { h with }
theorem PostF.freedOnly {s : State} {f : Frame} (b) (h : PostF s f) : PostF s { f with freed := b } := { h with }

theorem DeqF.setUnl {s : State} {f : Frame} (u : List Unl) (h : DeqF s f) : DeqF s { f with deqUnl := u } := { h with }

theorem tf_deqDone {s s' : State} {t : Tid} {j : Nat} {res : Bool}
    (hd : InDeq (s.fr t)) (hw : Waited s (s.fr t) (s.fr t).count) (h0 : DeqF s (s.fr t))
    (hl : (s.fr t).deqRes.length = j) (hjr : j < (s.fr t).recs.length)
    (hres : ResF s (s.fr t) j res ∨ (isCvAt (s.fr t) j ∧ ((s.fr t).why = .readyAt j → res = false)))
    (h : deqDone s t j res = .ok s') : TF s' (s'.pc t) (s'.fr t) := by
  have hpush0 := deqF_push h0 hl hjr hres
  have hpush := fun u => DeqF.setUnl u hpush0
  unfold deqDone at h
  dsimp only at h
  split at h
  · rename_i hlt
    cases h
    simp only [setPc_pc, setPc_fr, setFr_fr, if_true]
    refine tf_congr (s := s) rfl rfl rfl ?_
    exact tf_deqNext (by exact hw) (hpush _) (by simp; omega) hd.len hlt
  · rename_i hlt
    cases h
    simp only [setPc_pc, setPc_fr, if_true]
    refine tf_congr (s := s) (shared_unbindSem _ t).1 (shared_unbindSem _ t).2.1 (shared_unbindSem _ t).2.2 ?_
    unfold unbindSem
    split
    · simp only [setSemUser_fr, setFr_fr, if_true]
      exact tf_finNext (PostF.semFreed _ _ (postF_of_deqF (hpush _) (by simp at hlt ⊢; omega) (by simp; intro h0; have := hd.npos; rw [h0] at this; cases this)))
    · simp only [setFr_fr, if_true]
      exact tf_finNext (PostF.freedOnly _ (postF_of_deqF (hpush _) (by simp at hlt ⊢; omega) (by simp; intro h0; have := hd.npos; rw [h0] at this; cases this)))

theorem tf_afterEnq {s s' : State} {t : Tid} {i : Nat} {res : Bool}
    (hp : PreLoop (s.fr t)) (hl : (s.fr t).recs.length = i + 1) (hwn : (s.fr t).why = .none)
    (hw : Waited s (s.fr t) (s.fr t).count) (hres : res = false → sReady s (s.fr t) i)
    (h : afterEnq s t (i + 1) res = .ok s') : TF s' (s'.pc t) (s'.fr t) := by
  unfold afterEnq at h
  dsimp only at h
  cases h
  simp only [setPc_pc, setPc_fr, setFr_fr, if_true]
  refine tf_congr (s := s) rfl rfl rfl ?_
  cases res with
  | true =>
    simp only [if_true]
    exact tf_enqNext (res := true) (by exact hw) { hp with } hl rfl (by simpa using hwn)
  | false =>
    simp only [Bool.false_eq_true, if_false]
    exact tf_enqNext (res := false) (by exact hw) { hp with } hl rfl (by simp; exact hres rfl)

theorem tf_startScan {s : State} {t : Tid} (hl : InLoop (s.fr t)) (hw : Waited s (s.fr t) (s.fr t).count)
    (hlf : LoopF s (s.fr t)) : TF (startScan s t) ((startScan s t).pc t) ((startScan s t).fr t) := by
  unfold startScan
  simp only [setPc_pc, setPc_fr, setFr_fr, if_true]
  refine tf_congr (s := s) rfl rfl rfl ?_
  apply tf_loopNext (by exact hw) _ (inLoop_upd2 hl _ _ (by intro hm; rw [hl.dl] at hm; cases hm))
  exact ⟨fun _ => rfl, fun k hk => (by cases hk), hlf.why, hlf.noTmo⟩

end WaitN
