import NsyncVerif.Proofs.MuCInv12Hint
/-
  MuC, Inv12: the induction step, part 3 — somebody is responsible for every queued waiter without a condition.
-/
namespace NsyncVerif.MuC

theorem blocked_cases {l : Mode} {ign : Bool} {w : Word} (h : blocked l ign w = true) :
    (w.wlock = true ∨ w.readers ≠ 0) ∨ (ign = false ∧ (w.lw = true ∨ (l = .R ∧ w.ww = true))) := by
  cases l <;> simp [blocked] at h
  · rcases h with (h | h) | h
    · exact Or.inl (Or.inl h)
    · exact Or.inl (Or.inr h)
    · exact Or.inr ⟨h.1, Or.inl h.2⟩
  · rcases h with h | h
    · exact Or.inl (Or.inl h)
    · rcases h.2 with h2 | h2
      · exact Or.inr ⟨h.1, Or.inr ⟨rfl, h2⟩⟩
      · exact Or.inr ⟨h.1, Or.inl h2⟩

section state
variable {s : State}

theorem not_needN_of_not_waiting (a : Invs s) (hw : s.word.waiting = false) : ¬ NeedN s := by
  rintro (⟨k, hk, _⟩ | ⟨u, hu⟩)
  · have := a.i9.w4 k hk; rw [hw] at this; cases this
  · have := a.i9.w4p u hu; rw [hw] at this; cases this

theorem not_needN_of_af (a : Invs s) (haf : s.word.af = true) : ¬ NeedN s := by
  rintro (⟨k, hk, hc⟩ | ⟨u, hu⟩)
  · exact (a.i7.a1 haf k hk).1 hc
  · have := a.i7.enq u hu; rw [haf] at this; cases this

/-- A thread that gives up its share: nobody needs anything, or somebody else is responsible. -/
theorem resp_or_quietN (a : Invs s) {t : Tid} (hns : ¬ StrongResp s t)
    (hc : s.word.waiting = false ∨ s.word.desig = true ∨ (∃ u, u ≠ t ∧ shareOf s u ≠ none) ∨ s.word.af = true) :
    ¬ NeedN s ∨ ∃ u, u ≠ t ∧ RespT s u := by
  rcases hc with b | b | ⟨u, hu, b⟩ | b
  · exact Or.inl (not_needN_of_not_waiting a b)
  · obtain ⟨w, hw⟩ := a.i11.hd b
    refine Or.inr ⟨w, ?_, Or.inr (Or.inl hw)⟩
    intro e; subst e; exact hns hw
  · exact Or.inr ⟨u, hu, Or.inl b⟩
  · exact Or.inl (not_needN_of_af a b)

/-- A thread that is woken, waits inside lock_slow or spins after a timeout, on a mutex whose spinlock is free:
    it is responsible itself, or its record is queued and somebody is responsible for that. -/
theorem resp_of_cases (a : Invs s) (h : Inv12 s) (hnv : s.nwViol = false) (hsp : s.word.spin = false) (u : Tid)
    (hc : (s.pc u).woken = true ∨ (s.pc u).spin = true ∨ (∃ k, (s.pc u).lsRec = some k) ∨ (s.pc u).timedOut = true) :
    ∃ w, RespT s w := by
  rcases hc with b | b | ⟨k, b⟩ | b
  · exact ⟨u, Or.inr (Or.inl (Or.inr (Or.inl b)))⟩
  · have := a.i3.no_spin_of_free hsp u; rw [b] at this; cases this
  · by_cases hq : Queued s k
    · exact h.nm hnv (Or.inl ⟨k, hq, h.rcn u k b⟩)
    · exact ⟨u, Or.inr (Or.inl (Or.inr (Or.inr ⟨k, (lsRec_waitRec b).1, (lsRec_waitRec b).2, hq⟩)))⟩
  · exact ⟨u, Or.inr (Or.inr b)⟩

/-- At a successful enqueue CAS of lock_slow somebody is responsible: a holder, or what justifies the hint that blocked
    the thread. -/
theorem resp_at_enq (a : Invs s) (h : Inv12 s) (hnv : s.nwViol = false) {t : Tid} {c : SL} {old : Word}
    (hpc : s.pc t = .lsCasEnq c old) (hw : s.word = old) : ∃ w, RespT s w := by
  have hok8 := a.i8 t; rw [hpc] at hok8
  have hok3 := a.i3.ok3 t; rw [hpc] at hok3
  have hsp : s.word.spin = false := by rw [hw]; exact hok3
  rcases blocked_cases hok8.2 with b | ⟨_, b | ⟨_, b⟩⟩
  · obtain ⟨u, hu⟩ := holder_of_locked a.i1 (by rw [hw]; exact b)
    exact ⟨u, Or.inl hu⟩
  · obtain ⟨u, c', hu, hc'⟩ := h.lw (by rw [hw]; exact b)
    rcases lwl_cases (a.i8 u) hu hc' with d | d | d
    · exact resp_of_cases a h hnv hsp u (Or.inl d)
    · exact resp_of_cases a h hnv hsp u (Or.inr (Or.inl d))
    · exact resp_of_cases a h hnv hsp u (Or.inr (Or.inr (Or.inl d)))
  · rcases h.ww (by rw [hw]; exact b) with ⟨u, d | ⟨k, d1, d2, _, d4⟩⟩ | ⟨k, hq, _, he⟩
    · exact resp_of_cases a h hnv hsp u (wwA_cases (a.i8 u) d)
    · exact ⟨u, Or.inr (Or.inl (Or.inr (Or.inr ⟨k, d1, d2, d4⟩)))⟩
    · cases hcd : (s.wr k).cond with
      | none => exact h.nm hnv (Or.inl ⟨k, hq, hcd⟩)
      | some cd =>
        rw [hcd] at he
        exact a.i11.nm hnv ⟨k, cd, hq, hcd, he⟩

theorem strong_cases {t : Tid} (h : StrongResp s t) : (s.pc t).unl = true ∨ (s.pc t).woken = true ∨ InFlightRec s t := h

/-- The steps at which a responsible thread gives up: somebody else is responsible (or nobody needed anything). -/
theorem gaveUp_resp {s' : State} {t : Tid} (a : Invs s) (hg : GaveUp s s' t) (hnif : ¬ InFlightRec s t) (hr : RespT s t)
    (hN : NeedN s ∨ ∃ c old, s.pc t = .lsCasEnq c old ∧ s.word = old ∧ s'.pc t = .lsSt c) : ∃ w, w ≠ t ∧ RespT s w := by
  have needN_of : (∀ c old, s.pc t ≠ .lsCasEnq c old) → NeedN s := by
    intro hne
    rcases hN with b | ⟨c, old, b, _⟩
    · exact b
    · exact absurd b (hne c old)
  have of_quiet : (∀ c old, s.pc t ≠ .lsCasEnq c old) → (¬ NeedN s ∨ ∃ u, u ≠ t ∧ RespT s u) → ∃ w, w ≠ t ∧ RespT s w := by
    intro hne hq
    rcases hq with b | b
    · exact absurd (needN_of hne) b
    · exact b
  have hheld : s.pc t ≠ .idle → s.held t = none := fun b => a.i1.held_none b
  rcases hg with ⟨l, nw, hpc, hw⟩ | ⟨l, nw, old, hpc, hw⟩ | ⟨r, old, hpc, hw⟩ | ⟨c, old, hpc, hw⟩ | ⟨r, f, old, hpc, hw, _⟩ |
    ⟨c, old, hpc, hw, _⟩
  · -- ulCas0
    have hns : ¬ StrongResp s t := by
      intro b; rcases strong_cases b with b | b | b
      · rw [hpc] at b; cases b
      · rw [hpc] at b; cases b
      · exact hnif b
    refine of_quiet (by intro c old e; rw [hpc] at e; cases e) (resp_or_quietN a hns (Or.inl ?_))
    rw [hw]; cases l <;> simp [addWord, Word.zero]
  · -- ulCas1
    have hns : ¬ StrongResp s t := by
      intro b; rcases strong_cases b with b | b | b
      · rw [hpc] at b; cases b
      · rw [hpc] at b; cases b
      · exact hnif b
    have hok8 := a.i8 t; rw [hpc, ← hw] at hok8
    have hsh : shareOf s t = some l := by simp [shareOf, tshare, hheld (by rw [hpc]; simp), hpc, pcShare]
    refine of_quiet (by intro c old e; rw [hpc] at e; cases e) (resp_or_quietN a hns ?_)
    cases hwt : s.word.waiting with
    | false => exact Or.inl rfl
    | true =>
      cases hdg : s.word.desig with
      | true => exact Or.inr (Or.inl rfl)
      | false =>
        right; right
        cases l with
        | W =>
          right
          simp only [PC.ok8, hwt, hdg, Bool.not_false, Bool.and_true, Bool.true_and] at hok8
          have hok8' : nw = true ∧ s.word.af = true := by simpa using hok8
          exact hok8'.2
        | R =>
          simp only [PC.ok8, hwt, hdg, Bool.not_false, Bool.and_true, Bool.true_and] at hok8
          by_cases hrd : s.word.readers = 1
          · right
            simpa [hrd] using hok8
          · exact Or.inl (other_reader a.i1 hsh hrd)
  · -- usCasUnc
    have hns : ¬ StrongResp s t := by
      intro b; rcases strong_cases b with b | b | b
      · rw [hpc] at b; cases b
      · rw [hpc] at b; cases b
      · exact hnif b
    have hok8 := a.i8 t; rw [hpc, ← hw] at hok8
    have hsh : shareOf s t = some r.mode := by simp [shareOf, tshare, hheld (by rw [hpc]; simp), hpc, pcShare]
    refine of_quiet (by intro c old e; rw [hpc] at e; cases e) (resp_or_quietN a hns ?_)
    simp only [PC.ok8, uncontended] at hok8
    cases hwt : s.word.waiting with
    | false => exact Or.inl rfl
    | true =>
      cases hdg : s.word.desig with
      | true => exact Or.inr (Or.inl rfl)
      | false =>
        right; right
        by_cases hrd : 1 < s.word.readers
        · exact Or.inl (other_of_many_readers a.i1 hrd t)
        · right
          simp [hwt, hdg, hrd] at hok8
          exact hok8.2
  · -- mwRelCas, add0 = false
    have hns : ¬ StrongResp s t := by
      intro b; rcases strong_cases b with b | b | b
      · rw [hpc] at b; cases b
      · rw [hpc] at b; cases b
      · exact hnif b
    have hok8 := a.i8 t; rw [hpc] at hok8
    have hsh : shareOf s t = some c.l := by simp [shareOf, tshare, hheld (by rw [hpc]; simp), hpc, pcShare]
    have hne : ∀ c' old', s.pc t ≠ .lsCasEnq c' old' := by intro c' old' e; rw [hpc] at e; cases e
    obtain ⟨hadd, hsome⟩ := hok8
    rw [← hw] at hadd
    obtain ⟨k, hk⟩ := Option.isSome_iff_exists.mp hsome
    cases hdg : s.word.desig with
    | true => exact of_quiet hne (resp_or_quietN a hns (Or.inr (Or.inl hdg)))
    | false =>
      by_cases hrd : c.l = .R ∧ s.word.readers ≠ 1
      · exact of_quiet hne (resp_or_quietN a hns (Or.inr (Or.inr (Or.inl (other_reader a.i1 (by rw [hsh, hrd.1]) hrd.2)))))
      · exfalso
        have hhw : c.hadW = false := by
          cases hl : c.l with
          | W =>
            have hwl : s.word.wlock = true := by rw [a.i1.lock.wl, (a.i1.lock.wown t).2 (by rw [hsh, hl])]; rfl
            have := a.i1.lock.excl hwl
            simp [hl, subWord, this, hdg] at hadd
            exact hadd
          | R =>
            have : s.word.readers = 1 := by
              by_cases e : s.word.readers = 1
              · exact e
              · exact absurd ⟨hl, e⟩ hrd
            have hwl : s.word.wlock = false := by
              cases e : s.word.wlock with
              | false => rfl
              | true => have := a.i1.lock.excl e; omega
            simp [hl, subWord, this, hdg, hwl] at hadd
            exact hadd
        rcases needN_of hne with ⟨x, hx, hcn⟩ | ⟨u, hu⟩
        · have hxk := a.i10.prel t c k (by rw [hpc]; rfl) hk hhw x hx
          subst hxk
          have h5c := a.i5.h3 t x c.cond (by rw [hpc]; simp [PC.limboC, hk])
          have hpf := a.i10.pcf t c (by rw [hpc]; rfl)
          rw [← h5c, hcn] at hpf
          simp [evalOpt] at hpf
        · have hut : u ≠ t := by intro e; subst e; rw [hpc] at hu; cases hu
          have := a.i3.others_no_spin (t := t) (by rw [hpc]; rfl) u hut
          rw [enqPend_spin hu] at this; cases this
  · -- usFinCas
    have hok8 := a.i8 t; rw [hpc] at hok8
    have hne : ∀ c' old', s.pc t ≠ .lsCasEnq c' old' := by intro c' old' e; rw [hpc] at e; cases e
    by_cases hwk : f.wake = []
    · exfalso
      have hsaf : f.saf = true := by
        cases e : f.saf with
        | true => rfl
        | false => exact absurd hwk (hok8.1 e)
      rcases needN_of hne with ⟨x, hx, hcn⟩ | ⟨u, hu⟩
      · have hxq : x ∈ s.queue := by
          rcases hx with hx | ⟨u, sc, h1', _⟩
          · exact hx
          · exfalso
            by_cases e : u = t
            · subst e; rw [hpc] at h1'; cases h1'
            · exact e (a.i4.uniq u t (unl_of_scan h1') (by rw [hpc]; rfl))
        exact ((a.i7.fin t f (by rw [hpc]; rfl)).2 hsaf x hxq).2.has hcn
      · have hut : u ≠ t := by intro e; subst e; rw [hpc] at hu; cases hu
        have := a.i3.others_no_spin (t := t) (by rw [hpc]; rfl) u hut
        rw [enqPend_spin hu] at this; cases this
    · obtain ⟨k, hk⟩ := List.exists_mem_of_ne_nil _ hwk
      obtain ⟨u, hu1, hu2, hu3⟩ := inFlight_of_wake a.i4 a.i9 (t := t) (k := k) (by rw [hpc]; simpa [PC.wakeL] using hk)
      refine ⟨u, ?_, Or.inr (Or.inl (Or.inr (Or.inr ⟨k, hu1, hu2, hu3⟩)))⟩
      intro e; subst e; exact hnif ⟨k, hu1, hu2, hu3⟩
  · -- lsCasEnq
    have hok8 := a.i8 t; rw [hpc] at hok8
    have hsh : shareOf s t = none := by simp [shareOf, tshare, hheld (by rw [hpc]; simp), hpc, pcShare]
    cases hcl : c.clear with
    | false =>
      exfalso
      rcases hr with b | (b | b | b) | b
      · exact b hsh
      · rw [hpc] at b; cases b
      · rw [hpc] at b; simp [PC.woken, hcl] at b
      · exact hnif b
      · rw [hpc] at b; cases b
    | true =>
      have hb := hok8.2
      rw [← hok8.1.1, hcl, ← hw] at hb
      obtain ⟨u, hu⟩ := holder_of_locked a.i1 (by cases hl : c.l <;> simp_all [blocked])
      refine ⟨u, ?_, Or.inl hu⟩
      intro e; subst e; exact hu hsh

end state

section step
variable {s s' : State} {t : Tid}

/-- What is needed afterwards was needed before, or the step is a successful enqueue CAS of lock_slow. -/
theorem needN_back (a : Invs s) (a' : Invs s') (tl : StepTL s s' t) (hn' : NeedN s') :
    NeedN s ∨ ∃ c old, s.pc t = .lsCasEnq c old ∧ s.word = old ∧ s'.pc t = .lsSt c := by
  rcases hn' with ⟨k, hq', hcn'⟩ | ⟨u, hu⟩
  · have hw' := a'.i4.wait k hq'
    cases hw : (s.wr k).waiting with
    | false =>
      rcases (tl.rc.r2 k hw hw').1 with b | b
      · exact Or.inl (Or.inr ⟨t, b⟩)
      · exact absurd hq' (a'.i4.limbo t k b).2.1
    | true =>
      have hcn : (s.wr k).cond = none := by
        rcases tl.rc.r3 k with b | ⟨b, _⟩
        · rw [← b.2]; exact hcn'
        · rw [hw] at b; cases b
      obtain ⟨u', hu'⟩ := a'.i9.own k (Or.inl hq')
      have key : ∀ v, (s.pc v).waitRec = some k → NeedN s := by
        intro v hv
        rcases a.i9.w3 v k hv hw with b | ⟨x, hx⟩
        · exact Or.inl ⟨k, b, hcn⟩
        · exact absurd hq' (notQueued_keep a a' tl hv (a.i4.wk x k hx).2)
      by_cases e : u' = t
      · subst e
        rcases tl.wt.p1' k hu' with b | b | ⟨c, b⟩ | b
        · exact Or.inl (key u' b)
        · exact Or.inl (Or.inr ⟨u', b⟩)
        · exfalso
          obtain ⟨f1, f2, f3⟩ := mwRel_facts b
          rw [f1] at hu'
          have h5 := a'.i5.h3 u' k c.cond (by rw [f3, hu']; rfl)
          have hpf := a'.i10.pcf u' c f2
          rw [← h5, hcn'] at hpf
          simp [evalOpt] at hpf
        · have := a'.i9.hlf u' k b; rw [hw'] at this; cases this
      · rw [(tl.oth u' e).1] at hu'; exact Or.inl (key u' hu')
  · by_cases e : u = t
    · subst e
      rcases tl.wt.p11 hu with b | b
      · exact Or.inl (Or.inr ⟨u, b⟩)
      · exact Or.inr b
    · rw [(tl.oth u e).1] at hu; exact Or.inl (Or.inr ⟨u, hu⟩)

theorem inv12_nm_step (a : Invs s) (a' : Invs s') (tl : StepTL s s' t) (h : Inv12 s) (hnv' : s'.nwViol = false)
    (hn' : NeedN s') : ∃ w, RespT s' w := by
  have hnv := tl.nv hnv'
  have hN := needN_back a a' tl hn'
  have h1 : ∃ w, RespT s w := by
    rcases hN with b | ⟨c, old, e1, e2, _⟩
    · exact h.nm hnv b
    · exact resp_at_enq a h hnv e1 e2
  obtain ⟨w, hw⟩ := h1
  by_cases e : w = t
  · subst e
    rcases respT_step_self a a' tl hw with b | ⟨b1, b2⟩
    · exact ⟨w, b⟩
    · obtain ⟨u, hu, hr⟩ := gaveUp_resp a b1 b2 hw hN
      exact ⟨u, respT_step_other a a' tl hu hr⟩
  · exact ⟨w, respT_step_other a a' tl e hw⟩

/-- The induction step of `Inv12` for every event of a thread that is not a client data access. -/
theorem inv12_of_tl (a : Invs s) (a' : Invs s') (tl : StepTL s s' t) (h : Inv12 s) : Inv12 s' :=
  ⟨inv12_ww_step a a' tl h, inv12_wws_step a a' tl h, inv12_lw_step tl h, inv12_mtw_step a tl h, inv12_mtlw_step a tl h, inv12_ok_step tl h,
   inv12_rcn_step a tl h, inv12_nm_step a a' tl h⟩

end step

end NsyncVerif.MuC
