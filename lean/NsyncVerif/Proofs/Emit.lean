/-
Invariant of the emit buffer (layer "Emit"): after feeding the stream `s` to `emit_c`, starting
from `emit_init (.., n)`, the caller's buffer is exactly `specMem n s`, every store went to an
index in [0, n), and (pos, overflow) are determined by `s.length` and `n`.
-/
import NsyncVerif.Model.Emit

namespace NsyncVerif
namespace Emit

/-- Closed form of the buffer contents after the stream `s` (pointwise; `none` = untouched). -/
def specMem (n : Int) (s : List UInt8) (j : Int) : Option UInt8 :=
  if 0 ≤ j ∧ j < n then
    if (s.length : Int) ≤ n then s[j.toNat]?
    else if j = n - 1 then some 0
    else if n - 4 ≤ j then some 46
    else s[j.toNat]?
  else none

structure Inv (n : Int) (s : List UInt8) (b : Buf) : Prop where
  len : b.len = n
  wr : ∀ i ∈ b.written, 0 ≤ i ∧ i < n
  rd : ∀ j, b.mem j ≠ none → j ∈ b.written
  mem : ∀ j, b.mem j = specMem n s j
  noov : b.overflow = false → b.pos = s.length ∧ ((s.length : Int) ≤ n ∨ s = [])
  ov : b.overflow = true → n < s.length ∧ b.len ≤ b.pos

theorem inv_init (n : Int) : Inv n [] (init n) := by
  refine ⟨rfl, ?_, ?_, ?_, ?_, ?_⟩
  · intro i hi; simp [init] at hi
  · intro j hj; simp [init] at hj
  · intro j; unfold specMem
    by_cases hj : 0 ≤ j ∧ j < n
    · have h0 : ¬ n < 0 := by omega
      simp [init, hj, h0]
    · simp [init, hj]
  · intro _; simp [init]
  · intro h; simp [init] at h

/-! ### the three shapes of `specMem` when one character is appended -/

theorem specMem_snoc_fits {n : Int} {s : List UInt8} (c : UInt8) (h : (s.length : Int) < n)
    (j : Int) :
    specMem n (s ++ [c]) j = if j = s.length then some c else specMem n s j := by
  unfold specMem
  simp only [List.length_append, List.length_cons, List.length_nil]
  have h1 : ((s.length + (0 + 1) : Nat) : Int) ≤ n := by omega
  have h2 : (s.length : Int) ≤ n := by omega
  simp only [h1, h2, if_true]
  by_cases hj : 0 ≤ j ∧ j < n
  · simp only [hj, and_self, if_true]
    by_cases hjs : j = s.length
    · subst hjs; simp
    · simp only [hjs, if_false]
      rw [List.getElem?_append]
      by_cases hlt : j.toNat < s.length
      · simp [hlt]
      · have hge : s.length ≤ j.toNat := by omega
        have h3 : [c].length ≤ j.toNat - s.length := by simp only [List.length_singleton]; omega
        simp only [hlt, if_false]
        rw [List.getElem?_eq_none hge, List.getElem?_eq_none h3]
  · simp only [hj, if_false]
    have : j ≠ s.length := by omega
    simp [this]

theorem specMem_snoc_over {n : Int} {s : List UInt8} (c : UInt8) (h : n < (s.length : Int))
    (j : Int) : specMem n (s ++ [c]) j = specMem n s j := by
  unfold specMem
  simp only [List.length_append, List.length_cons, List.length_nil]
  have h1 : ¬ ((s.length + (0 + 1) : Nat) : Int) ≤ n := by omega
  have h2 : ¬ (s.length : Int) ≤ n := by omega
  simp only [h1, h2, if_false]
  by_cases hj : 0 ≤ j ∧ j < n
  · simp only [hj, and_self, if_true]
    have hlt : j.toNat < s.length := by omega
    rw [List.getElem?_append_left hlt]
  · simp [hj]

theorem specMem_snoc_trunc {n : Int} {s : List UInt8} (c : UInt8)
    (h : (s.length : Int) = n ∨ (s = [] ∧ n ≤ 0)) (j : Int) :
    specMem n (s ++ [c]) j =
      if 0 ≤ j ∧ j < n then
        (if j = n - 1 then some 0 else if n - 4 ≤ j then some 46 else specMem n s j)
      else specMem n s j := by
  have hlen : (s.length : Int) ≤ n ∨ n ≤ 0 := by omega
  unfold specMem
  simp only [List.length_append, List.length_cons, List.length_nil]
  by_cases hj : 0 ≤ j ∧ j < n
  · have hn : (s.length : Int) = n := by omega
    have h1 : ¬ ((s.length + (0 + 1) : Nat) : Int) ≤ n := by omega
    have h2 : (s.length : Int) ≤ n := by omega
    simp only [hj, and_self, if_true, h1, h2, if_false]
    by_cases ha : j = n - 1
    · simp [ha]
    · simp only [ha, if_false]
      by_cases hb : n - 4 ≤ j
      · simp [hb]
      · simp only [hb, if_false]
        have hlt : j.toNat < s.length := by omega
        rw [List.getElem?_append_left hlt]
  · simp [hj]

/-! ### the suffix loop -/

theorem suffixLoop_fields (l : List UInt8) (p : Int) (b : Buf) :
    (suffixLoop l p b).len = b.len ∧ (suffixLoop l p b).pos = b.pos ∧
    (suffixLoop l p b).overflow = b.overflow := by
  induction l generalizing p b with
  | nil => simp [suffixLoop]
  | cons c rest ih =>
    unfold suffixLoop
    split
    · have := ih (p - 1) (store b (p - 1) c); simpa [store] using this
    · simp

theorem suffixLoop_written (l : List UInt8) (p : Int) (b : Buf) :
    ∀ i ∈ (suffixLoop l p b).written, i ∈ b.written ∨ (0 ≤ i ∧ i < p) := by
  induction l generalizing p b with
  | nil => intro i hi; left; simpa [suffixLoop] using hi
  | cons c rest ih =>
    intro i hi
    unfold suffixLoop at hi
    split at hi
    · rcases ih (p - 1) (store b (p - 1) c) i hi with h | h
      · simp only [store, List.mem_append, List.mem_singleton] at h
        rcases h with h | h
        · left; exact h
        · right; omega
      · right; omega
    · left; exact hi

theorem suffixLoop_rd (l : List UInt8) (p : Int) (b : Buf)
    (hb : ∀ j, b.mem j ≠ none → j ∈ b.written) :
    ∀ j, (suffixLoop l p b).mem j ≠ none → j ∈ (suffixLoop l p b).written := by
  induction l generalizing p b with
  | nil => simpa [suffixLoop] using hb
  | cons c rest ih =>
    unfold suffixLoop
    split
    · apply ih
      intro j hj
      simp only [store, List.mem_append, List.mem_singleton]
      by_cases hji : j = p - 1
      · right; exact hji
      · left; apply hb; simpa [store, hji] using hj
    · exact hb

/-- Effect of the loop for the actual suffix "...\0" on memory. -/
theorem suffixLoop_mem (p : Int) (b : Buf) (j : Int) :
    (suffixLoop suffix.reverse p b).mem j =
      if 0 ≤ j ∧ j < p then
        (if j = p - 1 then some 0 else if p - 4 ≤ j then some 46 else b.mem j)
      else b.mem j := by
  have hs : suffix.reverse = [0, 46, 46, 46] := by decide
  rw [hs]
  by_cases h1 : p > 0
  · by_cases h2 : p - 1 > 0
    · by_cases h3 : p - 1 - 1 > 0
      · by_cases h4 : p - 1 - 1 - 1 > 0
        · simp only [suffixLoop, store, h1, h2, h3, h4, if_true]
          repeat' split
          all_goals first | rfl | omega
        · simp only [suffixLoop, store, h1, h2, h3, h4, if_true, if_false]
          repeat' split
          all_goals first | rfl | omega
      · simp only [suffixLoop, store, h1, h2, h3, if_true, if_false]
        repeat' split
        all_goals first | rfl | omega
    · simp only [suffixLoop, store, h1, h2, if_true, if_false]
      repeat' split
      all_goals first | rfl | omega
  · simp only [suffixLoop, h1, if_false]
    repeat' split
    all_goals first | rfl | omega

/-! ### one step, and the whole stream -/

theorem inv_emitC {n : Int} {s : List UInt8} {b : Buf} (c : UInt8) (h : Inv n s b) :
    Inv n (s ++ [c]) (emitC b c) := by
  obtain ⟨hlen, hwr, hrd, hmem, hnoov, hov⟩ := h
  unfold emitC
  by_cases hpos : b.pos < b.len
  · -- room left: plain store
    simp only [hpos, if_true]
    have hovf : b.overflow = false := by
      cases hb : b.overflow with
      | false => rfl
      | true => have := (hov hb).2; omega
    obtain ⟨hp, _⟩ := hnoov hovf
    have hfit : (s.length : Int) < n := by omega
    refine ⟨by simpa [store] using hlen, ?_, ?_, ?_, ?_, ?_⟩
    · intro i hi
      simp only [store, List.mem_append, List.mem_singleton] at hi
      rcases hi with hi | hi
      · exact hwr i hi
      · omega
    · intro j hj
      simp only [store, List.mem_append, List.mem_singleton]
      by_cases hji : j = b.pos
      · right; exact hji
      · left; apply hrd; simpa [store, hji] using hj
    · intro j
      rw [specMem_snoc_fits c hfit j]
      simp only [store, hp, hmem]
    · intro _
      simp only [List.length_append, List.length_cons, List.length_nil]
      constructor
      · omega
      · left; omega
    · intro hb; simp [store, hovf] at hb
  · simp only [hpos, if_false]
    cases hb : b.overflow with
    | false =>
      -- first character that does not fit: write the "..." suffix
      simp only [Bool.not_false, if_true]
      obtain ⟨hp, hs⟩ := hnoov hb
      have hf := suffixLoop_fields suffix.reverse b.len b
      have htr : (s.length : Int) = n ∨ (s = [] ∧ n ≤ 0) := by
        rcases hs with hs | hs
        · left; omega
        · subst hs
          have hp0 : b.pos = 0 := by simpa using hp
          by_cases hn : n = 0
          · left; simp only [List.length_nil]; omega
          · right; exact ⟨rfl, by omega⟩
      refine ⟨by simpa using hf.1.trans hlen, ?_, ?_, ?_, ?_, ?_⟩
      · intro i hi
        rcases suffixLoop_written _ _ _ i hi with h | h
        · exact hwr i h
        · omega
      · exact suffixLoop_rd _ _ _ hrd
      · intro j
        rw [specMem_snoc_trunc c htr j]
        simp only [suffixLoop_mem, hlen, hmem]
      · intro h; simp at h
      · intro _
        simp only [List.length_append, List.length_cons, List.length_nil, hf.1, hf.2.1]
        constructor
        · rcases htr with h | h
          · omega
          · have := h.1; subst this; simp only [List.length_nil]; omega
        · omega
    | true =>
      -- already truncated: nothing happens
      simp only [Bool.not_true, Bool.false_eq_true, if_false]
      obtain ⟨hlt, hle⟩ := hov hb
      refine ⟨hlen, hwr, hrd, ?_, ?_, ?_⟩
      · intro j; rw [specMem_snoc_over c hlt j]; exact hmem j
      · intro h; rw [hb] at h; cases h
      · intro _
        simp only [List.length_append, List.length_cons, List.length_nil]
        exact ⟨by omega, hle⟩

theorem inv_emitAll {n : Int} (cs : List UInt8) {s : List UInt8} {b : Buf} (h : Inv n s b) :
    Inv n (s ++ cs) (emitAll b cs) := by
  induction cs generalizing s b with
  | nil => simpa [emitAll] using h
  | cons c cs ih =>
    have := ih (inv_emitC c h)
    simpa [emitAll, List.append_assoc] using this

/-- The state after `emit_init`, the stream `cs`, and the final `emit_c (b, 0)`. -/
theorem inv_run (n : Int) (cs : List UInt8) : Inv n (cs ++ [0]) (run n cs) := by
  have h := inv_emitAll cs (inv_init n)
  simp only [List.nil_append] at h
  exact inv_emitC 0 h

/-- Overflow flag after the run: set iff the stream plus NUL did not fit. -/
theorem run_overflow (n : Int) (cs : List UInt8) :
    (run n cs).overflow = true ↔ n < (cs.length : Int) + 1 := by
  have h := inv_run n cs
  constructor
  · intro hb; have := (h.ov hb).1; simpa using this
  · intro hlt
    cases hb : (run n cs).overflow with
    | true => rfl
    | false =>
      have := (h.noov hb).2
      simp at this
      omega

end Emit
end NsyncVerif
