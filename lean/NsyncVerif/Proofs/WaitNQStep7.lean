/-
  Proofs/WaitNQStep7.lean — `QI ∧ CF` across cv_enqueue and note_enqueue / counter_enqueue.
-/
import NsyncVerif.Proofs.WaitNQStep6

set_option linter.unusedSimpArgs false
set_option linter.unusedVariables false

namespace WaitN

/-- facts about the record at index i of the caller's live frame -/
theorem own_rec {s : State} {t : Tid} {i : Nat} {r : Rid} (ho : Own s) (hc : inCall (s.pc t) = true)
    (hf : (s.fr t).frees = 0) (hr : (s.fr t).recs[i]? = some r) :
    (s.rcd r).live = true ∧ (s.rcd r).owner = t ∧ (s.fr t).objs[i]? = some (s.rcd r).obj :=
  ⟨(ho.own t r hc hf (List.mem_of_getElem? hr)).1, (ho.own t r hc hf (List.mem_of_getElem? hr)).2, ho.idx t i r hc hf hr⟩

/-- the caller holds no note / counter mutex before and after; only `waiting` / ghost fields of records and
    cv words may have changed -/
theorem cf_noHold {s s' : State} {t : Tid} (hcf : CF s t) (hfr : s'.fr t = s.fr t)
    (hh : holdsAt (s'.pc t) (s.fr t) = none) (he : enqTrueAt (s'.pc t) (s.fr t) = none)
    (hf : ∀ r, freshAt (s'.pc t) (s.fr t) = some r → (s'.rcd r).waiting = false)
    (hcl : ∀ r, clearedAt (s'.pc t) (s.fr t) = some r → (s'.rcd r).waiting = false)
    (hic : inCall (s'.pc t) = inCall (s.pc t)) (hdq : dqIdx (s'.pc t) (s.fr t) = dqIdx (s.pc t) (s.fr t))
    (hd : ∀ r, (s'.rcd r).deqd = (s.rcd r).deqd) : CF s' t := by
  constructor
  · intro o ho; rw [hfr, hh] at ho; cases ho
  · intro r hr; rw [hfr] at hr; exact hf r hr
  · intro r hr; rw [hfr] at hr; exact hcl r hr
  · intro o ho; rw [hfr, he] at ho; cases ho
  · intro hc hf0 k r hk
    rw [hfr] at hf0 hk ⊢
    rw [hdq, hd]; exact hcf.dq (hic ▸ hc) hf0 k r hk

theorem spinAcq_spec {s s' : State} {t : Tid} {c : Nat} {st : SpinSt} {mk : SpinSt → PC} {done : PC} {e : Ev}
    (h : spinAcq s t c st mk done e = .ok s') :
    s'.rcd = s.rcd ∧ s'.fr t = s.fr t ∧ (s'.pc t = s.pc t ∨ (∃ x, s'.pc t = mk x) ∨ s'.pc t = done) := by
  unfold spinAcq at h
  split_ok h
  all_goals first
    | (have k := keeps_dflt (t := t) h; have sh := shared_dflt h
       refine ⟨sh.2.1, ?_, .inl k.1⟩
       unfold dflt at h; split_ok h; all_goals (cases h; try rfl))
    | (cases h; refine ⟨rfl, rfl, .inr (.inl ⟨.ld, ?_⟩)⟩; simp; done)
    | (cases h; exact ⟨rfl, rfl, .inr (.inl ⟨.cas _, if_pos rfl⟩)⟩)
    | (cases h; refine ⟨rfl, rfl, .inr (.inr ?_)⟩; simp; done)

theorem qcf_stepEnqCv {s s' : State} {t : Tid} {i : Nat} {st0 : CvEnqSt} {e : Ev} (c : QCtx s t)
    (hpc : s.pc t = .wEnqCv i st0) (h : stepEnqCv s t i st0 e = .ok s') : QI s' ∧ CF s' t := by
  have hl : LInv (.wEnqCv i st0) (s.fr t) := hpc ▸ c.linv t
  have hc : inCall (s.pc t) = true := by rw [hpc]; rfl
  have hnop : opn (s.pc t) = false := by rw [hpc]; rfl
  have hpost := post_none_of_pc c.qi hnop
  have hmc := mc_none_of_pc c.qi hnop
  have hw0 := wk_none_of_opn hnop
  have hnd := noneDeqd_of_cf c.cf hc hl.1.frees (by rw [hpc]; rfl)
  unfold stepEnqCv at h
  split at h
  · rename_i cv r hoi hri
    have hor := own_rec c.own hc hl.1.frees hri
    dsimp only at h
    split at h
    · -- spin
      rename_i sp
      have hfresh : (s.rcd r).waiting = false := c.cf.fresh r (by rw [hpc]; simpa [freshAt] using hri)
      have sp' := spinAcq_spec h
      refine ⟨qi_spinAcq c.qi hw0 hpost hmc (fun _ => rfl) rfl h, ?_⟩
      have hpc' : ∃ st', s'.pc t = .wEnqCv i st' ∧ (st' = .store ∨ ∃ x, st' = .spin x) := by
        rcases sp'.2.2 with h1 | ⟨x, h1⟩ | h1
        · exact ⟨_, h1.trans hpc, .inr ⟨sp, rfl⟩⟩
        · exact ⟨_, h1, .inr ⟨x, rfl⟩⟩
        · exact ⟨_, h1, .inl rfl⟩
      obtain ⟨st', hst', hcase⟩ := hpc'
      refine cf_noHold c.cf sp'.2.1 (by rw [hst']; rfl) (by rw [hst']; rfl) ?_ (by rw [hst']; simp [clearedAt])
        (by rw [hst', hpc]; rfl) (by rw [hst', hpc]; rfl) (fun r' => by rw [sp'.1])
      intro r' hr'
      rw [sp'.1]
      have : r' = r := by
        rw [hst'] at hr'
        rcases hcase with h1 | ⟨x, h1⟩ <;> subst h1 <;> simp [freshAt, hri] at hr' <;> exact hr'.symm
      subst this; exact hfresh
    · -- store
      have hfresh : (s.rcd r).waiting = false := c.cf.fresh r (by rw [hpc]; simpa [freshAt] using hri)
      split at h
      · split at h
        · rename_i hg
          cases h
          have hobj : (s.rcd r).obj = .cv cv := by
            have := hor.2.2; rw [hoi] at this; exact (Option.some.inj this).symm
          have hq := qi_append (o := .cv cv) c.qi hor.1 hobj hfresh (hnd i r hri) hg.2.2.2 hpost
            (by intro n hn; cases hn) (c.qi.q10 cv)
          refine ⟨qi_setPc hq hw0 rfl hpost hmc, ?_⟩
          refine cf_noHold c.cf rfl (by simp [holdsAt]) (by simp [enqTrueAt]) (by intro r' hr'; simp [freshAt] at hr')
            (by intro r' hr'; simp [clearedAt] at hr') (by simp [hpc, inCall]) (by simp [hpc, dqIdx]) ?_
          intro r'; by_cases hr : r' = r <;> simp [hr]
        · simp at h
      · exact qcf_dflt c h
    · -- release
      split at h
      · split at h
        · rename_i hg
          exact qcf_afterEnq (s := s.setObj (.cv cv) { s.obj (.cv cv) with lock := none, flag := true })
            (qi_cvWord c.qi rfl rfl) hnd hw0 hpost hmc hl.1.len h
        · simp at h
      · exact qcf_dflt c h
  · simp at h

/-- a record update that rewrites `waiting` with the value it already has -/
theorem qi_rewriteWaiting {s : State} {r : Rid} {b : Bool} (h : QI s) (hw : (s.rcd r).waiting = b) :
    QI (s.setRec r { s.rcd r with waiting := b }) := by
  have : s.setRec r { s.rcd r with waiting := b } =
      { s with rcd := fun r' => if r' = r then { s.rcd r with waiting := b } else s.rcd r' } := rfl
  rw [this]
  apply qi_recGhost h <;> intro r' <;> by_cases hr : r' = r <;> simp [hr, hw]

theorem qcf_stepEnq {s s' : State} {t : Tid} {i : Nat} {st0 : EnqSt} {e : Ev} (c : QCtx s t)
    (hpc : s.pc t = .wEnq i st0) (h : stepEnq s t i st0 e = .ok s') : QI s' ∧ CF s' t := by
  have hl : LInv (.wEnq i st0) (s.fr t) := hpc ▸ c.linv t
  have hc : inCall (s.pc t) = true := by rw [hpc]; rfl
  have hnop : opn (s.pc t) = false := by rw [hpc]; rfl
  have hpost := post_none_of_pc c.qi hnop
  have hmc := mc_none_of_pc c.qi hnop
  have hw0 := wk_none_of_opn hnop
  have hnd := noneDeqd_of_cf c.cf hc hl.1.frees (by rw [hpc]; rfl)
  unfold stepEnq at h
  split at h
  · rename_i oid r hoi hri
    have hor := own_rec c.own hc hl.1.frees hri
    have hobj : (s.rcd r).obj = oid := by have := hor.2.2; rw [hoi] at this; exact (Option.some.inj this).symm
    have hkn : (s.obj oid).known = true := c.known t hc _ (List.mem_of_getElem? hoi)
    dsimp only at h
    split at h
    · -- lockCall
      split at h
      · split at h
        · cases h
          refine qcf_move c hnop rfl (.inr rfl) (.inl rfl) (.inl (by rw [hpc]; rfl)) (.inr rfl) (.inr rfl)
            (by rw [hpc]; rfl) (by rw [hpc]; rfl) (fun hx => by rw [hpc] at hx; simp [isNfWake] at hx)
        · simp at h
      · exact qcf_dflt c h
    · -- lockWait
      split at h
      · split at h
        · rename_i hn
          cases h
          have hcv : oid.isCv = false := by
            rcases hl.2.2.1 with ⟨n, hn'⟩ | ⟨k, hk'⟩
            · rw [hoi] at hn'; cases hn'; rfl
            · rw [hoi] at hk'; cases hk'; rfl
          exact qcf_acquire c hnop hcv hn hkn rfl (by rw [hpc]; rfl) (by simpa [holdsAt] using hoi)
            (.inl (by rw [hpc]; rfl)) rfl rfl (by rw [hpc]; rfl) (by rw [hpc]; rfl)
        · simp at h
      · exact qcf_dflt c h
    · -- load: decides whether the record will be queued
      have hho : holdsAt (s.pc t) (s.fr t) = some oid := by rw [hpc]; simpa [holdsAt] using hoi
      have hfr : freshAt (s.pc t) (s.fr t) = some r := by rw [hpc]; simpa [freshAt] using hri
      -- common construction for the two outcomes
      have mk : ∀ enq : Bool, (enq = true → wakeable oid (s.obj oid) = false ∧ ∀ n, oid = .note n → dlePast (s.obj oid).expiry = false) →
          QI (s.setPc t (.wEnq i (.store enq))) ∧ CF (s.setPc t (.wEnq i (.store enq))) t := by
        intro enq henq
        refine ⟨qi_setPc c.qi hw0 rfl hpost hmc, ?_⟩
        constructor
        · intro o ho
          simp only [setPc_pc, setPc_fr, if_true, setPc_obj] at ho ⊢
          have : o = oid := by simpa [holdsAt, hoi] using ho.symm
          subst this
          obtain ⟨a1, a2⟩ := c.cf.holds _ hho
          exact ⟨a1, fun _ => a2 (by rw [hpc]; rfl)⟩
        · intro r' hr'
          simp only [setPc_pc, setPc_fr, if_true, setPc_rcd] at hr' ⊢
          have : r' = r := by simpa [freshAt, hri] using hr'.symm
          subst this; exact c.cf.fresh _ hfr
        · intro r' hr'; simp [clearedAt] at hr'
        · intro o ho
          simp only [setPc_pc, setPc_fr, if_true, setPc_obj] at ho ⊢
          cases enq with
          | false => simp [enqTrueAt] at ho
          | true =>
            have : o = oid := by simpa [enqTrueAt, hoi] using ho.symm
            subst this; exact henq rfl
        · intro _ hf0 k r' hk
          simp only [setPc_pc, setPc_fr, if_true, setPc_rcd] at hf0 hk ⊢
          rw [hnd k r' hk]; simp [dqIdx]
      split at h
      · rename_i n n' obs
        split at h
        · rename_i hg
          cases h
          apply mk
          intro henq
          unfold noteTimePos at henq
          simp only [Bool.and_eq_true, decide_eq_true_eq, Bool.not_eq_true'] at henq
          refine ⟨?_, fun n'' hn'' => by cases hn''; exact henq.2⟩
          have : (s.obj (.note n)).flag = false := by
            have := hg.2; rw [henq.1] at this; simpa using this.symm
          simp [wakeable, this]
        · simp at h
      · rename_i k k' obs
        split at h
        · rename_i hg
          cases h
          apply mk
          intro henq
          refine ⟨?_, fun n'' hn'' => by cases hn''⟩
          have : (s.obj (.ctr k)).value ≠ 0 := by rw [← hg.2]; simpa using henq
          simp [wakeable, this]
        · simp at h
      · exact qcf_dflt c h
    · -- store
      rename_i enq
      have hho : holdsAt (s.pc t) (s.fr t) = some oid := by rw [hpc]; simpa [holdsAt] using hoi
      have hfresh : (s.rcd r).waiting = false := c.cf.fresh r (by rw [hpc]; simpa [freshAt] using hri)
      obtain ⟨hlk, hH4⟩ := c.cf.holds _ hho
      cases enq with
      | true =>
        have hE := c.cf.enqT oid (by rw [hpc]; simpa [enqTrueAt] using hoi)
        simp only [if_true] at h
        generalize (match oid with | ObjId.note _ => Fn.noteEnq | _ => Fn.ctrEnq) = fnx at h
        split_ok h
        all_goals first
          | exact qcf_dflt c h
          | (cases h
             have hq := qi_append c.qi hor.1 hobj hfresh (hnd i r hri) hlk hpost hE.2 hkn
             refine ⟨qi_setPc hq hw0 rfl hpost hmc, ?_⟩
             constructor
             · intro o ho
               simp only [setPc_pc, setPc_fr, setRec_fr, setObj_fr, if_true, setPc_obj, setRec_obj, setObj_obj] at ho ⊢
               simp only [holdsAt, hoi, Option.some.injEq] at ho
               subst ho
               simp only [if_true]
               refine ⟨hlk, fun _ hw => ?_⟩
               have hE1 := hE.1
               simp only [wakeable] at hw hE1
               first | (split at hw <;> simp_all) | simp_all
             · intro r' hr'; simp [freshAt] at hr'
             · intro r' hr'; simp [clearedAt] at hr'
             · intro o ho
               simp only [setPc_pc, setPc_fr, setRec_fr, setObj_fr, if_true, setPc_obj, setRec_obj, setObj_obj] at ho ⊢
               simp only [enqTrueAt, hoi, Option.some.injEq] at ho
               subst ho
               simp only [if_true]
               refine ⟨?_, hE.2⟩
               have hE1 := hE.1
               simp only [wakeable] at hE1 ⊢
               first | (split <;> simp_all) | simp_all
             · intro _ hf0 k r' hk
               simp only [setPc_pc, setPc_fr, setRec_fr, setObj_fr, if_true, setPc_rcd, setRec_rcd, setObj_rcd] at hf0 hk ⊢
               have := hnd k r' hk
               by_cases hrr : r' = r <;> simp [hrr, dqIdx] <;> simp_all)
      | false =>
        simp only [Bool.false_eq_true, if_false] at h
        generalize (match oid with | ObjId.note _ => Fn.noteEnq | _ => Fn.ctrEnq) = fnx at h
        split_ok h
        all_goals first
          | exact qcf_dflt c h
          | (cases h
             have hq := qi_rewriteWaiting (b := false) c.qi hfresh
             refine ⟨qi_setPc hq hw0 rfl hpost hmc, ?_⟩
             constructor
             · intro o ho
               simp only [setPc_pc, setPc_fr, setRec_fr, if_true, setPc_obj, setRec_obj] at ho ⊢
               simp only [holdsAt, hoi, Option.some.injEq] at ho
               subst ho
               exact ⟨hlk, fun _ => hH4 (by rw [hpc]; rfl)⟩
             · intro r' hr'; simp [freshAt] at hr'
             · intro r' hr'; simp [clearedAt] at hr'
             · intro o ho; simp [enqTrueAt] at ho
             · intro _ hf0 k r' hk
               simp only [setPc_pc, setPc_fr, setRec_fr, if_true, setPc_rcd, setRec_rcd] at hf0 hk ⊢
               have := hnd k r' hk
               by_cases hrr : r' = r <;> simp [hrr, dqIdx] <;> simp_all)
    · -- unlockCall
      split at h
      · split at h
        · cases h
          exact qcf_release c hpost hmc hw0 (by rw [hpc]; simpa [holdsAt] using hoi)
            (by intro hx; rw [hpc] at hx; simp [isNfWake] at hx) rfl rfl rfl (.inr rfl) rfl
            (by rw [hpc]; rfl) (by rw [hpc]; rfl)
        · simp at h
      · exact qcf_dflt c h
    · -- unlockWait
      split at h
      · exact qcf_afterEnq c.qi hnd hw0 hpost hmc hl.1.len h
      · exact qcf_dflt c h
  · simp at h

end WaitN
