/-
  Futex layer (C12): running the waiter alone (`runSolo`) from a state with a positive count
  reaches `ret 0` in ≤ 5 own steps (successful take in ≤ 4) without sleeping.
-/
import NsyncVerif.Proofs.FutexInv

namespace NsyncVerif.Futex

set_option linter.unusedSimpArgs false

/-- The waiter has already decided to report ETIMEDOUT (clock read pending with an expired
    deadline, or result already set): the available post is left for the *next* wait. -/
def timeoutCommitted (s : State) (w : Tid) : Bool :=
  match s.pc w with
  | .wNow dl => expired dl s.now
  | .wRet _ true => true
  | _ => false

/-- What a successful solo run to the `ret 0` looks like. -/
def SoloSuccess (s : State) (w : Tid) (s' : State) : Prop :=
  s'.pc w = .idle ∧ s'.succRets = s.succRets + 1 ∧ s'.toRets = s.toRets ∧
  s'.posts = s.posts ∧ s'.takes + inFlight s = s.takes + 1 ∧ s'.now = s.now ∧
  s'.sleeper = none

theorem post_enables_aux (hinv : Inv s) (hw : 0 < s.word) (hpc : (s.pc w).isWaiter = true)
    (hna : ¬ s.asleep) (htc : timeoutCommitted s w = false) :
    ∃ s', runSolo s w 5 = .ok s' ∧ SoloSuccess s w s' := by
  obtain ⟨h1, h2, h3, h4, h5, h6, h7, h8⟩ := hinv
  have hna' : asleepInfo s.sleeper = false := by simpa [State.asleep] using hna
  have hown : s.owner = some w := by
    apply Classical.byContradiction; intro hc; have := h3 w hc; simp_all
  have hslp : (∀ k, s.pc w ≠ .wSleep k) → s.sleeper = none := by
    intro hk
    cases hsl : s.sleeper with
    | none => rfl
    | some si =>
      obtain ⟨o, k, ho, hpo, _⟩ := h4 si hsl
      rw [hown] at ho; cases ho
      exact absurd hpo (hk k)
  cases hp : s.pc w <;> simp [hp, PC.isWaiter] at hpc
  all_goals (try (have hsn : s.sleeper = none := by apply hslp; simp [hp]))
  case wLoad k =>
    have hne : s.word ≠ 0 := by omega
    cases k <;>
    simp [runSolo, soloEvent, step, hp, setPc, hne, ldSite, casSite, SoloSuccess, inFlight, hown, State.asleep, asleepInfo, hna', hsn] <;> omega
  case wWait k =>
    have hne : s.word ≠ 0 := by omega
    cases k <;>
    simp [runSolo, soloEvent, step, hp, setPc, hne, ldSite, casSite, SoloSuccess, inFlight, hown, State.asleep, asleepInfo, hna', hsn,
      waitRetAllowed] <;> omega
  case wSleep k =>
    have hne : s.word ≠ 0 := by omega
    cases hsl : s.sleeper with
    | none =>
      cases k <;>
      simp [runSolo, soloEvent, step, hp, setPc, hne, ldSite, casSite, SoloSuccess, inFlight, hown, State.asleep, asleepInfo, hna',
        waitRetAllowed, hsl] <;> omega
    | some si =>
      have hwk : si.woken = true := by simpa [State.asleep, asleepInfo, hsl] using hna
      cases k <;>
      simp [runSolo, soloEvent, step, hp, setPc, hne, ldSite, casSite, SoloSuccess, inFlight, hown, State.asleep, asleepInfo, hna',
        waitRetAllowed, hsl, hwk] <;> omega
  case wNow dl =>
    have hne : s.word ≠ 0 := by omega
    have hex : expired dl s.now = false := by simpa [timeoutCommitted, hp] using htc
    simp [runSolo, soloEvent, step, hp, setPc, hne, ldSite, casSite, SoloSuccess, inFlight, hown, State.asleep, asleepInfo, hna', hsn,
      hex] <;> omega
  case wCas k i =>
    have hne : s.word ≠ 0 := by omega
    have hi : 0 < i := h5 w k i hp
    by_cases hwi : s.word = i
    · cases k <;>
      simp [runSolo, soloEvent, step, hp, setPc, hne, ldSite, casSite, SoloSuccess, inFlight, hown, State.asleep, asleepInfo, hna', hsn,
        hwi] <;> omega
    · cases k <;>
      simp [runSolo, soloEvent, step, hp, setPc, hne, ldSite, casSite, SoloSuccess, inFlight, hown, State.asleep, asleepInfo, hna', hsn,
        hwi] <;> omega
  case wRet k b =>
    have hb : b = false := by
      cases b <;> simp_all [timeoutCommitted]
    subst hb
    cases k <;>
    simp [runSolo, soloEvent, step, hp, setPc, SoloSuccess, inFlight, hown, State.asleep, asleepInfo, hna', hsn]

/-- The waiter has performed its successful take (CAS i → i-1), or has even returned. -/
def TakeDone (s : State) (w : Tid) (s' : State) : Prop :=
  (s'.pc w = .idle ∨ ∃ k, s'.pc w = .wRet k false) ∧ s'.takes + inFlight s = s.takes + 1 ∧
  s'.posts = s.posts ∧ s'.toRets = s.toRets ∧ s'.sleeper = none

theorem post_enables_take4 (hinv : Inv s) (hw : 0 < s.word) (hpc : (s.pc w).isWaiter = true)
    (hna : ¬ s.asleep) (htc : timeoutCommitted s w = false) :
    ∃ s', runSolo s w 4 = .ok s' ∧ TakeDone s w s' := by
  obtain ⟨h1, h2, h3, h4, h5, h6, h7, h8⟩ := hinv
  have hna' : asleepInfo s.sleeper = false := by simpa [State.asleep] using hna
  have hown : s.owner = some w := by
    apply Classical.byContradiction; intro hc; have := h3 w hc; simp_all
  have hslp : (∀ k, s.pc w ≠ .wSleep k) → s.sleeper = none := by
    intro hk
    cases hsl : s.sleeper with
    | none => rfl
    | some si =>
      obtain ⟨o, k, ho, hpo, _⟩ := h4 si hsl
      rw [hown] at ho; cases ho
      exact absurd hpo (hk k)
  cases hp : s.pc w <;> simp [hp, PC.isWaiter] at hpc
  all_goals (try (have hsn : s.sleeper = none := by apply hslp; simp [hp]))
  case wLoad k =>
    have hne : s.word ≠ 0 := by omega
    cases k <;>
    simp [runSolo, soloEvent, step, hp, setPc, hne, ldSite, casSite, TakeDone, inFlight, hown, State.asleep, asleepInfo, hna', hsn] <;> omega
  case wWait k =>
    have hne : s.word ≠ 0 := by omega
    cases k <;>
    simp [runSolo, soloEvent, step, hp, setPc, hne, ldSite, casSite, TakeDone, inFlight, hown, State.asleep, asleepInfo, hna', hsn,
      waitRetAllowed] <;> omega
  case wSleep k =>
    have hne : s.word ≠ 0 := by omega
    cases hsl : s.sleeper with
    | none =>
      cases k <;>
      simp [runSolo, soloEvent, step, hp, setPc, hne, ldSite, casSite, TakeDone, inFlight, hown, State.asleep, asleepInfo, hna',
        waitRetAllowed, hsl] <;> omega
    | some si =>
      have hwk : si.woken = true := by simpa [State.asleep, asleepInfo, hsl] using hna
      cases k <;>
      simp [runSolo, soloEvent, step, hp, setPc, hne, ldSite, casSite, TakeDone, inFlight, hown, State.asleep, asleepInfo, hna',
        waitRetAllowed, hsl, hwk] <;> omega
  case wNow dl =>
    have hne : s.word ≠ 0 := by omega
    have hex : expired dl s.now = false := by simpa [timeoutCommitted, hp] using htc
    simp [runSolo, soloEvent, step, hp, setPc, hne, ldSite, casSite, TakeDone, inFlight, hown, State.asleep, asleepInfo, hna', hsn,
      hex] <;> omega
  case wCas k i =>
    have hne : s.word ≠ 0 := by omega
    have hi : 0 < i := h5 w k i hp
    by_cases hwi : s.word = i
    · cases k <;>
      simp [runSolo, soloEvent, step, hp, setPc, hne, ldSite, casSite, TakeDone, inFlight, hown, State.asleep, asleepInfo, hna', hsn,
        hwi] <;> omega
    · cases k <;>
      simp [runSolo, soloEvent, step, hp, setPc, hne, ldSite, casSite, TakeDone, inFlight, hown, State.asleep, asleepInfo, hna', hsn,
        hwi] <;> omega
  case wRet k b =>
    have hb : b = false := by
      cases b <;> simp_all [timeoutCommitted]
    subst hb
    cases k <;>
    simp [runSolo, soloEvent, step, hp, setPc, TakeDone, inFlight, hown, State.asleep, asleepInfo, hna', hsn]

end NsyncVerif.Futex
