import NsyncVerif.Proofs.MuCInv6Ld
/-
  MuC, ring invariant: the CAS steps that do not run the scan.
-/
namespace NsyncVerif.MuC

macro "cas_case6" t:ident h:ident heq:ident hs:ident : tactic => `(tactic|
  (rcases casWord_ok $hs with ⟨hw, -, hs'⟩ | ⟨-, -, hs'⟩ <;> subst hs' <;>
    first
    | inv6_local $t $h $heq
    | (split <;> inv6_local $t $h $heq)
    | (split <;> first | inv6_local $t $h $heq | (split <;> inv6_local $t $h $heq))))

theorem inv6_stepCasB {s s' : State} {t : Tid} {o : Ord} {loc : Loc} {exp new obs : Nat} {ok : Bool} (h : Inv6 s)
    (hp : match s.pc t with
      | .lkCas0 _ | .lkCas1 _ _ | .tryCas0 _ | .tryCas1 _ _ | .lsCasAcq _ _ | .lsCasEnq _ _ | .lsRelCas _ _ | .ulCas0 _ _ | .ulCas1 _ _ _
      | .usCasUnc _ _ | .mwRelCas _ _ _ | .mtCasWW _ _ | .mtRmCas _ _ _ | .mtCasAcq _ _ => True
      | _ => False)
    (hs : stepCas s t o loc exp new obs ok = .ok s') : Inv6 s' := by
  unfold stepCas at hs
  split at hs
  all_goals try (rename_i heq; rw [heq] at hp; exact False.elim hp)
  all_goals try (rename_i hne; split at hp <;> first | exact False.elim hp | (exfalso; simp_all; done))
  · rename_i heq; cas_case6 t h heq hs   -- lkCas0
  · rename_i heq; cas_case6 t h heq hs   -- lkCas1
  · rename_i heq; cas_case6 t h heq hs   -- tryCas0
  · rename_i heq; cas_case6 t h heq hs   -- tryCas1
  · -- lsCasAcq
    rename_i c old heq
    rcases casWord_ok hs with ⟨hw, -, hs'⟩ | ⟨-, -, hs'⟩ <;> subst hs'
    · cases hmw : c.mw with
      | none =>
        simp only []
        cases hcw : c.w with
        | none => simp only [dropW]; inv6_local t h heq
        | some k => simp only [dropW]; inv6_local t h heq
      | some m =>
        have hif : ∀ s1 : State, (if m.cond.isSome = true then setPc s1 t (PC.mwEval m) else mwLoop s1 t m true)
            = setPc s1 t (if m.cond.isSome = true then PC.mwEval m else loopPc m true) := by
          intro s1; split <;> simp [mwLoop_eq]
        simp only [hif]
        split <;> inv6_local t h heq
    · inv6_local t h heq
  · rename_i heq; cas_case6 t h heq hs   -- lsCasEnq
  · rename_i heq; cas_case6 t h heq hs   -- lsRelCas
  · rename_i heq; cas_case6 t h heq hs   -- ulCas0
  · rename_i heq; cas_case6 t h heq hs   -- ulCas1
  · rename_i r old heq; simp only [afterWakes_eq] at hs; cases r <;> cas_case6 t h heq hs   -- usCasUnc
  · rename_i heq; cas_case6 t h heq hs   -- mwRelCas
  · rename_i heq; cas_case6 t h heq hs   -- mtCasAcq
  · rename_i heq; cas_case6 t h heq hs   -- mtCasWW
  · rename_i heq; ld_case6 t h heq hs    -- mtRmCas

theorem finPc_mw (r : Ret) (l : List Wid) : (finPc r l).mw = r.mw? := by
  cases l <;> cases r <;> rfl

theorem finPc_scan (r : Ret) (l : List Wid) : (finPc r l).scan? = none := by
  cases l <;> cases r <;> rfl

theorem inv6_stepCasC {s s' : State} {t : Tid} {o : Ord} {loc : Loc} {exp new obs : Nat} {ok : Bool}
    (h4 : Inv4 s) (h : Inv6 s)
    (hp : match s.pc t with
      | .usFinCas _ _ _ | .mwEnqCas _ _ => True
      | _ => False)
    (hs : stepCas s t o loc exp new obs ok = .ok s') : Inv6 s' := by
  unfold stepCas at hs
  split at hs
  all_goals try (rename_i heq; rw [heq] at hp; exact False.elim hp)
  all_goals try (rename_i hne; split at hp <;> first | exact False.elim hp | (exfalso; simp_all; done))
  · -- usFinCas: the lists are not touched
    rename_i r f old heq
    rcases casWord_ok hs with ⟨hw, -, rfl⟩ | ⟨-, -, rfl⟩
    · rw [afterFin_eq]
      refine Inv6.local t h (by split <;> simp) (by intro x; split <;> simp) (by split <;> simp)
        (by intro u hu; split <;> simp [setFn, hu]) ?_ ?_
      · simp only [setPc_pc, setFn_same, heq, finPc_scan]; rfl
      · intro c hc
        simp only [setPc_pc, setFn_same, finPc_mw] at hc
        exact ⟨c, by rw [heq]; exact hc, rfl⟩
    · inv6_local t h heq
  · -- mwEnqCas: the record in limbo is queued
    rename_i c old heq
    split at hs
    · cases hs
    · rename_i k hcw
      rcases casWord_ok hs with ⟨hw, -, rfl⟩ | ⟨-, -, rfl⟩
      · have hnq : ¬ Queued s k := (h4.limbo t k (by rw [heq]; simp [PC.limbo, hcw])).2.1
        have h1 : Inv6 { s with word := mwEnqWord c.cond.isSome old, sp := some t } :=
          Inv6.env h rfl (fun _ => ⟨rfl, rfl⟩) rfl rfl
        refine Inv6.enqueue t k _ _ h1 (fun u => h4.nd_prefix u) hnq (by simp [PC.scan?]) (by
          show (s.pc t).scan? = none
          rw [heq]; simp [PC.scan?]) ?_
        intro c' hc'
        refine ⟨c, ?_, ?_⟩
        · show (s.pc t).mw = some c
          rw [heq]; rfl
        · simp only [PC.mw, Option.some.injEq] at hc'; rw [← hc']
      · inv6_local t h heq

end NsyncVerif.MuC
