/-
  Proofs/SemWaitSteps.lean — what the acceptance of particular events says about the state: the return of
  nsync_sem_wait_with_cancel_, the accesses to a waiter record, the release of note_mu, the P with deadline.
-/
import NsyncVerif.Proofs.SemWaitReach

namespace SemWait

/-- `ret` of nsync_sem_wait_with_cancel_ is accepted only at sem_wait.c:78, with the value of `sem_outcome` -/
theorem ret_cases {cfg : Config} {s s' : State} {t : Tid} {o : Outcome}
    (hs : step cfg s (.thr t (.retSW o)) = .ok s') : s.pc t = .ret ∧ o = (s.fr t).out ∧ s' = s.returned t := by
  simp only [step, stepThr] at hs
  split at hs
  · simp [stepIdle, proto, dflt] at hs
  · simp [stepND, dflt] at hs
  · rename_i u st _
    cases st <;> simp [stepNF, proto, dflt] at hs
  · simp only [stepMain] at hs
    split at hs
    all_goals try (rename_i heq; cases heq)
    · rename_i hpc
      split at hs
      · rename_i ho; cases hs; exact ⟨hpc, ho, rfl⟩
      · cases hs
    · simp [dflt] at hs

/-- an accepted store to `nw->waiting` is the owner's initialisation or the unlink by a notifier that holds
    note_mu; a load of it is never accepted -/
theorem touch_st_cases {cfg : Config} {s s' : State} {u : Tid} {ord : Ord} {r : Rid} {fn : Fn} {new obs : Nat}
    (hs : step cfg s (.thr u (.st ord (.waiting r) fn new obs)) = .ok s') :
    (s.pc u = .init ∧ (s'.rcd r).owner = u)
    ∨ (protoMode (s.pc u) = true ∧ ∃ tl, (s.note (s.rcd r).note).queue = r :: tl ∧ (s.note (s.rcd r).note).lock = some u
        ∧ (s.note (s.rcd r).note).flag = true ∧ s.post u = none) := by
  have hproto : ∀ {s' : State}, protoMode (s.pc u) = true → proto cfg s u (.st ord (.waiting r) fn new obs) = .ok s' →
      ∃ tl, (s.note (s.rcd r).note).queue = r :: tl ∧ (s.note (s.rcd r).note).lock = some u
        ∧ (s.note (s.rcd r).note).flag = true ∧ s.post u = none := by
    intro s' _ h
    unfold proto at h
    split at h
    all_goals try (rename_i heq; cases heq)
    · split_ok h
      rename_i tl hqu hc
      obtain ⟨rfl, h2, h3, h4, -, -⟩ := hc
      exact ⟨tl, hqu, h2, h3, h4⟩
    · simp [dflt] at h
  simp only [step, stepThr] at hs
  split at hs
  · rename_i hpc
    simp only [stepIdle] at hs
    exact .inr ⟨by rw [hpc]; rfl, hproto (by rw [hpc]; rfl) hs⟩
  · simp [stepND, dflt] at hs
  · rename_i us st hpc
    cases st <;> try (simp [stepNF, dflt] at hs; done)
    simp only [stepNF] at hs
    exact .inr ⟨by rw [hpc]; rfl, hproto (by rw [hpc]; rfl) hs⟩
  · simp only [stepMain] at hs
    split at hs
    all_goals try (rename_i heq; cases heq)
    · rename_i hpc
      split at hs
      · cases hs
        exact .inl ⟨hpc, by simp⟩
      · cases hs
    · simp [dflt] at hs

theorem touch_ld_never {cfg : Config} {s s' : State} {u : Tid} {ord : Ord} {r : Rid} {fn : Fn} {obs : Nat}
    (hs : step cfg s (.thr u (.ld ord (.waiting r) fn obs)) = .ok s') : False := by
  simp only [step, stepThr] at hs
  split at hs
  · simp [stepIdle, proto, dflt] at hs
  · rename_i us st hpc
    cases st <;> simp [stepND, dflt] at hs
  · rename_i us st hpc
    cases st <;> simp [stepNF, proto, dflt] at hs
  · simp only [stepMain] at hs
    split at hs
    all_goals try (rename_i heq; cases heq)
    all_goals simp [dflt] at hs

/-- a release of note_mu (nsync_mu_unlock, or nsync_mu_wait): by a protocol-driven thread under the guard
    "no waiter left on a notified note", or by a waiter releasing the mutex of its own cancel note -/
theorem unlock_cases {cfg : Config} {s s' : State} {u : Tid} {k : NoteId} {e : Ev} (he : e = .unlock k ∨ e = .muWait k)
    (hs : step cfg s (.thr u e) = .ok s') :
    ((s.note k).flag = true → (s.note k).queue = [])
    ∨ (k = (s.fr u).note ∧ protoMode (s.pc u) = false ∧ (s.note k).lock = some u) := by
  have hproto : ∀ {s' : State}, proto cfg s u e = .ok s' → ((s.note k).flag = true → (s.note k).queue = []) := by
    intro s' h
    rcases he with rfl | rfl <;> (simp only [proto] at h; split_ok h; rename_i hg; exact hg.2.2)
  simp only [step, stepThr] at hs
  split at hs
  · simp only [stepIdle] at hs
    rcases he with rfl | rfl <;> exact .inl (hproto hs)
  · rename_i us st hpc
    rcases he with rfl | rfl
    · cases st <;> try (simp [stepND, dflt] at hs; done)
      simp only [stepND] at hs
      split at hs
      · rename_i hg
        exact .inr ⟨hg.1, by rw [hpc]; rfl, hg.1 ▸ hg.2⟩
      · cases hs
    · cases st <;> simp [stepND, dflt] at hs
  · rename_i us st hpc
    rcases he with rfl | rfl
    · cases st
      · simp [stepNF, dflt] at hs
      · simp [stepNF, dflt] at hs
      · simp only [stepNF] at hs
        split at hs
        · split at hs
          · rename_i s1 hs1; exact .inl (hproto hs1)
          · cases hs
        · exact .inl (hproto hs)
      · simp only [stepNF] at hs
        split at hs
        · rename_i hg
          exact .inr ⟨hg.1, by rw [hpc]; rfl, hg.1 ▸ hg.2⟩
        · cases hs
    · cases st
      · simp [stepNF, dflt] at hs
      · simp [stepNF, dflt] at hs
      · simp only [stepNF] at hs; exact .inl (hproto hs)
      · simp [stepNF, dflt] at hs
  · rename_i hpc1 hpc2 hpc3
    have hnp : protoMode (s.pc u) = false := by
      generalize s.pc u = p at *
      pc_full p <;> first | rfl | exact absurd rfl (hpc1) | exact absurd rfl (hpc3 _ _) | exact absurd rfl (hpc2 _ _)
    rcases he with rfl | rfl
    · simp only [stepMain] at hs
      split at hs
      all_goals try (rename_i heq; cases heq)
      · split at hs
        · rename_i hg; exact .inr ⟨hg.1, hnp, hg.1 ▸ hg.2⟩
        · cases hs
      · split at hs
        · rename_i hg; exact .inr ⟨hg.1, hnp, hg.1 ▸ hg.2⟩
        · cases hs
      · simp [dflt] at hs
    · simp only [stepMain] at hs
      split at hs
      all_goals try (rename_i heq; cases heq)
      all_goals simp [dflt] at hs

/-- the P with deadline of sem_wait.c:61 -/
theorem pdEnter_cases {cfg : Config} {s s' : State} {t : Tid} {j : SemId} {d : Deadline} (hpc : s.pc t = .pdEnter)
    (hs : step cfg s (.thr t (.pdEnter j d)) = .ok s') : d = (s.fr t).locald ∧ s'.pc t = .pdWait j := by
  simp only [step, stepThr, hpc, stepMain] at hs
  split at hs
  · rename_i hd
    split at hs
    · rename_i s1 hb
      cases hs
      rcases bindSem_cases hb with ⟨-, rfl⟩ | ⟨-, -, rfl⟩ <;> simp [hd, State.bind]
    · cases hs
  · cases hs

/-- its return -/
theorem pdRet_cases {cfg : Config} {s s' : State} {t : Tid} {j j' : SemId} {tmo : Bool} (hpc : s.pc t = .pdWait j)
    (hs : step cfg s (.thr t (.pdRet j' tmo)) = .ok s') :
    j' = j ∧
    ((tmo = true ∧ expiredB (s.fr t).locald s.now = true ∧
        (((s.fr t).nearer = true ∧ s'.pc t = .lk2 ∧ (s'.fr t).out = .timedOut)
         ∨ ((s.fr t).nearer = false ∧ s'.pc t = .nd .l65 .ld0 ∧ (s'.fr t).out = .cancelled)))
     ∨ (tmo = false ∧ 0 < s.sem j ∧ s'.sem j + 1 = s.sem j ∧ s'.pc t = .lk2 ∧ (s'.fr t).out = .ok
        ∧ (s'.fr t).consumed = true)) := by
  simp only [step, stepThr, hpc, stepMain] at hs
  split at hs
  · rename_i hj
    subst hj
    refine ⟨rfl, ?_⟩
    split at hs
    · rename_i ht
      split at hs
      · rename_i hx
        split at hs
        · rename_i hn; cases hs; exact .inl ⟨ht, hx, .inl ⟨hn, by simp, by simp⟩⟩
        · rename_i hn; cases hs; exact .inl ⟨ht, hx, .inr ⟨by simpa using hn, by simp, by simp⟩⟩
      · cases hs
    · rename_i ht
      split at hs
      · cases hs
      · rename_i c hc
        cases hs
        exact .inr ⟨by simpa using ht, by omega, by simp [hc], by simp, by simp, by simp⟩
  · cases hs

end SemWait
