/-
  Layer `CvFix`, observers (property C16, cv half): the invariant behind "the release store of
  emit_cv_state writes back exactly the word it found".

  `InvO`: (1) the test-and-set of an observer has `set = CV_SPINLOCK` only (`setNE = false`);
  (3) an observer is in the loop or holds the spinlock only if debug.c:246-247 said so
  (`dbgAcquires`: print_waiters, CV_NON_EMPTY seen, and blocking or the spinlock seen free);
  (2) while an observer holds the spinlock (`dWalk`, `dRc`) its local `word` (= `old`, the value
  `nsync_spin_test_and_set_` returned) has the CV_NON_EMPTY bit of the current cv word.  (2) is where
  "every change of the cv word happens under the cv spinlock" is used: every transition that changes
  the word is an acquisition (nobody held the spinlock before: `acq_facts`) or a release by the
  holder (`InvA.hold`, `InvA.others_free`: the holder is unique, so it is not the observer).
-/
import NsyncVerif.Proofs.CvFixInvG

namespace NsyncVerif.CvFix

/-- Program points of `nsync_spin_test_and_set_`. -/
def Loc.spinLoop : Loc → Bool
  | .spLd0 | .spLd2 | .spCas => true
  | _ => false

/-- Program points at which emit_cv_state holds the cv spinlock (`acquired = 1`). -/
def Loc.dbgHolds : Loc → Bool
  | .dWalk | .dRc => true
  | _ => false

/-- The thread is inside a debug call (nsync_cv_debug_state, …_and_waiters, nsync_cv_debugger) on
    this cv. -/
def inDebug (x : Thr) : Bool :=
  match x.loc with
  | .dLd | .dWalk | .dRc | .dRet => true
  | .spLd0 | .spLd2 | .spCas => x.cont == .dbg
  | _ => false

theorem dbgHolds_holds {l : Loc} (h : l.dbgHolds = true) : l.holds = true := by
  cases l <;> simp_all [Loc.dbgHolds, Loc.holds]

theorem dbgHolds_inDebug {x : Thr} (h : x.loc.dbgHolds = true) : inDebug x = true := by
  unfold inDebug; cases hl : x.loc <;> simp_all [Loc.dbgHolds]

structure TInvO (s : State) (t : Tid) : Prop where
  noNE : (s.thr t).loc.spinLoop = true → (s.thr t).cont = .dbg → (s.thr t).setNE = false
  oldW : (s.thr t).loc.dbgHolds = true → (s.thr t).old.ne = s.word.ne
  /-- why the observer is in the test-and-set loop / holds the spinlock: debug.c:246-247 -/
  why : ((s.thr t).loc.spinLoop = true ∧ (s.thr t).cont = .dbg) ∨ (s.thr t).loc.dbgHolds = true →
    dbgAcquires (s.thr t).dk (s.thr t).dWord = true

def InvO (s : State) : Prop := ∀ t, TInvO s t

theorem invO_init : InvO init := by
  intro t; constructor <;> simp [init, Loc.spinLoop, Loc.dbgHolds]

/-- One thread gets a new frame; the NON_EMPTY bit of the word is unchanged, or no other thread is an
    observer holding the spinlock. -/
theorem invO_of {s s' : State} {t : Tid} (ho : InvO s) (hoth : ∀ u, u ≠ t → s'.thr u = s.thr u)
    (hw : s'.word.ne = s.word.ne ∨ ∀ u, u ≠ t → (s.thr u).loc.dbgHolds = false)
    (ht : TInvO s' t) : InvO s' := by
  intro u
  by_cases hu : u = t
  · subst hu; exact ht
  · constructor
    · rw [hoth u hu]; exact (ho u).noNE
    · rw [hoth u hu]
      intro h
      rcases hw with hw | hw
      · rw [hw]; exact (ho u).oldW h
      · rw [hw u hu] at h; cases h
    · rw [hoth u hu]; exact (ho u).why

/-- Nothing but the frame-independent parts of the state changes. -/
theorem invO_same {s s' : State} (ho : InvO s) (ht : s'.thr = s.thr) (hw : s'.word = s.word) : InvO s' := by
  intro u
  constructor
  · rw [ht]; exact (ho u).noNE
  · rw [ht, hw]; exact (ho u).oldW
  · rw [ht]; exact (ho u).why

/-- Local transitions. -/
theorem ltr_o {s : State} {t : Tid} {e : Event} {x' : Thr} (ho : TInvO s t) (h : LTr s t e x') :
    (x'.loc.spinLoop = true → x'.cont = .dbg → x'.setNE = false) ∧
    (x'.loc.dbgHolds = true → x'.old.ne = s.word.ne) ∧
    ((x'.loc.spinLoop = true ∧ x'.cont = .dbg) ∨ x'.loc.dbgHolds = true → dbgAcquires x'.dk x'.dWord = true) := by
  obtain ⟨o1, o2, o3⟩ := ho
  cases h with
  | spinLd site obs hl ho' =>
    rcases hl with ⟨_, hl⟩ | ⟨_, hl⟩ <;> split <;> simp_all [Loc.spinLoop, Loc.dbgHolds]
  | spinLdN obs hl ho' => split <;> simp [Loc.spinLoop, Loc.dbgHolds]
  | sigLd site obs hl hs ho' => split <;> simp [Loc.spinLoop, Loc.dbgHolds]
  | casFail exp new obs hl ho' hne => simp_all [Loc.spinLoop, Loc.dbgHolds]
  | wHeadStay r obs hl hr ho' hz =>
    split
    · by_cases hn : (s.thr t).note = true <;> simp [hn, Loc.spinLoop, Loc.dbgHolds]
    · simp [Loc.spinLoop, Loc.dbgHolds]
  | wChk y r obs hy hl hr ho' hso => split <;> simp [Loc.spinLoop, Loc.dbgHolds]
  | wTail y r obs hy hl hr ho' => simp [Loc.spinLoop, Loc.dbgHolds]
  | wChk2 r obs hl hr ho' => split <;> simp [Loc.spinLoop, Loc.dbgHolds]
  | wwLd obs f rest hl hlist => split <;> simp [Loc.spinLoop, Loc.dbgHolds]
  | wwRelCasOk exp new obs hl => split <;> simp [Loc.spinLoop, Loc.dbgHolds]
  | ready r obs hl hr ho' => simp [hl, Loc.spinLoop, Loc.dbgHolds]
  | deqSpinStay r obs hl hr hw => simp [hl, Loc.spinLoop, Loc.dbgHolds]
  | noteSeen hl => rcases hl with hl | hl | hl <;> simp [hl, Loc.spinLoop, Loc.dbgHolds]
  | noteNotify hl ht => simp [hl, Loc.spinLoop, Loc.dbgHolds]
  | dbgLd obs hl ho' => split <;> simp_all [Loc.spinLoop, Loc.dbgHolds]
  | dbgW r obs hl hq hm ho' => simp_all [Loc.spinLoop, Loc.dbgHolds]
  | dbgRc r obs hl hq ho' => simp_all [Loc.spinLoop, Loc.dbgHolds]
  | _ => simp [Loc.spinLoop, Loc.dbgHolds, Thr.fresh]

theorem afterAcquire_word (s : State) (t : Tid) (x : Thr) : (afterAcquire s t x).word = s.word := by
  unfold afterAcquire
  split <;> simp

theorem afterAcquire_dbg (s : State) (t : Tid) (x : Thr) (hc : x.cont = .dbg) :
    afterAcquire s t x = s.setThr t { x with loc := .dWalk } := by
  unfold afterAcquire
  split <;> simp_all

theorem ite_sRel_out (b : Bool) :
    (if b = true then Loc.sRel else Loc.sRcLd).dbgHolds = false ∧
    (if b = true then Loc.sRel else Loc.sRcLd).spinLoop = false := by
  cases b <;> simp [Loc.dbgHolds, Loc.spinLoop]

theorem afterAcquire_not_dbg (s : State) (t : Tid) (x : Thr) (hc : x.cont ≠ .dbg) :
    ((afterAcquire s t x).thr t).loc.dbgHolds = false ∧ ((afterAcquire s t x).thr t).loc.spinLoop = false := by
  unfold afterAcquire
  split
  · simp [Loc.dbgHolds, Loc.spinLoop]
  · simp [Loc.dbgHolds, Loc.spinLoop]
  · simp [Loc.dbgHolds, Loc.spinLoop]
  · rename_i h; exact absurd h hc
  · dsimp only
    simp only [updT_apply, if_true]
    exact ite_sRel_out _

/-- A release of the spinlock by `t`: nobody else holds it, and `t` does not afterwards. -/
theorem invO_release {s s' : State} {t : Tid} (ha : InvA s) (ho : InvO s) (hh : s.holder = some t)
    (hoth : ∀ u, u ≠ t → s'.thr u = s.thr u)
    (hl : (s'.thr t).loc.spinLoop = false ∧ (s'.thr t).loc.dbgHolds = false) : InvO s' := by
  refine invO_of (t := t) ho hoth (.inr ?_) ⟨?_, ?_, ?_⟩
  · intro u hu
    have := ha.others_free ((ha.hold t).mp hh) u hu
    cases hb : (s.thr u).loc.dbgHolds
    · rfl
    · rw [dbgHolds_holds hb] at this; cases this
  · intro h; rw [hl.1] at h; cases h
  · intro h; rw [hl.2] at h; cases h
  · intro h; rw [hl.1, hl.2] at h; simp at h

/-- A step of `t` that leaves the word alone and ends outside the spin loop and the observer's
    critical section. -/
theorem invO_out {s s' : State} {t : Tid} (ho : InvO s) (hw : s'.word = s.word)
    (hoth : ∀ u, u ≠ t → s'.thr u = s.thr u)
    (hl : (s'.thr t).loc.spinLoop = false ∧ (s'.thr t).loc.dbgHolds = false) : InvO s' := by
  refine invO_of (t := t) ho hoth (.inl (by rw [hw])) ⟨?_, ?_, ?_⟩
  · intro h; rw [hl.1] at h; cases h
  · intro h; rw [hl.2] at h; cases h
  · intro h; rw [hl.1, hl.2] at h; simp at h

theorem wakeEntry_out (s : State) (l : List Rid) :
    (wakeEntry s l).spinLoop = false ∧ (wakeEntry s l).dbgHolds = false := by
  rcases wakeEntry_cases s l with ⟨_, hw⟩ | ⟨_, hw | hw⟩ <;> simp [hw, Loc.spinLoop, Loc.dbgHolds]

set_option maxHeartbeats 1000000 in
theorem invO_tr {cfg : Config} {s s' : State} {e : Event} (ha : InvA s) (ho : InvO s) (h : Tr cfg s e s') :
    InvO s' := by
  cases h with
  | same e h => exact ho
  | tick ns h => exact invO_same ho rfl rfl
  | semOther e sem' h => exact invO_same ho rfl rfl
  | loc h =>
    rename_i t x'
    have := ltr_o (ho t) h
    exact invO_of (t := t) ho (fun u hu => by simp [hu]) (.inl rfl)
      ⟨by simpa using this.1, by simpa using this.2.1, by simpa using this.2.2⟩
  | acq t exp new obs o n hl hexp hw he ho' hn hnew =>
    obtain ⟨f1, f2, f3, f4, f5, f6⟩ := acq_facts ha hl hexp hw he ho' hn hnew
    subst f1
    have hfree : ∀ u, u ≠ t → (s.thr u).loc.dbgHolds = false := by
      intro u _
      cases hb : (s.thr u).loc.dbgHolds
      · rfl
      · have := f6 u; rw [dbgHolds_holds hb] at this; cases this
    by_cases hc : (s.thr t).cont = .dbg
    · rw [afterAcquire_dbg _ _ _ (by simpa using hc)]
      refine invO_of (t := t) ho (fun u hu => by simp [hu]) (.inr hfree) ⟨?_, ?_, ?_⟩
      · simp [Loc.spinLoop]
      · intro _
        have hne := (ho t).noNE (by simp [hl, Loc.spinLoop]) hc
        simp [f5, hne]
      · intro _
        simpa using (ho t).why (.inl ⟨by simp [hl, Loc.spinLoop], hc⟩)
    · obtain ⟨h1, h2⟩ := afterAcquire_not_dbg { s with word := n, holder := some t } t { s.thr t with old := s.word }
        (by simpa using hc)
      refine invO_of (t := t) ho (fun u hu => afterAcquire_thr_other _ _ _ _ hu) (.inr hfree) ⟨?_, ?_, ?_⟩
      · intro h; rw [h2] at h; cases h
      · intro h; rw [h1] at h; cases h
      · intro h; rw [h1, h2] at h; simp at h
  | relWait t new obs n hl hh hnew hn hsp =>
    exact invO_release (t := t) ha ho hh (fun u hu => by simp [hu]) (by simp [Loc.spinLoop, Loc.dbgHolds])
  | relWait2 t new obs n hl hh hnew hn hsp =>
    exact invO_release (t := t) ha ho hh (fun u hu => by simp [hu]) (by simp [Loc.spinLoop, Loc.dbgHolds])
  | relSig t site new obs n hl hs hh hnew hn hsp =>
    exact invO_release (t := t) ha ho hh (fun u hu => by simp [hu]) (by simpa using wakeEntry_out s (s.thr t).list)
  | relEnq t new obs n hl hh hnew hn hsp =>
    exact invO_release (t := t) ha ho hh (fun u hu => by simp [hu]) (by simp [Loc.spinLoop, Loc.dbgHolds])
  | relDeq t new obs n hl hh hnew hn hsp =>
    exact invO_release (t := t) ha ho hh (fun u hu => by simp [hu]) (by simp [Loc.spinLoop, Loc.dbgHolds])
  | relDeqW t new obs n hl hh hnew hn hsp =>
    exact invO_release (t := t) ha ho hh (fun u hu => by simp [hu]) (by simp [Loc.spinLoop, Loc.dbgHolds])
  | relDbg t new obs n hl hh hnew hn hsp =>
    exact invO_release (t := t) ha ho hh (fun u hu => by simp [hu]) (by simp [Loc.spinLoop, Loc.dbgHolds])
  | wHeadExit t r y hy hl hr hw =>
    subst hy
    exact invO_out (t := t) ho rfl (fun u hu => by simp [hu]) (by simp [Loc.spinLoop, Loc.dbgHolds])
  | wCmpEq t r obs hl hr ho' he =>
    exact invO_out (t := t) ho rfl (fun u hu => by simp [hu]) (by simp [Loc.spinLoop, Loc.dbgHolds])
  | deqLdQueued t r obs hl hr hw hq =>
    exact invO_out (t := t) ho rfl (fun u hu => by simp [hu]) (by simp [Loc.spinLoop, Loc.dbgHolds])
  | deqSpinExit t r hl hr hw =>
    exact invO_out (t := t) ho rfl (fun u hu => by simp [hu]) (by simp [Loc.spinLoop, Loc.dbgHolds])
  | wSt1 t r obs hl hm hst =>
    refine invO_of (t := t) ho (fun u hu => by simp [hu]) (.inl rfl) ⟨?_, ?_, ?_⟩
    · simp; split <;> simp [Loc.spinLoop]
    · simp; split <;> simp [Loc.dbgHolds]
    · simp; split <;> simp [Loc.dbgHolds, Loc.spinLoop]
  | wClr t r obs hl hr =>
    exact invO_out (t := t) ho rfl (fun u hu => by simp [hu]) (by simp [Loc.spinLoop, Loc.dbgHolds])
  | wake t r obs hl hr =>
    exact invO_out (t := t) ho rfl (fun u hu => by simp [hu]) (by simp [Loc.spinLoop, Loc.dbgHolds])
  | enqSt t r obs hl hm hst ho' he =>
    exact invO_out (t := t) ho rfl (fun u hu => by simp [hu]) (by simp [Loc.spinLoop, Loc.dbgHolds])
  | deqSt t r obs hl hr =>
    exact invO_out (t := t) ho rfl (fun u hu => by simp [hu]) (by simp [Loc.spinLoop, Loc.dbgHolds])
  | wRmCasOk t r exp new obs hl hr hn ho' he =>
    exact invO_out (t := t) ho rfl (fun u hu => by simp [hu]) (by simp [Loc.spinLoop, Loc.dbgHolds])
  | sRcCasOk t site r exp new obs hl hr hn ho' he =>
    refine invO_out (t := t) ho rfl (fun u hu => by simp [hu]) ?_
    simp; split <;> simp [Loc.spinLoop, Loc.dbgHolds]
  | muMode t obs lt hl hlt =>
    refine invO_of (t := t) ho (fun u hu => by simp [hu]) (.inl rfl) ⟨?_, ?_, ?_⟩
    · simp
    · simp [Loc.dbgHolds]
    · simp [Loc.dbgHolds]
  | wwCasOk t exp new obs f rest hl hlist =>
    exact invO_out (t := t) ho rfl (fun u hu => by simp [hu]) (by simp [Loc.spinLoop, Loc.dbgHolds])
  | semVWake t k r q hl hc =>
    refine invO_out (t := t) ho rfl (fun u hu => by simp [hu]) ?_
    simp; split <;> simp [Loc.spinLoop, Loc.dbgHolds]
  | semPdRetOkW t k hl =>
    exact invO_out (t := t) ho rfl (fun u hu => by simp [hu]) (by simp [Loc.spinLoop, Loc.dbgHolds])
  | semPdRetOkC t k hl =>
    exact invO_out (t := t) ho rfl (fun u hu => by simp [hu]) (by simp [Loc.spinLoop, Loc.dbgHolds])
  | wInit t r hl hm hst => exact invO_same ho rfl rfl
  | nwInit t r hl hm hst => exact invO_same ho rfl rfl
  | fStW t r new hl hf => exact invO_same ho rfl rfl
  | fCasOk t r exp new obs hl hf hn ho' he => exact invO_same ho rfl rfl

theorem invO_reachable {cfg : Config} {s : State} (h : Reachable cfg s) : InvO s := by
  have : Inv s ∧ InvO s := by
    refine reachable_induct (P := fun s => Inv s ∧ InvO s) ⟨⟨invA_init, invB_init⟩, invO_init⟩ ?_ s h
    intro s e s' hi htr
    have hb := invB_tr hi.1.a hi.1.b htr
    exact ⟨⟨invA_tr hi.1.a htr hb.nobad, hb⟩, invO_tr hi.1.a hi.2 htr⟩
  exact this.2

end NsyncVerif.CvFix
