/-
Layer `Dll` (C17): the observers `isEmpty/first/last/next/prev` enumerate the represented
sequence, forwards and backwards.
-/
import NsyncVerif.Proofs.DllRing

namespace Dll

theorem isEmpty_spec {H : Heap} {l : Addr} {xs : List Addr} (hr : Repr H l xs) :
    isEmpty l = true ↔ xs = [] := by
  simp [isEmpty, hr.handle_eq_zero_iff]

/-- The handle is the last element. -/
theorem Repr.handle_eq_last {H : Heap} {l z : Addr} {xs t : List Addr} (hr : Repr H l xs)
    (hx : xs = t ++ [z]) : l = z := by
  subst hx
  have := (hr.ring (by simp)).2
  rw [List.getLast?_concat] at this
  exact (Option.some.inj this).symm

/-- `handle->next` is the first element. -/
theorem Repr.next_handle {H : Heap} {l a : Addr} {xs t : List Addr} (hr : Repr H l xs)
    (hx : xs = a :: t) : H.next l = a := by
  subst hx
  obtain ⟨hring, hlast⟩ := hr.ring (by simp)
  exact (hring.wrap (a := a) (by simp) hlast).1

theorem Repr.handle_mem {H : Heap} {l : Addr} {xs : List Addr} (hr : Repr H l xs)
    (hne : xs ≠ []) : l ∈ xs := List.mem_of_getLast? (hr.ring hne).2

theorem first_nil {H : Heap} {l : Addr} (hr : Repr H l []) : first H l = 0 := by
  simp [first, (repr_nil H l).mp hr]

theorem first_cons {H : Heap} {l a : Addr} {t : List Addr} (hr : Repr H l (a :: t)) :
    first H l = a := by
  have hl : l ≠ 0 := fun h => by simpa using hr.handle_eq_zero_iff.mp h
  simp [first, hl, hr.next_handle rfl]

theorem first_eq_zero_iff {H : Heap} {l : Addr} {xs : List Addr} (hr : Repr H l xs) :
    first H l = 0 ↔ xs = [] := by
  cases xs with
  | nil => simp [first_nil hr]
  | cons a t =>
    rw [first_cons hr]
    have := hr.zero_not_mem
    simp at this ⊢
    grind

theorem last_nil {H : Heap} {l : Addr} (hr : Repr H l []) : last H l = 0 :=
  (repr_nil H l).mp hr

theorem last_concat {H : Heap} {l z : Addr} {t : List Addr} (hr : Repr H l (t ++ [z])) :
    last H l = z := hr.handle_eq_last rfl

theorem last_eq_zero_iff {H : Heap} {l : Addr} {xs : List Addr} (hr : Repr H l xs) :
    last H l = 0 ↔ xs = [] := hr.handle_eq_zero_iff

/-- `next` of a non-last element is its successor in the sequence. -/
theorem next_mid {H : Heap} {l a b : Addr} {as bs : List Addr}
    (hr : Repr H l (as ++ a :: b :: bs)) : next H l a = b := by
  obtain ⟨hring, hlast⟩ := hr.ring (by simp)
  have hl : l ∈ b :: bs := by
    rw [List.getLast?_append] at hlast
    have : (a :: b :: bs).getLast? = (b :: bs).getLast? := List.getLast?_cons_cons
    rw [this] at hlast
    cases h : (b :: bs).getLast? with
    | none => simp at h
    | some z =>
      rw [h] at hlast
      simp at hlast
      exact hlast ▸ List.mem_of_getLast? h
  have hnd := hring.nodup
  have hne : a ≠ l := by
    simp only [List.nodup_append, List.nodup_cons] at hnd
    intro h; subst h; exact hnd.2.1.1 hl
  simp [next, hne, hring.link.1]

/-- `next` of the last element is `NULL`. -/
theorem next_last {H : Heap} {l a : Addr} {as : List Addr}
    (hr : Repr H l (as ++ [a])) : next H l a = 0 := by
  simp [next, hr.handle_eq_last rfl]

/-- `prev` of a non-first element is its predecessor in the sequence. -/
theorem prev_mid {H : Heap} {l a b : Addr} {as bs : List Addr}
    (hr : Repr H l (as ++ a :: b :: bs)) : prev H l b = a := by
  obtain ⟨hring, hlast⟩ := hr.ring (by simp)
  have hnd := hring.nodup
  have hne : b ≠ H.next l := by
    cases as with
    | nil =>
      rw [hr.next_handle rfl]
      simp at hnd; grind
    | cons c as =>
      rw [hr.next_handle rfl]
      simp [List.nodup_append] at hnd; grind
  simp [prev, hne, hring.link.2]

/-- `prev` of the first element is `NULL`. -/
theorem prev_first {H : Heap} {l a : Addr} {bs : List Addr}
    (hr : Repr H l (a :: bs)) : prev H l a = 0 := by
  simp [prev, hr.next_handle rfl]

/-! ### Fuel-bounded traversals -/

theorem walkFwd_zero (H : Heap) (l : Addr) (fuel : Nat) : walkFwd H l fuel 0 = [] := by
  cases fuel <;> simp [walkFwd]

theorem walkBwd_zero (H : Heap) (l : Addr) (fuel : Nat) : walkBwd H l fuel 0 = [] := by
  cases fuel <;> simp [walkBwd]

/-- Walking forward from any element yields the rest of the sequence. -/
theorem walkFwd_spec {H : Heap} {l : Addr} (bs : List Addr) :
    ∀ (as : List Addr) (b : Addr) (fuel : Nat), Repr H l (as ++ b :: bs) →
      bs.length + 1 ≤ fuel → walkFwd H l fuel b = b :: bs := by
  induction bs with
  | nil =>
    intro as b fuel hr hf
    obtain ⟨f, rfl⟩ : ∃ f, fuel = f + 1 := ⟨fuel - 1, by omega⟩
    have hb : b ≠ 0 := fun h => hr.zero_not_mem (by simp [h])
    simp [walkFwd, hb, next_last hr, walkFwd_zero]
  | cons c bs ih =>
    intro as b fuel hr hf
    obtain ⟨f, rfl⟩ : ∃ f, fuel = f + 1 := ⟨fuel - 1, by omega⟩
    have hb : b ≠ 0 := fun h => hr.zero_not_mem (by simp [h])
    have hr' : Repr H l ((as ++ [b]) ++ c :: bs) := by simpa using hr
    simp only [walkFwd, hb, if_false, next_mid hr]
    rw [ih (as ++ [b]) c f hr' (by simp at hf; omega)]

/-- Walking backward from any element yields the reversed prefix of the sequence. -/
theorem walkBwd_spec {H : Heap} {l : Addr} (ras : List Addr) :
    ∀ (b : Addr) (bs : List Addr) (fuel : Nat), Repr H l (ras.reverse ++ b :: bs) →
      ras.length + 1 ≤ fuel → walkBwd H l fuel b = b :: ras := by
  induction ras with
  | nil =>
    intro b bs fuel hr hf
    obtain ⟨f, rfl⟩ : ∃ f, fuel = f + 1 := ⟨fuel - 1, by omega⟩
    have hb : b ≠ 0 := fun h => hr.zero_not_mem (by simp [h])
    simp only [List.reverse_nil, List.nil_append] at hr
    simp [walkBwd, hb, prev_first hr, walkBwd_zero]
  | cons a ras ih =>
    intro b bs fuel hr hf
    obtain ⟨f, rfl⟩ : ∃ f, fuel = f + 1 := ⟨fuel - 1, by omega⟩
    have hb : b ≠ 0 := fun h => hr.zero_not_mem (by simp [h])
    have hr' : Repr H l (ras.reverse ++ a :: b :: bs) := by simpa using hr
    simp only [walkBwd, hb, if_false, prev_mid hr']
    rw [ih a (b :: bs) f hr' (by simp at hf; omega)]

/-- With enough fuel the forward traversal returns exactly the represented sequence. -/
theorem toListFwd_spec {H : Heap} {l : Addr} {xs : List Addr} (hr : Repr H l xs)
    {fuel : Nat} (hf : xs.length ≤ fuel) : toListFwd H l fuel = xs := by
  cases xs with
  | nil => simp [toListFwd, first_nil hr, walkFwd_zero]
  | cons a t =>
    rw [toListFwd, first_cons hr]
    exact walkFwd_spec t [] a fuel hr (by simpa using hf)

/-- With enough fuel the backward traversal returns exactly the reversed sequence. -/
theorem toListBwd_spec {H : Heap} {l : Addr} {xs : List Addr} (hr : Repr H l xs)
    {fuel : Nat} (hf : xs.length ≤ fuel) : toListBwd H l fuel = xs.reverse := by
  rcases list_nil_or_snoc xs with rfl | ⟨t, z, rfl⟩
  · simp [toListBwd, last_nil hr, walkBwd_zero]
  · rw [toListBwd, last_concat hr]
    have := walkBwd_spec (H := H) (l := l) t.reverse z [] fuel (by simpa using hr)
      (by simpa using hf)
    simpa using this

end Dll
