/-
  Proofs/WaitNReady7.lean — `TF` is preserved by the caller's own steps, part 3: enqueue.
-/
import NsyncVerif.Proofs.WaitNReady6

set_option linter.unusedSimpArgs false
set_option linter.unusedVariables false

namespace WaitN

/-- own step, no claim about `waiting` -/
theorem own_stable_nw {s s' : State} {t : Tid} (c : Ctx s t) (hc : inCall (s.pc t) = true) (m : Mono s s' t) :
    Stable False s s' (s.fr t) := by
  have hk := c.known t hc
  exact ⟨fun o ho => m.expiry o (hk o ho), fun o ho hcv hf => m.flag o hcv (hk o ho) hf,
         fun k ho hz hf => m.zero k (hk _ ho) hz hf, m.now, fun h => h.elim⟩

theorem tf_stepEnqCv {s s' : State} {t : Tid} {i : Nat} {st0 : CvEnqSt} {e : Ev} (c : Ctx s t)
    (hpc : s.pc t = .wEnqCv i st0) (h : stepEnqCv s t i st0 e = .ok s') : TF s' (s'.pc t) (s'.fr t) := by
  have hl : LInv (.wEnqCv i st0) (s.fr t) := hpc ▸ c.linv
  have htf : TF s (.wEnqCv i st0) (s.fr t) := hpc ▸ c.tf
  have hc : inCall (s.pc t) = true := by rw [hpc]; rfl
  have st := own_stable_nw c hc (mono_stepEnqCv hpc h)
  have hw' : Waited s' (s.fr t) (s.fr t).count := waited_stable st htf
  unfold stepEnqCv at h
  split at h
  · dsimp only at h
    split at h
    · -- spin
      unfold spinAcq at h
      split_ok h
      all_goals first
        | exact tf_dflt c h
        | (cases h; simp only [setPc_pc, setPc_fr, setObj_fr, if_true]; exact hw')
    · -- store
      split_ok h
      all_goals first
        | exact tf_dflt c h
        | (cases h; simp only [setPc_pc, setPc_fr, setObj_fr, setRec_fr, if_true]; exact hw')
    · -- release
      split_ok h
      all_goals first
        | exact tf_dflt c h
        | (have sh := shared_afterEnq h
           refine tf_afterEnq (s := s.setObj _ _) hl.1 hl.2.1 hl.2.2.2 ?_ (by simp) h
           simp only [setObj_fr]
           intro k c' hk hc'
           simpa using htf k c' hk hc')
  · simp at h

theorem not_cv_of {f : Frame} {i : Nat} (h : isNoteAt f i ∨ isCtrAt f i) : ¬ isCvAt f i := by
  rintro ⟨c, hc⟩
  rcases h with ⟨n, hn⟩ | ⟨k, hk⟩
  · rw [hn] at hc; cases hc
  · rw [hk] at hc; cases hc

set_option hygiene false in
macro "enq_mv" t:term : tactic =>
  `(tactic| (cases h; simp only [setPc_pc, setPc_fr, setObj_fr, setRec_fr, if_true]; exact ⟨hw', $t⟩))

theorem tf_stepEnq {s s' : State} {t : Tid} {i : Nat} {st0 : EnqSt} {e : Ev} (c : Ctx s t)
    (hpc : s.pc t = .wEnq i st0) (h : stepEnq s t i st0 e = .ok s') : TF s' (s'.pc t) (s'.fr t) := by
  have hl : LInv (.wEnq i st0) (s.fr t) := hpc ▸ c.linv
  have htf : TF s (.wEnq i st0) (s.fr t) := hpc ▸ c.tf
  have hc : inCall (s.pc t) = true := by rw [hpc]; rfl
  have st := own_stable_nw c hc (mono_stepEnq hpc h)
  have hw' : Waited s' (s.fr t) (s.fr t).count := waited_stable st htf.1
  have hncv : ¬ isCvAt (s.fr t) i := not_cv_of hl.2.2.1
  have hsr : sReady s (s.fr t) i → sReady s' (s.fr t) i := sReady_stable st (.inr hncv)
  unfold stepEnq at h
  split at h
  · rename_i oid r hoi hri
    dsimp only at h
    split at h
    · -- lockCall
      split at h
      · split at h
        · enq_mv trivial
        · simp at h
      · exact tf_dflt c h
    · -- lockWait
      split at h
      · split at h
        · enq_mv trivial
        · simp at h
      · exact tf_dflt c h
    · -- load
      split at h
      · rename_i n n' obs
        split at h
        · rename_i hg
          cases hb : noteTimePos (s.obj (.note n)) obs with
          | true => rw [hb] at h; enq_mv trivial
          | false =>
            rw [hb] at h
            have : sReady s (s.fr t) i := by
              unfold sReady; rw [hoi]
              apply noteReady_of_notif
              unfold noteTimePos at hb
              by_cases h0 : obs = 0
              · right; simpa [h0] using hb
              · left; exact flag_of_obs hg.2 h0
            enq_mv (hsr this)
        · simp at h
      · rename_i k k' obs
        split at h
        · rename_i hg
          by_cases h0 : obs = 0
          · have : sReady s (s.fr t) i := by
              unfold sReady; rw [hoi]
              exact ⟨by rw [← hg.2]; exact h0, htf.1 i k (lt_count_of_get hoi) hoi⟩
            have hd : decide (obs ≠ 0) = false := by simp [h0]
            rw [hd] at h
            enq_mv (hsr this)
          · have hd : decide (obs ≠ 0) = true := by simp [h0]
            rw [hd] at h
            enq_mv trivial
        · simp at h
      · exact tf_dflt c h
    · -- store
      rename_i enq
      cases enq with
      | true =>
        simp only [if_true] at h
        split_ok h
        all_goals first
          | exact tf_dflt c h
          | enq_mv trivial
      | false =>
        simp only [Bool.false_eq_true, if_false] at h
        split_ok h
        all_goals first
          | exact tf_dflt c h
          | enq_mv (hsr htf.2)
    · -- unlockCall
      rename_i enq
      split at h
      · split at h
        · cases enq with
          | true => enq_mv trivial
          | false => enq_mv (hsr htf.2)
        · simp at h
      · exact tf_dflt c h
    · -- unlockWait
      rename_i enq
      split at h
      · refine tf_afterEnq hl.1 hl.2.1 hl.2.2.2 htf.1 ?_ h
        intro he; subst he; exact htf.2
      · exact tf_dflt c h
  · simp at h

end WaitN
