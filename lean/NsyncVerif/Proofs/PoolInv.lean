/-
  Layer `Pool`: the inductive invariant, in three independent groups
    `MInv` — the spinlock (word, ghost holder, critical sections),
    `LInv` — the location of every struct (free list / in transit / handed out / reserved-idle /
             not yet allocated) against the concrete representation (list, pcs, flag bits,
             per-thread slots),
    `FInv` — the contract fields and the initialisation block.
  Each group only mentions the state components it depends on (the pcs through a view), so that a
  step that does not touch them preserves the group by reflexivity.
-/
import NsyncVerif.Proofs.PoolBasic

namespace Pool

/-- View of the pcs used by `LInv`: the struct each thread carries. -/
def trOf (pc : Tid → PC) : Tid → Option Wid := fun t => (pc t).transit

/-- The struct a pc is initialising. -/
def PC.initing : PC → Option Wid
  | .newInit w => some w
  | _ => none

/-- View of the pcs used by `FInv`: the struct each thread is initialising. -/
def iniOf (pc : Tid → PC) : Tid → Option Wid := fun t => (pc t).initing

structure MInv (mu : Nat) (holder : Option Tid) (pc : Tid → PC) : Prop where
  /-- the spinlock word is 1 exactly while some thread is in a critical section -/
  muVal : mu = if holder.isSome then 1 else 0
  /-- the thread in a critical section is the ghost holder -/
  csIff : ∀ t, (∃ j, pc t = .cs j) ↔ holder = some t
  /-- a thread about to CAS loaded 0 -/
  casOld : ∀ t j old, pc t = .spinCas j old → old = 0

structure LInv (free : List Wid) (loc : Wid → Loc) (tr : Tid → Option Wid) (nalloc : Nat)
    (inuse reserved : Wid → Bool) (ptw : Tid → Option Wid) : Prop where
  nodup : free.Nodup
  locFree : ∀ w, w ∈ free ↔ loc w = .free
  locTr : ∀ t w, tr t = some w ↔ loc w = .transit t
  locUn : ∀ w, loc w = .unalloc ↔ nalloc ≤ w
  inuseIff : ∀ w, inuse w = true ↔ ∃ t, loc w = .held t
  resIdle : ∀ t w, loc w = .resIdle t → ptw t = some w
  ptwOK : ∀ t w, ptw t = some w → reserved w = true ∧ (loc w = .resIdle t ∨ loc w = .held t)
  resOK : ∀ w, reserved w = true → ∃ t, ptw t = some w

structure FInv (ready : Wid → Bool) (nalloc : Nat) (ini : Tid → Option Wid)
    (nwflags : Wid → Nat) (sem : Wid → Option Wid) (inits : Wid → Nat)
    (nwr : Wid → Fld → Nat) : Prop where
  readyIff : ∀ w, ready w = true ↔ (w < nalloc ∧ ∀ t, ini t ≠ some w)
  fields : ∀ w, ready w = true →
    nwflags w = MUCV ∧ sem w = some w ∧ inits w = 1 ∧ ∀ f, nwr w f = 1
  initing : ∀ t w, ini t = some w →
    w < nalloc ∧ nwflags w = MUCV ∧ sem w = some w ∧ inits w = 1 ∧
    nwr w .rc = 0 ∧ nwr w .sem = 1 ∧ nwr w .waiting = 1 ∧ nwr w .nwflags = 1
  iniInj : ∀ t u w, ini t = some w → ini u = some w → t = u
  unalloc : ∀ w, nalloc ≤ w → inits w = 0 ∧ ∀ f, nwr w f = 0

/-- The inductive invariant of the waiter pool. -/
structure Inv (s : State) : Prop where
  m : MInv s.mu s.holder s.pc
  l : LInv s.free s.loc (trOf s.pc) s.nalloc s.inuse s.reserved s.ptw
  f : FInv s.ready s.nalloc (iniOf s.pc) s.nwflags s.sem s.inits s.nwr

theorem inv_init : Inv init := by
  refine ⟨?_, ?_, ?_⟩
  · constructor <;> simp [init]
  · constructor <;> simp [init, trOf, PC.transit]
  · constructor <;> simp [init, iniOf, PC.initing]

/-! ### views under a pc update -/

theorem upd_self {β : Type} (f : Nat → β) (a : Nat) : upd f a (f a) = f := by
  funext x; simp only [upd_apply]; split
  · subst_vars; rfl
  · rfl

theorem trOf_upd (pc : Tid → PC) (t : Tid) (p : PC) :
    trOf (upd pc t p) = upd (trOf pc) t p.transit := by
  funext x; simp only [trOf, upd_apply]; split <;> rfl

theorem iniOf_upd (pc : Tid → PC) (t : Tid) (p : PC) :
    iniOf (upd pc t p) = upd (iniOf pc) t p.initing := by
  funext x; simp only [iniOf, upd_apply]; split <;> rfl

theorem trOf_upd_same {pc : Tid → PC} {t : Tid} {p : PC} (h : p.transit = (pc t).transit) :
    trOf (upd pc t p) = trOf pc := by
  rw [trOf_upd, h]; exact upd_self (trOf pc) t

theorem iniOf_upd_same {pc : Tid → PC} {t : Tid} {p : PC} (h : p.initing = (pc t).initing) :
    iniOf (upd pc t p) = iniOf pc := by
  rw [iniOf_upd, h]; exact upd_self (iniOf pc) t

theorem afterLoad_transit (j : Job) (obs : Nat) : (afterLoad j obs).transit = j.carried := by
  unfold afterLoad; split <;> rfl

theorem afterLoad_initing (j : Job) (obs : Nat) : (afterLoad j obs).initing = none := by
  unfold afterLoad; split <;> rfl

end Pool
