import NsyncVerif.Proofs.MuCInv9Cas2
/-
  MuC (I_wait): the final CAS of unlock_slow, the enqueue steps, the stores to `waiting`, the restoring
  store of mu_try_acquire_after_timeout_or_cancel.
-/
namespace NsyncVerif.MuC

theorem finPc_waitRec (r : Ret) (l : List Wid) : (finPc r l).waitRec = r.w? := by
  cases l <;> cases r <;> rfl
theorem finPc_wmode (r : Ret) (l : List Wid) {x : Wid} (h : r.w? = some x) : (finPc r l).wmode = r.wmode := by
  cases l <;> cases r <;> first | rfl | (simp [Ret.w?] at h)
theorem finPc_pwait (r : Ret) (l : List Wid) : (finPc r l).pwait = none := by
  cases l <;> cases r <;> rfl
theorem finPc_wakeL (r : Ret) (l : List Wid) : (finPc r l).wakeL = l := by
  cases l <;> cases r <;> rfl
theorem finPc_hlRec (r : Ret) (l : List Wid) (hr : r.ok) : (finPc r l).hlRec = none := by
  cases l <;> cases r <;> first | rfl | (simp only [finPc, Ret.pc, PC.hlRec]; simp_all [Ret.ok, MW.inner])
theorem finPc_limboL (r : Ret) (l : List Wid) : (finPc r l).limboL = none := by
  cases l <;> cases r <;> rfl

theorem listed_congr {s s' : State} (hQ : ∀ k, Queued s' k ↔ Queued s k) (hwk : ∀ u, (s'.pc u).wakeL = (s.pc u).wakeL) (k : Wid) :
    Listed s' k ↔ Listed s k := by
  simp only [Listed, hQ, hwk]

theorem inv9_stepCasC {s s' : State} {t : Tid} {o : Ord} {loc : Loc} {exp new obs : Nat} {ok : Bool}
    (h1 : Inv1 s) (h3 : Inv3 s) (h4 : Inv4 s) (h : Inv9 s)
    (hp : match s.pc t with
      | .usFinCas _ _ _ | .mwEnqCas _ _ => True
      | _ => False)
    (hs : stepCas s t o loc exp new obs ok = .ok s') : Inv9 s' := by
  unfold stepCas at hs
  split at hs
  all_goals try (rename_i heq; rw [heq] at hp; exact False.elim hp)
  all_goals try (rename_i hne; split at hp <;> first | exact False.elim hp | (exfalso; simp_all; done))
  · -- usFinCas: MU_WAITING is cleared only when nothing is queued
    rename_i r f old heq
    rcases casWord_ok hs with ⟨hw, -, rfl⟩ | ⟨-, -, rfl⟩
    · rw [afterFin_eq]
      have hspin : (s.pc t).spin = true := by rw [heq]; rfl
      have hsp := h3.others_no_spin hspin
      have hce := h4.finq t f (by rw [heq]; rfl)
      have hpcs : ∀ u, u ≠ t → (setPc (if f.late = true then { s with word := finWord f old, sp := none, wOwner := none }
          else { s with word := finWord f old, sp := none }) t (finPc r f.wake)).pc u = s.pc u := by
        intro u hu; split <;> simp [setFn, hu]
      have hpct : (setPc (if f.late = true then { s with word := finWord f old, sp := none, wOwner := none }
          else { s with word := finWord f old, sp := none }) t (finPc r f.wake)).pc t = finPc r f.wake := by
        split <;> simp
      have hwrs : (setPc (if f.late = true then { s with word := finWord f old, sp := none, wOwner := none }
          else { s with word := finWord f old, sp := none }) t (finPc r f.wake)).wr = s.wr := by
        split <;> simp
      have hwd : (setPc (if f.late = true then { s with word := finWord f old, sp := none, wOwner := none }
          else { s with word := finWord f old, sp := none }) t (finPc r f.wake)).word = finWord f old := by
        split <;> simp
      have hQ : ∀ k, Queued (setPc (if f.late = true then { s with word := finWord f old, sp := none, wOwner := none }
          else { s with word := finWord f old, sp := none }) t (finPc r f.wake)) k ↔ Queued s k := by
        intro k
        refine queued_same (t := t) (by split <;> simp) (by intro u hu; split <;> simp [setFn, hu]) ?_ k
        rw [hpct, heq, finPc_scan]; rfl
      have hwkL : ∀ u, ((setPc (if f.late = true then { s with word := finWord f old, sp := none, wOwner := none }
          else { s with word := finWord f old, sp := none }) t (finPc r f.wake)).pc u).wakeL = (s.pc u).wakeL := by
        intro u; by_cases e : u = t
        · subst e; rw [hpct, heq, finPc_wakeL]; rfl
        · rw [hpcs u e]
      have hL := listed_congr hQ hwkL
      have hqueue : ∀ k, Queued s k → k ∈ s.queue := by
        rintro k (hk | ⟨u, sc, hu, _⟩)
        · exact hk
        · have := h4.uniq u t (unl_of_scan hu) (by rw [heq]; rfl)
          subst this; rw [heq] at hu; simp [PC.scan?] at hu
      refine Inv9.core t none h4 h ?_ ?_ ?_ (fun x hx => Or.inl ((hL x).1 hx)) (fun x hx _ _ => (hL x).2 hx)
        (fun x _ => by rw [hwrs]; exact ⟨rfl, rfl, id⟩) (fun u _ x e => by cases e) hpcs ?_ ?_ ?_ ?_ ?_ ?_ (fun u _ x l _ e => by cases e)
        ?_ (fun u _ x _ e => by cases e)
      · intro k hk
        have hk' := (hQ k).1 hk
        have hne : s.queue ≠ [] := List.ne_nil_of_mem (hqueue k hk')
        have hcef : f.cEmpty = false := by
          rw [hce]; cases hq : s.queue with
          | nil => exact absurd hq hne
          | cons a b => rfl
        rw [hwd]
        simp [finWord, hcef, ← hw, h.w4 k hk']
      · intro u hu
        by_cases e : u = t
        · subst e; rw [hpct, finPc_enqPend] at hu; cases hu
        · rw [hpcs u e] at hu
          have := spin_of_enqPend hu; rw [hsp u e] at this; cases this
      · intro u old' ho k hk
        by_cases e : u = t
        · subst e; rw [hpct, finPc_mtOld] at ho; cases ho
        · rw [hpcs u e] at ho
          exact h.w4m u old' ho k ((hQ k).1 hk)
      · intro x hx _; rw [hpct, finPc_waitRec]; rw [heq] at hx; exact hx
      · intro x hx
        rw [hpct, finPc_waitRec] at hx
        rw [hpct, finPc_wmode r f.wake hx, hwrs]
        have := h.lt t x (by rw [heq]; exact hx)
        rw [heq] at this; exact this
      · intro x hx hwt
        rw [hpct, finPc_waitRec] at hx
        rw [hwrs] at hwt
        exact (hL x).2 (h.w3 t x (by rw [heq]; exact hx) hwt)
      · intro x hx; rw [hpct, finPc_pwait] at hx; cases hx
      · intro r' x rest hv; rw [heq] at hv; cases hv
      · intro k l hk; rw [hpct, finPc_limboL] at hk; cases hk
      · intro k hk
        have hok := h1.pcok t; rw [heq] at hok
        rw [hpct, finPc_hlRec r f.wake hok] at hk; cases hk
    · inv9_local t h4 h heq
  · -- mwEnqCas: the record in limbo is queued
    rename_i c old heq
    split at hs
    · cases hs
    · rename_i k hcw
      have hok3 := h3.ok3 t; rw [heq] at hok3
      rcases casWord_ok hs with ⟨hw, -, rfl⟩ | ⟨-, -, rfl⟩
      · have hnospin := h3.no_spin_of_free (by rw [hw]; exact hok3)
        have hlimbo := h4.limbo t k (by rw [heq]; simp [PC.limbo, hcw])
        have hpcs : ∀ u, u ≠ t → (setPc (if c.first = true then enqLast { s with word := mwEnqWord c.cond.isSome old, sp := some t } k
            else enqFirst { s with word := mwEnqWord c.cond.isSome old, sp := some t } k) t
            (PC.mwRelLd { c with hadW := old.waiting, first := false })).pc u = s.pc u := by
          intro u hu; split <;> simp [enqLast, enqFirst, setFn, hu]
        have hwrs : ∀ x, ((setPc (if c.first = true then enqLast { s with word := mwEnqWord c.cond.isSome old, sp := some t } k
            else enqFirst { s with word := mwEnqWord c.cond.isSome old, sp := some t } k) t
            (PC.mwRelLd { c with hadW := old.waiting, first := false })).wr x).waiting = (s.wr x).waiting ∧
            ((setPc (if c.first = true then enqLast { s with word := mwEnqWord c.cond.isSome old, sp := some t } k
            else enqFirst { s with word := mwEnqWord c.cond.isSome old, sp := some t } k) t
            (PC.mwRelLd { c with hadW := old.waiting, first := false })).wr x).lType = (s.wr x).lType ∧
            ((setPc (if c.first = true then enqLast { s with word := mwEnqWord c.cond.isSome old, sp := some t } k
            else enqFirst { s with word := mwEnqWord c.cond.isSome old, sp := some t } k) t
            (PC.mwRelLd { c with hadW := old.waiting, first := false })).wr x).sem = (s.wr x).sem := by
          intro x
          split
          · have := lnkOnly_mergeLinks { s with word := mwEnqWord c.cond.isSome old, sp := some t } s.queue.getLast? (some k) x
            exact ⟨this.2.1, this.2.2.1, this.2.2.2.1⟩
          · have := lnkOnly_mergeLinks { s with word := mwEnqWord c.cond.isSome old, sp := some t } (some k) s.queue.head? x
            exact ⟨this.2.1, this.2.2.1, this.2.2.2.1⟩
        have hwd : (setPc (if c.first = true then enqLast { s with word := mwEnqWord c.cond.isSome old, sp := some t } k
            else enqFirst { s with word := mwEnqWord c.cond.isSome old, sp := some t } k) t
            (PC.mwRelLd { c with hadW := old.waiting, first := false })).word.waiting = true := by
          split <;> simp [enqLast, enqFirst, mwEnqWord]
        have hQ : ∀ x, Queued (setPc (if c.first = true then enqLast { s with word := mwEnqWord c.cond.isSome old, sp := some t } k
            else enqFirst { s with word := mwEnqWord c.cond.isSome old, sp := some t } k) t
            (PC.mwRelLd { c with hadW := old.waiting, first := false })) x ↔ x = k ∨ Queued s x := by
          intro x
          simp only [Queued]
          have hsc : ∀ u, ((setPc (if c.first = true then enqLast { s with word := mwEnqWord c.cond.isSome old, sp := some t } k
              else enqFirst { s with word := mwEnqWord c.cond.isSome old, sp := some t } k) t
              (PC.mwRelLd { c with hadW := old.waiting, first := false })).pc u).scan? = (s.pc u).scan? := by
            intro u; by_cases e : u = t
            · subst e; split <;> simp [enqLast, enqFirst, heq, PC.scan?]
            · rw [hpcs u e]
          simp only [hsc]
          have hq : x ∈ (setPc (if c.first = true then enqLast { s with word := mwEnqWord c.cond.isSome old, sp := some t } k
              else enqFirst { s with word := mwEnqWord c.cond.isSome old, sp := some t } k) t
              (PC.mwRelLd { c with hadW := old.waiting, first := false })).queue ↔ x = k ∨ x ∈ s.queue := by
            split <;> simp [enqLast, enqFirst, or_comm]
          rw [hq]
          constructor
          · rintro ((a | a) | a)
            · exact Or.inl a
            · exact Or.inr (Or.inl a)
            · exact Or.inr (Or.inr a)
          · rintro (a | a | a)
            · exact Or.inl (Or.inl a)
            · exact Or.inl (Or.inr a)
            · exact Or.inr a
        have hwkL : ∀ u, ((setPc (if c.first = true then enqLast { s with word := mwEnqWord c.cond.isSome old, sp := some t } k
            else enqFirst { s with word := mwEnqWord c.cond.isSome old, sp := some t } k) t
            (PC.mwRelLd { c with hadW := old.waiting, first := false })).pc u).wakeL = (s.pc u).wakeL := by
          intro u; by_cases e : u = t
          · subst e; split <;> simp [enqLast, enqFirst, heq, PC.wakeL]
          · rw [hpcs u e]
        have hpct : (setPc (if c.first = true then enqLast { s with word := mwEnqWord c.cond.isSome old, sp := some t } k
            else enqFirst { s with word := mwEnqWord c.cond.isSome old, sp := some t } k) t
            (PC.mwRelLd { c with hadW := old.waiting, first := false })).pc t = PC.mwRelLd { c with hadW := old.waiting, first := false } := by
          split <;> simp [enqLast, enqFirst]
        refine Inv9.core t none h4 h (fun _ _ => hwd) (fun _ _ => hwd) ?_ ?_ ?_
          (fun x _ => ⟨(hwrs x).1, (hwrs x).2.1, by rw [(hwrs x).2.2]; exact id⟩) (fun u _ x e => by cases e) hpcs ?_ ?_ ?_ ?_ ?_ ?_
          (fun u _ x l _ e => by cases e) ?_ (fun u _ x _ e => by cases e)
        · intro u old' ho
          by_cases e : u = t
          · subst e; rw [hpct] at ho; simp [PC.mtOld] at ho
          · rw [hpcs u e] at ho
            have := spin_of_mtOld ho; rw [hnospin u] at this; cases this
        · rintro x (hx | ⟨u, hu⟩)
          · rcases (hQ x).1 hx with e | e
            · right; rw [hpct, e]; simp [PC.waitRec, hcw]
            · exact Or.inl (Or.inl e)
          · rw [hwkL] at hu; exact Or.inl (Or.inr ⟨u, hu⟩)
        · rintro x (hx | ⟨u, hu⟩) _ _
          · exact Or.inl ((hQ x).2 (Or.inr hx))
          · exact Or.inr ⟨u, by rw [hwkL]; exact hu⟩
        · intro x hx; rw [heq] at hx; simp [PC.waitRec] at hx
        · intro x hx
          rw [hpct] at hx ⊢
          simp only [PC.waitRec, hcw, Option.some.injEq] at hx
          subst hx
          rw [(hwrs _).2.1]
          simp only [PC.wmode]
          exact h.lim t _ c.l (by rw [heq]; simp [PC.limboL, hcw])
        · intro x hx _
          rw [hpct] at hx
          simp only [PC.waitRec, hcw, Option.some.injEq] at hx
          subst hx
          exact Or.inl ((hQ _).2 (Or.inl rfl))
        · intro x hx; rw [hpct] at hx; simp [PC.pwait] at hx
        · intro r' x rest hv; rw [heq] at hv; cases hv
        · intro k' l hk'; rw [hpct] at hk'; simp [PC.limboL] at hk'
        · intro k' hk'; rw [hpct] at hk'; simp [PC.hlRec] at hk'
      · inv9_local t h4 h heq

end NsyncVerif.MuC
