/-
  Layer `Note`, the current forest (`parent` pointers and `children` lists): the five shapes of
  update one accepted step can make, with the program counter of the thread that makes it.
-/
import NsyncVerif.Proofs.NoteRelW3

set_option linter.unusedSimpArgs false

namespace Note

/-- The step leaves the forest alone. -/
def ForestSame (s s' : State) : Prop :=
  ∀ j, (s'.notes j).children = (s.notes j).children ∧ (s'.notes j).parent = (s.notes j).parent

/-- `c->parent = p; p->children += c` (note.c:185-186 / 216-217). -/
def ForestLink (s s' : State) (c p : NoteId) : Prop :=
  ∀ j, (s'.notes j).children = (if j = p then (s.notes j).children ++ [c]
      else (s.notes j).children) ∧
    (s'.notes j).parent = (if j = c then some p else (s.notes j).parent)

/-- The adoption of `c` by `nsync_note_free (n)`: `n->children -= c; c->parent = p;
    p->children += c` (note.c:215-217, `p ≠ n`). -/
def ForestMove (s s' : State) (c n p : NoteId) : Prop :=
  ∀ j, (s'.notes j).children = (if j = p then (s.notes j).children ++ [c]
      else if j = n then (s.notes j).children.erase c else (s.notes j).children) ∧
    (s'.notes j).parent = (if j = c then some p else (s.notes j).parent)

/-- `p->children -= c; c->parent = NULL` (note.c:105-108 / 226-229; for a note `n` without
    parent freed by `nsync_note_free`: `n->children -= c; c->parent = NULL`). -/
def ForestUnlink (s s' : State) (c p : NoteId) : Prop :=
  ∀ j, (s'.notes j).children = (if j = p then (s.notes j).children.erase c
      else (s.notes j).children) ∧
    (s'.notes j).parent = (if j = c then none else (s.notes j).parent)

/-- The thread is about to end an activation of `note_notify_child (c, p)` — it found `c`
    notified already (`ld`), or leaves WAIT_FOR_NO_CHILDREN (`c`) — or to leave the
    WAIT_FOR_NO_CHILDREN (`c`) of `nsync_note_free (c)`; the step may disconnect `c` from `p`. -/
def PC.unlinks (pc : PC) (c p : NoteId) : Prop :=
  (∃ pos f rest top, pc = .chd pos (f :: rest) top ∧ (pos = .ld ∨ ∃ kept, pos = .waitRet kept) ∧
    f.note = c ∧ frameParent rest top = some p) ∨
  (∃ kept c' nx, pc = .fr (.waitRet kept) c (some p) c' nx)

/-- The thread is inside `note_notify_child`. -/
def PC.isChd : PC → Bool
  | .chd .. => true
  | _ => false

theorem InvL.claim_of {s : State} (hL : InvL s) {t : Tid} {pc : PC} (h : s.pc t = pc) :
    LClaim s pc := h ▸ hL.claim t

theorem InvN.claim_of {s : State} (hN : InvN s) {t : Tid} {pc : PC} (h : s.pc t = pc) :
    NClaim s t pc := h ▸ hN.claim t

/-- Close a `ForestSame` goal. -/
macro "nrel_fsame" : tactic => `(tactic| (
  left
  intro j
  constructor <;> simp))

theorem childUnlinks_some {s : State} {f : Frame} {rest : List Frame} {top : Top} {p : NoteId}
    (h : childUnlinks s f rest top = some p) :
    frameParent rest top = some p ∧ (s.notes f.note).disconnecting = 1 := by
  unfold childUnlinks at h
  split at h
  · next q hq =>
    split at h
    · next hd => cases h; exact ⟨hq, hd⟩
    · cases h
  · cases h

/-- The end of an activation of `note_notify_child`: the forest is left alone, or the note of the
    activation is disconnected from the `parent` argument — by the last disconnector. -/
theorem forest_childReturn (s s1 : State) (t : Tid) (f : Frame) (rest : List Frame) (top : Top)
    (h1 : ∀ j, (s1.notes j).children = (s.notes j).children ∧
      (s1.notes j).parent = (s.notes j).parent)
    (hd : (s1.notes f.note).disconnecting = (s.notes f.note).disconnecting) :
    ForestSame s (childReturn s1 t f rest top) ∨
    (∃ p, frameParent rest top = some p ∧ (s.notes f.note).disconnecting = 1 ∧
      ForestUnlink s (childReturn s1 t f rest top) f.note p) := by
  cases hu : childUnlinks s1 f rest top with
  | none => left; intro j; simp [hu, h1 j]
  | some p =>
    right
    obtain ⟨h2, h3⟩ := childUnlinks_some hu
    refine ⟨p, h2, hd ▸ h3, fun j => ⟨?_, ?_⟩⟩
    · simp only [childReturn_f_children, hu, Option.some.injEq, (h1 j).1]
      by_cases hj : j = p
      · subst hj; simp
      · rw [if_neg (fun h => hj h.symm), if_neg hj]
    · simp [hu, (h1 j).2]

/-- … in the shape of the conclusion of `step_forest`. -/
theorem step_forest_childReturn {s s1 : State} {e : Event} {t : Tid} {pos : CPos} {f : Frame}
    {rest : List Frame} {top : Top} (he : e.actor = some t)
    (hpc : s.pc t = .chd pos (f :: rest) top) (hpos : pos = .ld ∨ ∃ kept, pos = .waitRet kept)
    (h1 : ∀ j, (s1.notes j).children = (s.notes j).children ∧
      (s1.notes j).parent = (s.notes j).parent)
    (hd : (s1.notes f.note).disconnecting = (s.notes f.note).disconnecting) :
    ForestSame s (childReturn s1 t f rest top) ∨
    (∃ a c p dl, e.actor = some a ∧ s.pc a = .newP .ld c p dl ∧ (s.notes p).notified = false ∧
      (childReturn s1 t f rest top).pc a = .newP .unlockCall c p dl ∧
      ForestLink s (childReturn s1 t f rest top) c p) ∨
    (∃ a n p c nx, e.actor = some a ∧ s.pc a = .fr .lockChildRet n (some p) c nx ∧
      (s.notes c).disconnecting = 0 ∧ ForestMove s (childReturn s1 t f rest top) c n p) ∨
    (∃ a n c nx, e.actor = some a ∧ s.pc a = .fr .lockChildRet n none c nx ∧
      (s.notes c).disconnecting = 0 ∧ ForestUnlink s (childReturn s1 t f rest top) c n) ∨
    (∃ a c p, e.actor = some a ∧ (s.pc a).unlinks c p ∧
      ((s.pc a).isChd = true → (s.notes c).disconnecting = 1) ∧
      ForestUnlink s (childReturn s1 t f rest top) c p) := by
  rcases forest_childReturn s s1 t f rest top h1 hd with h | ⟨p, hp, hd', hf⟩
  · exact Or.inl h
  · right; right; right; right
    exact ⟨t, f.note, p, he, Or.inl ⟨_, _, _, _, hpc, hpos, rfl, hp⟩, fun _ => hd', hf⟩

theorem step_forest {s s' : State} {e : Event} (hS : InvS s) (hL : InvL s)
    (hs : step s e = .ok s') :
    ForestSame s s' ∨
    (∃ a c p dl, e.actor = some a ∧ s.pc a = .newP .ld c p dl ∧ (s.notes p).notified = false ∧
      s'.pc a = .newP .unlockCall c p dl ∧ ForestLink s s' c p) ∨
    (∃ a n p c nx, e.actor = some a ∧ s.pc a = .fr .lockChildRet n (some p) c nx ∧
      (s.notes c).disconnecting = 0 ∧ ForestMove s s' c n p) ∨
    (∃ a n c nx, e.actor = some a ∧ s.pc a = .fr .lockChildRet n none c nx ∧
      (s.notes c).disconnecting = 0 ∧ ForestUnlink s s' c n) ∨
    (∃ a c p, e.actor = some a ∧ (s.pc a).unlinks c p ∧
      ((s.pc a).isChd = true → (s.notes c).disconnecting = 1) ∧ ForestUnlink s s' c p) := by
  cases e
  all_goals step_cases hs
  all_goals (try (left; intro j; exact ⟨rfl, rfl⟩))
  all_goals (try (nrel_fsame; done))
  -- the end of an activation of note_notify_child
  all_goals (try (
    have hpc := ‹s.pc _ = PC.chd _ _ _›
    exact step_forest_childReturn rfl hpc (by simp) (fun j => ⟨by simp, by simp⟩) (by simp)))
  all_goals (repeat' split)
  all_goals (try (nrel_fsame; done))
  all_goals (try (
    have hpc := ‹s.pc _ = PC.chd _ _ _›
    exact step_forest_childReturn rfl hpc (by simp) (fun j => ⟨by simp, by simp⟩) (by simp)))
  -- nsync_note_new links the new note
  · have hpc := ‹s.pc _ = _›
    have hpos := ‹(s.notes _).ntime.pos›
    right; left
    refine ⟨_, _, _, _, rfl, hpc, ?_, by simp, fun j => ⟨by simp, by simp⟩⟩
    cases hk : (s.notes _).notified with
    | false => rfl
    | true => exact absurd hpos (by simp [NoteRec.ntime, hk, Dl.pos])
  -- nsync_note_free adopts a child
  · have hpc := ‹s.pc _ = _›
    have hd := ‹(s.notes _).disconnecting = 0›
    right; right; left
    have h2 := hL.claim_of hpc
    have hne := (h2.2.1 _ rfl).2
    refine ⟨_, _, _, _, _, rfl, hpc, hd, fun j => ⟨?_, by simp⟩⟩
    simp only [setPc_notes, link_f_children, eraseChild_f_children, acquire_f_children,
      setAdopted_f_children]
    split
    · next hjp => subst hjp; simp [hne]
    · rfl
  · have hpc := ‹s.pc _ = _›
    have hd := ‹(s.notes _).disconnecting = 0›
    right; right; right; left
    exact ⟨_, _, _, _, rfl, hpc, hd, fun j => ⟨by simp, by simp⟩⟩
  -- nsync_note_free disconnects the note from its parent
  · have hpc := ‹s.pc _ = _›
    right; right; right; right
    exact ⟨_, _, _, rfl, Or.inr ⟨_, _, _, hpc⟩, by rw [hpc]; simp [PC.isChd],
      fun j => ⟨by simp, by simp⟩⟩
  · have hpc := ‹s.pc _ = _›
    right; right; right; right
    exact ⟨_, _, _, rfl, Or.inr ⟨_, _, _, hpc⟩, by rw [hpc]; simp [PC.isChd],
      fun j => ⟨by simp, by simp⟩⟩
  -- malloc: a note that was never allocated has neither children nor parent
  · have hfresh := ‹(s.notes _).allocated = false›
    left
    intro j
    simp only [setPc_notes, allocNote_f]
    split
    · next hj =>
      subst hj
      constructor
      · cases hcs : (s.notes j).children with
        | nil => simp [NoteRec.blank]
        | cons c cs =>
          have := hS.anc c j (hS.children j c (by rw [hcs]; simp)).1
          rw [hfresh] at this; cases this
      · cases hp : (s.notes j).parent with
        | none => simp [NoteRec.blank]
        | some p =>
          have := (hS.parent p j hp).1
          rw [hS.unalloc j hfresh] at this; cases this
    · exact ⟨rfl, rfl⟩

end Note
