/-
  Layer `Note`, the current forest (`parent` pointers and `children` lists): the five shapes of
  update one accepted step can make, with the program counter of the thread that makes it.
-/
import NsyncVerif.Proofs.NoteRelW3

set_option linter.unusedSimpArgs false

namespace Note

/-- The step leaves the forest alone. -/
def ForestSame (s s' : State) : Prop :=
  ∀ j, (s'.notes j).children = (s.notes j).children ∧ (s'.notes j).parent = (s.notes j).parent

/-- `c->parent = p; p->children += c` (note.c:185-186 / 216-217). -/
def ForestLink (s s' : State) (c p : NoteId) : Prop :=
  ∀ j, (s'.notes j).children = (if j = p then (s.notes j).children ++ [c]
      else (s.notes j).children) ∧
    (s'.notes j).parent = (if j = c then some p else (s.notes j).parent)

/-- The adoption of `c` by `nsync_note_free (n)`: `n->children -= c; c->parent = p;
    p->children += c` (note.c:215-217, `p ≠ n`). -/
def ForestMove (s s' : State) (c n p : NoteId) : Prop :=
  ∀ j, (s'.notes j).children = (if j = p then (s.notes j).children ++ [c]
      else if j = n then (s.notes j).children.erase c else (s.notes j).children) ∧
    (s'.notes j).parent = (if j = c then some p else (s.notes j).parent)

/-- `p->children -= c; c->parent = NULL` (note.c:105-108 / 226-229; for a note `n` without
    parent freed by `nsync_note_free`: `n->children -= c; c->parent = NULL`). -/
def ForestUnlink (s s' : State) (c p : NoteId) : Prop :=
  ∀ j, (s'.notes j).children = (if j = p then (s.notes j).children.erase c
      else (s.notes j).children) ∧
    (s'.notes j).parent = (if j = c then none else (s.notes j).parent)

/-- The thread is about to leave WAIT_FOR_NO_CHILDREN (`c`) and to disconnect `c` from `p`. -/
def PC.unlinks (pc : PC) (c p : NoteId) : Prop :=
  (∃ kept f rest top, pc = .chd (.waitRet kept) (f :: rest) top ∧ f.note = c ∧
    frameParent rest top = some p) ∨
  (∃ kept c' nx, pc = .fr (.waitRet kept) c (some p) c' nx)

theorem InvL.claim_of {s : State} (hL : InvL s) {t : Tid} {pc : PC} (h : s.pc t = pc) :
    LClaim s pc := h ▸ hL.claim t

theorem InvN.claim_of {s : State} (hN : InvN s) {t : Tid} {pc : PC} (h : s.pc t = pc) :
    NClaim s t pc := h ▸ hN.claim t

/-- Close a `ForestSame` goal. -/
macro "nrel_fsame" : tactic => `(tactic| (
  left
  intro j
  constructor <;> simp))

theorem step_forest {s s' : State} {e : Event} (hS : InvS s) (hL : InvL s)
    (hs : step s e = .ok s') :
    ForestSame s s' ∨
    (∃ a c p dl, e.actor = some a ∧ s.pc a = .newP .ld c p dl ∧ (s.notes p).notified = false ∧
      s'.pc a = .newP .unlockCall c p dl ∧ ForestLink s s' c p) ∨
    (∃ a n p c nx, e.actor = some a ∧ s.pc a = .fr .lockChildRet n (some p) c nx ∧
      (s.notes c).disconnecting = 0 ∧ ForestMove s s' c n p) ∨
    (∃ a n c nx, e.actor = some a ∧ s.pc a = .fr .lockChildRet n none c nx ∧
      (s.notes c).disconnecting = 0 ∧ ForestUnlink s s' c n) ∨
    (∃ a c p, e.actor = some a ∧ (s.pc a).unlinks c p ∧ (s.notes c).children = [] ∧
      ForestUnlink s s' c p) := by
  cases e
  all_goals step_cases hs
  all_goals (try (left; intro j; exact ⟨rfl, rfl⟩))
  all_goals (try (nrel_fsame; done))
  all_goals (repeat' split)
  all_goals (try (nrel_fsame; done))
  -- nsync_note_new links the new note
  · have hpc := ‹s.pc _ = _›
    have hpos := ‹(s.notes _).ntime.pos›
    right; left
    refine ⟨_, _, _, _, rfl, hpc, ?_, by simp, fun j => ⟨by simp, by simp⟩⟩
    cases hk : (s.notes _).notified with
    | false => rfl
    | true => exact absurd hpos (by simp [NoteRec.ntime, hk, Dl.pos])
  -- nsync_note_free adopts a child
  · have hpc := ‹s.pc _ = _›
    have hd := ‹(s.notes _).disconnecting = 0›
    right; right; left
    have h2 := hL.claim_of hpc
    have hne := (h2.2.1 _ rfl).2
    refine ⟨_, _, _, _, _, rfl, hpc, hd, fun j => ⟨?_, by simp⟩⟩
    simp only [setPc_notes, link_f_children, eraseChild_f_children, acquire_f_children]
    split
    · next hjp => subst hjp; simp [hne]
    · rfl
  · have hpc := ‹s.pc _ = _›
    have hd := ‹(s.notes _).disconnecting = 0›
    right; right; right; left
    exact ⟨_, _, _, _, rfl, hpc, hd, fun j => ⟨by simp, by simp⟩⟩
  -- note_notify_child disconnects the note from its parent
  · have hpc := ‹s.pc _ = _›
    right; right; right; right
    exact ⟨_, _, _, rfl, Or.inl ⟨_, _, _, _, hpc, rfl, ‹frameParent _ _ = _›⟩,
      ‹(s.notes _).children = []›, fun j => ⟨by simp, by simp⟩⟩
  · have hpc := ‹s.pc _ = _›
    right; right; right; right
    exact ⟨_, _, _, rfl, Or.inl ⟨_, _, _, _, hpc, rfl, ‹frameParent _ _ = _›⟩,
      ‹(s.notes _).children = []›, fun j => ⟨by simp, by simp⟩⟩
  -- nsync_note_free disconnects the note from its parent
  · have hpc := ‹s.pc _ = _›
    right; right; right; right
    exact ⟨_, _, _, rfl, Or.inr ⟨_, _, _, hpc⟩, ‹(s.notes _).children = []›,
      fun j => ⟨by simp, by simp⟩⟩
  · have hpc := ‹s.pc _ = _›
    right; right; right; right
    exact ⟨_, _, _, rfl, Or.inr ⟨_, _, _, hpc⟩, ‹(s.notes _).children = []›,
      fun j => ⟨by simp, by simp⟩⟩
  -- malloc: a note that was never allocated has neither children nor parent
  · have hfresh := ‹(s.notes _).allocated = false›
    left
    intro j
    simp only [setPc_notes, allocNote_f]
    split
    · next hj =>
      subst hj
      constructor
      · cases hcs : (s.notes j).children with
        | nil => simp [NoteRec.blank]
        | cons c cs =>
          have := hS.anc c j (hS.children j c (by rw [hcs]; simp)).1
          rw [hfresh] at this; cases this
      · cases hp : (s.notes j).parent with
        | none => simp [NoteRec.blank]
        | some p =>
          have := (hS.parent p j hp).1
          rw [hS.unalloc j hfresh] at this; cases this
    · exact ⟨rfl, rfl⟩

end Note
