import NsyncVerif.Proofs.MuQFairSettle
/-
  MuQ, fair termination (C02): what becomes true for ever along a fair execution, part 2, and the
  conclusion.

  E  the spinlock is eventually free (`spin_freed`): otherwise, nobody enqueueing any more, the word
     and the spinlock owner are constant, and the owner — mu_release_spinlock, or the scan / final
     CAS of unlock_slow with no failing `remove_count` CAS — finishes in finitely many own steps;
     once free it stays free and the word is constant (`settled`);
  F  with the word constant and the spinlock free every CAS a thread attempts after re-reading the
     word succeeds, so: no contender that has not queued itself is left (`no_pre`), no thread owns a
     share (`no_stage2`; here, and only here, the hypothesis that holders call unlock / runlock), no
     thread sits in its wait loop with `waiting` already cleared (`no_loopF`);
  G  what is left are threads idle holding nothing and threads in their wait loops with `waiting`
     set, and the invariants exclude the latter (`final_quiescent`).
-/
namespace NsyncVerif.MuQ

variable {cfg : Cfg} {s0 : State}

/-- E: the spinlock is eventually free. -/
theorem spin_freed (x : Exec cfg s0) (hr : Reachable cfg s0) (hf : WeakFair x) {n2 : Nat} (hz : Frozen x n2)
    (hrc : NoRcFails x n2) (hst : ∀ t j, n2 ≤ j → ∀ c, (x.ρ j).pc t ≠ .lsSt c) :
    ∃ n3, n2 ≤ n3 ∧ (x.ρ n3).sp = none := by
  apply Classical.byContradiction
  intro hno
  have hsp : ∀ j, n2 ≤ j → (x.ρ j).sp ≠ none := fun j hj h => hno ⟨j, hj, h⟩
  have hword : ∀ j, n2 ≤ j → (x.ρ (j + 1)).word = (x.ρ j).word := by
    intro j hj
    cases hs : x.σ j with
    | none => rw [x.next_none hs]
    | some e =>
      apply Classical.byContradiction; intro hne
      obtain ⟨t, _, h | ⟨c, h⟩ | ⟨_, h⟩⟩ := step_word_change (x.next_some hs) hne
      · have := hz t j hj; omega
      · exact hst t (j + 1) (by omega) c h
      · exact hsp (j + 1) (by omega) h
  have hspc : ∀ j, n2 ≤ j → (x.ρ (j + 1)).sp = (x.ρ j).sp := by
    intro j hj
    cases hs : x.σ j with
    | none => rw [x.next_none hs]
    | some e =>
      apply Classical.byContradiction; intro hne
      rcases step_sp_change (x.next_some hs) hne with h | ⟨t, _, h | ⟨c, h⟩⟩
      · exact hsp (j + 1) (by omega) h
      · have := hz t j hj; omega
      · exact hst t (j + 1) (by omega) c h
  have hW : ∀ d, (x.ρ (n2 + d)).word = (x.ρ n2).word ∧ (x.ρ (n2 + d)).sp = (x.ρ n2).sp := by
    intro d
    induction d with
    | zero => exact ⟨rfl, rfl⟩
    | succ d ih =>
      rw [show n2 + (d + 1) = n2 + d + 1 by omega, hword (n2 + d) (by omega), hspc (n2 + d) (by omega)]
      exact ih
  have hW' : ∀ j, n2 ≤ j → (x.ρ j).word = (x.ρ n2).word ∧ (x.ρ j).sp = (x.ρ n2).sp := by
    intro j hj
    have := hW (j - n2); rw [show n2 + (j - n2) = j by omega] at this; exact this
  cases hv : (x.ρ n2).sp with
  | none => exact hsp n2 (Nat.le_refl _) hv
  | some v =>
    have hrole : ∀ j, n2 ≤ j → (role ((x.ρ j).pc v)).spin = true := by
      intro j hj
      have inv := reachable_inv (x.reach hr j)
      exact (inv.spin.own v).1 (by show (x.ρ j).sp = some v; rw [(hW' j hj).2, hv])
    have := chain x v n2 (fun _ => True) (fun j => spinRank (x.ρ n2).word ((x.ρ j).pc v))
      (fun j _ _ hnm => by
        obtain ⟨a, _⟩ := not_moves_frame x hnm
        simp only [a]; exact ⟨trivial, Nat.le_refl _⟩)
      (fun j hj _ hm => by
        obtain ⟨e, he, hown⟩ := hm.own
        have := spin_own hown (hrc j e hj he) (hrole j hj) (hst v j hj) (hword j hj) (hsp (j + 1) (by omega))
        rw [(hW' j hj).1] at this
        exact ⟨trivial, this⟩)
      (fun j hj _ => by
        obtain ⟨a, b⟩ := spin_not_idle (hrole j hj)
        exact fair_move_pc x hf a b)
      n2 (Nat.le_refl _)
    exact this trivial

/-- The execution has settled at time `n`: stages frozen, nobody past a point of no return, nobody at
    the enqueue store, spinlock free and word constant for ever. -/
structure Settled (x : Exec cfg s0) (n : Nat) : Prop where
  frozen : Frozen x n
  noExit : ∀ t j, n ≤ j → exitRank ((x.ρ j).pc t) = 0
  noSt : ∀ t j, n ≤ j → ∀ c, (x.ρ j).pc t ≠ .lsSt c
  sp : ∀ j, n ≤ j → (x.ρ j).sp = none
  word : ∀ j, n ≤ j → (x.ρ j).word = (x.ρ n).word

theorem settled (x : Exec cfg s0) (hr : Reachable cfg s0) {n3 : Nat} (hz : Frozen x n3)
    (hx : ∀ t j, n3 ≤ j → exitRank ((x.ρ j).pc t) = 0)
    (hst : ∀ t j, n3 ≤ j → ∀ c, (x.ρ j).pc t ≠ .lsSt c) (h0 : (x.ρ n3).sp = none) : Settled x n3 := by
  have hsp : ∀ d, (x.ρ (n3 + d)).sp = none := by
    intro d
    induction d with
    | zero => exact h0
    | succ d ih =>
      rw [show n3 + (d + 1) = n3 + d + 1 by omega]
      cases hs : x.σ (n3 + d) with
      | none => rw [x.next_none hs]; exact ih
      | some e =>
        apply Classical.byContradiction; intro hne
        have hne' : (x.ρ (n3 + d + 1)).sp ≠ (x.ρ (n3 + d)).sp := by rw [ih]; exact hne
        rcases step_sp_change (x.next_some hs) hne' with h | ⟨t, _, h | ⟨c, h⟩⟩
        · exact hne h
        · have := hz t (n3 + d) (by omega); omega
        · exact hst t (n3 + d + 1) (by omega) c h
  have hsp' : ∀ j, n3 ≤ j → (x.ρ j).sp = none := by
    intro j hj
    have := hsp (j - n3); rw [show n3 + (j - n3) = j by omega] at this; exact this
  have hword : ∀ d, (x.ρ (n3 + d)).word = (x.ρ n3).word := by
    intro d
    induction d with
    | zero => rfl
    | succ d ih =>
      rw [show n3 + (d + 1) = n3 + d + 1 by omega, ← ih]
      cases hs : x.σ (n3 + d) with
      | none => rw [x.next_none hs]
      | some e =>
        apply Classical.byContradiction; intro hne
        obtain ⟨t, _, h | ⟨c, h⟩ | ⟨h, _⟩⟩ := step_word_change (x.next_some hs) hne
        · have := hz t (n3 + d) (by omega); omega
        · exact hst t (n3 + d + 1) (by omega) c h
        · have inv := reachable_inv (x.reach hr (n3 + d))
          have := (inv.spin.own t).2 h
          have e2 : (x.ρ (n3 + d)).sp = some t := this
          rw [hsp d] at e2; cases e2
  refine ⟨hz, hx, hst, hsp', fun j hj => ?_⟩
  have := hword (j - n3); rw [show n3 + (j - n3) = j by omega] at this; exact this

theorem Settled.nospin {x : Exec cfg s0} {n : Nat} (h : Settled x n) (hr : Reachable cfg s0) {j : Nat} (hj : n ≤ j) :
    (x.ρ j).word.spin = false ∧ ∀ t, (role ((x.ρ j).pc t)).spin = false := by
  have inv := reachable_inv (x.reach hr j)
  constructor
  · have : (x.ρ j).word.spin = (x.ρ j).sp.isSome := inv.spin.bit
    rw [this, h.sp j hj]; rfl
  · intro t
    cases hb : (role ((x.ρ j).pc t)).spin with
    | false => rfl
    | true =>
      have : (x.ρ j).sp = some t := (inv.spin.own t).2 hb
      rw [h.sp j hj] at this; cases this

theorem Settled.word_step {x : Exec cfg s0} {n : Nat} (h : Settled x n) {j : Nat} (hj : n ≤ j) :
    (x.ρ (j + 1)).word = (x.ρ j).word := by
  rw [h.word j hj, h.word (j + 1) (by omega)]

/-- F1: no contender that has not queued itself is left. -/
theorem no_pre (x : Exec cfg s0) (hr : Reachable cfg s0) (hf : WeakFair x) {n : Nat} (h : Settled x n) :
    ∀ t j, n ≤ j → preRank (x.ρ n).word ((x.ρ j).pc t) = 0 := by
  intro t j hj
  have := chain x t n (fun j => 0 < preRank (x.ρ n).word ((x.ρ j).pc t))
    (fun j => preRank (x.ρ n).word ((x.ρ j).pc t))
    (fun j _ hR hnm => by
      obtain ⟨a, _⟩ := not_moves_frame x hnm
      simp only [a]; exact ⟨hR, Nat.le_refl _⟩)
    (fun j hj hR hm => by
      obtain ⟨e, _, hown⟩ := hm.own
      have h3 : stage (x.ρ (j + 1)) t = 3 := by rw [h.frozen t j hj]; exact stage_of_pre hR
      have hw := h.word j hj
      have := pre_own hown (by rw [hw]; exact hR) (reachable_side (x.reach hr j)).1 h3 (h.word_step hj)
        (h.nospin hr hj).1
      rw [hw] at this; exact this)
    (fun j _ hR => by
      apply fair_move_pc x hf
      · intro h; simp [h, preRank] at hR
      · intro c h; simp [h, preRank] at hR)
    j hj
  omega

theorem stage2_pc {s : State} {t : Tid} (h : stage s t = 2) :
    (s.pc t = .idle ∧ s.held t ≠ none) ∨ (s.pc t ≠ .idle ∧ ∀ c, s.pc t ≠ .lsPRet c) := by
  cases hp : s.pc t <;> simp [stage, hp] at h ⊢
  exact h

/-- F2: no thread owns a share.  (The only use of `HoldersRelease`.) -/
theorem no_stage2 (x : Exec cfg s0) (hr : Reachable cfg s0) (hf : WeakFair x) (hh : HoldersRelease x)
    {n : Nat} (h : Settled x n) : ∀ t j, n ≤ j → stage (x.ρ j) t ≠ 2 := by
  intro t
  refine chain x t n (fun j => stage (x.ρ j) t = 2) (fun j => rank2 (x.ρ n).word ((x.ρ j).pc t)) ?_ ?_ ?_
  · intro j _ hR hnm
    obtain ⟨a, b⟩ := not_moves_frame x hnm
    simp only [a]; exact ⟨by rw [stage_congr a b]; exact hR, Nat.le_refl _⟩
  · intro j hj hR hm
    obtain ⟨e, _, hown⟩ := hm.own
    have h2 : stage (x.ρ (j + 1)) t = 2 := by rw [h.frozen t j hj]; exact hR
    have := stage2_own hown hR h2 (h.word_step hj) (h.nospin hr hj).1
    rw [h.word j hj] at this
    exact ⟨h2, this⟩
  · intro j _ hR
    rcases stage2_pc hR with ⟨_, hheld⟩ | ⟨h1, h2⟩
    · obtain ⟨j', a, hj', hs⟩ := hh t j hheld
      exact ⟨j', hj', .call t a, hs, rfl⟩
    · exact fair_move_pc x hf h1 h2

theorem loopF_stable (x : Exec cfg s0) {n : Nat} (h : Settled x n) (t : Tid) :
    ∀ j, n ≤ j → LoopF (x.ρ j) t → ¬ Moves x t j → LoopF (x.ρ (j + 1)) t := by
  intro j hj ⟨c, k, hc, hw, hwt⟩ hnm
  obtain ⟨a, _⟩ := not_moves_frame x hnm
  refine ⟨c, k, by rw [a]; exact hc, hw, ?_⟩
  cases hs : x.σ j with
  | none => rw [x.next_none hs]; exact hwt
  | some e =>
    cases h2 : ((x.ρ (j + 1)).wr k).waiting with
    | false => rfl
    | true =>
      obtain ⟨u, c', hp⟩ := step_waiting_set (x.next_some hs) hwt h2
      exact absurd hp (h.noSt u j hj c')

/-- F3: no thread sits in its wait loop with `waiting` already cleared. -/
theorem no_loopF (x : Exec cfg s0) (hr : Reachable cfg s0) (hf : WeakFair x) {n : Nat} (h : Settled x n)
    (hpre : ∀ t j, n ≤ j → preRank (x.ρ n).word ((x.ρ j).pc t) = 0) :
    ∀ t j, n ≤ j → ¬ LoopF (x.ρ j) t := by
  intro t
  refine chain x t n (fun j => LoopF (x.ρ j) t) (fun j => loopRank ((x.ρ j).pc t)) ?_ ?_ ?_
  · intro j hj hR hnm
    obtain ⟨a, _⟩ := not_moves_frame x hnm
    simp only [a]; exact ⟨loopF_stable x h t j hj hR hnm, Nat.le_refl _⟩
  · intro j hj hR hm
    obtain ⟨e, _, hown⟩ := hm.own
    rcases loopF_own hown hR with ⟨c, hp⟩ | h2
    · have := hpre t (j + 1) (by omega)
      simp [hp, preRank] at this
    · exact h2
  · intro j hj hR
    apply fair_move x hf
    intro j' hj' hnm
    obtain ⟨d, rfl⟩ : ∃ d, j' = j + d := ⟨j' - j, by omega⟩
    have hR' : LoopF (x.ρ (j + d)) t :=
      (stay_until x (R := fun j => LoopF (x.ρ j) t) (rk := fun _ => 0)
        (fun j hj hR hnm => ⟨loopF_stable x h t j hj hR hnm, Nat.le_refl _⟩) hj d hnm hR).1
    obtain ⟨c, k, hc, hw, hwt⟩ := hR'
    constructor
    · intro hi; rw [hi] at hc; simp [loopSL] at hc
    · rintro ⟨c', k', hp, hw', hs'⟩
      rw [hp] at hc; simp only [loopSL, Option.some.injEq] at hc; subst hc
      rw [hw] at hw'; cases hw'
      have inv := reachable_inv (x.reach hr (j + d))
      have hro : role ((x.ρ (j + d)).pc t) = .slow c' .loopP := by rw [hp]; rfl
      rcases inv.live.post t c' k hro hw hwt with h1 | ⟨u, r, hu⟩
      · exact h1 hs'
      · have hu' : role ((x.ρ (j + d)).pc u) = .wakeV k r := hu
        have := h.noExit u (j + d) (by omega)
        cases hpu : (x.ρ (j + d)).pc u <;> rw [hpu] at hu' <;> simp [role] at hu'
        simp [hpu, exitRank] at this

/-- G: a fair execution in which holders release, arrivals stop and `remove_count` CASes stop
    failing reaches a state in which every thread is idle holding nothing, and stays there. -/
theorem fair_quiescence (x : Exec cfg s0) (hr : Reachable cfg s0) (hf : WeakFair x) (hh : HoldersRelease x)
    {n0 : Nat} (hq : NoArrivals x n0) (hrc : NoRcFails x n0) :
    ∃ n, n0 ≤ n ∧ ∀ j, n ≤ j → ∀ t, IdleHoldingNothing (x.ρ j) t := by
  obtain ⟨n1, h1, hz1⟩ := stages_freeze x hr hq
  have hx1 := no_exit x hr hf hz1
  obtain ⟨n2, h2, hst2⟩ := no_lsSt x hr hf hz1 hx1
  obtain ⟨n3, h3, hsp3⟩ := spin_freed x hr hf (hz1.mono h2) (fun j e hj => hrc j e (by omega)) hst2
  have hS : Settled x n3 := settled x hr (hz1.mono (by omega)) (fun t j hj => hx1 t j (by omega))
    (fun t j hj => hst2 t j (by omega)) hsp3
  have hpre := no_pre x hr hf hS
  have h2' := no_stage2 x hr hf hh hS
  have hlf := no_loopF x hr hf hS hpre
  have hfin : ∀ t, IdleHoldingNothing (x.ρ n3) t :=
    final_quiescent (x.reach hr n3) (fun t =>
      classify_final (reachable_side (x.reach hr n3)).1 (hS.noExit t n3 (Nat.le_refl _))
        ((hS.nospin hr (Nat.le_refl _)).2 t) (hpre t n3 (Nat.le_refl _)) (h2' t n3 (Nat.le_refl _))
        (hlf t n3 (Nat.le_refl _)))
  refine ⟨n3, by omega, fun j hj t => ?_⟩
  have := hS.frozen.const t (Nat.le_refl n3) (j - n3)
  rw [show n3 + (j - n3) = j by omega, stage_of_ihn (hfin t)] at this
  exact stage_zero this

end NsyncVerif.MuQ
