/-
  Layer `Pool`: step-level and trace-level consequences of the invariant
  (who may change the location of a struct, the free list, the contract fields).
-/
import NsyncVerif.Proofs.PoolInvAll

namespace Pool

/-! ### what `new` returns -/

theorem fast_some {s : State} {t : Tid} {w : Wid} (h : fast s t = some w) :
    s.ptw t = some w ∧ s.reserved w = true ∧ s.inuse w = false := by
  unfold fast at h
  split at h
  · split at h
    · injection h with h; subst h; exact ⟨‹_›, ‹_ ∧ _›.1, ‹_ ∧ _›.2⟩
    · cases h
  · cases h

theorem fast_of {s : State} {t : Tid} {r : Wid} (hp : s.ptw t = some r)
    (hr : s.reserved r = true) (hu : s.inuse r = false) : fast s t = some r := by
  simp [fast, hp, hr, hu]

/-- In the state in which `nsync_waiter_new_` returns `w` to `t`, `w` is the idle reserved struct
    of `t` or a struct carried by `t`'s own call: nobody holds it. -/
theorem ret_pre {s s' : State} {t : Tid} {w : Wid} (hi : Inv s) (h : step s (.ret t w) = .ok s') :
    s.loc w = .resIdle t ∨ s.loc w = .transit t := by
  rcases step_ret h with ⟨_, hf, _⟩ | ⟨hpc, _, _⟩ | ⟨hpc, _, _⟩
  · obtain ⟨hp, _, hu⟩ := fast_some hf
    rcases (hi.l.ptwOK t w hp).2 with h1 | h1
    · exact Or.inl h1
    · have := (hi.l.inuseIff w).2 ⟨t, h1⟩; rw [hu] at this; cases this
  · exact Or.inr ((hi.l.locTr t w).1 (by simp [trOf, hpc, PC.transit]))
  · exact Or.inr ((hi.l.locTr t w).1 (by simp [trOf, hpc, PC.transit]))

theorem ret_post {s s' : State} {t : Tid} {w : Wid} (h : step s (.ret t w) = .ok s') :
    s'.loc w = .held t := by
  rcases step_ret h with ⟨_, _, rfl⟩ | ⟨_, _, rfl⟩ | ⟨_, _, rfl⟩ <;> simp

/-- A struct handed out to `t` stays handed out to `t` until `t` frees it. -/
theorem held_stable {s s' : State} {e : Ev} {t : Tid} {w : Wid} (hi : Inv s)
    (hw : s.loc w = .held t) (h : step s e = .ok s') (hne : e ≠ .free t w) :
    s'.loc w = .held t := by
  obtain ⟨_, hl, _⟩ := hi
  cases e with
  | ld u site obs => obtain ⟨_, j, rfl, _⟩ := step_ld h; exact hw
  | cas u exp new obs ok =>
    obtain ⟨j, _, _, _, _, ⟨_, rfl⟩ | ⟨_, rfl⟩⟩ := step_cas h <;> exact hw
  | rel u fn obs =>
    obtain ⟨j, hpc, _, _, hc⟩ := step_rel h
    rcases hc with ⟨_, _, rfl⟩ | ⟨q, rest, _, hfr, rfl⟩ | ⟨x, hj, rfl⟩
    · exact hw
    · have hq : s.loc q = .free := (hl.locFree q).1 (by rw [hfr]; simp)
      have : w ≠ q := by intro hh; subst hh; rw [hw] at hq; cases hq
      simp [upd_apply, this, hw]
    · have hx : s.loc x = .transit u :=
        (hl.locTr u x).1 (by rcases hj with rfl | rfl <;> simp [trOf, hpc, PC.transit, Job.carried])
      have : w ≠ x := by intro hh; subst hh; rw [hw] at hx; cases hx
      simp [upd_apply, this, hw]
  | malloc u x =>
    obtain ⟨_, rfl, rfl⟩ := step_malloc h
    have hx : s.loc s.nalloc = .unalloc := (hl.locUn _).2 (Nat.le_refl _)
    have : w ≠ s.nalloc := by intro hh; subst hh; rw [hw] at hx; cases hx
    simp [upd_apply, this, hw]
  | mallocNull u => exact absurd h step_mallocNull
  | stRc u x obs => obtain ⟨_, rfl⟩ := step_stRc h; exact hw
  | ret u x =>
    have hpre := ret_pre ⟨‹_›, hl, ‹_›⟩ h
    have : w ≠ x := by intro hh; subst hh; rw [hw] at hpre; rcases hpre with h1 | h1 <;> cases h1
    rcases step_ret h with ⟨_, _, rfl⟩ | ⟨_, _, rfl⟩ | ⟨_, _, rfl⟩ <;> simp [upd_apply, this, hw]
  | free u x =>
    obtain ⟨_, hloc, _, hc⟩ := step_free h
    have : w ≠ x := by
      intro hh; subst hh; rw [hw] at hloc; injection hloc with hloc; subst hloc; exact hne rfl
    rcases hc with ⟨_, rfl⟩ | ⟨_, rfl⟩ <;> simp [upd_apply, this, hw]
  | exit u =>
    obtain ⟨_, x, hp, _, hu, rfl⟩ := step_exit h
    have : w ≠ x := by
      intro hh; subst hh
      have := (hl.inuseIff w).2 ⟨t, hw⟩; rw [hu] at this; cases this
    simp [upd_apply, this, hw]
  | use u x => obtain ⟨_, rfl⟩ := step_use h; exact hw
  | env x f obs new =>
    obtain ⟨_, ⟨_, _, rfl⟩ | ⟨_, _, rfl⟩⟩ := step_env h <;> exact hw

/-- Along a run, a struct handed out to `t` stays handed out to `t` unless `t` frees it. -/
theorem held_run {s s' : State} {es : List Ev} {t : Tid} {w : Wid} (hr : Reachable s)
    (hw : s.loc w = .held t) (h : run s es = .ok s') :
    .free t w ∈ es ∨ s'.loc w = .held t := by
  induction es generalizing s with
  | nil => cases h; exact Or.inr hw
  | cons e es ih =>
    obtain ⟨s1, h1, h2⟩ := run_cons_inv h
    by_cases he : e = .free t w
    · exact Or.inl (by simp [he])
    · rcases ih (hr.step h1) (held_stable (reachable_inv hr) hw h1 he) h2 with h3 | h3
      · exact Or.inl (by simp [h3])
      · exact Or.inr h3

/-! ### the ghost `held` location is determined by the trace -/

/-- Who holds `w` after one more event, given who held it before: `new` returning `w` to `t`
    makes `t` the holder, `free (w)` ends the tenure; nothing else matters. -/
def heldStep (w : Wid) (cur : Option Tid) : Ev → Option Tid
  | .ret t x => if x = w then some t else cur
  | .free _ x => if x = w then none else cur
  | _ => cur

/-- Who holds `w` after a trace (from a state in which `cur` held it). -/
def heldBy (w : Wid) (cur : Option Tid) (evs : List Ev) : Option Tid :=
  evs.foldl (heldStep w) cur

/-- The holder according to the ghost location. -/
def heldOf (s : State) (w : Wid) : Option Tid :=
  match s.loc w with
  | .held t => some t
  | _ => none

theorem heldOf_eq {s : State} {w : Wid} {t : Tid} : heldOf s w = some t ↔ s.loc w = .held t := by
  unfold heldOf; split <;> simp_all

/-- A struct becomes handed out only by `new` returning it. -/
theorem held_origin {s s' : State} {e : Ev} {u : Tid} {w : Wid}
    (h : step s e = .ok s') (hw : s'.loc w = .held u) :
    s.loc w = .held u ∨ e = .ret u w := by
  cases e with
  | ld v site obs => obtain ⟨_, j, rfl, _⟩ := step_ld h; exact Or.inl hw
  | cas v exp new obs ok =>
    obtain ⟨j, _, _, _, _, ⟨_, rfl⟩ | ⟨_, rfl⟩⟩ := step_cas h <;> exact Or.inl hw
  | rel v fn obs =>
    obtain ⟨j, hpc, _, _, hc⟩ := step_rel h
    rcases hc with ⟨_, _, rfl⟩ | ⟨q, rest, _, hfr, rfl⟩ | ⟨x, hj, rfl⟩
    · exact Or.inl hw
    · simp only [upd_apply] at hw; split at hw
      · cases hw
      · exact Or.inl hw
    · simp only [upd_apply] at hw; split at hw
      · cases hw
      · exact Or.inl hw
  | malloc v x =>
    obtain ⟨_, rfl, rfl⟩ := step_malloc h
    simp only [upd_apply] at hw; split at hw
    · cases hw
    · exact Or.inl hw
  | mallocNull v => exact absurd h step_mallocNull
  | stRc v x obs => obtain ⟨_, rfl⟩ := step_stRc h; exact Or.inl hw
  | ret v x =>
    have hpost := ret_post h
    by_cases hx : w = x
    · subst hx; rw [hpost] at hw; injection hw with hw; subst hw; exact Or.inr rfl
    · left
      rcases step_ret h with ⟨_, _, rfl⟩ | ⟨_, _, rfl⟩ | ⟨_, _, rfl⟩ <;>
        simpa [upd_apply, hx] using hw
  | free v x =>
    obtain ⟨_, _, _, hc⟩ := step_free h
    rcases hc with ⟨_, rfl⟩ | ⟨_, rfl⟩
    · simp only [upd_apply] at hw; split at hw
      · cases hw
      · exact Or.inl hw
    · simp only [upd_apply] at hw; split at hw
      · cases hw
      · exact Or.inl hw
  | exit v =>
    obtain ⟨_, x, _, _, _, rfl⟩ := step_exit h
    simp only [upd_apply] at hw; split at hw
    · cases hw
    · exact Or.inl hw
  | use v x => obtain ⟨_, rfl⟩ := step_use h; exact Or.inl hw
  | env x f obs new =>
    obtain ⟨_, ⟨_, _, rfl⟩ | ⟨_, _, rfl⟩⟩ := step_env h <;> exact Or.inl hw

theorem heldOf_step {s s' : State} {e : Ev} {w : Wid} (hi : Inv s) (h : step s e = .ok s') :
    heldOf s' w = heldStep w (heldOf s w) e := by
  cases hcur : heldOf s w with
  | some t =>
    have hw := heldOf_eq.1 hcur
    by_cases he : e = .free t w
    · subst he
      obtain ⟨_, _, _, ⟨_, rfl⟩ | ⟨_, rfl⟩⟩ := step_free h <;> simp [heldStep, heldOf]
    · have h' := held_stable hi hw h he
      have : heldStep w (some t) e = some t := by
        cases e with
        | ret u x =>
          simp only [heldStep]; split
          · subst_vars
            have := ret_pre hi h; rw [hw] at this; rcases this with h1 | h1 <;> cases h1
          · rfl
        | free u x =>
          simp only [heldStep]; split
          · subst_vars
            obtain ⟨_, hloc, _⟩ := step_free h
            rw [hw] at hloc; injection hloc with hloc; subst hloc; exact absurd rfl he
          · rfl
        | _ => rfl
      rw [this]; exact heldOf_eq.2 h'
  | none =>
    have hnh : ∀ u, s.loc w ≠ .held u := by
      intro u hu; rw [heldOf_eq.2 hu] at hcur; cases hcur
    by_cases hret : ∃ u, e = .ret u w
    · obtain ⟨u, rfl⟩ := hret
      simp only [heldStep, if_true]
      exact heldOf_eq.2 (ret_post h)
    · have hst : heldStep w none e = none := by
        cases e with
        | ret u x =>
          simp only [heldStep]; split
          · subst_vars; exact absurd ⟨u, rfl⟩ hret
          · rfl
        | free u x => simp [heldStep]
        | _ => rfl
      rw [hst]
      cases hs' : heldOf s' w with
      | none => rfl
      | some u =>
        rcases held_origin h (heldOf_eq.1 hs') with h1 | h1
        · exact absurd h1 (hnh u)
        · exact absurd ⟨u, h1⟩ hret

theorem heldOf_run {s s' : State} {es : List Ev} {w : Wid} (hr : Reachable s)
    (h : run s es = .ok s') : heldOf s' w = heldBy w (heldOf s w) es := by
  induction es generalizing s with
  | nil => cases h; rfl
  | cons e es ih =>
    obtain ⟨s1, h1, h2⟩ := run_cons_inv h
    rw [ih (hr.step h1) h2, heldOf_step (reachable_inv hr) h1]
    rfl

/-! ### who changes the free list -/

theorem free_changes {s s' : State} {e : Ev} (h : step s e = .ok s') (hne : s'.free ≠ s.free) :
    ∃ t fn obs j, e = .rel t fn obs ∧ s.pc t = .cs j := by
  cases e with
  | ld u site obs => obtain ⟨_, j, rfl, _⟩ := step_ld h; exact absurd rfl hne
  | cas u exp new obs ok =>
    obtain ⟨j, _, _, _, _, ⟨_, rfl⟩ | ⟨_, rfl⟩⟩ := step_cas h <;> exact absurd rfl hne
  | rel u fn obs =>
    obtain ⟨j, hpc, _⟩ := step_rel h
    exact ⟨u, fn, obs, j, rfl, hpc⟩
  | malloc u x => obtain ⟨_, rfl, rfl⟩ := step_malloc h; exact absurd rfl hne
  | mallocNull u => exact absurd h step_mallocNull
  | stRc u x obs => obtain ⟨_, rfl⟩ := step_stRc h; exact absurd rfl hne
  | ret u x =>
    rcases step_ret h with ⟨_, _, rfl⟩ | ⟨_, _, rfl⟩ | ⟨_, _, rfl⟩ <;> exact absurd rfl hne
  | free u x =>
    obtain ⟨_, _, _, ⟨_, rfl⟩ | ⟨_, rfl⟩⟩ := step_free h <;> exact absurd rfl hne
  | exit u => obtain ⟨_, x, _, _, _, rfl⟩ := step_exit h; exact absurd rfl hne
  | use u x => obtain ⟨_, rfl⟩ := step_use h; exact absurd rfl hne
  | env x f obs new =>
    obtain ⟨_, ⟨_, _, rfl⟩ | ⟨_, _, rfl⟩⟩ := step_env h <;> exact absurd rfl hne

/-! ### the contract fields -/

/-- Is the event a client write (`env`)? -/
def Ev.isEnv : Ev → Bool
  | .env .. => true
  | _ => false

/-- Pool code never changes a contract field of an initialised struct. -/
theorem fields_frame {s s' : State} {e : Ev} {w : Wid} (hi : Inv s) (h : step s e = .ok s')
    (he : e.isEnv = false) (hw : s.ready w = true) :
    s'.rc w = s.rc w ∧ s'.waiting w = s.waiting w ∧ s'.nwflags w = s.nwflags w ∧
    s'.sem w = s.sem w ∧ s'.inits w = s.inits w ∧ (∀ f, s'.nwr w f = s.nwr w f) ∧
    s'.ready w = true := by
  cases e with
  | ld u site obs => obtain ⟨_, j, rfl, _⟩ := step_ld h; simp [hw]
  | cas u exp new obs ok =>
    obtain ⟨j, _, _, _, _, ⟨_, rfl⟩ | ⟨_, rfl⟩⟩ := step_cas h <;> simp [hw]
  | rel u fn obs =>
    obtain ⟨j, hpc, _, _, hc⟩ := step_rel h
    rcases hc with ⟨_, _, rfl⟩ | ⟨q, rest, _, hfr, rfl⟩ | ⟨x, hj, rfl⟩ <;> simp [hw]
  | malloc u x =>
    obtain ⟨_, rfl, rfl⟩ := step_malloc h
    have hlt : w < s.nalloc := ((hi.f.readyIff w).1 hw).1
    have : w ≠ s.nalloc := Nat.ne_of_lt hlt
    simp [upd_apply, bump_apply, this, hw]
  | mallocNull u => exact absurd h step_mallocNull
  | stRc u x obs =>
    obtain ⟨hpc, rfl⟩ := step_stRc h
    have hni := ((hi.f.readyIff w).1 hw).2 u
    have : w ≠ x := by intro hh; subst hh; exact hni (by simp [iniOf, hpc, PC.initing])
    simp [upd_apply, bump_apply, this, hw]
  | ret u x =>
    rcases step_ret h with ⟨_, _, rfl⟩ | ⟨_, _, rfl⟩ | ⟨_, _, rfl⟩ <;> simp [hw]
  | free u x =>
    obtain ⟨_, _, _, ⟨_, rfl⟩ | ⟨_, rfl⟩⟩ := step_free h <;> simp [hw]
  | exit u => obtain ⟨_, x, _, _, _, rfl⟩ := step_exit h; simp [hw]
  | use u x => obtain ⟨_, rfl⟩ := step_use h; simp [hw]
  | env x f obs new => cases he

/-- Any step keeps an initialised struct initialised, and changes `remove_count` only by a client
    write to that struct. -/
theorem rc_step {s s' : State} {e : Ev} {w : Wid} (hi : Inv s) (h : step s e = .ok s')
    (hw : s.ready w = true) :
    s'.ready w = true ∧
    (s'.rc w = s.rc w ∨ ∃ obs new, e = .env w .rc obs new ∧ obs = s.rc w ∧ s'.rc w = new) := by
  cases hev : e.isEnv with
  | false =>
    have := fields_frame hi h hev hw
    exact ⟨this.2.2.2.2.2.2, Or.inl this.1⟩
  | true =>
    cases e with
    | env x f obs new =>
      obtain ⟨_, ⟨rfl, ho, rfl⟩ | ⟨rfl, _, rfl⟩⟩ := step_env h
      · refine ⟨hw, ?_⟩
        by_cases hx : w = x
        · subst hx; exact Or.inr ⟨obs, new, rfl, ho, by simp⟩
        · exact Or.inl (by simp [upd_apply, hx])
      · exact ⟨hw, Or.inl rfl⟩
    | _ => cases hev

/-- `remove_count` of an initialised struct never decreases along a run in which every client
    write to it is non-decreasing (clients only increment it: mu.c `nsync_remove_from_mu_queue_`). -/
theorem rc_mono_run {s s' : State} {es : List Ev} {w : Wid} (hr : Reachable s)
    (hw : s.ready w = true) (h : run s es = .ok s')
    (hcl : ∀ obs new, Ev.env w .rc obs new ∈ es → obs ≤ new) :
    s'.ready w = true ∧ s.rc w ≤ s'.rc w := by
  induction es generalizing s with
  | nil => cases h; exact ⟨hw, Nat.le_refl _⟩
  | cons e es ih =>
    obtain ⟨s1, h1, h2⟩ := run_cons_inv h
    obtain ⟨hw1, hrc⟩ := rc_step (reachable_inv hr) h1 hw
    obtain ⟨hw2, hle⟩ := ih (hr.step h1) hw1 h2 (fun o n hm => hcl o n (by simp [hm]))
    refine ⟨hw2, Nat.le_trans ?_ hle⟩
    rcases hrc with h3 | ⟨obs, new, rfl, ho, hn⟩
    · omega
    · have := hcl obs new (by simp); omega

end Pool
