/-
  Futex layer (C12), fair termination: the three local ranks.

  `rkW`  the waiter while a post is available (word > 0): position in the loop, weighted by
         2^32 − word (a failed CAS of the waiter means the word GREW, and it is bounded by 2^32);
  `rkV`  a poster: position in the loop, weighted by the number of posts and takes still to come
         (a failed CAS of the poster means that a post or a take happened; `BoundedPosts`);
  `rkT`  the waiter of P_with_deadline once the deadline has passed, the word stays 0, no thread is
         between its post and its wake, and no spurious wake-up / EINTR happens any more.
  Each: not increased by a step of another thread, decreased by every own step.
-/
import NsyncVerif.Proofs.FutexFairStep

namespace NsyncVerif.Futex

set_option linter.unusedSimpArgs false
set_option linter.unusedVariables false

/-! ### one more invariant: the value the waiter is about to CAS from is at most the word -/

/-- The waiter loaded `i` from the word and only posts happened since. -/
def CasLe (s : State) : Prop := ∀ t k i, s.pc t = .wCas k i → i ≤ s.word

theorem CasLe.step {s s' : State} {e : Event} (hi : Inv s) (hc : CasLe s) (hs : step s e = .ok s') :
    CasLe s' := by
  have h3 := hi.nonOwner
  unfold CasLe at *
  cases e <;> step_cases <;> simp only [setPc] at * <;> grind [PC.isWaiter]

theorem CasLe.run {s s' : State} {evs : List Event} (hi : Inv s) (hc : CasLe s)
    (hr : run s evs = .ok s') : CasLe s' := by
  induction evs generalizing s with
  | nil => simp [Futex.run] at hr; exact hr ▸ hc
  | cons e es ih =>
    simp only [Futex.run] at hr
    split at hr
    · next s1 h1 => exact ih (hi.step h1) (hc.step hi h1) hr
    · simp at hr

theorem Reachable.casLe {s : State} (h : Reachable s) : CasLe s := by
  obtain ⟨evs, hr⟩ := h
  exact CasLe.run Inv.init (by intro t k i h; simp [Futex.init] at h) hr

/-! ### the waiter with a post available -/

def rkW (s : State) (o : Tid) : Nat :=
  match s.pc o with
  | .wWait _ => 8 * (limit - s.word) + 5
  | .wSleep _ => 8 * (limit - s.word) + 4
  | .wNow _ => 8 * (limit - s.word) + 3
  | .wLoad _ => 8 * (limit - s.word) + 2
  | .wCas _ i => 8 * (limit - i) + 1
  | _ => 0

/-- Inside P / P_with_deadline, and the take has been made or a post is available. -/
def GoodW (s : State) (o : Tid) : Prop :=
  (s.pc o).isWaiter = true ∧ ((∃ k b, s.pc o = .wRet k b) ∨ 0 < s.word)

theorem rkW_other {s s' : State} {e : Event} {o : Tid} (hi : Inv s) (hs : step s e = .ok s')
    (hne : e.tid ≠ some o) (hg : GoodW s o) : GoodW s' o ∧ rkW s' o ≤ rkW s o := by
  have hpc := step_pc_other hs hne
  have hw := step_word_other hi hs hg.1 hne
  refine ⟨⟨by rw [hpc]; exact hg.1, ?_⟩, ?_⟩
  · rcases hg.2 with h | h
    · exact Or.inl (by rw [hpc]; exact h)
    · exact Or.inr (by omega)
  · unfold rkW; rw [hpc]; split <;> omega

theorem rkW_own {s s' : State} {e : Event} {o : Tid} (hi : Inv s) (hc : CasLe s)
    (hs : step s e = .ok s') (he : e.tid = some o) (hg : GoodW s o) (hni : s'.pc o ≠ .idle) :
    GoodW s' o ∧ rkW s' o < rkW s o := by
  have hfit := hi.fits
  have hcp := hi.casPos
  obtain ⟨hw, hg2⟩ := hg
  unfold CasLe at hc

  cases e <;> simp only [Event.tid, Option.some.injEq, reduceCtorEq] at he <;> subst he <;>
    simp only [step] at hs <;> (repeat' split at hs) <;> (try simp at hs) <;> (try subst hs) <;>
    simp_all [GoodW, rkW, setPc, PC.isWaiter] <;> grind

/-! ### a poster -/

def rkV (B : Nat) (s : State) (p : Tid) : Nat :=
  8 * (2 * B - (s.posts + s.takes)) +
  match s.pc p with
  | .vCas old => if old = s.word then 3 else 5
  | .vLoad => 4
  | .vWake => 2
  | .vRet => 1
  | _ => 0

theorem rkV_other {B : Nat} {s s' : State} {e : Event} {p : Tid} (hs : step s e = .ok s')
    (hne : e.tid ≠ some p) (hB : s'.posts + s'.takes ≤ 2 * B) : rkV B s' p ≤ rkV B s p := by
  have hpc := step_pc_other hs hne
  obtain ⟨h1, h2, h3⟩ := step_counters hs
  unfold rkV; rw [hpc]
  by_cases hw : s'.word = s.word
  · rw [hw]; omega
  · have := h3 hw
    split <;> (try split) <;> (try split) <;> omega

theorem rkV_own {B : Nat} {s s' : State} {e : Event} {p : Tid} (hs : step s e = .ok s')
    (he : e.tid = some p) (hv : (s.pc p).isPoster = true) (hB : s'.posts + s'.takes ≤ 2 * B)
    (hni : s'.pc p ≠ .idle) : rkV B s' p < rkV B s p := by
  cases e <;> simp only [Event.tid, Option.some.injEq, reduceCtorEq] at he <;> subst he <;>
    simp only [step] at hs <;> (repeat' split at hs) <;> (try simp at hs) <;> (try subst hs) <;>
    simp_all [rkV, setPc, PC.isPoster] <;> grind

/-! ### the waiter of P_with_deadline after the deadline -/

def rkT (s : State) (o : Tid) : Nat :=
  match s.pc o with
  | .wCas _ _ => 7
  | .wSleep _ => (match s.sleeper with
      | none => 7
      | some si => if si.woken then 7 else 3)
  | .wLoad _ => 5
  | .wWait _ => 4
  | .wNow _ => 2
  | .wRet _ _ => 1
  | _ => 0

theorem rkT_other {s s' : State} {e : Event} {o : Tid} (hi : Inv s) (hs : step s e = .ok s')
    (hne : e.tid ≠ some o) (hw : (s.pc o).isWaiter = true) (hnw : ∀ p, s.pc p ≠ .vWake) :
    rkT s' o = rkT s o := by
  have hpc := step_pc_other hs hne
  have hsl : s'.sleeper = s.sleeper := by
    rcases step_sleeper_other hi hs hw hne with h | ⟨_, p, hp⟩
    · exact h
    · exact absurd hp (hnw p)
  unfold rkT; rw [hpc, hsl]

theorem rkT_own {s s' : State} {e : Event} {o : Tid} {d : Nat} (hi : Inv s) (hs : step s e = .ok s')
    (he : e.tid = some o) (hd : callDeadline s o = some (some d)) (hnow : d ≤ s.now)
    (hw : s.word = 0) (hns : ∀ r, e = .fwaitRet o r → (r = .ok ∨ r = .eintr) → ¬ s.asleep)
    (hni : s'.pc o ≠ .idle) : rkT s' o < rkT s o := by
  have hcp := hi.casPos
  have hsp := hi.sleepPc
  cases e
  case fwaitRet t r =>
    cases r <;> simp only [Event.tid, Option.some.injEq, reduceCtorEq] at he <;> subst he <;>
    simp only [step] at hs <;> (repeat' split at hs) <;> (try simp at hs) <;> (try subst hs) <;>
    simp_all [rkT, callDeadline, setPc, State.asleep] <;>
    grind [asleepInfo, waitRetAllowed, expired, WKind.timeout]
  all_goals
    simp only [Event.tid, Option.some.injEq, reduceCtorEq] at he <;> subst he <;>
    simp only [step] at hs <;> (repeat' split at hs) <;> (try simp at hs) <;> (try subst hs) <;>
    simp_all [rkT, callDeadline, setPc, State.asleep] <;>
    grind [asleepInfo, waitRetAllowed, expired, WKind.timeout]

end NsyncVerif.Futex
