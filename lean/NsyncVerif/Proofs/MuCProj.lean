import NsyncVerif.Proofs.MuCBasic
/-
  MuC: projections of the state-update helpers of the model (generated list; every lemma is `simp`).
-/
namespace NsyncVerif.MuC

macro "proj_tac" : tactic => `(tactic| first
  | rfl
  | (cases ‹Mode› <;> rfl)
  | (cases ‹Option Wid› <;> rfl)
  | (simp only [mergeLinks, removeLinks, setLnk, enqLast, enqFirst, dequeue, pickup, toFin, afterWakes, afterFin, mwLoop, setPc]
     <;> (repeat' split) <;> rfl))

@[simp] theorem setPc_word (s : State) (t : Tid) (p : PC) : (setPc s t p).word = s.word := by proj_tac
@[simp] theorem setPc_queue (s : State) (t : Tid) (p : PC) : (setPc s t p).queue = s.queue := by proj_tac
@[simp] theorem setPc_wr (s : State) (t : Tid) (p : PC) : (setPc s t p).wr = s.wr := by proj_tac
@[simp] theorem setPc_data (s : State) (t : Tid) (p : PC) : (setPc s t p).data = s.data := by proj_tac
@[simp] theorem setPc_cargs (s : State) (t : Tid) (p : PC) : (setPc s t p).cargs = s.cargs := by proj_tac
@[simp] theorem setPc_now (s : State) (t : Tid) (p : PC) : (setPc s t p).now = s.now := by proj_tac
@[simp] theorem setPc_held (s : State) (t : Tid) (p : PC) : (setPc s t p).held = s.held := by proj_tac
@[simp] theorem setPc_wOwner (s : State) (t : Tid) (p : PC) : (setPc s t p).wOwner = s.wOwner := by proj_tac
@[simp] theorem setPc_rOwners (s : State) (t : Tid) (p : PC) : (setPc s t p).rOwners = s.rOwners := by proj_tac
@[simp] theorem setPc_sp (s : State) (t : Tid) (p : PC) : (setPc s t p).sp = s.sp := by proj_tac
@[simp] theorem setPc_secStart (s : State) (t : Tid) (p : PC) : (setPc s t p).secStart = s.secStart := by proj_tac
@[simp] theorem setPc_nwViol (s : State) (t : Tid) (p : PC) : (setPc s t p).nwViol = s.nwViol := by proj_tac

@[simp] theorem addShare_word (s : State) (t : Tid) (l : Mode) : (addShare s t l).word = s.word := by proj_tac
@[simp] theorem addShare_queue (s : State) (t : Tid) (l : Mode) : (addShare s t l).queue = s.queue := by proj_tac
@[simp] theorem addShare_wr (s : State) (t : Tid) (l : Mode) : (addShare s t l).wr = s.wr := by proj_tac
@[simp] theorem addShare_pc (s : State) (t : Tid) (l : Mode) : (addShare s t l).pc = s.pc := by proj_tac
@[simp] theorem addShare_data (s : State) (t : Tid) (l : Mode) : (addShare s t l).data = s.data := by proj_tac
@[simp] theorem addShare_cargs (s : State) (t : Tid) (l : Mode) : (addShare s t l).cargs = s.cargs := by proj_tac
@[simp] theorem addShare_now (s : State) (t : Tid) (l : Mode) : (addShare s t l).now = s.now := by proj_tac
@[simp] theorem addShare_held (s : State) (t : Tid) (l : Mode) : (addShare s t l).held = s.held := by proj_tac
@[simp] theorem addShare_sp (s : State) (t : Tid) (l : Mode) : (addShare s t l).sp = s.sp := by proj_tac
@[simp] theorem addShare_secStart (s : State) (t : Tid) (l : Mode) : (addShare s t l).secStart = s.secStart := by proj_tac
@[simp] theorem addShare_nwViol (s : State) (t : Tid) (l : Mode) : (addShare s t l).nwViol = s.nwViol := by proj_tac

@[simp] theorem subShare_word (s : State) (t : Tid) (l : Mode) : (subShare s t l).word = s.word := by proj_tac
@[simp] theorem subShare_queue (s : State) (t : Tid) (l : Mode) : (subShare s t l).queue = s.queue := by proj_tac
@[simp] theorem subShare_wr (s : State) (t : Tid) (l : Mode) : (subShare s t l).wr = s.wr := by proj_tac
@[simp] theorem subShare_pc (s : State) (t : Tid) (l : Mode) : (subShare s t l).pc = s.pc := by proj_tac
@[simp] theorem subShare_data (s : State) (t : Tid) (l : Mode) : (subShare s t l).data = s.data := by proj_tac
@[simp] theorem subShare_cargs (s : State) (t : Tid) (l : Mode) : (subShare s t l).cargs = s.cargs := by proj_tac
@[simp] theorem subShare_now (s : State) (t : Tid) (l : Mode) : (subShare s t l).now = s.now := by proj_tac
@[simp] theorem subShare_held (s : State) (t : Tid) (l : Mode) : (subShare s t l).held = s.held := by proj_tac
@[simp] theorem subShare_sp (s : State) (t : Tid) (l : Mode) : (subShare s t l).sp = s.sp := by proj_tac
@[simp] theorem subShare_secStart (s : State) (t : Tid) (l : Mode) : (subShare s t l).secStart = s.secStart := by proj_tac
@[simp] theorem subShare_nwViol (s : State) (t : Tid) (l : Mode) : (subShare s t l).nwViol = s.nwViol := by proj_tac

@[simp] theorem semPost_word (cfg : Cfg) (s : State) (k : Wid) : (semPost cfg s k).word = s.word := by proj_tac
@[simp] theorem semPost_queue (cfg : Cfg) (s : State) (k : Wid) : (semPost cfg s k).queue = s.queue := by proj_tac
@[simp] theorem semPost_pc (cfg : Cfg) (s : State) (k : Wid) : (semPost cfg s k).pc = s.pc := by proj_tac
@[simp] theorem semPost_data (cfg : Cfg) (s : State) (k : Wid) : (semPost cfg s k).data = s.data := by proj_tac
@[simp] theorem semPost_cargs (cfg : Cfg) (s : State) (k : Wid) : (semPost cfg s k).cargs = s.cargs := by proj_tac
@[simp] theorem semPost_now (cfg : Cfg) (s : State) (k : Wid) : (semPost cfg s k).now = s.now := by proj_tac
@[simp] theorem semPost_held (cfg : Cfg) (s : State) (k : Wid) : (semPost cfg s k).held = s.held := by proj_tac
@[simp] theorem semPost_wOwner (cfg : Cfg) (s : State) (k : Wid) : (semPost cfg s k).wOwner = s.wOwner := by proj_tac
@[simp] theorem semPost_rOwners (cfg : Cfg) (s : State) (k : Wid) : (semPost cfg s k).rOwners = s.rOwners := by proj_tac
@[simp] theorem semPost_sp (cfg : Cfg) (s : State) (k : Wid) : (semPost cfg s k).sp = s.sp := by proj_tac
@[simp] theorem semPost_secStart (cfg : Cfg) (s : State) (k : Wid) : (semPost cfg s k).secStart = s.secStart := by proj_tac
@[simp] theorem semPost_nwViol (cfg : Cfg) (s : State) (k : Wid) : (semPost cfg s k).nwViol = s.nwViol := by proj_tac

@[simp] theorem setLnk_word (s : State) (k : Wid) (b : Bool) : (setLnk s k b).word = s.word := by proj_tac
@[simp] theorem setLnk_queue (s : State) (k : Wid) (b : Bool) : (setLnk s k b).queue = s.queue := by proj_tac
@[simp] theorem setLnk_pc (s : State) (k : Wid) (b : Bool) : (setLnk s k b).pc = s.pc := by proj_tac
@[simp] theorem setLnk_data (s : State) (k : Wid) (b : Bool) : (setLnk s k b).data = s.data := by proj_tac
@[simp] theorem setLnk_cargs (s : State) (k : Wid) (b : Bool) : (setLnk s k b).cargs = s.cargs := by proj_tac
@[simp] theorem setLnk_now (s : State) (k : Wid) (b : Bool) : (setLnk s k b).now = s.now := by proj_tac
@[simp] theorem setLnk_held (s : State) (k : Wid) (b : Bool) : (setLnk s k b).held = s.held := by proj_tac
@[simp] theorem setLnk_wOwner (s : State) (k : Wid) (b : Bool) : (setLnk s k b).wOwner = s.wOwner := by proj_tac
@[simp] theorem setLnk_rOwners (s : State) (k : Wid) (b : Bool) : (setLnk s k b).rOwners = s.rOwners := by proj_tac
@[simp] theorem setLnk_sp (s : State) (k : Wid) (b : Bool) : (setLnk s k b).sp = s.sp := by proj_tac
@[simp] theorem setLnk_secStart (s : State) (k : Wid) (b : Bool) : (setLnk s k b).secStart = s.secStart := by proj_tac
@[simp] theorem setLnk_nwViol (s : State) (k : Wid) (b : Bool) : (setLnk s k b).nwViol = s.nwViol := by proj_tac

@[simp] theorem mergeLinks_word (s : State) (p n : Option Wid) : (mergeLinks s p n).word = s.word := by proj_tac
@[simp] theorem mergeLinks_queue (s : State) (p n : Option Wid) : (mergeLinks s p n).queue = s.queue := by proj_tac
@[simp] theorem mergeLinks_pc (s : State) (p n : Option Wid) : (mergeLinks s p n).pc = s.pc := by proj_tac
@[simp] theorem mergeLinks_data (s : State) (p n : Option Wid) : (mergeLinks s p n).data = s.data := by proj_tac
@[simp] theorem mergeLinks_cargs (s : State) (p n : Option Wid) : (mergeLinks s p n).cargs = s.cargs := by proj_tac
@[simp] theorem mergeLinks_now (s : State) (p n : Option Wid) : (mergeLinks s p n).now = s.now := by proj_tac
@[simp] theorem mergeLinks_held (s : State) (p n : Option Wid) : (mergeLinks s p n).held = s.held := by proj_tac
@[simp] theorem mergeLinks_wOwner (s : State) (p n : Option Wid) : (mergeLinks s p n).wOwner = s.wOwner := by proj_tac
@[simp] theorem mergeLinks_rOwners (s : State) (p n : Option Wid) : (mergeLinks s p n).rOwners = s.rOwners := by proj_tac
@[simp] theorem mergeLinks_sp (s : State) (p n : Option Wid) : (mergeLinks s p n).sp = s.sp := by proj_tac
@[simp] theorem mergeLinks_secStart (s : State) (p n : Option Wid) : (mergeLinks s p n).secStart = s.secStart := by proj_tac
@[simp] theorem mergeLinks_nwViol (s : State) (p n : Option Wid) : (mergeLinks s p n).nwViol = s.nwViol := by proj_tac

@[simp] theorem removeLinks_word (s : State) (p : Option Wid) (k : Wid) (n : Option Wid) : (removeLinks s p k n).word = s.word := by proj_tac
@[simp] theorem removeLinks_queue (s : State) (p : Option Wid) (k : Wid) (n : Option Wid) : (removeLinks s p k n).queue = s.queue := by proj_tac
@[simp] theorem removeLinks_pc (s : State) (p : Option Wid) (k : Wid) (n : Option Wid) : (removeLinks s p k n).pc = s.pc := by proj_tac
@[simp] theorem removeLinks_data (s : State) (p : Option Wid) (k : Wid) (n : Option Wid) : (removeLinks s p k n).data = s.data := by proj_tac
@[simp] theorem removeLinks_cargs (s : State) (p : Option Wid) (k : Wid) (n : Option Wid) : (removeLinks s p k n).cargs = s.cargs := by proj_tac
@[simp] theorem removeLinks_now (s : State) (p : Option Wid) (k : Wid) (n : Option Wid) : (removeLinks s p k n).now = s.now := by proj_tac
@[simp] theorem removeLinks_held (s : State) (p : Option Wid) (k : Wid) (n : Option Wid) : (removeLinks s p k n).held = s.held := by proj_tac
@[simp] theorem removeLinks_wOwner (s : State) (p : Option Wid) (k : Wid) (n : Option Wid) : (removeLinks s p k n).wOwner = s.wOwner := by proj_tac
@[simp] theorem removeLinks_rOwners (s : State) (p : Option Wid) (k : Wid) (n : Option Wid) : (removeLinks s p k n).rOwners = s.rOwners := by proj_tac
@[simp] theorem removeLinks_sp (s : State) (p : Option Wid) (k : Wid) (n : Option Wid) : (removeLinks s p k n).sp = s.sp := by proj_tac
@[simp] theorem removeLinks_secStart (s : State) (p : Option Wid) (k : Wid) (n : Option Wid) : (removeLinks s p k n).secStart = s.secStart := by proj_tac
@[simp] theorem removeLinks_nwViol (s : State) (p : Option Wid) (k : Wid) (n : Option Wid) : (removeLinks s p k n).nwViol = s.nwViol := by proj_tac

@[simp] theorem dropW_word (s : State) (w : Option Wid) : (dropW s w).word = s.word := by proj_tac
@[simp] theorem dropW_queue (s : State) (w : Option Wid) : (dropW s w).queue = s.queue := by proj_tac
@[simp] theorem dropW_pc (s : State) (w : Option Wid) : (dropW s w).pc = s.pc := by proj_tac
@[simp] theorem dropW_data (s : State) (w : Option Wid) : (dropW s w).data = s.data := by proj_tac
@[simp] theorem dropW_cargs (s : State) (w : Option Wid) : (dropW s w).cargs = s.cargs := by proj_tac
@[simp] theorem dropW_now (s : State) (w : Option Wid) : (dropW s w).now = s.now := by proj_tac
@[simp] theorem dropW_held (s : State) (w : Option Wid) : (dropW s w).held = s.held := by proj_tac
@[simp] theorem dropW_wOwner (s : State) (w : Option Wid) : (dropW s w).wOwner = s.wOwner := by proj_tac
@[simp] theorem dropW_rOwners (s : State) (w : Option Wid) : (dropW s w).rOwners = s.rOwners := by proj_tac
@[simp] theorem dropW_sp (s : State) (w : Option Wid) : (dropW s w).sp = s.sp := by proj_tac
@[simp] theorem dropW_secStart (s : State) (w : Option Wid) : (dropW s w).secStart = s.secStart := by proj_tac
@[simp] theorem dropW_nwViol (s : State) (w : Option Wid) : (dropW s w).nwViol = s.nwViol := by proj_tac

@[simp] theorem setHeld_word (s : State) (t : Tid) (m : Option Mode) : (setHeld s t m).word = s.word := by proj_tac
@[simp] theorem setHeld_queue (s : State) (t : Tid) (m : Option Mode) : (setHeld s t m).queue = s.queue := by proj_tac
@[simp] theorem setHeld_wr (s : State) (t : Tid) (m : Option Mode) : (setHeld s t m).wr = s.wr := by proj_tac
@[simp] theorem setHeld_pc (s : State) (t : Tid) (m : Option Mode) : (setHeld s t m).pc = s.pc := by proj_tac
@[simp] theorem setHeld_data (s : State) (t : Tid) (m : Option Mode) : (setHeld s t m).data = s.data := by proj_tac
@[simp] theorem setHeld_cargs (s : State) (t : Tid) (m : Option Mode) : (setHeld s t m).cargs = s.cargs := by proj_tac
@[simp] theorem setHeld_now (s : State) (t : Tid) (m : Option Mode) : (setHeld s t m).now = s.now := by proj_tac
@[simp] theorem setHeld_wOwner (s : State) (t : Tid) (m : Option Mode) : (setHeld s t m).wOwner = s.wOwner := by proj_tac
@[simp] theorem setHeld_rOwners (s : State) (t : Tid) (m : Option Mode) : (setHeld s t m).rOwners = s.rOwners := by proj_tac
@[simp] theorem setHeld_sp (s : State) (t : Tid) (m : Option Mode) : (setHeld s t m).sp = s.sp := by proj_tac
@[simp] theorem setHeld_nwViol (s : State) (t : Tid) (m : Option Mode) : (setHeld s t m).nwViol = s.nwViol := by proj_tac

@[simp] theorem enqLast_word (s : State) (k : Wid) : (enqLast s k).word = s.word := by proj_tac
@[simp] theorem enqLast_pc (s : State) (k : Wid) : (enqLast s k).pc = s.pc := by proj_tac
@[simp] theorem enqLast_data (s : State) (k : Wid) : (enqLast s k).data = s.data := by proj_tac
@[simp] theorem enqLast_cargs (s : State) (k : Wid) : (enqLast s k).cargs = s.cargs := by proj_tac
@[simp] theorem enqLast_now (s : State) (k : Wid) : (enqLast s k).now = s.now := by proj_tac
@[simp] theorem enqLast_held (s : State) (k : Wid) : (enqLast s k).held = s.held := by proj_tac
@[simp] theorem enqLast_wOwner (s : State) (k : Wid) : (enqLast s k).wOwner = s.wOwner := by proj_tac
@[simp] theorem enqLast_rOwners (s : State) (k : Wid) : (enqLast s k).rOwners = s.rOwners := by proj_tac
@[simp] theorem enqLast_sp (s : State) (k : Wid) : (enqLast s k).sp = s.sp := by proj_tac
@[simp] theorem enqLast_secStart (s : State) (k : Wid) : (enqLast s k).secStart = s.secStart := by proj_tac
@[simp] theorem enqLast_nwViol (s : State) (k : Wid) : (enqLast s k).nwViol = s.nwViol := by proj_tac

@[simp] theorem enqFirst_word (s : State) (k : Wid) : (enqFirst s k).word = s.word := by proj_tac
@[simp] theorem enqFirst_pc (s : State) (k : Wid) : (enqFirst s k).pc = s.pc := by proj_tac
@[simp] theorem enqFirst_data (s : State) (k : Wid) : (enqFirst s k).data = s.data := by proj_tac
@[simp] theorem enqFirst_cargs (s : State) (k : Wid) : (enqFirst s k).cargs = s.cargs := by proj_tac
@[simp] theorem enqFirst_now (s : State) (k : Wid) : (enqFirst s k).now = s.now := by proj_tac
@[simp] theorem enqFirst_held (s : State) (k : Wid) : (enqFirst s k).held = s.held := by proj_tac
@[simp] theorem enqFirst_wOwner (s : State) (k : Wid) : (enqFirst s k).wOwner = s.wOwner := by proj_tac
@[simp] theorem enqFirst_rOwners (s : State) (k : Wid) : (enqFirst s k).rOwners = s.rOwners := by proj_tac
@[simp] theorem enqFirst_sp (s : State) (k : Wid) : (enqFirst s k).sp = s.sp := by proj_tac
@[simp] theorem enqFirst_secStart (s : State) (k : Wid) : (enqFirst s k).secStart = s.secStart := by proj_tac
@[simp] theorem enqFirst_nwViol (s : State) (k : Wid) : (enqFirst s k).nwViol = s.nwViol := by proj_tac

@[simp] theorem dequeue_word (s : State) (k : Wid) : (dequeue s k).word = s.word := by proj_tac
@[simp] theorem dequeue_pc (s : State) (k : Wid) : (dequeue s k).pc = s.pc := by proj_tac
@[simp] theorem dequeue_data (s : State) (k : Wid) : (dequeue s k).data = s.data := by proj_tac
@[simp] theorem dequeue_cargs (s : State) (k : Wid) : (dequeue s k).cargs = s.cargs := by proj_tac
@[simp] theorem dequeue_now (s : State) (k : Wid) : (dequeue s k).now = s.now := by proj_tac
@[simp] theorem dequeue_held (s : State) (k : Wid) : (dequeue s k).held = s.held := by proj_tac
@[simp] theorem dequeue_wOwner (s : State) (k : Wid) : (dequeue s k).wOwner = s.wOwner := by proj_tac
@[simp] theorem dequeue_rOwners (s : State) (k : Wid) : (dequeue s k).rOwners = s.rOwners := by proj_tac
@[simp] theorem dequeue_sp (s : State) (k : Wid) : (dequeue s k).sp = s.sp := by proj_tac
@[simp] theorem dequeue_secStart (s : State) (k : Wid) : (dequeue s k).secStart = s.secStart := by proj_tac
@[simp] theorem dequeue_nwViol (s : State) (k : Wid) : (dequeue s k).nwViol = s.nwViol := by proj_tac

@[simp] theorem pickup1_word (s : State) (sc : Scan) : ((pickup s sc).1).word = s.word := by proj_tac
@[simp] theorem pickup1_pc (s : State) (sc : Scan) : ((pickup s sc).1).pc = s.pc := by proj_tac
@[simp] theorem pickup1_data (s : State) (sc : Scan) : ((pickup s sc).1).data = s.data := by proj_tac
@[simp] theorem pickup1_cargs (s : State) (sc : Scan) : ((pickup s sc).1).cargs = s.cargs := by proj_tac
@[simp] theorem pickup1_now (s : State) (sc : Scan) : ((pickup s sc).1).now = s.now := by proj_tac
@[simp] theorem pickup1_held (s : State) (sc : Scan) : ((pickup s sc).1).held = s.held := by proj_tac
@[simp] theorem pickup1_wOwner (s : State) (sc : Scan) : ((pickup s sc).1).wOwner = s.wOwner := by proj_tac
@[simp] theorem pickup1_rOwners (s : State) (sc : Scan) : ((pickup s sc).1).rOwners = s.rOwners := by proj_tac
@[simp] theorem pickup1_sp (s : State) (sc : Scan) : ((pickup s sc).1).sp = s.sp := by proj_tac
@[simp] theorem pickup1_secStart (s : State) (sc : Scan) : ((pickup s sc).1).secStart = s.secStart := by proj_tac
@[simp] theorem pickup1_nwViol (s : State) (sc : Scan) : ((pickup s sc).1).nwViol = s.nwViol := by proj_tac

@[simp] theorem toFin_word (s : State) (t : Tid) (r : Ret) (sc : Scan) : (toFin s t r sc).word = s.word := by proj_tac
@[simp] theorem toFin_queue (s : State) (t : Tid) (r : Ret) (sc : Scan) : (toFin s t r sc).queue = s.queue := by proj_tac
@[simp] theorem toFin_wr (s : State) (t : Tid) (r : Ret) (sc : Scan) : (toFin s t r sc).wr = s.wr := by proj_tac
@[simp] theorem toFin_data (s : State) (t : Tid) (r : Ret) (sc : Scan) : (toFin s t r sc).data = s.data := by proj_tac
@[simp] theorem toFin_cargs (s : State) (t : Tid) (r : Ret) (sc : Scan) : (toFin s t r sc).cargs = s.cargs := by proj_tac
@[simp] theorem toFin_now (s : State) (t : Tid) (r : Ret) (sc : Scan) : (toFin s t r sc).now = s.now := by proj_tac
@[simp] theorem toFin_held (s : State) (t : Tid) (r : Ret) (sc : Scan) : (toFin s t r sc).held = s.held := by proj_tac
@[simp] theorem toFin_wOwner (s : State) (t : Tid) (r : Ret) (sc : Scan) : (toFin s t r sc).wOwner = s.wOwner := by proj_tac
@[simp] theorem toFin_rOwners (s : State) (t : Tid) (r : Ret) (sc : Scan) : (toFin s t r sc).rOwners = s.rOwners := by proj_tac
@[simp] theorem toFin_sp (s : State) (t : Tid) (r : Ret) (sc : Scan) : (toFin s t r sc).sp = s.sp := by proj_tac
@[simp] theorem toFin_secStart (s : State) (t : Tid) (r : Ret) (sc : Scan) : (toFin s t r sc).secStart = s.secStart := by proj_tac
@[simp] theorem toFin_nwViol (s : State) (t : Tid) (r : Ret) (sc : Scan) : (toFin s t r sc).nwViol = s.nwViol := by proj_tac

@[simp] theorem afterWakes_word (s : State) (t : Tid) (r : Ret) : (afterWakes s t r).word = s.word := by proj_tac
@[simp] theorem afterWakes_queue (s : State) (t : Tid) (r : Ret) : (afterWakes s t r).queue = s.queue := by proj_tac
@[simp] theorem afterWakes_wr (s : State) (t : Tid) (r : Ret) : (afterWakes s t r).wr = s.wr := by proj_tac
@[simp] theorem afterWakes_data (s : State) (t : Tid) (r : Ret) : (afterWakes s t r).data = s.data := by proj_tac
@[simp] theorem afterWakes_cargs (s : State) (t : Tid) (r : Ret) : (afterWakes s t r).cargs = s.cargs := by proj_tac
@[simp] theorem afterWakes_now (s : State) (t : Tid) (r : Ret) : (afterWakes s t r).now = s.now := by proj_tac
@[simp] theorem afterWakes_held (s : State) (t : Tid) (r : Ret) : (afterWakes s t r).held = s.held := by proj_tac
@[simp] theorem afterWakes_wOwner (s : State) (t : Tid) (r : Ret) : (afterWakes s t r).wOwner = s.wOwner := by proj_tac
@[simp] theorem afterWakes_rOwners (s : State) (t : Tid) (r : Ret) : (afterWakes s t r).rOwners = s.rOwners := by proj_tac
@[simp] theorem afterWakes_sp (s : State) (t : Tid) (r : Ret) : (afterWakes s t r).sp = s.sp := by proj_tac
@[simp] theorem afterWakes_secStart (s : State) (t : Tid) (r : Ret) : (afterWakes s t r).secStart = s.secStart := by proj_tac
@[simp] theorem afterWakes_nwViol (s : State) (t : Tid) (r : Ret) : (afterWakes s t r).nwViol = s.nwViol := by proj_tac

@[simp] theorem afterFin_word (s : State) (t : Tid) (r : Ret) (l : List Wid) : (afterFin s t r l).word = s.word := by proj_tac
@[simp] theorem afterFin_queue (s : State) (t : Tid) (r : Ret) (l : List Wid) : (afterFin s t r l).queue = s.queue := by proj_tac
@[simp] theorem afterFin_wr (s : State) (t : Tid) (r : Ret) (l : List Wid) : (afterFin s t r l).wr = s.wr := by proj_tac
@[simp] theorem afterFin_data (s : State) (t : Tid) (r : Ret) (l : List Wid) : (afterFin s t r l).data = s.data := by proj_tac
@[simp] theorem afterFin_cargs (s : State) (t : Tid) (r : Ret) (l : List Wid) : (afterFin s t r l).cargs = s.cargs := by proj_tac
@[simp] theorem afterFin_now (s : State) (t : Tid) (r : Ret) (l : List Wid) : (afterFin s t r l).now = s.now := by proj_tac
@[simp] theorem afterFin_held (s : State) (t : Tid) (r : Ret) (l : List Wid) : (afterFin s t r l).held = s.held := by proj_tac
@[simp] theorem afterFin_wOwner (s : State) (t : Tid) (r : Ret) (l : List Wid) : (afterFin s t r l).wOwner = s.wOwner := by proj_tac
@[simp] theorem afterFin_rOwners (s : State) (t : Tid) (r : Ret) (l : List Wid) : (afterFin s t r l).rOwners = s.rOwners := by proj_tac
@[simp] theorem afterFin_sp (s : State) (t : Tid) (r : Ret) (l : List Wid) : (afterFin s t r l).sp = s.sp := by proj_tac
@[simp] theorem afterFin_secStart (s : State) (t : Tid) (r : Ret) (l : List Wid) : (afterFin s t r l).secStart = s.secStart := by proj_tac
@[simp] theorem afterFin_nwViol (s : State) (t : Tid) (r : Ret) (l : List Wid) : (afterFin s t r l).nwViol = s.nwViol := by proj_tac

@[simp] theorem mwLoop_word (s : State) (t : Tid) (c : MW) (cit : Bool) : (mwLoop s t c cit).word = s.word := by proj_tac
@[simp] theorem mwLoop_queue (s : State) (t : Tid) (c : MW) (cit : Bool) : (mwLoop s t c cit).queue = s.queue := by proj_tac
@[simp] theorem mwLoop_wr (s : State) (t : Tid) (c : MW) (cit : Bool) : (mwLoop s t c cit).wr = s.wr := by proj_tac
@[simp] theorem mwLoop_data (s : State) (t : Tid) (c : MW) (cit : Bool) : (mwLoop s t c cit).data = s.data := by proj_tac
@[simp] theorem mwLoop_cargs (s : State) (t : Tid) (c : MW) (cit : Bool) : (mwLoop s t c cit).cargs = s.cargs := by proj_tac
@[simp] theorem mwLoop_now (s : State) (t : Tid) (c : MW) (cit : Bool) : (mwLoop s t c cit).now = s.now := by proj_tac
@[simp] theorem mwLoop_held (s : State) (t : Tid) (c : MW) (cit : Bool) : (mwLoop s t c cit).held = s.held := by proj_tac
@[simp] theorem mwLoop_wOwner (s : State) (t : Tid) (c : MW) (cit : Bool) : (mwLoop s t c cit).wOwner = s.wOwner := by proj_tac
@[simp] theorem mwLoop_rOwners (s : State) (t : Tid) (c : MW) (cit : Bool) : (mwLoop s t c cit).rOwners = s.rOwners := by proj_tac
@[simp] theorem mwLoop_sp (s : State) (t : Tid) (c : MW) (cit : Bool) : (mwLoop s t c cit).sp = s.sp := by proj_tac
@[simp] theorem mwLoop_secStart (s : State) (t : Tid) (c : MW) (cit : Bool) : (mwLoop s t c cit).secStart = s.secStart := by proj_tac
@[simp] theorem mwLoop_nwViol (s : State) (t : Tid) (c : MW) (cit : Bool) : (mwLoop s t c cit).nwViol = s.nwViol := by proj_tac

@[simp] theorem ite_word (c : Prop) [Decidable c] (a b : State) : (if c then a else b).word = if c then a.word else b.word := apply_ite _ _ _ _
@[simp] theorem ite_queue (c : Prop) [Decidable c] (a b : State) : (if c then a else b).queue = if c then a.queue else b.queue := apply_ite _ _ _ _
@[simp] theorem ite_wr (c : Prop) [Decidable c] (a b : State) : (if c then a else b).wr = if c then a.wr else b.wr := apply_ite _ _ _ _
@[simp] theorem ite_pc (c : Prop) [Decidable c] (a b : State) : (if c then a else b).pc = if c then a.pc else b.pc := apply_ite _ _ _ _
@[simp] theorem ite_data (c : Prop) [Decidable c] (a b : State) : (if c then a else b).data = if c then a.data else b.data := apply_ite _ _ _ _
@[simp] theorem ite_cargs (c : Prop) [Decidable c] (a b : State) : (if c then a else b).cargs = if c then a.cargs else b.cargs := apply_ite _ _ _ _
@[simp] theorem ite_now (c : Prop) [Decidable c] (a b : State) : (if c then a else b).now = if c then a.now else b.now := apply_ite _ _ _ _
@[simp] theorem ite_held (c : Prop) [Decidable c] (a b : State) : (if c then a else b).held = if c then a.held else b.held := apply_ite _ _ _ _
@[simp] theorem ite_wOwner (c : Prop) [Decidable c] (a b : State) : (if c then a else b).wOwner = if c then a.wOwner else b.wOwner := apply_ite _ _ _ _
@[simp] theorem ite_rOwners (c : Prop) [Decidable c] (a b : State) : (if c then a else b).rOwners = if c then a.rOwners else b.rOwners := apply_ite _ _ _ _
@[simp] theorem ite_sp (c : Prop) [Decidable c] (a b : State) : (if c then a else b).sp = if c then a.sp else b.sp := apply_ite _ _ _ _
@[simp] theorem ite_secStart (c : Prop) [Decidable c] (a b : State) : (if c then a else b).secStart = if c then a.secStart else b.secStart := apply_ite _ _ _ _
@[simp] theorem ite_nwViol (c : Prop) [Decidable c] (a b : State) : (if c then a else b).nwViol = if c then a.nwViol else b.nwViol := apply_ite _ _ _ _

end NsyncVerif.MuC
