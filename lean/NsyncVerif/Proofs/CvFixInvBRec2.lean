/-
  Layer `CvFix` (cv.c with the repair of F3; adapted from the `Cv` file of the same name): protocol invariant — transitions that change one record (part 2: wait_n records and
  the waker's store).
-/
import NsyncVerif.Proofs.CvFixInvBRec

namespace NsyncVerif.CvFix

theorem invB_enqSt {s : State} (hi : InvB s) (ha : InvA s) (t : Tid) (r : Rid) (hl : (s.thr t).loc = .nLocked)
    (hm : r.isMucv = false) (hst : (s.recs r).stat = .idle) :
    InvB ({ s with queue := s.queue ++ [r] }.setRec r
            { s.recs r with waiting := true, stat := .queued, pub := false, unl := [], posted := false }
          |>.setThr t { s.thr t with r := r, mine := r :: (s.thr t).mine, old := { (s.thr t).old with ne := true }, loc := .nEnqRel }) := by
  tB_facts hl
  refine invB_one (t := t) (r := r) hi ha (fun u hu => by simp [hu]) (fun q hq => by simp [hq]) (by simp)
    hi.nobad 
    (by simp) (by simp) (by simp) (by simp) (by simp) (by simp [hm]) (fun u hu ho hni => absurd hst hni) ?_
  constructor <;> simp [savedLoc, waitLive, waitPrep, Loc.afterLoop] <;> (try simp_all)
  intro q hq hs
  have hne : q ≠ r := fun e => by subst e; simp at hs
  have := b9 q hq (by simpa [hne] using hs)
  simp at this

theorem invB_deqLdQueued {s : State} (hi : InvB s) (ha : InvA s) (t : Tid) (r : Rid) (hl : (s.thr t).loc = .nLocked)
    (hr : r ∈ (s.thr t).mine) (hst : (s.recs r).stat = .queued) :
    InvB ({ s with queue := s.queue.erase r }.setRec r
            { s.recs r with stat := .selfOut, unl := (s.recs r).unl ++ [Unl.self] }
          |>.setThr t { s.thr t with r := r, loc := .nDeqSt, wasQ := true, old := if (s.queue.erase r).isEmpty then { (s.thr t).old with ne := false } else (s.thr t).old }) := by
  tB_facts hl
  obtain ⟨hm, hown, _, _⟩ := (ha.thr t).mine r hr
  refine invB_one (t := t) (r := r) hi ha (fun u hu => by simp [hu]) (fun q hq => by simp [hq]) (by simp)
    hi.nobad 
    (by simp) (by simp) (by simp) (by simp) (by simp [hm]) (by simp [hm])
    (fun u hu ho => absurd (hown.symm.trans ho) (Ne.symm hu)) ?_
  constructor <;> simp [savedLoc, waitLive, waitPrep, Loc.afterLoop] <;> (try simp_all)
  intro q hq hs
  by_cases hne : q = r
  · exact hne.symm
  · have := b9 q hq (by simpa [hne] using hs); simp at this

theorem invB_deqSt {s : State} (hi : InvB s) (ha : InvA s) (t : Tid) (r : Rid) (hl : (s.thr t).loc = .nDeqSt)
    (hr : r = (s.thr t).r) :
    InvB (s.setRec r { s.recs r with waiting := false } |>.setThr t { s.thr t with loc := .nDeqRel }) := by
  subst hr
  tB_facts hl
  obtain ⟨hmem, hnq⟩ := (ha.thr t).nDeq (.inl hl)
  obtain ⟨hm, hown, hni, hnp⟩ := (ha.thr t).mine _ hmem
  refine invB_one (t := t) (r := (s.thr t).r) hi ha (fun u hu => by simp [hu]) (fun q hq => by simp [hq]) (by simp)
    hi.nobad 
    ?_ (by simp) (by simpa using hi.xferM _) (by simpa using hi.unlQ _) (by simp [hm]) (by simp [hm])
    (fun u hu ho => absurd (hown.symm.trans ho) (Ne.symm hu)) ?_
  · intro u hu
    simp at hu
    rw [b14] at hu; cases hu
  · constructor <;> simp [savedLoc, waitLive, waitPrep, Loc.afterLoop] <;> (try simp_all)
    intro q hq hs
    by_cases hne : q = (s.thr t).r
    · exact hne.symm
    · have := b9 q hq (by simpa [hne] using hs); exact this

theorem invB_relDeq {s : State} (hi : InvB s) (ha : InvA s) (t : Tid) (n : Word) (hl : (s.thr t).loc = .nDeqRel) :
    InvB ({ s with word := n, holder := none }.setRec (s.thr t).r
            { s.recs (s.thr t).r with stat := match (s.recs (s.thr t).r).stat with | .listed u => RStat.listed u | _ => RStat.idle }
          |>.setThr t { s.thr t with loc := .nOut, mine := (s.thr t).mine.erase (s.thr t).r }) := by
  tB_facts hl
  obtain ⟨hmem, hnq⟩ := (ha.thr t).nDeq (.inr hl)
  obtain ⟨hm, hown, hni, hnp⟩ := (ha.thr t).mine _ hmem
  have hnd := (ha.thr t).mineNd
  have hst : ∀ v, (match (s.recs (s.thr t).r).stat with | .listed u => RStat.listed u | _ => RStat.idle) = .listed v →
      (s.recs (s.thr t).r).stat = .listed v := by
    intro v; cases (s.recs (s.thr t).r).stat <;> simp
  refine invB_one (t := t) (r := (s.thr t).r) hi ha (fun u hu => by simp [hu]) (fun q hq => by simp [hq]) (by simp)
    hi.nobad 
    ?_ ?_ ?_ ?_ (by simp [hm]) (by simp [hm])
    (fun u hu ho => absurd (hown.symm.trans ho) (Ne.symm hu)) ?_
  · intro u hu
    simp at hu
    simpa using hi.lWait _ u (hst u hu)
  · simp; cases (s.recs (s.thr t).r).stat <;> simp
  · simp; cases (s.recs (s.thr t).r).stat <;> simp
  · simp; cases (s.recs (s.thr t).r).stat <;> simp
  · constructor <;> simp [savedLoc, waitLive, waitPrep, Loc.afterLoop] <;> (try simp_all)
    intro q hq hs
    have hne : q ≠ (s.thr t).r := fun e => by subst e; exact (List.Nodup.mem_erase_iff hnd).mp hq |>.1 rfl
    have := b9 q (List.mem_of_mem_erase hq) (by simpa [hne] using hs)
    exact absurd this.symm hne

theorem invB_wake {s : State} (hi : InvB s) (ha : InvA s) (t : Tid) (r : Rid) (hl : (s.thr t).loc = .wwStore)
    (hr : (s.thr t).list.head? = some r) :
    InvB (s.setRec r { s.recs r with waiting := false, stat := match (s.recs r).stat with | .listed _ => .woken | st => st }
          |>.setThr t { s.thr t with list := (s.thr t).list.tail, cur := some (r, (s.recs r).enqSeq), loc := .wwV }) := by
  tB_facts hl
  obtain ⟨rest, hlist⟩ : ∃ rest, (s.thr t).list = r :: rest := by
    cases h : (s.thr t).list with
    | nil => rw [h] at hr; simp at hr
    | cons a b => rw [h] at hr; simp at hr; subst hr; exact ⟨b, rfl⟩
  have hst : (s.recs r).stat = .listed t := (ha.lMem t r).mp (by rw [hlist]; simp)
  have htd : (s.thr t).todo = [] := by
    cases h : (s.thr t).todo with
    | nil => rfl
    | cons a l => have := b12 (by simp [h]); simp at this
  have hmine : (s.thr t).mine = [] := (ha.thr t).mine0 (by simp [inWaitN, hl])
  simp only [hst]
  refine invB_one (t := t) (r := r) hi ha (fun u hu => by simp [hu]) (fun q hq => by simp [hq]) (by simp)
    hi.nobad 
    (by simp) (by simp) (by simp) (by simp) (by simp) (by simpa using hi.unl1 r) ?_ ?_
  · intro u hu ho hni
    refine ⟨by simp [hst], by simp [hst], ?_⟩
    intro hs hur
    have := ((hi.thr u).svL hs t (by rw [hur]; exact hst)).2 (by rw [htd]; simp)
    unfold SvOK
    rw [hur]
    simp
    rw [hur] at this; exact this
  · constructor <;> simp [savedLoc, waitLive, waitPrep, Loc.afterLoop, htd, hmine]

theorem invB_relDeqW {s : State} (hi : InvB s) (ha : InvA s) (t : Tid) (n : Word) (hl : (s.thr t).loc = .nDeqRelW) :
    InvB ({ s with word := n, holder := none }.setThr t { s.thr t with loc := .nDeqSpin }) := by
  tB_facts hl
  refine invB_frame (t := t) hi ha (fun u hu => by simp [hu]) (fun q => ⟨rfl, rfl, rfl, rfl⟩) rfl (by simp) ?_
  tB_close

/-- The wait loop of the repaired cv_dequeue observes `waiting == 0`. -/
theorem invB_deqSpinExit {s : State} (hi : InvB s) (ha : InvA s) (t : Tid) (r : Rid) (hl : (s.thr t).loc = .nDeqSpin)
    (hr : r = (s.thr t).r) :
    InvB (s.setRec r
            { s.recs r with stat := match (s.recs r).stat with | .listed u => RStat.listed u | _ => RStat.idle }
          |>.setThr t { s.thr t with loc := .nOut, mine := (s.thr t).mine.erase r }) := by
  subst hr
  tB_facts hl
  obtain ⟨hmem, hnq⟩ := (ha.thr t).nSpin (.inr hl)
  obtain ⟨hm, hown, hni, hnp⟩ := (ha.thr t).mine _ hmem
  have hnd := (ha.thr t).mineNd
  have hst : ∀ v, (match (s.recs (s.thr t).r).stat with | .listed u => RStat.listed u | _ => RStat.idle) = .listed v →
      (s.recs (s.thr t).r).stat = .listed v := by
    intro v; cases (s.recs (s.thr t).r).stat <;> simp
  refine invB_one (t := t) (r := (s.thr t).r) hi ha (fun u hu => by simp [hu]) (fun q hq => by simp [hq]) (by simp)
    hi.nobad 
    ?_ ?_ ?_ ?_ (by simp [hm]) (by simp [hm])
    (fun u hu ho => absurd (hown.symm.trans ho) (Ne.symm hu)) ?_
  · intro u hu
    simp at hu
    simpa using hi.lWait _ u (hst u hu)
  · simp; cases (s.recs (s.thr t).r).stat <;> simp
  · simp; cases (s.recs (s.thr t).r).stat <;> simp
  · simp; cases (s.recs (s.thr t).r).stat <;> simp
  · constructor <;> simp [savedLoc, waitLive, waitPrep, Loc.afterLoop] <;> (try simp_all)
    intro q hq hs
    have hne : q ≠ (s.thr t).r := fun e => by subst e; exact (List.Nodup.mem_erase_iff hnd).mp hq |>.1 rfl
    have := b9 q (List.mem_of_mem_erase hq) (by simpa [hne] using hs)
    simp at this

end NsyncVerif.CvFix
