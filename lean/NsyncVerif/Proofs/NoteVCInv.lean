/-
  Layer `Note` × vector clocks: the invariant of the machine component.

  `VInv`: (last) the flag of note `k` is set iff some store `notified := 1` was performed on it, and
  the release clock of `note<k>.notified` dominates the clock the LATEST storer had just before its
  store (every accepted store to that word is a release store: the release sequence is restarted,
  never broken); (seen) a thread whose acquire load read 1 from the store `(sets k)[i]` — or that
  performed that store — has a clock that dominates that storer's clock from before the store;
  (callc) which in turn dominates the storer's clock at its API call.
-/
import NsyncVerif.Proofs.NoteVCStep

set_option linter.unusedSimpArgs false

namespace Note
open NsyncVerif

structure VInv (p : PState) : Prop where
  ccle : ∀ t, VC.Clock.le (p.cc t) (p.m.vc t)
  nil : ∀ k, p.sets k = [] → (p.s.notes k).notified = false
  last : ∀ k g, (p.sets k).getLast? = some g →
    (p.s.notes k).notified = true ∧ VC.Clock.le g.clk (p.m.relc (.notified k))
  callc : ∀ k g, g ∈ p.sets k → VC.Clock.le g.callc g.clk
  seen : ∀ t k i, p.saw t k = i + 1 →
    ∃ g, (p.sets k)[i]? = some g ∧ VC.Clock.le g.clk (p.m.vc t)

theorem VInv.init : VInv pinit := by
  refine ⟨?_, ?_, ?_, ?_, ?_⟩
  · intro t i; simp [pinit, VC.Clock.bot]
  · intro k _; rfl
  · intro k g h; simp [pinit] at h
  · intro k g h; simp [pinit] at h
  · intro t k i h; simp [pinit] at h

/-! ### the machine on the three kinds of atomic events -/

theorem vc_ld_relc (m : VC.St VLoc) (t : Tid) (o : VC.Ord) (l : VLoc) :
    (VC.step m ⟨t, .ld, o, l⟩).relc = m.relc := by
  unfold VC.step; simp only; split <;> rfl

theorem vc_st_relc_ne (m : VC.St VLoc) (t : Tid) (o : VC.Ord) (l l' : VLoc) (h : l' ≠ l) :
    (VC.step m ⟨t, .st, o, l⟩).relc l' = m.relc l' := by
  simp [VC.step, VC.upd, h]

theorem vc_st_relc_rel (m : VC.St VLoc) (t : Tid) (l : VLoc) :
    (VC.step m ⟨t, .st, .rel, l⟩).relc l = m.vc t := by
  simp [VC.step, VC.upd, VC.Ord.isRel]

theorem vstep_mono (m : VC.St VLoc) (e : Event) (u : Tid) :
    VC.Clock.le (m.vc u) ((vstep m e).vc u) := by
  unfold vstep; split
  · exact VC.vc_mono _ _ _
  · exact VC.Clock.le_refl _

theorem getLast?_eq_getElem? {α : Type} (l : List α) : l.getLast? = l[l.length - 1]? := by
  induction l with
  | nil => rfl
  | cons a l ih =>
    cases l with
    | nil => rfl
    | cons b l =>
      rw [List.getLast?_cons_cons, ih]
      simp

/-! ### preservation -/

/-- Steps that are neither an atomic event nor a `call`: nothing the invariant looks at changes. -/
theorem vinv_frame {p p' : PState} {e : Event} (hr : Reachable p.s) (hv : VInv p)
    (hs : step p.s e = .ok p'.s) (hm : p'.m = p.m) (hcc : p'.cc = p.cc) (hsets : p'.sets = p.sets)
    (hsaw : p'.saw = p.saw) (hne : ∀ t site o k n ob, e ≠ .stNote t site o k n ob) : VInv p' := by
  have hf : ∀ k, (p'.s.notes k).notified = (p.s.notes k).notified :=
    fun k => flag_frame hr hs k (fun t site o n ob => hne t site o k n ob)
  refine ⟨?_, ?_, ?_, ?_, ?_⟩
  · intro t; rw [hcc, hm]; exact hv.ccle t
  · intro k h; rw [hf]; rw [hsets] at h; exact hv.nil k h
  · intro k g h; rw [hf, hm]; rw [hsets] at h; exact hv.last k g h
  · intro k g h; rw [hsets] at h; exact hv.callc k g h
  · intro t k i h; rw [hsets, hm]; rw [hsaw] at h; exact hv.seen t k i h

theorem vinv_step {p p' : PState} {e : Event} (hr : Reachable p.s) (hv : VInv p)
    (hp : pstep p e = .ok p') : VInv p' := by
  obtain ⟨hs, hm, hcc, _, hsets, hsaw, _⟩ := pstep_ok hp
  cases e with
  | call t a =>
    have hf : ∀ k, (p'.s.notes k).notified = (p.s.notes k).notified :=
      fun k => flag_frame hr hs k (fun _ _ _ _ _ => by simp)
    have hm' : p'.m = p.m := hm
    have hsets' : p'.sets = p.sets := hsets
    refine ⟨?_, ?_, ?_, ?_, ?_⟩
    · intro u; rw [hcc, hm']; simp only [gCc]
      split
      · next hu => subst hu; exact VC.Clock.le_refl _
      · exact hv.ccle u
    · intro k h; rw [hf]; rw [hsets'] at h; exact hv.nil k h
    · intro k g h; rw [hf, hm']; rw [hsets'] at h; exact hv.last k g h
    · intro k g h; rw [hsets'] at h; exact hv.callc k g h
    · intro u k i h
      rw [hsets', hm']; rw [hsaw] at h; simp only [gSaw] at h
      by_cases hu : u = t
      · rw [if_pos hu] at h; cases h
      · rw [if_neg hu] at h; exact hv.seen u k i h
  | ld t site o k obs =>
    have hf : ∀ x, (p'.s.notes x).notified = (p.s.notes x).notified :=
      fun x => flag_frame hr hs x (fun _ _ _ _ _ => by simp)
    have hsets' : p'.sets = p.sets := hsets
    have ho := (ld_ok hs).1
    subst ho
    have hm' : p'.m = VC.step p.m ⟨t, .ld, .acq, .notified k⟩ := hm
    have hrelc : p'.m.relc = p.m.relc := by rw [hm']; exact vc_ld_relc _ _ _ _
    have hmono : ∀ u, VC.Clock.le (p.m.vc u) (p'.m.vc u) := fun u => by
      rw [hm']; exact VC.vc_mono _ _ _
    refine ⟨?_, ?_, ?_, ?_, ?_⟩
    · intro u; rw [hcc]; exact VC.Clock.le_trans (hv.ccle u) (hmono u)
    · intro x h; rw [hf]; rw [hsets'] at h; exact hv.nil x h
    · intro x g h; rw [hf, hrelc]; rw [hsets'] at h; exact hv.last x g h
    · intro x g h; rw [hsets'] at h; exact hv.callc x g h
    · intro u x i h
      rw [hsets']; rw [hsaw] at h; simp only [gSaw] at h
      by_cases hc : u = t ∧ x = k ∧ (p.s.notes k).notified = true
      · rw [if_pos hc] at h
        obtain ⟨hu, hx, hflag⟩ := hc
        subst hu hx
        -- the load read 1: it read from the latest store
        cases hl : (p.sets x).getLast? with
        | none =>
          have := hv.nil x (List.getLast?_eq_none_iff.mp hl)
          rw [hflag] at this; cases this
        | some g =>
          have hlast := hv.last x g hl
          rw [getLast?_eq_getElem?, h] at hl
          refine ⟨g, by simpa using hl, ?_⟩
          have hacq := VC.acq_sees_relc p.m ⟨u, .ld, .acq, .notified x⟩ rfl (Or.inl rfl)
          rw [← hm'] at hacq
          exact VC.Clock.le_trans hlast.2 hacq
      · rw [if_neg hc] at h
        obtain ⟨g, hg1, hg2⟩ := hv.seen u x i h
        exact ⟨g, hg1, VC.Clock.le_trans hg2 (hmono u)⟩
  | stNote t site o k n ob =>
    obtain ⟨ho, _, hset, _, _⟩ := stNote_ok hs
    subst ho
    have hf : ∀ x, x ≠ k → (p'.s.notes x).notified = (p.s.notes x).notified :=
      fun x hx => flag_frame hr hs x (fun _ _ _ _ _ he => by cases he; exact hx rfl)
    have hm' : p'.m = VC.step p.m ⟨t, .st, .rel, .notified k⟩ := hm
    have hmono : ∀ u, VC.Clock.le (p.m.vc u) (p'.m.vc u) := fun u => by
      rw [hm']; exact VC.vc_mono _ _ _
    have hsk : p'.sets k = p.sets k ++ [newSetter p t] := by rw [hsets]; simp [gSets]
    have hso : ∀ x, x ≠ k → p'.sets x = p.sets x := fun x hx => by rw [hsets]; simp [gSets, hx]
    refine ⟨?_, ?_, ?_, ?_, ?_⟩
    · intro u; rw [hcc]; exact VC.Clock.le_trans (hv.ccle u) (hmono u)
    · intro x h
      by_cases hx : x = k
      · rw [hx, hsk] at h; simp at h
      · rw [hf x hx]; rw [hso x hx] at h; exact hv.nil x h
    · intro x g h
      by_cases hx : x = k
      · rw [hx, hsk, List.getLast?_append] at h
        simp at h
        rw [hx, ← h]
        refine ⟨hset, ?_⟩
        rw [hm', vc_st_relc_rel]
        exact VC.Clock.le_refl _
      · rw [hf x hx, hm', vc_st_relc_ne _ _ _ _ _ (by simp [hx])]
        rw [hso x hx] at h; exact hv.last x g h
    · intro x g h
      by_cases hx : x = k
      · rw [hx, hsk, List.mem_append] at h
        rcases h with h | h
        · exact hv.callc k g h
        · simp at h; rw [h]; exact hv.ccle t
      · rw [hso x hx] at h; exact hv.callc x g h
    · intro u x i h
      rw [hsaw] at h; simp only [gSaw] at h
      by_cases hc : u = t ∧ x = k
      · rw [if_pos hc] at h
        obtain ⟨hu, hx⟩ := hc
        have hi : i = (p.sets k).length := by omega
        refine ⟨newSetter p t, by rw [hx, hsk, hi]; simp, ?_⟩
        rw [hu]
        exact hmono t
      · rw [if_neg hc] at h
        obtain ⟨g, hg1, hg2⟩ := hv.seen u x i h
        refine ⟨g, ?_, VC.Clock.le_trans hg2 (hmono u)⟩
        by_cases hx : x = k
        · rw [hx, hsk, List.getElem?_append_left]
          · rw [← hx]; exact hg1
          · rcases Nat.lt_or_ge i (p.sets k).length with hlt | hge
            · exact hlt
            · rw [hx, List.getElem?_eq_none hge] at hg1; cases hg1
        · rw [hso x hx]; exact hg1
  | stW t site o r n ob =>
    have hf : ∀ x, (p'.s.notes x).notified = (p.s.notes x).notified :=
      fun x => flag_frame hr hs x (fun _ _ _ _ _ => by simp)
    have hsets' : p'.sets = p.sets := hsets
    have hsaw' : p'.saw = p.saw := hsaw
    have hm' : p'.m = VC.step p.m ⟨t, .st, toOrd o, .waiting r⟩ := hm
    have hmono : ∀ u, VC.Clock.le (p.m.vc u) (p'.m.vc u) := fun u => by
      rw [hm']; exact VC.vc_mono _ _ _
    refine ⟨?_, ?_, ?_, ?_, ?_⟩
    · intro u; rw [hcc]; exact VC.Clock.le_trans (hv.ccle u) (hmono u)
    · intro x h; rw [hf]; rw [hsets'] at h; exact hv.nil x h
    · intro x g h
      rw [hf, hm', vc_st_relc_ne _ _ _ _ _ (by simp)]
      rw [hsets'] at h; exact hv.last x g h
    · intro x g h; rw [hsets'] at h; exact hv.callc x g h
    · intro u x i h
      rw [hsets']; rw [hsaw'] at h
      obtain ⟨g, hg1, hg2⟩ := hv.seen u x i h
      exact ⟨g, hg1, VC.Clock.le_trans hg2 (hmono u)⟩
  | _ => exact vinv_frame hr hv hs hm hcc hsets hsaw (fun _ _ _ _ _ _ => by simp)

/-- The invariant of the machine component holds in every reachable product state. -/
theorem PReachable.vinv {p : PState} (h : PReachable p) : VInv p := by
  refine PReachable.induction (P := VInv) VInv.init ?_ p h
  intro p e p' hr hv hs
  exact vinv_step hr.s hv hs

end Note
