/- Proofs/CounterStepE.lean — invariant preservation, one lemma per program point (generated, uniform script). -/
import NsyncVerif.Proofs.CounterStepBase

namespace Counter

variable {s s' : State} {t : Tid} {e : Ev}

theorem inv_wDeqLockCall {dl} {k} {tmo} (hi : Inv s) (hpc : s.pc t = .wDeqLockCall dl k tmo) (h : stepThr s t e = .ok s') : Inv s' := by
  step_open
  all_goals first | (show ShInv _; shinv_tac) | (show pcInv _ _ _; pcinv_tac) | (show ∀ u, _; rely_tac)

theorem inv_wDeqLockWait {dl} {k} {tmo} (hi : Inv s) (hpc : s.pc t = .wDeqLockWait dl k tmo) (h : stepThr s t e = .ok s') : Inv s' := by
  step_open
  all_goals first | (show ShInv _; shinv_tac) | (show pcInv _ _ _; pcinv_tac) | (show ∀ u, _; rely_tac)

theorem inv_wDeqLoadV {dl} {k} {tmo} (hi : Inv s) (hpc : s.pc t = .wDeqLoadV dl k tmo) (h : stepThr s t e = .ok s') : Inv s' := by
  step_open
  all_goals first | (show ShInv _; shinv_tac) | (show pcInv _ _ _; pcinv_tac) | (show ∀ u, _; rely_tac)

theorem inv_wDeqLoadW {dl} {k} {tmo} {v} (hi : Inv s) (hpc : s.pc t = .wDeqLoadW dl k tmo v) (h : stepThr s t e = .ok s') : Inv s' := by
  step_open
  all_goals first | (show ShInv _; shinv_tac) | (show pcInv _ _ _; pcinv_tac) | (show ∀ u, _; rely_tac)

theorem inv_wDeqStore {dl} {k} {tmo} {v} (hi : Inv s) (hpc : s.pc t = .wDeqStore dl k tmo v) (h : stepThr s t e = .ok s') : Inv s' := by
  step_open
  all_goals first | (show ShInv _; shinv_tac) | (show pcInv _ _ _; pcinv_tac) | (show ∀ u, _; rely_tac)

theorem inv_wDeqUnlockCall {dl} {k} {tmo} {v} (hi : Inv s) (hpc : s.pc t = .wDeqUnlockCall dl k tmo v) (h : stepThr s t e = .ok s') : Inv s' := by
  step_open
  all_goals first | (show ShInv _; shinv_tac) | (show pcInv _ _ _; pcinv_tac) | (show ∀ u, _; rely_tac)

theorem inv_wFinalLoad {dl} (hi : Inv s) (hpc : s.pc t = .wFinalLoad dl) (h : stepThr s t e = .ok s') : Inv s' := by
  step_open
  all_goals first | (show ShInv _; shinv_tac) | (show pcInv _ _ _; pcinv_tac) | (show ∀ u, _; rely_tac)

theorem inv_wRet {dl} {r} (hi : Inv s) (hpc : s.pc t = .wRet dl r) (h : stepThr s t e = .ok s') : Inv s' := by
  step_open
  all_goals first | (show ShInv _; shinv_tac) | (show pcInv _ _ _; pcinv_tac) | (show ∀ u, _; rely_tac)

end Counter
