/-
  Layer `Note`, fair termination: concrete executions.

  * `traceExec`  a finite accepted trace, then nothing for ever; criteria for the hypotheses of
                 `C09_fair_termination` for an execution that ends quiescent;
  * `loopExec`   a lasso: a list of events that takes a state `s` back to `s`, for ever.
-/
import NsyncVerif.Proofs.NoteFairMain

set_option linter.unusedSimpArgs false

namespace Note

theorem run_append_ok : ∀ (a b : List Event) (s s' : State),
    run s (a ++ b) = .ok s' → ∃ s1, run s a = .ok s1 ∧ run s1 b = .ok s' := by
  intro a
  induction a with
  | nil => intro b s s' h; exact ⟨s, rfl, h⟩
  | cons e es ih =>
    intro b s s' h
    simp only [List.cons_append, run] at h ⊢
    cases hs : step s e with
    | ok s1 => rw [hs] at h; exact ih b s1 s' h
    | error m => rw [hs] at h; cases h

theorem run_append2 : ∀ (a b : List Event) (s s1 : State),
    run s a = .ok s1 → run s (a ++ b) = run s1 b := by
  intro a
  induction a with
  | nil => intro b s s1 h; simp only [run, Except.ok.injEq] at h; subst h; rfl
  | cons e es ih =>
    intro b s s1 h
    simp only [List.cons_append, run] at h ⊢
    cases hs : step s e with
    | ok s2 => rw [hs] at h; exact ih b s2 s1 h
    | error m => rw [hs] at h; cases h

/-- The state after `evs` from `s` (`s` itself if the events are not accepted). -/
def stateFrom (s : State) (evs : List Event) : State :=
  match run s evs with
  | .ok s' => s'
  | .error _ => s

theorem stateFrom_ok {s sf : State} {evs : List Event}
    (h : run s evs = .ok sf) (i : Nat) :
    run s (evs.take i) = .ok (stateFrom s (evs.take i)) := by
  have : run s (evs.take i ++ evs.drop i) = .ok sf := by rw [List.take_append_drop]; exact h
  obtain ⟨s1, h1, _⟩ := run_append_ok _ _ _ _ this
  simp only [stateFrom, h1]

theorem stateFrom_all {s sf : State} {evs : List Event}
    (h : run s evs = .ok sf) {i : Nat} (hi : evs.length ≤ i) :
    stateFrom s (evs.take i) = sf := by
  simp only [stateFrom, List.take_of_length_le hi, h]

theorem stateFrom_step {s sf : State} {evs : List Event}
    (h : run s evs = .ok sf) {i : Nat} (hi : i < evs.length) :
    step (stateFrom s (evs.take i)) evs[i] =
      .ok (stateFrom s (evs.take (i + 1))) := by
  have he : evs[i]? = some evs[i] := List.getElem?_eq_getElem hi
  have e : evs.take (i + 1) = evs.take i ++ [evs[i]] := by rw [List.take_add_one, he]; rfl
  have h1 := stateFrom_ok h (i + 1)
  rw [e, run_append2 _ _ _ _ (stateFrom_ok h i)] at h1
  simp only [run] at h1
  rw [e]
  cases hs : step (stateFrom s (evs.take i)) evs[i] with
  | ok s2 => rw [hs] at h1; simp only [Except.ok.injEq] at h1; rw [h1]
  | error m => rw [hs] at h1; cases h1

/-- A finite accepted trace from `s`, then nothing for ever. -/
def traceExec (s : State) (evs : List Event) (sf : State)
    (h : run s evs = .ok sf) : Exec s :=
  { ρ := fun i => stateFrom s (evs.take i)
    σ := fun i => evs[i]?
    start := by simp [stateFrom, run]
    next := by
      intro i
      cases he : evs[i]? with
      | none =>
        have hi : evs.length ≤ i := by simpa using he
        show stateFrom s (evs.take (i + 1)) = stateFrom s (evs.take i)
        rw [stateFrom_all h hi, stateFrom_all h (by omega)]
      | some e =>
        have hi : i < evs.length := by
          apply Classical.byContradiction; intro hn
          have : evs[i]? = none := by simp; omega
          rw [this] at he; cases he
        have : e = evs[i] := by
          rw [List.getElem?_eq_getElem hi] at he; exact (Option.some.inj he).symm
        subst this
        exact stateFrom_step h hi }

theorem traceExec_tail {s : State} {evs : List Event} {sf : State}
    (h : run s evs = .ok sf) {j : Nat} (hj : evs.length ≤ j) :
    (traceExec s evs sf h).ρ j = sf ∧ (traceExec s evs sf h).σ j = none :=
  ⟨stateFrom_all h hj, by show evs[j]? = none; simpa using hj⟩

/-- Threads that do not occur in a trace are where they were. -/
theorem run_untouched {t : Tid} : ∀ (evs : List Event) (s s' : State),
    (∀ e ∈ evs, e.actor ≠ some t) → run s evs = .ok s' → s'.pc t = s.pc t := by
  intro evs
  induction evs with
  | nil => intro s s' _ h; simp only [run, Except.ok.injEq] at h; subst h; rfl
  | cons e es ih =>
    intro s s' hne h
    simp only [run] at h
    cases hs : step s e with
    | error m => rw [hs] at h; cases h
    | ok s1 =>
      rw [hs] at h
      have a := ih s1 s' (fun e' he' => hne e' (by simp [he'])) h
      rw [a, step_pc_other hs t (hne e (by simp))]

/-- All events of the list are events of threads `< n`. -/
def tidsBelow (n : Nat) (evs : List Event) : Bool :=
  evs.all fun e => match e.actor with | some t => decide (t < n) | none => true

theorem tidsBelow_ne {n : Nat} {evs : List Event} (h : tidsBelow n evs = true) {t : Tid}
    (ht : n ≤ t) : ∀ e ∈ evs, e.actor ≠ some t := by
  intro e he hte
  have := List.all_eq_true.1 h e he
  have h2 : decide (t < n) = true := by simpa [hte] using this
  have h3 : t < n := of_decide_eq_true h2
  exact absurd h3 (Nat.not_lt.2 ht)

theorem tidsBelow_take {n : Nat} {evs : List Event} (h : tidsBelow n evs = true) (i : Nat) :
    tidsBelow n (evs.take i) = true := by
  apply List.all_eq_true.2
  intro e he
  exact List.all_eq_true.1 h e (List.mem_of_mem_take he)


/-! ### a lasso without a stem -/

/-- `loop` takes `s` back to `s`: repeat it for ever. -/
def loopExec (s : State) (loop : List Event)
    (hl : run s loop = .ok s) (hp : 0 < loop.length) : Exec s :=
  { ρ := fun i => stateFrom s (loop.take (i % loop.length))
    σ := fun i => loop[i % loop.length]?
    start := by simp [stateFrom, run]
    next := by
      intro i
      have hsf0 : stateFrom s (loop.take 0) = s := by simp [stateFrom, run]
      have hr : i % loop.length < loop.length := Nat.mod_lt _ hp
      have he : loop[i % loop.length]? = some loop[i % loop.length] :=
        List.getElem?_eq_getElem hr
      simp only [he]
      have hs := stateFrom_step hl hr
      by_cases hwrap : i % loop.length + 1 = loop.length
      · have : (i + 1) % loop.length = 0 := by
          rw [Nat.add_mod]
          have : i % loop.length = loop.length - 1 := by omega
          rw [this]
          by_cases h1 : loop.length = 1
          · rw [h1]
          · rw [Nat.mod_eq_of_lt (show 1 < loop.length by omega)]
            rw [show loop.length - 1 + 1 = loop.length by omega, Nat.mod_self]
        rw [this, hsf0]
        rw [hwrap, stateFrom_all hl (Nat.le_refl _)] at hs
        exact hs
      · have : (i + 1) % loop.length = i % loop.length + 1 := by
          rw [Nat.add_mod]
          by_cases h1 : loop.length = 1
          · omega
          · rw [Nat.mod_eq_of_lt (show 1 < loop.length by omega)]
            exact Nat.mod_eq_of_lt (by omega)
        rw [this]; exact hs }

theorem loopExec_at {s : State} {loop : List Event}
    (hl : run s loop = .ok s) (hp : 0 < loop.length) (j : Nat) :
    (loopExec s loop hl hp).ρ j = stateFrom s (loop.take (j % loop.length)) ∧
    (loopExec s loop hl hp).σ j = loop[j % loop.length]? := ⟨rfl, rfl⟩

/-- Threads that occur neither in the loop are where they were, at all times. -/
theorem loopExec_untouched {s : State} {loop : List Event}
    (hl : run s loop = .ok s) (hp : 0 < loop.length) {t : Tid}
    (hne : ∀ e ∈ loop, e.actor ≠ some t) (j : Nat) :
    ((loopExec s loop hl hp).ρ j).pc t = s.pc t := by
  show (stateFrom s (loop.take (j % loop.length))).pc t = s.pc t
  exact run_untouched _ _ _ (fun e he => hne e (List.mem_of_mem_take he)) (stateFrom_ok hl _)

theorem upd_eq_self {β : Type} {f : Nat → β} {a : Nat} {b : β} (h : f a = b) : upd f a b = f := by
  funext x; simp only [upd]; split
  · rename_i hx; subst hx; exact h.symm
  · rfl

theorem upd_upd {β : Type} (f : Nat → β) (a : Nat) (b c : β) : upd (upd f a b) a c = upd f a c := by
  funext x; simp only [upd]; split <;> rfl


end Note
