import NsyncVerif.Proofs.MuCInv5
namespace NsyncVerif.MuC

theorem cond_of_merge (s : State) (p n : Option Wid) (x : Wid) : ((mergeLinks s p n).wr x).cond = (s.wr x).cond :=
  (lnkOnly_mergeLinks s p n x).2.2.2.2.1

theorem limboC_mem_ws {p : PC} {k : Wid} {c : Option Cond} (h : p.limboC = some (k, c)) : k ∈ p.ws := by
  cases p <;> simp [PC.limboC] at h <;> (obtain ⟨a, ha, rfl, _⟩ := h; simp [PC.ws, ha])

/-- `t` changes the condition stored in its own record `k`, which is on no list, and possibly queues it
    (only if the condition stored is NULL). -/
theorem Inv5.restore {s s' : State} (t : Tid) (k : Wid) (h4 : Inv4 s) (h : Inv5 s)
    (hw : s'.word = s.word)
    (hQ : ∀ x, Queued s' x → (x = k ∧ (s'.wr k).cond = none) ∨ (x ≠ k ∧ Queued s x))
    (hcnd : ∀ x, x ≠ k → (s'.wr x).cond = (s.wr x).cond)
    (hown : ∀ u, u ≠ t → k ∉ (s.pc u).ws)
    (hpc : ∀ u, u ≠ t → s'.pc u = s.pc u)
    (hmt : (s'.pc t).mtOld = none)
    (hlc : ∀ k' c, (s'.pc t).limboC = some (k', c) → k' = k ∧ (s'.wr k).cond = c) : Inv5 s' := by
  refine ⟨?_, ?_, ?_⟩
  · intro x hx hc
    rcases hQ x hx with ⟨rfl, e⟩ | ⟨hxk, hq⟩
    · exact absurd e hc
    · rw [hcnd x hxk] at hc; rw [hw]; exact h.h1 x hq hc
  · intro u old ho x hx hc
    by_cases hu : u = t
    · subst hu; rw [hmt] at ho; cases ho
    · rw [hpc u hu] at ho
      rcases hQ x hx with ⟨rfl, e⟩ | ⟨hxk, hq⟩
      · exact absurd e hc
      · rw [hcnd x hxk] at hc; exact h.h2 u old ho x hq hc
  · intro u k' c hl
    by_cases hu : u = t
    · subst hu
      obtain ⟨rfl, e⟩ := hlc k' c hl
      exact e
    · rw [hpc u hu] at hl
      have hk' : k' ≠ k := fun e => hown u hu (e ▸ limboC_mem_ws hl)
      rw [hcnd k' hk']; exact h.h3 u k' c hl

theorem inv5_stepSt {s s' : State} {t : Tid} {o : Ord} {loc : Loc} {new obs : Nat} (h4 : Inv4 s) (h : Inv5 s)
    (hs : stepSt s t o loc new obs = .ok s') : Inv5 s' := by
  unfold stepSt at hs
  split at hs
  · -- lsSt: the record queued has no condition
    rename_i c heq
    dsimp only at hs
    repeat' split at hs
    all_goals first
      | (cases hs; done)
      | skip
    iterate 2
      · rename_i k _ _ _ _ _ hcw hown hwait _
        simp only [Decidable.not_not, Bool.not_eq_true] at hown hwait
        cases hs
        refine Inv5.restore t k h4 h (by simp [enqLast, enqFirst]) ?_ (by intro x hx; simp [enqLast, enqFirst, cond_of_merge, setFn, hx])
          ?_ (by intro u hu; simp [enqLast, enqFirst, setFn, hu]) (by simp [PC.mtOld]) (by intro k' c' hl; simp [PC.limboC] at hl)
        · intro x hx
          by_cases hxk : x = k
          · left; subst hxk; exact ⟨rfl, by simp [enqLast, enqFirst, cond_of_merge, setFn]⟩
          · right; refine ⟨hxk, ?_⟩
            rcases hx with hx | ⟨u, sc, h1, h2⟩
            · left; simp [enqLast, enqFirst, hxk] at hx; exact hx
            · right; refine ⟨u, sc, ?_, h2⟩
              by_cases hu : u = t
              · subst hu; simp [PC.scan?] at h1
              · simpa [enqLast, enqFirst, setFn, hu] using h1
        · intro u _ e; have := h4.own u k e; rw [hown] at this; cases this
    iterate 2
      · rename_i k _ _ _ _ _ k' hcw hkk hwait _
        simp only [Decidable.not_not, Bool.not_eq_true] at hkk hwait
        subst hkk
        cases hs
        have hmem : k ∈ (s.pc t).ws := by rw [heq]; simp [PC.ws, SL.ws, hcw]
        have hown := h4.own t k hmem
        refine Inv5.restore t k h4 h (by simp [enqLast, enqFirst]) ?_ (by intro x hx; simp [enqLast, enqFirst, cond_of_merge, setFn, hx])
          ?_ (by intro u hu; simp [enqLast, enqFirst, setFn, hu]) (by simp [PC.mtOld]) (by intro k' c' hl; simp [PC.limboC] at hl)
        · intro x hx
          by_cases hxk : x = k
          · left; subst hxk; exact ⟨rfl, by simp [enqLast, enqFirst, cond_of_merge, setFn]⟩
          · right; refine ⟨hxk, ?_⟩
            rcases hx with hx | ⟨u, sc, h1, h2⟩
            · left; simp [enqLast, enqFirst, hxk] at hx; exact hx
            · right; refine ⟨u, sc, ?_, h2⟩
              by_cases hu : u = t
              · subst hu; simp [PC.scan?] at h1
              · simpa [enqLast, enqFirst, setFn, hu] using h1
        · intro u hu e; have := h4.own u k e; rw [hown] at this; cases this; exact hu rfl
  · rename_i heq; ld_case5 t h heq hs
  · -- mwStW: the record is on no list
    rename_i c heq
    dsimp only at hs
    repeat' split at hs
    all_goals first
      | (cases hs; done)
      | skip
    · cases hs
      rename_i k _ _ _ _ _ hcw hown hwait
      simp only [Decidable.not_not, Bool.not_eq_true] at hown hwait
      refine Inv5.restore t k h4 h (by simp) ?_ (by intro x hx; simp [setFn, hx])
        ?_ (by intro u hu; simp [setFn, hu]) (by simp [PC.mtOld]) ?_
      · intro x hx
        have hx' : Queued s x := (queued_same (t := t) (by simp) (by intro u hu; simp [setFn, hu]) (by simp [heq, PC.scan?]) x).1 hx
        have hxk : x ≠ k := fun e => by have := h4.wait x hx'; rw [e, hwait] at this; cases this
        exact Or.inr ⟨hxk, hx'⟩
      · intro u _ e; have := h4.own u k e; rw [hown] at this; cases this
      · intro k' c' hl
        simp [PC.limboC] at hl
        exact ⟨hl.1.symm, by simp [setFn, hl.2]⟩
    · cases hs
      rename_i k _ _ _ _ _ k' hcw hkk hwait
      simp only [Decidable.not_not, Bool.not_eq_true] at hkk hwait
      subst hkk
      have hmem : k ∈ (s.pc t).ws := by rw [heq]; simp [PC.ws, hcw]
      have hown := h4.own t k hmem
      refine Inv5.restore t k h4 h (by simp) ?_ (by intro x hx; simp [setFn, hx])
        ?_ (by intro u hu; simp [setFn, hu]) (by simp [PC.mtOld]) ?_
      · intro x hx
        have hx' : Queued s x := (queued_same (t := t) (by simp) (by intro u hu; simp [setFn, hu]) (by simp [heq, PC.scan?]) x).1 hx
        have hxk : x ≠ k := fun e => by have := h4.wait x hx'; rw [e, hwait] at this; cases this
        exact Or.inr ⟨hxk, hx'⟩
      · intro u hu e; have := h4.own u k e; rw [hown] at this; cases this; exact hu rfl
      · intro k' c' hl
        simp [PC.limboC, hcw] at hl
        exact ⟨hl.1.symm, by simp [setFn, hl.2]⟩
  · rename_i heq; ld_case5 t h heq hs
  · -- mtStRel: the word stored is built from `old_word`
    rename_i c old ok heq
    dsimp only at hs
    repeat' split at hs
    all_goals first
      | (cases hs; done)
      | skip
    all_goals
      (cases hs
       have hq : ∀ x, Queued (setPc (addShare { s with word := mtRelWord (some c.l) old, sp := none, wOwner := none } t c.l) t
            (PC.mwLd255 { c with hl := true, outc := c.so })) x ↔ Queued s x :=
         fun x => queued_same (t := t) (by simp) (by intro u hu; simp [setFn, hu]) (by simp [heq, PC.scan?]) x
       have hq2 : ∀ x, Queued (setPc { s with word := mtRelWord none old, sp := none, wOwner := none } t (PC.mwLd255 c)) x ↔ Queued s x :=
         fun x => queued_same (t := t) (by simp) (by intro u hu; simp [setFn, hu]) (by simp [heq, PC.scan?]) x
       refine ⟨?_, ?_, ?_⟩
       · intro x hx hc
         first
         | (have := h.h2 t old (by rw [heq]; rfl) x ((hq x).1 hx) (by simpa using hc)
            simp [mtRelWord]; (repeat' split) <;> exact this)
         | (have := h.h2 t old (by rw [heq]; rfl) x ((hq2 x).1 hx) (by simpa using hc)
            simp [mtRelWord]; exact this)
       · intro u o' ho x hx hc
         by_cases hu : u = t
         · subst hu; simp [PC.mtOld] at ho
         · first
           | (exact h.h2 u o' (by simpa [setFn, hu] using ho) x ((hq x).1 hx) (by simpa using hc))
           | (exact h.h2 u o' (by simpa [setFn, hu] using ho) x ((hq2 x).1 hx) (by simpa using hc))
       · intro u k' c' hl
         by_cases hu : u = t
         · subst hu; simp [PC.limboC] at hl
         · have := h.h3 u k' c' (by simpa [setFn, hu] using hl)
           simpa using this)
  · cases hs

end NsyncVerif.MuC
