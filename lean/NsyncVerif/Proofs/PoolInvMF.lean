/-
  Layer `Pool`: preservation of the spinlock invariant `MInv` and of the field invariant `FInv`.
-/
import NsyncVerif.Proofs.PoolInv

namespace Pool

/-! ### MInv -/

variable {mu : Nat} {holder : Option Tid} {pc : Tid → PC}

/-- A thread outside the critical section moves to a pc that is neither the critical section nor
    the CAS: the spinlock invariant is untouched. -/
theorem MInv_frame {t : Tid} {p : PC} (hi : MInv mu holder pc)
    (h0 : ∀ j, pc t ≠ .cs j) (h1 : ∀ j, p ≠ .cs j) (h2 : ∀ j old, p ≠ .spinCas j old) :
    MInv mu holder (upd pc t p) := by
  obtain ⟨m1, m2, m3⟩ := hi
  constructor
  · exact m1
  · intro u; simp only [upd_apply]; grind
  · intro u j old; simp only [upd_apply]; grind

/-- The word is 0 or 1. -/
theorem MInv.mu_le (hi : MInv mu holder pc) : mu = 0 ∨ mu = 1 := by
  have := hi.muVal; grind

/-- A load of the spin loop. -/
theorem MInv_ld {t : Tid} {j : Job} (hi : MInv mu holder pc) (h0 : ∀ j, pc t ≠ .cs j) :
    MInv mu holder (upd pc t (afterLoad j mu)) := by
  have hmu := hi.mu_le
  obtain ⟨m1, m2, m3⟩ := hi
  constructor
  · exact m1
  · intro u; simp only [upd_apply, afterLoad]; grind
  · intro u j' old; simp only [upd_apply, afterLoad]; grind

/-- A successful CAS: the word was 0, nobody held the lock. -/
theorem MInv_casOk {t : Tid} {j : Job} {exp : Nat} (hi : MInv mu holder pc)
    (hpc : pc t = .spinCas j exp) (hobs : mu = exp) :
    MInv (exp ||| 1) (some t) (upd pc t (.cs j)) := by
  obtain ⟨m1, m2, m3⟩ := hi
  have he : exp = 0 := m3 t j exp hpc
  subst he
  have hh : holder = none := by
    cases hhd : holder with
    | none => rfl
    | some u => simp [hhd] at m1; omega
  subst hh
  constructor
  · simp
  · intro u; simp only [upd_apply]
    by_cases hu : u = t
    · simp [hu]
    · have := m2 u; simp only [hu, if_false]; grind
  · intro u j' old; simp only [upd_apply]; grind

/-- The release store by the thread in the critical section. -/
theorem MInv_rel {t : Tid} {j : Job} {p : PC} (hi : MInv mu holder pc) (hpc : pc t = .cs j)
    (h1 : ∀ j, p ≠ .cs j) (h2 : ∀ j old, p ≠ .spinCas j old) :
    MInv 0 none (upd pc t p) := by
  obtain ⟨m1, m2, m3⟩ := hi
  have hh : holder = some t := (m2 t).1 ⟨j, hpc⟩
  constructor
  · simp
  · intro u; simp only [upd_apply]
    by_cases hu : u = t
    · simp only [hu, if_true]; grind
    · simp only [hu, if_false]
      have := m2 u
      grind
  · intro u j' old; simp only [upd_apply]; grind

/-! ### FInv -/

variable {ready : Wid → Bool} {nalloc : Nat} {ini : Tid → Option Wid} {nwflags : Wid → Nat}
  {sem : Wid → Option Wid} {inits : Wid → Nat} {nwr : Wid → Fld → Nat}

theorem bump_apply (n : Wid → Fld → Nat) (w : Wid) (f : Fld) (x : Wid) (g : Fld) :
    bump n w f x g = if x = w ∧ g = f then n x g + 1 else n x g := rfl

/-- `malloc` + common.c:197-203. -/
theorem FInv_malloc {t : Tid} (hi : FInv ready nalloc ini nwflags sem inits nwr)
    (ht : ini t = none) :
    FInv ready (nalloc + 1) (upd ini t (some nalloc)) (upd nwflags nalloc MUCV)
      (upd sem nalloc (some nalloc)) (upd inits nalloc (inits nalloc + 1))
      (bump (bump (bump nwr nalloc .sem) nalloc .waiting) nalloc .nwflags) := by
  obtain ⟨f1, f2, f3, f4, f5⟩ := hi
  have hu := f5 nalloc (Nat.le_refl _)
  have hnr : ready nalloc = false := by grind
  have hlt : ∀ u w, ini u = some w → w < nalloc := fun u w h => (f3 u w h).1
  constructor
  · intro x; simp only [upd_apply]; grind
  · intro x; simp only [upd_apply, bump_apply]; grind
  · intro u x; simp only [upd_apply, bump_apply]; grind
  · intro u v x; simp only [upd_apply]; grind
  · intro x; simp only [upd_apply, bump_apply]; grind

/-- site 5 + common.c:205-206: the initialisation block completes. -/
theorem FInv_stRc {t : Tid} {w : Wid} (hi : FInv ready nalloc ini nwflags sem inits nwr)
    (ht : ini t = some w) :
    FInv (upd ready w true) nalloc (upd ini t none) nwflags sem inits (bump nwr w .rc) := by
  obtain ⟨f1, f2, f3, f4, f5⟩ := hi
  have hw := f3 t w ht
  constructor
  · intro x; simp only [upd_apply]; grind
  · intro x; simp only [upd_apply, bump_apply]
    by_cases hx : x = w
    · subst hx
      intro _
      refine ⟨hw.2.1, hw.2.2.1, hw.2.2.2.1, fun f => ?_⟩
      cases f <;> simp [hw.2.2.2.2.1, hw.2.2.2.2.2.1, hw.2.2.2.2.2.2.1, hw.2.2.2.2.2.2.2]
    · simp only [hx, if_false, false_and]; exact f2 x
  · intro u x; simp only [upd_apply, bump_apply]; grind
  · intro u v x; simp only [upd_apply]; grind
  · intro x; simp only [bump_apply]; grind

end Pool
