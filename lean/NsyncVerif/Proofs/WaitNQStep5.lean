/-
  Proofs/WaitNQStep5.lean — `QI ∧ CF` across record initialisation, free, return, the call itself, object
  creation and nsync_cv_signal / nsync_cv_broadcast.
-/
import NsyncVerif.Proofs.WaitNQStep4

set_option linter.unusedSimpArgs false
set_option linter.unusedVariables false

namespace WaitN

/-- `CF` of a thread that is not inside nsync_wait_n -/
theorem cf_notInCall {s' : State} {t : Tid} (h : inCall (s'.pc t) = false) : CF s' t := by
  have hp : Plain (s'.pc t) (s'.fr t) := by
    cases hpc : s'.pc t <;> simp [hpc, inCall] at h <;> exact ⟨rfl, rfl, rfl, rfl⟩
  exact cf_plain hp (fun hc => by rw [h] at hc; cases hc)

theorem qcf_stepInit {s s' : State} {t : Tid} {i : Nat} {e : Ev} (c : QCtx s t)
    (hpc : s.pc t = .wInit i) (h : stepInit s t i e = .ok s') : QI s' ∧ CF s' t := by
  have hl : LInv (.wInit i) (s.fr t) := hpc ▸ c.linv t
  have hc : inCall (s.pc t) = true := by rw [hpc]; rfl
  have hnop : opn (s.pc t) = false := by rw [hpc]; rfl
  have hpost := post_none_of_pc c.qi hnop
  have hmc := mc_none_of_pc c.qi hnop
  have hw0 := wk_none_of_opn hnop
  have hnd := noneDeqd_of_cf c.cf hc hl.1.frees (by rw [hpc]; rfl)
  unfold stepInit at h
  dsimp only at h
  split at h
  · rename_i r new obs oid hoid
    split at h
    · rename_i hg
      cases h
      have hp' : wk (if oid.isCv = true then PC.wEnqCv i (CvEnqSt.spin SpinSt.ld) else PC.wEnq i EnqSt.lockCall) = none := by
        split <;> rfl
      refine ⟨qi_setPc (qi_setFr (qi_init c.qi hg.2.1)) hw0 hp' hpost hmc, ?_⟩
      have hget : ((s.fr t).recs ++ [r])[i]? = some r := by
        rw [hg.2.2.2]; simp
      constructor
      · intro o ho
        simp only [setPc_pc, setPc_fr, setFr_fr, if_true] at ho
        split at ho <;> simp [holdsAt] at ho
      · intro r' hr'
        simp only [setPc_pc, setPc_fr, setFr_fr, if_true, setPc_rcd, setFr_rcd, setRec_rcd] at hr' ⊢
        have : r' = r := by
          split at hr' <;> simp [freshAt, hget] at hr' <;> exact hr'.symm
        subst this; simp
      · intro r' hr'
        simp only [setPc_pc, setPc_fr, setFr_fr, if_true] at hr'
        split at hr' <;> simp [clearedAt] at hr'
      · intro o ho
        simp only [setPc_pc, setPc_fr, setFr_fr, if_true] at ho
        split at ho <;> simp [enqTrueAt] at ho
      · intro _ hf0 k r' hk
        simp only [setPc_pc, setPc_fr, setFr_fr, if_true, setPc_rcd, setFr_rcd, setRec_rcd] at hk ⊢
        have hd0 : dqIdx (if oid.isCv = true then PC.wEnqCv i (CvEnqSt.spin SpinSt.ld) else PC.wEnq i EnqSt.lockCall)
            { s.fr t with recs := (s.fr t).recs ++ [r] } = 0 := by split <;> rfl
        rw [hd0]
        by_cases hrr : r' = r
        · subst hrr; simp
        · simp only [hrr, if_false]
          have : (s.fr t).recs[k]? = some r' := by
            rcases Nat.lt_or_ge k (s.fr t).recs.length with h' | h'
            · rw [List.getElem?_append_left h'] at hk; exact hk
            · rw [List.getElem?_append_right h'] at hk
              have : k - (s.fr t).recs.length = 0 := by
                rcases Nat.eq_zero_or_pos (k - (s.fr t).recs.length) with h0 | h0
                · exact h0
                · rw [List.getElem?_eq_none (by simp; omega)] at hk; cases hk
              rw [this] at hk; simp at hk; exact absurd hk.symm hrr
          rw [hnd k r' this]; simp
    · simp at h
  · exact qcf_dflt c h

theorem qcf_stepFree {s s' : State} {t : Tid} {e : Ev} (c : QCtx s t)
    (hpc : s.pc t = .wFree) (h : stepFree s t e = .ok s') : QI s' ∧ CF s' t := by
  have hl : LInv .wFree (s.fr t) := hpc ▸ c.linv t
  have hc : inCall (s.pc t) = true := by rw [hpc]; rfl
  have hnop : opn (s.pc t) = false := by rw [hpc]; rfl
  have hpost := post_none_of_pc c.qi hnop
  have hmc := mc_none_of_pc c.qi hnop
  have hw0 := wk_none_of_opn hnop
  unfold stepFree at h
  split_ok h
  all_goals first
    | exact qcf_dflt c h
    | (cases h
       have hall : ∀ r ∈ (s.fr t).recs, (s.rcd r).deqd = true ∨ (s.rcd r).live = false := by
         intro r hr
         obtain ⟨k, hk⟩ := List.getElem?_of_mem hr
         left
         have := (c.cf.dq hc hl.1.frees k r hk).2
         rw [hpc] at this
         apply this
         simp only [dqIdx]
         rcases Nat.lt_or_ge k (s.fr t).recs.length with h' | h'
         · exact h'
         · rw [List.getElem?_eq_none h'] at hk; cases hk
       refine ⟨qi_setPc (qi_setFr (qi_kill c.qi hall)) hw0 ?_ hpost hmc, cf_plain ?_ ?_⟩
       · unfold relockNext; split <;> rfl
       · simpa using plain_relockNext _
       · intro _ hf0; simp at hf0)

theorem qcf_stepRet {s s' : State} {t : Tid} {r0 : Nat} {e : Ev} (c : QCtx s t)
    (hpc : s.pc t = .wRet r0) (h : stepRet s t r0 e = .ok s') : QI s' ∧ CF s' t := by
  have hl : LInv (.wRet r0) (s.fr t) := hpc ▸ c.linv t
  have hc : inCall (s.pc t) = true := by rw [hpc]; rfl
  have hnop : opn (s.pc t) = false := by rw [hpc]; rfl
  have hpost := post_none_of_pc c.qi hnop
  have hmc := mc_none_of_pc c.qi hnop
  have hw0 := wk_none_of_opn hnop
  unfold stepRet at h
  dsimp only at h
  split at h
  · split at h
    · cases h
      have hall : ∀ r ∈ (if (s.fr t).heap.isSome = true then [] else (s.fr t).recs),
          (s.rcd r).deqd = true ∨ (s.rcd r).live = false := by
        intro r hr
        split at hr
        · cases hr
        · rename_i hh
          have hfr := frees_of_linv_ret hl (by simpa using hh)
          obtain ⟨k, hk⟩ := List.getElem?_of_mem hr
          left
          have := (c.cf.dq hc hfr k r hk).2
          rw [hpc] at this
          apply this
          simp only [dqIdx]
          rcases Nat.lt_or_ge k (s.fr t).recs.length with h' | h'
          · exact h'
          · rw [List.getElem?_eq_none h'] at hk; cases hk
      refine ⟨qi_setPc (qi_setFr (qi_kill c.qi hall)) hw0 rfl hpost hmc, cf_notInCall ?_⟩
      simp [inCall]
    · simp at h
  · exact qcf_dflt c h

theorem cf_idle_keeps {s s' : State} {t : Tid} (hpc : s.pc t = .idle) (k : s'.pc t = s.pc t) : CF s' t :=
  cf_notInCall (by rw [k, hpc]; rfl)

theorem qcf_stepIdle {s s' : State} {t : Tid} {e : Ev} (c : QCtx s t)
    (hpc : s.pc t = .idle) (h : stepIdle s t e = .ok s') : QI s' ∧ CF s' t := by
  have hop : opn (s.pc t) = true := by rw [hpc]; rfl
  have hw0 : wk (s.pc t) = none := by rw [hpc]; rfl
  unfold stepIdle at h
  split at h
  · -- callWaitN
    split at h
    · rename_i hg
      cases h
      refine ⟨qi_setPc (qi_setFr c.qi) hw0 (wk_none_of_inCall (inCall_pollNext _ _)) hg.2.1 hg.1,
              cf_plain (by simpa using plain_pollNext _ 0) ?_⟩
      intro _ _ k r hk
      simp [Frame.new, Frame.empty] at hk
    · simp at h
  · -- callSig
    split at h
    · rename_i hg
      cases h
      exact ⟨qi_setPc c.qi hw0 rfl hg.2 hg.1, cf_notInCall (by simp [inCall])⟩
    · simp at h
  · -- newNote
    split at h
    · rename_i k ex hg
      cases h
      exact ⟨qi_newObj (e := ex) (v := (s.obj (.note k)).value) c.qi hg, cf_notInCall (by simp [hpc, inCall])⟩
    · simp at h
  · -- newCtr
    split at h
    · rename_i k v hg
      cases h
      exact ⟨qi_newObj (e := (s.obj (.ctr k)).expiry) (v := v) c.qi hg, cf_notInCall (by simp [hpc, inCall])⟩
    · simp at h
  · exact ⟨qi_stepOpen c.qi hop hw0 h, cf_idle_keeps hpc (keeps_stepOpen (t := t) h).1⟩

end WaitN
