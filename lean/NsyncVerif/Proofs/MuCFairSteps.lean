import NsyncVerif.Proofs.MuCFairKeep3
/-
  MuC, fair termination, step A: the kind of call a thread is inside (a release — nsync_mu_unlock / runlock /
  unlock_without_wakeup — or an acquisition — lock / rlock / trylock / rtrylock / nsync_mu_wait_with_deadline) does not
  change while the call is in progress, and only `call` / `ret` events enter or leave a call: `KindKeep`.
  Loads and stores here; the rest in MuCFairSteps2/3.lean.
-/
namespace NsyncVerif.MuC

def Ret.isUl : Ret → Bool
  | .ul _ _ => true
  | .mw _ => false

/-- Inside nsync_mu_unlock / nsync_mu_runlock / nsync_mu_unlock_without_wakeup (including their unlock_slow). -/
def PC.rel : PC → Bool
  | .ulCas0 _ _ | .ulLd _ _ | .ulCas1 _ _ _ | .ulRet _ _ => true
  | .usLd r | .usCasUnc r _ | .usCasGrab r _ | .usRelLd r _ | .usRelCas r _ _ | .usEval r _ | .usRcLd r _ _ | .usRcCas r _ _ _
  | .usReLd r _ | .usReCas r _ _ | .usFinLd r _ | .usFinCas r _ _ | .usWakeSt r _ _ | .usWakeV r _ _ => r.isUl
  | _ => false

/-- A step of the thread that is neither a `call` nor a `ret`: it stays inside its call, of the same kind. -/
def KindKeep (p p' : PC) : Prop := p ≠ .idle ∧ p' ≠ .idle ∧ p'.rel = p.rel

theorem ScanPc.kind {r : Ret} {late : Bool} {p : PC} (h : ScanPc r late p) : p ≠ .idle ∧ p.rel = r.isUl := by
  cases p <;> simp [ScanPc] at h <;> simp [PC.rel, h]

theorem KindKeep.scan {p p' : PC} {r : Ret} {late : Bool} (hni : p ≠ .idle) (hrel : p.rel = r.isUl) (hp : ScanPc r late p') :
    KindKeep p p' := ⟨hni, hp.kind.1, hp.kind.2.trans hrel.symm⟩

macro "kind_local" heq:ident : tactic => `(tactic|
  (rw [$heq:ident]
   (simp [KindKeep, PC.rel, Ret.isUl, SL.entry, SL.fromWait, SL.woken, loopPc, finPc, Ret.pc, setFn]) <;> grind))

macro "ld_caseKd" heq:ident hs:ident : tactic => `(tactic|
  (try dsimp only at $hs:ident
   try simp only [ldWord, ldWaiting, casWord] at $hs:ident
   repeat' split at $hs:ident
   all_goals first
     | (cases $hs:ident; done)
     | (cases $hs:ident; kind_local $heq)
     | (cases $hs:ident; split <;> kind_local $heq)))

theorem kind_stepLd {s s' : State} {t : Tid} {o : Ord} {loc : Loc} {obs : Nat}
    (hs : stepLd s t o loc obs = .ok s') : KindKeep (s.pc t) (s'.pc t) := by
  unfold stepLd at hs
  split at hs
  all_goals first
    | (rename_i heq; ld_caseKd heq hs)
    | skip

theorem kind_stepSt {s s' : State} {t : Tid} {o : Ord} {loc : Loc} {new obs : Nat}
    (hs : stepSt s t o loc new obs = .ok s') : KindKeep (s.pc t) (s'.pc t) := by
  unfold stepSt at hs
  split at hs
  all_goals first
    | (rename_i heq; ld_caseKd heq hs)
    | skip

end NsyncVerif.MuC
