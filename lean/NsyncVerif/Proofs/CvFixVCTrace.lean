/-
  Layer `CvFix` × vector clocks: stability lemmas for the trace form of the cv-signal edge.
    `woken_exit`        a record leaves status `woken` only when its owner notices: the loop exit
                        of the cv wait [cv.c/10 observing 0], or the return of cv_dequeue
                        [cv.c/34 with `being_woken == 0`, or cv.c/35 observing 0];
    `afterLoop_leave`   a cv wait that is past its loop stays there until its `ret`;
    `woken_stable_run`, `exit_stable_run`  the same along event lists, with the ghosts.
-/
import NsyncVerif.Proofs.CvFixVCXfer

namespace NsyncVerif.CvFix
open NsyncVerif

/-! ### leaving `woken` -/

def WokenExit (s : State) (e : Event) (r : Rid) : Prop :=
  (∃ t, e = .recLd t .wHead r 0) ∨ (∃ t, e = .recLd t .deqSpin r 0) ∨
  (∃ t new obs, e = .wordSt t .deqRel new obs ∧ (s.thr t).loc = .nDeqRel ∧ (s.thr t).r = r)

theorem wx_one {s s' : State} {e : Event} {r0 : Rid} (ho : ∀ q, q ≠ r0 → s'.recs q = s.recs q)
    (h0 : (s.recs r0).stat = .woken → (s'.recs r0).stat = .woken ∨ WokenExit s e r0) (r : Rid)
    (hw : (s.recs r).stat = .woken) : (s'.recs r).stat = .woken ∨ WokenExit s e r := by
  by_cases hr : r = r0
  · subst hr; exact h0 hw
  · left; rw [ho r hr]; exact hw

theorem woken_exit {cfg : Config} {s s' : State} {e : Event} (hi : Inv s) (h : Tr cfg s e s')
    (r : Rid) (hw : (s.recs r).stat = .woken) : (s'.recs r).stat = .woken ∨ WokenExit s e r := by
  have ha := hi.a
  cases h with
  | same e h => exact .inl hw
  | tick ns h => exact .inl hw
  | semOther e sem' h => exact .inl hw
  | loc h => exact .inl hw
  | acq t exp new obs o n hl hexp hw' he ho hn hnew =>
    left
    unfold afterAcquire
    split
    · rename_i hc; simp only at hc
      have hst := ((ha.thr t).prep (by simp [waitPrep, hl, hc])).1
      have hne : r ≠ (s.thr t).r := by intro e; rw [e, hst] at hw; cases hw
      simp [hne, hw]
    · exact hw
    · exact hw
    · exact hw
    · dsimp only
      by_cases hq : (if (s.thr t).bcast = true then s.queue else sigSelect s.recs s.queue).contains r = true
      · exfalso
        have hmem : r ∈ s.queue := by
          have : r ∈ (if (s.thr t).bcast = true then s.queue else sigSelect s.recs s.queue) := by
            simpa using hq
          split at this
          · exact this
          · exact (sigSelect_sublist _ _).subset this
        have := (ha.qMem r).mp hmem; rw [hw] at this; cases this
      · simp only [hq]; exact hw
  | relWait t new obs n hl hh hnew hn hsp =>
    refine wx_one (r0 := (s.thr t).r) (fun q hq => by simp [hq]) (fun h => .inl (by simpa using h)) r hw
  | relEnq t new obs n hl hh hnew hn hsp =>
    refine wx_one (r0 := (s.thr t).r) (fun q hq => by simp [hq]) (fun h => .inl (by simpa using h)) r hw
  | relWait2 t new obs n hl hh hnew hn hsp => exact .inl hw
  | relSig t site new obs n hl hs hh hnew hn hsp => exact .inl hw
  | relDeq t new obs n hl hh hnew hn hsp =>
    refine wx_one (r0 := (s.thr t).r) (fun q hq => by simp [hq]) (fun _ => .inr (.inr (.inr ⟨t, new, obs, rfl, hl, rfl⟩))) r hw
  | relDeqW t new obs n hl hh hnew hn hsp => exact .inl hw
  | relDbg t new obs n hl hh hnew hn hsp => exact .inl hw
  | wHeadExit t r0 y hy hl hr hw' =>
    refine wx_one (r0 := r0) (fun q hq => by simp [hq]) (fun _ => .inr (.inl ⟨t, rfl⟩)) r hw
  | wCmpEq t r0 obs hl hr ho he =>
    have hq := (invB_wCmpEq hi.b ha t r0 obs hl hr ho he).1
    refine wx_one (r0 := r0) (fun q hq => by simp [hq]) (fun h => by rw [hq] at h; cases h) r hw
  | deqLdQueued t r0 obs hl hr hw' hq =>
    have hq' := (ha.qMem r0).mp hq
    refine wx_one (r0 := r0) (fun q hq => by simp [hq]) (fun h => by rw [hq'] at h; cases h) r hw
  | deqSpinExit t r0 hl hr hw' =>
    refine wx_one (r0 := r0) (fun q hq => by simp [hq]) (fun _ => .inr (.inr (.inl ⟨t, rfl⟩))) r hw
  | wSt1 t r0 obs hl hm hst =>
    refine wx_one (r0 := r0) (fun q hq => by simp [hq]) (fun h => by rw [hst] at h; cases h) r hw
  | wClr t r0 obs hl hr =>
    refine wx_one (r0 := r0) (fun q hq => by simp [hq]) (fun h => .inl (by simpa using h)) r hw
  | wake t r0 obs hl hr =>
    have hst : (s.recs r0).stat = .listed t := (ha.lMem t r0).mp (head_mem' hr)
    refine wx_one (r0 := r0) (fun q hq => by simp [hq]) (fun h => by rw [hst] at h; cases h) r hw
  | enqSt t r0 obs hl hm hst ho he =>
    refine wx_one (r0 := r0) (fun q hq => by simp [hq]) (fun h => by rw [hst] at h; cases h) r hw
  | deqSt t r0 obs hl hr =>
    refine wx_one (r0 := r0) (fun q hq => by simp [hq]) (fun h => .inl (by simpa using h)) r hw
  | wRmCasOk t r0 exp new obs hl hr hn ho he =>
    refine wx_one (r0 := r0) (fun q hq => by simp [hq]) (fun h => .inl (by simpa using h)) r hw
  | sRcCasOk t site r0 exp new obs hl hr hn ho he =>
    refine wx_one (r0 := r0) (fun q hq => by simp [hq]) (fun h => .inl (by simpa using h)) r hw
  | muMode t obs lt hl hlt =>
    refine wx_one (r0 := (s.thr t).r) (fun q hq => by simp [hq]) (fun h => .inl (by simpa using h)) r hw
  | wwCasOk t exp new obs f rest hl hlist =>
    left
    dsimp only
    by_cases hq : (transferSet s.recs (firstCantAcquire (s.recs f).lt exp) (s.thr t).list).contains r = true
    · exfalso
      have := (ha.lMem t r).mp (transferSet_subset _ _ _ r (by simpa using hq))
      rw [hw] at this; cases this
    · simp only [hq]; exact hw
  | semVWake t k r0 q hl hc =>
    refine wx_one (r0 := r0) (fun q hq => by simp [hq]) (fun h => .inl (by simpa using h)) r hw
  | semPdRetOkW t k hl => exact .inl hw
  | semPdRetOkC t k hl => exact .inl hw
  | wInit t r0 hl hm hst =>
    refine wx_one (r0 := r0) (fun q hq => by simp [hq]) (fun h => .inl (by simpa using h)) r hw
  | nwInit t r0 hl hm hst =>
    refine wx_one (r0 := r0) (fun q hq => by simp [hq]) (fun h => .inl (by simpa using h)) r hw
  | fStW t r0 new hl hf' =>
    refine wx_one (r0 := r0) (fun q hq => by simp [hq]) (fun h => .inl (by simpa using h)) r hw
  | fCasOk t r0 exp new obs hl hf' hn ho he =>
    refine wx_one (r0 := r0) (fun q hq => by simp [hq]) (fun h => .inl (by simpa using h)) r hw

/-- For a pooled waiter the only way out of `woken` is the loop exit of its cv wait. -/
theorem woken_exit_mucv {cfg : Config} {s s' : State} {e : Event} (hi : Inv s)
    (hs : step cfg s e = .ok s') (r : Rid) (hm : r.isMucv = true) (hw : (s.recs r).stat = .woken) :
    (s'.recs r).stat = .woken ∨ ∃ t, e = .recLd t .wHead r 0 := by
  rcases woken_exit hi (step_tr hs) r hw with h | ⟨t, h⟩ | ⟨t, rfl⟩ | ⟨t, new, obs, rfl, hl, hr⟩
  · exact .inl h
  · exact .inr ⟨t, h⟩
  · exfalso
    obtain ⟨hl, hr, _, _⟩ := deqSpin_exit_accepted hs
    have := ((hi.a.thr t).mine _ ((hi.a.thr t).nSpin (.inr hl)).1).1
    rw [← hr, hm] at this; cases this
  · exfalso
    have := ((hi.a.thr t).mine _ ((hi.a.thr t).nDeq (.inr hl)).1).1
    rw [hr, hm] at this; cases this

/-! ### leaving the part of the wait after its loop -/

def LoopLeave (e : Event) (s' : State) (u : Tid) : Prop :=
  (s'.thr u).loc.afterLoop = true ∨ ∃ res, e = .retWait u res

theorem ll_actor {s s' : State} {e : Event} {t0 : Tid} (ho : ∀ u, u ≠ t0 → s'.thr u = s.thr u)
    (h0 : (s.thr t0).loc.afterLoop = true → LoopLeave e s' t0) (u : Tid)
    (hm : (s.thr u).loc.afterLoop = true) : LoopLeave e s' u := by
  by_cases h : u = t0
  · subst h; exact h0 hm
  · left; rw [ho u h]; exact hm

theorem ll_ltr {s : State} {t : Tid} {e : Event} {x' : Thr} (h : LTr s t e x')
    (hm : (s.thr t).loc.afterLoop = true) : LoopLeave e (s.setThr t x') t := by
  cases h with
  | lockMark op hl hx ho => left; simp [Loc.afterLoop]
  | relockSlow hl hx => left; simp [Loc.afterLoop]
  | nretLock hl => left; simp [Loc.afterLoop]
  | retWait res hl hr => exact .inr ⟨res, rfl⟩
  | spinLd site obs hl ho => rcases hl with ⟨_, hl⟩ | ⟨_, hl⟩ <;> rw [hl] at hm <;> cases hm
  | noteSeen hl => rcases hl with hl | hl | hl <;> rw [hl] at hm <;> cases hm
  | wwRelLd site obs hl => rcases hl with ⟨_, hl⟩ | ⟨_, hl⟩ <;> rw [hl] at hm <;> cases hm
  | wChk y r obs hy hl hr ho hso =>
    exfalso
    cases hy <;> simp_all [Loc.afterLoop]
  | wTail y r obs hy hl hr ho =>
    exfalso
    cases hy <;> simp_all [Loc.afterLoop]
  | _ => exfalso; simp_all [Loc.afterLoop]

theorem afterLoop_leave {cfg : Config} {s s' : State} {e : Event} (h : Tr cfg s e s') (u : Tid)
    (hm : (s.thr u).loc.afterLoop = true) : LoopLeave e s' u := by
  cases h with
  | same e h => exact .inl hm
  | tick ns h => exact .inl hm
  | semOther e sem' h => exact .inl hm
  | loc h =>
    rename_i t0 x'
    exact ll_actor (t0 := t0) (fun u hu => by simp [hu]) (ll_ltr h) u hm
  | acq t0 exp new obs o n hl hexp hw he ho hn hnew =>
    refine ll_actor (t0 := t0) (fun u hu => by rw [afterAcquire_thr_other _ _ _ _ hu]) ?_ u hm
    intro h; rw [hl] at h; cases h
  | wInit t0 r hl hm' hst => exact .inl hm
  | nwInit t0 r hl hm' hst => exact .inl hm
  | fStW t0 r new hl hf' => exact .inl hm
  | fCasOk t0 r exp new obs hl hf' hn ho he => exact .inl hm
  | relWait t0 new obs n hl hh hnew hn hsp =>
    refine ll_actor (t0 := t0) (fun u hu => by simp [hu]) ?_ u hm
    intro h; rw [hl] at h; cases h
  | relWait2 t0 new obs n hl hh hnew hn hsp =>
    refine ll_actor (t0 := t0) (fun u hu => by simp [hu]) ?_ u hm
    intro h; rw [hl] at h; cases h
  | relSig t0 site new obs n hl hs hh hnew hn hsp =>
    refine ll_actor (t0 := t0) (fun u hu => by simp [hu]) ?_ u hm
    intro h; rw [hl] at h; cases h
  | relEnq t0 new obs n hl hh hnew hn hsp =>
    refine ll_actor (t0 := t0) (fun u hu => by simp [hu]) ?_ u hm
    intro h; rw [hl] at h; cases h
  | relDeq t0 new obs n hl hh hnew hn hsp =>
    refine ll_actor (t0 := t0) (fun u hu => by simp [hu]) ?_ u hm
    intro h; rw [hl] at h; cases h
  | relDeqW t0 new obs n hl hh hnew hn hsp =>
    refine ll_actor (t0 := t0) (fun u hu => by simp [hu]) ?_ u hm
    intro h; rw [hl] at h; cases h
  | relDbg t0 new obs n hl hh hnew hn hsp =>
    refine ll_actor (t0 := t0) (fun u hu => by simp [hu]) ?_ u hm
    intro h; rw [hl] at h; cases h
  | wHeadExit t0 r y hy hl hr hw =>
    subst hy
    refine ll_actor (t0 := t0) (fun u hu => by simp [hu]) ?_ u hm
    intro h; rw [hl] at h; cases h
  | wCmpEq t0 r obs hl hr ho he =>
    refine ll_actor (t0 := t0) (fun u hu => by simp [hu]) ?_ u hm
    intro h; rw [hl] at h; cases h
  | deqLdQueued t0 r obs hl hr hw hq =>
    refine ll_actor (t0 := t0) (fun u hu => by simp [hu]) ?_ u hm
    intro h; rw [hl] at h; cases h
  | deqSpinExit t0 r hl hr hw =>
    refine ll_actor (t0 := t0) (fun u hu => by simp [hu]) ?_ u hm
    intro h; rw [hl] at h; cases h
  | wSt1 t0 r obs hl hm' hst =>
    refine ll_actor (t0 := t0) (fun u hu => by simp [hu]) ?_ u hm
    intro h; rw [hl] at h; cases h
  | wClr t0 r obs hl hr =>
    refine ll_actor (t0 := t0) (fun u hu => by simp [hu]) ?_ u hm
    intro h; rw [hl] at h; cases h
  | wake t0 r obs hl hr =>
    refine ll_actor (t0 := t0) (fun u hu => by simp [hu]) ?_ u hm
    intro h; rw [hl] at h; cases h
  | enqSt t0 r obs hl hm' hst ho he =>
    refine ll_actor (t0 := t0) (fun u hu => by simp [hu]) ?_ u hm
    intro h; rw [hl] at h; cases h
  | deqSt t0 r obs hl hr =>
    refine ll_actor (t0 := t0) (fun u hu => by simp [hu]) ?_ u hm
    intro h; rw [hl] at h; cases h
  | wRmCasOk t0 r exp new obs hl hr hn ho he =>
    refine ll_actor (t0 := t0) (fun u hu => by simp [hu]) ?_ u hm
    intro h; rw [hl] at h; cases h
  | sRcCasOk t0 site r exp new obs hl hr hn ho he =>
    refine ll_actor (t0 := t0) (fun u hu => by simp [hu]) ?_ u hm
    intro h; rw [hl] at h; cases h
  | muMode t0 obs lt hl hlt =>
    refine ll_actor (t0 := t0) (fun u hu => by simp [hu]) ?_ u hm
    intro h; rw [hl] at h; cases h
  | wwCasOk t0 exp new obs f rest hl hlist =>
    refine ll_actor (t0 := t0) (fun u hu => by simp [hu]) ?_ u hm
    intro h; rw [hl] at h; cases h
  | semVWake t0 k r q hl hc =>
    refine ll_actor (t0 := t0) (fun u hu => by simp [hu]) ?_ u hm
    intro h; rw [hl] at h; cases h
  | semPdRetOkW t0 k hl =>
    refine ll_actor (t0 := t0) (fun u hu => by simp [hu]) ?_ u hm
    intro h; rw [hl] at h; cases h
  | semPdRetOkC t0 k hl =>
    refine ll_actor (t0 := t0) (fun u hu => by simp [hu]) ?_ u hm
    intro h; rw [hl] at h; cases h

/-! ### along event lists -/

/-- From the waker's store to the owner's loop exit, a pooled record stays `woken` and its ghost
    wake-up stays the same. -/
theorem woken_stable_run {cfg : Config} {fo : Nat → VC.Ord} {mid : List Event} {p p' : PState}
    {r : Rid} {W : Wake} (hr : Reachable cfg p.s) (hm : r.isMucv = true)
    (hw : (p.s.recs r).stat = .woken) (hk : p.wk r = some W)
    (hmid : ∀ t', Event.recLd t' .wHead r 0 ∉ mid) (h : prun cfg fo p mid = .ok p') :
    (p'.s.recs r).stat = .woken ∧ p'.wk r = some W := by
  induction mid generalizing p with
  | nil => simp only [prun, Except.ok.injEq] at h; subst h; exact ⟨hw, hk⟩
  | cons e es ih =>
    simp only [prun] at h
    split at h
    · rename_i p1 hp
      obtain ⟨s1, hs, rfl⟩ := pstep_ok hp
      have hi := inv_reachable hr
      have hw1 : (s1.recs r).stat = .woken := by
        rcases woken_exit_mucv hi hs r hm hw with h | ⟨t', rfl⟩
        · exact h
        · exact absurd (List.mem_cons_self) (hmid t')
      refine ih (p := pnext fo p e s1) (reachable_step hr hs) hw1 ?_
        (fun t' hh => hmid t' (List.mem_cons_of_mem _ hh)) h
      simp only [pnext]
      rw [wkUpd_keep p e r (woken_no_store hi hs r hw)]; exact hk
    · cases h

/-- From the loop exit to the `ret` of the wait, the thread stays past the loop and what it
    recorded at the exit stays the same. -/
theorem exit_stable_run {cfg : Config} {fo : Nat → VC.Ord} {rest : List Event} {p p' : PState}
    {t : Tid} (hr : Reachable cfg p.s) (hal : (p.s.thr t).loc.afterLoop = true)
    (hrest : ∀ res', Event.retWait t res' ∉ rest) (h : prun cfg fo p rest = .ok p') :
    (p'.s.thr t).loc.afterLoop = true ∧ p'.xw t = p.xw t ∧
    (p'.s.thr t).exitUnl = (p.s.thr t).exitUnl ∧ (p'.s.thr t).xferd = (p.s.thr t).xferd := by
  induction rest generalizing p with
  | nil => simp only [prun, Except.ok.injEq] at h; subst h; exact ⟨hal, rfl, rfl, rfl⟩
  | cons e es ih =>
    simp only [prun] at h
    split at h
    · rename_i p1 hp
      obtain ⟨s1, hs, rfl⟩ := pstep_ok hp
      have hf := invF_reachable hr
      have hal1 : (s1.thr t).loc.afterLoop = true := by
        rcases afterLoop_leave (step_tr hs) t hal with h | ⟨res, rfl⟩
        · exact h
        · exact absurd (List.mem_cons_self) (hrest res)
      have hx : xwTid e ≠ some t := by
        intro hh
        have := xwTid_loc hs hh
        rw [hal] at this; cases this
      obtain ⟨h1, h2, h3, h4⟩ := ih (p := pnext fo p e s1) (reachable_step hr hs) hal1
        (fun res' hh => hrest res' (List.mem_cons_of_mem _ hh)) h
      refine ⟨h1, ?_, ?_, ?_⟩
      · rw [h2]; exact xwUpd_other p e t hx
      · rw [h3]
        rcases (tfacts_tr hf (step_tr hs) t).exit hal1 with ⟨_, _, h⟩ | ⟨r, rfl, hl, _⟩
        · exact h
        · rw [hl] at hal; cases hal
      · rw [h4]
        rcases (tfacts_tr hf (step_tr hs) t).exit hal1 with ⟨_, h, _⟩ | ⟨r, rfl, hl, _⟩
        · exact h
        · rw [hl] at hal; cases hal
    · cases h

/-! ### nsync_wait_n records -/

/-- The record is `woken` and no cv_dequeue has yet looked at it since. -/
def WokenFresh (s : State) (r : Rid) : Prop :=
  (s.recs r).stat = .woken ∧ ∀ t', (s.thr t').loc = .nDeqRel → (s.thr t').r ≠ r

/-- Right after the waker's store the record is `woken` and fresh. -/
theorem wokenFresh_wake {cfg : Config} {s s' : State} {u : Tid} {r : Rid} {n o : Nat}
    (hr : Reachable cfg s) (hs : step cfg s (.recSt u .wake r n o) = .ok s') :
    (s.recs r).stat = .listed u ∧ WokenFresh s' r := by
  have hi := inv_reachable hr
  have hf := invF_reachable hr
  have hf' := invF_reachable (reachable_step hr hs)
  have htr := step_tr hs
  have hst : (s.recs r).stat = .listed u ∧ (s'.recs r).stat = .woken := by
    cases htr with
    | same e h => simp [touches] at h
    | semOther e sem' h => simp [touches] at h
    | loc h => cases h
    | wake t r0 obs hl hr' =>
      have := (hi.a.lMem u r).mp (head_mem' hr')
      exact ⟨this, by simp [this]⟩
  refine ⟨hst.1, hst.2, ?_⟩
  intro t' hl hx
  have hq : (s'.thr t').wasQ = false := by
    rcases (hf'.thr t').wqRel hl with ⟨_, _, c⟩ | ⟨a, _, _⟩
    · rw [hx, hst.2] at c; cases c
    · exact a
  rcases (tfacts_tr hf htr t').deq hl hq with ⟨h0, _, h2⟩ | ⟨r', he, _⟩
  · rcases (hf.thr t').wqRel h0 with ⟨_, _, c⟩ | ⟨_, _, c⟩ <;>
      rw [← h2, hx, hst.1] at c <;> cases c
  · cases he

theorem wokenFresh_step {cfg : Config} {s s' : State} {e : Event} {r : Rid}
    (hr : Reachable cfg s) (hs : step cfg s e = .ok s') (hq : WokenFresh s r)
    (h1 : ∀ t', e ≠ .recLd t' .deqLd r 0) (h2 : ∀ t', e ≠ .recLd t' .deqSpin r 0)
    (h3 : ∀ t', e ≠ .recLd t' .wHead r 0) : WokenFresh s' r := by
  have hi := inv_reachable hr
  have hf := invF_reachable hr
  have hf' := invF_reachable (reachable_step hr hs)
  have htr := step_tr hs
  have hw1 : (s'.recs r).stat = .woken := by
    rcases woken_exit hi htr r hq.1 with h | ⟨t, h⟩ | ⟨t, h⟩ | ⟨t, new, obs, _, hl, hx⟩
    · exact h
    · exact absurd h (h3 t)
    · exact absurd h (h2 t)
    · exact absurd hx (hq.2 t hl)
  refine ⟨hw1, ?_⟩
  intro t' hl hx
  have hwq : (s'.thr t').wasQ = false := by
    rcases (hf'.thr t').wqRel hl with ⟨_, _, c⟩ | ⟨a, _, _⟩
    · rw [hx, hw1] at c; cases c
    · exact a
  rcases (tfacts_tr hf htr t').deq hl hwq with ⟨h0, _, h2'⟩ | ⟨r', he, hr', _⟩
  · exact hq.2 t' h0 (by rw [← h2']; exact hx)
  · rw [hx] at hr'; subst hr'; exact h1 t' he

theorem wokenFresh_run {cfg : Config} {fo : Nat → VC.Ord} {mid : List Event} {p p' : PState}
    {r : Rid} {W : Wake} (hr : Reachable cfg p.s) (hq : WokenFresh p.s r) (hk : p.wk r = some W)
    (hmid : ∀ t', Event.recLd t' .deqLd r 0 ∉ mid ∧ Event.recLd t' .deqSpin r 0 ∉ mid ∧
      Event.recLd t' .wHead r 0 ∉ mid)
    (h : prun cfg fo p mid = .ok p') : WokenFresh p'.s r ∧ p'.wk r = some W := by
  induction mid generalizing p with
  | nil => simp only [prun, Except.ok.injEq] at h; subst h; exact ⟨hq, hk⟩
  | cons e es ih =>
    simp only [prun] at h
    split at h
    · rename_i p1 hp
      obtain ⟨s1, hs, rfl⟩ := pstep_ok hp
      have hi := inv_reachable hr
      have hq1 : WokenFresh s1 r :=
        wokenFresh_step hr hs hq
          (fun t' he => (hmid t').1 (by rw [he]; exact List.mem_cons_self))
          (fun t' he => (hmid t').2.1 (by rw [he]; exact List.mem_cons_self))
          (fun t' he => (hmid t').2.2 (by rw [he]; exact List.mem_cons_self))
      refine ih (p := pnext fo p e s1) (reachable_step hr hs) hq1 ?_
        (fun t' => ⟨fun hh => (hmid t').1 (List.mem_cons_of_mem _ hh),
                    fun hh => (hmid t').2.1 (List.mem_cons_of_mem _ hh),
                    fun hh => (hmid t').2.2 (List.mem_cons_of_mem _ hh)⟩) h
      simp only [pnext]
      rw [wkUpd_keep p e r (woken_no_store hi hs r hq.1)]; exact hk
    · cases h

end NsyncVerif.CvFix
