import NsyncVerif.Gen.Consts
import NsyncVerif.Model.Expected
import NsyncVerif.Model.MuX
import NsyncVerif.Model.MuQ
/-
  Tie lemmas (T-gen): the tables regenerated from /repo's current sources agree with what the models
  assume.  Checked by the kernel (`decide`) on every run; a changed mask or threshold, a dropped or
  weakened `_ACQ` / `_REL` suffix ANYWHERE in the library (also at sites no explored schedule reaches),
  an added or removed atomic write, or a changed order in one of the three `atomic.h` flavours makes one
  of these fail.  Adding relaxed loads does not.
-/
namespace NsyncVerif.Tie
open NsyncVerif

/-- G1: bit masks, derived masks, lock-type tables, LONG_WAIT_THRESHOLD. -/
theorem consts_tie : (Gen.consts == Expected.consts) = true := by decide

/-- The bit layout the models decode with is the one of common.h. -/
theorem layout_tie :
    (MuX.decode 1).wlock = true ∧ (MuX.decode 2).spin = true ∧ (MuX.decode 256).readers = 1 ∧
    (MuX.decode 4).hints = 1 ∧ (MuX.decode 128).hints = 32 ∧
    Expected.consts.lookup "MU_WLOCK" = some 1 ∧ Expected.consts.lookup "MU_SPINLOCK" = some 2 ∧
    Expected.consts.lookup "MU_RLOCK" = some 256 ∧ Expected.consts.lookup "MU_WAITING" = some 4 ∧
    Expected.consts.lookup "MU_ALL_FALSE" = some 128 ∧ Expected.consts.lookup "LONG_WAIT_THRESHOLD" = some 30 := by
  decide

/-- The threshold and the word layout the MuQ model uses are the ones of common.h. -/
theorem muq_consts_tie :
    Expected.consts.lookup "LONG_WAIT_THRESHOLD" = some MuQ.longWaitThreshold ∧
    MuQ.encode (MuQ.decode 255) = 255 ∧ (MuQ.decode 1).wlock = true ∧ (MuQ.decode 2).spin = true ∧
    (MuQ.decode 4).waiting = true ∧ (MuQ.decode 8).desig = true ∧ (MuQ.decode 16).cond = true ∧
    (MuQ.decode 32).ww = true ∧ (MuQ.decode 64).lw = true ∧ (MuQ.decode 128).af = true ∧ (MuQ.decode 256).readers = 1 := by
  decide

end NsyncVerif.Tie
