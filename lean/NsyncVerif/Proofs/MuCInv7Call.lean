import NsyncVerif.Proofs.MuCInv7Api
/-
  MuC, MU_ALL_FALSE: API boundaries, condition evaluations, client data; the invariant in every
  reachable state.
-/
namespace NsyncVerif.MuC

/-- `RefData` is unchanged by a step of `t` that keeps data and snapshot and `t`'s openness. -/
theorem refData_same {s s' : State} (t : Tid) (hd : s'.data = s.data) (hss : s'.secStart = s.secStart)
    (hoth : ∀ u, u ≠ t → s'.held u = s.held u ∧ s'.pc u = s.pc u)
    (ht : (s'.held t = some .W ∨ (s'.pc t).firstW = true) ↔ (s.held t = some .W ∨ (s.pc t).firstW = true))
    {d : Nat → Int} (h : RefData s' d) : RefData s d := by
  refine refData_congr (secOpen_iff ?_) hd hss h
  intro u
  by_cases e : u = t
  · subst e; exact ht
  · rw [(hoth u e).1, (hoth u e).2]

/-- `t`, owner of the writer bit, becomes the client that holds the mutex: the snapshot is taken. -/
theorem refData_acquireW {s s' : State} (t : Tid) (h1 : Inv1 s) (ho : s.wOwner = some t) (hh : s.held t ≠ some .W)
    (hf : (s.pc t).firstW = false) (hh' : s'.held t = some .W) (hss : s'.secStart = s.data)
    {d : Nat → Int} (h : RefData s' d) : RefData s d := by
  have hcl := not_secOpen_of_owner h1 ho hh hf
  rw [refData_open ⟨t, Or.inl hh'⟩ h, hss]
  exact refData_of_closed hcl

theorem inv7_stepCall {s s' : State} {t : Tid} {a : Api} (h1 : Inv1 s) (h5 : Inv5 s) (h : Inv7 s)
    (hs : stepCall s t a = .ok s') : Inv7 s' := by
  unfold stepCall at hs
  split at hs
  · rename_i heq
    have refT : ∀ (s2 : State) (m : Option Mode), s2.data = s.data → s2.secStart = s.secStart →
        (∀ u, u ≠ t → s2.held u = s.held u ∧ s2.pc u = s.pc u) → s.held t = m → m ≠ some .W → s2.held t = none →
        (s2.pc t).firstW = false → ∀ d, RefData s2 d → RefData s d := by
      intro s2 m hd hss hoth hm hmw hh' hf' d hd'
      refine refData_same t hd hss hoth ?_ hd'
      rw [hh', hf', hm, heq]
      simp [PC.firstW, hmw]
    cases a with
    | lock =>
      dsimp only at hs
      split at hs
      · cases hs; inv7_local t h heq
      · cases hs
    | rlock =>
      dsimp only at hs
      split at hs
      · cases hs; inv7_local t h heq
      · cases hs
    | trylock =>
      dsimp only at hs
      split at hs
      · cases hs; inv7_local t h heq
      · cases hs
    | rtrylock =>
      dsimp only at hs
      split at hs
      · cases hs; inv7_local t h heq
      · cases hs
    | unlock =>
      dsimp only at hs
      split at hs
      · cases hs
        inv7_local' t h heq
        case hcnd => intro x _; rfl
        case ha1 => right; right; left; simp [PC.susp]
        case haf => intro haf; left; exact haf
        case hcb => intro hcb; left; exact hcb
      · cases hs
    | runlock =>
      dsimp only at hs
      split at hs
      · rename_i hh
        cases hs
        inv7_local' t h heq
        case hcnd => intro x _; rfl
        case ha1 =>
          left
          refine ⟨by rw [heq]; simp [PC.susp], ?_⟩
          exact refT _ (some .R) rfl rfl (by intro u hu; simp [setFn, hu]) hh (by simp) (by simp [setFn]) (by simp [PC.firstW])
        case haf => intro haf; left; exact haf
        case hcb => intro hcb; left; exact hcb
      · cases hs
    | unlockNw =>
      dsimp only at hs
      split at hs
      · rename_i hh
        cases hs
        inv7_local' t h heq
        case hcnd => intro x _; rfl
        case ha1 =>
          right; right; right
          intro k d hk haf hnv' hns' hd'
          simp only [Bool.or_eq_false_iff] at hnv'
          obtain ⟨hnv, hviol⟩ := hnv'
          -- nobody is suspended, in particular no unlocker is scanning: k is on mu->waiters
          have hns : ∀ u, (s.pc u).susp = false := by
            intro u
            by_cases e : u = t
            · subst e; rw [heq]; rfl
            · have := hns' u; simpa [setFn, e] using this
          have hown : s.wOwner = some t := (h1.lock.wown t).2 (by simp [shareOf, tshare, hh])
          have hkq : k ∈ s.queue := by
            rcases hk with hk | ⟨u, sc, hu, hmem⟩
            · exact hk
            · -- a scanner that is not suspended found MU_CONDITION clear: none of its waiters has a condition
              exfalso
              have hnl := h.nl u (nonLate_of_scan_not_susp hu (hns u))
              have hkQ : Queued s k := Or.inr ⟨u, sc, hu, hmem⟩
              have := h5.h1 k hkQ (h.a1 haf k hkQ).1
              rw [hnl] at this; cases this
          obtain ⟨_, b⟩ := h.a1 haf k (Or.inl hkq)
          have hopen : SecOpen s := ⟨t, Or.inl hh⟩
          obtain ⟨c, hc, hev⟩ := b hnv hns s.secStart (refData_of_open hopen)
          rcases hd' with ⟨ho, _⟩ | ⟨_, rfl⟩
          · exact absurd ho (not_secOpen_release h1 hown (by simp [setFn]) (by simp [PC.firstW]) (by intro u hu; simp [setFn, hu]))
          show CondFalse s s.data k
          refine ⟨c, hc, ?_⟩
          have hv := List.any_eq_false.mp hviol k hkq
          rw [hc] at hv
          simp only [hev, Bool.not_false, Bool.true_and] at hv
          simpa using hv
        case haf => intro haf; left; exact haf
        case hcb => intro hcb; left; exact hcb
      · cases hs
    | wait cnd dl note =>
      dsimp only at hs
      split at hs
      · cases hs
      · rename_i m hm
        have hopenT : ∀ (s2 : State), s2.data = s.data → s2.secStart = s.secStart →
            (∀ u, u ≠ t → s2.held u = s.held u ∧ s2.pc u = s.pc u) → s2.held t = none →
            (s2.pc t).firstW = (m == .W) → ∀ d, RefData s2 d → RefData s d := by
          intro s2 hd hss hoth hh' hf' d hd'
          refine refData_same t hd hss hoth ?_ hd'
          rw [hh', hf', hm, heq]
          cases m <;> simp [PC.firstW]
        split at hs
        · cases hs
          inv7_local' t h heq
          case hcnd => intro x _; rfl
          case ha1 =>
            left
            refine ⟨by rw [heq]; simp [PC.susp], ?_⟩
            exact hopenT _ rfl rfl (by intro u hu; simp [setFn, hu]) (by simp [setFn]) (by simp [PC.firstW])
          case haf => intro haf; left; exact haf
          case hcb => intro hcb; left; exact hcb
        · split at hs
          · cases hs
          · cases hs
            inv7_local' t h heq
            case hcnd => intro x _; rfl
            case ha1 =>
              left
              refine ⟨by rw [heq]; simp [PC.susp], ?_⟩
              exact hopenT _ rfl rfl (by intro u hu; simp [setFn, hu]) (by simp [setFn]) (by simp [PC.firstW])
            case haf => intro haf; left; exact haf
            case hcb => intro hcb; left; exact hcb
  · cases hs

end NsyncVerif.MuC
