/-
  Layer `CvFix` (cv.c with the repair of F3; adapted from the `Cv` file of the same name): protocol invariant — transitions that change one record (part 1: the waiter's own
  record).
-/
import NsyncVerif.Proofs.CvFixInvBOne

namespace NsyncVerif.CvFix

theorem invB_acq_waitEnq {s : State} (hi : InvB s) (ha : InvA s) (t : Tid) (n : Word) (hl : (s.thr t).loc = .spCas)
    (hc : (s.thr t).cont = .waitEnq) :
    InvB (({ s with word := n, holder := some t, queue := s.queue ++ [(s.thr t).r] }).setRec (s.thr t).r
            { s.recs (s.thr t).r with stat := .queued }
          |>.setThr t { s.thr t with old := { spin := false, ne := true }, loc := .wEnq }) := by
  tB_facts hl
  simp only [hc] at b1 b2 b3 b4 b5 b6 b7 a3
  obtain ⟨hst, hown, hmu⟩ := (ha.thr t).prep (by simp [waitPrep, hl, hc])
  have hmine : (s.thr t).mine = [] := (ha.thr t).mine0 (by simp [inWaitN, hl, hc])
  refine invB_one (t := t) (r := (s.thr t).r) hi ha (fun u hu => by simp [hu]) (fun q hq => by simp [hq]) (by simp)
    hi.nobad 
    (by simp) (by simp) (by simp) ?_ (by simp) ?_ (fun u hu ho => absurd (hown.symm.trans ho) (Ne.symm hu)) ?_
  · intro _; simpa using hi.unlQ _ (.inr hst)
  · intro _; simpa using hi.unl1 _ hmu
  · tB_close

theorem invB_wSt1 {s : State} (hi : InvB s) (ha : InvA s) (t : Tid) (r : Rid) (hl : (s.thr t).loc = .wNew)
    (hm : r.isMucv = true) (hst : (s.recs r).stat = .idle) :
    InvB (s.setRec r { s.recs r with waiting := true, owner := t, stat := .prep, pub := false, unl := [], posted := false, lt := .gen }
          |>.setThr t (if (s.thr t).gen then { s.thr t with r := r, loc := .spLd0, cont := .waitEnq, setNE := true }
                       else { s.thr t with r := r, loc := .wMode })) := by
  tB_facts hl
  have hmine : (s.thr t).mine = [] := (ha.thr t).mine0 (by simp [inWaitN, hl])
  by_cases hg : (s.thr t).gen = true <;> simp only [hg, if_true, if_false]
  all_goals
    refine invB_one (t := t) (r := r) hi ha (fun u hu => by simp [hu]) (fun q hq => by simp [hq]) (by simp)
      hi.nobad 
      (by simp) (by simp) (by simp) (by simp) (by simp) (by simp) (fun u hu ho hni => absurd hst hni) ?_
    tB_close

theorem invB_wClr {s : State} (hi : InvB s) (ha : InvA s) (t : Tid) (r : Rid) (hl : (s.thr t).loc = .wClr)
    (hr : r = (s.thr t).r) :
    InvB (s.setRec r { s.recs r with waiting := false }
          |>.setThr t { s.thr t with out := (s.thr t).semOut, loc := .wRel2 }) := by
  subst hr
  tB_facts hl
  have hst := (ha.thr t).selfO (.inr (.inr hl))
  have hown := a3.1
  have hmine : (s.thr t).mine = [] := (ha.thr t).mine0 (by simp [inWaitN, hl])
  refine invB_one (t := t) (r := (s.thr t).r) hi ha (fun u hu => by simp [hu]) (fun q hq => by simp [hq]) (by simp)
    hi.nobad 
    (by simp [hst]) (by simp [hst]) (by simp [hst]) (by simp [hst]) ?_ ?_
    (fun u hu ho => absurd (hown.symm.trans ho) (Ne.symm hu)) ?_
  · intro _ hm; simpa using hi.unlS _ hst hm
  · intro hm; simpa using hi.unl1 _ hm
  · tB_close

theorem invB_wRmCasOk {s : State} (hi : InvB s) (ha : InvA s) (t : Tid) (r : Rid) (new : Nat)
    (hl : (s.thr t).loc = .wRmCas) (hr : r = (s.thr t).r) :
    InvB (s.setRec r { s.recs r with rc := new } |>.setThr t { s.thr t with loc := .wClr }) := by
  subst hr
  tB_facts hl
  have hown := a3.1
  have hmine : (s.thr t).mine = [] := (ha.thr t).mine0 (by simp [inWaitN, hl])
  refine invB_one (t := t) (r := (s.thr t).r) hi ha (fun u hu => by simp [hu]) (fun q hq => by simp [hq]) (by simp)
    hi.nobad 
    (by simpa using hi.lWait _) (by simpa using hi.wokenW _) (by simpa using hi.xferM _) (by simpa using hi.unlQ _)
    (by simpa using hi.unlS _) (by simpa using hi.unl1 _)
    (fun u hu ho => absurd (hown.symm.trans ho) (Ne.symm hu)) ?_
  tB_close

theorem invB_wHeadExit {s : State} (hi : InvB s) (ha : InvA s) (t : Tid) (r : Rid)
    (hl : (s.thr t).loc = .wHead) (hr : r = (s.thr t).r) (hw : (s.recs r).waiting = false) :
    (s.recs r).stat.registered = false ∧
    InvB ({ s with bad := s.bad || (s.recs r).stat.registered }.setRec r { s.recs r with stat := .idle }
          |>.setThr t { s.thr t with loc := .wExit, xferd := decide ((s.recs r).stat = RStat.xfer), exitUnl := (s.recs r).unl }) := by
  subst hr
  tB_facts hl
  have hown := a3.1
  have hmu := a3.2.1
  have hmine : (s.thr t).mine = [] := (ha.thr t).mine0 (by simp [inWaitN, hl])
  have hreg : (s.recs (s.thr t).r).stat.registered = false := by
    cases hst : (s.recs (s.thr t).r).stat <;> simp [RStat.registered]
    · have := ha.pWait _ hst; rw [hw] at this; cases this
    · have := ha.qWait _ hst; rw [hw] at this; cases this
    · rename_i u; have := hi.lWait _ u hst; rw [hw] at this; cases this
  refine ⟨hreg, ?_⟩
  refine invB_one (t := t) (r := (s.thr t).r) hi ha (fun u hu => by simp [hu]) (fun q hq => by simp [hq]) (by simp)
    (by simp [hreg, hi.nobad]) 
    (by simp) (by simp) (by simp) (by simp) (by simp) ?_
    (fun u hu ho => absurd (hown.symm.trans ho) (Ne.symm hu)) ?_
  · intro hm; simpa using hi.unl1 _ hm
  · constructor <;> simp [savedLoc, waitLive, waitPrep, Loc.afterLoop, hmine] <;> (try simp_all)
    intro ho
    have := b7 ho
    exact hi.unlS _ (by simpa using this) hmu

theorem invB_wCmpEq {s : State} (hi : InvB s) (ha : InvA s) (t : Tid) (r : Rid) (obs : Nat)
    (hl : (s.thr t).loc = .wCmp) (hr : r = (s.thr t).r) (ho : obs = (s.recs r).rc) (he : obs = (s.thr t).saved) :
    (s.recs r).stat = .queued ∧
    InvB ({ s with queue := s.queue.erase r, bad := s.bad || decide ((s.recs r).stat ≠ RStat.queued) }.setRec r
            { s.recs r with stat := .selfOut, unl := (s.recs r).unl ++ [Unl.self] }
          |>.setThr t { s.thr t with loc := .wRmLd, old := if (s.queue.erase r).isEmpty then { (s.thr t).old with ne := false } else (s.thr t).old }) := by
  subst hr
  have hrc : (s.recs (s.thr t).r).rc = (s.thr t).saved := by rw [← ho, he]
  have hbt := hi.thr t
  tB_facts hl
  have hown := a3.1
  have hmu := a3.2.1
  have hmine : (s.thr t).mine = [] := (ha.thr t).mine0 (by simp [inWaitN, hl])
  have hholds : (s.thr t).loc.holds = true := by simp [hl, Loc.holds]
  have hq : (s.recs (s.thr t).r).stat = .queued := by
    cases hst : (s.recs (s.thr t).r).stat with
    | queued => rfl
    | idle => rw [hst] at a3; simp [RStat.live] at a3
    | prep => rw [hst] at a3; simp [RStat.live] at a3
    | xfer => have := b2 (.inl hst); omega
    | woken => have := b2 (.inr hst); omega
    | selfOut => have := b4 hst; simp at this
    | listed u =>
      obtain ⟨c1, c2⟩ := b3 u hst
      by_cases hm : (s.thr t).r ∈ (s.thr u).todo
      · have hloc := (hi.thr u).todoLoc (by intro e; rw [e] at hm; simp at hm)
        have hu : (s.thr u).loc.holds = true := by rcases hloc with h | h <;> simp [h, Loc.holds]
        have := ha.holder_unique hholds hu
        subst this
        rcases hloc with h | h <;> rw [hl] at h <;> cases h
      · have := c2 hm; omega
  refine ⟨hq, ?_⟩
  refine invB_one (t := t) (r := (s.thr t).r) hi ha (fun u hu => by simp [hu]) (fun q hq => by simp [hq]) (by simp)
    (by simp [hq, hi.nobad]) 
    (by simp) (by simp) (by simp) (by simp) ?_ ?_
    (fun u hu ho => absurd (hown.symm.trans ho) (Ne.symm hu)) ?_
  · intro _ _; simp [hi.unlQ _ (.inl hq)]
  · intro _; simp [hi.unlQ _ (.inl hq)]
  · constructor <;> simp [savedLoc, waitLive, waitPrep, Loc.afterLoop, hmine] <;> (try simp_all)

end NsyncVerif.CvFix
