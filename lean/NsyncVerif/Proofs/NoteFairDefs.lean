/-
  Layer `Note`, fair termination (C09 "no such call deadlocks", liveness form; C08 "every thread
  waiting on them is released", liveness form): infinite executions of the Note acceptor, the
  fairness notions, the hypotheses, the FULL statement `C09_fair_termination_full` (proved:
  `C09_fair_termination`, Props/C09Fair.lean) and the statements of its corollaries / first
  versions (`C09_fair_termination_partial_statement`, `C09_fair_termination_flag_full`,
  `C09_fair_termination_leaf_full`), and
  generic facts about `Exec` (every state is reachable, a pc changes only when its thread moves,
  first move after a given time, the use of weak fairness `fair_move`, the well-founded leads-to
  rule `leads` with a lexicographic rank).

  The choice of the enabledness notion is justified in the header of `Props/C09Fair.lean`.
-/
import NsyncVerif.Props.C09
import NsyncVerif.Props.C08Release

set_option linter.unusedSimpArgs false

namespace Note

/-! ### executions, fairness, hypotheses (definitions only) -/

/-- An infinite execution from `s0`; `σ i = none` means that nobody moves at time `i`. -/
structure Exec (s0 : State) where
  ρ : Nat → State
  σ : Nat → Option Event
  start : ρ 0 = s0
  next : ∀ i, match σ i with
    | none => ρ (i + 1) = ρ i
    | some e => step (ρ i) e = .ok (ρ (i + 1))

/-- Thread `t` takes a step at time `j`. -/
def Moves {s0 : State} (x : Exec s0) (t : Tid) (j : Nat) : Prop :=
  ∃ e, x.σ j = some e ∧ e.actor = some t

/-- The mutex a thread is acquiring with a plain `nsync_mu_lock` (`nret nsync_mu_lock` is next). -/
def PC.lockWait : PC → Option NoteId
  | .chd (.waitRet false) _ _ => none
  | .fr (.waitRet false) _ _ _ _ => none
  | pc => pc.wants

/-- The note whose WAIT_FOR_NO_CHILDREN the thread is in with the mutex released
    (`nret nsync_mu_wait` is next, and needs the mutex and the condition). -/
def PC.condWait : PC → Option NoteId
  | .chd (.waitRet false) (f :: _) _ => some f.note
  | .fr (.waitRet false) n _ _ _ => some n
  | _ => none

/-- A sleeper on the semaphore of its waiter record can return: the record has been posted
    (the V of the wake loop of `note_notify_child` was performed — "count non-zero"), or the
    deadline of the sleep has passed. -/
def SemReady (s : State) (t : Tid) : Prop :=
  match s.pc t with
  | .wt (.pdRet d) _ _ r => (s.recs r).posted ≠ 0 ∨ d.leNow s.now = true
  | _ => True

/-- `t` is inside a call and is not blocked: the note mutex it waits for (if any) is free, it is not
    inside a WAIT_FOR_NO_CHILDREN whose condition is false, and it is not asleep on a semaphore
    with count 0 before the deadline of the sleep. -/
def Ready (s : State) (t : Tid) : Prop :=
  s.pc t ≠ .idle ∧ (∀ m, (s.pc t).wants = some m → (s.notes m).lockHolder = none) ∧
    ¬ WaitBlocked s t ∧ SemReady s t

/-- Weak fairness on each thread's next step: a thread that from time `i` on is continuously
    `Ready` moves at some time `j ≥ i`.  For a thread waiting for a note mutex this is the weak
    form "moves if the mutex is continuously free"; while it is held nothing is required. -/
def WeakFair {s0 : State} (x : Exec s0) : Prop :=
  ∀ t i, (∀ j, i ≤ j → Ready (x.ρ j) t) → ∃ j, i ≤ j ∧ Moves x t j

/-- Starvation freedom of the abstract note mutexes (liveness half of assumption A1): a thread
    that waits inside `nsync_mu_lock` for the mutex of `m` for ever while it is free again and
    again acquires it (strong fairness of the acquisition). -/
def LockFair {s0 : State} (x : Exec s0) : Prop :=
  ∀ t m i, (∀ j, i ≤ j → ((x.ρ j).pc t).lockWait = some m) →
    (∀ j, i ≤ j → ∃ j', j ≤ j' ∧ ((x.ρ j').notes m).lockHolder = none) → ∃ j, i ≤ j ∧ Moves x t j

/-- The same for the re-acquisition at the end of WAIT_FOR_NO_CHILDREN (liveness half of
    assumption A2, `nsync_mu_wait`): a thread that stays inside the wait for ever while, again
    and again, the mutex is free and the condition `no_children_or_adopted` holds, returns. -/
def WaitFair {s0 : State} (x : Exec s0) : Prop :=
  ∀ t m i, (∀ j, i ≤ j → ((x.ρ j).pc t).condWait = some m) →
    (∀ j, i ≤ j → ∃ j', j ≤ j' ∧ ((x.ρ j').notes m).lockHolder = none ∧
      ((x.ρ j').notes m).waitDone = true) → ∃ j, i ≤ j ∧ Moves x t j

/-- Only finitely many API calls arrive. -/
def FiniteArrivals {s0 : State} (x : Exec s0) : Prop :=
  ∃ n, ∀ j t a, n ≤ j → x.σ j ≠ some (.call t a)

/-- The clock passes every value. -/
def ClockAdvances {s0 : State} (x : Exec s0) : Prop :=
  ∀ v i, ∃ j, i ≤ j ∧ v ≤ (x.ρ j).now

/-- The semaphore of a waiter record returns 0 (not ETIMEDOUT) only if it was posted (the
    liveness theorems with deadlines need it: the acceptor, assumption A3, accepts `pd_ret 0` at
    any time). -/
def SemSound {s0 : State} (x : Exec s0) : Prop :=
  ∀ j t sem d n wdl r, x.σ j = some (.pdRet t sem false) → (x.ρ j).pc t = .wt (.pdRet d) n wdl r →
    ((x.ρ j).recs r).posted ≠ 0

def DK.waitDl : DK → Option Dl
  | .ready1 wdl | .ready2 _ wdl | .dequeue _ wdl => some wdl
  | _ => none

def NK.waitDl : NK → Option Dl
  | .ofDeadline k => k.waitDl
  | .ofApi => none

/-- The call in progress is `nsync_note_wait (n, wdl)`. -/
def PC.waitOn : PC → Option (NoteId × Dl)
  | .wt0 _ n wdl | .wt _ n wdl _ => some (n, wdl)
  | .dl _ n _ k => k.waitDl.map (fun d => (n, d))
  | .nfy _ n _ k => k.waitDl.map (fun d => (n, d))
  | .chd _ _ top => top.k.waitDl.map (fun d => (top.n, d))
  | _ => none

/-- The thread is working on a child of the note it notifies / frees: inside the loop over a
    non-empty children list, inside a recursive activation of `note_notify_child`, or inside a
    WAIT_FOR_NO_CHILDREN that released the mutex (the list was not empty). -/
def PC.inChildLoop : PC → Bool
  | .chd pos stk _ =>
    (match pos with
     | .lockChild _ | .lockChildRet _ | .unlockChild _ | .unlockChildRet _ | .waitRet false => true
     | _ => false) || decide (2 ≤ stk.length)
  | .fr pos _ _ _ _ =>
    (match pos with
     | .lockChild | .lockChildRet | .unlockChild | .unlockChildRet | .waitRet false => true
     | _ => false)
  | _ => false

/-- No call ever works on a child: every `nsync_note_notify` (also the implicit one of an expired
    note) and every `nsync_note_free` finds the children list of its note empty — they are calls
    on LEAF notes.  (`nsync_note_new` may link children; they are leaves themselves.) -/
def LeafCalls {s0 : State} (x : Exec s0) : Prop :=
  ∀ j t, ((x.ρ j).pc t).inChildLoop = false

/-- What makes a `nsync_note_wait` in progress at time `i` return: the note is notified at some
    time, or the clock advances past a finite deadline (of the wait or of the note) and the
    semaphore does not wake the sleeper spuriously for ever. -/
def WaitEnds {s0 : State} (x : Exec s0) (t : Tid) (i : Nat) : Prop :=
  ∀ n wdl, ((x.ρ i).pc t).waitOn = some (n, wdl) →
    (∃ j, (x.ρ j).Notified n) ∨
    (ClockAdvances x ∧ SemSound x ∧ (wdl ≠ none ∨ ((x.ρ i).notes n).expiry ≠ none))

/-- The same, the flag of the note only (the case proved for leaf calls). -/
def WaitEndsFlag {s0 : State} (x : Exec s0) (t : Tid) (i : Nat) : Prop :=
  ∀ n wdl, ((x.ρ i).pc t).waitOn = some (n, wdl) → ∃ j, ((x.ρ j).notes n).notified = true

/-- FULL statement (proved: `C09_fair_termination`, Props/C09Fair.lean): in every weakly fair execution
    from a reachable state with starvation-free note mutexes and finitely many arrivals, every call
    of nsync_note_new / _notify / _is_notified / _expiry / _free returns, and so does every
    nsync_note_wait whose note is notified at some time or whose deadline the clock passes. -/
def C09_fair_termination_full : Prop :=
  ∀ (s0 : State) (x : Exec s0), Reachable s0 →
    WeakFair x → LockFair x → WaitFair x → FiniteArrivals x →
    ∀ t i, (x.ρ i).pc t ≠ .idle → WaitEnds x t i → ∃ j, i ≤ j ∧ (x.ρ j).pc t = .idle

/-- The part that is proved (`C09_fair_termination_leaf`, Props/C09Fair.lean): the same under the
    additional hypothesis `LeafCalls` (no call works on a child note), for a `nsync_note_wait`
    only when the FLAG of its note is set at some time. -/
def C09_fair_termination_leaf_full : Prop :=
  ∀ (s0 : State) (x : Exec s0), Reachable s0 →
    WeakFair x → LockFair x → FiniteArrivals x → LeafCalls x →
    ∀ t i, (x.ρ i).pc t ≠ .idle → WaitEndsFlag x t i → ∃ j, i ≤ j ∧ (x.ρ j).pc t = .idle

/-- The part of `WaitEnds` that is proved: the FLAG of the note is set at some time, or the clock
    passes the finite deadline OF THE WAIT (not: of the note) and the semaphore is sound. -/
def WaitEndsPartial {s0 : State} (x : Exec s0) (t : Tid) (i : Nat) : Prop :=
  ∀ n wdl, ((x.ρ i).pc t).waitOn = some (n, wdl) →
    (∃ j, ((x.ρ j).notes n).notified = true) ∨ (ClockAdvances x ∧ SemSound x ∧ wdl ≠ none)

/-- The statement that IS proved for all calls (`C09_fair_termination_partial`,
    Props/C09Fair.lean): the full statement with `WaitEndsPartial` in the place of `WaitEnds`. -/
def C09_fair_termination_partial_statement : Prop :=
  ∀ (s0 : State) (x : Exec s0), Reachable s0 →
    WeakFair x → LockFair x → WaitFair x → FiniteArrivals x →
    ∀ t i, (x.ρ i).pc t ≠ .idle → WaitEndsPartial x t i → ∃ j, i ≤ j ∧ (x.ρ j).pc t = .idle

/-- … and its special case with `WaitEndsFlag` (`C09_fair_termination_flag`): a
    `nsync_note_wait` returns when the FLAG of its note is set at some time. -/
def C09_fair_termination_flag_full : Prop :=
  ∀ (s0 : State) (x : Exec s0), Reachable s0 →
    WeakFair x → LockFair x → WaitFair x → FiniteArrivals x →
    ∀ t i, (x.ρ i).pc t ≠ .idle → WaitEndsFlag x t i → ∃ j, i ≤ j ∧ (x.ρ j).pc t = .idle

/-! ### generic facts -/

variable {s0 : State}

theorem Exec.next_none (x : Exec s0) {i : Nat} (h : x.σ i = none) : x.ρ (i + 1) = x.ρ i := by
  have := x.next i; rw [h] at this; exact this

theorem Exec.next_some (x : Exec s0) {i : Nat} {e : Event} (h : x.σ i = some e) :
    step (x.ρ i) e = .ok (x.ρ (i + 1)) := by
  have := x.next i; rw [h] at this; exact this

theorem Exec.reach (x : Exec s0) (hr : Reachable s0) : ∀ i, Reachable (x.ρ i) := by
  intro i
  induction i with
  | zero => rw [x.start]; exact hr
  | succ i ih =>
    cases h : x.σ i with
    | none => rw [x.next_none h]; exact ih
    | some e => exact ih.next (x.next_some h)

theorem not_moves_pc (x : Exec s0) {t : Tid} {j : Nat} (h : ¬ Moves x t j) :
    (x.ρ (j + 1)).pc t = (x.ρ j).pc t := by
  cases hs : x.σ j with
  | none => rw [x.next_none hs]
  | some e =>
    have hne : e.actor ≠ some t := fun ht => h ⟨e, hs, ht⟩
    exact step_pc_other (x.next_some hs) t hne

theorem pc_until (x : Exec s0) {t : Tid} {i : Nat} : ∀ d,
    (∀ j, i ≤ j → j < i + d → ¬ Moves x t j) → (x.ρ (i + d)).pc t = (x.ρ i).pc t := by
  intro d
  induction d with
  | zero => intro _; rfl
  | succ d ih =>
    intro h
    have a := ih (fun j h1 h2 => h j h1 (by omega))
    have a' := not_moves_pc x (h (i + d) (by omega) (by omega))
    rw [← a, ← a']; rfl

theorem pc_between (x : Exec s0) {t : Tid} {i j : Nat} (hij : i ≤ j)
    (h : ∀ j', i ≤ j' → j' < j → ¬ Moves x t j') : (x.ρ j).pc t = (x.ρ i).pc t := by
  obtain ⟨d, rfl⟩ : ∃ d, j = i + d := ⟨j - i, by omega⟩
  exact pc_until x d h

/-- The first move of `t` at or after time `i`. -/
theorem first_move (x : Exec s0) {t : Tid} : ∀ d i, Moves x t (i + d) →
    ∃ j, i ≤ j ∧ Moves x t j ∧ ∀ j', i ≤ j' → j' < j → ¬ Moves x t j' := by
  intro d
  induction d with
  | zero => intro i h; exact ⟨i, Nat.le_refl _, h, fun j' h1 h2 => by omega⟩
  | succ d ih =>
    intro i h
    by_cases hi : Moves x t i
    · exact ⟨i, Nat.le_refl _, hi, fun j' h1 h2 => by omega⟩
    · obtain ⟨j, h1, h2, h3⟩ := ih (i + 1) (by rw [show i + 1 + d = i + (d + 1) by omega]; exact h)
      refine ⟨j, by omega, h2, fun j' h4 h5 => ?_⟩
      by_cases hj : j' = i
      · subst hj; exact hi
      · exact h3 j' (by omega) h5

theorem first_move' (x : Exec s0) {t : Tid} {i : Nat} (h : ∃ j, i ≤ j ∧ Moves x t j) :
    ∃ j, i ≤ j ∧ Moves x t j ∧ ∀ j', i ≤ j' → j' < j → ¬ Moves x t j' := by
  obtain ⟨j, hij, hm⟩ := h
  obtain ⟨d, rfl⟩ : ∃ d, j = i + d := ⟨j - i, by omega⟩
  exact first_move x d i hm

/-- Weak fairness enters the proof only here: a thread that stays `Ready` as long as it does not
    move, moves. -/
theorem fair_move (x : Exec s0) (hf : WeakFair x) {t : Tid} {i : Nat}
    (h : ∀ j, i ≤ j → (∀ j', i ≤ j' → j' < j → ¬ Moves x t j') → Ready (x.ρ j) t) :
    ∃ j, i ≤ j ∧ Moves x t j := by
  apply Classical.byContradiction
  intro hn
  have hnm : ∀ j, i ≤ j → ¬ Moves x t j := fun j hj hm => hn ⟨j, hj, hm⟩
  obtain ⟨j, hj, hm⟩ := hf t i (fun j hj => h j hj (fun j' h1 _ => hnm j' h1))
  exact hnm j hj hm

/-! ### the leads-to rule (lexicographic rank) -/

/-- Lexicographic order on pairs of naturals. -/
def LexLt (a b : Nat × Nat) : Prop := a.1 < b.1 ∨ (a.1 = b.1 ∧ a.2 < b.2)

theorem lexLt_wf : WellFounded LexLt := by
  have : ∀ a b : Nat, Acc LexLt (a, b) := by
    intro a
    induction a using Nat.strongRecOn with
    | _ a iha =>
      intro b
      induction b using Nat.strongRecOn with
      | _ b ihb =>
        constructor
        rintro ⟨c, d⟩ h
        rcases h with h | ⟨h1, h2⟩
        · exact iha c h d
        · simp only at h1 h2; subst h1; exact ihb d h2
  exact ⟨fun ⟨a, b⟩ => this a b⟩

theorem stay_until (x : Exec s0) {t : Tid} {R G : Nat → Prop} {rk : Nat → Nat × Nat}
    (hstay : ∀ j, R j → ¬ Moves x t j → G (j + 1) ∨ (R (j + 1) ∧ rk (j + 1) = rk j)) {i : Nat} :
    ∀ d, (∀ j, i ≤ j → j < i + d → ¬ Moves x t j) → R i →
      (∃ j, i ≤ j ∧ G j) ∨ (R (i + d) ∧ rk (i + d) = rk i) := by
  intro d
  induction d with
  | zero => intro _ h; exact .inr ⟨h, rfl⟩
  | succ d ih =>
    intro h hR
    rcases ih (fun j h1 h2 => h j h1 (by omega)) hR with hg | ⟨a, b⟩
    · exact .inl hg
    · rcases hstay (i + d) a (h (i + d) (by omega) (by omega)) with hg | ⟨a', b'⟩
      · exact .inl ⟨i + d + 1, by omega, hg⟩
      · exact .inr ⟨a', by rw [show i + (d + 1) = i + d + 1 by omega, b', b]⟩

/-- Leads-to by a local rank: in the class of states `R` (indexed by time) thread `t` always
    moves again, steps of the others keep `R` and the rank, every step of `t` keeps `R` and
    decreases the rank — unless the goal `G` is reached.  Then `G` is reached. -/
theorem leads (x : Exec s0) (t : Tid) (R G : Nat → Prop) (rk : Nat → Nat × Nat)
    (hstay : ∀ j, R j → ¬ Moves x t j → G (j + 1) ∨ (R (j + 1) ∧ rk (j + 1) = rk j))
    (hmove : ∀ j, R j → Moves x t j → G (j + 1) ∨ (R (j + 1) ∧ LexLt (rk (j + 1)) (rk j)))
    (hlive : ∀ j, R j → ∃ j', j ≤ j' ∧ Moves x t j') :
    ∀ i, R i → ∃ j, i ≤ j ∧ G j := by
  have key : ∀ p : Nat × Nat, ∀ i, rk i = p → R i → ∃ j, i ≤ j ∧ G j := by
    intro p
    induction p using lexLt_wf.induction with
    | _ p ih =>
      intro i hp hR
      obtain ⟨j', h1, h2, h3⟩ := first_move' x (hlive i hR)
      obtain ⟨d, rfl⟩ : ∃ d, j' = i + d := ⟨j' - i, by omega⟩
      rcases stay_until x hstay d h3 hR with hg | ⟨a, b⟩
      · exact hg
      · rcases hmove (i + d) a h2 with hg | ⟨a', c⟩
        · exact ⟨i + d + 1, by omega, hg⟩
        · obtain ⟨j, hj, hG⟩ := ih (rk (i + d + 1)) (by rw [← hp, ← b]; exact c) (i + d + 1) rfl a'
          exact ⟨j, by omega, hG⟩
  intro i hR
  exact key (rk i) i rfl hR

end Note
