/-
  Layer `Note`, "no such call deadlocks" in liveness form, for ALL calls (no restriction to leaf
  calls, any forest, notify / free / new on related notes): a weakly fair execution cannot come to
  a standstill with a call blocked on a note mutex or inside a WAIT_FOR_NO_CHILDREN.  If from time
  `T` on no thread moves, every thread is outside any call, or asleep in `nsync_note_wait` on a
  semaphore that is not posted and before the deadline of the sleep.

  Proof: in a standstill the state is constant (except for the clock); weak fairness makes every
  thread not `Ready` at some time, i.e. idle, waiting for a mutex that is held, inside a wait whose
  condition is false, or asleep; `C09_no_stuck_state` (Proofs/NoteFixP7.lean) excludes the second
  and the third for every thread.
-/
import NsyncVerif.Proofs.NoteFairDefs

set_option linter.unusedSimpArgs false

namespace Note

variable {s0 : State}

/-- No thread moves from time `T` on (the clock may tick). -/
def Frozen (x : Exec s0) (T : Nat) : Prop := ∀ j t, T ≤ j → ¬ Moves x t j

/-- FULL statement (proved: `C09_fair_no_deadlock`, Props/C09Fair.lean). -/
def C09_fair_no_deadlock_full : Prop :=
  ∀ (s0 : State) (x : Exec s0), Reachable s0 → WeakFair x → ∀ T, Frozen x T →
    ∀ t, (x.ρ T).pc t = .idle ∨
      (Asleep (x.ρ T) t ∧ ¬ LockBlocked (x.ρ T) t ∧ ¬ WaitBlocked (x.ρ T) t ∧
        ∃ j, T ≤ j ∧ ¬ SemReady (x.ρ j) t)

theorem step_no_actor {s s' : State} {e : Event} (hs : step s e = .ok s') (ha : e.actor = none) :
    s'.pc = s.pc ∧ s'.notes = s.notes ∧ s'.recs = s.recs := by
  cases e <;> simp only [Event.actor, reduceCtorEq] at ha
  · simp only [step, need_ok] at hs
    obtain ⟨_, hs⟩ := hs
    cases hs
    exact ⟨rfl, rfl, rfl⟩
  · simp only [step] at hs
    cases hs
    exact ⟨rfl, rfl, rfl⟩

theorem frozen_same (x : Exec s0) {T : Nat} (hf : Frozen x T) : ∀ d,
    (x.ρ (T + d)).pc = (x.ρ T).pc ∧ (x.ρ (T + d)).notes = (x.ρ T).notes ∧
    (x.ρ (T + d)).recs = (x.ρ T).recs := by
  intro d
  induction d with
  | zero => exact ⟨rfl, rfl, rfl⟩
  | succ d ih =>
    cases hs : x.σ (T + d) with
    | none => rw [show T + (d + 1) = T + d + 1 by omega, x.next_none hs]; exact ih
    | some e =>
      have ha : e.actor = none := by
        cases h : e.actor with
        | none => rfl
        | some t => exact absurd ⟨e, hs, h⟩ (hf (T + d) t (by omega))
      obtain ⟨h1, h2, h3⟩ := step_no_actor (x.next_some hs) ha
      exact ⟨h1.trans ih.1, h2.trans ih.2.1, h3.trans ih.2.2⟩

/-- In a standstill every thread is idle, blocked on a mutex, blocked in a child wait, or asleep
    and not ready. -/
theorem frozen_cases (x : Exec s0) (hr : Reachable s0) (hw : WeakFair x) {T : Nat}
    (hf : Frozen x T) (t : Tid) :
    (x.ρ T).pc t = .idle ∨ LockBlocked (x.ρ T) t ∨ WaitBlocked (x.ρ T) t ∨
      (Asleep (x.ρ T) t ∧ ∃ j, T ≤ j ∧ ¬ SemReady (x.ρ j) t) := by
  by_cases hid : (x.ρ T).pc t = .idle
  · exact Or.inl hid
  · right
    have hnr : ∃ j, T ≤ j ∧ ¬ Ready (x.ρ j) t := by
      apply Classical.byContradiction
      intro hn
      obtain ⟨j, hj, hm⟩ := hw t T (fun j hj => Classical.byContradiction (fun h => hn ⟨j, hj, h⟩))
      exact hf j t hj hm
    obtain ⟨j, hj, hnr⟩ := hnr
    obtain ⟨d, rfl⟩ : ∃ d, j = T + d := ⟨j - T, by omega⟩
    obtain ⟨hpc, hnotes, _⟩ := frozen_same x hf d
    by_cases hB : ∀ m, ((x.ρ T).pc t).wants = some m → ((x.ρ T).notes m).lockHolder = none
    · by_cases hC : WaitBlocked (x.ρ T) t
      · exact Or.inr (Or.inl hC)
      · right; right
        have hD : ¬ SemReady (x.ρ (T + d)) t := by
          intro hD
          apply hnr
          refine ⟨by rw [hpc]; exact hid, by rw [hpc, hnotes]; exact hB, ?_, hD⟩
          unfold WaitBlocked at hC ⊢
          rw [hpc, hnotes]; exact hC
        refine ⟨?_, T + d, hj, hD⟩
        unfold SemReady at hD
        split at hD
        · next dd n wdl r h => rw [hpc] at h; exact ⟨dd, n, wdl, r, h⟩
        · exact absurd trivial hD
    · left
      have : ∃ m, ((x.ρ T).pc t).wants = some m ∧ ((x.ρ T).notes m).lockHolder ≠ none := by
        apply Classical.byContradiction
        intro hn
        exact hB (fun m hm => Classical.byContradiction (fun h => hn ⟨m, hm, h⟩))
      obtain ⟨m, hm, hh⟩ := this
      cases hu : ((x.ρ T).notes m).lockHolder with
      | none => exact absurd hu hh
      | some u =>
        refine ⟨m, u, hm, hu, ?_⟩
        rintro rfl
        exact (lock_order (x.reach hr T) hm hu).irrefl

/-- NO DEADLOCK, liveness form, all calls. -/
theorem fair_no_deadlock (x : Exec s0) (hr : Reachable s0) (hw : WeakFair x) {T : Nat}
    (hf : Frozen x T) (t : Tid) :
    (x.ρ T).pc t = .idle ∨
      (Asleep (x.ρ T) t ∧ ¬ LockBlocked (x.ρ T) t ∧ ¬ WaitBlocked (x.ρ T) t ∧
        ∃ j, T ≤ j ∧ ¬ SemReady (x.ρ j) t) := by
  have hall : AllBlocked (x.ρ T) := by
    intro u
    rcases frozen_cases x hr hw hf u with h | h | h | ⟨h, _⟩
    · exact Or.inl h
    · exact Or.inr (Or.inl h)
    · exact Or.inr (Or.inr (Or.inl h))
    · exact Or.inr (Or.inr (Or.inr h))
  have hns := no_stuck_state (x.reach hr T) hall t
  rcases frozen_cases x hr hw hf t with h | h | h | ⟨h, h'⟩
  · exact Or.inl h
  · exact absurd h hns.1
  · exact absurd h hns.2
  · exact Or.inr ⟨h, hns.1, hns.2, h'⟩

end Note
