/-
  Layer `CvFix` (cv.c with the repair of F3; adapted from the `Cv` file of the same name): the sequence-number invariant behind `C04_broadcast_full` ("every instance whose
  enqueue was published before the broadcast's first load of the cv word is unlinked by the time
  the broadcast returns").
-/
import NsyncVerif.Proofs.CvFixFacts

namespace NsyncVerif.CvFix

/-- Program points of a broadcast after it has either seen CV_NON_EMPTY clear or emptied the queue. -/
def bcastDone (x : Thr) : Bool :=
  x.bcast && (match x.loc with
    | .sRcLd | .sRcCas | .sRel | .wwMuLd | .wwMuCas | .wwRelLd | .wwRelCas | .wwRelLd2 | .wwStore | .wwV
    | .kRet => true
    | _ => false)

structure InvD (s : State) : Prop where
  seq0 : ∀ t, (s.thr t).seq0 ≤ s.seq
  pubSeq : ∀ r, (s.recs r).pub = true → (s.recs r).enqSeq < s.seq
  /-- while somebody holds the spinlock with CV_NON_EMPTY clear, nothing in the queue is published -/
  held : ∀ h, s.holder = some h → s.word.ne = false → ∀ r, r ∈ s.queue → (s.recs r).pub = false
  prepPub : ∀ r, (s.recs r).stat = .prep → (s.recs r).pub = false
  done : ∀ t, bcastDone (s.thr t) = true → ∀ r, r ∈ s.queue → (s.recs r).pub = true →
    (s.thr t).seq0 ≤ (s.recs r).enqSeq

theorem invD_init : InvD init := by
  constructor <;> simp [init, bcastDone]

/-- Transitions that do not publish, do not take the spinlock, enqueue only unpublished records,
    and in which no broadcast newly reaches its "done" region. -/
theorem invD_frame {s s' : State} (hi : InvD s) (hseq : s'.seq = s.seq)
    (hhold : (s'.holder = s.holder ∧ s'.word.ne = s.word.ne) ∨ s'.holder = none)
    (hq : ∀ r, r ∈ s'.queue → r ∈ s.queue ∨ (s'.recs r).pub = false)
    (hrec : ∀ q, ((s'.recs q).pub = (s.recs q).pub ∧ (s'.recs q).enqSeq = (s.recs q).enqSeq ∧
      ((s'.recs q).stat = .prep → (s.recs q).stat = .prep)) ∨ (s'.recs q).pub = false)
    (hthr : ∀ u, (s'.thr u).seq0 ≤ (s.thr u).seq0 ∧ (bcastDone (s'.thr u) = true → bcastDone (s.thr u) = true)) :
    InvD s' := by
  obtain ⟨d1, d2, d3, d4, d5⟩ := hi
  constructor
  · intro t; rw [hseq]; exact Nat.le_trans (hthr t).1 (d1 t)
  · intro r hp
    rcases hrec r with ⟨e1, e2, _⟩ | e
    · rw [e2, hseq]; rw [e1] at hp; exact d2 r hp
    · rw [e] at hp; cases hp
  · intro h e1 e2 r hr
    rcases hhold with ⟨h1, h2⟩ | h1
    · rw [h1] at e1; rw [h2] at e2
      rcases hq r hr with hm | hp
      · rcases hrec r with ⟨c1, _, _⟩ | c
        · rw [c1]; exact d3 h e1 e2 r hm
        · exact c
      · exact hp
    · rw [h1] at e1; cases e1
  · intro r e
    rcases hrec r with ⟨c1, _, c3⟩ | c
    · rw [c1]; exact d4 r (c3 e)
    · exact c
  · intro t e r hr hp
    rcases hq r hr with hm | hp'
    · rcases hrec r with ⟨c1, c2, _⟩ | c
      · rw [c2]; rw [c1] at hp
        exact Nat.le_trans (hthr t).1 (d5 t ((hthr t).2 e) r hm hp)
      · rw [c] at hp; cases hp
    · rw [hp'] at hp; cases hp

/-- Frame condition of a local transition (all but the first load of signal/broadcast). -/
theorem ltr_done {s : State} {t : Tid} {e : Event} {x' : Thr} (h : LTr s t e x')
    (hne : ∀ site obs, e ≠ .wordLd t site obs ∨ (s.thr t).loc ≠ .sLd) :
    x'.seq0 ≤ (s.thr t).seq0 ∧ (bcastDone x' = true → bcastDone (s.thr t) = true) := by
  cases h with
  | sigLd site obs hl hs ho => exact absurd hl (by have := hne site obs; simpa using this)
  | spinLd site obs hl ho =>
    rcases hl with ⟨_, hl⟩ | ⟨_, hl⟩ <;> split <;> simp [bcastDone, hl]
  | spinLdN obs hl ho => split <;> simp [bcastDone, hl]
  | wHeadStay r obs hl hr ho hz =>
    split
    · by_cases hn : (s.thr t).note = true <;> simp only [hn, if_true, if_false] <;> simp [bcastDone, hl]
    · simp [bcastDone, hl]
  | wChk y r obs hy hl hr ho hso =>
    split <;> cases hy <;> simp_all [bcastDone]
  | wTail y r obs hy hl hr ho => cases hy <;> simp_all [bcastDone]
  | wChk2 r obs hl hr ho => by_cases hz : obs = 0 <;> simp only [hz, if_true, if_false] <;> simp [bcastDone, hl]
  | retWait res hl hr => rcases hl with hl | hl <;> simp [bcastDone, hl, Thr.fresh]
  | wwLd obs f rest hl hlist =>
    by_cases hc : wantTransfer (s.recs f).lt obs (s.thr t).list.length (s.thr t).allReaders = true <;>
      simp only [hc, if_true, if_false] <;> simp [bcastDone, hl]
  | wwRelLd site obs hl => rcases hl with ⟨_, hl⟩ | ⟨_, hl⟩ <;> simp [bcastDone, hl]
  | wwRelCasOk exp new obs hl =>
    by_cases hz : (s.thr t).list.isEmpty = true <;> simp only [hz, if_true, if_false] <;> simp [bcastDone, hl]
  | noteSeen hl => rcases hl with hl | hl | hl <;> simp [bcastDone, hl]
  | dbgLd obs hl ho => split <;> simp [bcastDone, hl]
  | _ => simp_all [bcastDone, Thr.fresh]

end NsyncVerif.CvFix
