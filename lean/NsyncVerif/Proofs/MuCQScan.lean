import NsyncVerif.Proofs.MuCQ
/-
  MuC: the plain code of the scan permutes queue ++ private lists ++ wake list.
-/
namespace NsyncVerif.MuC

theorem groupTail_append (wr : Wid → WRec) (k : Wid) (rest : List Wid) :
    (groupTail wr k rest).1 ++ (groupTail wr k rest).2 = rest := by
  induction rest generalizing k with
  | nil => simp [groupTail]
  | cons n rest ih =>
    simp only [groupTail]
    split
    · simp [ih n]
    · simp

theorem skipPast_append (wr : Wid → WRec) (passed : List Wid) (k : Wid) (rest : List Wid) :
    (skipPast wr passed k rest).1 ++ (skipPast wr passed k rest).2 = passed ++ k :: rest := by
  have hg := groupTail_append wr k rest
  simp only [skipPast]
  split <;> split <;> simp [List.append_assoc, hg]

/-- What `scanGo` started with locals `sc` on the remaining list `l` returns, in terms of the lists. -/
def ScanRes.goodL (wr : Wid → WRec) (sc : Scan) (l : List Wid) : ScanRes → Prop
  | .eval k sc' => sc'.done = sc.done ∧ sc'.wake = sc.wake ∧ sc'.passed ++ sc'.todo = sc.passed ++ l ∧
      (∃ rest, sc'.todo = k :: rest) ∧ (wr k).cond.isSome = true
  | .remove k sc' => sc'.done = sc.done ∧ sc'.passed ++ k :: sc'.todo = sc.passed ++ l ∧ sc'.wake = sc.wake ++ [k]
  | .iterEnd sc' => sc'.done = sc.done ∧ sc'.wake = sc.wake ∧ sc'.passed ++ sc'.todo = sc.passed ++ l
  | .panic => True

theorem scanGo_lists (wr : Wid → WRec) (l : List Wid) (sc : Scan) : (scanGo wr l sc).goodL wr sc l := by
  induction l generalizing sc with
  | nil => simp [scanGo, ScanRes.goodL]
  | cons k rest ih =>
    unfold scanGo
    split
    · simp [ScanRes.goodL]
    · split
      · split
        · rename_i h _; simp [ScanRes.goodL, h]
        · trivial
      · by_cases hw : sc.wt = none ∨ (wr k).lType = .R
        · simp [wakeOrPass, hw, ScanRes.goodL]
        · simp only [wakeOrPass, hw, if_false]
          have := ih { sc with todo := rest, passed := sc.passed ++ [k], sww := true, saf := false }
          revert this
          cases scanGo wr rest { sc with todo := rest, passed := sc.passed ++ [k], sww := true, saf := false } with
          | eval k' sc' => simp [ScanRes.goodL]
          | remove k' sc' => simp [ScanRes.goodL]
          | iterEnd sc' => simp [ScanRes.goodL]
          | panic => simp [ScanRes.goodL]

theorem pickup_none' {s : State} {sc : Scan} (h : (pickup s sc).2 = none) :
    s.queue = [] ∧ (pickup s sc).1.queue = sc.done ++ (sc.passed ++ sc.todo) := by
  unfold pickup at h ⊢
  dsimp only at h ⊢
  split
  · rename_i hq; exact ⟨hq, rfl⟩
  · rename_i hq; rw [hq] at h; cases h

theorem pickup_some' {s : State} {sc sc2 : Scan} (h : (pickup s sc).2 = some sc2) :
    (pickup s sc).1.queue = [] ∧ sc2.done = sc.done ++ (sc.passed ++ sc.todo) ∧ sc2.passed = [] ∧ sc2.todo = s.queue ∧
      sc2.wake = sc.wake ∧ s.queue ≠ [] := by
  unfold pickup at h ⊢
  dsimp only at h ⊢
  split
  · rename_i hq; rw [hq] at h; cases h
  · rename_i p q hq
    rw [hq] at h
    simp only [Option.some.injEq] at h
    subst h
    simp [hq]

theorem perm_lemA (q d p t w : List Wid) (k : Wid) :
    (q ++ (d ++ (p ++ (t ++ (w ++ [k]))))).Perm (q ++ (d ++ (p ++ (k :: (t ++ w))))) := by
  refine List.Perm.append_left _ (List.Perm.append_left _ (List.Perm.append_left _ ?_))
  rw [← List.append_assoc]
  exact List.perm_append_singleton _ _

theorem perm_lemD (d c e qs w : List Wid) : (d ++ (c ++ (e ++ (qs ++ w)))).Perm (qs ++ (d ++ (c ++ (e ++ w)))) := by
  have : (d ++ c ++ e ++ qs ++ w).Perm (qs ++ (d ++ c ++ e) ++ w) := List.Perm.append_right _ List.perm_append_comm
  simpa [List.append_assoc] using this

theorem scanRun_lists : ∀ (n : Nat) (s : State) (t : Tid) (r : Ret) (sc : Scan) (s' : State),
    scanRun n s t r sc = .ok s' → LnkOnly s s' ∧ (allOf s' t).Perm (s.queue ++ sc.lists ++ sc.wake) := by
  intro n
  induction n with
  | zero => intro s t r sc s' h; simp [scanRun] at h
  | succ n ih =>
    intro s t r sc s' h
    unfold scanRun at h
    have hsp := scanGo_lists s.wr sc.todo sc
    split at h
    · cases h
    · rename_i k sc' heq
      rw [heq] at hsp
      simp only [Except.ok.injEq] at h; subst h
      obtain ⟨h1, h2, h3, _, _⟩ := hsp
      have h3' : ∀ z, sc.passed ++ (sc.todo ++ z) = sc'.passed ++ (sc'.todo ++ z) := by
        intro z; rw [← List.append_assoc, ← h3]; simp
      refine ⟨LnkOnly.refl _, ?_⟩
      simp only [allOf, setPc_queue, setPc_pc, setFn_same, PC.priv, PC.scan?, PC.wakeL, Scan.lists, h1, h2,
        List.append_assoc, h3']
      exact List.Perm.refl _
    · rename_i k sc' heq
      rw [heq] at hsp
      simp only [Except.ok.injEq] at h; subst h
      obtain ⟨h1, h2, h3⟩ := hsp
      refine ⟨lnkOnly_setPc (lnkOnly_removeLinks _ _ _ _) _ _, ?_⟩
      have h2' : ∀ z, sc.passed ++ (sc.todo ++ z) = sc'.passed ++ (k :: (sc'.todo ++ z)) := by
        intro z; rw [← List.append_assoc, ← h2]; simp
      simp only [allOf, setPc_queue, removeLinks_queue, setPc_pc, setFn_same, PC.priv, PC.scan?, PC.wakeL, Scan.lists, h1, h3,
        List.append_assoc, h2']
      exact perm_lemA _ _ _ _ _ _
    · rename_i sc' heq
      rw [heq] at hsp
      obtain ⟨h1, h2, h3⟩ := hsp
      have h3' : ∀ z, sc.passed ++ (sc.todo ++ z) = sc'.passed ++ (sc'.todo ++ z) := by
        intro z; rw [← List.append_assoc, ← h3]; simp
      split at h
      · simp only [Except.ok.injEq] at h; subst h
        refine ⟨LnkOnly.refl _, ?_⟩
        simp only [allOf, setPc_queue, setPc_pc, setFn_same, PC.priv, PC.scan?, PC.wakeL, Scan.lists, h1, h2,
          List.append_assoc, h3']
        exact List.Perm.refl _
      · have hlo := lnkOnly_pickup s sc'
        split at h
        · rename_i s1 hp
          simp only [Except.ok.injEq] at h; subst h
          have e1 : s1 = (pickup s sc').1 := by rw [hp]
          have e2 : (pickup s sc').2 = none := by rw [hp]
          obtain ⟨hq, hq1⟩ := pickup_none' e2
          subst e1
          refine ⟨hlo, ?_⟩
          simp only [allOf, toFin, setPc_queue, setPc_pc, setFn_same, PC.priv, PC.scan?, PC.wakeL, Scan.lists, mkFin, hq1, hq, h1, h2,
            List.append_assoc, List.append_nil, List.nil_append, h3']
          exact List.Perm.refl _
        · rename_i s1 sc2 hp
          have e1 : s1 = (pickup s sc').1 := by rw [hp]
          have e2 : (pickup s sc').2 = some sc2 := by rw [hp]
          obtain ⟨hq1, hd, hpa, htd, hwk, hne⟩ := pickup_some' e2
          subst e1
          have hperm : ((pickup s sc').1.queue ++ sc2.lists ++ sc2.wake).Perm (s.queue ++ sc.lists ++ sc.wake) := by
            simp only [hq1, Scan.lists, hd, hpa, htd, hwk, h1, h2, List.nil_append, List.append_nil, List.append_assoc, h3']
            exact perm_lemD _ _ _ _ _
          split at h
          · simp only [Except.ok.injEq] at h; subst h
            refine ⟨hlo, ?_⟩
            simpa [allOf, PC.priv, PC.scan?, PC.wakeL] using hperm
          · obtain ⟨l2, p2⟩ := ih _ t r sc2 s' h
            exact ⟨hlo.trans l2, p2.trans hperm⟩

theorem afterPickup_lists {s : State} {sc0 : Scan} {t : Tid} {r : Ret} {s' : State}
    (h : afterPickup (pickup s sc0) t r sc0 = .ok s') :
    LnkOnly s s' ∧ (allOf s' t).Perm (s.queue ++ sc0.lists ++ sc0.wake) := by
  have hlo := lnkOnly_pickup s sc0
  unfold afterPickup at h
  split at h
  · rename_i s1 hp
    simp only [Except.ok.injEq] at h; subst h
    have e1 : s1 = (pickup s sc0).1 := by rw [hp]
    have e2 : (pickup s sc0).2 = none := by rw [hp]
    obtain ⟨hq, hq1⟩ := pickup_none' e2
    subst e1
    refine ⟨hlo, ?_⟩
    simp only [allOf, toFin, setPc_queue, setPc_pc, setFn_same, PC.priv, PC.scan?, PC.wakeL, Scan.lists, mkFin, hq1, hq,
      List.append_assoc, List.append_nil, List.nil_append]
    exact List.Perm.refl _
  · rename_i s1 sc2 hp
    have e1 : s1 = (pickup s sc0).1 := by rw [hp]
    have e2 : (pickup s sc0).2 = some sc2 := by rw [hp]
    obtain ⟨hq1, hd, hpa, htd, hwk, hne⟩ := pickup_some' e2
    subst e1
    have hperm : ((pickup s sc0).1.queue ++ sc2.lists ++ sc2.wake).Perm (s.queue ++ sc0.lists ++ sc0.wake) := by
      simp only [hq1, Scan.lists, hd, hpa, htd, hwk, List.nil_append, List.append_nil, List.append_assoc]
      exact perm_lemD _ _ _ _ _
    split at h
    · simp only [Except.ok.injEq] at h; subst h
      refine ⟨hlo, ?_⟩
      simpa [allOf, PC.priv, PC.scan?, PC.wakeL] using hperm
    · obtain ⟨l2, p2⟩ := scanRun_lists _ _ t r sc2 s' h
      exact ⟨hlo.trans l2, p2.trans hperm⟩

theorem afterEval_lists {s : State} {sc : Scan} {t : Tid} {r : Ret} {res : Bool} {s' : State}
    (h : afterEval s t r sc res = .ok s') :
    LnkOnly s s' ∧ (allOf s' t).Perm (s.queue ++ sc.lists ++ sc.wake) := by
  unfold afterEval at h
  split at h
  · cases h
  · rename_i k rest hk
    split at h
    · have hsk := skipPast_append s.wr sc.passed k rest
      obtain ⟨l2, p2⟩ := scanRun_lists 3 s t r { sc with passed := (skipPast s.wr sc.passed k rest).1, todo := (skipPast s.wr sc.passed k rest).2 } s' h
      refine ⟨l2, p2.trans ?_⟩
      simp only [Scan.lists, List.append_assoc]
      rw [← List.append_assoc (skipPast s.wr sc.passed k rest).1, hsk, hk]
      simp
    · by_cases hw : sc.wt = none ∨ (s.wr k).lType = .R
      · simp only [wakeOrPass, hw, if_true, Except.ok.injEq] at h
        subst h
        refine ⟨lnkOnly_setPc (lnkOnly_removeLinks _ _ _ _) _ _, ?_⟩
        simp only [allOf, setPc_queue, removeLinks_queue, setPc_pc, setFn_same, PC.priv, PC.scan?, PC.wakeL, Scan.lists, hk,
          List.append_assoc, List.cons_append]
        exact perm_lemA _ _ _ _ _ _
      · simp only [wakeOrPass, hw, if_false] at h
        obtain ⟨l2, p2⟩ := scanRun_lists 3 s t r _ s' h
        refine ⟨l2, p2.trans ?_⟩
        simp [Scan.lists, hk]

end NsyncVerif.MuC
