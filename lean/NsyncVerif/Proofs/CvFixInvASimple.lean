/-
  Layer `CvFix` (cv.c with the repair of F3; adapted from the `Cv` file of the same name): structural invariant — the transitions that keep every record's status.
-/
import NsyncVerif.Proofs.CvFixInvAFrame

namespace NsyncVerif.CvFix

theorem recSame_self {s : State} (hi : InvA s) (q : Rid) : RecSame (s.recs q) (s.recs q) :=
  RecSame.refl (fun h => h.elim (hi.qWait q) (hi.pWait q))

set_option hygiene false in
/-- `TInvA` of the acting thread after a change that touches neither status nor owner. -/
macro "tinv_same" hl:ident : tactic =>
  `(tactic| (
     have ht := hi.thr t
     obtain ⟨t1, t2, t3, t4, t5, t6, t7, t8, t9, t10, t11, t12⟩ := ht
     simp only [waitLive, waitPrep, inWaitN, Loc.wakePhase, Loc.holds, $hl:ident] at t1 t2 t3 t4 t5 t8 t9 t10 t11 t12
     constructor <;> simp [waitLive, waitPrep, inWaitN, Loc.wakePhase, Loc.holds] <;>
       (try (intro r hr; split)) <;> simp_all))

theorem invA_wClr {s : State} (hi : InvA s) (t : Tid) (r : Rid) (hl : (s.thr t).loc = .wClr) (hr : r = (s.thr t).r) :
    InvA (s.setRec r { s.recs r with waiting := false }
          |>.setThr t { s.thr t with out := (s.thr t).semOut, loc := .wRel2 }) := by
  have hself := (hi.thr t).selfO (.inr (.inr hl))
  refine invA_frame (t := t) hi rfl rfl rfl (fun u hu => by simp [hu]) (by simp [hl, Loc.holds]) (by simp)
    (fun e => by simpa using hi.old t e) ?_ ?_ (by simp)
  · intro q
    by_cases hq : q = r
    · subst hq; subst hr; simp [RecSame, hself]
    · simp [hq]; exact recSame_self hi q
  · subst hr; tinv_same hl

theorem invA_deqSt {s : State} (hi : InvA s) (t : Tid) (r : Rid) (hl : (s.thr t).loc = .nDeqSt) (hr : r = (s.thr t).r) :
    InvA (s.setRec r { s.recs r with waiting := false } |>.setThr t { s.thr t with loc := .nDeqRel }) := by
  have hnq := ((hi.thr t).nDeq (.inl hl)).2
  have hnp := ((hi.thr t).mine _ ((hi.thr t).nDeq (.inl hl)).1).2.2.2
  refine invA_frame (t := t) hi rfl rfl rfl (fun u hu => by simp [hu]) (by simp [hl, Loc.holds]) (by simp)
    (fun e => by simpa using hi.old t e) ?_ ?_ (by simp)
  · intro q
    by_cases hq : q = r
    · subst hq; subst hr; simp [RecSame, hnq, hnp]
    · simp [hq]; exact recSame_self hi q
  · subst hr; tinv_same hl

theorem invA_wRmCasOk {s : State} (hi : InvA s) (t : Tid) (r : Rid) (new : Nat) (hl : (s.thr t).loc = .wRmCas)
    (hr : r = (s.thr t).r) :
    InvA (s.setRec r { s.recs r with rc := new } |>.setThr t { s.thr t with loc := .wClr }) := by
  refine invA_frame (t := t) hi rfl rfl rfl (fun u hu => by simp [hu]) (by simp [hl, Loc.holds]) (by simp)
    (fun e => by simpa using hi.old t e) ?_ ?_ (by simp)
  · intro q
    by_cases hq : q = r
    · subst hq; simp [RecSame]; exact fun h => h.elim (hi.qWait q) (hi.pWait q)
    · simp [hq]; exact recSame_self hi q
  · subst hr; tinv_same hl

theorem invA_sRcCasOk {s : State} (hi : InvA s) (t : Tid) (r : Rid) (new : Nat) (hl : (s.thr t).loc = .sRcCas) :
    InvA (s.setRec r { s.recs r with rc := new }
          |>.setThr t { s.thr t with todo := (s.thr t).todo.tail, firstRc := false,
                                     loc := if (s.thr t).todo.tail.isEmpty then .sRel else .sRcLd }) := by
  have hbq := hi.bq t
  simp only [hl, true_or, or_true, forall_const] at hbq
  by_cases hz : (s.thr t).todo.tail.isEmpty = true <;> simp only [hz, if_true, if_false]
  all_goals
    refine invA_frame (t := t) hi rfl rfl rfl (fun u hu => by simp [hu]) (by simp [hl, Loc.holds]) (by simp)
      (fun e => by simpa using hi.old t e) ?_ ?_ (by simpa using hbq)
    · intro q
      by_cases hq : q = r
      · subst hq; simp [RecSame]; exact fun h => h.elim (hi.qWait q) (hi.pWait q)
      · simp [hq]; exact recSame_self hi q
    · tinv_same hl

theorem invA_muMode {s : State} (hi : InvA s) (t : Tid) (lt : LType) (hl : (s.thr t).loc = .wMode) :
    InvA (s.setRec (s.thr t).r { s.recs (s.thr t).r with lt := lt }
          |>.setThr t { s.thr t with loc := .spLd0, cont := .waitEnq, setNE := true }) := by
  refine invA_frame (t := t) hi rfl rfl rfl (fun u hu => by simp [hu]) (by simp [hl, Loc.holds]) (by simp)
    (fun e => by simpa using hi.old t e) ?_ ?_ (by simp)
  · intro q
    by_cases hq : q = (s.thr t).r
    · subst hq; simp [RecSame]; exact fun h => h.elim (hi.qWait _) (hi.pWait _)
    · simp [hq]; exact recSame_self hi q
  · tinv_same hl

theorem invA_semVWake {s : State} (hi : InvA s) (t : Tid) (r : Rid) (sem' : SemId → Nat) (k : SemId) (p : Bool)
    (hl : (s.thr t).loc = .wwV) :
    InvA ({ s with sem := sem' }.setRec r { s.recs r with posted := p }
          |>.setThr t { s.thr t with cur := none, loc := if (s.thr t).list.isEmpty then .kRet else .wwStore }) := by
  by_cases hz : (s.thr t).list.isEmpty = true <;> simp only [hz, if_true, if_false]
  all_goals
    refine invA_frame (t := t) hi rfl rfl rfl (fun u hu => by simp [hu]) (by simp [hl, Loc.holds]) (by simp)
      (fun e => by simpa using hi.old t e) ?_ ?_ (by simp)
    · intro q
      by_cases hq : q = r
      · subst hq; simp [RecSame]; exact fun h => h.elim (hi.qWait q) (hi.pWait q)
      · simp [hq]; exact recSame_self hi q
    · tinv_same hl

theorem invA_semPdRetOkW {s : State} (hi : InvA s) (t : Tid) (sem' : SemId → Nat) (hl : (s.thr t).loc = .wSemRet) :
    InvA ({ s with sem := sem' }.setThr t { s.thr t with loc := .wTail }) := by
  refine invA_frame (t := t) hi rfl rfl rfl (fun u hu => by simp [hu]) (by simp [hl, Loc.holds]) (by simp)
    (fun e => by simpa using hi.old t e) (fun q => recSame_self hi q) ?_ (by simp)
  tinv_same hl

theorem invA_semPdRetOkC {s : State} (hi : InvA s) (t : Tid) (sem' : SemId → Nat) (hl : (s.thr t).loc = .cWait) :
    InvA ({ s with sem := sem' }.setThr t { s.thr t with cTimed := false, loc := .cPost }) := by
  refine invA_frame (t := t) hi rfl rfl rfl (fun u hu => by simp [hu]) (by simp [hl, Loc.holds]) (by simp)
    (fun e => by simpa using hi.old t e) (fun q => recSame_self hi q) ?_ (by simp)
  tinv_same hl

theorem invA_wInit {s : State} (hi : InvA s) (r : Rid) (hst : (s.recs r).stat = .idle) :
    InvA (s.setRec r { s.recs r with rc := 0, waiting := false }) := by
  refine invA_recs hi rfl rfl rfl rfl ?_
  intro q
  by_cases hq : q = r
  · subst hq; simp [RecSame, hst]
  · simp [hq]; exact recSame_self hi q

theorem invA_nwInit {s : State} (hi : InvA s) (r : Rid) (t : Tid) (e : Nat) (hst : (s.recs r).stat = .idle) :
    InvA (s.setRec r { s.recs r with waiting := false, owner := t, epoch := e }) := by
  refine invA_recs hi rfl rfl rfl rfl ?_
  intro q
  by_cases hq : q = r
  · subst hq; simp [RecSame, hst]
  · simp [hq]; exact recSame_self hi q

theorem invA_fStW {s : State} (hi : InvA s) (r : Rid) (w : Bool) (hf : foreignOk (s.recs r) = true) :
    InvA (s.setRec r { s.recs r with waiting := w }) := by
  refine invA_recs hi rfl rfl rfl rfl ?_
  intro q
  by_cases hq : q = r
  · subst hq
    simp [RecSame]
    intro e; rcases e with e | e <;> (rw [foreignOk, e] at hf; cases hf)
  · simp [hq]; exact recSame_self hi q

theorem invA_fCasOk {s : State} (hi : InvA s) (r : Rid) (new : Nat) :
    InvA (s.setRec r { s.recs r with rc := new }) := by
  refine invA_recs hi rfl rfl rfl rfl ?_
  intro q
  by_cases hq : q = r
  · subst hq; simp [RecSame]; exact fun h => h.elim (hi.qWait q) (hi.pWait q)
  · simp [hq]; exact recSame_self hi q

theorem invA_sem {s : State} (hi : InvA s) (sem' : SemId → Nat) : InvA { s with sem := sem' } :=
  invA_recs hi rfl rfl rfl rfl (fun q => recSame_self hi q)

theorem invA_now {s : State} (hi : InvA s) (ns : Nat) : InvA { s with now := ns } :=
  invA_recs hi rfl rfl rfl rfl (fun q => recSame_self hi q)

end NsyncVerif.CvFix
