/-
  Proofs/WaitNCvLife.lean — program-counter effects needed for the life cycle of a cv record:
  cv_enqueue leaves the "fresh" phase only by the store `waiting := 1`; cv_dequeue's removing store goes to
  `.release true`, and the release store marks the record `deqd`; a signaller's wake list only shrinks, and
  is born with every element marked `unl = waker`.
-/
import NsyncVerif.Proofs.WaitNRecEff2

set_option linter.unusedSimpArgs false
set_option linter.unusedVariables false

namespace WaitN

theorem freshAt_congr {p : PC} {f g : Frame} (h : g.recs = f.recs) : freshAt p g = freshAt p f := by
  unfold freshAt; rw [h]

theorem dflt_frame {s s' : State} {t : Tid} {e : Ev} (h : dflt s t e = .ok s') :
    s'.pc = s.pc ∧ s'.fr = s.fr ∧ s'.post = s.post ∧ s'.rcd = s.rcd := by
  unfold dflt at h; split_ok h <;> (cases h; exact ⟨rfl, rfl, rfl, rfl⟩)

theorem spinAcq_pc {s s' : State} {t : Tid} {c : Nat} {st : SpinSt} {mk : SpinSt → PC} {done : PC} {e : Ev}
    (h : spinAcq s t c st mk done e = .ok s') :
    s'.fr t = s.fr t ∧ s'.rcd = s.rcd ∧ s'.post = s.post ∧ ((∃ x, s'.pc t = mk x) ∨ s'.pc t = done ∨ s'.pc t = s.pc t) := by
  unfold spinAcq at h
  split_ok h
  all_goals first
    | (cases h; exact ⟨rfl, rfl, rfl, .inl ⟨_, if_pos rfl⟩⟩)
    | (cases h; exact ⟨rfl, rfl, rfl, .inr (.inl (if_pos rfl))⟩)
    | (obtain ⟨h1, h2, h3, h4⟩ := dflt_frame h; exact ⟨by rw [h2], h4, h3, .inr (.inr (by rw [h1]))⟩)

/-- cv_enqueue: the record stays fresh until the store that marks it waiting -/
theorem enqCv_fresh {s s' : State} {t : Tid} {e : Ev} {i : Nat} {st : CvEnqSt} {r : Rid}
    (hpc : s.pc t = .wEnqCv i st) (hfr : freshAt (s.pc t) (s.fr t) = some r) (h : stepThr s t e = .ok s') :
    freshAt (s'.pc t) (s'.fr t) = some r ∨ (s'.rcd r).waiting = true := by
  simp only [stepThr, hpc] at h
  rw [hpc] at hfr
  unfold stepEnqCv at h
  split at h
  · rename_i c r' ho hr'
    cases st with
    | spin sp =>
      simp only [freshAt] at hfr
      dsimp only at h
      obtain ⟨h1, _, _, h2⟩ := spinAcq_pc h
      left
      rcases h2 with ⟨x, h2⟩ | h2 | h2
      · rw [h2, h1]; exact hfr
      · rw [h2, h1]; exact hfr
      · rw [h2, h1, hpc]; exact hfr
    | store =>
      simp only [freshAt] at hfr
      rw [hr'] at hfr; cases hfr
      dsimp only at h
      split_ok h
      · cases h; right; simp
      · obtain ⟨h1, h2, _, _⟩ := dflt_frame h
        left; rw [h1, h2, hpc]; exact hr'
    | release => simp [freshAt] at hfr
  · exact (reject_ne_ok h).elim

/-- cv_dequeue: after the removing store the caller is at `.release true` -/
theorem deqCv_store {s s' : State} {t : Tid} {e : Ev} {j : Nat}
    (hpc : s.pc t = .wDeqCv j .store) (h : stepThr s t e = .ok s') :
    s'.pc t = .wDeqCv j (.release true) ∨ s'.rcd = s.rcd := by
  simp only [stepThr, hpc] at h
  unfold stepDeqCv at h
  split at h
  · dsimp only at h
    split_ok h
    · cases h; left; simp
    · cases h; right; rfl
    · exact .inr (dflt_frame h).2.2.2
  · exact (reject_ne_ok h).elim

/-- cv_dequeue: the release store marks the record -/
theorem deqCv_release {s s' : State} {t : Tid} {e : Ev} {j : Nat} {b : Bool} {r : Rid}
    (hpc : s.pc t = .wDeqCv j (.release b)) (hr : (s.fr t).recs[j]? = some r) (h : stepThr s t e = .ok s') :
    s'.pc t = .wDeqCv j (.release b) ∨ (s'.rcd r).deqd = true := by
  simp only [stepThr, hpc] at h
  unfold stepDeqCv at h
  split at h
  · rename_i c r' ho hr'
    rw [hr] at hr'; cases hr'
    dsimp only at h
    split_ok h
    · right
      rw [(shared_deqDone h).2.1]; simp
    · left; rw [(dflt_frame h).1, hpc]
  · exact (reject_ne_ok h).elim

/-- a signaller's wake list is born marked and only shrinks -/
theorem sg_pend {s s' : State} {u : Tid} {e : Ev} {c0 : Nat} {bc : Bool} {st : SgSt} {c : Nat} {l : List Rid} {r : Rid}
    (hpc : s.pc u = .sg c0 bc st) (h : stepThr s u e = .ok s')
    (hw : wk (s'.pc u) = some (c, l)) (hm : r ∈ pend (s'.post u) l) :
    (∃ l0, wk (s.pc u) = some (c, l0) ∧ r ∈ pend (s.post u) l0) ∨ (s'.rcd r).unl = .waker := by
  simp only [stepThr, hpc] at h
  rw [hpc]
  unfold stepSg at h
  cases st with
  | load =>
    dsimp only at h
    split_ok h
    all_goals first
      | (cases h; simp [wk] at hw; done)
      | (rw [(dflt_frame h).1, hpc] at hw; simp [wk] at hw; done)
  | spin sp =>
    dsimp only at h
    obtain ⟨_, _, _, h2⟩ := spinAcq_pc h
    rcases h2 with ⟨x, h2⟩ | h2 | h2
    · rw [h2] at hw; simp [wk] at hw
    · rw [h2] at hw; simp [wk] at hw
    · rw [h2, hpc] at hw; simp [wk] at hw
  | held =>
    dsimp only at h
    split_ok h
    all_goals first
      | (rw [(dflt_frame h).1, hpc] at hw; simp [wk] at hw; done)
      | (cases h; simp [wk] at hw; done)
      | (cases h
         right
         simp only [setPc_pc, if_true, wk, Option.some.injEq, Prod.mk.injEq] at hw
         obtain ⟨_, hl⟩ := hw
         have hm' := pend_sub _ _ _ hm
         rw [← hl] at hm'
         simp [hm'])
  | wake l0 =>
    left
    dsimp only at h
    split_ok h
    · rename_i hpo _
      cases h
      simp only [setPost_pc, setRec_pc, hpc, wk, Option.some.injEq, Prod.mk.injEq] at hw
      obtain ⟨hc, hl⟩ := hw
      subst hc; subst hl
      refine ⟨_, rfl, ?_⟩
      simp only [setPost_post, if_true, pend, List.tail_cons] at hm
      rw [hpo]; simp only [pend]
      exact List.mem_cons_of_mem _ hm
    · cases h; simp [wk] at hw
    · rename_i hpo _ _ _ _
      cases h
      simp only [setPc_pc, if_true, wk, Option.some.injEq, Prod.mk.injEq] at hw
      obtain ⟨hc, hl⟩ := hw
      subst hc; subst hl
      refine ⟨_, rfl, ?_⟩
      simp only [setPc_post, setPost_post, if_true, pend] at hm
      rw [hpo]; simp only [pend, List.tail_cons]
      exact hm
    · obtain ⟨h1, _, h3, _⟩ := dflt_frame h
      rw [h1, hpc] at hw
      simp only [wk, Option.some.injEq, Prod.mk.injEq] at hw
      obtain ⟨hc, hl⟩ := hw
      subst hc; subst hl
      rw [h3] at hm
      exact ⟨_, rfl, hm⟩
  | ret =>
    dsimp only at h
    split_ok h
    all_goals first
      | (cases h; simp [wk] at hw; done)
      | (rw [(dflt_frame h).1, hpc] at hw; simp [wk] at hw; done)

/-- a thread outside nsync_cv_signal / broadcast has no wake list after its step -/
theorem wk_none_idle {s s' : State} {u : Tid} {e : Ev} (hpc : s.pc u = .idle) (h : stepThr s u e = .ok s') :
    wk (s'.pc u) = none := by
  simp only [stepThr, hpc] at h
  unfold stepIdle at h
  split at h
  · split at h
    · cases h; simp
      have := inCall_pollNext (Frame.new ‹_› ‹_› ‹_› ‹_›) 0
      generalize pollNext _ 0 = p at this
      cases p <;> simp [inCall, wk] at this ⊢
    · simp at h
  · split at h
    · cases h; simp [wk]
    · simp at h
  · split at h
    · cases h; simp [hpc, wk]
    · simp at h
  · split at h
    · cases h; simp [hpc, wk]
    · simp at h
  · rw [(keeps_stepOpen h).1, hpc]; rfl

theorem wk_none_inCall {p : PC} (h : inCall p = true) : wk p = none := by
  cases p <;> simp [inCall, wk] at h ⊢

end WaitN
