/-
  Layer `Note`, invariant family X: the claim of the acting thread after its step, and preservation.
-/
import NsyncVerif.Proofs.NoteInvX

set_option linter.unusedSimpArgs false

namespace Note

macro "samex_tac" : tactic => `(tactic| (
  refine ⟨fun _ => ?_, fun _ => ?_, ?_, ?_⟩ <;> simp))

theorem XClaim.actor {s s' : State} {e : Event} (hA : InvA s) (hN : InvN s) (hX : InvX s)
    (hs : Note.step s e = .ok s') (a : Tid) (ha : e.actor = some a) : XClaim s' (s'.pc a) := by
  have hc := hX.claim a
  have hcN := hN.claim a
  cases e
  all_goals step_cases hs
  all_goals simp only [Event.actor, Option.some.injEq, reduceCtorEq] at ha
  all_goals (try subst ha)
  all_goals (try (rw [‹s.pc _ = _›] at hc hcN))
  all_goals (try (simp only [setPc_pc, upd_same, afterDeadline_pc, afterNotify_pc, childReturn_pc,
    childWakeNext_pc, childScanStart_pc, freeLoopStart_pc, enterChild_pc, leave_pc, addUser_pc, markCalled_pc,
    markFreeing_pc, setAfter_pc, pushObs_pc, publish_pc, delUser_pc]))
  all_goals (try (simp [XClaim, DKX]; done))
  all_goals (try (exact XClaim.afterDeadlinePc hN hX (by assumption) hc))
  all_goals (try (refine (XClaim.same (s := s) ?_ _).mpr ?_; (· samex_tac)))
  all_goals (try (simp_all [XClaim, NKX]; done))
  all_goals (try (exact XClaim.childReturnPc hc))
  all_goals (try (exact XClaim.childWakeNextPc hc))
  all_goals (try (exact XClaim.childLoopStartPc _ hc))
  all_goals (try (exact XClaim.freeLoopStartPc _ _ _ _))
  all_goals (try (exact XClaim.afterNotifyPc hN hX (by assumption) hc))
  -- call nsync_note_expiry
  all_goals (try (exact (by assumption : s.Live _).2.1))
  -- call nsync_note_new with a parent
  all_goals (try (
    intro p hp; cases hp
    exact ⟨(by assumption : s.Live _).2.1, (by assumption : s.Live _).1⟩))
  -- malloc
  · rename_i k hfresh
    show NewX _ k _ _
    refine ⟨?_, ?_⟩
    · rename_i par _ _ _
      cases par with
      | none => simp [State.minOf]
      | some p =>
        have hne : p ≠ k := fun e => by subst e; simp [(hc p rfl).2] at hfresh
        simp [State.minOf, upd_apply, hne]
    · intro p hp
      have hne : p ≠ k := fun e => by subst e; simp [(hc p hp).2] at hfresh
      exact ⟨by simpa using (hc p hp).1, by simp [hne, (hc p hp).2]⟩

theorem step_invX {s s' : State} {e : Event} (hA : InvA s) (hN : InvN s) (hX : InvX s)
    (hs : Note.step s e = .ok s') : InvX s' := by
  have hst := step_stable hs
  refine ⟨?_, ?_⟩
  · intro t
    by_cases ha : e.actor = some t
    · exact XClaim.actor hA hN hX hs t ha
    · rw [step_pc_other hs t ha]; exact XClaim.other hA hX hs t ha
  · intro n hp
    -- a published note is not being created, so its expiry time does not change
    have hkeep : s.published n = true → (s'.notes n).expiry = s'.pathMin n := by
      intro hp0
      have hn := hA.published n hp0
      rw [(hst.ghost n hn).2.2]
      rcases step_expiry hs n hn with h | ⟨a, p, dl, _, hcr, _, _⟩
      · rw [h]; exact hX.min n hp0
      · have := (hA.creating a n hcr).2
        rw [hp0] at this; cases this
    rcases step_published hs with hq | ⟨a, m, par, ha, hpa, _, hq⟩
    · rw [hq] at hp; exact hkeep hp
    · rw [hq, upd_apply] at hp
      split at hp
      · next hnm =>
        subst hnm
        have hc := hX.claim a
        rw [hpa] at hc
        have hcr : (s.pc a).creating = some n := by rw [hpa]; simp
        have hn := (hA.creating a n hcr).1
        rw [(hst.ghost n hn).2.2]
        rcases step_expiry hs n hn with h | ⟨a', p, dl, ha', _, hpc, _⟩
        · rw [h]; exact hc
        · rw [ha] at ha'
          cases ha'
          rcases hpc with ⟨_, _, hpc⟩ | ⟨_, _, hpc⟩ <;> (rw [hpa] at hpc; cases hpc)
      · exact hkeep hp

/-- All four invariant families hold in every reachable state. -/
theorem Reachable.inv {s : State} (h : Reachable s) : InvA s ∧ InvN s ∧ InvS s ∧ InvX s := by
  refine Reachable.induction (P := fun s => InvA s ∧ InvN s ∧ InvS s ∧ InvX s)
    ⟨InvA.init, InvN.init, InvS.init, InvX.init⟩ ?_ s h
  intro s e s' _ hi hs
  exact ⟨step_invA hi.1 hs, step_invN hi.1 hi.2.1 hs, step_invS hi.2.2.1 hs,
    step_invX hi.1 hi.2.1 hi.2.2.2 hs⟩

end Note
