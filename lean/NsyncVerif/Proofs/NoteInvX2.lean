/-
  Layer `Note`, invariant family X: the claim of the acting thread after its step, and preservation.
-/
import NsyncVerif.Proofs.NoteInvX

set_option linter.unusedSimpArgs false

namespace Note

macro "samex_tac" : tactic => `(tactic| (
  refine ⟨fun _ => ?_, fun _ => ?_, ?_, ?_, ?_⟩ <;> simp))

theorem XClaim.actor {s s' : State} {e : Event} (hA : InvA s) (hN : InvN s) (hX : InvX s)
    (hs : Note.step s e = .ok s') (a : Tid) (ha : e.actor = some a) : XClaim s' (s'.pc a) := by
  have hc := hX.claim a
  have hcN := hN.claim a
  cases e
  all_goals step_cases hs
  all_goals simp only [Event.actor, Option.some.injEq, reduceCtorEq] at ha
  all_goals (try subst ha)
  all_goals (try (rw [‹s.pc _ = _›] at hc hcN))
  all_goals (try (simp only [setPc_pc, upd_same, afterDeadline_pc, afterNotify_pc, childReturn_pc,
    childWakeNext_pc, freeLoopStart_pc, enterChild_pc, leave_pc, addUser_pc, markCalled_pc,
    markFreeing_pc, setAfter_pc, pushObs_pc, publish_pc, delUser_pc]))
  all_goals (try (simp [XClaim, DKX]; done))
  all_goals (try (exact XClaim.afterDeadlinePc hN (by assumption) hc))
  all_goals (try (refine (XClaim.same (s := s) ?_ _).mpr ?_; (· samex_tac)))
  all_goals (try (simp_all [XClaim, NKX]; done))
  all_goals (try (exact XClaim.childReturnPc hc))
  all_goals (try (exact XClaim.childWakeNextPc hc))
  all_goals (try (exact XClaim.freeLoopStartPc _ _ _ _))
  all_goals (try (exact XClaim.afterNotifyPc hN (by assumption) hc))
  -- call nsync_note_expiry
  all_goals (try (exact (by assumption : s.Live _).2.1))
  -- call nsync_note_new with a parent
  all_goals (try (
    intro p hp; cases hp
    exact ⟨(by assumption : s.Live _).2.1, (by assumption : s.Live _).1⟩))
  -- nsync_note_new, parent not notified, parent's expiry is smaller
  · rename_i n p dl _ hpos hlt _ _ _ _
    simp only [XClaim, NewPos.early, if_true] at hc
    obtain ⟨h1, h2, h3⟩ := hc
    have hnp : ¬ s.Notified p := fun h => ntime_of_notified h hpos
    have hbp : s.bornNotified p = false := by
      cases hb : s.bornNotified p with
      | false => rfl
      | true => exact absurd (hN.born p hb).1 hnp
    have hep : (s.notes p).ntime = s.pathMin p := by
      rw [← hX.min p (h3 p rfl).1 hbp]
      unfold NoteRec.ntime
      split
      · next hf => exact absurd (Or.inl hf) hnp
      · rfl
    right
    simp only [setPc_notes, link_f_expiry, setExpiry_f_expiry, if_true, setPc_pathMin,
      link_pathMin, setExpiry_pathMin]
    rw [h1, hep]
    simp only [State.minOf, Dl.min_eq]
    rw [hep] at hlt
    rw [if_pos hlt]
  -- … parent's expiry is not smaller
  · rename_i n p dl _ hpos hlt _ _ _ _
    simp only [XClaim, NewPos.early, if_true] at hc ⊢
    obtain ⟨h1, h2, h3⟩ := hc
    have hnp : ¬ s.Notified p := fun h => ntime_of_notified h hpos
    have hbp : s.bornNotified p = false := by
      cases hb : s.bornNotified p with
      | false => rfl
      | true => exact absurd (hN.born p hb).1 hnp
    have hep : (s.notes p).ntime = s.pathMin p := by
      rw [← hX.min p (h3 p rfl).1 hbp]
      unfold NoteRec.ntime
      split
      · next hf => exact absurd (Or.inl hf) hnp
      · rfl
    right
    rw [(hcN.2 rfl).2, h1]
    simp only [State.minOf, Dl.min_eq]
    rw [hep] at hlt
    simp [hlt]
  -- … parent notified
  · left; simp
  · left; simp
  -- malloc
  · rename_i k hfresh
    show NewX _ k _ _
    refine ⟨?_, by simpa using hX.unalloc k hfresh, ?_⟩
    · rename_i par _ _ _
      cases par with
      | none => simp [State.minOf]
      | some p =>
        have hne : p ≠ k := fun e => by subst e; simp [(hc p rfl).2] at hfresh
        simp [State.minOf, upd_apply, hne]
    · intro p hp
      have hne : p ≠ k := fun e => by subst e; simp [(hc p hp).2] at hfresh
      exact ⟨by simpa using (hc p hp).1, by simp [hne, (hc p hp).2]⟩

theorem step_invX {s s' : State} {e : Event} (hA : InvA s) (hN : InvN s) (hX : InvX s)
    (hs : Note.step s e = .ok s') : InvX s' := by
  have hst := step_stable hs
  refine ⟨?_, ?_, ?_⟩
  · intro t
    by_cases ha : e.actor = some t
    · exact XClaim.actor hA hN hX hs t ha
    · rw [step_pc_other hs t ha]; exact XClaim.other hA hX hs t ha
  · intro n hp hb
    have hb0 : s.bornNotified n = false := by
      cases h : s.bornNotified n with
      | false => rfl
      | true => rw [hst.born n h] at hb; cases hb
    rcases step_published hs with hq | ⟨a, m, par, ha, hpa, _, hq⟩
    · rw [hq] at hp
      have hn := hA.published n hp
      rw [(hst.ghost n hn).2.2]
      rcases step_expiry hs n hn with h | ⟨a, p, dl, _, hpc, _, _⟩
      · rw [h]; exact hX.min n hp hb0
      · have := (hA.creating a n (by rw [hpc]; simp)).2
        rw [hp] at this; cases this
    · rw [hq, upd_apply] at hp
      split at hp
      · next hnm =>
        subst hnm
        have hc := hX.claim a
        rw [hpa] at hc
        have hn := (hA.creating a n (by rw [hpa]; simp)).1
        rw [(hst.ghost n hn).2.2]
        rcases hc with hc | hc
        · rw [hb0] at hc; cases hc
        · rcases step_expiry hs n hn with h | ⟨a', p, dl, ha', hpc, _, _⟩
          · rw [h]; exact hc
          · rw [ha] at ha'
            cases ha'
            rw [hpa] at hpc; cases hpc
      · have hn := hA.published n hp
        rw [(hst.ghost n hn).2.2]
        rcases step_expiry hs n hn with h | ⟨a', p, dl, _, hpc, _, _⟩
        · rw [h]; exact hX.min n hp hb0
        · have := (hA.creating a' n (by rw [hpc]; simp)).2
          rw [hp] at this; cases this
  · intro n hn
    have h0 : (s.notes n).allocated = false := by
      cases h : (s.notes n).allocated with
      | false => rfl
      | true => rw [hst.alloc n h] at hn; cases hn
    rcases step_born hs with h | ⟨a, m, _, hca, h⟩
    · rw [h]; exact hX.unalloc n h0
    · rw [h, upd_apply]
      split
      · next hnm =>
        subst hnm
        have := (hA.creating a n hca).1
        rw [h0] at this; cases this
      · exact hX.unalloc n h0

/-- All four invariant families hold in every reachable state. -/
theorem Reachable.inv {s : State} (h : Reachable s) : InvA s ∧ InvN s ∧ InvS s ∧ InvX s := by
  refine Reachable.induction (P := fun s => InvA s ∧ InvN s ∧ InvS s ∧ InvX s)
    ⟨InvA.init, InvN.init, InvS.init, InvX.init⟩ ?_ s h
  intro s e s' _ hi hs
  exact ⟨step_invA hi.1 hs, step_invN hi.1 hi.2.1 hs, step_invS hi.2.2.1 hs,
    step_invX hi.1 hi.2.1 hi.2.2.2 hs⟩

end Note
