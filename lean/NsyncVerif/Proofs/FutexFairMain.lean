/-
  Futex layer (C12), fair termination: the four "eventually returns" facts.

  `waiter_returns_of_word`  a waiter with the word positive returns            (rank `rkW`)
  `post_arrives`            a V that has started makes the word positive         (rank `rk0`)
  `waiter_returns`          a waiter for which a matching post exists returns
  `poster_returns`          a V returns if only finitely many posts are made      (rank `rkV`)
  `timed_waiter_returns`    P_with_deadline returns once the deadline has passed, if spurious
                            wake-ups / EINTRs are finite                          (rank `rkT`)
-/
import NsyncVerif.Proofs.FutexFairLive

namespace NsyncVerif.Futex

set_option linter.unusedSimpArgs false
set_option linter.unusedVariables false

variable {s0 : State}

/-! ### the waiter with a post available -/

theorem waiter_ne_idle {p : PC} (h : p.isWaiter = true) : p ≠ .idle := by
  intro h'; rw [h'] at h; cases h

theorem poster_ne_idle {p : PC} (h : p.isPoster = true) : p ≠ .idle := by
  intro h'; rw [h'] at h; cases h

theorem waiter_live (x : Exec s0) (hr : Reachable s0) (hf : WeakFair x) (kf : KernelFair x)
    {o : Tid} {j : Nat} (hg : GoodW (x.ρ j) o) : ∃ j', j ≤ j' ∧ Moves x o j' := by
  cases hk : inKernel (x.ρ j) o with
  | false => exact fair_move_awake x hr hf (waiter_ne_idle hg.1) hk
  | true =>
    unfold inKernel at hk
    split at hk
    · next k hpc =>
      obtain ⟨si, hsi⟩ := Option.isSome_iff_exists.1 hk
      cases hwk : si.woken with
      | true => exact fair_move_due x hr kf (kernelDue_of hpc hsi (Or.inl hwk))
      | false =>
        have hasl : (x.ρ j).asleep := by simp [State.asleep, asleepInfo, hsi, hwk]
        have hpos : 0 < (x.ρ j).word := by
          rcases hg.2 with ⟨k', b, h⟩ | h
          · rw [hpc] at h; cases h
          · exact h
        rcases (x.reach hr j).inv.noLost hasl with h0 | ⟨p, hp⟩
        · omega
        · exact fair_move_posted x hr hf kf hpc hk hp
    · cases hk

/-- A waiter that sees a positive word returns (P and P_with_deadline alike; for the latter possibly
    with ETIMEDOUT if it had already committed to it). -/
theorem waiter_returns_of_word (x : Exec s0) (hr : Reachable s0) (hf : WeakFair x) (kf : KernelFair x)
    {o : Tid} {j : Nat} (hw : ((x.ρ j).pc o).isWaiter = true) (hpos : 0 < (x.ρ j).word) :
    ∃ j', j ≤ j' ∧ (x.ρ j').pc o = .idle := by
  apply Classical.byContradiction
  intro hn
  have hni : ∀ j', j ≤ j' → (x.ρ j').pc o ≠ .idle := fun j' hj h => hn ⟨j', hj, h⟩
  refine chain x o j (fun j' => GoodW (x.ρ j') o) (fun j' => rkW (x.ρ j') o) ?_ ?_ ?_ j (Nat.le_refl _)
    ⟨hw, Or.inr hpos⟩
  · intro j' hj' hg hm
    cases hs : x.σ j' with
    | none => rw [x.next_none hs]; exact ⟨hg, Nat.le_refl _⟩
    | some e => exact rkW_other (x.reach hr j').inv (x.next_some hs) (fun ht => hm ⟨e, hs, ht⟩) hg
  · intro j' hj' hg ⟨e, he, hte⟩
    exact rkW_own (x.reach hr j').inv (x.reach hr j').casLe (x.next_some he) hte hg (hni (j' + 1) (by omega))
  · intro j' hj' hg
    exact waiter_live x hr hf kf hg

/-! ### a V that has started makes the word positive -/

def rk0 (s : State) (p : Tid) : Nat :=
  match s.pc p with
  | .vCas old => if old = 0 then 1 else 3
  | .vLoad => 2
  | _ => 0

theorem rk0_own {s s' : State} {e : Event} {p : Tid} (hs : step s e = .ok s') (he : e.tid = some p)
    (hv : (s.pc p).vPre = true) (hw : s.word = 0) (hw' : s'.word = 0) :
    (s'.pc p).vPre = true ∧ rk0 s' p < rk0 s p := by
  cases e <;> simp only [Event.tid, Option.some.injEq, reduceCtorEq] at he <;> subst he <;>
    simp only [step] at hs <;> (repeat' split at hs) <;> (try simp at hs) <;> (try subst hs) <;>
    simp_all [rk0, setPc, PC.vPre] <;> grind

theorem vPre_awake {s : State} {p : Tid} (h : (s.pc p).vPre = true) :
    s.pc p ≠ .idle ∧ inKernel s p = false := by
  unfold inKernel
  cases hp : s.pc p <;> simp [hp, PC.vPre] at h ⊢

theorem post_arrives (x : Exec s0) (hr : Reachable s0) (hf : WeakFair x) {p : Tid} {j : Nat}
    (hv : ((x.ρ j).pc p).vPre = true) : ∃ j', j ≤ j' ∧ 0 < (x.ρ j').word := by
  apply Classical.byContradiction
  intro hn
  have hw0 : ∀ j', j ≤ j' → (x.ρ j').word = 0 := by
    intro j' hj
    have : ¬ 0 < (x.ρ j').word := fun h => hn ⟨j', hj, h⟩
    omega
  refine chain x p j (fun j' => ((x.ρ j').pc p).vPre = true) (fun j' => rk0 (x.ρ j') p) ?_ ?_ ?_ j
    (Nat.le_refl _) hv
  · intro j' hj' hg hm
    have hpc := not_moves_pc x hm
    refine ⟨by rw [hpc]; exact hg, ?_⟩
    unfold rk0; rw [hpc]; exact Nat.le_refl _
  · intro j' hj' hg ⟨e, he, hte⟩
    exact rk0_own (x.next_some he) hte hg (hw0 j' hj') (hw0 (j' + 1) (by omega))
  · intro j' hj' hg
    exact fair_move_awake x hr hf (vPre_awake hg).1 (vPre_awake hg).2

/-! ### P / P_with_deadline with a matching post -/

theorem waiter_always (x : Exec s0) {o : Tid} {i : Nat} (hw : ((x.ρ i).pc o).isWaiter = true)
    (hni : ∀ j, i ≤ j → (x.ρ j).pc o ≠ .idle) : ∀ j, i ≤ j → ((x.ρ j).pc o).isWaiter = true := by
  intro j hj
  obtain ⟨d, rfl⟩ : ∃ d, j = i + d := ⟨j - i, by omega⟩
  induction d with
  | zero => exact hw
  | succ d ih =>
    have h1 := ih (by omega)
    cases hs : x.σ (i + d) with
    | none => rw [show i + (d + 1) = i + d + 1 by omega, x.next_none hs]; exact h1
    | some e =>
      rcases step_waiter_stays (x.next_some hs) h1 with h | h
      · exact absurd h (hni (i + d + 1) (by omega))
      · exact h

theorem poster_always (x : Exec s0) {p : Tid} {i : Nat} (hw : ((x.ρ i).pc p).isPoster = true)
    (hni : ∀ j, i ≤ j → (x.ρ j).pc p ≠ .idle) : ∀ j, i ≤ j → ((x.ρ j).pc p).isPoster = true := by
  intro j hj
  obtain ⟨d, rfl⟩ : ∃ d, j = i + d := ⟨j - i, by omega⟩
  induction d with
  | zero => exact hw
  | succ d ih =>
    have h1 := ih (by omega)
    cases hs : x.σ (i + d) with
    | none => rw [show i + (d + 1) = i + d + 1 by omega, x.next_none hs]; exact h1
    | some e =>
      rcases step_poster_stays (x.next_some hs) h1 with h | h
      · exact absurd h (hni (i + d + 1) (by omega))
      · exact h

theorem waiter_returns (x : Exec s0) (hr : Reachable s0) (hf : WeakFair x) (kf : KernelFair x)
    {o : Tid} {i : Nat} (hw : ((x.ρ i).pc o).isWaiter = true)
    (hp : ∃ j, i ≤ j ∧ PostPending (x.ρ j)) : ∃ j, i ≤ j ∧ (x.ρ j).pc o = .idle := by
  apply Classical.byContradiction
  intro hn
  have hni : ∀ j, i ≤ j → (x.ρ j).pc o ≠ .idle := fun j hj h => hn ⟨j, hj, h⟩
  have hwa := waiter_always x hw hni
  obtain ⟨j, hj, hpp⟩ := hp
  have hword : ∃ j', j ≤ j' ∧ 0 < (x.ρ j').word := by
    rcases hpp with h | ⟨p, hv⟩
    · have := (x.reach hr j).inv.cons
      exact ⟨j, Nat.le_refl _, by omega⟩
    · exact post_arrives x hr hf hv
  obtain ⟨j', hj', hpos⟩ := hword
  obtain ⟨j'', hj'', hidle⟩ := waiter_returns_of_word x hr hf kf (hwa j' (by omega)) hpos
  exact hni j'' (by omega) hidle

/-! ### V -/

theorem poster_awake {s : State} {p : Tid} (h : (s.pc p).isPoster = true) :
    s.pc p ≠ .idle ∧ inKernel s p = false := by
  unfold inKernel
  cases hp : s.pc p <;> simp [hp, PC.isPoster] at h ⊢

theorem poster_returns (x : Exec s0) (hr : Reachable s0) (hf : WeakFair x) (hb : BoundedPosts x)
    {p : Tid} {i : Nat} (hv : ((x.ρ i).pc p).isPoster = true) : ∃ j, i ≤ j ∧ (x.ρ j).pc p = .idle := by
  apply Classical.byContradiction
  intro hn
  have hni : ∀ j, i ≤ j → (x.ρ j).pc p ≠ .idle := fun j hj h => hn ⟨j, hj, h⟩
  have hpa := poster_always x hv hni
  obtain ⟨B, hB⟩ := hb
  have hB2 : ∀ j, (x.ρ j).posts + (x.ρ j).takes ≤ 2 * B := by
    intro j
    have h1 := hB j
    have h2 := (x.reach hr j).inv.cons
    omega
  refine chain x p i (fun j => ((x.ρ j).pc p).isPoster = true) (fun j => rkV B (x.ρ j) p) ?_ ?_ ?_ i
    (Nat.le_refl _) hv
  · intro j hj hg hm
    refine ⟨hpa (j + 1) (by omega), ?_⟩
    cases hs : x.σ j with
    | none => rw [x.next_none hs]; exact Nat.le_refl _
    | some e => exact rkV_other (x.next_some hs) (fun ht => hm ⟨e, hs, ht⟩) (hB2 (j + 1))
  · intro j hj hg ⟨e, he, hte⟩
    exact ⟨hpa (j + 1) (by omega), rkV_own (x.next_some he) hte hg (hB2 (j + 1)) (hni (j + 1) (by omega))⟩
  · intro j hj hg
    exact fair_move_awake x hr hf (poster_awake hg).1 (poster_awake hg).2

/-! ### P_with_deadline after its deadline -/

theorem callDeadline_isWaiter {s : State} {t : Tid} {dl : Option Nat} (h : callDeadline s t = some dl) :
    (s.pc t).isWaiter = true := by
  unfold callDeadline at h
  split at h <;> simp_all [PC.isWaiter]

/-- Every reachable state has finite support: all threads from some number on are idle. -/
theorem run_support {evs : List Event} : ∀ {s s' : State}, run s evs = .ok s' →
    (∃ B : Nat, ∀ t : Nat, B ≤ t → s.pc t = .idle) → ∃ B : Nat, ∀ t : Nat, B ≤ t → s'.pc t = .idle := by
  induction evs with
  | nil => intro s s' h hB; simp [run] at h; subst h; exact hB
  | cons e es ih =>
    intro s s' h ⟨B, hB⟩
    simp only [run] at h
    split at h
    · next s1 h1 =>
      refine ih h ?_
      cases he : e.tid with
      | none => exact ⟨B, fun t ht => by rw [step_pc_other h1 (by rw [he]; simp)]; exact hB t ht⟩
      | some u =>
        refine ⟨B + (u + 1), fun t ht => ?_⟩
        rw [step_pc_other h1 (by rw [he]; intro h'; cases h'; omega)]
        exact hB t (by omega)
    · cases h

theorem Reachable.support {s : State} (h : Reachable s) : ∃ B : Nat, ∀ t : Nat, B ≤ t → s.pc t = .idle := by
  obtain ⟨evs, hr⟩ := h
  exact run_support hr ⟨0, fun _ _ => rfl⟩

theorem step_vWake_own_pc {s s' : State} {e : Event} {p : Tid} (hs : step s e = .ok s')
    (he : e.tid = some p) (hp : s.pc p = .vWake) : s'.pc p = .vRet := by
  cases e <;> simp only [Event.tid, Option.some.injEq, reduceCtorEq] at he <;> subst he <;>
    simp only [step] at hs <;> (repeat' split at hs) <;> (try simp at hs) <;> (try subst hs) <;>
    simp_all [setPc]

/-- While the word stays 0 nobody enters `vWake`; every thread there leaves (weak fairness); the
    support is finite: eventually nobody is between a post and its wake, for ever. -/
theorem no_vWake_eventually (x : Exec s0) (hr : Reachable s0) (hf : WeakFair x) {i : Nat}
    (hw0 : ∀ j, i ≤ j → (x.ρ j).word = 0) :
    ∃ N, i ≤ N ∧ ∀ j, N ≤ j → ∀ p : Nat, (x.ρ j).pc p ≠ .vWake := by
  have stay_out : ∀ (p : Nat) j, i ≤ j → (x.ρ j).pc p ≠ .vWake → ∀ j', j ≤ j' → (x.ρ j').pc p ≠ .vWake := by
    intro p j hj h0
    apply invariant_from x (P := fun s => s.pc p ≠ .vWake) _ h0
    intro j' hj' hP hQ
    cases hs : x.σ j' with
    | none => rw [x.next_none hs] at hQ; exact hP hQ
    | some e =>
      have := step_enter_vWake (x.next_some hs) hP hQ
      have := hw0 (j' + 1) (by omega)
      omega
  have leaves : ∀ p : Nat, ∃ n, i ≤ n ∧ ∀ j, n ≤ j → (x.ρ j).pc p ≠ .vWake := by
    intro p
    by_cases hp : (x.ρ i).pc p = .vWake
    · obtain ⟨j1, hj1, ⟨e, he, hte⟩, hfirst⟩ :=
        first_move' x (fair_move_awake x hr hf (vWake_awake hp).1 (vWake_awake hp).2)
      have hp1 : (x.ρ j1).pc p = .vWake :=
        stable_between x (t := p) (P := fun s => s.pc p = .vWake) (n := i)
          (fun j' _ hP hm => by show (x.ρ (j' + 1)).pc p = _; rw [not_moves_pc x hm]; exact hP)
          (Nat.le_refl _) hj1 hfirst hp
      have := step_vWake_own_pc (x.next_some he) hte hp1
      exact ⟨j1 + 1, by omega, stay_out p (j1 + 1) (by omega) (by rw [this]; simp)⟩
    · exact ⟨i, Nat.le_refl _, stay_out p i (Nat.le_refl _) hp⟩
  obtain ⟨B, hB⟩ := (x.reach hr i).support
  have fin : ∀ b : Nat, ∃ N, i ≤ N ∧ ∀ p : Nat, p < b → ∀ j, N ≤ j → (x.ρ j).pc p ≠ .vWake := by
    intro b
    induction b with
    | zero => exact ⟨i, Nat.le_refl _, fun p hp => absurd hp (Nat.not_lt_zero _)⟩
    | succ b ih =>
      obtain ⟨N1, h1, hN1⟩ := ih
      obtain ⟨N2, h2, hN2⟩ := leaves b
      refine ⟨N1 + N2, by omega, fun p hp j hj => ?_⟩
      by_cases hpb : p = b
      · subst hpb; exact hN2 j (by omega)
      · exact hN1 p (by omega) j (by omega)
  obtain ⟨N, hN, hfin⟩ := fin B
  refine ⟨N, hN, fun j hj p => ?_⟩
  by_cases hp : p < B
  · exact hfin p hp j hj
  · exact stay_out p i (Nat.le_refl _) (by rw [hB p (by omega)]; simp) j (Nat.le_trans hN hj)

theorem timed_live (x : Exec s0) (hr : Reachable s0) (hf : WeakFair x) (kf : KernelFair x)
    {o : Tid} {d j : Nat} (hd : callDeadline (x.ρ j) o = some (some d)) (hnow : d ≤ (x.ρ j).now) :
    ∃ j', j ≤ j' ∧ Moves x o j' := by
  have hw := callDeadline_isWaiter hd
  cases hk : inKernel (x.ρ j) o with
  | false => exact fair_move_awake x hr hf (waiter_ne_idle hw) hk
  | true =>
    unfold inKernel at hk
    split at hk
    · next k hpc =>
      obtain ⟨si, hsi⟩ := Option.isSome_iff_exists.1 hk
      obtain ⟨o', k', ho', hpc', hdl⟩ := (x.reach hr j).inv.sleepPc si hsi
      have hoo : o' = o := by
        apply Classical.byContradiction; intro hne
        have := (x.reach hr j).inv.nonOwner o (by rw [ho']; intro h; cases h; exact hne rfl)
        rw [hw] at this; cases this
      subst hoo
      rw [hpc] at hpc'; cases hpc'
      have hk : k = .pd (some d) := by
        unfold callDeadline at hd; rw [hpc] at hd
        cases k with
        | p => simp at hd
        | pd dl => simp at hd; rw [hd]
      refine fair_move_due x hr kf (kernelDue_of hpc hsi (Or.inr ?_))
      rw [hdl, hk]; simp [WKind.timeout, expired, hnow]
    · cases hk

theorem timed_waiter_returns (x : Exec s0) (hr : Reachable s0) (hf : WeakFair x) (kf : KernelFair x)
    (hfs : FiniteSpurious x) {o : Tid} {d i : Nat} (hd : callDeadline (x.ρ i) o = some (some d))
    (hclk : ∃ j, i ≤ j ∧ d ≤ (x.ρ j).now) : ∃ j, i ≤ j ∧ (x.ρ j).pc o = .idle := by
  apply Classical.byContradiction
  intro hn
  have hni : ∀ j, i ≤ j → (x.ρ j).pc o ≠ .idle := fun j hj h => hn ⟨j, hj, h⟩
  have hwa := waiter_always x (callDeadline_isWaiter hd) hni
  have hda : ∀ j, i ≤ j → callDeadline (x.ρ j) o = some (some d) := by
    intro j hj
    obtain ⟨k, rfl⟩ : ∃ k, j = i + k := ⟨j - i, by omega⟩
    induction k with
    | zero => exact hd
    | succ k ih =>
      have h1 := ih (by omega)
      cases hs : x.σ (i + k) with
      | none => rw [show i + (k + 1) = i + k + 1 by omega, x.next_none hs]; exact h1
      | some e => exact C12_deadline_stable (x.next_some hs) h1 (hni (i + k + 1) (by omega))
  have hw0 : ∀ j, i ≤ j → (x.ρ j).word = 0 := by
    intro j hj
    apply Classical.byContradiction; intro hne
    obtain ⟨j', hj', hidle⟩ := waiter_returns_of_word x hr hf kf (hwa j hj) (by omega)
    exact hni j' (by omega) hidle
  obtain ⟨N, hN, hnv⟩ := no_vWake_eventually x hr hf hw0
  obtain ⟨ns, hns⟩ := hfs
  obtain ⟨jc, hjc, hclk⟩ := hclk
  have hM : i ≤ N + ns + jc := by omega
  refine chain x o (N + ns + jc) (fun _ => True) (fun j => rkT (x.ρ j) o) ?_ ?_ ?_ _ (Nat.le_refl _) trivial
  · intro j hj _ hm
    refine ⟨trivial, ?_⟩
    cases hs : x.σ j with
    | none => rw [x.next_none hs]; exact Nat.le_refl _
    | some e =>
      exact Nat.le_of_eq (rkT_other (x.reach hr j).inv (x.next_some hs) (fun ht => hm ⟨e, hs, ht⟩)
        (hwa j (by omega)) (hnv j (by omega)))
  · intro j hj _ ⟨e, he, hte⟩
    refine ⟨trivial, rkT_own (x.reach hr j).inv (x.next_some he) hte (hda j (by omega)) ?_ (hw0 j (by omega)) ?_
      (hni (j + 1) (by omega))⟩
    · exact Nat.le_trans hclk (x.now_mono (by omega))
    · intro r her hr'
      exact hns j o r (by omega) (by rw [he, her]) hr'
  · intro j hj _
    exact timed_live x hr hf kf (hda j (by omega)) (Nat.le_trans hclk (x.now_mono (by omega)))

end NsyncVerif.Futex
