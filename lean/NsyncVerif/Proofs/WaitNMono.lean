/-
  Proofs/WaitNMono.lean — what no accepted step undoes: objects stay known with the same expiry,
  a note stays notified, a counter on which a wait has been called stays at zero, the clock does not
  go back, and `waiting` is set only by the owner's enqueue store.
-/
import NsyncVerif.Proofs.WaitNOwn

set_option linter.unusedSimpArgs false

namespace WaitN

structure Mono (s s' : State) (t : Tid) : Prop where
  known : ∀ o, (s.obj o).known = true → (s'.obj o).known = true
  expiry : ∀ o, (s.obj o).known = true → (s'.obj o).expiry = (s.obj o).expiry
  flag : ∀ o, o.isCv = false → (s.obj o).known = true → (s.obj o).flag = true → (s'.obj o).flag = true
  zero : ∀ k, (s.obj (.ctr k)).known = true → (s.obj (.ctr k)).value = 0 → (s.obj (.ctr k)).flag = true →
          (s'.obj (.ctr k)).value = 0
  now : s.now ≤ s'.now
  wtrue : ∀ r, (s.rcd r).waiting = false → (s'.rcd r).waiting = true →
          ∃ i, (s.pc t = .wEnq i (.store true) ∨ s.pc t = .wEnqCv i .store) ∧ (s.fr t).recs[i]? = some r

theorem Mono.refl (s : State) (t : Tid) : Mono s s t :=
  ⟨fun _ h => h, fun _ _ => rfl, fun _ _ _ h => h, fun _ _ h _ => h, Nat.le_refl _, fun _ h1 h2 => by rw [h1] at h2; cases h2⟩

/-- a step that does not touch objects, records or the clock -/
theorem Mono.of_eq {s s' : State} {t : Tid} (ho : s'.obj = s.obj) (hr : s'.rcd = s.rcd) (hn : s'.now = s.now) :
    Mono s s' t := by
  constructor <;> intros <;> simp_all

theorem Mono.trans_eq {s s1 s2 : State} {t : Tid} (a : Mono s s1 t) (ho : s2.obj = s1.obj) (hr : s2.rcd = s1.rcd)
    (hn : s2.now = s1.now) : Mono s s2 t := by
  constructor
  · intro o h; rw [ho]; exact a.known o h
  · intro o h; rw [ho]; exact a.expiry o h
  · intro o h1 h2 h3; rw [ho]; exact a.flag o h1 h2 h3
  · intro k h1 h2 h3; rw [ho]; exact a.zero k h1 h2 h3
  · rw [hn]; exact a.now
  · intro r h1 h2; rw [hr] at h2; exact a.wtrue r h1 h2

macro "mono_eq" : tactic => `(tactic| (apply Mono.of_eq <;> (first | rfl | (simp; done))))

theorem mono_bindSem {s s' : State} {t owner : Tid} {j : SemId} (h : bindSem s owner j = some s') : Mono s s' t := by
  unfold bindSem at h
  split at h
  · split at h
    · cases h; exact Mono.refl _ _
    · cases h
  · split at h
    · cases h
    · cases h; mono_eq

theorem mono_postSem {s s' : State} {t : Tid} {r : Rid} {j : SemId} (h : postSem s r j = some s') : Mono s s' t := by
  unfold postSem at h
  split at h
  · exact mono_bindSem h
  · cases h; exact Mono.refl _ _

theorem mono_unbindSem (s : State) (t u : Tid) : Mono s (unbindSem s u) t := by
  unfold unbindSem
  split <;> mono_eq

theorem mono_dflt {s s' : State} {t : Tid} {e : Ev} (h : dflt s t e = .ok s') : Mono s s' t := by
  unfold dflt at h
  split_ok h <;> (cases h; first | exact Mono.refl _ _ | mono_eq)

theorem mono_rtDone {s s' : State} {t : Tid} {u : Use} {i : Nat} {time : Deadline}
    (h : rtDone s t u i time = .ok s') : Mono s s' t := by
  unfold rtDone at h
  split_ok h <;> (cases h; mono_eq)

theorem mono_deqDone {s s' : State} {t : Tid} {j : Nat} {res : Bool}
    (h : deqDone s t j res = .ok s') : Mono s s' t := by
  unfold deqDone at h
  dsimp only at h
  split at h
  · cases h; mono_eq
  · cases h
    refine Mono.trans_eq (s1 := unbindSem (s.setFr t _) t) ?_ rfl rfl rfl
    refine Mono.trans_eq (s1 := s) (Mono.refl _ _) ?_ ?_ ?_ <;> (unfold unbindSem; split <;> rfl)

theorem mono_afterEnq {s s' : State} {t : Tid} {i : Nat} {res : Bool}
    (h : afterEnq s t i res = .ok s') : Mono s s' t := by
  unfold afterEnq at h
  cases h; mono_eq

theorem shared_unbindSem (s : State) (t : Tid) :
    (unbindSem s t).obj = s.obj ∧ (unbindSem s t).rcd = s.rcd ∧ (unbindSem s t).now = s.now := by
  unfold unbindSem; split <;> exact ⟨rfl, rfl, rfl⟩

theorem shared_deqDone {s s' : State} {t : Tid} {j : Nat} {res : Bool} (h : deqDone s t j res = .ok s') :
    s'.obj = s.obj ∧ s'.rcd = s.rcd ∧ s'.now = s.now := by
  unfold deqDone at h
  dsimp only at h
  split at h
  · cases h; exact ⟨rfl, rfl, rfl⟩
  · cases h
    exact ⟨(shared_unbindSem _ t).1, (shared_unbindSem _ t).2.1, (shared_unbindSem _ t).2.2⟩

theorem shared_afterEnq {s s' : State} {t : Tid} {i : Nat} {res : Bool} (h : afterEnq s t i res = .ok s') :
    s'.obj = s.obj ∧ s'.rcd = s.rcd ∧ s'.now = s.now := by
  unfold afterEnq at h
  cases h; exact ⟨rfl, rfl, rfl⟩

theorem shared_rtDone {s s' : State} {t : Tid} {u : Use} {i : Nat} {time : Deadline} (h : rtDone s t u i time = .ok s') :
    s'.obj = s.obj ∧ s'.rcd = s.rcd ∧ s'.now = s.now := by
  unfold rtDone at h
  split_ok h <;> (cases h; exact ⟨rfl, rfl, rfl⟩)

theorem mono_startScan (s : State) (t : Tid) : Mono s (startScan s t) t := by
  unfold startScan; mono_eq

/-- explicit `s'`: the seven-way goal after unfolding -/
macro "mono_tac" : tactic =>
  `(tactic| (constructor <;> intros <;> (try simp at *) <;> (try split) <;> (try simp_all [ObjId.isCv]) <;>
      (try omega) <;> (try (intro hx; subst hx; simp_all [ObjId.isCv]))))

theorem mono_spinAcq {s s' : State} {t : Tid} {c : Nat} {st : SpinSt} {mk : SpinSt → PC} {done : PC} {e : Ev}
    (h : spinAcq s t c st mk done e = .ok s') : Mono s s' t := by
  unfold spinAcq at h
  split_ok h
  all_goals first
    | exact mono_dflt h
    | (cases h; first | exact Mono.refl _ _ | mono_eq | mono_tac)

end WaitN
