import NsyncVerif.Proofs.MuQRefineCas
/-
  MuQ refinement, assembly: every accepted step is invisible to `abs` or is one `AStep`;
  transfer of abstract invariants to reachable states.
-/
namespace NsyncVerif.MuQ

theorem step_refines {cfg : Cfg} {s s' : State} {e : Event}
    (hk : PcOk s) (hh : HeldIdle s) (h : step cfg s e = .ok s') :
    Refines cfg s s' ∧ PcOk s' ∧ HeldIdle s' := by
  cases e with
  | call t a => exact stepCall_refines hk hh h
  | ret t a res => exact stepRet_refines hk hh h
  | ld t o loc obs => exact stepLd_refines hk hh h
  | st t o loc new obs => exact stepSt_refines hk hh h
  | cas t o loc exp new obs ok => exact stepCas_refines hk hh h
  | semPEnter t k => exact stepSem_refines hk hh h (Or.inl rfl)
  | semPRet t k => exact stepSem_refines hk hh h (Or.inl rfl)
  | semV t k => exact stepSem_refines hk hh h (Or.inl rfl)
  | envV k => exact stepSem_refines hk hh h (Or.inr rfl)
  | envSem k n => exact stepSem_refines hk hh h (Or.inr rfl)

theorem side_init : PcOk init ∧ HeldIdle init := by
  constructor
  · intro t; simp [init, PC.ok]
  · intro t h; simp [init] at h

theorem reachable_side {cfg : Cfg} {s : State} (h : Reachable cfg s) : PcOk s ∧ HeldIdle s :=
  reachable_induction (P := fun s => PcOk s ∧ HeldIdle s) side_init
    (fun _ _ _ _ hp hs => (step_refines hp.1 hp.2 hs).2) s h

/-- An abstract invariant holds in every reachable state. -/
theorem reachable_ainv {cfg : Cfg} {P : AState → Prop} (h0 : P (abs init))
    (hstep : ∀ a a', P a → AStep cfg a a' → P a') :
    ∀ s, Reachable cfg s → P (abs s) := by
  apply reachable_induction (P := fun s => P (abs s)) h0
  intro s e s' hr hp hs
  have hside := reachable_side hr
  rcases (step_refines hside.1 hside.2 hs).1 with h | h
  · rw [h]; exact hp
  · exact hstep _ _ hp h

end NsyncVerif.MuQ
