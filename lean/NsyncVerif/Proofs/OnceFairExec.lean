/-
  Layer `Once`, fair termination (C07): infinite executions of the Once acceptor, the fairness
  notions, the hypotheses and the FULL statements of `C07_fair_termination` /
  `C07_fair_exactly_once` (proved in `Props/C07Fair.lean`), and generic facts about `Exec`
  (every state is reachable, a pc changes only when its thread moves, first move after a given
  time, the use of weak fairness `fair_move`, the well-founded leads-to rule `leads`).

  The choice of the enabledness notion is justified in the header of `Props/C07Fair.lean`.
-/
import NsyncVerif.Props.C07

namespace Once

/-! ### executions, fairness, hypotheses (definitions only) -/

/-- An infinite execution from `s0`; `σ i = none` means that nobody moves at time `i`. -/
structure Exec (cfg : Config) (s0 : State) where
  ρ : Nat → State
  σ : Nat → Option Event
  start : ρ 0 = s0
  next : ∀ i, match σ i with
    | none => ρ (i + 1) = ρ i
    | some e => step cfg (ρ i) e = .ok (ρ (i + 1))

/-- Thread `t` takes a step at time `j`. -/
def Moves {cfg : Config} {s0 : State} (x : Exec cfg s0) (t : Tid) (j : Nat) : Prop :=
  ∃ e, x.σ j = some e ∧ e.tid = some t

/-- The thread is executing the CLIENT's function (between `cb start` and `cb end`): whether it
    ever comes back is not the library's business (hypothesis `InitReturns`). -/
def PC.InUser : PC → Prop
  | .wCbEnd _ => True
  | _ => False

/-- `t` is inside a run_once call, is executing library code, and is not blocked: the slot lock
    it waits for (if it is at `ret nsync_mu_lock` / `ret nsync_cv_wait…`) is free.  By
    `C07_progress` (`ready_enabled` below) such a thread has an accepted next event. -/
def Ready (cfg : Config) (s : State) (t : Tid) : Prop :=
  s.pc t ≠ .idle ∧ ¬ (s.pc t).InUser ∧ ∀ k, (s.pc t).LockWait cfg k → s.lockHolder k = none

/-- Weak fairness on each thread's next step: a thread that from time `i` on is continuously
    `Ready` moves at some time `j ≥ i`.  For a thread waiting for slot lock `k` this is the weak
    form "moves if `k` is continuously free"; while the lock is held nothing is required. -/
def WeakFair {cfg : Config} {s0 : State} (x : Exec cfg s0) : Prop :=
  ∀ t i, (∀ j, i ≤ j → Ready cfg (x.ρ j) t) → ∃ j, i ≤ j ∧ Moves x t j

/-- Starvation freedom of the abstract slot lock (liveness half of assumption A1): a thread that
    waits for slot lock `k` for ever while `k` is free again and again acquires it (strong
    fairness of the acquisition). -/
def LockFair {cfg : Config} {s0 : State} (x : Exec cfg s0) : Prop :=
  ∀ t k i, (∀ j, i ≤ j → ((x.ρ j).pc t).LockWait cfg k) →
    (∀ j, i ≤ j → ∃ j', j ≤ j' ∧ (x.ρ j').lockHolder k = none) → ∃ j, i ≤ j ∧ Moves x t j

/-- The client's function returns: every initializer callback that was started also ends. -/
def InitReturns {cfg : Config} {s0 : State} (x : Exec cfg s0) : Prop :=
  ∀ t i f, (x.ρ i).pc t = .wCbEnd f → ∃ j, i ≤ j ∧ x.σ j = some (.cbEnd t f.arg)

/-- Only finitely many calls of run_once arrive (NOT a hypothesis of the theorem; used to show
    that it cannot replace `LockFair`). -/
def FiniteArrivals {cfg : Config} {s0 : State} (x : Exec cfg s0) : Prop :=
  ∃ n, ∀ j t b a o, n ≤ j → x.σ j ≠ some (.call t b a o)

/-- FULL statement.  Proved in `Props/C07Fair.lean`:
    `theorem C07_fair_termination : C07_fair_termination_full`. -/
def C07_fair_termination_full : Prop :=
  ∀ (cfg : Config) (s0 : State) (x : Exec cfg s0), Reachable cfg s0 →
    WeakFair x → LockFair x → InitReturns x →
    ∀ t i, (x.ρ i).pc t ≠ .idle → ∃ j, i ≤ j ∧ (x.ρ j).pc t = .idle

/-- FULL statement of the corollary: the call that is in progress at time `i` (frame `f`: once
    object, entry point) performs its `ret` at some time `j ≥ i`, and in the state right after it
    the call is recorded as returned and the initializer of that once object has been started
    exactly once and ended exactly once, by the CAS winner; the word is 2.
    Proved in `Props/C07Fair.lean`: `theorem C07_fair_exactly_once`. -/
def C07_fair_exactly_once_full : Prop :=
  ∀ (cfg : Config) (s0 : State) (x : Exec cfg s0), Reachable cfg s0 →
    WeakFair x → LockFair x → InitReturns x →
    ∀ t i f, ((x.ρ i).pc t).frame? = some f →
      ∃ j, i ≤ j ∧ x.σ j = some (.ret t f.blocking f.arg) ∧ (x.ρ (j + 1)).pc t = .idle ∧
        (t, f.o) ∈ (x.ρ (j + 1)).returned ∧
        ∃ w, (x.ρ (j + 1)).winner f.o = some w ∧ (x.ρ (j + 1)).fStarts f.o = [w] ∧
          (x.ρ (j + 1)).fEnds f.o = [w] ∧ (x.ρ (j + 1)).word f.o = 2

/-! ### generic facts -/

variable {cfg : Config} {s0 : State}

theorem reachable_step {s s' : State} {e : Event} (hr : Reachable cfg s)
    (h : step cfg s e = .ok s') : Reachable cfg s' := by
  obtain ⟨evs, hevs⟩ := hr
  refine ⟨evs ++ [e], ?_⟩
  have : ∀ (l : List Event) (a : State), run cfg a l = .ok s → run cfg a (l ++ [e]) = .ok s' := by
    intro l
    induction l with
    | nil => intro a ha; simp only [run, Except.ok.injEq] at ha; subst ha; simp [run, h]
    | cons e' es ih =>
      intro a ha
      simp only [run, List.cons_append] at ha ⊢
      cases hs : step cfg a e' with
      | ok s1 => rw [hs] at ha; exact ih s1 ha
      | error m => rw [hs] at ha; cases ha
  exact this evs init hevs

theorem Exec.next_none (x : Exec cfg s0) {i : Nat} (h : x.σ i = none) : x.ρ (i + 1) = x.ρ i := by
  have := x.next i; rw [h] at this; exact this

theorem Exec.next_some (x : Exec cfg s0) {i : Nat} {e : Event} (h : x.σ i = some e) :
    step cfg (x.ρ i) e = .ok (x.ρ (i + 1)) := by
  have := x.next i; rw [h] at this; exact this

theorem Exec.reach (x : Exec cfg s0) (hr : Reachable cfg s0) : ∀ i, Reachable cfg (x.ρ i) := by
  intro i
  induction i with
  | zero => rw [x.start]; exact hr
  | succ i ih =>
    cases h : x.σ i with
    | none => rw [x.next_none h]; exact ih
    | some e => exact reachable_step ih (x.next_some h)

theorem Exec.inv (x : Exec cfg s0) (hr : Reachable cfg s0) (i : Nat) : Inv cfg (x.ρ i) :=
  inv_reachable (x.reach hr i)

/-- `Ready` implies `Enabled` (the notion of `C07_progress`). -/
theorem ready_enabled {s : State} {t : Tid} (hi : Inv cfg s) (h : Ready cfg s t) : Enabled cfg s t :=
  enabled_of_lock_free hi h.1 h.2.2

theorem not_moves_pc (x : Exec cfg s0) {t : Tid} {j : Nat} (h : ¬ Moves x t j) :
    (x.ρ (j + 1)).pc t = (x.ρ j).pc t := by
  cases hs : x.σ j with
  | none => rw [x.next_none hs]
  | some e =>
    have hne : e.tid ≠ some t := fun ht => h ⟨e, hs, ht⟩
    exact pc_step_other (x.next_some hs) t hne

theorem pc_until (x : Exec cfg s0) {t : Tid} {i : Nat} : ∀ d,
    (∀ j, i ≤ j → j < i + d → ¬ Moves x t j) → (x.ρ (i + d)).pc t = (x.ρ i).pc t := by
  intro d
  induction d with
  | zero => intro _; rfl
  | succ d ih =>
    intro h
    have a := ih (fun j h1 h2 => h j h1 (by omega))
    have a' := not_moves_pc x (h (i + d) (by omega) (by omega))
    rw [← a, ← a']; rfl

theorem pc_between (x : Exec cfg s0) {t : Tid} {i j : Nat} (hij : i ≤ j)
    (h : ∀ j', i ≤ j' → j' < j → ¬ Moves x t j') : (x.ρ j).pc t = (x.ρ i).pc t := by
  obtain ⟨d, rfl⟩ : ∃ d, j = i + d := ⟨j - i, by omega⟩
  exact pc_until x d h

/-- The first move of `t` at or after time `i`. -/
theorem first_move (x : Exec cfg s0) {t : Tid} : ∀ d i, Moves x t (i + d) →
    ∃ j, i ≤ j ∧ Moves x t j ∧ ∀ j', i ≤ j' → j' < j → ¬ Moves x t j' := by
  intro d
  induction d with
  | zero => intro i h; exact ⟨i, Nat.le_refl _, h, fun j' h1 h2 => by omega⟩
  | succ d ih =>
    intro i h
    by_cases hi : Moves x t i
    · exact ⟨i, Nat.le_refl _, hi, fun j' h1 h2 => by omega⟩
    · obtain ⟨j, h1, h2, h3⟩ := ih (i + 1) (by rw [show i + 1 + d = i + (d + 1) by omega]; exact h)
      refine ⟨j, by omega, h2, fun j' h4 h5 => ?_⟩
      by_cases hj : j' = i
      · subst hj; exact hi
      · exact h3 j' (by omega) h5

theorem first_move' (x : Exec cfg s0) {t : Tid} {i : Nat} (h : ∃ j, i ≤ j ∧ Moves x t j) :
    ∃ j, i ≤ j ∧ Moves x t j ∧ ∀ j', i ≤ j' → j' < j → ¬ Moves x t j' := by
  obtain ⟨j, hij, hm⟩ := h
  obtain ⟨d, rfl⟩ : ∃ d, j = i + d := ⟨j - i, by omega⟩
  exact first_move x d i hm

/-- Weak fairness enters the proof only here: a thread that stays `Ready` as long as it does not
    move, moves. -/
theorem fair_move (x : Exec cfg s0) (hf : WeakFair x) {t : Tid} {i : Nat}
    (h : ∀ j, i ≤ j → (∀ j', i ≤ j' → j' < j → ¬ Moves x t j') → Ready cfg (x.ρ j) t) :
    ∃ j, i ≤ j ∧ Moves x t j := by
  apply Classical.byContradiction
  intro hn
  have hnm : ∀ j, i ≤ j → ¬ Moves x t j := fun j hj hm => hn ⟨j, hj, hm⟩
  obtain ⟨j, hj, hm⟩ := hf t i (fun j hj => h j hj (fun j' h1 _ => hnm j' h1))
  exact hnm j hj hm

/-! ### the leads-to rule -/

theorem stay_until (x : Exec cfg s0) {t : Tid} {R G : Nat → Prop} {rk : Nat → Nat}
    (hstay : ∀ j, R j → ¬ Moves x t j → G (j + 1) ∨ (R (j + 1) ∧ rk (j + 1) ≤ rk j)) {i : Nat} :
    ∀ d, (∀ j, i ≤ j → j < i + d → ¬ Moves x t j) → R i →
      (∃ j, i ≤ j ∧ G j) ∨ (R (i + d) ∧ rk (i + d) ≤ rk i) := by
  intro d
  induction d with
  | zero => intro _ h; exact .inr ⟨h, Nat.le_refl _⟩
  | succ d ih =>
    intro h hR
    rcases ih (fun j h1 h2 => h j h1 (by omega)) hR with hg | ⟨a, b⟩
    · exact .inl hg
    · rcases hstay (i + d) a (h (i + d) (by omega) (by omega)) with hg | ⟨a', b'⟩
      · exact .inl ⟨i + d + 1, by omega, hg⟩
      · exact .inr ⟨a', by rw [show i + (d + 1) = i + d + 1 by omega]; omega⟩

/-- Leads-to by a local rank: in the class of states `R` (indexed by time) thread `t` always
    moves again, steps of the others keep `R` and do not increase the rank, every step of `t`
    keeps `R` and decreases the rank — unless the goal `G` is reached.  Then `G` is reached. -/
theorem leads (x : Exec cfg s0) (t : Tid) (R G : Nat → Prop) (rk : Nat → Nat)
    (hstay : ∀ j, R j → ¬ Moves x t j → G (j + 1) ∨ (R (j + 1) ∧ rk (j + 1) ≤ rk j))
    (hmove : ∀ j, R j → Moves x t j → G (j + 1) ∨ (R (j + 1) ∧ rk (j + 1) < rk j))
    (hlive : ∀ j, R j → ∃ j', j ≤ j' ∧ Moves x t j') :
    ∀ i, R i → ∃ j, i ≤ j ∧ G j := by
  have key : ∀ m i, rk i ≤ m → R i → ∃ j, i ≤ j ∧ G j := by
    intro m
    induction m with
    | zero =>
      intro i hm hR
      obtain ⟨j', h1, h2, h3⟩ := first_move' x (hlive i hR)
      obtain ⟨d, rfl⟩ : ∃ d, j' = i + d := ⟨j' - i, by omega⟩
      rcases stay_until x hstay d h3 hR with hg | ⟨a, b⟩
      · exact hg
      · rcases hmove (i + d) a h2 with hg | ⟨_, c⟩
        · exact ⟨i + d + 1, by omega, hg⟩
        · omega
    | succ m ih =>
      intro i hm hR
      obtain ⟨j', h1, h2, h3⟩ := first_move' x (hlive i hR)
      obtain ⟨d, rfl⟩ : ∃ d, j' = i + d := ⟨j' - i, by omega⟩
      rcases stay_until x hstay d h3 hR with hg | ⟨a, b⟩
      · exact hg
      · rcases hmove (i + d) a h2 with hg | ⟨a', c⟩
        · exact ⟨i + d + 1, by omega, hg⟩
        · obtain ⟨j, hj, hG⟩ := ih (i + d + 1) (by omega) a'
          exact ⟨j, by omega, hG⟩
  intro i hR
  exact key (rk i) i (Nat.le_refl _) hR

end Once
