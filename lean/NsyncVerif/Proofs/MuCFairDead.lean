import NsyncVerif.Proofs.MuCTraceDead
import NsyncVerif.Proofs.MuCFairLasso
/-
  MuC, DEFECT F9 of the code before its repair (mu_try_acquire_after_timeout_or_cancel waited for MU_LONG_WAIT even when
  the thread had been woken).  `stepOldF9` / `runOldF9` are the acceptor for mu_wait.c as it was: they differ from `step` /
  `run` at the program points `mtLd` (the loop test, which goes straight on to the MU_WRITER_WAITING attempt / the
  re-load) and `mtCasAcq` (a failed CAS) only — the load of `waiting` at the top of the loop body (`mtLdWk`) did not exist.
  `traceDead` (Proofs/MuCTraceDead.lean: an execution of the OLD library, reproduced on the harness) is accepted by the old
  acceptor and ends in the dead state; the current acceptor rejects it at the first loop iteration of the timed-out waiter.
  (The statements `C06_fair_termination_full_refuted` etc. of the previous delivery were statements about the old `step`;
  they are replaced by `C06_fair_termination_old_code_witness` in Props/C06FairFull.lean.)
-/
namespace NsyncVerif.MuC

def stepOldF9 (cfg : Cfg) (s : State) : Event → Except String State
  | .ld t o loc obs =>
    match s.pc t with
    | .mtLd c =>
      let old := s.word
      ldWord s o loc obs
        (if !(old.wlock || old.readers != 0 || old.lw || old.spin) then setPc s t (.mtCasAcq c old)
         else if !(old.ww || old.spin) then setPc s t (.mtCasWW c old)
         else setPc s t (.mtLd c))
    | _ => step cfg s (.ld t o loc obs)
  | .cas t o loc exp new obs ok =>
    match s.pc t with
    | .mtCasAcq c old =>
      let nw := mtAcqWord old
      casWord s o .acq loc exp new obs ok old nw
        { setPc s t (.mtLdW c old) with word := nw, sp := some t, wOwner := some t }
        (if !old.ww then setPc s t (.mtCasWW c old) else setPc s t (.mtLd c))
    | _ => step cfg s (.cas t o loc exp new obs ok)
  | e => step cfg s e

def runOldF9 (cfg : Cfg) (s : State) : List Event → Except String State
  | [] => .ok s
  | e :: es =>
    match stepOldF9 cfg s e with
    | .ok s' => runOldF9 cfg s' es
    | .error m => .error m

def afterOldF9 (cfg : Cfg) (evs : List Event) (f : State → Bool) : Bool :=
  match runOldF9 cfg init evs with
  | .ok s => f s
  | .error _ => false

set_option maxRecDepth 4096 in
/-- DEFECT F9 (old code).  `traceDead` is accepted and ends in the dead state: word 116 = MU_WAITING | MU_CONDITION |
    MU_WRITER_WAITING | MU_LONG_WAIT (no lock bit, spinlock free, no designated waker); mu->waiters = [w0], thread 0 asleep
    (count 0) inside nsync_mu_lock; thread 4, inside nsync_mu_wait_with_deadline with the finite deadline 5, timed out,
    woken (`waiting` of its record w3 is clear), at the re-load of its spin loop; nobody holds the mutex. -/
theorem dead_old_accepts : afterOldF9 ⟨false⟩ traceDead (fun s =>
    encode s.word == 116 && s.word.lw && !s.word.wlock && s.word.readers == 0 && !s.word.spin && !s.word.desig &&
    s.queue == [0] && (s.wr 0).sem == 0 && !(s.wr 3).waiting &&
    (match s.pc 0 with | .lsPRet c => c.lwl && decide (c.mw = none) | _ => false) &&
    (match s.pc 4 with | .mtLd c => decide (c.dl = some 5) && decide (c.so = .timedout) | _ => false) &&
    decide (s.pc 1 = .idle) && decide (s.pc 3 = .idle) && decide (s.held 1 = none) && decide (s.held 3 = none)) = true := by
  decide

set_option maxRecDepth 4096 in
/-- … and there the spinning thread's re-load leads back to the same program point, for ever (old rule): the word has
    MU_LONG_WAIT and MU_WRITER_WAITING. -/
theorem dead_old_spins : afterOldF9 ⟨false⟩ (traceDead ++ [.ld 4 .rlx .word 116, .ld 4 .rlx .word 116, .ld 4 .rlx .word 116])
    (fun s => match s.pc 4 with | .mtLd _ => encode s.word == 116 | _ => false) = true := by
  decide

set_option maxRecDepth 4096 in
/-- The repaired acceptor rejects the trace (at event 867, the first loop iteration of the timed-out waiter: the load of
    `waiting` is missing). -/
theorem dead_new_rejects : acceptsF ⟨false⟩ traceDead = false ∧ acceptsF ⟨false⟩ (traceDead.take 867) = true ∧
    acceptsF ⟨false⟩ (traceDead.take 868) = false := by
  decide

end NsyncVerif.MuC
