import NsyncVerif.Proofs.MuCTraceDead
import NsyncVerif.Proofs.MuCFairLasso
import NsyncVerif.Proofs.MuCInv11
/-
  MuC: the execution `traceDead` (Proofs/MuCTraceDead.lean) ends in a dead mutex; continued by the spinning of the
  timed-out waiter it is an infinite execution that satisfies every hypothesis of `C06_fair_termination_full` and in which
  a nsync_mu_wait_with_deadline call with a FINITE deadline and a nsync_mu_lock call never return.
-/
namespace NsyncVerif.MuC

/-- A check along a long trace, in two halves (keeps `decide` within the recursion limit). -/
theorem allStates_split {cfg : Cfg} {f : State → Bool} {evs : List Event} {sf : State} (h : run cfg init evs = .ok sf) (n : Nat)
    (h1 : allStates cfg f init (evs.take n) = true)
    (h2 : allStates cfg f (stateAt cfg evs n) (evs.drop n) = true) (i : Nat) : f (stateAt cfg evs i) = true := by
  by_cases hi : n ≤ i
  · exact allStates_from h n h2 i hi
  · have hr := stateAt_ok h i
    have : evs.take i = (evs.take n).take i := by rw [List.take_take]; congr 1; omega
    rw [this] at hr
    exact allStates_take _ _ h1 i _ hr

set_option maxRecDepth 4096 in
theorem dead_accepts : acceptsF ⟨false⟩ traceDead = true := by decide

/-- The dead state. -/
def deadA : State := stateAt ⟨false⟩ traceDead traceDead.length

theorem dead_run : run ⟨false⟩ init traceDead = .ok deadA := run_of_accepts dead_accepts

theorem dead_reachable : Reachable ⟨false⟩ deadA := ⟨traceDead, dead_run⟩

theorem setPc_self (s : State) (t : Tid) : setPc s t (s.pc t) = s := by
  cases s; simp [setPc, setFn_self]

/-- The timed-out waiter re-loads the word: MU_LONG_WAIT and MU_WRITER_WAITING are set, it goes round its loop. -/
def deadLoop : List Event := [.ld 4 .rlx .word 116]

set_option maxRecDepth 4096 in
theorem dead_pc4 : ∃ c, deadA.pc 4 = .mtLd c ∧ c.dl = some 5 := by
  have h : (match deadA.pc 4 with | .mtLd c => decide (c.dl = some 5) | _ => false) = true := by decide
  cases hp : deadA.pc 4 <;> rw [hp] at h <;> try (cases h; done)
  rename_i c
  exact ⟨c, rfl, by simpa using h⟩

set_option maxRecDepth 4096 in
theorem dead_loop : run ⟨false⟩ deadA deadLoop = .ok deadA := by
  obtain ⟨c, hpc, _⟩ := dead_pc4
  have hw : encode deadA.word = 116 := by decide
  have hlw : deadA.word.lw = true := by decide
  have hww : deadA.word.ww = true := by decide
  have h1 : step ⟨false⟩ deadA (.ld 4 .rlx .word 116) = .ok deadA := by
    simp only [step, stepLd, hpc, ldWord, hw]
    simp only [hlw, hww, Bool.or_true, Bool.true_or, Bool.not_true, Bool.false_eq_true, if_false, ne_eq, not_true_eq_false]
    rw [← hpc, setPc_self]
  simp [deadLoop, run, h1]

/-- `traceDead`, then the timed-out waiter spinning for ever. -/
def deadExec : Exec ⟨false⟩ init := lassoExec ⟨false⟩ traceDead deadLoop deadA dead_run dead_loop (by decide)

theorem lasso_all' {cfg : Cfg} {evs loop : List Event} {sf : State} (h : run cfg init evs = .ok sf)
    (hl : run cfg sf loop = .ok sf) (hp : 0 < loop.length) (f : State → Bool) (h1 : ∀ i, f (stateAt cfg evs i) = true)
    (h2 : allStates cfg f sf loop = true) (j : Nat) : f ((lassoExec cfg evs loop sf h hl hp).ρ j) = true := by
  by_cases hj : j < evs.length
  · rw [(lasso_head h hl hp hj).1]; exact h1 j
  · rw [(lassoExec_tail h hl hp (by omega)).1]
    exact allStates_take loop sf h2 _ _ (stateFrom_ok hl _)

end NsyncVerif.MuC
