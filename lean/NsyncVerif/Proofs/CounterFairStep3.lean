/-
  Proofs/CounterFairStep3.lean — Counter layer, fair release WITHOUT `FiniteArrivals`: per-step facts
  for "at zero, counter_mu is acquired only finitely often": an add with a non-zero delta cannot get
  past its CAS at zero (contract), a free that takes counter_mu frees the object (after which no call
  is accepted), a wait that starts at zero does not lock.
-/
import NsyncVerif.Proofs.CounterFairStep

namespace Counter

/-- the delta of an add that goes through counter_mu -/
def aDelta : PC → Option Int
  | .aLockCall d | .aLockWait d | .aLoad d | .aCas d _ | .aLoadWaited d _ _ | .aHeld d _ _ _
  | .aPost d _ _ _ | .aUnlockWait d _ _ | .aRet d _ _ => some d
  | _ => none

/-- acquisitions of counter_mu a nsync_counter_wait past its first ready_time can still make -/
def lrank0 : PC → Nat
  | .wInit _ | .wEnqLockCall _ _ | .wEnqLockWait _ _ => 2
  | .wEnqLoad _ _ | .wEnqStore _ _ _ | .wEnqUnlockCall _ _ _ | .wEnqUnlockWait _ _ _
  | .wLoopStore _ _ | .wLoopLoad _ _ | .wPdEnter _ _ | .wPdWait _ _ _
  | .wDeqLockCall _ _ _ | .wDeqLockWait _ _ _ => 1
  | _ => 0

structure Prog3 (s : State) (t : Tid) (e : Ev) (s' : State) : Prop where
  callfreed : e.isCall = true → s.sh.phase ≠ .freed
  freedabs : s.sh.phase = .freed → s'.sh.phase = .freed
  fpath1 : s.pc t = .fHeld → s'.pc t = .fHeld ∨ s'.pc t = .fUnlockWait
  fpath2 : s.pc t = .fUnlockWait → s'.pc t = .fUnlockWait ∨ s'.pc t = .fFree
  fpath3 : s.pc t = .fFree → s'.pc t = .fFree ∨ s'.sh.phase = .freed
  apath : ∀ d, s.pc t = .aLoad d → s'.pc t = .aLoad d ∨ s'.pc t = .aCas d s.sh.value
  casstuck : ∀ d v, s.pc t = .aCas d v → v = s.sh.value → s.sh.value = 0 → s.sh.waited = true → d ≠ 0 →
      s'.pc t = s.pc t
  dnz : (∀ d, aDelta (s.pc t) = some d → d ≠ 0) → ∀ d, aDelta (s'.pc t) = some d → d ≠ 0
  lrk0 : s.sh.value = 0 → lrank0 (s'.pc t) ≤ lrank0 (s.pc t)
  acqkind : holds (s.pc t) = false → holds (s'.pc t) = true →
      s'.pc t = .fHeld ∨ (∃ d, s'.pc t = .aLoad d) ∨ lrank0 (s'.pc t) < lrank0 (s.pc t)

theorem dflt_prog3 {s s' : State} {idle : Bool} {e : Ev} (t : Tid)
    (h : dflt s idle e = .ok s') : Prog3 s t e s' := by
  unfold dflt at h
  repeat' (split at h)
  all_goals first
    | (cases h; done)
    | (cases h; constructor <;> simp_all [Shared.setSem, Ev.isCall] <;> grind)

set_option hygiene false in
macro "prog3_open" : tactic => `(tactic| (
  simp only [stepThr, hpc] at h
  repeat' (split at h)
  all_goals first | (cases h; done) | exact dflt_prog3 t h | skip
  all_goals (cases h; (try simp only [setPc_eq]))
  all_goals try (have hm := useMu_eq (by assumption); subst hm)
  all_goals try (rcases bind_eq (by assumption) with ⟨hb1, hb2⟩ | ⟨hb1, hb2, hb3⟩ <;> first | subst hb1 | subst hb3)))

set_option hygiene false in
macro "prog3_tac" : tactic => `(tactic| (
  constructor <;>
    (simp only [State.mk', Shared.setSem, Shared.setRec, Shared.setSemUser, Shared.release, aDelta, lrank0,
      holds, Ev.isCall, hpc, if_pos] <;>
     first | (intros; trivial) | grind | (intros; simp_all <;> grind))))

variable {s s' : State} {t : Tid} {e : Ev}

theorem prog3_idle (hpc : s.pc t = .idle) (h : stepThr s t e = .ok s') : Prog3 s t e s' := by
  prog3_open
  all_goals prog3_tac

theorem prog3_newMalloc {v} (hpc : s.pc t = .newMalloc v) (h : stepThr s t e = .ok s') : Prog3 s t e s' := by
  prog3_open
  all_goals prog3_tac

theorem prog3_newStore {v} (hpc : s.pc t = .newStore v) (h : stepThr s t e = .ok s') : Prog3 s t e s' := by
  prog3_open
  all_goals prog3_tac

theorem prog3_newRet {ok} (hpc : s.pc t = .newRet ok) (h : stepThr s t e = .ok s') : Prog3 s t e s' := by
  prog3_open
  all_goals prog3_tac

theorem prog3_fLockCall (hpc : s.pc t = .fLockCall) (h : stepThr s t e = .ok s') : Prog3 s t e s' := by
  prog3_open
  all_goals prog3_tac

theorem prog3_fLockWait (hpc : s.pc t = .fLockWait) (h : stepThr s t e = .ok s') : Prog3 s t e s' := by
  prog3_open
  all_goals prog3_tac

theorem prog3_fHeld (hpc : s.pc t = .fHeld) (h : stepThr s t e = .ok s') : Prog3 s t e s' := by
  prog3_open
  all_goals prog3_tac

theorem prog3_fUnlockWait (hpc : s.pc t = .fUnlockWait) (h : stepThr s t e = .ok s') : Prog3 s t e s' := by
  prog3_open
  all_goals prog3_tac

theorem prog3_fFree (hpc : s.pc t = .fFree) (h : stepThr s t e = .ok s') : Prog3 s t e s' := by
  prog3_open
  all_goals prog3_tac

theorem prog3_fRet (hpc : s.pc t = .fRet) (h : stepThr s t e = .ok s') : Prog3 s t e s' := by
  prog3_open
  all_goals prog3_tac

theorem prog3_valLoad (hpc : s.pc t = .valLoad) (h : stepThr s t e = .ok s') : Prog3 s t e s' := by
  prog3_open
  all_goals prog3_tac

theorem prog3_valRet {v} (hpc : s.pc t = .valRet v) (h : stepThr s t e = .ok s') : Prog3 s t e s' := by
  prog3_open
  all_goals prog3_tac

theorem prog3_azLoad (hpc : s.pc t = .azLoad) (h : stepThr s t e = .ok s') : Prog3 s t e s' := by
  prog3_open
  all_goals prog3_tac

theorem prog3_azRet {v} (hpc : s.pc t = .azRet v) (h : stepThr s t e = .ok s') : Prog3 s t e s' := by
  prog3_open
  all_goals prog3_tac

theorem prog3_aLockCall {d} (hpc : s.pc t = .aLockCall d) (h : stepThr s t e = .ok s') : Prog3 s t e s' := by
  prog3_open
  all_goals prog3_tac

theorem prog3_aLockWait {d} (hpc : s.pc t = .aLockWait d) (h : stepThr s t e = .ok s') : Prog3 s t e s' := by
  prog3_open
  all_goals prog3_tac

theorem prog3_aLoad {d} (hpc : s.pc t = .aLoad d) (h : stepThr s t e = .ok s') : Prog3 s t e s' := by
  prog3_open
  all_goals prog3_tac

theorem prog3_aCas {d v} (hpc : s.pc t = .aCas d v) (h : stepThr s t e = .ok s') : Prog3 s t e s' := by
  prog3_open
  all_goals prog3_tac

theorem prog3_aLoadWaited {d r idx} (hpc : s.pc t = .aLoadWaited d r idx) (h : stepThr s t e = .ok s') : Prog3 s t e s' := by
  prog3_open
  all_goals prog3_tac

theorem prog3_aHeld {d r idx wake} (hpc : s.pc t = .aHeld d r idx wake) (h : stepThr s t e = .ok s') : Prog3 s t e s' := by
  prog3_open
  all_goals prog3_tac

theorem prog3_aPost {d r idx k} (hpc : s.pc t = .aPost d r idx k) (h : stepThr s t e = .ok s') : Prog3 s t e s' := by
  prog3_open
  all_goals prog3_tac

theorem prog3_aUnlockWait {d r idx} (hpc : s.pc t = .aUnlockWait d r idx) (h : stepThr s t e = .ok s') : Prog3 s t e s' := by
  prog3_open
  all_goals prog3_tac

theorem prog3_aRet {d r idx} (hpc : s.pc t = .aRet d r idx) (h : stepThr s t e = .ok s') : Prog3 s t e s' := by
  prog3_open
  all_goals prog3_tac

theorem prog3_w0Store {dl} (hpc : s.pc t = .w0Store dl) (h : stepThr s t e = .ok s') : Prog3 s t e s' := by
  prog3_open
  all_goals prog3_tac

theorem prog3_w0Load {dl} (hpc : s.pc t = .w0Load dl) (h : stepThr s t e = .ok s') : Prog3 s t e s' := by
  prog3_open
  all_goals prog3_tac

theorem prog3_wInit {dl} (hpc : s.pc t = .wInit dl) (h : stepThr s t e = .ok s') : Prog3 s t e s' := by
  prog3_open
  all_goals prog3_tac

theorem prog3_wEnqLockCall {dl k} (hpc : s.pc t = .wEnqLockCall dl k) (h : stepThr s t e = .ok s') : Prog3 s t e s' := by
  prog3_open
  all_goals prog3_tac

theorem prog3_wEnqLockWait {dl k} (hpc : s.pc t = .wEnqLockWait dl k) (h : stepThr s t e = .ok s') : Prog3 s t e s' := by
  prog3_open
  all_goals prog3_tac

theorem prog3_wEnqLoad {dl k} (hpc : s.pc t = .wEnqLoad dl k) (h : stepThr s t e = .ok s') : Prog3 s t e s' := by
  prog3_open
  all_goals prog3_tac

theorem prog3_wEnqStore {dl k v} (hpc : s.pc t = .wEnqStore dl k v) (h : stepThr s t e = .ok s') : Prog3 s t e s' := by
  prog3_open
  all_goals prog3_tac

theorem prog3_wEnqUnlockCall {dl k enq} (hpc : s.pc t = .wEnqUnlockCall dl k enq) (h : stepThr s t e = .ok s') : Prog3 s t e s' := by
  prog3_open
  all_goals prog3_tac

theorem prog3_wEnqUnlockWait {dl k enq} (hpc : s.pc t = .wEnqUnlockWait dl k enq) (h : stepThr s t e = .ok s') : Prog3 s t e s' := by
  prog3_open
  all_goals prog3_tac

theorem prog3_wLoopStore {dl k} (hpc : s.pc t = .wLoopStore dl k) (h : stepThr s t e = .ok s') : Prog3 s t e s' := by
  prog3_open
  all_goals prog3_tac

theorem prog3_wLoopLoad {dl k} (hpc : s.pc t = .wLoopLoad dl k) (h : stepThr s t e = .ok s') : Prog3 s t e s' := by
  prog3_open
  all_goals prog3_tac

theorem prog3_wPdEnter {dl k} (hpc : s.pc t = .wPdEnter dl k) (h : stepThr s t e = .ok s') : Prog3 s t e s' := by
  prog3_open
  all_goals prog3_tac

theorem prog3_wPdWait {dl k j} (hpc : s.pc t = .wPdWait dl k j) (h : stepThr s t e = .ok s') : Prog3 s t e s' := by
  prog3_open
  all_goals prog3_tac

theorem prog3_wDeqLockCall {dl k tmo} (hpc : s.pc t = .wDeqLockCall dl k tmo) (h : stepThr s t e = .ok s') : Prog3 s t e s' := by
  prog3_open
  all_goals prog3_tac

theorem prog3_wDeqLockWait {dl k tmo} (hpc : s.pc t = .wDeqLockWait dl k tmo) (h : stepThr s t e = .ok s') : Prog3 s t e s' := by
  prog3_open
  all_goals prog3_tac

theorem prog3_wDeqLoadV {dl k tmo} (hpc : s.pc t = .wDeqLoadV dl k tmo) (h : stepThr s t e = .ok s') : Prog3 s t e s' := by
  prog3_open
  all_goals prog3_tac

theorem prog3_wDeqLoadW {dl k tmo v} (hpc : s.pc t = .wDeqLoadW dl k tmo v) (h : stepThr s t e = .ok s') : Prog3 s t e s' := by
  prog3_open
  all_goals prog3_tac

theorem prog3_wDeqStore {dl k tmo v} (hpc : s.pc t = .wDeqStore dl k tmo v) (h : stepThr s t e = .ok s') : Prog3 s t e s' := by
  prog3_open
  all_goals prog3_tac

theorem prog3_wDeqUnlockCall {dl k tmo v} (hpc : s.pc t = .wDeqUnlockCall dl k tmo v) (h : stepThr s t e = .ok s') : Prog3 s t e s' := by
  prog3_open
  all_goals prog3_tac

theorem prog3_wDeqUnlockWait {dl k tmo v} (hpc : s.pc t = .wDeqUnlockWait dl k tmo v) (h : stepThr s t e = .ok s') : Prog3 s t e s' := by
  prog3_open
  all_goals prog3_tac

theorem prog3_wFinalLoad {dl} (hpc : s.pc t = .wFinalLoad dl) (h : stepThr s t e = .ok s') : Prog3 s t e s' := by
  prog3_open
  all_goals prog3_tac

theorem prog3_wRet {dl r} (hpc : s.pc t = .wRet dl r) (h : stepThr s t e = .ok s') : Prog3 s t e s' := by
  prog3_open
  all_goals prog3_tac

theorem prog3_stepThr (h : stepThr s t e = .ok s') : Prog3 s t e s' := by
  cases hpc : s.pc t with
  | idle  => exact prog3_idle hpc h
  | newMalloc v => exact prog3_newMalloc hpc h
  | newStore v => exact prog3_newStore hpc h
  | newRet ok => exact prog3_newRet hpc h
  | fLockCall  => exact prog3_fLockCall hpc h
  | fLockWait  => exact prog3_fLockWait hpc h
  | fHeld  => exact prog3_fHeld hpc h
  | fUnlockWait  => exact prog3_fUnlockWait hpc h
  | fFree  => exact prog3_fFree hpc h
  | fRet  => exact prog3_fRet hpc h
  | valLoad  => exact prog3_valLoad hpc h
  | valRet v => exact prog3_valRet hpc h
  | azLoad  => exact prog3_azLoad hpc h
  | azRet v => exact prog3_azRet hpc h
  | aLockCall d => exact prog3_aLockCall hpc h
  | aLockWait d => exact prog3_aLockWait hpc h
  | aLoad d => exact prog3_aLoad hpc h
  | aCas d v => exact prog3_aCas hpc h
  | aLoadWaited d r idx => exact prog3_aLoadWaited hpc h
  | aHeld d r idx wake => exact prog3_aHeld hpc h
  | aPost d r idx k => exact prog3_aPost hpc h
  | aUnlockWait d r idx => exact prog3_aUnlockWait hpc h
  | aRet d r idx => exact prog3_aRet hpc h
  | w0Store dl => exact prog3_w0Store hpc h
  | w0Load dl => exact prog3_w0Load hpc h
  | wInit dl => exact prog3_wInit hpc h
  | wEnqLockCall dl k => exact prog3_wEnqLockCall hpc h
  | wEnqLockWait dl k => exact prog3_wEnqLockWait hpc h
  | wEnqLoad dl k => exact prog3_wEnqLoad hpc h
  | wEnqStore dl k v => exact prog3_wEnqStore hpc h
  | wEnqUnlockCall dl k enq => exact prog3_wEnqUnlockCall hpc h
  | wEnqUnlockWait dl k enq => exact prog3_wEnqUnlockWait hpc h
  | wLoopStore dl k => exact prog3_wLoopStore hpc h
  | wLoopLoad dl k => exact prog3_wLoopLoad hpc h
  | wPdEnter dl k => exact prog3_wPdEnter hpc h
  | wPdWait dl k j => exact prog3_wPdWait hpc h
  | wDeqLockCall dl k tmo => exact prog3_wDeqLockCall hpc h
  | wDeqLockWait dl k tmo => exact prog3_wDeqLockWait hpc h
  | wDeqLoadV dl k tmo => exact prog3_wDeqLoadV hpc h
  | wDeqLoadW dl k tmo v => exact prog3_wDeqLoadW hpc h
  | wDeqStore dl k tmo v => exact prog3_wDeqStore hpc h
  | wDeqUnlockCall dl k tmo v => exact prog3_wDeqUnlockCall hpc h
  | wDeqUnlockWait dl k tmo v => exact prog3_wDeqUnlockWait hpc h
  | wFinalLoad dl => exact prog3_wFinalLoad hpc h
  | wRet dl r => exact prog3_wRet hpc h

end Counter
