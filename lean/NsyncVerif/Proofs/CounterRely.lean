/-
  Proofs/CounterRely.lean — program-point facts are stable under the steps of other threads.
-/
import NsyncVerif.Proofs.CounterInv

namespace Counter

theorem pcInv_rely {sh sh' : Shared} {u : Tid} {p : PC} (r : Rely sh sh' u)
    (h : pcInv sh u p) : pcInv sh' u p := by
  obtain ⟨hl, hf⟩ := h
  refine ⟨by rw [r.lock]; exact hl, ?_⟩
  have hh := r.held
  have hw := r.heldw
  have hc := r.created
  have hwt := r.waited
  have hown := r.ownP
  have hsem := r.sem
  have hz := r.zstable
  have hwf := r.wfalse
  have hwk := r.wk
  have hwk' := r.wk'
  have hsp := r.spos
  have hg := @addGhost_mono sh sh' 
  have hm := @mem_hist_mono sh sh'
  have he := @expired_mono
  have hn := r.now
  have hhist := r.hist
  cases p <;> simp only [pcFacts, holds, Bool.false_eq_true, iff_false, iff_true] at hf hl ⊢
  all_goals first | trivial | skip
  all_goals grind [woken]

end Counter
