/-
  Layer `CvFix` (cv.c with the repair of F3; adapted from the `Cv` file of the same name): structural invariant — transitions that change the status of one record.
-/
import NsyncVerif.Proofs.CvFixInvAOne

namespace NsyncVerif.CvFix

set_option hygiene false in
/-- Unpack the facts of the acting thread at its current program point. -/
macro "tfacts" hl:ident : tactic =>
  `(tactic| (
     have ht := hi.thr t
     obtain ⟨t1, t2, t3, t4, t5, t6, t7, t8, t9, t10, t11, t12⟩ := ht
     simp only [waitLive, waitPrep, inWaitN, Loc.wakePhase, Loc.holds, $hl:ident] at t1 t2 t3 t4 t5 t8 t9 t10 t11 t12))

theorem invA_wSt1 {s : State} (hi : InvA s) (t : Tid) (r : Rid) (hl : (s.thr t).loc = .wNew) (hm : r.isMucv = true)
    (hst : (s.recs r).stat = .idle) :
    InvA (s.setRec r { s.recs r with waiting := true, owner := t, stat := .prep, pub := false, unl := [], posted := false, lt := .gen }
          |>.setThr t (if (s.thr t).gen then { s.thr t with r := r, loc := .spLd0, cont := .waitEnq, setNE := true }
                       else { s.thr t with r := r, loc := .wMode })) := by
  tfacts hl
  have hlist : (s.thr t).list = [] := t1 trivial
  have hmine : (s.thr t).mine = [] := t8 trivial
  have hnl : ∀ u, (s.recs r).stat ≠ .listed u := by intro u; rw [hst]; simp
  by_cases hg : (s.thr t).gen = true <;> simp only [hg, if_true, if_false]
  all_goals
    refine invA_one_nolock (t := t) (r := r) hi rfl rfl rfl (fun u hu => by simp [hu])
      (fun q hq => by simp [hq]) (by simp [hl, Loc.holds]) (by simp [Loc.holds]) (by simp [hst]) (by simp)
      (by simp) (by simp [hlist]) ?_ ?_ (by simp [hst]) ?_
    · intro q
      simp only [setThr_thr, if_true, setThr_recs, setRec_recs, hlist]
      by_cases hq : q = r
      · subst hq; simp
      · simp [hq]; have := (hi.lMem t q).mpr; simp [hlist] at this; exact this
    · intro u hu; simp [hst]
    · constructor <;> simp [waitLive, waitPrep, inWaitN, Loc.wakePhase, hlist, hmine, hm]

theorem invA_wake {s : State} (hi : InvA s) (t : Tid) (r : Rid) (hl : (s.thr t).loc = .wwStore)
    (hr : (s.thr t).list.head? = some r) :
    InvA (s.setRec r { s.recs r with waiting := false, stat := match (s.recs r).stat with | .listed _ => .woken | st => st }
          |>.setThr t { s.thr t with list := (s.thr t).list.tail, cur := some (r, (s.recs r).enqSeq), loc := .wwV }) := by
  tfacts hl
  obtain ⟨rest, hlist⟩ : ∃ rest, (s.thr t).list = r :: rest := by
    cases h : (s.thr t).list with
    | nil => rw [h] at hr; simp at hr
    | cons a b => rw [h] at hr; simp at hr; subst hr; exact ⟨b, rfl⟩
  have hst : (s.recs r).stat = .listed t := (hi.lMem t r).mp (by rw [hlist]; simp)
  have hnd := hi.lNd t
  rw [hlist] at hnd
  have hmine : (s.thr t).mine = [] := t8 trivial
  simp only [hst, hlist, List.tail_cons]
  refine invA_one_nolock (t := t) (r := r) hi rfl rfl rfl (fun u hu => by simp [hu])
    (fun q hq => by simp [hq]) (by simp [hl, Loc.holds]) (by simp [Loc.holds]) (by simp [hst]) (by simp)
    (by simp) (by simpa using (List.nodup_cons.mp hnd).2) ?_ ?_ ?_ ?_
  · intro q
    simp only [setThr_thr, if_true, setThr_recs, setRec_recs]
    by_cases hq : q = r
    · subst hq; simp; exact (List.nodup_cons.mp hnd).1
    · simp [hq]
      have := hi.lMem t q
      rw [hlist] at this
      simp [hq] at this
      exact this
  · intro u hu
    simp [hst]
    exact fun e => hu e.symm
  · intro _
    right
    constructor <;> simp [hst, RStat.live]
  · constructor <;> simp [waitLive, waitPrep, inWaitN, Loc.wakePhase, hmine]

theorem invA_wHeadExit {s : State} (hi : InvA s) (t : Tid) (r : Rid) (b : Bool) (ul : List Unl)
    (hl : (s.thr t).loc = .wHead) (hr : r = (s.thr t).r)
    (hbad : (s.recs r).stat.registered = false) :
    InvA (s.setRec r { s.recs r with stat := .idle }
          |>.setThr t { s.thr t with loc := .wExit, xferd := b, exitUnl := ul }) := by
  tfacts hl
  subst hr
  have hlist : (s.thr t).list = [] := t1 trivial
  have hmine : (s.thr t).mine = [] := t8 trivial
  have hnq : (s.recs (s.thr t).r).stat ≠ .queued := by intro e; rw [e] at hbad; simp [RStat.registered] at hbad
  have hnl : ∀ u, (s.recs (s.thr t).r).stat ≠ .listed u := by intro u e; rw [e] at hbad; simp [RStat.registered] at hbad
  refine invA_one_nolock (t := t) (r := (s.thr t).r) hi rfl rfl rfl (fun u hu => by simp [hu])
    (fun q hq => by simp [hq]) (by simp [hl, Loc.holds]) (by simp [Loc.holds]) hnq (by simp)
    (by simp) (by simp [hlist]) ?_ ?_ ?_ ?_
  · intro q
    simp only [setThr_thr, if_true, setThr_recs, setRec_recs, hlist]
    by_cases hq : q = (s.thr t).r
    · subst hq; simp
    · simp [hq]; have := (hi.lMem t q).mpr; simp [hlist] at this; exact this
  · intro u hu; simp [hnl u]
  · intro _; left; exact (t3 trivial).1
  · constructor <;> simp [waitLive, waitPrep, inWaitN, Loc.wakePhase, hlist, hmine]

end NsyncVerif.CvFix
