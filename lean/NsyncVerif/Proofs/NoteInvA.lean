/-
  Layer `Note`, invariant family A: allocation and the privacy of a note that is being created.
-/
import NsyncVerif.Proofs.NoteDefs

set_option linter.unusedSimpArgs false

namespace Note

structure InvA (s : State) : Prop where
  /-- the note a thread is creating is allocated and not yet published -/
  creating : ∀ t n, (s.pc t).creating = some n →
    (s.notes n).allocated = true ∧ s.published n = false
  /-- … and no other thread is creating the same note -/
  unique : ∀ t u n, (s.pc t).creating = some n → (s.pc u).creating = some n → t = u
  published : ∀ n, s.published n = true → (s.notes n).allocated = true
  flag : ∀ n, (s.notes n).notified = true → (s.notes n).allocated = true

theorem InvA.init : InvA Note.init := by
  refine ⟨?_, ?_, ?_, ?_⟩ <;> simp [Note.init, NoteRec.blank]

@[simp] theorem afterDeadlinePc_creating (n : NoteId) (nt : Dl) (k : DK) :
    (afterDeadlinePc n nt k).creating = bif k.isNew then some n else none := by
  cases k with
  | isNotified => simp [afterDeadlinePc]
  | notifyApi =>
    by_cases h : nt.pos <;> simp [afterDeadlinePc, h]
  | newSelf par dl =>
    by_cases h : nt.pos <;> cases par <;> simp [afterDeadlinePc, h]
  | ready1 wdl =>
    by_cases h : nt.pos ∧ wdl.pos <;> simp [afterDeadlinePc, h]
  | ready2 r wdl =>
    by_cases h : (Dl.min wdl nt).pos <;> simp [afterDeadlinePc, h]
  | dequeue r wdl => simp [afterDeadlinePc]

@[simp] theorem childReturnPc_creating (f : Frame) (rest : List Frame) (top : Top) :
    (childReturnPc f rest top).creating = bif top.k.isNew then some top.n else none := by
  unfold childReturnPc
  cases rest with
  | cons g gs => simp
  | nil => cases h : top.par <;> simp

@[simp] theorem childLoopStartPc_creating (cs : List NoteId) (f : Frame) (rest : List Frame)
    (top : Top) :
    (childLoopStartPc cs f rest top).creating = bif top.k.isNew then some top.n else none := by
  cases cs <;> simp [childLoopStartPc]

@[simp] theorem freeLoopStartPc_creating (cs : List NoteId) (n : NoteId) (par : Option NoteId) :
    (freeLoopStartPc cs n par).creating = none := by
  cases cs <;> simp [freeLoopStartPc]

@[simp] theorem afterNotifyPc_creating (n : NoteId) (k : NK) :
    (afterNotifyPc n k).creating = bif k.isNew then some n else none := by
  cases k <;> simp [afterNotifyPc]

@[simp] theorem childWakeNextPc_creating (s : State) (f : Frame) (rest : List Frame) (top : Top) :
    (childWakeNextPc s f rest top).creating = bif top.k.isNew then some top.n else none := by
  unfold childWakeNextPc; split <;> simp

/-- How the note being created by the acting thread evolves. -/
theorem step_creating {s s' : State} {e : Event} (hs : step s e = .ok s') (a : Tid)
    (ha : e.actor = some a) :
    (s'.pc a).creating = (s.pc a).creating ∨ (s'.pc a).creating = none ∨
    (∃ k, (s.notes k).allocated = false ∧ (s'.notes k).allocated = true ∧
      s'.published k = s.published k ∧ (s'.pc a).creating = some k) := by
  cases e
  all_goals step_cases hs
  all_goals simp only [Event.actor, Option.some.injEq, reduceCtorEq] at ha
  all_goals (try subst ha)
  all_goals (try (left; rfl))
  all_goals (first
    | (left; simp [*]; done)
    | (right; left; simp [*]; done)
    | skip)
  all_goals (repeat' split)
  all_goals (first
    | (left; simp [*]; done)
    | (right; left; simp [*]; done)
    | skip)
  · right; right
    exact ⟨_, by assumption, by simp, rfl, by simp⟩

/-- `published` changes only when `nsync_note_new` returns the note. -/
theorem step_published {s s' : State} {e : Event} (hs : step s e = .ok s') :
    s'.published = s.published ∨
    ∃ a n par, e.actor = some a ∧ s.pc a = .retNew n par ∧ s'.pc a = .idle ∧
      s'.published = upd s.published n true := by
  cases e
  all_goals step_cases hs
  all_goals (try (left; rfl))
  all_goals (try (left; simp; done))
  all_goals (repeat' split)
  all_goals (try (left; simp; done))
  all_goals (right; exact ⟨_, _, _, rfl, by assumption, by simp, by simp⟩)

theorem bornNow_isNew {nt : Dl} {k : DK} (h : bornNow nt k = true) : k.isNew = true := by
  cases k <;> simp_all [bornNow]

theorem NK.bornNow_isNew {k : NK} (h : k.bornNow = true) : k.isNew = true := by
  cases k with
  | ofApi => simp [NK.bornNow] at h
  | ofDeadline k => exact Note.bornNow_isNew (nt := some 0) h

theorem afterDeadline_born_cases (s : State) (t : Tid) (n : NoteId) (nt : Dl) (k : DK) :
    (afterDeadline s t n nt k).bornNotified = s.bornNotified ∨
    (k.isNew = true ∧ (afterDeadline s t n nt k).bornNotified = upd s.bornNotified n true) := by
  rw [afterDeadline_bornNotified]
  by_cases h : bornNow nt k = true
  · right; exact ⟨bornNow_isNew h, by simp [h]⟩
  · left; simp [h]

theorem afterNotify_born_cases (s : State) (t : Tid) (n : NoteId) (k : NK) :
    (afterNotify s t n k).bornNotified = s.bornNotified ∨
    (k.isNew = true ∧ (afterNotify s t n k).bornNotified = upd s.bornNotified n true) := by
  cases k with
  | ofApi => left; simp [afterNotify]
  | ofDeadline k => simpa [afterNotify] using afterDeadline_born_cases s t n (some 0) k

/-- `bornNotified` is set only by the thread that is creating the note. -/
theorem step_born {s s' : State} {e : Event} (hs : step s e = .ok s') :
    s'.bornNotified = s.bornNotified ∨
    ∃ a n, e.actor = some a ∧ (s.pc a).creating = some n ∧
      s'.bornNotified = upd s.bornNotified n true := by
  cases e
  all_goals step_cases hs
  all_goals (try (left; rfl))
  all_goals (try (left; simp; done))
  all_goals (repeat' split)
  all_goals (try (left; simp; done))
  all_goals (first
    | (simp only [afterDeadline_bornNotified, afterNotify_bornNotified]; split
       · next hb =>
         right; refine ⟨_, _, rfl, ?_, rfl⟩
         first | simp [*, bornNow_isNew hb] | simp [*, NK.bornNow_isNew hb]
       · left; rfl)
    | (right; refine ⟨_, _, rfl, ?_, (by simp; rfl)⟩; simp [*]))

/-- The expiry time of an allocated note is changed only by the thread that is creating it, when
    the `nsync_note_is_notified (n)` of `nsync_note_new` returns (`newExpiry`). -/
theorem step_expiry {s s' : State} {e : Event} (hs : step s e = .ok s') (k : NoteId)
    (hk : (s.notes k).allocated = true) :
    (s'.notes k).expiry = (s.notes k).expiry ∨
    ∃ a p dl, e.actor = some a ∧ (s.pc a).creating = some k ∧
      ((∃ pos nt, s.pc a = .dl pos k nt (.newSelf (some p) dl)) ∨
       (∃ pos par, s.pc a = .nfy pos k par (.ofDeadline (.newSelf (some p) dl)))) ∧
      (s'.notes k).expiry = Dl.min dl (s.notes p).expiry := by
  have key : ∀ (a : Tid) (n : NoteId) (dk : DK) (x : Dl), e.actor = some a →
      ((∃ pos nt, s.pc a = .dl pos n nt dk) ∨ (∃ pos par, s.pc a = .nfy pos n par (.ofDeadline dk))) →
      x = newExpiryVal s n dk k →
      (x = (s.notes k).expiry ∨
       ∃ a p dl, e.actor = some a ∧ (s.pc a).creating = some k ∧
        ((∃ pos nt, s.pc a = .dl pos k nt (.newSelf (some p) dl)) ∨
         (∃ pos par, s.pc a = .nfy pos k par (.ofDeadline (.newSelf (some p) dl)))) ∧
        x = Dl.min dl (s.notes p).expiry) := by
    intro a n dk x ha hpc hx
    by_cases hkn : k = n
    · subst hkn
      cases dk with
      | newSelf par dl =>
        cases par with
        | none => left; simpa using hx
        | some p =>
          right
          refine ⟨a, p, dl, ha, ?_, hpc, by simpa using hx⟩
          rcases hpc with ⟨pos, nt, h⟩ | ⟨pos, par, h⟩ <;> rw [h] <;> simp
      | _ => left; simpa using hx
    · left; rw [hx, newExpiryVal_ne s dk hkn]
  cases e
  all_goals step_cases hs
  all_goals (try (left; rfl))
  all_goals (try (left; simp; done))
  all_goals (repeat' split)
  all_goals (try (left; simp; done))
  all_goals (first
    | (refine key _ _ _ _ rfl (Or.inl ⟨_, _, by assumption⟩) (by simp); done)
    | (rename_i nk hpc
       cases nk with
       | ofApi => left; simp
       | ofDeadline dk =>
         exact key _ _ dk _ rfl (Or.inr ⟨_, _, hpc⟩) (by simp))
    | (rename_i p hfresh
       left
       have hne : k ≠ p := fun h => by subst h; simp [hk] at hfresh
       simp [hne]))

/-- The flag of a note is set only by a store on an allocated note. -/
theorem step_flag_set {s s' : State} {e : Event} (hs : step s e = .ok s') (k : NoteId)
    (hk : (s'.notes k).notified = true) :
    (s.notes k).notified = true ∨ (s.notes k).allocated = true := by
  cases e
  all_goals step_cases hs
  all_goals (try (left; exact hk))
  all_goals (try (left; simpa using hk))
  all_goals (repeat' split at hk)
  all_goals (try (left; simpa using hk))
  all_goals (first
    | (simp only [childWakeNext_f_notified, setNotified_f_notified] at hk
       split at hk
       · next h => subst h; right; assumption
       · left; exact hk)
    | (simp only [setPc_notes, markBorn_notes, setNotified_f_notified] at hk
       split at hk
       · next h => subst h; right; simp_all
       · left; exact hk)
    | (simp only [setPc_notes, allocNote_f] at hk
       split at hk
       · simp [NoteRec.blank] at hk
       · left; exact hk))

/-- A note becomes allocated only by `malloc`, which returns a blank record. -/
theorem step_alloc {s s' : State} {e : Event} (hs : step s e = .ok s') (k : NoteId)
    (hk : (s'.notes k).allocated = true) :
    (s.notes k).allocated = true ∨
    (∃ a par dl, e = .malloc a (some k) ∧ s.pc a = .newMalloc par dl ∧
      s'.notes k = { NoteRec.blank with expiry := dl, allocated := true } ∧
      s'.pc a = .dl .ld1 k none (.newSelf par dl) ∧ s'.ownDl k = dl ∧
      s'.ancEver k = k :: s.ancOf par ∧ s'.pathMin k = s.minOf dl par ∧
      s'.published = s.published ∧ s'.bornNotified = s.bornNotified ∧ s'.cparent k = par) := by
  have hst := step_stable hs
  cases e
  all_goals step_cases hs
  all_goals (try (left; exact hk))
  all_goals (try (left; simpa using hk))
  all_goals (repeat' split at hk)
  all_goals (try (left; simpa using hk))
  · rename_i _ p hfresh
    by_cases hkp : k = p
    · subst hkp
      right
      exact ⟨_, _, _, rfl, by assumption, by simp, by simp, by simp, by simp, by simp, rfl, rfl,
        by simp⟩
    · left; simpa [hkp] using hk

/-! ### The invariant -/

theorem step_invA {s s' : State} {e : Event} (h : InvA s) (hs : step s e = .ok s') : InvA s' := by
  have hst := step_stable hs
  -- the creating note of every thread after the step
  have key : ∀ t n, (s'.pc t).creating = some n →
      ((s.pc t).creating = some n ∧ (e.actor = some t → (s'.pc t).creating = (s.pc t).creating)) ∨
      (e.actor = some t ∧ (s.notes n).allocated = false ∧ (s'.notes n).allocated = true ∧
        s'.published n = s.published n) := by
    intro t n hc
    by_cases ha : e.actor = some t
    · rcases step_creating hs t ha with h1 | h1 | ⟨k, h1, h2, h3, h4⟩
      · left; exact ⟨h1 ▸ hc, fun _ => h1⟩
      · rw [h1] at hc; simp at hc
      · rw [h4] at hc; cases hc
        right; exact ⟨ha, h1, h2, h3⟩
    · left
      rw [step_pc_other hs t ha] at hc
      exact ⟨hc, fun h' => absurd h' ha⟩
  refine ⟨?_, ?_, ?_, ?_⟩
  · intro t n hc
    rcases key t n hc with ⟨h1, h2⟩ | ⟨ha, h1, h2, h3⟩
    · have ⟨hal, hpub⟩ := h.creating t n h1
      refine ⟨hst.alloc n hal, ?_⟩
      rcases step_published hs with hp | ⟨a, m, par, ha, hpa, hpa', hp⟩
      · rw [hp]; exact hpub
      · rw [hp, upd_apply]; split
        · next hnm =>
          subst hnm
          have : (s.pc a).creating = some n := by rw [hpa]; simp
          have hta : t = a := h.unique t a n h1 this
          subst hta
          rw [hpa'] at hc; simp at hc
        · exact hpub
    · refine ⟨h2, ?_⟩
      rw [h3]
      cases hp : s.published n with
      | false => rfl
      | true => have := h.published n hp; simp [h1] at this
  · intro t u n ht hu
    rcases key t n ht with ⟨h1, _⟩ | ⟨ha, h1, _, _⟩
    · rcases key u n hu with ⟨h2, _⟩ | ⟨_, h2, _, _⟩
      · exact h.unique t u n h1 h2
      · have := (h.creating t n h1).1; simp [h2] at this
    · rcases key u n hu with ⟨h2, _⟩ | ⟨hb, _, _, _⟩
      · have := (h.creating u n h2).1; simp [h1] at this
      · rw [ha] at hb; exact Option.some.inj hb
  · intro n hp
    rcases step_published hs with hq | ⟨a, m, par, ha, hpa, _, hq⟩
    · rw [hq] at hp; exact hst.alloc n (h.published n hp)
    · rw [hq, upd_apply] at hp
      split at hp
      · next hnm =>
        subst hnm
        exact hst.alloc n (h.creating a n (by rw [hpa]; simp)).1
      · exact hst.alloc n (h.published n hp)
  · intro n hf
    rcases step_flag_set hs n hf with h1 | h1
    · exact hst.alloc n (h.flag n h1)
    · exact hst.alloc n h1

theorem Reachable.invA {s : State} (h : Reachable s) : InvA s :=
  Reachable.induction InvA.init (fun _ _ _ _ hi hs => step_invA hi hs) s h

end Note
