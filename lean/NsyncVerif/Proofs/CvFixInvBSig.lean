/-
  Layer `CvFix` (cv.c with the repair of F3; adapted from the `Cv` file of the same name): protocol invariant — `remove_count++` by signal/broadcast, the unlinking step and
  the transfer step.
-/
import NsyncVerif.Proofs.CvFixInvBForeign

namespace NsyncVerif.CvFix

theorem invB_sRcCasOk {s : State} (hi : InvB s) (ha : InvA s) (t : Tid) (r : Rid) (lnew : Loc)
    (hl : (s.thr t).loc = .sRcCas) (hr : (s.thr t).todo.head? = some r)
    (hln : ((s.thr t).todo.tail = [] ∧ lnew = .sRel) ∨ ((s.thr t).todo.tail ≠ [] ∧ lnew = .sRcLd)) :
    InvB (s.setRec r { s.recs r with rc := (s.recs r).rc + 1 }
          |>.setThr t { s.thr t with todo := (s.thr t).todo.tail, firstRc := false, loc := lnew }) := by
  obtain ⟨rest, htd⟩ : ∃ rest, (s.thr t).todo = r :: rest := by
    cases h : (s.thr t).todo with
    | nil => rw [h] at hr; simp at hr
    | cons a b => rw [h] at hr; simp at hr; subst hr; exact ⟨b, rfl⟩
  have hbt := hi.thr t
  have hnd := hbt.todoNd
  rw [htd] at hnd
  have hrl := hbt.todoL r (by rw [htd]; simp)
  have hst : (s.recs r).stat = .listed t := (ha.lMem t r).mp hrl.1
  have hmine : (s.thr t).mine = [] := (ha.thr t).mine0 (by simp [inWaitN, hl])
  rw [htd] at hln
  simp only [List.tail_cons] at hln
  simp only [htd, List.tail_cons]
  obtain ⟨b1, b2, b3, b4, b5, b6, b7, b8⟩ := hi
  constructor
  · intro q u
    by_cases hq : q = r
    · subst hq; simpa using b1 q u
    · simpa [hq] using b1 q u
  · intro q
    by_cases hq : q = r
    · subst hq; simpa using b2 q
    · simpa [hq] using b2 q
  · intro q
    by_cases hq : q = r
    · subst hq; simpa using b3 q
    · simpa [hq] using b3 q
  · intro q
    by_cases hq : q = r
    · subst hq; simpa using b4 q
    · simpa [hq] using b4 q
  · intro q
    by_cases hq : q = r
    · subst hq; simpa using b5 q
    · simpa [hq] using b5 q
  · intro q
    by_cases hq : q = r
    · subst hq; simpa using b6 q
    · simpa [hq] using b6 q
  · intro u
    by_cases hu : u = t
    · subst hu
      obtain ⟨c1, c2, c3, c4, c5, c6, c7, c8, c9, c10, c11, c12, c13, c14⟩ := hbt
      simp only [savedLoc, waitLive, waitPrep, Loc.afterLoop, hl, true_imp_iff] at c1 c2 c3 c4 c5 c6 c7 c8 c13 c14
      rcases hln with ⟨h1, rfl⟩ | ⟨h1, rfl⟩ <;>
        constructor <;> simp [savedLoc, waitLive, waitPrep, Loc.afterLoop, hmine, h1]
      all_goals first
        | exact (List.nodup_cons.mp hnd).2
        | (intro q hq; exact c10 q (by rw [htd]; simp [hq]))
    · refine tinvB_other3 (b7 u) (ha.thr u) (by simp [hu]) ?_ ?_
      · intro q _ _
        by_cases hq : q = r
        · subst hq; simp
        · simp [hq]
      · intro hs
        unfold SvOK
        have hsv := b7 u
        by_cases hq : (s.thr u).r = r
        · simp only [setThr_recs, setRec_recs, hq, if_true]
          refine ⟨by simp [hst], by simp [hst], ?_⟩
          intro w hw
          simp [hst] at hw
          subst hw
          have := (hsv.svL hs t (by rw [hq]; exact hst)).1 (by rw [hq, htd]; simp)
          rw [hq] at this
          simp
          refine ⟨fun hm => absurd hm (List.nodup_cons.mp hnd).1, fun _ => by omega⟩
        · simp only [setThr_recs, setRec_recs, hq, if_false]
          refine ⟨hsv.svQ hs, hsv.svX hs, ?_⟩
          intro w hw
          by_cases hwt : w = t
          · subst hwt
            have := hsv.svL hs w hw
            rw [htd] at this
            simp [hq] at this
            simpa using this
          · simpa [hwt] using hsv.svL hs w hw
  · exact b8

theorem transferSet_mucv (recs : Rid → Rec) (fca : Bool) (f : Rid) (rest : List Rid) (hf : f.isMucv = true) :
    ∀ r, r ∈ transferSet recs fca (f :: rest) → r.isMucv = true := by
  intro r h
  simp only [transferSet, List.mem_append, List.mem_filter] at h
  rcases h with h | h
  · split at h <;> simp_all
  · simp [transferred] at h; exact h.2.1

theorem invB_transfer {s : State} (hi : InvB s) (ha : InvA s) (t : Tid) (xs : List Rid) (sor : Nat)
    (hl : (s.thr t).loc = .wwMuCas) (hxs : ∀ r, r ∈ xs → r ∈ (s.thr t).list) (hxm : ∀ r, r ∈ xs → r.isMucv = true) :
    InvB { s with recs := fun r => if xs.contains r then { s.recs r with stat := .xfer } else s.recs r, thr := updT s.thr t { s.thr t with list := (s.thr t).list.filter (fun r => !(xs.contains r)), setOnRel := sor, loc := .wwRelLd } } := by
  have hbt := hi.thr t
  have hxst : ∀ r, r ∈ xs → (s.recs r).stat = .listed t := fun r h => (ha.lMem t r).mp (hxs r h)
  have htd : (s.thr t).todo = [] := by
    cases h : (s.thr t).todo with
    | nil => rfl
    | cons a l => have := hbt.todoLoc (by simp [h]); rw [hl] at this; simp at this
  have hmine : (s.thr t).mine = [] := (ha.thr t).mine0 (by simp [inWaitN, hl])
  obtain ⟨b1, b2, b3, b4, b5, b6, b7, b8⟩ := hi
  constructor
  · intro q u
    by_cases hq : q ∈ xs
    · simp [hq]
    · simpa [hq] using b1 q u
  · intro q
    by_cases hq : q ∈ xs
    · simp [hq]
    · simpa [hq] using b2 q
  · intro q
    by_cases hq : q ∈ xs
    · simp [hq]; exact hxm q hq
    · simpa [hq] using b3 q
  · intro q
    by_cases hq : q ∈ xs
    · simp [hq]
    · simpa [hq] using b4 q
  · intro q
    by_cases hq : q ∈ xs
    · simp [hq]
    · simpa [hq] using b5 q
  · intro q
    by_cases hq : q ∈ xs
    · simpa [hq] using b6 q
    · simpa [hq] using b6 q
  · intro u
    by_cases hu : u = t
    · subst hu
      constructor <;> simp [savedLoc, waitLive, waitPrep, Loc.afterLoop, hmine, htd]
    · refine tinvB_other3 (b7 u) (ha.thr u) (by simp [hu]) ?_ ?_
      · intro q _ _
        by_cases hq : q ∈ xs
        · simp [hq, hxst q hq]
        · simp [hq]
      · intro hs
        unfold SvOK
        have hsv := b7 u
        by_cases hq : (s.thr u).r ∈ xs
        · simp only [List.contains_iff_mem, hq, if_true]
          have := (hsv.svL hs t (hxst _ hq)).2 (by rw [htd]; simp)
          simp
          exact this
        · simp only [List.contains_iff_mem, hq, if_false]
          refine ⟨hsv.svQ hs, hsv.svX hs, ?_⟩
          intro w hw
          by_cases hwt : w = t
          · subst hwt; simp only [updT_apply, if_true]; exact hsv.svL hs w hw
          · simp only [updT_apply, hwt, if_false]; exact hsv.svL hs w hw
  · exact b8

end NsyncVerif.CvFix
