/-
  Proofs/WaitNSem13.lean — `TI` is preserved by the caller's own steps, part 4: cv_enqueue, note_enqueue,
  counter_enqueue.  (`wr`: an enqueue that decides "not enqueued" does so on a ready object; one that enqueues
  sets `waiting`.)
-/
import NsyncVerif.Proofs.WaitNSem12

set_option linter.unusedSimpArgs false
set_option linter.unusedVariables false

namespace WaitN

theorem get_last_of_len {l : List Rid} {k : Nat} (h : l.length = k + 1) : ∃ r, l[k]? = some r := by
  have : k < l.length := by omega
  exact ⟨l[k], List.getElem?_eq_getElem this⟩

theorem ti_stepEnqCv {s s' : State} {b : SemId → Bool} {t : Tid} {e : Ev} {k : Nat} {st : CvEnqSt}
    (hr : Reachable s) (sb : SB s) (hs : stepThr s t e = .ok s') (ti : TI s b t)
    (hpc : s.pc t = .wEnqCv k st) (h : stepEnqCv s t k st e = .ok s') : TI s' (binStep b (.thr t e)) t := by
  have hl : LInv (.wEnqCv k st) (s.fr t) := hpc ▸ linv_of_reachable hr t
  obtain ⟨c, hcv⟩ := hl.2.2.1
  obtain ⟨r, hrk⟩ := get_last_of_len hl.2.1
  have Kd : dflt s t e = .ok s' → TI s' (binStep b (.thr t e)) t := fun h => ti_keeps hr sb hs (keeps_dflt h) ti
  have hph : inPhase (s.pc t) = true := by rw [hpc]; rfl
  have hnp : ∀ j, s.pc t ≠ .wPdWait j := by rw [hpc]; simp
  have hlen : ∀ i r0, (s.fr t).recs[i]? = some r0 → i < k + 1 := by
    intro i r0 hri; have := (List.getElem?_eq_some_iff.1 hri).1; rw [hl.2.1] at this; exact this
  unfold stepEnqCv at h
  rw [hcv, hrk] at h
  dsimp only at h
  cases st with
  | spin sp =>
    dsimp only at h
    unfold spinAcq at h
    split_ok h
    all_goals first
      | exact Kd h
      | skip
    all_goals
      cases h
      refine ti_enq_go hr sb hs ti hph hnp (by simp) (by simp) (by simp [inSleep]) ?_
      intro i r0 hri hwr' hw'
      left; rw [hpc]
      simp [wrAt] at hwr' ⊢
      exact hwr'
  | store =>
    dsimp only at h
    split_ok h
    all_goals first
      | exact Kd h
      | skip
    cases h
    refine ti_enq_go hr sb hs ti hph hnp (by simp) (by simp) (by simp [inSleep]) ?_
    intro i r0 hri hwr' hw'
    left; rw [hpc]
    simp [wrAt] at hwr' ⊢
    rcases hwr' with h1 | h1
    · exact h1
    · subst h1
      rw [hrk] at hri; cases hri
      simp at hw'
  | release =>
    dsimp only at h
    split_ok h
    all_goals first
      | exact Kd h
      | skip
    refine ti_afterEnq hr sb hs ti hph hnp hl.1 ?_ (by simp) h
    intro i r0 hri
    rw [hpc]
    have := hlen i r0 hri
    simp [wrAt]; omega

theorem ti_stepEnq {s s' : State} {b : SemId → Bool} {t : Tid} {e : Ev} {k : Nat} {st : EnqSt}
    (hr : Reachable s) (sb : SB s) (hs : stepThr s t e = .ok s') (ti : TI s b t)
    (hpc : s.pc t = .wEnq k st) (h : stepEnq s t k st e = .ok s') : TI s' (binStep b (.thr t e)) t := by
  have hl : LInv (.wEnq k st) (s.fr t) := hpc ▸ linv_of_reachable hr t
  have htf : TF s (.wEnq k st) (s.fr t) := hpc ▸ tf_of_reachable hr t
  obtain ⟨oid, hoid⟩ : ∃ oid, (s.fr t).objs[k]? = some oid := by
    rcases hl.2.2.1 with ⟨n, h⟩ | ⟨c, h⟩ <;> exact ⟨_, h⟩
  obtain ⟨r, hrk⟩ := get_last_of_len hl.2.1
  have Kd : dflt s t e = .ok s' → TI s' (binStep b (.thr t e)) t := fun h => ti_keeps hr sb hs (keeps_dflt h) ti
  have hph : inPhase (s.pc t) = true := by rw [hpc]; rfl
  have hnp : ∀ j, s.pc t ≠ .wPdWait j := by rw [hpc]; simp
  have M := mono_stepThr hs
  have hkn := known_of_reachable hr t (inCall_of_inPhase hph)
  have hlen : ∀ i r0, (s.fr t).recs[i]? = some r0 → i < k + 1 := by
    intro i r0 hri; have := (List.getElem?_eq_some_iff.1 hri).1; rw [hl.2.1] at this; exact this
  unfold stepEnq at h
  rw [hoid, hrk] at h
  dsimp only at h
  cases st with
  | unlockWait enq =>
    dsimp only at h
    split_ok h
    all_goals first
      | exact Kd h
      | skip
    refine ti_afterEnq hr sb hs ti hph hnp hl.1 ?_ rfl h
    intro i r0 hri
    rw [hpc]
    have := hlen i r0 hri
    simp [wrAt]; omega
  | store enq =>
    cases enq with
    | true =>
      -- enqueued: `waiting` is set
      dsimp only at h
      split_ok h
      all_goals first
        | exact Kd h
        | contradiction
        | skip
      all_goals
        cases h
        refine ti_enq_go hr sb hs ti hph hnp (by simp) (by simp) (by simp [inSleep]) ?_
        intro i r0 hri hwr' hw'
        left; rw [hpc]
        simp [wrAt] at hwr' ⊢
        rcases hwr' with h1 | h1
        · exact h1
        · subst h1
          rw [hrk] at hri; cases hri
          simp at hw'
    | false =>
      -- not enqueued: the object is ready
      dsimp only at h
      split_ok h
      all_goals first
        | exact Kd h
        | contradiction
        | skip
      all_goals
        cases h
        refine ti_enq_go hr sb hs ti hph hnp (by simp) (by simp) (by simp [inSleep]) ?_
        intro i r0 hri hwr' hw'
        simp [wrAt] at hwr'
        rcases hwr' with h1 | h1
        · left; rw [hpc]; simp [wrAt]; exact h1
        · subst h1
          right
          have hrd : sReady s (s.fr t) i := htf.2
          exact sReady_keep rfl hkn M (by simpa using hri) hw' hrd
  | _ =>
    dsimp only at h
    split_ok h
    all_goals first
      | exact Kd h
      | skip
    all_goals
      cases h
      refine ti_enq_go hr sb hs ti hph hnp (by simp) (by simp) (by simp [inSleep]) ?_
      intro i r0 hri hwr' hw'
      left; rw [hpc]
      simp [wrAt] at hwr' ⊢
      exact hwr'

end WaitN
