/-
  Layer `Note`, invariant family P, sixth part: the end of `notify`, the WAIT_FOR_NO_CHILDREN that
  did not release the mutex, and the invariant `InvScan` itself.
-/
import NsyncVerif.Proofs.NoteFixP5

set_option linter.unusedSimpArgs false

namespace Note

/-- `note_notify_child (n, parent)` returns to `notify` with `parent` locked: it has disconnected
    `n`, or another thread is disconnecting `n` too. -/
theorem tail_actor {s s' : State} {e : Event} (hr : Reachable s) (hP : InvScan s)
    (hs : step s e = .ok s') (t : Tid) (ha : e.actor = some t) {pos' : NPos} {n p : NoteId}
    {nk : NK} (hpc' : s'.pc t = .nfy pos' n (some p) nk) (htl : pos'.tail = true) :
    (s'.notes n).parent = none ∨ 2 ≤ (s'.notes n).disconnecting := by
  have hL := hr.inv6.2.2.2.2.1
  have hF := hr.invForest
  -- the end of the outermost activation
  have key : ∀ (s1 : State) (pos : CPos) (f : Frame) (top : Top),
      s.pc t = .chd pos [f] top → top.par = some p → top.n = n →
      (∀ j, (s1.notes j).parent = (s.notes j).parent) →
      (∀ j, (s1.notes j).disconnecting = (s.notes j).disconnecting) →
      ((childReturn s1 t f [] top).notes n).parent = none ∨
        2 ≤ ((childReturn s1 t f [] top).notes n).disconnecting := by
    intro s1 pos f top hpc hp hn h1p h1d
    have hft : f.note = top.n := by simpa using (hL.claim_of hpc).2.2.1
    have hcnt : 1 ≤ (s.notes f.note).disconnecting :=
      Nat.le_trans (chd_head_counted hL hpc) (hF.cnt_le t f.note)
    subst hn
    by_cases hd1 : (s.notes f.note).disconnecting = 1
    · left
      have : childUnlinks s1 f [] top = some p := by simp [childUnlinks, frameParent, hp, h1d, hd1]
      simp [this, hft]
    · right
      simp only [childReturn_f_disconnecting, childReturnDec, hp, h1d]
      rw [← hft]; simp; omega
  cases e
  all_goals step_cases hs
  all_goals simp only [Event.actor, Option.some.injEq, reduceCtorEq] at ha
  all_goals (try subst ha)
  nrel_pc_cases hpc'
  all_goals (try (cases hpc'; simp [NPos.tail] at htl; done))
  -- unlockPCall → unlockPRet
  all_goals (try (
    cases hpc'
    have := hP.tail _ _ _ _ _ ‹s.pc _ = _› rfl
    simpa using this
    done))
  -- not a tail position
  all_goals (try (
    simp only [PC.nfy.injEq] at hpc'
    obtain ⟨h1, _⟩ := hpc'
    subst h1
    simp [NPos.tail] at htl
    done))
  -- the end of the outermost activation
  all_goals (
    have hpc := ‹s.pc _ = PC.chd _ [_] _›
    simp only [PC.nfy.injEq] at hpc'
    obtain ⟨_, h2, h3, _⟩ := hpc'
    exact key _ _ _ _ hpc h3 h2 (fun _ => by simp) (fun _ => by simp))

theorem tail_other {s s' : State} {e : Event} (hr : Reachable s) (hP : InvScan s)
    (hs : step s e = .ok s') (t : Tid) (hta : e.actor ≠ some t) {pos : NPos} {n p : NoteId}
    {nk : NK} (hpc : s.pc t = .nfy pos n (some p) nk) (htl : pos.tail = true) :
    (s'.notes n).parent = none ∨ 2 ≤ (s'.notes n).disconnecting := by
  obtain ⟨hA, _, hS, _, hL, hK⟩ := hr.inv6
  have hsec : (s.pc t).sec = some (n, some p) := by
    rw [hpc]; cases pos <;> simp [NPos.tail] at htl <;> rfl
  have hheld : n ∈ (s.pc t).held := by
    rw [hpc]; cases pos <;> simp [NPos.tail] at htl <;> simp [PC.held]
  rcases hP.tail t pos n p nk hpc htl with h | h
  · left
    cases hp : (s'.notes n).parent with
    | none => rfl
    | some q =>
      have := hr.invForest.parent_keep hA hS hL hr.invU hr.invR hs hsec hp
      rw [h] at this; cases this
  · right
    cases hlt : decide ((s'.notes n).disconnecting < (s.notes n).disconnecting) with
    | false => have := of_decide_eq_false hlt; omega
    | true =>
      exfalso
      obtain ⟨a, ha, hor⟩ := dec_needs_lock hr hs (of_decide_eq_true hlt)
      rcases hor with h1 | h1
      · have := held_excl hK h1 hheld
        subst this; exact hta ha
      · rw [(hK.iff n t).mpr hheld] at h1; cases h1

/-- The condition of a WAIT_FOR_NO_CHILDREN stays true while the thread holds the mutex. -/
theorem waitDone_keep {s s' : State} {e : Event} (hr : Reachable s)
    (hs : step s e = .ok s') (t : Tid) (hta : e.actor ≠ some t) {m : NoteId}
    (hheld : m ∈ (s.pc t).held) (hsc : (m, none, none) ∈ (s.pc t).scans)
    (hw : (s.notes m).waitDone = true) : (s'.notes m).waitDone = true := by
  obtain ⟨_, _, hS, _, hL, hK⟩ := hr.inv6
  have hch : (s'.notes m).children = (s.notes m).children := by
    cases hd : decide ((s'.notes m).children = (s.notes m).children) with
    | true => exact of_decide_eq_true hd
    | false =>
      exfalso
      obtain ⟨a, ha, hah⟩ := forest_change_lock hS hL hs (of_decide_eq_false hd)
      have := held_excl hK hah hheld
      subst this; exact hta ha
  simp only [NoteRec.waitDone, Bool.or_eq_true, decide_eq_true_eq] at hw ⊢
  rw [hch]
  rcases hw with h | h
  · exact Or.inl h
  · right
    cases h1 : (s'.notes m).adopted with
    | true => rfl
    | false =>
      exfalso
      obtain ⟨a, oc', nx', ha, hsa⟩ := step_adopted_clear hs (scans_alloc hr hsc) h h1
      have hne : t ≠ a := fun e' => hta (e' ▸ ha)
      exact scan_excl (hr.next hs) hne (by rw [step_pc_other hs t hta]; exact hsc) hsa

theorem kept_actor {s s' : State} {e : Event} (hP : InvScan s) (hs : step s e = .ok s')
    (t : Tid) (ha : e.actor = some t) :
    (∀ f rest top, s'.pc t = .chd (.waitRet true) (f :: rest) top →
      (s'.notes f.note).waitDone = true) ∧
    (∀ n par c nx, s'.pc t = .fr (.waitRet true) n par c nx → (s'.notes n).waitDone = true) := by
  constructor
  · intro f rest top hpc'
    cases e
    all_goals step_cases hs
    all_goals simp only [Event.actor, Option.some.injEq, reduceCtorEq] at ha
    all_goals (try subst ha)
    nrel_pc_cases hpc'
    all_goals (
      simp only [PC.chd.injEq, CPos.waitRet.injEq] at hpc'
      obtain ⟨h1, h2, _⟩ := hpc'
      obtain ⟨rfl, _⟩ := List.cons.inj h2
      have hk := ‹_ = Frame.note _›
      subst hk
      first
        | (simpa using h1)
        | exact absurd h1 ‹¬ _›)
  · intro n par c nx hpc'
    cases e
    all_goals step_cases hs
    all_goals simp only [Event.actor, Option.some.injEq, reduceCtorEq] at ha
    all_goals (try subst ha)
    nrel_pc_cases hpc'
    all_goals (
      simp only [PC.fr.injEq, FPos.waitRet.injEq] at hpc'
      obtain ⟨h1, h2, _⟩ := hpc'
      subst h2
      have hk := ‹(_ : NoteId) = _›
      subst hk
      first
        | (simpa using h1)
        | exact absurd h1 ‹¬ _›)

theorem step_invScan {s s' : State} {e : Event} (hr : Reachable s) (hP : InvScan s)
    (hs : step s e = .ok s') : InvScan s' := by
  refine ⟨?_, ?_, ?_, ?_⟩
  · intro t m oc nx h
    by_cases ha : e.actor = some t
    · exact claim_actor hr hP hs t ha m oc nx h
    · rw [step_pc_other hs t ha] at h
      exact claim_other hr hP hs ha h
  · intro t pos n p nk hpc htl
    by_cases ha : e.actor = some t
    · exact tail_actor hr hP hs t ha hpc htl
    · rw [step_pc_other hs t ha] at hpc
      exact tail_other hr hP hs t ha hpc htl
  · intro t f rest top hpc
    by_cases ha : e.actor = some t
    · exact (kept_actor hP hs t ha).1 f rest top hpc
    · rw [step_pc_other hs t ha] at hpc
      exact waitDone_keep hr hs t ha (by rw [hpc]; simp [PC.held])
        (by rw [hpc]; simp [PC.scans, CPos.scan, headScan]) (hP.keptC t f rest top hpc)
  · intro t n par c nx hpc
    by_cases ha : e.actor = some t
    · exact (kept_actor hP hs t ha).2 n par c nx hpc
    · rw [step_pc_other hs t ha] at hpc
      exact waitDone_keep hr hs t ha (by rw [hpc]; simp [PC.held])
        (by rw [hpc]; simp [PC.scans, FPos.scan, headScan]) (hP.keptF t n par c nx hpc)

theorem Reachable.invScan {s : State} (h : Reachable s) : InvScan s :=
  Reachable.induction (P := InvScan) InvScan.init (fun _ _ _ hr hP hs => step_invScan hr hP hs)
    s h

/-- I2: while a thread is inside a WAIT_FOR_NO_CHILDREN (`m`) whose condition is false (`m` has
    children and none was adopted since the scan), every child of `m` is `disconnecting`. -/
theorem Reachable.wait_children_disc {s : State} (hr : Reachable s) {t : Tid} {m : NoteId}
    (hsc : (m, none, none) ∈ (s.pc t).scans) (had : (s.notes m).adopted = false) :
    ∀ c ∈ (s.notes m).children, (s.notes c).disconnecting ≠ 0 := by
  obtain ⟨pre, post, h1, h2, h3⟩ := hr.invScan.claim t m none none hsc had
  have hpost : post = [] := by cases post <;> simp at h2 ⊢
  subst hpost
  simp only [Option.toList, List.append_nil] at h1
  intro c hc
  exact h3 c (by rw [← h1]; exact hc)

end Note
