/-
  Layer `Pool`: a thread is on the pool path of `nsync_waiter_new_` only while its reserved struct
  (if it has one) is in use — so whenever the reserved struct is idle, `new` returns it.
-/
import NsyncVerif.Proofs.PoolTrace

namespace Pool

/-- The thread is inside `nsync_waiter_new_` (pool path). -/
def PC.inNew : PC → Bool
  | .spin0 .new | .spinCas .new _ | .spinLd2 .new | .cs .new | .newMalloc | .newInit _
  | .newRet _ => true
  | _ => false

/-- A thread on the pool path of `new` has no idle reserved struct. -/
def NInv (s : State) : Prop :=
  ∀ t r, (s.pc t).inNew = true → s.ptw t = some r → s.reserved r = false ∨ s.inuse r = true

theorem fast_none {s : State} {t : Tid} (h : fast s t = none) :
    ∀ r, s.ptw t = some r → s.reserved r = false ∨ s.inuse r = true := by
  intro r hp
  unfold fast at h
  rw [hp] at h
  simp only at h
  split at h
  · cases h
  · cases hr : s.reserved r <;> cases hu : s.inuse r <;> simp_all

theorem afterLoad_inNew (j : Job) (obs : Nat) :
    (afterLoad j obs).inNew = decide (j = .new) := by
  unfold afterLoad; split <;> cases j <;> simp [PC.inNew]

theorem ninv_init : NInv init := by
  intro t r h; simp [init, PC.inNew] at h

theorem ninv_step {s s' : State} {e : Ev} (hi : Inv s) (hn : NInv s) (h : step s e = .ok s') :
    NInv s' := by
  have hptw := hi.l.ptwOK
  have htr := hi.l.locTr
  cases e with
  | ld v site obs =>
    obtain ⟨_, j, rfl, hpc⟩ := step_ld h
    intro u r; simp only [upd_apply]
    by_cases hu : u = v
    · subst hu; simp only [if_true, afterLoad_inNew]
      rcases hpc with ⟨_, rfl, _, hf⟩ | ⟨hq, _⟩ | ⟨hq, _⟩
      · intro _ hp; exact fast_none hf r hp
      · intro hj hp; exact hn u r (by rw [hq]; cases j <;> simp_all [PC.inNew]) hp
      · intro hj hp; exact hn u r (by rw [hq]; cases j <;> simp_all [PC.inNew]) hp
    · simp only [hu, if_false]; exact hn u r
  | cas v exp new obs ok =>
    obtain ⟨j, hq, _, _, _, ⟨_, rfl⟩ | ⟨_, rfl⟩⟩ := step_cas h
    all_goals
      intro u r; simp only [upd_apply]
      by_cases hu : u = v
      · subst hu; simp only [if_true]
        intro hj hp; exact hn u r (by rw [hq]; cases j <;> simp_all [PC.inNew]) hp
      · simp only [hu, if_false]; exact hn u r
  | rel v fn obs =>
    obtain ⟨j, hq, _, _, hc⟩ := step_rel h
    rcases hc with ⟨rfl, _, rfl⟩ | ⟨q, rest, rfl, _, rfl⟩ | ⟨x, hj, rfl⟩
    · intro u r; simp only [upd_apply]
      by_cases hu : u = v
      · subst hu; simp only [if_true]
        intro _ hp; exact hn u r (by rw [hq]; simp [PC.inNew]) hp
      · simp only [hu, if_false]; exact hn u r
    · intro u r; simp only [upd_apply]
      by_cases hu : u = v
      · subst hu; simp only [if_true]
        intro _ hp; exact hn u r (by rw [hq]; simp [PC.inNew]) hp
      · simp only [hu, if_false]; exact hn u r
    · intro u r; simp only [upd_apply]
      by_cases hu : u = v
      · simp [hu, PC.inNew]
      · simp only [hu, if_false]; exact hn u r
  | malloc v x =>
    obtain ⟨hq, rfl, rfl⟩ := step_malloc h
    intro u r; simp only [upd_apply]
    by_cases hu : u = v
    · subst hu; simp only [if_true]
      intro _ hp; exact hn u r (by rw [hq]; simp [PC.inNew]) hp
    · simp only [hu, if_false]; exact hn u r
  | mallocNull v => exact absurd h step_mallocNull
  | stRc v x obs =>
    obtain ⟨hq, rfl⟩ := step_stRc h
    intro u r; simp only [upd_apply]
    intro hin hp
    have hold : s.reserved r = false ∨ s.inuse r = true := by
      by_cases hu : u = v
      · subst hu; exact hn u r (by rw [hq]; simp [PC.inNew]) hp
      · simp only [hu, if_false] at hin; exact hn u r hin hp
    by_cases hr : r = x
    · simp [hr]
    · simpa [hr] using hold
  | ret v x =>
    rcases step_ret h with ⟨hq, _, rfl⟩ | ⟨hq, _, rfl⟩ | ⟨hq, _, rfl⟩
    · intro u r hin hp; simp only [upd_apply]
      have := hn u r hin hp
      split
      · exact Or.inr rfl
      · exact this
    · intro u r; simp only [upd_apply]
      by_cases hu : u = v
      · simp [hu, PC.inNew]
      · simp only [hu, if_false]
        intro hin hp
        have := hn u r hin hp
        by_cases hr : r = x
        · simp [hr]
        · simpa [hr] using this
    · intro u r; simp only [upd_apply]
      by_cases hu : u = v
      · simp [hu, PC.inNew]
      · simp only [hu, if_false]
        intro hin hp
        have := hn u r hin hp
        by_cases hr : r = x
        · simp [hr]
        · simpa [hr] using this
  | free v x =>
    obtain ⟨hq, hloc, _, hc⟩ := step_free h
    have key : ∀ u r, u ≠ v → s.ptw u = some r → r ≠ x := by
      intro u r hu hp hr; subst hr
      rcases (hptw u r hp).2 with h1 | h1 <;> rw [hloc] at h1
      · cases h1
      · injection h1 with h1; exact hu h1.symm
    rcases hc with ⟨_, rfl⟩ | ⟨_, rfl⟩
    · intro u r hin hp; simp only [upd_apply]
      have huv : u ≠ v := by intro hh; subst hh; rw [hq] at hin; simp [PC.inNew] at hin
      simpa [key u r huv hp] using hn u r hin hp
    · intro u r; simp only [upd_apply]
      by_cases hu : u = v
      · simp [hu, PC.inNew]
      · simp only [hu, if_false]
        intro hin hp
        simpa [key u r hu hp] using hn u r hin hp
  | exit v =>
    obtain ⟨hq, x, _, _, _, rfl⟩ := step_exit h
    intro u r; simp only [upd_apply]
    by_cases hu : u = v
    · simp [hu, PC.inNew]
    · simp only [hu, if_false]
      intro hin hp
      have := hn u r hin hp
      by_cases hr : r = x
      · simp [hr]
      · simpa [hr] using this
  | use v x => obtain ⟨_, rfl⟩ := step_use h; exact hn
  | env x f obs new =>
    obtain ⟨_, ⟨_, _, rfl⟩ | ⟨_, _, rfl⟩⟩ := step_env h <;> exact hn

theorem reachable_ninv {s : State} (hr : Reachable s) : NInv s :=
  Reachable.induct (P := NInv) ninv_init
    (fun _ _ _ hr' hp h => ninv_step (reachable_inv hr') hp h) s hr

end Pool
