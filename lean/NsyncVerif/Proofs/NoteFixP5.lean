/-
  Layer `Note`, invariant family P, fifth part: the claims of the acting thread.
-/
import NsyncVerif.Proofs.NoteFixP4

set_option linter.unusedSimpArgs false

namespace Note

@[simp] theorem scans_afterDeadlinePc (n : NoteId) (nt : Dl) (k : DK) :
    (afterDeadlinePc n nt k).scans = [] := by
  cases k <;> simp only [afterDeadlinePc] <;> (try split) <;> (try split) <;> rfl

@[simp] theorem scans_afterNotifyPc (n : NoteId) (k : NK) : (afterNotifyPc n k).scans = [] := by
  cases k with
  | ofApi => rfl
  | ofDeadline dk => exact scans_afterDeadlinePc n (some 0) dk

theorem outerScans_head (f f' : Frame) (rest : List Frame) (h : f'.note = f.note) :
    outerScans (f' :: rest) = outerScans (f :: rest) := by
  cases rest with
  | nil => rfl
  | cons g gs => simp [outerScans, h]

/-! ### Scan entries at the targets of the control transfers -/

theorem scans_childLoopStartPc_eq (cs : List NoteId) (f : Frame) (rest : List Frame) (top : Top) :
    (childLoopStartPc cs f rest top).scans =
      (f.note, cs.head?, cs.tail.head?) :: outerScans (f :: rest) := by
  cases cs with
  | nil => simp [childLoopStartPc, PC.scans, CPos.scan, headScan]
  | cons c cs' =>
    simp only [childLoopStartPc, PC.scans, CPos.scan, headScan, List.head?_cons, List.tail_cons,
      List.singleton_append, List.cons.injEq, true_and]
    exact outerScans_head f _ rest rfl

theorem scans_freeLoopStartPc_eq (cs : List NoteId) (n : NoteId) (par : Option NoteId) :
    (freeLoopStartPc cs n par).scans = [(n, cs.head?, cs.tail.head?)] := by
  cases cs <;> simp [freeLoopStartPc, PC.scans, FPos.scan, headScan]

theorem scans_childReturnPc (f : Frame) (rest : List Frame) (top : Top) :
    (childReturnPc f rest top).scans =
      match rest with
      | [] => []
      | g :: gs => (g.note, none, g.next) :: outerScans (g :: gs) := by
  unfold childReturnPc
  cases rest with
  | nil => cases top.par <;> rfl
  | cons g gs => simp [PC.scans, CPos.scan, headScan]

/-- The note of an enclosing activation is not the note of the innermost one. -/
theorem outer_ne_head {s : State} (hL : InvL s) {f : Frame} {rest : List Frame}
    (hch : ChainStk s (f :: rest)) {m : NoteId} {oc nx : Option NoteId}
    (h : (m, oc, nx) ∈ outerScans (f :: rest)) : m ≠ f.note := by
  obtain ⟨i, g, _, rfl, _, l1, l2, hl⟩ := mem_outerScans h
  have hg : g ∈ rest := by
    cases l1 with
    | nil => simp only [List.nil_append, List.cons.injEq] at hl; rw [hl.2]; simp
    | cons x xs =>
      simp only [List.cons_append, List.cons.injEq] at hl
      rw [hl.2]; simp
  exact (ChainStk.above_head hL hch g hg).2

/-! ### How a claim evolves -/

/-- The start of a scan. -/
theorem claim_start {s : State} {m : NoteId} (cs : List NoteId)
    (h : (s.notes m).children = cs) : ScanClaim s m cs.head? cs.tail.head? := by
  intro _
  refine ⟨[], cs.tail, ?_, rfl, fun x hx => by cases hx⟩
  cases cs <;> simp [h]

/-- The child examined is `disconnecting`: it is skipped (or the recursive call for it has
    returned without disconnecting it). -/
theorem claim_skip {s : State} {m c : NoteId} {nx : Option NoteId}
    (hc : ScanClaim s m (some c) nx) (hd : (s.notes c).disconnecting ≠ 0) :
    ScanClaim s m none nx := by
  intro ha
  obtain ⟨pre, post, h1, h2, h3⟩ := hc ha
  refine ⟨pre ++ [c], post, by simpa using h1, h2, fun x hx => ?_⟩
  rcases List.mem_append.mp hx with hx | hx
  · exact h3 x hx
  · rw [List.mem_singleton.mp hx]; exact hd

/-- The loop selects the child the saved `next` pointer designates. -/
theorem claim_adv {s : State} {m c' : NoteId} (hnd : (s.notes m).children.Nodup)
    (hc : ScanClaim s m none (some c')) :
    ScanClaim s m (some c') (nextAfter (s.notes m).children c') := by
  intro ha
  obtain ⟨pre, post, h1, h2, h3⟩ := hc ha
  cases post with
  | nil => simp at h2
  | cons x post' =>
    simp only [List.head?_cons, Option.some.injEq] at h2
    subst h2
    simp only [Option.toList, List.nil_append] at h1
    have hnot : x ∉ pre := not_mem_pre_of_nodup (by rw [← h1]; exact hnd)
    refine ⟨pre, post', by simpa using h1, ?_, h3⟩
    rw [h1, nextAfter_append hnot]

/-- The child examined leaves the list (disconnected by the recursive call, or adopted by the
    parent of the note being freed). -/
theorem claim_erase {s s' : State} {m c : NoteId} {nx : Option NoteId}
    (hnd : (s.notes m).children.Nodup) (hc : ScanClaim s m (some c) nx)
    (hch : (s'.notes m).children = (s.notes m).children.erase c)
    (had : (s'.notes m).adopted = (s.notes m).adopted)
    (hd : ∀ x, x ≠ c → (s'.notes x).disconnecting = (s.notes x).disconnecting) :
    ScanClaim s' m none nx := by
  intro ha
  obtain ⟨pre, post, h1, h2, h3⟩ := hc (had ▸ ha)
  simp only [Option.toList, List.singleton_append] at h1
  have hnot : c ∉ pre := not_mem_pre_of_nodup (by rw [← h1]; exact hnd)
  refine ⟨pre, post, ?_, h2, fun x hx => ?_⟩
  · rw [hch, h1, erase_append_mid hnot]; simp
  · rw [hd x (fun e => hnot (e ▸ hx))]; exact h3 x hx

/-- … or stays, still `disconnecting`. -/
theorem claim_stay {s s' : State} {m c : NoteId} {nx : Option NoteId}
    (hnd : (s.notes m).children.Nodup) (hc : ScanClaim s m (some c) nx)
    (hch : (s'.notes m).children = (s.notes m).children)
    (had : (s'.notes m).adopted = (s.notes m).adopted)
    (hd : ∀ x, x ≠ c → (s'.notes x).disconnecting = (s.notes x).disconnecting)
    (hdc : (s'.notes c).disconnecting ≠ 0) : ScanClaim s' m none nx := by
  intro ha
  obtain ⟨pre, post, h1, h2, h3⟩ := hc (had ▸ ha)
  simp only [Option.toList, List.singleton_append] at h1
  have hnot : c ∉ pre := not_mem_pre_of_nodup (by rw [← h1]; exact hnd)
  refine ⟨pre ++ [c], post, by rw [hch, h1]; simp, h2, fun x hx => ?_⟩
  rcases List.mem_append.mp hx with hx | hx
  · rw [hd x (fun e => hnot (e ▸ hx))]; exact h3 x hx
  · rw [List.mem_singleton.mp hx]; exact hdc

/-! ### Scan entries with a general activation stack -/

theorem scans_lockChildRet (c : NoteId) (stk : List Frame) (top : Top) :
    (PC.chd (.lockChildRet c) stk top).scans = (PC.chd (.lockChild c) stk top).scans := by
  cases stk <;> rfl

theorem scans_unlockChildRet (c : NoteId) (stk : List Frame) (top : Top) :
    (PC.chd (.unlockChildRet c) stk top).scans = (PC.chd (.unlockChild c) stk top).scans := by
  cases stk <;> rfl

theorem scans_push (c : NoteId) (stk : List Frame) (top : Top) :
    (PC.chd .ld (⟨c, none⟩ :: stk) top).scans = (PC.chd (.lockChildRet c) stk top).scans := by
  cases stk with
  | nil => rfl
  | cons f rest => simp [PC.scans, CPos.scan, headScan, outerScans]

theorem scans_unlockChild {c : NoteId} {stk : List Frame} {top : Top} {m : NoteId}
    {oc nx : Option NoteId} (h : (m, oc, nx) ∈ (PC.chd (.unlockChild c) stk top).scans) :
    (m, oc, nx) ∈ (PC.chd (.lockChildRet c) stk top).scans ∨
    (oc = none ∧ (m, some c, nx) ∈ (PC.chd (.lockChildRet c) stk top).scans) := by
  cases stk with
  | nil => simp [PC.scans] at h
  | cons f rest =>
    have h' : (m, oc, nx) = (f.note, none, f.next) ∨ (m, oc, nx) ∈ outerScans (f :: rest) := by
      simpa [PC.scans, CPos.scan, headScan] using h
    rcases h' with h' | h'
    · right
      simp only [Prod.mk.injEq] at h'
      obtain ⟨rfl, rfl, rfl⟩ := h'
      exact ⟨rfl, by simp [PC.scans, CPos.scan, headScan]⟩
    · left
      simp only [PC.scans, List.mem_append]
      exact Or.inr h'

theorem outerScans_next (f : Frame) (nx' : Option NoteId) (rest : List Frame) :
    outerScans ({ note := f.note, next := nx' } :: rest) = outerScans (f :: rest) :=
  outerScans_head f _ rest rfl

theorem outer_mem_scans {pos : CPos} {f : Frame} {rest : List Frame} {top : Top}
    {x : NoteId × Option NoteId × Option NoteId} (h : x ∈ outerScans (f :: rest)) :
    x ∈ (PC.chd pos (f :: rest) top).scans := by
  simp only [PC.scans, List.mem_append]; exact Or.inr h

theorem scans_childWakeNextPc_cases {s1 : State} {f : Frame} {rest : List Frame} {top : Top}
    {x : NoteId × Option NoteId × Option NoteId}
    (h : x ∈ (childWakeNextPc s1 f rest top).scans) :
    x ∈ outerScans (f :: rest) ∨
    ((s1.notes f.note).waiters = [] ∧
      x = (f.note, (s1.notes f.note).children.head?, (s1.notes f.note).children.tail.head?)) := by
  unfold childWakeNextPc at h
  split at h
  · left; simpa [PC.scans, CPos.scan, headScan] using h
  · next hw =>
    rw [scans_childLoopStartPc_eq] at h
    rcases List.mem_cons.mp h with h | h
    · right; exact ⟨hw, h⟩
    · left; exact h

/-- The claims of the enclosing activations survive a step that leaves their lists alone. -/
theorem outer_carry {s s' : State} {e : Event} (hr : Reachable s) (hP : InvScan s)
    (hs : step s e = .ok s') {a : Tid} {pos : CPos} {f : Frame} {rest : List Frame} {top : Top}
    (hpc : s.pc a = .chd pos (f :: rest) top) {m : NoteId} {oc nx : Option NoteId}
    (h : (m, oc, nx) ∈ outerScans (f :: rest))
    (hch : m ≠ f.note → (s'.notes m).children = (s.notes m).children)
    (had : m ≠ f.note → (s'.notes m).adopted = (s.notes m).adopted) : ScanClaim s' m oc nx := by
  have hL := hr.inv6.2.2.2.2.1
  have hne := outer_ne_head hL (hL.claim_of hpc).2.1 h
  refine claim_carry hr hP hs (hP.claim a m oc nx (by rw [hpc]; exact outer_mem_scans h))
    (hch hne) (fun h' => by rw [← had hne]; exact h')

/-- The end of an inner activation: the enclosing activation goes on after the recursive call. -/
theorem claim_pop {s s1 : State} {e : Event} (hr : Reachable s) (hP : InvScan s) {t : Tid}
    {pos : CPos} {f : Frame} {rest : List Frame} {top : Top}
    (hs : step s e = .ok (childReturn s1 t f rest top))
    (hpc : s.pc t = .chd pos (f :: rest) top)
    (h1c : ∀ j, (s1.notes j).children = (s.notes j).children)
    (h1a : ∀ j, (s1.notes j).adopted = (s.notes j).adopted)
    (h1d : ∀ j, (s1.notes j).disconnecting = (s.notes j).disconnecting)
    {m : NoteId} {oc nx : Option NoteId} (h : (m, oc, nx) ∈ (childReturnPc f rest top).scans) :
    ScanClaim (childReturn s1 t f rest top) m oc nx := by
  have hL := hr.inv6.2.2.2.2.1
  have hF := hr.invForest
  have hcL := hL.claim_of hpc
  rw [scans_childReturnPc] at h
  cases rest with
  | nil => simp at h
  | cons g gs =>
    simp only [List.mem_cons] at h
    have hfp : frameParent (g :: gs) top = some g.note := rfl
    rcases h with h | h
    · -- the enclosing activation
      simp only [Prod.mk.injEq] at h
      obtain ⟨rfl, rfl, rfl⟩ := h
      have hold := hP.claim t g.note (some f.note) g.next (by
        rw [hpc]; exact outer_mem_scans (by simp [outerScans]))
      have hcnt : 1 ≤ (s.notes f.note).disconnecting :=
        Nat.le_trans (chd_head_counted hL hpc) (hF.cnt_le t f.note)
      have hdx : ∀ x, x ≠ f.note →
          ((childReturn s1 t f (g :: gs) top).notes x).disconnecting =
            (s.notes x).disconnecting := by
        intro x hx
        simp only [childReturn_f_disconnecting, childReturnDec, Option.some.injEq, h1d]
        rw [if_neg (fun e' => hx e'.symm)]
      by_cases hd1 : (s.notes f.note).disconnecting = 1
      · -- the last disconnector: the note leaves the list
        refine claim_erase (hF.nodup _) hold ?_ (by simp [h1a]) hdx
        have : childUnlinks s1 f (g :: gs) top = some g.note := by
          simp [childUnlinks, hfp, h1d, hd1]
        simp [this, h1c]
      · refine claim_stay (hF.nodup _) hold ?_ (by simp [h1a]) hdx ?_
        · have : childUnlinks s1 f (g :: gs) top = none := by
            simp [childUnlinks, hfp, h1d, hd1]
          simp [this, h1c]
        · simp only [childReturn_f_disconnecting, childReturnDec, if_true, h1d]
          omega
    · -- the activations further out
      have hne : m ≠ g.note := outer_ne_head hL hcL.2.1.2 h
      refine claim_carry hr hP hs (hP.claim t m oc nx (by
        rw [hpc]; exact outer_mem_scans (by simp [outerScans, h]))) ?_ ?_
      · simp only [childReturn_f_children, h1c]
        rw [if_neg]
        intro hu
        have := (childUnlinks_some hu).1
        rw [hfp] at this
        exact hne (Option.some.inj this).symm
      · simp [h1a]

theorem claim_actor {s s' : State} {e : Event} (hr : Reachable s) (hP : InvScan s)
    (hs : step s e = .ok s') (a : Tid) (ha : e.actor = some a) (m : NoteId)
    (oc nx : Option NoteId) (h : (m, oc, nx) ∈ (s'.pc a).scans) : ScanClaim s' m oc nx := by
  have hc := hP.claim a
  have hL := hr.inv6.2.2.2.2.1
  have hF := hr.invForest
  have hcL := hL.claim a
  have hs0 := hs
  cases e
  all_goals step_cases hs
  all_goals simp only [Event.actor, Option.some.injEq, reduceCtorEq] at ha
  all_goals (try subst ha)
  all_goals (try (nrel_pc_simp h))
  all_goals (try (simp [PC.scans, CPos.scan, FPos.scan, headScan, outerScans] at h; done))
  all_goals (try (
    simp only [scans_afterDeadlinePc, scans_afterNotifyPc, List.not_mem_nil] at h; done))
  all_goals (try (rw [‹s.pc _ = PC.idle›] at h; simp [PC.scans] at h; done))
  all_goals (try (rw [‹s.pc _ = _›] at hc hcL))
  -- the entry was there before the step, the list is not touched
  all_goals (try (
    refine claim_carry hr hP hs0 (hc m oc nx ?_) (by simp) (by simp)
    simpa [PC.scans, CPos.scan, FPos.scan, headScan] using h
    done))
  -- … with a general activation stack
  all_goals (try (
    refine claim_carry hr hP hs0 (hc m oc nx ?_) (by simp) (by simp)
    first
      | (rw [scans_lockChildRet] at h; exact h)
      | (rw [scans_unlockChildRet] at h; exact h)
      | (rw [scans_push] at h; exact h)
    done))
  -- the child examined is `disconnecting`: skipped
  all_goals (try (
    have hd := ‹¬ (s.notes _).disconnecting = 0›
    rcases scans_unlockChild h with h | ⟨rfl, h⟩
    · exact claim_carry hr hP hs0 (hc m oc nx h) (by simp) (by simp)
    · exact claim_carry hr hP hs0 (claim_skip (hc m _ nx h) hd) (by simp) (by simp)))
  -- note_notify_child starts a scan after the store / the last V, or wakes another waiter
  all_goals (try (
    have hpc := ‹s.pc _ = PC.chd _ (_ :: _) _›
    rcases scans_childWakeNextPc_cases h with h | ⟨hw, h⟩
    · exact outer_carry hr hP hs0 hpc h (fun _ => by simp) (fun hne => by simp [hne])
    · simp only [Prod.mk.injEq] at h
      obtain ⟨rfl, rfl, rfl⟩ := h
      exact claim_start _ (by simp)))
  -- … or scans again after WAIT_FOR_NO_CHILDREN
  all_goals (try (
    have hpc := ‹s.pc _ = PC.chd (CPos.waitRet _) (_ :: _) _›
    rw [scans_childLoopStartPc_eq] at h
    rcases List.mem_cons.mp h with h | h
    · simp only [Prod.mk.injEq] at h
      obtain ⟨rfl, rfl, rfl⟩ := h
      exact claim_start _ (by simp)
    · exact outer_carry hr hP hs0 hpc h (fun _ => by simp) (fun hne => by simp [hne])))
  -- nsync_note_free (re)starts its scan
  all_goals (try (
    rw [scans_freeLoopStartPc_eq] at h
    simp only [List.mem_singleton, Prod.mk.injEq] at h
    obtain ⟨rfl, rfl, rfl⟩ := h
    exact claim_start _ (by simp)))
  -- the end of an activation
  all_goals (try (
    have hpc := ‹s.pc _ = PC.chd _ (_ :: _) _›
    exact claim_pop hr hP hs0 hpc (fun _ => by simp) (fun _ => by simp) (fun _ => by simp) h))
  -- note_notify_child skips a `disconnecting` child
  · have hd := ‹¬ (s.notes _).disconnecting = 0›
    rcases scans_unlockChild h with h2 | ⟨hoc, h2⟩
    · exact claim_carry hr hP hs0 (hc m oc nx h2) (by simp) (by simp)
    · subst hoc
      exact claim_carry hr hP hs0 (claim_skip (hc m _ nx h2) hd) (by simp) (by simp)
  -- nsync_note_free: the child is adopted by the parent
  · have hpc := ‹s.pc _ = PC.fr FPos.lockChildRet _ (some _) _ _›
    have hne := (hcL.2.1 _ rfl).2
    simp only [PC.scans, FPos.scan, headScan, List.mem_singleton, Prod.mk.injEq] at h
    obtain ⟨rfl, rfl, rfl⟩ := h
    refine claim_erase (hF.nodup _) (hc _ (some _) _ (List.mem_singleton.mpr rfl))
      (by simp [hne.symm]) (by simp [hne.symm]) (fun x _ => by simp)
  -- … or becomes a root
  · simp only [PC.scans, FPos.scan, headScan, List.mem_singleton, Prod.mk.injEq] at h
    obtain ⟨rfl, rfl, rfl⟩ := h
    refine claim_erase (hF.nodup _) (hc _ (some _) _ (List.mem_singleton.mpr rfl))
      (by simp) (by simp) (fun x _ => by simp)
  -- nsync_note_free skips a `disconnecting` child
  · have hd := ‹¬ (s.notes _).disconnecting = 0›
    simp only [PC.scans, FPos.scan, headScan, List.mem_singleton, Prod.mk.injEq] at h
    obtain ⟨rfl, rfl, rfl⟩ := h
    exact claim_carry hr hP hs0
      (claim_skip (hc _ (some _) _ (List.mem_singleton.mpr rfl)) hd) (by simp) (by simp)
  -- the loop of note_notify_child selects the next child
  · have hpc := ‹s.pc _ = PC.chd _ (_ :: _) _›
    have hnext := ‹Frame.next _ = some _›
    simp only [PC.scans, CPos.scan, headScan, List.singleton_append, List.mem_cons,
      Prod.mk.injEq] at h
    rcases h with ⟨rfl, rfl, rfl⟩ | h
    · exact claim_adv (hF.nodup _) (hc _ _ _ (by
        simp [PC.scans, CPos.scan, headScan, hnext]))
    · rw [outerScans_next] at h
      exact outer_carry hr hP hs0 hpc h (fun _ => by simp) (fun _ => by simp)
  -- … or finds the end of the list
  · have hnext := ‹Frame.next _ = none›
    refine claim_carry hr hP hs0 (hc m oc nx ?_) (by simp) (by simp)
    simpa [PC.scans, CPos.scan, headScan, hnext] using h
  -- the loop of nsync_note_free selects the next child
  · simp only [PC.scans, FPos.scan, headScan, List.mem_singleton, Prod.mk.injEq] at h
    obtain ⟨rfl, rfl, rfl⟩ := h
    exact claim_adv (hF.nodup _) (hc _ _ _ (by simp [PC.scans, FPos.scan, headScan]))

end Note
