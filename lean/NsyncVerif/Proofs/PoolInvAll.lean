/-
  Layer `Pool`: every accepted step preserves `Inv`; hence `Inv` holds in every reachable state.
-/
import NsyncVerif.Proofs.PoolInvL
import NsyncVerif.Proofs.PoolInvMF

namespace Pool

theorem inv_step {s s' : State} {e : Ev} (hi : Inv s) (h : step s e = .ok s') : Inv s' := by
  obtain ⟨hm, hl, hf⟩ := hi
  cases e with
  | ld t site obs =>
    obtain ⟨hobs, j, rfl, hpc⟩ := step_ld h
    subst hobs
    have htr : (afterLoad j s.mu).transit = (s.pc t).transit := by
      rw [afterLoad_transit]; rcases hpc with ⟨hq, rfl, _⟩ | ⟨hq, _⟩ | ⟨hq, _⟩ <;> rw [hq] <;> rfl
    have hin : (afterLoad j s.mu).initing = (s.pc t).initing := by
      rw [afterLoad_initing]; rcases hpc with ⟨hq, _⟩ | ⟨hq, _⟩ | ⟨hq, _⟩ <;> rw [hq] <;> rfl
    refine ⟨MInv_ld hm ?_, ?_, ?_⟩
    · intro j'; rcases hpc with ⟨hq, _⟩ | ⟨hq, _⟩ | ⟨hq, _⟩ <;> rw [hq] <;> simp
    · show LInv _ _ (trOf (upd s.pc t _)) _ _ _ _
      rw [trOf_upd_same htr]; exact hl
    · show FInv _ _ (iniOf (upd s.pc t _)) _ _ _ _
      rw [iniOf_upd_same hin]; exact hf
  | cas t exp new obs ok =>
    obtain ⟨j, hpc, rfl, hobs, _, ⟨_, rfl⟩ | ⟨_, rfl⟩⟩ := step_cas h
    · refine ⟨?_, ?_, ?_⟩
      · have hok : obs = exp := by simp_all
        exact MInv_casOk hm hpc (by rw [← hobs, hok])
      · show LInv _ _ (trOf (upd s.pc t _)) _ _ _ _
        rw [trOf_upd_same (by rw [hpc]; rfl)]; exact hl
      · show FInv _ _ (iniOf (upd s.pc t _)) _ _ _ _
        rw [iniOf_upd_same (by rw [hpc]; rfl)]; exact hf
    · refine ⟨MInv_frame hm (by rw [hpc]; simp) (by simp) (by simp), ?_, ?_⟩
      · show LInv _ _ (trOf (upd s.pc t _)) _ _ _ _
        rw [trOf_upd_same (by rw [hpc]; rfl)]; exact hl
      · show FInv _ _ (iniOf (upd s.pc t _)) _ _ _ _
        rw [iniOf_upd_same (by rw [hpc]; rfl)]; exact hf
  | rel t fn obs =>
    obtain ⟨j, hpc, _, _, hc⟩ := step_rel h
    rcases hc with ⟨rfl, hfr, rfl⟩ | ⟨q, rest, rfl, hfr, rfl⟩ | ⟨w, hj, rfl⟩
    · refine ⟨MInv_rel hm hpc (by simp) (by simp), ?_, ?_⟩
      · show LInv _ _ (trOf (upd s.pc t _)) _ _ _ _
        rw [trOf_upd_same (by rw [hpc]; rfl)]; exact hl
      · show FInv _ _ (iniOf (upd s.pc t _)) _ _ _ _
        rw [iniOf_upd_same (by rw [hpc]; rfl)]; exact hf
    · refine ⟨MInv_rel hm hpc (by simp) (by simp), ?_, ?_⟩
      · show LInv rest _ (trOf (upd s.pc t _)) _ _ _ _
        rw [trOf_upd]
        have hl' := hl; rw [hfr] at hl'
        exact LInv_pop hl' (by simp [trOf, hpc, PC.transit, Job.carried])
      · show FInv _ _ (iniOf (upd s.pc t _)) _ _ _ _
        rw [iniOf_upd_same (by rw [hpc]; rfl)]; exact hf
    · refine ⟨MInv_rel hm hpc (by simp) (by simp), ?_, ?_⟩
      · show LInv (w :: s.free) _ (trOf (upd s.pc t _)) _ _ _ _
        rw [trOf_upd]
        exact LInv_push hl (by rcases hj with rfl | rfl <;> simp [trOf, hpc, PC.transit, Job.carried])
      · show FInv _ _ (iniOf (upd s.pc t _)) _ _ _ _
        rw [iniOf_upd_same (by rw [hpc]; rfl)]; exact hf
  | malloc t w =>
    obtain ⟨hpc, rfl, rfl⟩ := step_malloc h
    refine ⟨MInv_frame hm (by rw [hpc]; simp) (by simp) (by simp), ?_, ?_⟩
    · show LInv _ _ (trOf (upd s.pc t _)) _ _ _ _
      rw [trOf_upd]
      exact LInv_malloc hl (by simp [trOf, hpc, PC.transit])
    · show FInv _ _ (iniOf (upd s.pc t _)) _ _ _ _
      rw [iniOf_upd]
      exact FInv_malloc hf (by simp [iniOf, hpc, PC.initing])
  | mallocNull t => exact absurd h step_mallocNull
  | stRc t w obs =>
    obtain ⟨hpc, rfl⟩ := step_stRc h
    refine ⟨MInv_frame hm (by rw [hpc]; simp) (by simp) (by simp), ?_, ?_⟩
    · show LInv _ _ (trOf (upd s.pc t _)) _ _ _ _
      rw [trOf_upd_same (by rw [hpc]; rfl)]
      exact LInv_stRc hl (t := t) (by simp [trOf, hpc, PC.transit])
    · show FInv _ _ (iniOf (upd s.pc t _)) _ _ _ _
      rw [iniOf_upd]
      exact FInv_stRc hf (by simp [iniOf, hpc, PC.initing])
  | ret t w =>
    rcases step_ret h with ⟨hpc, hfast, rfl⟩ | ⟨hpc, hp, rfl⟩ | ⟨hpc, _, rfl⟩
    · have hfs : s.ptw t = some w ∧ s.inuse w = false := by
        unfold fast at hfast
        split at hfast
        · split at hfast
          · injection hfast with hfast; subst hfast; exact ⟨‹_›, by simp_all⟩
          · cases hfast
        · cases hfast
      exact ⟨hm, LInv_retFast hl hfs.1 hfs.2, hf⟩
    · refine ⟨MInv_frame hm (by rw [hpc]; simp) (by simp) (by simp), ?_, ?_⟩
      · show LInv _ _ (trOf (upd s.pc t _)) _ _ _ _
        rw [trOf_upd]
        exact LInv_retReserve hl (by simp [trOf, hpc, PC.transit]) hp
      · show FInv _ _ (iniOf (upd s.pc t _)) _ _ _ _
        rw [iniOf_upd_same (by rw [hpc]; rfl)]; exact hf
    · refine ⟨MInv_frame hm (by rw [hpc]; simp) (by simp) (by simp), ?_, ?_⟩
      · show LInv _ _ (trOf (upd s.pc t _)) _ _ _ _
        rw [trOf_upd]
        exact LInv_retPlain hl (by simp [trOf, hpc, PC.transit])
      · show FInv _ _ (iniOf (upd s.pc t _)) _ _ _ _
        rw [iniOf_upd_same (by rw [hpc]; rfl)]; exact hf
  | free t w =>
    obtain ⟨hpc, hloc, _, ⟨hr, rfl⟩ | ⟨hr, rfl⟩⟩ := step_free h
    · exact ⟨hm, LInv_freeRes hl hloc hr, hf⟩
    · refine ⟨MInv_frame hm (by rw [hpc]; simp) (by simp) (by simp), ?_, ?_⟩
      · show LInv _ _ (trOf (upd s.pc t _)) _ _ _ _
        rw [trOf_upd]
        exact LInv_freePool hl hloc hr (by simp [trOf, hpc, PC.transit])
      · show FInv _ _ (iniOf (upd s.pc t _)) _ _ _ _
        rw [iniOf_upd_same (by rw [hpc]; rfl)]; exact hf
  | exit t =>
    obtain ⟨hpc, w, hp, _, hu, rfl⟩ := step_exit h
    refine ⟨MInv_frame hm (by rw [hpc]; simp) (by simp) (by simp), ?_, ?_⟩
    · show LInv _ _ (trOf (upd s.pc t _)) _ _ _ _
      rw [trOf_upd]
      exact LInv_exit hl hp hu (by simp [trOf, hpc, PC.transit])
    · show FInv _ _ (iniOf (upd s.pc t _)) _ _ _ _
      rw [iniOf_upd_same (by rw [hpc]; rfl)]; exact hf
  | use t w =>
    obtain ⟨_, rfl⟩ := step_use h
    exact ⟨hm, hl, hf⟩
  | env w f obs new =>
    obtain ⟨_, ⟨_, _, rfl⟩ | ⟨_, _, rfl⟩⟩ := step_env h
    · exact ⟨hm, hl, hf⟩
    · exact ⟨hm, hl, hf⟩

/-- The invariant holds in every reachable state. -/
theorem reachable_inv {s : State} (hr : Reachable s) : Inv s :=
  Reachable.induct (P := Inv) inv_init (fun _ _ _ _ hp h => inv_step hp h) s hr

end Pool
