/-
  Proofs/WaitNQuiet.lean — classification of the steps by what they do to the call structure:
  every accepted step is either `Quiet` (no call begins or ends, no record is born or dies) or one
  of the four structural steps (call, record initialisation, free, return).
-/
import NsyncVerif.Proofs.WaitNLocalInv

set_option linter.unusedSimpArgs false

namespace WaitN

/-- no call begins or ends, no record is born or dies, no frame gains or loses records -/
structure Quiet (s s' : State) : Prop where
  inCall : ∀ u, inCall (s'.pc u) = inCall (s.pc u)
  recs : ∀ u, (s'.fr u).recs = (s.fr u).recs
  frees : ∀ u, (s'.fr u).frees = (s.fr u).frees
  objs : ∀ u, (s'.fr u).objs = (s.fr u).objs
  live : ∀ r, (s'.rcd r).live = (s.rcd r).live
  owner : ∀ r, (s'.rcd r).owner = (s.rcd r).owner
  robj : ∀ r, (s'.rcd r).obj = (s.rcd r).obj

theorem Quiet.refl (s : State) : Quiet s s := ⟨fun _ => rfl, fun _ => rfl, fun _ => rfl, fun _ => rfl, fun _ => rfl, fun _ => rfl, fun _ => rfl⟩

theorem Quiet.trans {s s1 s2 : State} (a : Quiet s s1) (b : Quiet s1 s2) : Quiet s s2 :=
  ⟨fun u => (b.inCall u).trans (a.inCall u), fun u => (b.recs u).trans (a.recs u), fun u => (b.frees u).trans (a.frees u),
   fun u => (b.objs u).trans (a.objs u), fun r => (b.live r).trans (a.live r), fun r => (b.owner r).trans (a.owner r),
   fun r => (b.robj r).trans (a.robj r)⟩

@[simp] theorem inCall_relockNext (f : Frame) : inCall (relockNext f) = true := by unfold relockNext; split <;> rfl
@[simp] theorem inCall_finNext (f : Frame) : inCall (finNext f) = true := by
  unfold finNext; split
  · rfl
  · exact inCall_relockNext f
@[simp] theorem inCall_deqNext (f : Frame) (j : Nat) : inCall (deqNext f j) = true := by
  unfold deqNext; split
  · split <;> rfl
  · exact inCall_finNext f
@[simp] theorem inCall_scanEnd (f : Frame) : inCall (scanEnd f) = true := by
  unfold scanEnd; split
  · exact inCall_deqNext f 0
  · rfl
@[simp] theorem inCall_loopNext (f : Frame) (j : Nat) : inCall (loopNext f j) = true := by
  unfold loopNext; split
  · split <;> rfl
  · exact inCall_scanEnd f
@[simp] theorem inCall_enqNext (f : Frame) (i : Nat) (res : Bool) : inCall (enqNext f i res) = true := by
  unfold enqNext; split
  · rfl
  · split
    · split
      · rfl
      · exact inCall_loopNext f 0
    · exact inCall_deqNext f 0
@[simp] theorem inCall_pollFrom (f : Frame) (l : List ObjId) (i : Nat) : inCall (pollFrom f l i) = true := by
  induction l generalizing i with
  | nil =>
    unfold pollFrom; split
    · rfl
    · split
      · rfl
      · exact inCall_enqNext f 0 true
  | cons o rest ih =>
    cases o with
    | cv c => simp only [pollFrom]; exact ih _
    | note n => rfl
    | ctr k => rfl
@[simp] theorem inCall_pollNext (f : Frame) (i : Nat) : inCall (pollNext f i) = true := by simp [pollNext]

/-- closes the seven goals of `Quiet s s'` for an explicit `s'` -/
macro "quiet_tac" : tactic =>
  `(tactic| (constructor <;> intro x <;> (try simp) <;> (try split) <;> (try simp_all) <;> (try simp_all [inCall])))

theorem quiet_bindSem {s s' : State} {owner : Tid} {j : SemId} (h : bindSem s owner j = some s') : Quiet s s' := by
  unfold bindSem at h
  split at h
  · split at h
    · cases h; exact Quiet.refl _
    · cases h
  · split at h
    · cases h
    · cases h; quiet_tac

theorem quiet_postSem {s s' : State} {r : Rid} {j : SemId} (h : postSem s r j = some s') : Quiet s s' := by
  unfold postSem at h
  split at h
  · exact quiet_bindSem h
  · cases h; exact Quiet.refl _

theorem quiet_unbindSem (s : State) (t : Tid) : Quiet s (unbindSem s t) := by
  unfold unbindSem
  split <;> quiet_tac

theorem quiet_dflt {s s' : State} {t : Tid} {e : Ev} (h : dflt s t e = .ok s') : Quiet s s' := by
  unfold dflt at h
  split_ok h <;> (cases h; first | exact Quiet.refl _ | quiet_tac)

theorem quiet_rtDone {s s' : State} {t : Tid} {u : Use} {i : Nat} {time : Deadline}
    (hc : inCall (s.pc t) = true) (h : rtDone s t u i time = .ok s') : Quiet s s' := by
  unfold rtDone at h
  split_ok h <;> (cases h; quiet_tac)

theorem quiet_setPc {s : State} {t : Tid} {p : PC} (hc : inCall (s.pc t) = inCall p) : Quiet s (s.setPc t p) := by
  quiet_tac
theorem quiet_setFr {s : State} {t : Tid} {f : Frame} (h1 : f.recs = (s.fr t).recs) (h2 : f.frees = (s.fr t).frees)
    (h3 : f.objs = (s.fr t).objs) : Quiet s (s.setFr t f) := by
  quiet_tac

theorem quiet_deqDone {s s' : State} {t : Tid} {j : Nat} {res : Bool}
    (hc : inCall (s.pc t) = true) (h : deqDone s t j res = .ok s') : Quiet s s' := by
  unfold deqDone at h
  dsimp only at h
  split at h
  · cases h; quiet_tac
  · cases h
    refine Quiet.trans ?_ (Quiet.trans (quiet_unbindSem _ _) (quiet_setPc ?_))
    · exact quiet_setFr rfl rfl rfl
    · rw [(quiet_unbindSem (s.setFr t _) t).inCall t]; simpa using hc

theorem quiet_afterEnq {s s' : State} {t : Tid} {i : Nat} {res : Bool}
    (hc : inCall (s.pc t) = true) (h : afterEnq s t i res = .ok s') : Quiet s s' := by
  unfold afterEnq at h
  cases h
  split <;> quiet_tac

theorem quiet_startScan {s : State} {t : Tid} (hc : inCall (s.pc t) = true) : Quiet s (startScan s t) := by
  unfold startScan; quiet_tac

theorem quiet_spinAcq {s s' : State} {t : Tid} {c : Nat} {st : SpinSt} {mk : SpinSt → PC} {done : PC} {e : Ev}
    (hmk : ∀ x, inCall (mk x) = inCall (s.pc t)) (hdone : inCall done = inCall (s.pc t))
    (h : spinAcq s t c st mk done e = .ok s') : Quiet s s' := by
  unfold spinAcq at h
  split_ok h <;> first | exact quiet_dflt h | (cases h; quiet_tac)

macro "quiet_leaf" h:ident : tactic =>
  `(tactic| first
    | exact quiet_dflt $h
    | (cases $h:ident; first
        | exact Quiet.refl _
        | (quiet_tac; done)
        | (refine Quiet.trans (quiet_postSem ‹postSem _ _ _ = some _›) ?_; quiet_tac; done)
        | (refine Quiet.trans (quiet_bindSem ‹bindSem _ _ _ = some _›) ?_; quiet_tac; done)))

theorem quiet_proto {s s' : State} {t : Tid} {e : Ev} (h : proto s t e = .ok s') : Quiet s s' := by
  unfold proto at h
  split_ok h <;> quiet_leaf h

theorem quiet_stepOpen {s s' : State} {t : Tid} {e : Ev} (h : stepOpen s t e = .ok s') : Quiet s s' := by
  unfold stepOpen at h
  split_ok h <;> first | exact quiet_proto h | quiet_leaf h

end WaitN
