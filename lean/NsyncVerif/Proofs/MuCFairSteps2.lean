import NsyncVerif.Proofs.MuCFairSteps
/-
  MuC, fair termination, step A: `KindKeep` for compare-and-swap steps.
-/
namespace NsyncVerif.MuC

theorem kind_of_pc {s s' : State} {t : Tid} {p0 p : PC} (heq : s.pc t = p0) (hpc : s'.pc = setFn s.pc t p)
    (h : KindKeep p0 p) : KindKeep (s.pc t) (s'.pc t) := by
  rw [heq, hpc]; simpa using h

theorem kind_stepCasA {s s' : State} {t : Tid} {o : Ord} {loc : Loc} {exp new obs : Nat} {ok : Bool} (h1 : Inv1 s)
    (hp : match s.pc t with
      | .usCasGrab _ _ | .usRelCas _ _ _ | .usReCas _ _ _ | .usRcCas _ _ _ _ => True
      | _ => False)
    (hs : stepCas s t o loc exp new obs ok = .ok s') : KindKeep (s.pc t) (s'.pc t) := by
  unfold stepCas at hs
  split at hs
  all_goals try (rename_i heq; rw [heq] at hp; exact False.elim hp)
  all_goals try (rename_i hne; split at hp <;> first | exact False.elim hp | (exfalso; simp_all; done))
  · rename_i r old heq
    rcases casWordE_ok hs with ⟨hw, -, hs⟩ | ⟨-, -, rfl⟩
    · have hsc0 : Scan.ok { late := old.cond, tc := old.cond, done := [], passed := [], todo := [], wake := [], wt := none,
                            sww := false, saf := true } := fun h => h
      obtain ⟨hf, p, hpc, hsc⟩ := afterPickup_frame hs hsc0
      exact kind_of_pc heq (by rw [hpc]; simp) (KindKeep.scan (r := r) (by simp) rfl hsc)
    · kind_local heq
  · rename_i r sc old heq
    have hok0 := h1.pcok t; rw [heq] at hok0
    rcases casWordE_ok hs with ⟨hw, -, hs⟩ | ⟨-, -, rfl⟩
    · obtain ⟨hf, p, hpc, hsc⟩ := scanRun_frame _ _ t r sc s' hs hok0.2
      exact kind_of_pc heq (by rw [hpc]) (KindKeep.scan (r := r) (by simp) rfl hsc)
    · kind_local heq
  · rename_i r sc old heq
    have hok0 := h1.pcok t; rw [heq] at hok0
    rcases casWordE_ok hs with ⟨hw, -, hs⟩ | ⟨-, -, rfl⟩
    · obtain ⟨hf, p, hpc, hsc⟩ := afterPickup_frame hs hok0.2
      exact kind_of_pc heq (by rw [hpc]) (KindKeep.scan (r := r) (by simp) rfl hsc)
    · kind_local heq
  · rename_i r sc k old heq
    have hok0 := h1.pcok t; rw [heq] at hok0
    repeat' split at hs
    all_goals first
      | (cases hs; done)
      | skip
    · obtain ⟨hf, p, hpc, hsc⟩ := scanRun_frame _ _ t r sc s' hs hok0.2
      exact kind_of_pc heq (by rw [hpc]) (KindKeep.scan (r := r) (by simp) rfl hsc)
    · cases hs; kind_local heq

macro "cas_caseKd" heq:ident hs:ident : tactic => `(tactic|
  (rcases casWord_ok $hs with ⟨hw, -, hs'⟩ | ⟨-, -, hs'⟩ <;> subst hs' <;>
    first
    | kind_local $heq
    | (split <;> kind_local $heq)
    | (split <;> first | kind_local $heq | (split <;> kind_local $heq))))

theorem kind_stepCasB {s s' : State} {t : Tid} {o : Ord} {loc : Loc} {exp new obs : Nat} {ok : Bool}
    (hp : match s.pc t with
      | .lkCas0 _ | .lkCas1 _ _ | .tryCas0 _ | .tryCas1 _ _ | .lsCasAcq _ _ | .lsCasEnq _ _ | .lsRelCas _ _
      | .ulCas0 _ _ | .ulCas1 _ _ _ => True
      | _ => False)
    (hs : stepCas s t o loc exp new obs ok = .ok s') : KindKeep (s.pc t) (s'.pc t) := by
  unfold stepCas at hs
  split at hs
  all_goals try (rename_i heq; rw [heq] at hp; exact False.elim hp)
  all_goals try (rename_i hne; split at hp <;> first | exact False.elim hp | (exfalso; simp_all; done))
  all_goals (rename_i heq; cas_caseKd heq hs)

theorem kind_stepCasC {s s' : State} {t : Tid} {o : Ord} {loc : Loc} {exp new obs : Nat} {ok : Bool}
    (hp : match s.pc t with
      | .usCasUnc _ _ | .usFinCas _ _ _ | .mwEnqCas _ _ | .mwRelCas _ _ _ | .mtCasAcq _ _ | .mtCasWW _ _ | .mtRmCas _ _ _ => True
      | _ => False)
    (hs : stepCas s t o loc exp new obs ok = .ok s') : KindKeep (s.pc t) (s'.pc t) := by
  unfold stepCas at hs
  split at hs
  all_goals try (rename_i heq; rw [heq] at hp; exact False.elim hp)
  all_goals try (rename_i hne; split at hp <;> first | exact False.elim hp | (exfalso; simp_all; done))
  · rename_i r old heq; simp only [afterWakes_eq] at hs; cases r <;> cas_caseKd heq hs
  · rename_i r f old heq
    rcases casWord_ok hs with ⟨hw, -, rfl⟩ | ⟨-, -, rfl⟩
    · rw [afterFin_eq, heq]
      cases f.late <;>
      (simp only [Bool.false_eq_true, if_false, if_true, setPc_pc, setFn_same]
       cases f.wake <;> cases r <;> simp [finPc, Ret.pc, KindKeep, PC.rel, Ret.isUl])
    · kind_local heq
  · rename_i heq
    split at hs
    · cases hs
    · cas_caseKd heq hs
  · rename_i heq; cas_caseKd heq hs
  · rename_i heq; cas_caseKd heq hs
  · rename_i heq; cas_caseKd heq hs
  · rename_i heq; ld_caseKd heq hs

theorem kind_stepCas {s s' : State} {t : Tid} {o : Ord} {loc : Loc} {exp new obs : Nat} {ok : Bool} (h1 : Inv1 s)
    (hs : stepCas s t o loc exp new obs ok = .ok s') : KindKeep (s.pc t) (s'.pc t) := by
  cases hpc : s.pc t <;>
    first
    | exact hpc ▸ kind_stepCasA h1 (by rw [hpc]; trivial) hs
    | exact hpc ▸ kind_stepCasB (by rw [hpc]; trivial) hs
    | exact hpc ▸ kind_stepCasC (by rw [hpc]; trivial) hs
    | (simp [stepCas, hpc] at hs)

end NsyncVerif.MuC
