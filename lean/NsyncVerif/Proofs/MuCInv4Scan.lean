import NsyncVerif.Proofs.MuCInv4Cas
/-
  MuC (I_queue): steps that end in the plain code of the scan of unlock_slow.
-/
namespace NsyncVerif.MuC

theorem scanRun_finq : ∀ (n : Nat) (s : State) (t : Tid) (r : Ret) (sc : Scan) (s' : State),
    scanRun n s t r sc = .ok s' → ∀ f, (s'.pc t).finOf = some f → f.cEmpty = s'.queue.isEmpty := by
  intro n
  induction n with
  | zero => intro s t r sc s' h; simp [scanRun] at h
  | succ n ih =>
    intro s t r sc s' h
    unfold scanRun at h
    split at h
    · cases h
    · simp only [Except.ok.injEq] at h; subst h; intro f hf; simp [PC.finOf] at hf
    · simp only [Except.ok.injEq] at h; subst h; intro f hf; simp [PC.finOf] at hf
    · split at h
      · simp only [Except.ok.injEq] at h; subst h; intro f hf; simp [PC.finOf] at hf
      · split at h
        · simp only [Except.ok.injEq] at h; subst h
          intro f hf; simp [toFin, PC.finOf] at hf; subst hf; simp [mkFin, toFin]
        · split at h
          · simp only [Except.ok.injEq] at h; subst h; intro f hf; simp [PC.finOf] at hf
          · exact ih _ t r _ s' h

theorem afterPickup_finq {s : State} {sc0 : Scan} {t : Tid} {r : Ret} {s' : State}
    (h : afterPickup (pickup s sc0) t r sc0 = .ok s') : ∀ f, (s'.pc t).finOf = some f → f.cEmpty = s'.queue.isEmpty := by
  unfold afterPickup at h
  split at h
  · simp only [Except.ok.injEq] at h; subst h
    intro f hf; simp [toFin, PC.finOf] at hf; subst hf; simp [mkFin, toFin]
  · split at h
    · simp only [Except.ok.injEq] at h; subst h; intro f hf; simp [PC.finOf] at hf
    · exact scanRun_finq _ _ t r _ s' h

theorem afterEval_finq {s : State} {sc : Scan} {t : Tid} {r : Ret} {res : Bool} {s' : State}
    (h : afterEval s t r sc res = .ok s') : ∀ f, (s'.pc t).finOf = some f → f.cEmpty = s'.queue.isEmpty := by
  unfold afterEval at h
  split at h
  · cases h
  · split at h
    · exact scanRun_finq _ _ t r _ s' h
    · split at h
      · simp only [Except.ok.injEq] at h; subst h; intro f hf; simp [PC.finOf] at hf
      · cases h
      · exact scanRun_finq _ _ t r _ s' h

theorem scanPc_unl {r : Ret} {late : Bool} {p : PC} (h : ScanPc r late p) : p.unl = true := by
  cases p <;> simp [ScanPc] at h <;> rfl

theorem scanPc_ws {r : Ret} {late : Bool} {p : PC} (h : ScanPc r late p) : p.ws = r.ws := by
  cases p <;> simp [ScanPc] at h <;> simp [PC.ws, h]

theorem scanPc_limbo {r : Ret} {late : Bool} {p : PC} (h : ScanPc r late p) : p.limbo = none := by
  cases p <;> simp [ScanPc] at h <;> rfl

theorem unl_of_scan {p : PC} {sc : Scan} (h : p.scan? = some sc) : p.unl = true := by
  cases p <;> simp [PC.scan?] at h <;> rfl

theorem unl_of_fin {p : PC} {f : Fin} (h : p.finOf = some f) : p.unl = true := by
  cases p <;> simp [PC.finOf] at h <;> rfl

theorem priv_nil_of_not_unl {p : PC} (h : p.unl = false) : p.priv = [] := by
  simp only [PC.priv]
  cases hs : p.scan? with
  | none => rfl
  | some sc => rw [unl_of_scan hs] at h; cases h

/-- Thread `t`, the only unlocker, permutes queue, private lists and wake list. -/
theorem Inv4.scan_step {s s' : State} (t : Tid) (h : Inv4 s)
    (hwr : ∀ x, (s'.wr x).owner = (s.wr x).owner ∧ (s'.wr x).waiting = (s.wr x).waiting)
    (hpc : ∀ u, u ≠ t → s'.pc u = s.pc u)
    (hperm : (allOf s' t).Perm (allOf s t))
    (hoth : ∀ u, u ≠ t → (s.pc u).unl = false)
    (hws : ∀ k, k ∈ (s'.pc t).ws → k ∈ (s.pc t).ws)
    (hlb : (s'.pc t).limbo = none)
    (hfin : ∀ f, (s'.pc t).finOf = some f → f.cEmpty = s'.queue.isEmpty) : Inv4 s' := by
  have hmem : ∀ x, x ∈ allOf s' t ↔ x ∈ allOf s t := fun x => hperm.mem_iff
  have hold : ∀ x, x ∈ allOf s t → (s.wr x).waiting = true := by
    intro x hx
    simp only [allOf, List.mem_append] at hx
    rcases hx with (hx | hx) | hx
    · exact h.wait x (Or.inl hx)
    · obtain ⟨sc, h1, h2⟩ := mem_priv_iff.1 hx
      exact h.wait x (Or.inr ⟨t, sc, h1, h2⟩)
    · exact (h.wk t x hx).1
  have hprivu : ∀ u, u ≠ t → (s'.pc u).priv = [] := fun u hu => by rw [hpc u hu]; exact priv_nil_of_not_unl (hoth u hu)
  have hQ' : ∀ x, Queued s' x → x ∈ allOf s' t := by
    intro x hx
    rcases hx with hx | ⟨u, sc, h1, h2⟩
    · simp [allOf, hx]
    · by_cases hu : u = t
      · subst hu; simp only [allOf, List.mem_append]; exact Or.inl (Or.inr (mem_priv_iff.2 ⟨sc, h1, h2⟩))
      · have := hprivu u hu
        have h3 := mem_priv_iff.2 ⟨sc, h1, h2⟩
        rw [this] at h3; cases h3
  have hQs : ∀ x, x ∈ allOf s t → Queued s x ∨ x ∈ (s.pc t).wakeL := by
    intro x hx
    simp only [allOf, List.mem_append] at hx
    rcases hx with (hx | hx) | hx
    · exact Or.inl (Or.inl hx)
    · obtain ⟨sc, h1, h2⟩ := mem_priv_iff.1 hx
      exact Or.inl (Or.inr ⟨t, sc, h1, h2⟩)
    · exact Or.inr hx
  have hndt : (allOf s' t).Nodup := (List.Perm.nodup_iff hperm).2 (h.nd t)
  -- members of other threads' wake lists and limbo records are not on `t`'s lists
  have hout : ∀ u x, u ≠ t → x ∈ (s.pc u).wakeL → x ∉ allOf s t := by
    intro u x hu hx hin
    rcases hQs x hin with e | e
    · exact (h.wk u x hx).2 e
    · exact hu (h.wkd u t x hx e)
  refine ⟨?_, ?_, ?_, ?_, ?_, ?_, ?_, ?_⟩
  · intro u x hx
    rw [(hwr x).1]
    by_cases hu : u = t
    · subst hu; exact h.own u x (hws x hx)
    · rw [hpc u hu] at hx; exact h.own u x hx
  · intro u v hu hv
    have : ∀ w, (s'.pc w).unl = true → w = t := by
      intro w hw
      by_cases e : w = t
      · exact e
      · rw [hpc w e, hoth w e] at hw; cases hw
    rw [this u hu, this v hv]
  · intro u
    by_cases hu : u = t
    · subst hu; exact hndt
    · simp only [allOf, hprivu u hu, List.append_nil]
      rw [hpc u hu]
      have hq : s'.queue.Nodup := by
        simp only [allOf, List.append_assoc] at hndt; exact (List.nodup_append.mp hndt).1
      have hw : (s.pc u).wakeL.Nodup := by
        have := h.nd u; simp only [allOf] at this; exact (List.nodup_append.mp this).2.1
      refine List.nodup_append.mpr ⟨hq, hw, ?_⟩
      intro a ha b hb hab
      subst hab
      have : a ∈ allOf s' t := by simp [allOf, ha]
      exact hout u a hu hb ((hmem a).1 this)
  · intro x hx
    rw [(hwr x).2]; exact hold x ((hmem x).1 (hQ' x hx))
  · intro u x hx
    by_cases hu : u = t
    · subst hu
      have hin : x ∈ allOf s' u := by simp [allOf, hx]
      refine ⟨by rw [(hwr x).2]; exact hold x ((hmem x).1 hin), fun hq => ?_⟩
      -- x would occur twice in allOf s' u
      have hqx : x ∈ s'.queue ++ (s'.pc u).priv := by
        rcases hq with hq | ⟨v, sc, h1, h2⟩
        · simp [hq]
        · by_cases hv : v = u
          · subst hv; exact List.mem_append_right _ (mem_priv_iff.2 ⟨sc, h1, h2⟩)
          · have h3 := mem_priv_iff.2 ⟨sc, h1, h2⟩; rw [hprivu v hv] at h3; cases h3
      simp only [allOf] at hndt
      exact (List.nodup_append.mp hndt).2.2 x hqx x hx rfl
    · rw [hpc u hu] at hx
      obtain ⟨a, _⟩ := h.wk u x hx
      exact ⟨by rw [(hwr x).2]; exact a, fun hq => hout u x hu hx ((hmem x).1 (hQ' x hq))⟩
  · intro u x hx
    by_cases hu : u = t
    · subst hu; rw [hlb] at hx; cases hx
    · rw [hpc u hu] at hx
      obtain ⟨a, b, c⟩ := h.limbo u x hx
      have hnot : x ∉ allOf s t := by
        intro hin
        rcases hQs x hin with e | e
        · exact b e
        · exact c t e
      refine ⟨by rw [(hwr x).2]; exact a, fun hq => hnot ((hmem x).1 (hQ' x hq)), fun v => ?_⟩
      by_cases hv : v = t
      · subst hv; intro e; exact hnot ((hmem x).1 (by simp [allOf, e]))
      · rw [hpc v hv]; exact c v
  · intro u f hf
    by_cases hu : u = t
    · subst hu; exact hfin f hf
    · rw [hpc u hu] at hf
      have := unl_of_fin hf; rw [hoth u hu] at this; cases this
  · intro u v x hu hv
    by_cases eu : u = t
    · by_cases ev : v = t
      · rw [eu, ev]
      · exfalso
        rw [hpc v ev] at hv
        subst eu
        exact hout v x ev hv ((hmem x).1 (by simp [allOf, hu]))
    · by_cases ev : v = t
      · exfalso
        rw [hpc u eu] at hu
        subst ev
        exact hout u x eu hu ((hmem x).1 (by simp [allOf, hv]))
      · rw [hpc u eu] at hu; rw [hpc v ev] at hv; exact h.wkd u v x hu hv

end NsyncVerif.MuC
