import NsyncVerif.Proofs.MuCTL
/-
  MuC, Inv12: the induction step, part 1 — what the step facts `StepTL` and the invariants Inv1 … Inv11 of
  both states say about queued records, threads in flight and responsible threads.
-/
namespace NsyncVerif.MuC

/-- The invariants proved so far. -/
structure Invs (s : State) : Prop where
  i1 : Inv1 s
  i3 : Inv3 s
  i4 : Inv4 s
  i5 : Inv5 s
  i7 : Inv7 s
  i8 : Inv8 s
  i9 : Inv9 s
  i10 : Inv10 s
  i11 : Inv11 s

theorem reachable_invs {cfg : Cfg} {s : State} (h : Reachable cfg s) : Invs s :=
  have ha := reachable_inv_all h
  ⟨ha.1, ha.2.1, ha.2.2.1, ha.2.2.2.1, ha.2.2.2.2.2, reachable_inv8 h, reachable_inv9 h, reachable_inv10 h, reachable_inv11 h⟩

/-! ### program-point facts -/

theorem enqPend_waitRec {p : PC} (h : p.enqPend = true) : p.waitRec = none := by
  cases p <;> simp [PC.enqPend] at h <;> rfl

theorem enqPend_spin {p : PC} (h : p.enqPend = true) : p.spin = true := by
  cases p <;> simp [PC.enqPend] at h <;> rfl

theorem limbo_waitRec {p : PC} {k : Wid} (h : p.limbo = some k) : p.waitRec = none := by
  cases p <;> simp [PC.limbo] at h <;> rfl

theorem finOf_mtOld {p : PC} {f : Fin} (h : p.finOf = some f) : p.mtOld = none := by
  cases p <;> simp [PC.finOf] at h <;> rfl

theorem finOf_spin {p : PC} {f : Fin} (h : p.finOf = some f) : p.spin = true := by
  cases p <;> simp [PC.finOf] at h <;> rfl

theorem finOf_share {p : PC} {f : Fin} (h : p.finOf = some f) (hl : f.late = true) : pcShare p = some .W := by
  cases p <;> simp [PC.finOf] at h <;> subst h <;> simp [pcShare, hl]

theorem lsRec_waitRec {p : PC} {k : Wid} (h : p.lsRec = some k) : p.waitRec = some k ∧ p.hlRec = none := by
  cases p <;> simp [PC.lsRec] at h <;> simp [PC.waitRec, PC.hlRec, h]

theorem lsRec_mem_ws {p : PC} {k : Wid} (h : p.lsRec = some k) : k ∈ p.ws := waitRec_mem_ws (lsRec_waitRec h).1

theorem lsRec_not_enq {p : PC} {k : Wid} (h : p.lsRec = some k) : p.enqPend = false := by
  cases p <;> simp [PC.lsRec] at h <;> rfl

theorem mwRel_facts {p : PC} {c : MW} (h : p.mwRel = some c) :
    p.waitRec = c.w ∧ p.mwPre = some c ∧ p.limboC = c.w.map (fun k => (k, c.cond)) := by
  cases p <;> simp [PC.mwRel] at h <;> subst h <;> simp [PC.waitRec, PC.mwPre, PC.limboC]

/-- A thread that justifies MU_WRITER_WAITING by its program point is woken, holds the spinlock, waits inside
    lock_slow, or spins after a timeout. -/
theorem wwA_cases {p : PC} (h8 : p.ok8) (h : p.wwA = true) :
    p.woken = true ∨ p.spin = true ∨ (∃ k, p.lsRec = some k) ∨ p.timedOut = true := by
  cases p <;> simp [PC.wwA] at h <;> simp_all [PC.woken, PC.spin, PC.lsRec, PC.timedOut, PC.ok8, Option.isSome_iff_exists]

/-- The same for a thread with `long_wait` set. -/
theorem lwl_cases {p : PC} {c : SL} (h8 : p.ok8) (hsl : p.sl? = some c) (hl : c.lwl = true) :
    p.woken = true ∨ p.spin = true ∨ (∃ k, p.lsRec = some k) := by
  have key : c.ok8 → c.clear = true := by
    intro a
    rcases a with ⟨a1, a2⟩
    cases e : c.ign with
    | false => rw [a2 e] at hl; cases hl
    | true => rw [a1, e]
  cases p <;> simp [PC.sl?] at hsl <;> subst hsl <;>
    simp_all [PC.woken, PC.spin, PC.lsRec, PC.ok8, Option.isSome_iff_exists]

section step
variable {s s' : State} {t : Tid}

/-- A record that some thread waits on and that is on no list is on no list afterwards. -/
theorem notQueued_keep (a : Invs s) (a' : Invs s') (tl : StepTL s s' t) {u : Tid} {k : Wid}
    (hu : (s.pc u).waitRec = some k) (hnq : ¬ Queued s k) : ¬ Queued s' k := by
  intro hq'
  have hw' := a'.i4.wait k hq'
  cases hw : (s.wr k).waiting with
  | true =>
    rcases a.i9.w3 u k hu hw with e | ⟨v, hv⟩
    · exact hnq e
    · by_cases e : v = t
      · subst e
        rcases tl.wt.p2 k hv with b | b
        · exact (a'.i4.wk v k b).2 hq'
        · rw [b] at hw'; cases hw'
      · rw [← (tl.oth v e).1] at hv
        exact (a'.i4.wk v k hv).2 hq'
  | false =>
    obtain ⟨_, b2, b3⟩ := tl.rc.r2 k hw hw'
    have hown := a.i4.own u k (waitRec_mem_ws hu)
    have hut : u = t := by
      rcases b2 with b2 | b2
      · have := a.i4.own t k b2; rw [hown] at this; cases this; rfl
      · rw [hown] at b2; cases b2
    subst hut
    rw [b3] at hu; cases hu

/-- A queued record stays as it is and stays queued, unless an unlocker takes it off — then its owner is in flight
    — or its owner removes it himself after a timeout. -/
theorem queued_keep (a : Invs s) (a' : Invs s') (tl : StepTL s s' t) {k : Wid} (hq : Queued s k)
    (hmt : (s.pc t).mtOld = none) :
    ((s'.wr k).lType = (s.wr k).lType ∧ (s'.wr k).cond = (s.wr k).cond) ∧
    (Queued s' k ∨ ∃ u, (s'.pc u).waitRec = some k ∧ (s'.pc u).hlRec = none ∧ (s'.pc u).wmode = (s.wr k).lType ∧ ¬ Queued s' k) := by
  have hw := a.i4.wait k hq
  have hsame : (s'.wr k).lType = (s.wr k).lType ∧ (s'.wr k).cond = (s.wr k).cond := by
    rcases tl.rc.r3 k with b | ⟨b, _⟩
    · exact b
    · rw [hw] at b; cases b
  have hw' : (s'.wr k).waiting = true := by
    cases e : (s'.wr k).waiting with
    | true => rfl
    | false =>
      exfalso
      rcases tl.rc.r1 k hw e with b | b
      · exact (a.i4.wk t k b).2 hq
      · exact (a.i4.limbo t k b).2.1 hq
  obtain ⟨u, hu⟩ := a.i9.own k (Or.inl hq)
  have hu' : (s'.pc u).waitRec = some k := by
    by_cases e : u = t
    · subst e
      rcases tl.wt.p1 k hu hw with b | b
      · exact b
      · exact absurd hmt b
    · rw [(tl.oth u e).1]; exact hu
  refine ⟨hsame, ?_⟩
  rcases a'.i9.w3 u k hu' hw' with b | ⟨v, hv⟩
  · exact Or.inl b
  · refine Or.inr ⟨u, hu', ?_, ?_, (a'.i4.wk v k hv).2⟩
    · rcases hlRec_of_waitRec hu' with b | b
      · exact b
      · have := a'.i9.hlf u k b; rw [hw'] at this; cases this
    · rw [← a'.i9.lt u k hu', hsame.1]

theorem shareOf_step_other (tl : StepTL s s' t) {u : Tid} (hu : u ≠ t) : shareOf s' u = shareOf s u := by
  simp [shareOf, (tl.oth u hu).1, (tl.oth u hu).2]

/-- Another thread stays responsible. -/
theorem respT_step_other (a : Invs s) (a' : Invs s') (tl : StepTL s s' t) {u : Tid} (hu : u ≠ t) (h : RespT s u) : RespT s' u := by
  rcases h with b | (b | b | ⟨k, b1, b2, b3⟩) | b
  · left; rw [shareOf_step_other tl hu]; exact b
  · right; left; left; rw [(tl.oth u hu).1]; exact b
  · right; left; right; left; rw [(tl.oth u hu).1]; exact b
  · right; left; right; right
    exact ⟨k, by rw [(tl.oth u hu).1]; exact b1, by rw [(tl.oth u hu).1]; exact b2, notQueued_keep a a' tl b1 b3⟩
  · right; right; rw [(tl.oth u hu).1]; exact b

/-- In flight because the record is on no list. -/
def InFlightRec (s : State) (t : Tid) : Prop := ∃ k, (s.pc t).waitRec = some k ∧ (s.pc t).hlRec = none ∧ ¬ Queued s k

/-- The stepping thread stays responsible, or it gives up at one of the listed steps — and then it is not in flight. -/
theorem respT_step_self (a : Invs s) (a' : Invs s') (tl : StepTL s s' t) (h : RespT s t) :
    RespT s' t ∨ (GaveUp s s' t ∧ ¬ InFlightRec s t) := by
  by_cases hif : InFlightRec s t
  · left
    obtain ⟨k, b1, b2, b3⟩ := hif
    rcases tl.rk.wrec k b1 b2 with ⟨c1, c2⟩ | c | c | c
    · exact Or.inr (Or.inl (Or.inr (Or.inr ⟨k, c1, c2, notQueued_keep a a' tl b1 b3⟩)))
    · exact Or.inr (Or.inl (Or.inr (Or.inl c)))
    · exact Or.inr (Or.inr c)
    · exact Or.inl c
  · rcases h with b | (b | b | b) | b
    · rcases tl.rk.share b with c | c | c | c
      · exact Or.inl (Or.inl c)
      · exact Or.inl (Or.inr (Or.inl (Or.inl c)))
      · exact Or.inl (Or.inr (Or.inr c))
      · exact Or.inr ⟨c, hif⟩
    · rcases tl.rk.unl b with c | c
      · exact Or.inl (Or.inr (Or.inl (Or.inl c)))
      · exact Or.inr ⟨c, hif⟩
    · rcases tl.rk.woken b with c | c | c
      · exact Or.inl (Or.inr (Or.inl (Or.inr (Or.inl c))))
      · exact Or.inl (Or.inl c)
      · exact Or.inr ⟨c, hif⟩
    · exact absurd b hif
    · rcases tl.rk.tout b with c | c | c
      · exact Or.inl (Or.inr (Or.inr c))
      · exact Or.inl (Or.inr (Or.inl (Or.inr (Or.inl c))))
      · exact Or.inl (Or.inl c)

/-- A thread that justifies MU_WRITER_WAITING keeps doing so while the bit stays set. -/
theorem wj_keep (a : Invs s) (a' : Invs s') (tl : StepTL s s' t) (hmtw : ∀ old, (s.pc t).mtOld = some old → s.word.ww = false)
    (hww : s.word.ww = true) (hww' : s'.word.ww = true) {u : Tid} (h : WJ s u) : WJ s' u := by
  by_cases e : u = t
  · subst e
    rcases h with b | ⟨k, b1, b2, b3, b4⟩
    · rcases tl.wd.p4 b with c | c
      · exact Or.inl c
      · rw [c] at hww'; cases hww'
    · rcases tl.wt.p5 k b1 b2 b3 with ⟨c1, c2⟩ | c | c | c
      · right
        refine ⟨k, c1, c2, ?_, notQueued_keep a a' tl b1 b4⟩
        have hlt : (s'.wr k).lType = (s.wr k).lType := by
          rcases tl.rc.r3 k with d | ⟨d1, d2⟩
          · exact d.1
          · exfalso
            rw [(tl.rc.r2 k d1 d2).2.2] at b1; cases b1
        rw [← a'.i9.lt u k c1, hlt, a.i9.lt u k b1, b3]
      · exact Or.inl c
      · rw [c] at hww'; cases hww'
      · cases ho : (s.pc u).mtOld with
        | none => exact absurd ho c
        | some old => have := hmtw old ho; rw [hww] at this; cases this
  · rcases h with b | ⟨k, b1, b2, b3, b4⟩
    · left; rw [(tl.oth u e).1]; exact b
    · right
      exact ⟨k, by rw [(tl.oth u e).1]; exact b1, by rw [(tl.oth u e).1]; exact b2, by rw [(tl.oth u e).1]; exact b3,
        notQueued_keep a a' tl b1 b4⟩

end step

end NsyncVerif.MuC
