/-
  Proofs/CounterInv.lean — the inductive invariant of the Counter layer and the rely lemma
  ("what other threads may do to the shared state keeps my program-point facts true").
-/
import NsyncVerif.Model.Counter

namespace Counter

/-- program points at which the thread holds counter_mu -/
def holds : PC → Bool
  | .fHeld | .aLoad _ | .aCas _ _ | .aLoadWaited _ _ _ | .aHeld _ _ _ _ | .aPost _ _ _ _
  | .wEnqLoad _ _ | .wEnqStore _ _ _ | .wEnqUnlockCall _ _ _
  | .wDeqLoadV _ _ _ | .wDeqLoadW _ _ _ _ | .wDeqStore _ _ _ _ | .wDeqUnlockCall _ _ _ _ => true
  | _ => false

/-- prefix sums: `sums a [d1,d2,…] = [a, a+d1, a+d1+d2, …]` -/
def sums (a : Int) : List Int → List Int
  | [] => [a]
  | d :: ds => a :: sums (a + d) ds

def own (sh : Shared) (t : Tid) (k : NwId) : Prop := (sh.nw k).live = true ∧ (sh.nw k).owner = t

/-- record k has been removed from the queue by a waker and its semaphore has been posted -/
def woken (sh : Shared) (k : NwId) : Prop := (sh.nw k).waiting = false ∧ sh.posting ≠ some k

def semPos (sh : Shared) (k : NwId) : Prop := ∃ j, (sh.nw k).sem = some j ∧ 0 < sh.sem j

/-- ghost link between an add's result and the history -/
def addGhost (hist : List Nat) (d : Int) (r idx : Nat) : Prop :=
  hist[idx]? = some r ∧ ∃ i old, idx = i + 1 ∧ hist[i]? = some old ∧ (r : Int) = (old : Int) + d

structure ShInv (sh : Shared) : Prop where
  queue : ∀ k, k ∈ sh.waiters ↔ (sh.nw k).waiting = true
  wlive : ∀ k, (sh.nw k).waiting = true → (sh.nw k).live = true
  nodup : sh.waiters.Nodup
  zero : sh.waiters ≠ [] → sh.value ≠ 0 ∨ sh.waking = true
  free : sh.lockHolder = none → sh.waking = false ∧ sh.posting = none
  post : ∀ k, sh.posting = some k → sh.waking = true ∧ (sh.nw k).live = true ∧ (sh.nw k).waiting = false
  wk0 : sh.waking = true → sh.value = 0
  last : sh.created = true → sh.hist.getLast? = some sh.value
  hsum : sh.created = true → sh.hist.map (fun (n : Nat) => (n : Int)) = sums sh.initial sh.deltas
  hnil : sh.created = false → sh.hist = [] ∧ sh.deltas = [] ∧ sh.lockHolder = none ∧ sh.waited = false
      ∧ sh.waiters = [] ∧ sh.waking = false
  creating : (sh.phase = .creating ∨ sh.phase = .absent) → sh.created = false
  semu : ∀ k j, (sh.nw k).live = true → (sh.nw k).sem = some j → sh.semUser j = some k
  phase : sh.phase = .live → sh.created = true

/-- facts at each program point (about the shared state only) -/
def pcFacts (sh : Shared) (t : Tid) : PC → Prop
  | .idle | .newMalloc _ | .newStore _ | .fRet => True
  | .newRet ok => ok = true → sh.created = true
  | .fLockCall | .fLockWait | .fUnlockWait | .fFree => sh.created = true
  | .fHeld => sh.created = true ∧ sh.waking = false ∧ sh.posting = none
  | .valLoad | .azLoad | .aLockCall _ | .aLockWait _ | .w0Store _ => sh.created = true
  | .valRet v | .azRet v => v ∈ sh.hist
  | .aLoad _ | .aCas _ _ => sh.created = true ∧ sh.waking = false ∧ sh.posting = none
  | .aLoadWaited d r idx =>
      addGhost sh.hist d r idx ∧ sh.value = r ∧ sh.waking = decide (r = 0) ∧ sh.posting = none
  | .aHeld d r idx wake =>
      addGhost sh.hist d r idx ∧ sh.value = r ∧ wake = decide (r = 0) ∧ sh.waking = wake ∧ sh.posting = none
  | .aPost d r idx k =>
      addGhost sh.hist d r idx ∧ sh.value = r ∧ r = 0 ∧ sh.waking = true ∧ sh.posting = some k
  | .aUnlockWait d r idx | .aRet d r idx => addGhost sh.hist d r idx
  | .w0Load _ | .wInit _ => sh.created = true ∧ sh.waited = true
  | .wEnqLockCall _ k | .wEnqLockWait _ k =>
      own sh t k ∧ sh.created = true ∧ sh.waited = true ∧ (sh.nw k).waiting = false ∧ sh.posting ≠ some k
  | .wEnqLoad _ k =>
      own sh t k ∧ sh.created = true ∧ sh.waited = true ∧ (sh.nw k).waiting = false
      ∧ sh.waking = false ∧ sh.posting = none
  | .wEnqStore _ k v =>
      own sh t k ∧ sh.created = true ∧ sh.waited = true ∧ (sh.nw k).waiting = false
      ∧ sh.waking = false ∧ sh.posting = none ∧ v = sh.value
  | .wEnqUnlockCall _ k enq =>
      own sh t k ∧ sh.created = true ∧ sh.waited = true ∧ sh.waking = false ∧ sh.posting = none
      ∧ (if enq then (woken sh k → sh.value = 0) else (sh.value = 0 ∧ (sh.nw k).waiting = false))
  | .wEnqUnlockWait _ k enq =>
      own sh t k ∧ sh.created = true ∧ sh.waited = true
      ∧ (if enq then (woken sh k → sh.value = 0) else (sh.value = 0 ∧ woken sh k))
  | .wLoopStore _ k | .wLoopLoad _ k =>
      own sh t k ∧ sh.created = true ∧ sh.waited = true ∧ (woken sh k → sh.value = 0)
  | .wPdEnter _ k =>
      own sh t k ∧ sh.created = true ∧ sh.waited = true ∧ (woken sh k → sh.value = 0 ∧ semPos sh k)
  | .wPdWait _ k j =>
      own sh t k ∧ sh.created = true ∧ sh.waited = true ∧ (sh.nw k).sem = some j
      ∧ (woken sh k → sh.value = 0 ∧ semPos sh k)
  | .wDeqLockCall dl k tmo | .wDeqLockWait dl k tmo =>
      own sh t k ∧ sh.created = true ∧ sh.waited = true
      ∧ (tmo = false → sh.value = 0) ∧ (tmo = true → expired dl sh.now)
  | .wDeqLoadV dl k tmo =>
      own sh t k ∧ sh.created = true ∧ sh.waited = true ∧ sh.waking = false ∧ sh.posting = none
      ∧ (tmo = false → sh.value = 0) ∧ (tmo = true → expired dl sh.now)
  | .wDeqLoadW dl k tmo v =>
      own sh t k ∧ sh.created = true ∧ sh.waited = true ∧ sh.waking = false ∧ sh.posting = none
      ∧ (tmo = false → v = 0) ∧ (tmo = true → expired dl sh.now) ∧ v ∈ sh.hist
  | .wDeqStore dl k tmo v =>
      own sh t k ∧ sh.created = true ∧ sh.waited = true ∧ sh.waking = false ∧ sh.posting = none
      ∧ (tmo = false → v = 0) ∧ (tmo = true → expired dl sh.now) ∧ (sh.nw k).waiting = true ∧ v ∈ sh.hist
  | .wDeqUnlockCall dl k tmo v =>
      own sh t k ∧ sh.created = true ∧ sh.waited = true ∧ sh.waking = false ∧ sh.posting = none
      ∧ (tmo = false → v = 0) ∧ (tmo = true → expired dl sh.now) ∧ (sh.nw k).waiting = false ∧ v ∈ sh.hist
  | .wDeqUnlockWait dl k tmo v =>
      own sh t k ∧ sh.created = true
      ∧ (tmo = false → v = 0) ∧ (tmo = true → expired dl sh.now) ∧ woken sh k ∧ v ∈ sh.hist
  | .wFinalLoad dl => sh.created = true ∧ expired dl sh.now
  | .wRet dl r => r ∈ sh.hist ∧ (r ≠ 0 → expired dl sh.now)

def pcInv (sh : Shared) (t : Tid) (p : PC) : Prop :=
  (sh.lockHolder = some t ↔ holds p = true) ∧ pcFacts sh t p

structure Inv (s : State) : Prop where
  sh : ShInv s.sh
  pcs : ∀ t, pcInv s.sh t (s.pc t)

/-- What thread `u` may assume about a step of another thread. -/
structure Rely (sh sh' : Shared) (u : Tid) : Prop where
  lock : sh'.lockHolder = some u ↔ sh.lockHolder = some u
  held : sh.lockHolder = some u →
      sh'.value = sh.value ∧ sh'.waking = sh.waking ∧ sh'.posting = sh.posting
  heldw : sh.lockHolder = some u → ∀ k, Counter.own sh u k → (sh'.nw k).waiting = (sh.nw k).waiting
  created : sh.created = true → sh'.created = true
  hist : ∃ l, sh'.hist = sh.hist ++ l
  waited : sh.waited = true → sh'.waited = true
  now : sh.now ≤ sh'.now
  ownP : ∀ k, Counter.own sh u k → Counter.own sh' u k
  sem : ∀ k j, Counter.own sh u k → (sh.nw k).sem = some j → (sh'.nw k).sem = some j
  zstable : sh.waited = true → sh.value = 0 → sh'.value = 0
  wfalse : ∀ k, Counter.own sh u k → (sh.nw k).waiting = false → (sh'.nw k).waiting = false
  wk : ∀ k, Counter.own sh u k → woken sh k → woken sh' k
  wk' : ∀ k, Counter.own sh u k → sh.waited = true → woken sh' k → woken sh k ∨ (sh'.value = 0 ∧ semPos sh' k)
  spos : ∀ k, Counter.own sh u k → woken sh k → semPos sh k → semPos sh' k

theorem getElem?_append_some {α} {l m : List α} {i : Nat} {a : α} (h : l[i]? = some a) :
    (l ++ m)[i]? = some a := by
  have hi : i < l.length := by
    rcases Nat.lt_or_ge i l.length with h' | h'
    · exact h'
    · rw [List.getElem?_eq_none h'] at h; cases h
  rw [List.getElem?_append_left hi]; exact h

theorem addGhost_mono {sh sh' : Shared} {d r idx} (h : ∃ l, sh'.hist = sh.hist ++ l)
    (g : addGhost sh.hist d r idx) : addGhost sh'.hist d r idx := by
  obtain ⟨l, hl⟩ := h
  obtain ⟨g1, i, old, g2, g3, g4⟩ := g
  refine ⟨?_, i, old, g2, ?_, g4⟩
  · rw [hl]; exact getElem?_append_some g1
  · rw [hl]; exact getElem?_append_some g3

theorem expired_mono {d : Deadline} {a b : Nat} (h : a ≤ b) (e : expired d a) : expired d b := by
  cases d with
  | none => exact e
  | some x => simp only [expired] at *; omega

theorem expired_of_dlePast {d : Deadline} {now : Nat} (h : dlePast d = true) : expired d now := by
  cases d with
  | none => simp [dlePast] at h
  | some x => simp [dlePast] at h; simp only [expired]; omega

theorem mem_hist_mono {sh sh' : Shared} {v} (h : ∃ l, sh'.hist = sh.hist ++ l) (m : v ∈ sh.hist) :
    v ∈ sh'.hist := by
  obtain ⟨l, hl⟩ := h; rw [hl]; exact List.mem_append_left _ m

@[simp, grind =] theorem b2n_eq_zero (b : Bool) : (b2n b = 0) = (b = false) := by cases b <;> simp [b2n]
@[simp, grind =] theorem b2n_true : b2n true = 1 := rfl
@[simp, grind =] theorem b2n_false : b2n false = 0 := rfl

@[simp] theorem ite_live {c : Prop} [Decidable c] (a b : Rec) :
    (if c then a else b).live = if c then a.live else b.live := by split <;> rfl
@[simp] theorem ite_waiting {c : Prop} [Decidable c] (a b : Rec) :
    (if c then a else b).waiting = if c then a.waiting else b.waiting := by split <;> rfl
@[simp] theorem ite_sem {c : Prop} [Decidable c] (a b : Rec) :
    (if c then a else b).sem = if c then a.sem else b.sem := by split <;> rfl
@[simp] theorem ite_owner {c : Prop} [Decidable c] (a b : Rec) :
    (if c then a else b).owner = if c then a.owner else b.owner := by split <;> rfl

end Counter
