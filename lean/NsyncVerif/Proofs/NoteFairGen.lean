/-
  Layer `Note`, fair termination, ALL calls (no `LeafCalls`), modulo bounded work: if every thread
  takes only finitely many steps inside its call unless it goes round the wait loop of an
  un-notified `nsync_note_wait` for ever (`FiniteWork`: the sequential termination of the
  traversal of `note_notify_child` / `nsync_note_free`; it is proved in Proofs/NoteFairPot2.lean,
  `finiteWork_settled`), then every call returns (`gen_returns`).

  All the concurrency is here: a thread that has stopped for ever inside a call is waiting for a
  mutex or for the children of a note (weak fairness); the mutex is then held for ever by one
  thread, which has stopped too, below (`LockFair`, `C09_lock_order`); the children of the note
  are `disconnecting` and a counted thread has stopped at or below them, or at the mutex of the
  note itself (`WaitFair`, `C09_wait_has_disconnectors`, `counted_target`): induction on the
  number of notes below in the creation order.  A sleeper whose note has its flag set is posted
  once no activation on the note is left (`C08_waiters_released`).
-/
import NsyncVerif.Proofs.NoteFairMain
import NsyncVerif.Proofs.NoteFairKeep2

set_option linter.unusedSimpArgs false

namespace Note

variable {s0 : State}

/-- Thread `t` takes a step of its call at time `j`. -/
def Acts (x : Exec s0) (t : Tid) (j : Nat) : Prop := Moves x t j ∧ (x.ρ j).pc t ≠ .idle

/-- Thread `t` executes the `ready_time` load of the wait loop of `nsync_wait_n` and finds the flag
    unset (it goes round the loop once more). -/
def LoopStep (x : Exec s0) (t : Tid) (j : Nat) : Prop :=
  Moves x t j ∧ ∃ n nt r wdl, (x.ρ j).pc t = .dl .ld1 n nt (.ready2 r wdl) ∧
    ((x.ρ j).notes n).notified = false

/-- … again and again. -/
def Looper (x : Exec s0) (t : Tid) : Prop := ∀ i, ∃ j, i ≤ j ∧ LoopStep x t j

/-- BOUNDED WORK: every thread takes finitely many steps inside calls, unless it goes round the
    wait loop of an un-notified `nsync_note_wait` for ever. -/
def FiniteWork (x : Exec s0) : Prop :=
  ∀ t, (∃ i, ∀ j, i ≤ j → ¬ Acts x t j) ∨ Looper x t

/-- The FULL statement with the additional hypothesis `FiniteWork`
    (proved: `C09_fair_termination_modulo_work`, Props/C09Fair.lean). -/
def C09_fair_termination_modulo_work_full : Prop :=
  ∀ (s0 : State) (x : Exec s0), Reachable s0 →
    WeakFair x → LockFair x → WaitFair x → FiniteArrivals x → FiniteWork x →
    ∀ t i, (x.ρ i).pc t ≠ .idle → WaitEndsFlag x t i → ∃ j, i ≤ j ∧ (x.ρ j).pc t = .idle

structure GenHyps (x : Exec s0) : Prop where
  reach : Reachable s0
  weak : WeakFair x
  lock : LockFair x
  wait : WaitFair x
  fin : FiniteArrivals x
  work : FiniteWork x

/-! ### the shape of waiting program counters -/

theorem wants_of_lockWait {p : PC} {m : NoteId} (h : p.lockWait = some m) : p.wants = some m := by
  cases p with
  | chd pos stk top => cases pos with
    | waitRet b => cases b <;> first | cases h | exact h
    | _ => exact h
  | fr pos n par c nx => cases pos with
    | waitRet b => cases b <;> first | cases h | exact h
    | _ => exact h
  | _ => exact h

theorem condWait_shape {s : State} {t : Tid} {m : NoteId} (h : (s.pc t).condWait = some m) :
    (∃ k f rest top, s.pc t = .chd (.waitRet k) (f :: rest) top ∧ f.note = m) ∨
    (∃ k par c nx, s.pc t = .fr (.waitRet k) m par c nx) := by
  cases hp : s.pc t with
  | chd pos stk top =>
    rw [hp] at h
    cases pos with
    | waitRet b =>
      cases b with
      | true => cases h
      | false =>
        cases stk with
        | nil => cases h
        | cons f rest =>
          simp only [PC.condWait, Option.some.injEq] at h
          exact Or.inl ⟨false, f, rest, top, rfl, h⟩
    | _ => cases h
  | fr pos n par c nx =>
    rw [hp] at h
    cases pos with
    | waitRet b =>
      cases b with
      | true => cases h
      | false =>
        simp only [PC.condWait, Option.some.injEq] at h
        subst h
        exact Or.inr ⟨false, par, c, nx, rfl⟩
    | _ => cases h
  | _ => rw [hp] at h; cases h

theorem wants_of_condWait {p : PC} {m : NoteId} (h : p.condWait = some m) : p.wants = some m := by
  cases p with
  | chd pos stk top => cases pos with
    | waitRet b =>
      cases b with
      | true => cases h
      | false =>
        cases stk with
        | nil => cases h
        | cons f rest => simpa [PC.condWait, PC.wants] using h
    | _ => cases h
  | fr pos n par c nx => cases pos with
    | waitRet b =>
      cases b with
      | true => cases h
      | false => simpa [PC.condWait, PC.wants] using h
    | _ => cases h
  | _ => cases h

theorem wants_none {p : PC} (h1 : p.lockWait = none) (h2 : p.condWait = none) : p.wants = none := by
  cases p with
  | chd pos stk top => cases pos with
    | waitRet b =>
      cases b with
      | true => exact h1
      | false =>
        cases stk with
        | nil => rfl
        | cons f rest => simp [PC.condWait] at h2
    | _ => exact h1
  | fr pos n par c nx => cases pos with
    | waitRet b =>
      cases b with
      | true => exact h1
      | false => simp [PC.condWait] at h2
    | _ => exact h1
  | _ => exact h1

/-- A thread whose wanted mutex (if any) is free, that is in no WAIT_FOR_NO_CHILDREN that released
    the mutex, and whose semaphore (if it sleeps) is ready, is `Ready`. -/
theorem ready_gen {s : State} (hr : Reachable s) {t : Tid} (hp : s.pc t ≠ .idle)
    (hw : ∀ m, (s.pc t).wants = some m → (s.notes m).lockHolder = none)
    (hc : (s.pc t).condWait = none) (hs : SemReady s t) : Ready s t := by
  refine ⟨hp, hw, ?_, hs⟩
  have hP := hr.invScan
  unfold WaitBlocked
  split
  · next k f rest top hpc =>
    cases k with
    | true => rw [hP.keptC t f rest top hpc]; simp
    | false => rw [hpc] at hc; simp [PC.condWait] at hc
  · next k n par c nx hpc =>
    cases k with
    | true => rw [hP.keptF t n par c nx hpc]; simp
    | false => rw [hpc] at hc; simp [PC.condWait] at hc
  · exact fun h => h

/-! ### settling, classification -/

theorem malloc_passes_gen (x : Exec s0) (hr : Reachable s0) (hw : WeakFair x) {t : Tid} {i : Nat}
    (hp : ((x.ρ i).pc t).isMalloc = true) : ∃ j, i ≤ j ∧ ((x.ρ j).pc t).isMalloc = false := by
  have hmv : ∃ j, i ≤ j ∧ Moves x t j := by
    refine fair_move x hw (fun j hj hnm => ?_)
    have hpc := pc_between x hj hnm
    cases hq : (x.ρ i).pc t with
    | newMalloc par dl =>
      rw [hq] at hpc
      refine ready_gen (x.reach hr j) (by rw [hpc]; simp) ?_ (by rw [hpc]; rfl) ?_
      · intro m hm; rw [hpc] at hm; cases hm
      · exact semReady_of_not_asleep (fun d n wdl r h => by rw [hpc] at h; cases h)
    | _ => rw [hq] at hp; cases hp
  obtain ⟨j, hij, ⟨e, he, ha⟩, hfirst⟩ := first_move' x hmv
  have hpc := pc_between x hij hfirst
  have hne : (x.ρ j).pc t ≠ .idle := by
    rw [hpc]; intro h; rw [h] at hp; cases hp
  refine ⟨j + 1, by omega, ?_⟩
  rcases own_keep (x.next_some he) ha hne with h | ⟨_, h⟩
  · rw [h]; rfl
  · exact h

theorem settled_gen (x : Exec s0) (hr : Reachable s0) (hw : WeakFair x) (hf : FiniteArrivals x) :
    ∃ N, Settled x N := by
  obtain ⟨N, hN⟩ := hf
  have hN' : NoCalls x N := fun j t a hj => hN j t a hj
  obtain ⟨L, _, hL, _⟩ := C09_disconnecting_count (x.reach hr N)
  have hall : ∀ t, ∃ j, N ≤ j ∧ ∀ j', j ≤ j' → ((x.ρ j').pc t).isMalloc = false := by
    intro t
    cases hm : ((x.ρ N).pc t).isMalloc with
    | false =>
      refine ⟨N, Nat.le_refl _, fun j' hj' => ?_⟩
      obtain ⟨d, rfl⟩ : ∃ d, j' = N + d := ⟨j' - N, by omega⟩
      exact malloc_stays x hN' (Nat.le_refl _) hm d
    | true =>
      obtain ⟨j, hj, hf⟩ := malloc_passes_gen x hr hw hm
      refine ⟨j, hj, fun j' hj' => ?_⟩
      obtain ⟨d, rfl⟩ : ∃ d, j' = j + d := ⟨j' - j, by omega⟩
      exact malloc_stays x hN' hj hf d
  obtain ⟨J, hJ, hJL⟩ := list_bound (P := fun t j => ((x.ρ j).pc t).isMalloc = false) N L
    (fun t _ => hall t)
  refine ⟨J, fun j t a hj => hN' j t a (by omega), fun j t hj => ?_⟩
  by_cases ht : t ∈ L
  · exact hJL t ht j hj
  · have hid : (x.ρ N).pc t = .idle := by
      apply Classical.byContradiction; intro h; exact ht (hL t h)
    obtain ⟨d, rfl⟩ : ∃ d, j = N + d := ⟨j - N, by omega⟩
    rw [idle_stays x hN' (Nat.le_refl _) hid d]; rfl

theorem settled_mono (x : Exec s0) {N N' : Nat} (h : Settled x N) (hle : N ≤ N') : Settled x N' :=
  ⟨fun j t a hj => h.1 j t a (by omega), fun j t hj => h.2 j t (by omega)⟩

/-- From time `T` on every thread is outside any call for ever, or has stopped for ever inside a
    call, or goes round a wait loop for ever. -/
structure Classified (x : Exec s0) (T : Nat) : Prop where
  settled : Settled x T
  cls : ∀ u, (∀ j, T ≤ j → (x.ρ j).pc u = .idle) ∨
    ((∀ j, T ≤ j → ¬ Moves x u j) ∧ (x.ρ T).pc u ≠ .idle) ∨ Looper x u

theorem stuck_pc (x : Exec s0) {u : Tid} {T : Nat} (h : ∀ j, T ≤ j → ¬ Moves x u j) {j : Nat}
    (hj : T ≤ j) : (x.ρ j).pc u = (x.ρ T).pc u := pc_const x h hj

theorem Classified.mono (x : Exec s0) {T T' : Nat} (h : Classified x T) (hle : T ≤ T') :
    Classified x T' := by
  refine ⟨settled_mono x h.settled hle, fun u => ?_⟩
  rcases h.cls u with h1 | ⟨h1, h2⟩ | h1
  · exact Or.inl (fun j hj => h1 j (by omega))
  · exact Or.inr (Or.inl ⟨fun j hj => h1 j (by omega), by rw [stuck_pc x h1 hle]; exact h2⟩)
  · exact Or.inr (Or.inr h1)

theorem classified (x : Exec s0) (hy : GenHyps x) (T0 : Nat) : ∃ T, T0 ≤ T ∧ Classified x T := by
  obtain ⟨N0, hS0⟩ := settled_gen x hy.reach hy.weak hy.fin
  let N := max N0 T0
  have hS : Settled x N := settled_mono x hS0 (by omega)
  obtain ⟨L, _, hL, _⟩ := C09_disconnecting_count (x.reach hy.reach N)
  let P : Tid → Nat → Prop := fun u j => (x.ρ j).pc u = .idle ∨
    (¬ Moves x u j ∧ (x.ρ j).pc u ≠ .idle) ∨ Looper x u
  have hall : ∀ u, ∃ j, N ≤ j ∧ ∀ j', j ≤ j' → P u j' := by
    intro u
    rcases hy.work u with ⟨i0, h0⟩ | hl
    · refine ⟨max i0 N, by omega, fun j' hj' => ?_⟩
      by_cases hid : (x.ρ j').pc u = .idle
      · exact Or.inl hid
      · exact Or.inr (Or.inl ⟨fun hm => h0 j' (by omega) ⟨hm, hid⟩, hid⟩)
    · exact ⟨N, Nat.le_refl _, fun j' _ => Or.inr (Or.inr hl)⟩
  obtain ⟨T, hT, hTL⟩ := list_bound (P := P) N L (fun u _ => hall u)
  have hST : Settled x T := settled_mono x hS hT
  refine ⟨T, by omega, hST, fun u => ?_⟩
  by_cases hloop : Looper x u
  · exact Or.inr (Or.inr hloop)
  have hP : ∀ j, T ≤ j → P u j := by
    intro j hj
    by_cases hu : u ∈ L
    · exact hTL u hu j hj
    · have hid : (x.ρ N).pc u = .idle := by
        apply Classical.byContradiction; intro h; exact hu (hL u h)
      obtain ⟨d, rfl⟩ : ∃ d, j = N + d := ⟨j - N, by omega⟩
      exact Or.inl (idle_stays x hS.1 (Nat.le_refl _) hid d)
  by_cases hid : (x.ρ T).pc u = .idle
  · left
    intro j hj
    obtain ⟨d, rfl⟩ : ∃ d, j = T + d := ⟨j - T, by omega⟩
    exact idle_stays x hST.1 (Nat.le_refl _) hid d
  · right; left
    have key : ∀ d, (x.ρ (T + d)).pc u = (x.ρ T).pc u ∧ ¬ Moves x u (T + d) := by
      intro d
      induction d with
      | zero =>
        rcases hP T (Nat.le_refl _) with h | ⟨h, _⟩ | h
        · exact absurd h hid
        · exact ⟨rfl, h⟩
        · exact absurd h hloop
      | succ d ih =>
        have hpc : (x.ρ (T + (d + 1))).pc u = (x.ρ T).pc u := by
          rw [show T + (d + 1) = T + d + 1 by omega, not_moves_pc x ih.2]; exact ih.1
        rcases hP (T + (d + 1)) (by omega) with h | ⟨h, _⟩ | h
        · rw [hpc] at h; exact absurd h hid
        · exact ⟨hpc, h⟩
        · exact absurd h hloop
    refine ⟨fun j hj => ?_, hid⟩
    obtain ⟨d, rfl⟩ : ∃ d, j = T + d := ⟨j - T, by omega⟩
    exact (key d).2

/-! ### loopers -/

theorem looper_not_idle (x : Exec s0) {N : Nat} (hS : Settled x N) {u : Tid} (hl : Looper x u)
    {j : Nat} (hj : N ≤ j) : (x.ρ j).pc u ≠ .idle := by
  intro hid
  obtain ⟨j', hj', _, n, nt, r, wdl, hpc, _⟩ := hl j
  obtain ⟨d, rfl⟩ : ∃ d, j' = j + d := ⟨j' - j, by omega⟩
  rw [idle_stays x hS.1 hj hid d] at hpc
  cases hpc

theorem noLoop_stays (x : Exec s0) {N : Nat} (hS : Settled x N) {u : Tid} {j : Nat} (hj : N ≤ j)
    (h : ((x.ρ j).pc u).noLoop = true) : ∀ d,
    (x.ρ (j + d)).pc u = .idle ∨ ((x.ρ (j + d)).pc u).noLoop = true := by
  intro d
  induction d with
  | zero => exact Or.inr h
  | succ d ih =>
    by_cases hm : Moves x u (j + d)
    · obtain ⟨e, he, ha⟩ := hm
      rcases ih with hid | hn
      · left
        exact step_idle (x.next_some he) hid (fun a hc => hS.1 (j + d) u a (by omega) (by rw [he, hc]))
      · exact own_keepNL (x.next_some he) ha hn
    · rw [show j + (d + 1) = j + d + 1 by omega, not_moves_pc x hm]; exact ih

theorem looper_not_noLoop (x : Exec s0) {N : Nat} (hS : Settled x N) {u : Tid} (hl : Looper x u)
    {j : Nat} (hj : N ≤ j) : ((x.ρ j).pc u).noLoop = false := by
  cases h : ((x.ρ j).pc u).noLoop with
  | false => rfl
  | true =>
    exfalso
    obtain ⟨j', hj', _, n, nt, r, wdl, hpc, _⟩ := hl j
    obtain ⟨d, rfl⟩ : ∃ d, j' = j + d := ⟨j' - j, by omega⟩
    rcases noLoop_stays x hS hj h d with h' | h'
    · rw [hpc] at h'; cases h'
    · rw [hpc] at h'; cases h'

theorem looper_waitOn (x : Exec s0) {N : Nat} (hS : Settled x N) {u : Tid} (hl : Looper x u)
    {j : Nat} (hj : N ≤ j) : ((x.ρ j).pc u).waitOn ≠ none := by
  obtain ⟨j', hj', _, n, nt, r, wdl, hpc, _⟩ := hl j
  obtain ⟨d, rfl⟩ : ∃ d, j' = j + d := ⟨j' - j, by omega⟩
  have := waitOn_const x (t := u) (i := j) d
    (fun j'' h1 _ => looper_not_idle x hS hl (by omega))
  rw [← this, hpc]
  simp [PC.waitOn, DK.waitDl]

theorem looper_not_inNotify (x : Exec s0) {N : Nat} (hS : Settled x N) {u : Tid} (hl : Looper x u)
    {j : Nat} (hj : N ≤ j) : InNotify ((x.ρ j).pc u) = false := by
  cases h : InNotify ((x.ρ j).pc u) with
  | false => rfl
  | true =>
    have := noLoop_of_inNotify h (looper_waitOn x hS hl hj)
    rw [looper_not_noLoop x hS hl hj] at this
    cases this

/-! ### a thread that has stopped for ever inside a call is waiting for something -/

theorem stuck_target (x : Exec s0) (hy : GenHyps x) {t : Tid} {T : Nat}
    (hst : ∀ j, T ≤ j → ¬ Moves x t j) (hp : (x.ρ T).pc t ≠ .idle)
    (hns : ∀ d n wdl r, (x.ρ T).pc t ≠ .wt (.pdRet d) n wdl r) :
    ∃ m, ((x.ρ T).pc t).wants = some m ∧
      (((x.ρ T).pc t).lockWait = some m ∨ ((x.ρ T).pc t).condWait = some m) := by
  cases h1 : ((x.ρ T).pc t).lockWait with
  | some m => exact ⟨m, wants_of_lockWait h1, Or.inl rfl⟩
  | none =>
    cases h2 : ((x.ρ T).pc t).condWait with
    | some m => exact ⟨m, wants_of_condWait h2, Or.inr rfl⟩
    | none =>
      exfalso
      obtain ⟨j, hj, hm⟩ := hy.weak t T (fun j hj => by
        have hpc := stuck_pc x hst hj
        refine ready_gen (x.reach hy.reach j) (by rw [hpc]; exact hp) ?_ (by rw [hpc]; exact h2)
          (semReady_of_not_asleep (fun d n wdl r h => hns d n wdl r (by rw [← hpc]; exact h)))
        intro m hm; rw [hpc, wants_none h1 h2] at hm; cases hm)
      exact hst j hj hm

theorem holder_const (x : Exec s0) (hr : Reachable s0) {m : NoteId} {v : Tid} {i : Nat}
    (hne : ∀ j, i ≤ j → ((x.ρ j).notes m).lockHolder ≠ none)
    (hv : ((x.ρ i).notes m).lockHolder = some v) : ∀ d,
    ((x.ρ (i + d)).notes m).lockHolder = some v := by
  intro d
  induction d with
  | zero => exact hv
  | succ d ih =>
    cases hs : x.σ (i + d) with
    | none => rw [show i + (d + 1) = i + d + 1 by omega, x.next_none hs]; exact ih
    | some e =>
      rcases step_lock_actor (x.reach hr (i + d)).inv6.2.2.2.2.2 (x.next_some hs) ih with h | h
      · exact h
      · exact absurd h (hne (i + d + 1) (by omega))

/-! ### the descent -/

/-- No thread that has stopped for ever is waiting for a mutex or for the children of a note. -/
theorem no_stuck_target (x : Exec s0) (hy : GenHyps x) {T : Nat} (hC : Classified x T) :
    ∀ m t, (∀ j, T ≤ j → ¬ Moves x t j) → ((x.ρ T).pc t).wants = some m → False := by
  have hS := hC.settled
  obtain ⟨B, hB⟩ := (x.reach hy.reach T).alloc_bound
  have hK : ∀ j, LockInv (x.ρ j) := fun j => (x.reach hy.reach j).inv6.2.2.2.2.2
  intro m
  induction hn : below (x.ρ T) B m using Nat.strongRecOn generalizing m with
  | _ n ih =>
    have IH : ∀ m', Lt (x.ρ T) m m' → ∀ t, (∀ j, T ≤ j → ¬ Moves x t j) →
        ((x.ρ T).pc t).wants = some m' → False :=
      fun m' hlt => ih _ (hn ▸ below_lt (x.reach hy.reach T) hB hlt) m' rfl
    -- a mutex held for ever
    have held_absurd : (∃ i6, T ≤ i6 ∧ ∀ j, i6 ≤ j → ((x.ρ j).notes m).lockHolder ≠ none) →
        False := by
      rintro ⟨i6, hi6, hne⟩
      cases hv : ((x.ρ i6).notes m).lockHolder with
      | none => exact hne i6 (Nat.le_refl _) hv
      | some v =>
        have hcv := holder_const x hy.reach hne hv
        rcases hC.cls v with h | ⟨h1, h2⟩ | h
        · exact held_not_idle (x.reach hy.reach i6) hv (h i6 hi6)
        · have hpc6 := stuck_pc x h1 hi6
          have hmem := ((hK i6).iff m v).mp hv
          obtain ⟨m', hw, _⟩ := stuck_target x hy h1 h2 (fun d n wdl r h => by
            rw [hpc6, h] at hmem; simp [PC.held] at hmem)
          have hlt := lt_back x hy.reach hS hi6
            (lock_order (x.reach hy.reach i6) (by rw [hpc6]; exact hw) hv)
          exact IH m' hlt v h1 hw
        · obtain ⟨j, hj, _, n, nt, r, wdl, hpc, _⟩ := h i6
          obtain ⟨d, rfl⟩ : ∃ d, j = i6 + d := ⟨j - i6, by omega⟩
          have := ((hK (i6 + d)).iff m v).mp (hcv d)
          rw [hpc] at this; simp [PC.held] at this
    -- waiting inside `nsync_mu_lock`
    have lock_case : ∀ t, (∀ j, T ≤ j → ¬ Moves x t j) →
        ((x.ρ T).pc t).lockWait = some m → False := by
      intro t hst hlw
      by_cases hfree : ∀ j, T ≤ j → ∃ j', j ≤ j' ∧ ((x.ρ j').notes m).lockHolder = none
      · obtain ⟨j, hj, hm⟩ := hy.lock t m T (fun j hj => by rw [stuck_pc x hst hj]; exact hlw) hfree
        exact hst j hj hm
      · apply held_absurd
        apply Classical.byContradiction
        intro hno
        apply hfree
        intro j hj
        apply Classical.byContradiction
        intro hn2
        exact hno ⟨j, hj, fun j' hj' h => hn2 ⟨j', hj', h⟩⟩
    intro t hst hw
    obtain ⟨m', hw', hkind⟩ := stuck_target x hy hst
      (by intro h; rw [h] at hw; cases hw)
      (fun d n wdl r h => by rw [h] at hw; cases hw)
    rw [hw] at hw'; cases hw'
    rcases hkind with hlw | hcw
    · exact lock_case t hst hlw
    · -- inside WAIT_FOR_NO_CHILDREN (`m`), the mutex released
      by_cases hgood : ∀ j, T ≤ j → ∃ j', j ≤ j' ∧ ((x.ρ j').notes m).lockHolder = none ∧
          ((x.ρ j').notes m).waitDone = true
      · obtain ⟨j, hj, hm⟩ := hy.wait t m T (fun j hj => by rw [stuck_pc x hst hj]; exact hcw) hgood
        exact hst j hj hm
      · have hbad : ∃ i6, T ≤ i6 ∧ ∀ j, i6 ≤ j → ¬ (((x.ρ j).notes m).lockHolder = none ∧
            ((x.ρ j).notes m).waitDone = true) := by
          apply Classical.byContradiction
          intro hno
          apply hgood
          intro j hj
          apply Classical.byContradiction
          intro hn2
          exact hno ⟨j, hj, fun j' hj' h => hn2 ⟨j', hj', h⟩⟩
        obtain ⟨i6, hi6, hbad⟩ := hbad
        by_cases hd : ∃ j, i6 ≤ j ∧ ((x.ρ j).notes m).waitDone = false
        · obtain ⟨j, hj, hwd⟩ := hd
          have hTj : T ≤ j := by omega
          have hrj := x.reach hy.reach j
          obtain ⟨_, _, hSj, _, hLj, _⟩ := hrj.inv6
          have hwb : WaitBlockedOn (x.ρ j) t m := by
            refine ⟨?_, hwd⟩
            have : ((x.ρ j).pc t).condWait = some m := by rw [stuck_pc x hst hTj]; exact hcw
            exact condWait_shape this
          obtain ⟨hne, hch⟩ := C09_wait_has_disconnectors hrj hwb
          obtain ⟨c, hc⟩ := List.exists_mem_of_ne_nil _ hne
          obtain ⟨_, u, hu⟩ := hch c hc
          have hmc : Lt (x.ρ j) m c := ⟨hSj.children m c hc, hLj.children m c hc⟩
          have hpar : ((x.ρ j).notes c).parent = some m := hrj.invForest.c2p m c hc
          rcases hC.cls u with h | ⟨h1, h2⟩ | h
          · rw [h j hTj] at hu; simp [cntOf, inSecB] at hu
          · have hpcu := stuck_pc x h1 hTj
            obtain ⟨w, hww, hkw⟩ := stuck_target x hy h1 h2 (fun d n wdl r h => by
              rw [hpcu, h] at hu; simp [cntOf, inSecB] at hu)
            have hwwj : ((x.ρ j).pc u).wants = some w := by rw [hpcu]; exact hww
            rcases counted_target hrj hu (Or.inl hwwj) with rfl | hlt | ⟨hp, hnwb⟩
            · exact IH w (lt_back x hy.reach hS hTj hmc) u h1 hww
            · exact IH w (lt_back x hy.reach hS hTj (Lt.trans hLj hmc hlt)) u h1 hww
            · rw [hpar] at hp
              obtain rfl := Option.some.inj hp
              rcases hkw with hlw | hcwu
              · exact lock_case u h1 hlw
              · apply hnwb
                refine ⟨?_, hwd⟩
                have : ((x.ρ j).pc u).condWait = some m := by rw [hpcu]; exact hcwu
                exact condWait_shape this
          · have := looper_not_inNotify x hS h hTj
            rw [inNotify_of_cntOf hu] at this; cases this
        · apply held_absurd
          refine ⟨i6, hi6, fun j hj hfree => ?_⟩
          apply hbad j hj
          refine ⟨hfree, ?_⟩
          cases hwd : ((x.ρ j).notes m).waitDone with
          | true => rfl
          | false => exact absurd ⟨j, hj, hwd⟩ hd

/-! ### every call returns -/

theorem gen_returns (x : Exec s0) (hy : GenHyps x) {t : Tid} {i : Nat}
    (hp : (x.ρ i).pc t ≠ .idle) (hwe : WaitEndsFlag x t i) : ∃ j, i ≤ j ∧ (x.ρ j).pc t = .idle := by
  apply Classical.byContradiction
  intro hnever
  have hne : ∀ j, i ≤ j → (x.ρ j).pc t ≠ .idle := fun j hj h => hnever ⟨j, hj, h⟩
  have hwc : ∀ j, i ≤ j → ((x.ρ j).pc t).waitOn = ((x.ρ i).pc t).waitOn := by
    intro j hj
    obtain ⟨d, rfl⟩ : ∃ d, j = i + d := ⟨j - i, by omega⟩
    exact waitOn_const x d (fun j' h1 _ => hne j' h1)
  -- a time after which the flag is set
  have hj0 : ∃ j0, ∀ n wdl, ((x.ρ i).pc t).waitOn = some (n, wdl) →
      ((x.ρ j0).notes n).notified = true := by
    cases hw : ((x.ρ i).pc t).waitOn with
    | none => exact ⟨0, fun n wdl h => by cases h⟩
    | some p =>
      obtain ⟨j0, h0⟩ := hwe p.1 p.2 hw
      exact ⟨j0, fun n wdl h => by cases h; exact h0⟩
  obtain ⟨j0, h0⟩ := hj0
  have hflag : ∀ j, max i j0 ≤ j → ∀ n wdl, ((x.ρ j).pc t).waitOn = some (n, wdl) →
      ((x.ρ j).notes n).notified = true := by
    intro j hj n wdl h
    rw [hwc j (by omega)] at h
    exact flag_stays x hy.reach (by omega : j0 ≤ j) (h0 n wdl h)
  -- `t` is not a looper
  have hnl : ¬ Looper x t := by
    intro hl
    obtain ⟨j, hj, _, n, nt, r, wdl, hpc, hf⟩ := hl (max i j0)
    have := hflag j hj n wdl (by rw [hpc]; rfl)
    rw [hf] at this; cases this
  obtain ⟨i0, hi0⟩ : ∃ i0, ∀ j, i0 ≤ j → ¬ Acts x t j := by
    rcases hy.work t with h | h
    · exact h
    · exact absurd h hnl
  obtain ⟨T, hT, hC⟩ := classified x hy (max (max i j0) i0)
  have hst : ∀ j, T ≤ j → ¬ Moves x t j :=
    fun j hj hm => hi0 j (by omega) ⟨hm, hne j (by omega)⟩
  have hpT := hne T (by omega)
  by_cases hsl : ∃ d n wdl r, (x.ρ T).pc t = .wt (.pdRet d) n wdl r
  · -- a sleeper: it has been posted
    obtain ⟨d, n, wdl, r, hpc⟩ := hsl
    have hrT := x.reach hy.reach T
    have hf := hflag T (by omega) n wdl (by rw [hpc]; rfl)
    have hq : ∀ u, ¬ Active ((x.ρ T).pc u) n := by
      intro u ha
      have hin : InNotify ((x.ρ T).pc u) = true := by
        cases hpu : (x.ρ T).pc u with
        | chd pos stk top => rfl
        | _ => rw [hpu] at ha; exact ha.elim
      rcases hC.cls u with h | ⟨h1, h2⟩ | h
      · rw [h T (Nat.le_refl _)] at hin; cases hin
      · obtain ⟨m, hw, _⟩ := stuck_target x hy h1 h2 (fun d n wdl r h => by
          rw [h] at hin; cases hin)
        exact no_stuck_target x hy hC m u h1 hw
      · have := looper_not_inNotify x hC.settled h (Nat.le_refl T)
        rw [hin] at this; cases this
    obtain ⟨hu, ho, hnn⟩ := hrT.invR.own t r n (by rw [hpc]; rfl)
    have hpost := ((C08_waiters_released hrT n hf hq).2 r hu hnn).2
      ⟨d, wdl, Or.inr (by rw [ho, hnn]; exact hpc)⟩
    obtain ⟨j, hj, hm⟩ := hy.weak t T (fun j hj => by
      have hpcj : (x.ρ j).pc t = .wt (.pdRet d) n wdl r := by rw [stuck_pc x hst hj]; exact hpc
      obtain ⟨e, rfl⟩ : ∃ e, j = T + e := ⟨j - T, by omega⟩
      refine ready_gen (x.reach hy.reach _) (by rw [hpcj]; simp) ?_ (by rw [hpcj]; rfl) ?_
      · intro m hm; rw [hpcj] at hm; cases hm
      · have := (posted_stays x hu e).2
        unfold SemReady
        rw [hpcj]
        left
        show ((x.ρ (T + e)).recs r).posted ≠ 0
        omega)
    exact hst j hj hm
  · obtain ⟨m, hw, _⟩ := stuck_target x hy hst hpT
      (fun d n wdl r h => hsl ⟨d, n, wdl, r, h⟩)
    exact no_stuck_target x hy hC m t hst hw

end Note
