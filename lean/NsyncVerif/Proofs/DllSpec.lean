/-
Layer `Dll` (C17): specification lemmas of the list operations in terms of `Repr`.
-/
import NsyncVerif.Proofs.DllOps

namespace Dll

/-! ### Closure of rings under `next`/`prev` -/

theorem Ring.next_prev_mem_head {H : Heap} {a : Addr} {t : List Addr} (h : Ring H (a :: t)) :
    H.next a ∈ a :: t ∧ H.prev a ∈ a :: t := by
  rcases list_nil_or_snoc t with rfl | ⟨m, z, rfl⟩
  · have := (ring_singleton H a).mp h
    simp [this]
  · have hz := ((ring_cons_concat H a z m).mp h).2.2.2.2
    refine ⟨?_, by simp [hz]⟩
    rcases m with _ | ⟨b, m⟩
    · have := (ring_cons_concat H a z []).mp h
      simp only [List.nil_append, linked_cons_cons] at this
      simp [this.2.2.1.1]
    · have := (ring_cons_concat H a z (b :: m)).mp h
      simp only [List.cons_append, linked_cons_cons] at this
      simp [this.2.2.1.1]

theorem Ring.next_mem {H : Heap} {xs : List Addr} {a : Addr} (h : Ring H xs) (ha : a ∈ xs) :
    H.next a ∈ xs := by
  obtain ⟨as, bs, rfl, _⟩ := List.eq_append_cons_of_mem ha
  have h' : Ring H (a :: (bs ++ as)) := by simpa using h.rotate
  have := h'.next_prev_mem_head.1
  simp only [List.mem_cons, List.mem_append] at this ⊢
  grind

theorem Ring.prev_mem {H : Heap} {xs : List Addr} {a : Addr} (h : Ring H xs) (ha : a ∈ xs) :
    H.prev a ∈ xs := by
  obtain ⟨as, bs, rfl, _⟩ := List.eq_append_cons_of_mem ha
  have h' : Ring H (a :: (bs ++ as)) := by simpa using h.rotate
  have := h'.next_prev_mem_head.2
  simp only [List.mem_cons, List.mem_append] at this ⊢
  grind

/-- `spliceAfter` only writes cells of the two rings. -/
theorem splice_frame {H : Heap} {p n : Addr} {ps ns : List Addr}
    (hp : Ring H ps) (hn : Ring H ns) (hpm : p ∈ ps) (hnm : n ∈ ns)
    {x : Addr} (hxp : x ∉ ps) (hxn : x ∉ ns) :
    (spliceAfter H p n).next x = H.next x ∧ (spliceAfter H p n).prev x = H.prev x := by
  have h1 := hp.next_mem hpm
  have h2 := hn.prev_mem hnm
  rw [splice_next, splice_prev]
  grind

/-! ### `remove` -/

theorem remove_spec {H : Heap} {l e : Addr} {xs : List Addr}
    (hr : Repr H l xs) (he : e ∈ xs) :
    Repr (remove H l e).1 (remove H l e).2 (xs.erase e) := by
  have hne : xs ≠ [] := List.ne_nil_of_mem he
  obtain ⟨hring, hlast⟩ := hr.ring hne
  obtain ⟨as, bs, rfl, heas⟩ := List.eq_append_cons_of_mem he
  have herase : (as ++ e :: bs).erase e = as ++ bs := by
    rw [List.erase_append_right _ heas, List.erase_cons_head]
  rw [herase]
  have hnd := hring.nodup
  have hrot : Ring H (e :: (bs ++ as)) := by simpa using hring.rotate
  by_cases hemp : bs ++ as = []
  · -- `e` was the only element
    simp only [List.append_eq_nil_iff] at hemp
    obtain ⟨rfl, rfl⟩ := hemp
    simp only [List.nil_append, List.getLast?_singleton, Option.some.injEq] at hlast
    subst hlast
    have := (ring_singleton H e).mp hring
    rw [remove_handle]
    simp [this, repr_nil]
  · have hring' : Ring (remove H l e).1 (as ++ bs) := (ring_remove_head (l := l) hrot hemp).rotate
    refine Repr.of_ring hring' ?_
    rw [remove_handle]
    rcases list_nil_or_snoc bs with rfl | ⟨bs', z, rfl⟩
    · -- `e` was the last element: the new handle is `e->prev`
      rw [List.getLast?_concat] at hlast
      have hle : l = e := (Option.some.inj hlast).symm
      subst hle
      rcases list_nil_or_snoc as with rfl | ⟨as', z, rfl⟩
      · simp at hemp
      · have hl := Ring.link (as := as') (bs := []) (by simpa using hring)
        simp only [List.mem_append, List.mem_singleton, not_or] at heas
        simp [hl.2, Ne.symm heas.2]
    · -- `e` was not the last element: the handle is unchanged
      have hz : l = z := by
        have : (as ++ e :: (bs' ++ [z])).getLast? = some z := by
          rw [List.getLast?_append]; simp
        rw [this] at hlast; exact (Option.some.inj hlast).symm
      subst hz
      have hle : l ≠ e := by
        simp only [List.nodup_append, List.nodup_cons, List.mem_append, List.mem_singleton,
          not_or] at hnd
        grind
      simp only [hle, if_false]
      exact getLast?_append_concat as bs' l

/-- After `remove`, `e` is a singleton ring (so it can be inserted again) and is no longer in
the list. -/
theorem remove_singleton {H : Heap} {l e : Addr} {xs : List Addr}
    (hr : Repr H l xs) (he : e ∈ xs) :
    Ring (remove H l e).1 [e] ∧ e ∉ xs.erase e := by
  refine ⟨(ring_singleton _ e).mpr ⟨?_, remove_self H l e⟩, ?_⟩
  · exact fun h0 => hr.zero_not_mem (h0 ▸ he)
  · exact fun h => (List.Nodup.mem_erase_iff hr.nodup).mp h |>.1 rfl

theorem remove_frame' {H : Heap} {l e : Addr} {xs : List Addr}
    (hr : Repr H l xs) (he : e ∈ xs) {x : Addr} (hx : x ∉ xs) :
    (remove H l e).1.next x = H.next x ∧ (remove H l e).1.prev x = H.prev x :=
  remove_frame (hr.ring (List.ne_nil_of_mem he)).1 he hx

/-! ### `makeFirst` -/

theorem makeFirst_spec {H : Heap} {l e : Addr} {xs t : List Addr}
    (hr : Repr H l xs) (he : Ring H (e :: t)) (hd : ∀ x ∈ e :: t, x ∉ xs) :
    Repr (makeFirst H l e).1 (makeFirst H l e).2 ((e :: t) ++ xs) := by
  have he0 : e ≠ 0 := he.ne_zero (by simp)
  by_cases hxs : xs = []
  · subst hxs
    have hl : l = 0 := (repr_nil H l).mp hr
    subst hl
    obtain ⟨z, hz⟩ : ∃ z, (e :: t).getLast? = some z := by
      cases h : (e :: t).getLast? with
      | none => simp at h
      | some z => exact ⟨z, rfl⟩
    have hw := he.wrap (a := e) (by simp) hz
    simp only [makeFirst, he0, ne_eq, not_false_eq_true, if_true, List.append_nil]
    exact Repr.of_ring he (by rw [hz, hw.2])
  · obtain ⟨hring, hlast⟩ := hr.ring hxs
    have hl0 : l ≠ 0 := hring.ne_zero (List.mem_of_getLast? hlast)
    obtain ⟨m, rfl⟩ := List.getLast?_eq_some_iff.mp hlast
    have hrot : Ring H (l :: m) := by simpa using hring.rotate
    have hs := ring_splice hrot he (by
      intro x hx hx'
      exact hd x hx' (by simp at hx ⊢; grind))
    have hs' : Ring (spliceAfter H l e) ((e :: t) ++ (m ++ [l])) := by
      have := Ring.rotate (u := [l]) (v := (e :: t) ++ m) (by simpa using hs)
      simpa using this
    simp only [makeFirst, he0, hl0, ne_eq, not_false_eq_true, if_true, if_false]
    refine Repr.of_ring hs' ?_
    exact getLast?_append_concat (e :: t) m l

theorem makeFirst_frame {H : Heap} {l e : Addr} {xs es : List Addr}
    (hr : Repr H l xs) (he : Ring H es) (hem : e ∈ es) {x : Addr}
    (hx : x ∉ xs) (hx' : x ∉ es) :
    (makeFirst H l e).1.next x = H.next x ∧ (makeFirst H l e).1.prev x = H.prev x := by
  unfold makeFirst
  split
  · split
    · exact ⟨rfl, rfl⟩
    · rename_i hl0
      have hxs : xs ≠ [] := fun h => hl0 (hr.handle_eq_zero_iff.mpr h)
      obtain ⟨hring, hlast⟩ := hr.ring hxs
      exact splice_frame hring he (List.mem_of_getLast? hlast) hem hx hx'
  · exact ⟨rfl, rfl⟩

theorem makeFirst_null (H : Heap) (l : Addr) : makeFirst H l 0 = (H, l) := by
  simp [makeFirst]

theorem makeFirst_container (H : Heap) (l e : Addr) :
    (makeFirst H l e).1.container = H.container := by
  unfold makeFirst
  split
  · split
    · rfl
    · exact splice_container H l e
  · rfl

/-! ### `makeLast` -/

theorem makeLast_spec {H : Heap} {l e : Addr} {xs t : List Addr}
    (hr : Repr H l xs) (he : Ring H (t ++ [e])) (hd : ∀ x ∈ t ++ [e], x ∉ xs) :
    Repr (makeLast H l e).1 (makeLast H l e).2 (xs ++ (t ++ [e])) := by
  have he0 : e ≠ 0 := he.ne_zero (by simp)
  -- `e->next` is the first element of `e`'s ring
  obtain ⟨f, t', hft⟩ : ∃ f t', t ++ [e] = f :: t' := by
    cases h : t ++ [e] with
    | nil => simp at h
    | cons f t' => exact ⟨f, t', rfl⟩
  have hw := he.wrap (a := f) (z := e) (by rw [hft]; simp) (by simp)
  rw [hft] at he hd
  have hmf := makeFirst_spec hr he hd
  simp only [makeLast, he0, ne_eq, not_false_eq_true, if_true, hw.1]
  have hring : Ring (makeFirst H l f).1 (xs ++ (t ++ [e])) := by
    rw [hft]
    exact (hmf.ring (by simp)).1.rotate
  refine Repr.of_ring hring ?_
  exact getLast?_append_concat xs t e

theorem makeLast_frame {H : Heap} {l e : Addr} {xs es : List Addr}
    (hr : Repr H l xs) (he : Ring H es) (hem : e ∈ es) {x : Addr}
    (hx : x ∉ xs) (hx' : x ∉ es) :
    (makeLast H l e).1.next x = H.next x ∧ (makeLast H l e).1.prev x = H.prev x := by
  unfold makeLast
  split
  · exact makeFirst_frame hr he (he.next_mem hem) hx hx'
  · exact ⟨rfl, rfl⟩

theorem makeLast_null (H : Heap) (l : Addr) : makeLast H l 0 = (H, l) := by
  simp [makeLast]

theorem makeLast_container (H : Heap) (l e : Addr) :
    (makeLast H l e).1.container = H.container := by
  unfold makeLast
  split
  · exact makeFirst_container H l _
  · rfl

/-! ### Abstract list functions used in the specifications -/

/-- `es` rotated so that it starts with `e` (identity-like if `e ∉ es`). -/
def rotateTo (e : Addr) (es : List Addr) : List Addr :=
  es.dropWhile (· != e) ++ es.takeWhile (· != e)

/-- `es` rotated so that it ends with `e`. -/
def rotateEnd (e : Addr) (es : List Addr) : List Addr :=
  (rotateTo e es).tail ++ [e]

/-- `ys` inserted right after the first occurrence of `p` in `xs`. -/
def insertAfter (p : Addr) (ys : List Addr) : List Addr → List Addr
  | [] => []
  | x :: xs => if x = p then x :: (ys ++ xs) else x :: insertAfter p ys xs

theorem dropWhile_takeWhile_split {e : Addr} {u : List Addr} (v : List Addr) (h : e ∉ u) :
    (u ++ e :: v).dropWhile (· != e) = e :: v ∧ (u ++ e :: v).takeWhile (· != e) = u := by
  induction u with
  | nil => simp
  | cons a u ih =>
    simp only [List.mem_cons, not_or] at h
    have ha : (a != e) = true := by simp [Ne.symm h.1]
    simp [ha, ih h.2]

theorem rotateTo_split {e : Addr} {u : List Addr} (v : List Addr) (h : e ∉ u) :
    rotateTo e (u ++ e :: v) = e :: (v ++ u) := by
  simp [rotateTo, dropWhile_takeWhile_split v h]

theorem rotateEnd_split {e : Addr} {u : List Addr} (v : List Addr) (h : e ∉ u) :
    rotateEnd e (u ++ e :: v) = v ++ u ++ [e] := by
  simp [rotateEnd, rotateTo_split v h]

theorem rotateTo_singleton (e : Addr) : rotateTo e [e] = [e] := by simp [rotateTo]
theorem rotateEnd_singleton (e : Addr) : rotateEnd e [e] = [e] := by simp [rotateEnd, rotateTo]

theorem insertAfter_split {p : Addr} {as : List Addr} (ys bs : List Addr) (h : p ∉ as) :
    insertAfter p ys (as ++ p :: bs) = as ++ p :: (ys ++ bs) := by
  induction as with
  | nil => simp [insertAfter]
  | cons a as ih =>
    simp only [List.mem_cons, not_or] at h
    simp [insertAfter, Ne.symm h.1, ih h.2]

theorem Ring.rotateTo {H : Heap} {es : List Addr} {e : Addr} (h : Ring H es) (he : e ∈ es) :
    Ring H (rotateTo e es) := by
  obtain ⟨u, v, rfl, hu⟩ := List.eq_append_cons_of_mem he
  rw [rotateTo_split v hu]
  simpa using h.rotate

theorem Ring.rotateEnd {H : Heap} {es : List Addr} {e : Addr} (h : Ring H es) (he : e ∈ es) :
    Ring H (rotateEnd e es) := by
  obtain ⟨u, v, rfl, hu⟩ := List.eq_append_cons_of_mem he
  rw [rotateEnd_split v hu]
  have : Ring H ((e :: v) ++ u) := by simpa using h.rotate
  have := Ring.rotate (u := [e]) (v := v ++ u) (by simpa using this)
  simpa using this

theorem mem_rotateTo {e x : Addr} {es : List Addr} (he : e ∈ es) : x ∈ rotateTo e es ↔ x ∈ es := by
  obtain ⟨u, v, rfl, hu⟩ := List.eq_append_cons_of_mem he
  rw [rotateTo_split v hu]
  simp only [List.mem_cons, List.mem_append]
  grind

theorem mem_rotateEnd {e x : Addr} {es : List Addr} (he : e ∈ es) : x ∈ rotateEnd e es ↔ x ∈ es := by
  obtain ⟨u, v, rfl, hu⟩ := List.eq_append_cons_of_mem he
  rw [rotateEnd_split v hu]
  simp only [List.mem_cons, List.mem_append]
  grind

/-! ### `makeFirst`/`makeLast` with an element anywhere in its ring -/

theorem makeFirst_spec_rot {H : Heap} {l e : Addr} {xs es : List Addr}
    (hr : Repr H l xs) (he : Ring H es) (hem : e ∈ es) (hd : ∀ x ∈ es, x ∉ xs) :
    Repr (makeFirst H l e).1 (makeFirst H l e).2 (rotateTo e es ++ xs) := by
  obtain ⟨u, v, rfl, hu⟩ := List.eq_append_cons_of_mem hem
  rw [rotateTo_split v hu]
  refine makeFirst_spec hr (by simpa using he.rotate) ?_
  intro x hx
  exact hd x (by simp only [List.mem_cons, List.mem_append] at hx ⊢; grind)

theorem makeLast_spec_rot {H : Heap} {l e : Addr} {xs es : List Addr}
    (hr : Repr H l xs) (he : Ring H es) (hem : e ∈ es) (hd : ∀ x ∈ es, x ∉ xs) :
    Repr (makeLast H l e).1 (makeLast H l e).2 (xs ++ rotateEnd e es) := by
  have hre := he.rotateEnd hem
  obtain ⟨u, v, rfl, hu⟩ := List.eq_append_cons_of_mem hem
  rw [rotateEnd_split v hu] at hre ⊢
  refine makeLast_spec hr hre ?_
  intro x hx
  exact hd x (by simp only [List.mem_cons, List.mem_append] at hx ⊢; grind)

/-! ### `spliceAfter` on a represented list -/

/-- Splicing the ring `u ++ n :: v` after element `p` of the list `as ++ p :: bs`: the ring,
rotated to start at `n`, appears right after `p`; if `p` is the last element "after `p`" is the
front of the list (this is how `make_first` uses it). The handle does not change. -/
theorem splice_spec {H : Heap} {l p n : Addr} {as bs u v : List Addr}
    (hr : Repr H l (as ++ p :: bs)) (hr2 : Ring H (u ++ n :: v))
    (hd : ∀ x ∈ u ++ n :: v, x ∉ as ++ p :: bs) :
    Repr (spliceAfter H p n) l
      (if bs = [] then (n :: (v ++ u)) ++ (as ++ [p]) else as ++ p :: ((n :: (v ++ u)) ++ bs)) := by
  obtain ⟨hring, hlast⟩ := hr.ring (by simp)
  have hp : Ring H (p :: (bs ++ as)) := by simpa using hring.rotate
  have hn : Ring H (n :: (v ++ u)) := by simpa using hr2.rotate
  have hs := ring_splice hp hn (by
    intro x hx hx'
    refine hd x ?_ ?_
    · simp only [List.mem_cons, List.mem_append] at hx' ⊢; grind
    · simp only [List.mem_cons, List.mem_append] at hx ⊢; grind)
  rcases list_nil_or_snoc bs with rfl | ⟨bs', z, rfl⟩
  · simp only [if_true]
    rw [List.getLast?_concat] at hlast
    have hl : l = p := (Option.some.inj hlast).symm
    subst hl
    have := Ring.rotate (u := [l]) (v := (n :: (v ++ u)) ++ as) (by simpa using hs)
    refine Repr.of_ring (by simpa using this) ?_
    exact getLast?_append_concat (n :: (v ++ u)) as l
  · have hne : bs' ++ [z] ≠ [] := by simp
    simp only [hne, if_false]
    have hl : l = z := by
      have : (as ++ p :: (bs' ++ [z])).getLast? = some z :=
        getLast?_append_concat as (p :: bs') z
      rw [this] at hlast; exact (Option.some.inj hlast).symm
    subst hl
    have := Ring.rotate (u := p :: ((n :: (v ++ u)) ++ (bs' ++ [l]))) (v := as)
      (by simpa using hs)
    refine Repr.of_ring (by simpa using this) ?_
    have := getLast?_append_concat as (p :: ((n :: (v ++ u)) ++ bs')) l
    simpa using this

/-- `splice_spec` phrased with the abstract list functions (no decomposition needed). -/
theorem splice_spec' {H : Heap} {l p n : Addr} {xs ys : List Addr}
    (hr : Repr H l xs) (hr2 : Ring H ys) (hp : p ∈ xs) (hn : n ∈ ys) (hd : ∀ x ∈ ys, x ∉ xs) :
    Repr (spliceAfter H p n) l
      (if xs.getLast? = some p then rotateTo n ys ++ xs else insertAfter p (rotateTo n ys) xs) := by
  obtain ⟨as, bs, rfl, hpas⟩ := List.eq_append_cons_of_mem hp
  obtain ⟨u, v, rfl, hnu⟩ := List.eq_append_cons_of_mem hn
  have hnd := hr.nodup
  have hs := splice_spec hr hr2 hd
  rw [rotateTo_split v hnu, insertAfter_split _ _ hpas]
  rcases list_nil_or_snoc bs with rfl | ⟨bs', z, rfl⟩
  · simpa using hs
  · have hz : (as ++ p :: (bs' ++ [z])).getLast? = some z := getLast?_append_concat as (p :: bs') z
    have hzp : z ≠ p := by
      simp only [List.nodup_append, List.nodup_cons, List.mem_append, List.mem_singleton,
        not_or] at hnd
      grind
    have hne : bs' ++ [z] ≠ [] := by simp
    rw [hz]
    simp only [hne, if_false] at hs
    simpa [hzp] using hs

theorem splice_frame' {H : Heap} {l p n : Addr} {xs ys : List Addr}
    (hr : Repr H l xs) (hr2 : Ring H ys) (hp : p ∈ xs) (hn : n ∈ ys) {x : Addr}
    (hx : x ∉ xs) (hx' : x ∉ ys) :
    (spliceAfter H p n).next x = H.next x ∧ (spliceAfter H p n).prev x = H.prev x :=
  splice_frame (hr.ring (List.ne_nil_of_mem hp)).1 hr2 hp hn hx hx'

end Dll
