import NsyncVerif.Proofs.MuCInv10
/-
  MuC, Inv10: tactics for local steps; loads; the local CAS steps.
-/
namespace NsyncVerif.MuC

macro "pc10" heq:ident : tactic => `(tactic|
  (try rw [$heq:ident]
   (simp_all [PC.mwPre, PC.mwRel, PC.scan?, PC.finOf, setFn, loopPc, finPc, Ret.pc, SL.entry, SL.fromWait, SL.woken]) <;> grind))

macro "inv10_local" t:ident h:ident heq:ident : tactic => `(tactic|
  (refine Inv10.local $t $h ?_ (by simp) ?_ (by simp) ?_ ?_ ?_ ?_ ?_
   · intro k hk
     exact (queued_same (t := $t) (by simp) (by intro u hu; simp [setFn, hu])
        (by rw [$heq:ident]; simp [setFn, PC.scan?, loopPc, finPc, Ret.pc] <;> (repeat' split) <;> simp [PC.scan?]) k).1 hk
   · intro x; (simp [setFn]) <;> (try split) <;> simp_all
   · intro u hu; simp [setFn, hu]
   · intro c hc
     first
     | (left; revert hc; pc10 $heq)
     | (right; revert hc; pc10 $heq)
   · intro c hc; revert hc; pc10 $heq
   · intro sc hc; revert hc; pc10 $heq
   · intro f hc; revert hc; pc10 $heq))

macro "ld_case10" t:ident h:ident heq:ident hs:ident : tactic => `(tactic|
  (try dsimp only at $hs:ident
   try simp only [ldWord, ldWaiting] at $hs:ident
   repeat' split at $hs:ident
   all_goals first
     | (cases $hs:ident; done)
     | (cases $hs:ident; inv10_local $t $h $heq)
     | (cases $hs:ident; split <;> inv10_local $t $h $heq)))

theorem inv10_stepLd {s s' : State} {t : Tid} {o : Ord} {loc : Loc} {obs : Nat} (h3 : Inv3 s) (h : Inv10 s)
    (hs : stepLd s t o loc obs = .ok s') : Inv10 s' := by
  unfold stepLd at hs
  split at hs
  all_goals first
    | (rename_i heq; ld_case10 t h heq hs)
    | skip
  -- mtLdRc: the waiter removes itself (it holds the spinlock: nobody is at a final CAS or in mu_wait's release)
  rename_i c old heq
  dsimp only at hs
  repeat' split at hs
  all_goals first
    | (cases hs; done)
    | (cases hs; inv10_local t h heq)
    | skip
  rename_i k hk _ _ _ _ hmem
  cases hs
  have hlo : LnkOnly s (setPc (dequeue s k) t (PC.mtRmLd c old)) := lnkOnly_removeLinks _ _ _ _
  have hsp := h3.others_no_spin (t := t) (by rw [heq]; rfl)
  have hpcs : ∀ u, u ≠ t → (setPc (dequeue s k) t (PC.mtRmLd c old)).pc u = s.pc u := by
    intro u hu; simp [dequeue, setFn, hu]
  refine ⟨?_, ?_, ?_, ?_⟩
  · intro u c' hu
    by_cases e : u = t
    · subst e; simp [PC.mwPre] at hu
    · rw [hpcs u e] at hu
      have := h.pcf u c' hu
      simpa [dequeue] using this
  · intro u c' k' hu
    by_cases e : u = t
    · subst e; simp [PC.mwRel] at hu
    · rw [hpcs u e] at hu
      have := mwRel_spin hu; rw [hsp u e] at this; cases this
  · intro u sc hu hs'
    by_cases e : u = t
    · subst e; simp [PC.scan?] at hu
    · rw [hpcs u e] at hu
      obtain ⟨x, hx, hp⟩ := h.sww u sc hu hs'
      exact ⟨x, hx, hp.congr (hlo x).2.2.1 (hlo x).2.2.2.2.1 (by simp [dequeue])⟩
  · intro u f hu
    by_cases e : u = t
    · subst e; simp [PC.finOf] at hu
    · rw [hpcs u e] at hu
      have := fin_spin hu; rw [hsp u e] at this; cases this

end NsyncVerif.MuC
