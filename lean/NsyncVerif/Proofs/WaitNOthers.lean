/-
  Proofs/WaitNOthers.lean — a step of thread t leaves program counter, nested-call state and pending
  post of every other thread unchanged, and their frames up to the lazily bound semaphore.
-/
import NsyncVerif.Proofs.WaitNBase

namespace WaitN

/-- what a step of `t` may do to the thread-indexed components of other threads -/
def Others (s s' : State) (t : Tid) : Prop :=
  ∀ u, u ≠ t → s'.pc u = s.pc u ∧ s'.mc u = s.mc u ∧ s'.post u = s.post u ∧ frSame (s.fr u) (s'.fr u)

theorem Others.refl (s : State) (t : Tid) : Others s s t := fun _ _ => ⟨rfl, rfl, rfl, frSame_refl _⟩

theorem Others.trans {s s1 s2 : State} {t : Tid} (a : Others s s1 t) (b : Others s1 s2 t) : Others s s2 t := by
  intro u hu
  obtain ⟨a1, a2, a3, a4⟩ := a u hu
  obtain ⟨b1, b2, b3, b4⟩ := b u hu
  exact ⟨b1.trans a1, b2.trans a2, b3.trans a3, frSame_trans a4 b4⟩

/-- an update that touches only t's own thread-indexed components -/
theorem Others.of_eq {s s' : State} {t : Tid}
    (hpc : ∀ u, u ≠ t → s'.pc u = s.pc u) (hmc : ∀ u, u ≠ t → s'.mc u = s.mc u)
    (hpost : ∀ u, u ≠ t → s'.post u = s.post u) (hfr : ∀ u, u ≠ t → s'.fr u = s.fr u) : Others s s' t :=
  fun u hu => ⟨hpc u hu, hmc u hu, hpost u hu, by rw [hfr u hu]; exact frSame_refl _⟩

macro "others_simp" : tactic =>
  `(tactic| (apply Others.of_eq <;> (intro u hu; simp [hu]; done)))

theorem others_bindSem {s s' : State} {t owner : Tid} {j : SemId} (h : bindSem s owner j = some s') :
    Others s s' t := by
  unfold bindSem at h
  split at h
  · split at h
    · cases h; exact Others.refl _ _
    · cases h
  · split at h
    · cases h
    · cases h
      intro u hu
      refine ⟨rfl, rfl, rfl, ?_⟩
      simp only [setSemUser_fr, setFr_fr]
      split
      · rename_i h; subst h; rfl
      · rfl

theorem others_postSem {s s' : State} {t : Tid} {r : Rid} {j : SemId} (h : postSem s r j = some s') :
    Others s s' t := by
  unfold postSem at h
  split at h
  · exact others_bindSem h
  · cases h; exact Others.refl _ _

theorem others_unbindSem (s : State) (t : Tid) : Others s (unbindSem s t) t := by
  unfold unbindSem
  split <;> others_simp

theorem others_dflt {s s' : State} {t : Tid} {e : Ev} (h : dflt s t e = .ok s') : Others s s' t := by
  unfold dflt at h
  split_ok h <;> (cases h; first | exact Others.refl _ _ | others_simp)

theorem others_rtDone {s s' : State} {t : Tid} {u : Use} {i : Nat} {time : Deadline}
    (h : rtDone s t u i time = .ok s') : Others s s' t := by
  unfold rtDone at h
  split_ok h <;> (cases h; first | exact Others.refl _ _ | others_simp)

theorem others_setPc (s : State) (t : Tid) (p : PC) : Others s (s.setPc t p) t := by others_simp
theorem others_setFr (s : State) (t : Tid) (f : Frame) : Others s (s.setFr t f) t := by others_simp

theorem others_deqDone {s s' : State} {t : Tid} {j : Nat} {res : Bool}
    (h : deqDone s t j res = .ok s') : Others s s' t := by
  unfold deqDone at h
  dsimp only at h
  split at h
  · cases h; others_simp
  · cases h
    exact Others.trans (others_setFr _ _ _) (Others.trans (others_unbindSem _ _) (others_setPc _ _ _))

theorem others_afterEnq {s s' : State} {t : Tid} {i : Nat} {res : Bool}
    (h : afterEnq s t i res = .ok s') : Others s s' t := by
  unfold afterEnq at h
  cases h; others_simp

theorem others_startScan (s : State) (t : Tid) : Others s (startScan s t) t := by
  unfold startScan; others_simp

theorem others_spinAcq {s s' : State} {t : Tid} {c : Nat} {st : SpinSt} {mk : SpinSt → PC} {done : PC} {e : Ev}
    (h : spinAcq s t c st mk done e = .ok s') : Others s s' t := by
  unfold spinAcq at h
  split_ok h <;> first | exact others_dflt h | (cases h; first | exact Others.refl _ _ | others_simp)

/-- closes the goal `Others s s' t` from an accepting leaf `h` of a step function -/
macro "others_leaf" h:ident : tactic =>
  `(tactic| first
    | exact others_dflt $h
    | exact others_rtDone $h
    | exact others_deqDone $h
    | exact others_afterEnq $h
    | exact others_spinAcq $h
    | (cases $h:ident; first
        | exact Others.refl _ _
        | others_simp
        | exact others_startScan _ _
        | exact Others.trans (others_postSem ‹postSem _ _ _ = some _›) (by others_simp)
        | exact Others.trans (others_bindSem ‹bindSem _ _ _ = some _›) (by others_simp)))

theorem others_proto {s s' : State} {t : Tid} {e : Ev} (h : proto s t e = .ok s') : Others s s' t := by
  unfold proto at h
  split_ok h <;> others_leaf h

theorem others_stepOpen {s s' : State} {t : Tid} {e : Ev} (h : stepOpen s t e = .ok s') : Others s s' t := by
  unfold stepOpen at h
  split_ok h <;> first | exact others_proto h | others_leaf h

/-- leaf closer that also knows the composite step functions -/
macro "others_leaf2" h:ident : tactic =>
  `(tactic| first
    | others_leaf $h
    | exact others_stepOpen $h
    | exact others_proto $h
    | (exact Others.trans (by others_simp) (others_afterEnq $h))
    | (exact Others.trans (by others_simp) (others_deqDone $h))
    | (exact Others.trans (by others_simp) (others_rtDone $h)))

theorem others_stepSg {s s' : State} {t : Tid} {c : Nat} {bc : Bool} {st : SgSt} {e : Ev}
    (h : stepSg s t c bc st e = .ok s') : Others s s' t := by
  unfold stepSg at h
  split_ok h <;> others_leaf2 h

theorem others_stepCtrRT {s s' : State} {t : Tid} {u : Use} {i : Nat} {l : Bool} {e : Ev}
    (h : stepCtrRT s t u i l e = .ok s') : Others s s' t := by
  unfold stepCtrRT at h
  split_ok h <;> others_leaf2 h

theorem others_stepND {s s' : State} {t : Tid} {u : Use} {i : Nat} {st : NDst} {e : Ev}
    (h : stepND s t u i st e = .ok s') : Others s s' t := by
  unfold stepND at h
  split_ok h <;> others_leaf2 h

theorem others_stepEnqCv {s s' : State} {t : Tid} {i : Nat} {st : CvEnqSt} {e : Ev}
    (h : stepEnqCv s t i st e = .ok s') : Others s s' t := by
  unfold stepEnqCv at h
  split_ok h <;> others_leaf2 h

theorem others_stepEnq {s s' : State} {t : Tid} {i : Nat} {st : EnqSt} {e : Ev}
    (h : stepEnq s t i st e = .ok s') : Others s s' t := by
  unfold stepEnq at h
  split_ok h <;> others_leaf2 h

theorem others_stepDeqCv {s s' : State} {t : Tid} {j : Nat} {st : CvDeqSt} {e : Ev}
    (h : stepDeqCv s t j st e = .ok s') : Others s s' t := by
  unfold stepDeqCv at h
  split_ok h <;> others_leaf2 h

theorem others_stepDeq {s s' : State} {t : Tid} {j : Nat} {st : DeqSt} {e : Ev}
    (h : stepDeq s t j st e = .ok s') : Others s s' t := by
  unfold stepDeq at h
  split_ok h <;> others_leaf2 h

theorem others_stepAlloc {s s' : State} {t : Tid} {e : Ev}
    (h : stepAlloc s t e = .ok s') : Others s s' t := by
  unfold stepAlloc at h
  split_ok h <;> others_leaf2 h

theorem others_stepInit {s s' : State} {t : Tid} {i : Nat} {e : Ev}
    (h : stepInit s t i e = .ok s') : Others s s' t := by
  unfold stepInit at h
  split_ok h <;> others_leaf2 h

theorem others_stepUnlockMu {s s' : State} {t : Tid} {e : Ev}
    (h : stepUnlockMu s t e = .ok s') : Others s s' t := by
  unfold stepUnlockMu at h
  split_ok h <;> others_leaf2 h

theorem others_stepCvRT {s s' : State} {t : Tid} {j : Nat} {e : Ev}
    (h : stepCvRT s t j e = .ok s') : Others s s' t := by
  unfold stepCvRT at h
  split_ok h <;> others_leaf2 h

theorem others_stepPdEnter {s s' : State} {t : Tid} {e : Ev}
    (h : stepPdEnter s t e = .ok s') : Others s s' t := by
  unfold stepPdEnter at h
  split_ok h <;> others_leaf2 h

theorem others_stepPdWait {s s' : State} {t : Tid} {j : SemId} {e : Ev}
    (h : stepPdWait s t j e = .ok s') : Others s s' t := by
  unfold stepPdWait at h
  split_ok h <;> others_leaf2 h

theorem others_stepFree {s s' : State} {t : Tid} {e : Ev}
    (h : stepFree s t e = .ok s') : Others s s' t := by
  unfold stepFree at h
  split_ok h <;> others_leaf2 h

theorem others_stepRelock {s s' : State} {t : Tid} {e : Ev}
    (h : stepRelock s t e = .ok s') : Others s s' t := by
  unfold stepRelock at h
  split_ok h <;> others_leaf2 h

theorem others_stepRet {s s' : State} {t : Tid} {r : Nat} {e : Ev}
    (h : stepRet s t r e = .ok s') : Others s s' t := by
  unfold stepRet at h
  split_ok h <;> others_leaf2 h

theorem others_stepIdle {s s' : State} {t : Tid} {e : Ev}
    (h : stepIdle s t e = .ok s') : Others s s' t := by
  unfold stepIdle at h
  split_ok h <;> others_leaf2 h

theorem others_stepThr {s s' : State} {t : Tid} {e : Ev} (h : stepThr s t e = .ok s') : Others s s' t := by
  unfold stepThr at h
  split at h
  · exact others_stepIdle h
  · simp at h
  · exact others_stepSg h
  · exact others_stepCtrRT h
  · exact others_stepND h
  · exact others_stepEnqCv h
  · exact others_stepEnq h
  · exact others_stepDeqCv h
  · exact others_stepDeq h
  · exact others_stepAlloc h
  · exact others_stepInit h
  · exact others_stepUnlockMu h
  · exact others_stepCvRT h
  · exact others_stepPdEnter h
  · exact others_stepPdWait h
  · exact others_stepFree h
  · exact others_stepRelock h
  · exact others_stepRet h

end WaitN
