/-
  Layer `Once`, fair termination (C07): concrete executions.

  * `traceExec`  a finite accepted trace from `init`, then nothing for ever; criteria for the
                 hypotheses of `C07_fair_termination` for an execution that ends quiescent;
  * `loopExec`   a lasso: a list of events that takes a state `s` back to `s`, for ever.
-/
import NsyncVerif.Proofs.OnceFairMain

namespace Once

theorem run_append_ok {cfg : Config} : ∀ (a b : List Event) (s s' : State),
    run cfg s (a ++ b) = .ok s' → ∃ s1, run cfg s a = .ok s1 ∧ run cfg s1 b = .ok s' := by
  intro a
  induction a with
  | nil => intro b s s' h; exact ⟨s, rfl, h⟩
  | cons e es ih =>
    intro b s s' h
    simp only [List.cons_append, run] at h ⊢
    cases hs : step cfg s e with
    | ok s1 => rw [hs] at h; exact ih b s1 s' h
    | error m => rw [hs] at h; cases h

theorem run_append {cfg : Config} : ∀ (a b : List Event) (s s1 : State),
    run cfg s a = .ok s1 → run cfg s (a ++ b) = run cfg s1 b := by
  intro a
  induction a with
  | nil => intro b s s1 h; simp only [run, Except.ok.injEq] at h; subst h; rfl
  | cons e es ih =>
    intro b s s1 h
    simp only [List.cons_append, run] at h ⊢
    cases hs : step cfg s e with
    | ok s2 => rw [hs] at h; exact ih b s2 s1 h
    | error m => rw [hs] at h; cases h

/-- The state after `evs` from `s` (`s` itself if the events are not accepted). -/
def stateFrom (cfg : Config) (s : State) (evs : List Event) : State :=
  match run cfg s evs with
  | .ok s' => s'
  | .error _ => s

theorem stateFrom_ok {cfg : Config} {s sf : State} {evs : List Event}
    (h : run cfg s evs = .ok sf) (i : Nat) :
    run cfg s (evs.take i) = .ok (stateFrom cfg s (evs.take i)) := by
  have : run cfg s (evs.take i ++ evs.drop i) = .ok sf := by rw [List.take_append_drop]; exact h
  obtain ⟨s1, h1, _⟩ := run_append_ok _ _ _ _ this
  simp only [stateFrom, h1]

theorem stateFrom_all {cfg : Config} {s sf : State} {evs : List Event}
    (h : run cfg s evs = .ok sf) {i : Nat} (hi : evs.length ≤ i) :
    stateFrom cfg s (evs.take i) = sf := by
  simp only [stateFrom, List.take_of_length_le hi, h]

theorem stateFrom_step {cfg : Config} {s sf : State} {evs : List Event}
    (h : run cfg s evs = .ok sf) {i : Nat} (hi : i < evs.length) :
    step cfg (stateFrom cfg s (evs.take i)) evs[i] =
      .ok (stateFrom cfg s (evs.take (i + 1))) := by
  have he : evs[i]? = some evs[i] := List.getElem?_eq_getElem hi
  have e : evs.take (i + 1) = evs.take i ++ [evs[i]] := by rw [List.take_add_one, he]; rfl
  have h1 := stateFrom_ok h (i + 1)
  rw [e, run_append _ _ _ _ (stateFrom_ok h i)] at h1
  simp only [run] at h1
  rw [e]
  cases hs : step cfg (stateFrom cfg s (evs.take i)) evs[i] with
  | ok s2 => rw [hs] at h1; simp only [Except.ok.injEq] at h1; rw [h1]
  | error m => rw [hs] at h1; cases h1

/-- A finite accepted trace from `s`, then nothing for ever. -/
def traceExec (cfg : Config) (s : State) (evs : List Event) (sf : State)
    (h : run cfg s evs = .ok sf) : Exec cfg s :=
  { ρ := fun i => stateFrom cfg s (evs.take i)
    σ := fun i => evs[i]?
    start := by simp [stateFrom, run]
    next := by
      intro i
      cases he : evs[i]? with
      | none =>
        have hi : evs.length ≤ i := by simpa using he
        show stateFrom cfg s (evs.take (i + 1)) = stateFrom cfg s (evs.take i)
        rw [stateFrom_all h hi, stateFrom_all h (by omega)]
      | some e =>
        have hi : i < evs.length := by
          apply Classical.byContradiction; intro hn
          have : evs[i]? = none := by simp; omega
          rw [this] at he; cases he
        have : e = evs[i] := by
          rw [List.getElem?_eq_getElem hi] at he; exact (Option.some.inj he).symm
        subst this
        exact stateFrom_step h hi }

theorem traceExec_tail {cfg : Config} {s : State} {evs : List Event} {sf : State}
    (h : run cfg s evs = .ok sf) {j : Nat} (hj : evs.length ≤ j) :
    (traceExec cfg s evs sf h).ρ j = sf ∧ (traceExec cfg s evs sf h).σ j = none :=
  ⟨stateFrom_all h hj, by show evs[j]? = none; simpa using hj⟩

/-- Threads that do not occur in a trace are where they were. -/
theorem run_untouched {cfg : Config} {t : Tid} : ∀ (evs : List Event) (s s' : State),
    (∀ e ∈ evs, e.tid ≠ some t) → run cfg s evs = .ok s' → s'.pc t = s.pc t := by
  intro evs
  induction evs with
  | nil => intro s s' _ h; simp only [run, Except.ok.injEq] at h; subst h; rfl
  | cons e es ih =>
    intro s s' hne h
    simp only [run] at h
    cases hs : step cfg s e with
    | error m => rw [hs] at h; cases h
    | ok s1 =>
      rw [hs] at h
      have a := ih s1 s' (fun e' he' => hne e' (by simp [he'])) h
      rw [a, pc_step_other hs t (hne e (by simp))]

/-- All events of the list are events of threads `< n`. -/
def tidsBelow (n : Nat) (evs : List Event) : Bool :=
  evs.all fun e => match e.tid with | some t => decide (t < n) | none => true

theorem tidsBelow_ne {n : Nat} {evs : List Event} (h : tidsBelow n evs = true) {t : Tid}
    (ht : n ≤ t) : ∀ e ∈ evs, e.tid ≠ some t := by
  intro e he hte
  have := List.all_eq_true.1 h e he
  have h2 : decide (t < n) = true := by simpa [hte] using this
  have h3 : t < n := of_decide_eq_true h2
  exact absurd h3 (Nat.not_lt.2 ht)

theorem tidsBelow_take {n : Nat} {evs : List Event} (h : tidsBelow n evs = true) (i : Nat) :
    tidsBelow n (evs.take i) = true := by
  apply List.all_eq_true.2
  intro e he
  exact List.all_eq_true.1 h e (List.mem_of_mem_take he)

variable {cfg : Config} {s0 : State}

/-- In the client's function the only accepted own event is the end of the function. -/
theorem cb_only_end {s s' : State} {e : Event} {t : Tid} {f : Frame}
    (h : step cfg s e = .ok s') (he : e.tid = some t) (hp : s.pc t = .wCbEnd f) :
    e = .cbEnd t f.arg := by
  cases e <;> simp only [Event.tid, Option.some.injEq, reduceCtorEq] at he <;> subst he <;>
    simp only [step, hp] at h <;> step_norm h
  obtain ⟨h1, _⟩ := h
  rw [h1]

theorem weakFair_of_quiescent (x : Exec cfg s0) (N : Nat)
    (hN : ∀ j, N ≤ j → ∀ t, (x.ρ j).pc t = .idle) : WeakFair x := by
  intro t i h
  exact absurd (hN (max i N) (by omega) t) (h (max i N) (by omega)).1

theorem lockFair_of_quiescent (x : Exec cfg s0) (N : Nat)
    (hN : ∀ j, N ≤ j → ∀ t, (x.ρ j).pc t = .idle) : LockFair x := by
  intro t k i h _
  have := h (max i N) (by omega)
  rw [hN (max i N) (by omega) t] at this
  simp [PC.LockWait] at this

theorem initReturns_of_quiescent (x : Exec cfg s0) (N : Nat)
    (hN : ∀ j, N ≤ j → ∀ t, (x.ρ j).pc t = .idle) : InitReturns x := by
  intro t i f hp
  have hmv : ∃ j, i ≤ j ∧ Moves x t j := by
    apply Classical.byContradiction; intro hn
    have := pc_between x (t := t) (show i ≤ max i N by omega) (fun j' h1 _ hm => hn ⟨j', h1, hm⟩)
    rw [hN (max i N) (by omega) t, hp] at this
    cases this
  obtain ⟨j, h1, ⟨e, he, ht⟩, h3⟩ := first_move' x hmv
  have hpj : (x.ρ j).pc t = .wCbEnd f := by rw [pc_between x h1 h3]; exact hp
  have := cb_only_end (x.next_some he) ht hpj
  exact ⟨j, h1, by rw [he, this]⟩

theorem finiteArrivals_of_tail (x : Exec cfg s0) (N : Nat) (hN : ∀ j, N ≤ j → x.σ j = none) :
    FiniteArrivals x :=
  ⟨N, fun j t b a o hj he => by rw [hN j hj] at he; cases he⟩

/-! ### a lasso without a stem -/

/-- `loop` takes `s` back to `s`: repeat it for ever. -/
def loopExec (cfg : Config) (s : State) (loop : List Event)
    (hl : run cfg s loop = .ok s) (hp : 0 < loop.length) : Exec cfg s :=
  { ρ := fun i => stateFrom cfg s (loop.take (i % loop.length))
    σ := fun i => loop[i % loop.length]?
    start := by simp [stateFrom, run]
    next := by
      intro i
      have hsf0 : stateFrom cfg s (loop.take 0) = s := by simp [stateFrom, run]
      have hr : i % loop.length < loop.length := Nat.mod_lt _ hp
      have he : loop[i % loop.length]? = some loop[i % loop.length] :=
        List.getElem?_eq_getElem hr
      simp only [he]
      have hs := stateFrom_step hl hr
      by_cases hwrap : i % loop.length + 1 = loop.length
      · have : (i + 1) % loop.length = 0 := by
          rw [Nat.add_mod]
          have : i % loop.length = loop.length - 1 := by omega
          rw [this]
          by_cases h1 : loop.length = 1
          · rw [h1]
          · rw [Nat.mod_eq_of_lt (show 1 < loop.length by omega)]
            rw [show loop.length - 1 + 1 = loop.length by omega, Nat.mod_self]
        rw [this, hsf0]
        rw [hwrap, stateFrom_all hl (Nat.le_refl _)] at hs
        exact hs
      · have : (i + 1) % loop.length = i % loop.length + 1 := by
          rw [Nat.add_mod]
          by_cases h1 : loop.length = 1
          · omega
          · rw [Nat.mod_eq_of_lt (show 1 < loop.length by omega)]
            exact Nat.mod_eq_of_lt (by omega)
        rw [this]; exact hs }

theorem loopExec_at {cfg : Config} {s : State} {loop : List Event}
    (hl : run cfg s loop = .ok s) (hp : 0 < loop.length) (j : Nat) :
    (loopExec cfg s loop hl hp).ρ j = stateFrom cfg s (loop.take (j % loop.length)) ∧
    (loopExec cfg s loop hl hp).σ j = loop[j % loop.length]? := ⟨rfl, rfl⟩

/-- Threads that occur neither in the loop are where they were, at all times. -/
theorem loopExec_untouched {cfg : Config} {s : State} {loop : List Event}
    (hl : run cfg s loop = .ok s) (hp : 0 < loop.length) {t : Tid}
    (hne : ∀ e ∈ loop, e.tid ≠ some t) (j : Nat) :
    ((loopExec cfg s loop hl hp).ρ j).pc t = s.pc t := by
  show (stateFrom cfg s (loop.take (j % loop.length))).pc t = s.pc t
  exact run_untouched _ _ _ (fun e he => hne e (List.mem_of_mem_take he)) (stateFrom_ok hl _)

theorem upd_eq_self {β : Type} {f : Nat → β} {a : Nat} {b : β} (h : f a = b) : upd f a b = f := by
  funext x; simp only [upd]; split
  · rename_i hx; subst hx; exact h.symm
  · rfl

theorem upd_upd {β : Type} (f : Nat → β) (a : Nat) (b c : β) : upd (upd f a b) a c = upd f a c := by
  funext x; simp only [upd]; split <;> rfl

end Once
