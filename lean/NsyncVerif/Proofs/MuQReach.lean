import NsyncVerif.Proofs.MuQRefine
import NsyncVerif.Proofs.MuQInvLive4
/-
  MuQ: the invariants in every reachable state, and their consequences at the level of program
  points (used by Props/C02, C13Mu, C14).
-/
namespace NsyncVerif.MuQ

theorem reachable_inv {cfg : Cfg} {s : State} (h : Reachable cfg s) : AInv (abs s) :=
  reachable_ainv (P := AInv) ainv_init (fun _ _ hp st => ainv_step hp st) s h

/-- The share thread `t` owns in the word: what the client holds, or what a call in progress has
    acquired and not yet returned / not yet released. -/
def shareOf (s : State) (t : Tid) : Option Mode := tshare (s.held t) (s.pc t)

/-- Woken (or being woken) inside lock_slow, not yet acquired or re-queued. -/
def InFlightC (s : State) (t : Tid) : Prop :=
  ∃ c ph, role (s.pc t) = .slow c ph ∧
    ((ph = .pre ∧ c.clear = true) ∨ (ph.inLoop = true ∧ ∃ k, c.w = some k ∧ k ∉ s.queue))

/-- Inside unlock_slow between grab CAS and final CAS. -/
def UnlockingC (s : State) (u : Tid) : Prop :=
  (∃ sc, role (s.pc u) = .scan sc) ∨ (∃ f, role (s.pc u) = .fin f)

theorem inflight_abs (s : State) (t : Tid) : InFlight (abs s) t ↔ InFlightC s t := Iff.rfl
theorem unlocking_abs (s : State) (u : Tid) : Unlocking (abs s) u ↔ UnlockingC s u := Iff.rfl

def IdleHoldingNothing (s : State) (t : Tid) : Prop := s.pc t = .idle ∧ s.held t = none

/-- Blocked in `nsync_mu_semaphore_p` on a semaphore whose count is 0. -/
def AsleepOnSem (s : State) (t : Tid) : Prop :=
  ∃ c k, s.pc t = .lsPRet c ∧ c.w = some k ∧ (s.wr k).sem = 0

theorem woken_not_lost {cfg : Cfg} {s : State} (h : Reachable cfg s) {t : Tid} {c : SL} {ph : Phase} {k : Wid}
    (hr : role (s.pc t) = .slow c ph) (hph : ph.inLoop = true) (hw : c.w = some k) (hk : k ∉ s.queue) :
    ((s.wr k).waiting = false ∧
      (ph = .loopLd ∨ (s.wr k).sem ≠ 0 ∨ ∃ u l r, s.pc u = .usWakeV l k r)) ∨
    ((s.wr k).waiting = true ∧ ∃ u, k ∈ (role (s.pc u)).wake) := by
  have inv := reachable_inv h
  cases hwt : (s.wr k).waiting with
  | true =>
    right; refine ⟨rfl, ?_⟩
    rcases inv.queue.wt k hwt with h1 | ⟨u, hu⟩
    · exact absurd h1 hk
    · exact ⟨u, hu⟩
  | false =>
    left; refine ⟨rfl, ?_⟩
    cases ph with
    | loopLd => exact Or.inl rfl
    | loopP =>
      right
      rcases inv.live.post t c k hr hw hwt with h1 | ⟨u, r, hu⟩
      · exact Or.inl h1
      · right
        have hu' : role (s.pc u) = .wakeV k r := hu
        cases hp : s.pc u <;> simp [hp, role] at hu'
        obtain ⟨rfl, rfl⟩ := hu'
        exact ⟨u, _, _, hp⟩
    | pre => cases hph
    | st => cases hph
    | rel => cases hph

theorem responsible {cfg : Cfg} {s : State} (h : Reachable cfg s) {k : Wid} (hk : k ∈ s.queue) :
    (∃ t, shareOf s t ≠ none) ∨ (∃ t, InFlightC s t) ∨ (∃ u, UnlockingC s u) :=
  (reachable_inv h).live.resp (Or.inl (List.ne_nil_of_mem hk))

theorem unlocking_holds_spin {cfg : Cfg} {s : State} (h : Reachable cfg s) {u : Tid} (hu : UnlockingC s u) :
    s.sp = some u := by
  have inv := reachable_inv h
  refine (inv.spin.own u).2 ?_
  rcases hu with ⟨sc, hr⟩ | ⟨f, hr⟩ <;> (show (role (s.pc u)).spin = true) <;> rw [hr] <;> rfl

theorem no_stuck_state {cfg : Cfg} {s : State} (h : Reachable cfg s)
    (hall : ∀ t, IdleHoldingNothing s t ∨ AsleepOnSem s t) : ∀ t, IdleHoldingNothing s t := by
  have inv := reachable_inv h
  have hside := reachable_side h
  -- roles when everybody is idle or asleep
  have rol : ∀ u, role (s.pc u) = .quiet ∨ ∃ c, role (s.pc u) = .slow c .loopP := by
    intro u
    rcases hall u with ⟨h1, _⟩ | ⟨c, k, h1, _⟩
    · left; rw [h1]; rfl
    · right; exact ⟨c, by rw [h1]; rfl⟩
  have noWake : ∀ u k, k ∉ (role (s.pc u)).wake := by
    intro u k hk
    rcases rol u with h1 | ⟨c, h1⟩ <;> rw [h1] at hk <;> simp [Role.wake] at hk
  have noV : ∀ u k r, role (s.pc u) ≠ .wakeV k r := by
    intro u k r hr
    rcases rol u with h1 | ⟨c, h1⟩ <;> rw [h1] at hr <;> cases hr
  -- an asleep thread's record is queued
  have queued : ∀ u c k, s.pc u = .lsPRet c → c.w = some k → (s.wr k).sem = 0 → k ∈ s.queue := by
    intro u c k hp hw hsem
    apply Classical.byContradiction; intro hk
    have hr : role (s.pc u) = .slow c .loopP := by rw [hp]; rfl
    rcases woken_not_lost h hr rfl hw hk with ⟨_, h2⟩ | ⟨_, v, hv⟩
    · rcases h2 with h2 | h2 | ⟨v, l, r, hv⟩
      · cases h2
      · exact h2 hsem
      · exact noV v k r (by rw [hv]; rfl)
    · exact noWake v k hv
  intro t
  rcases hall t with h1 | ⟨c, k, hp, hw, hsem⟩
  · exact h1
  · exfalso
    have hk := queued t c k hp hw hsem
    rcases responsible h hk with ⟨u, hu⟩ | ⟨u, hu⟩ | ⟨u, hu⟩
    · rcases hall u with ⟨h1, h2⟩ | ⟨c1, k1, h1, _⟩
      · apply hu; simp [shareOf, tshare, h1, h2, pcShare]
      · have hn : s.held u = none := held_none_of_active hside.2 (by rw [h1]; simp)
        apply hu; simp [shareOf, tshare, h1, hn, pcShare]
    · obtain ⟨c1, ph, hr, hx⟩ := hu
      rcases hall u with ⟨h1, _⟩ | ⟨c2, k2, h1, hw2, hsem2⟩
      · rw [h1] at hr; cases hr
      · rw [h1] at hr; simp only [role, Role.slow.injEq] at hr
        obtain ⟨rfl, rfl⟩ := hr
        rcases hx with ⟨hx, _⟩ | ⟨_, k3, hw3, hk3⟩
        · cases hx
        · rw [hw2] at hw3; cases hw3
          exact hk3 (queued u c2 k2 h1 hw2 hsem2)
    · rcases hu with ⟨sc, hr⟩ | ⟨f, hr⟩ <;> rcases rol u with h1 | ⟨c1, h1⟩ <;> rw [h1] at hr <;> cases hr

end NsyncVerif.MuQ
