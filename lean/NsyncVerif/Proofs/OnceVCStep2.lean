/-
  Layer `Once` × vector clocks: the edge invariant `VInv` is preserved by every accepted event
  (all events other than `cb … end` and the loads, and the combination).
-/
import NsyncVerif.Proofs.OnceVCStep

namespace Once
open NsyncVerif

/-- Every other event. -/
theorem vinv_step_other {cfg : Config} {p p' : PState} {e : Event} (hne : ∀ t a, e ≠ .cbEnd t a)
    (hnl : ∀ t fn ord o obs, e ≠ .ld t fn ord o obs)
    (hi : Inv cfg p.s) (hv : VInv p) (h : pstep cfg p e = .ok p') : VInv p' := by
  obtain ⟨s, c, ec⟩ := p
  simp only [pstep] at h
  split at h
  case h_2 => contradiction
  rename_i s' hs
  simp only [Except.ok.injEq] at h
  subst h
  simp only at hi hs
  step_cases e hs
  all_goals try (exact absurd rfl (hne _ _))
  all_goals try (exact absurd rfl (hnl _ _ _ _ _))
  all_goals subst_vars
  all_goals try simp only [cstep_cas_acq, cstep_st_rel]
  all_goals try simp only [cstep, toVC, endUpd, State.setPc, State.acquire, State.release]
  all_goals vinv_finish

theorem vinv_step {cfg : Config} {p p' : PState} {e : Event} (hi : Inv cfg p.s) (hv : VInv p)
    (h : pstep cfg p e = .ok p') : VInv p' := by
  by_cases hc : ∃ t a, e = .cbEnd t a
  · obtain ⟨t, a, rfl⟩ := hc
    exact vinv_step_cbEnd hi hv h
  · by_cases hl : ∃ t fn ord o obs, e = .ld t fn ord o obs
    · obtain ⟨t, fn, ord, o, obs, rfl⟩ := hl
      exact vinv_step_ld hi hv h
    · exact vinv_step_other (fun t a he => hc ⟨t, a, he⟩)
        (fun t fn ord o obs he => hl ⟨t, fn, ord, o, obs, he⟩) hi hv h

end Once
