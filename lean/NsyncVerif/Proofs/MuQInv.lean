import NsyncVerif.Proofs.MuQAbs
/-
  MuQ: the abstract invariants (definitions) and simple projection lemmas of the abstract updates.
-/
namespace NsyncVerif.MuQ

/-- (I_lock) the lock bits of the word are exactly the shares the threads own. -/
structure ALock (a : AState) : Prop where
  wown : ∀ t, a.wOwner = some t ↔ a.ts t = some .W
  rown : ∀ t, t ∈ a.rOwners ↔ a.ts t = some .R
  nodup : a.rOwners.Nodup
  wl : a.word.wlock = a.wOwner.isSome
  rd : a.word.readers = a.rOwners.length
  excl : a.word.wlock = true → a.word.readers = 0
  cond : a.word.cond = false

/-- (I_spin) the spinlock bit is owned by exactly the thread whose role needs it. -/
structure ASpin (a : AState) : Prop where
  own : ∀ t, a.sp = some t ↔ (a.ro t).spin = true
  bit : a.word.spin = a.sp.isSome

def Phase.queued : Phase → Bool
  | .rel | .loopLd | .loopP => true
  | _ => false

def Phase.inLoop : Phase → Bool
  | .loopLd | .loopP => true
  | _ => false

/-- (I_queue) -/
structure AQueue (a : AState) : Prop where
  nodup : a.queue.Nodup
  inq : ∀ k, k ∈ a.queue → (a.wr k).waiting = true ∧
          ∃ t c ph, a.ro t = .slow c ph ∧ c.w = some k ∧ ph.queued = true
  own : ∀ k t, (a.wr k).owner = some t ↔ ∃ c ph, a.ro t = .slow c ph ∧ c.w = some k
  lty : ∀ t c ph k, a.ro t = .slow c ph → c.w = some k → (a.wr k).lType = c.l
  wk : ∀ u k, k ∈ (a.ro u).wake → k ∉ a.queue ∧ (a.wr k).waiting = true ∧
          ∃ t c ph, a.ro t = .slow c ph ∧ c.w = some k ∧ ph.inLoop = true
  wkNodup : ∀ u, (a.ro u).wake.Nodup
  wkUniq : ∀ u u' k, k ∈ (a.ro u).wake → k ∈ (a.ro u').wake → u = u'
  wt : ∀ k, (a.wr k).waiting = true → k ∈ a.queue ∨ ∃ u, k ∈ (a.ro u).wake
  slok : ∀ t c ph, a.ro t = .slow c ph →
          c.ok ∧ ((ph = .pre ∨ ph = .st) → c.w.isSome = c.clear) ∧ (ph.queued = true → c.w.isSome = true)
  relq : ∀ t c, a.ro t = .slow c .rel → ∃ k, c.w = some k ∧ k ∈ a.queue
  scant : ∀ u sc, a.ro u = .scan sc → ∃ pre, a.queue = pre ++ sc.todo

/-- (I_hint), first part: MU_WAITING, MU_ALL_FALSE and the locals of the scan. -/
structure AHint (a : AState) : Prop where
  wq : a.sp = none → (a.word.waiting = true ↔ a.queue ≠ [])
  wsp : ∀ t, (a.ro t).spin = true → a.word.waiting = true
  af : a.word.af = false
  scanq : ∀ u sc, a.ro u = .scan sc → sc.wake ≠ [] ∧ sc.wt ≠ none ∧
            ∃ pre, a.queue = pre ++ sc.todo ∧ (sc.saf = true → pre = []) ∧
              (sc.sww = true → ∃ k, k ∈ pre ∧ (a.wr k).lType = .W)
  finq : ∀ u f, a.ro u = .fin f → f.wake ≠ [] ∧ f.cDesig = false ∧ f.cEmpty = a.queue.isEmpty ∧
            (f.saf = true → f.cEmpty = true) ∧ (f.sww = true → ∃ k, k ∈ a.queue ∧ (a.wr k).lType = .W)

/-- A thread inside lock_slow that has been woken (or is being woken) and has neither acquired nor
    re-queued yet: awake with `clear = MU_DESIG_WAKER`, or still in the wait loop with its record
    already removed from the queue. -/
def InFlight (a : AState) (t : Tid) : Prop :=
  ∃ c ph, a.ro t = .slow c ph ∧
    ((ph = .pre ∧ c.clear = true) ∨ (ph.inLoop = true ∧ ∃ k, c.w = some k ∧ k ∉ a.queue))

/-- A thread inside unlock_slow between its grab CAS and its final CAS. -/
def Unlocking (a : AState) (u : Tid) : Prop := (∃ sc, a.ro u = .scan sc) ∨ (∃ f, a.ro u = .fin f)

/-- Somebody is queued or about to queue itself. -/
def Need (a : AState) : Prop := a.queue ≠ [] ∨ ∃ t c, a.ro t = .slow c .st

/-- Somebody is responsible for the next wake-up: a thread owning a share (it will release), a woken
    thread in flight, or an unlocker between its grab CAS and its final CAS. -/
def Resp (a : AState) : Prop := (∃ t, a.ts t ≠ none) ∨ (∃ t, InFlight a t) ∨ (∃ u, Unlocking a u)

/-- (I_hint) second part, and the responsibility invariants. -/
structure ALive (a : AState) : Prop where
  desig : a.word.desig = true → (∃ t, InFlight a t) ∨ (∃ u, Unlocking a u)
  lw : a.word.lw = true → ∃ t c ph, a.ro t = .slow c ph ∧ c.lwl = true
  ww : a.word.ww = true → ∃ t c ph, a.ro t = .slow c ph ∧ c.l = .W ∧ (ph = .st ∨ c.w.isSome = true)
  resp : Need a → Resp a
  post : ∀ t c k, a.ro t = .slow c .loopP → c.w = some k → (a.wr k).waiting = false →
          (a.wr k).sem ≠ 0 ∨ ∃ u r, a.ro u = .wakeV k r

/-! ### projections of the abstract updates -/

@[simp] theorem AState.addShare_word (a : AState) (t : Tid) (l : Mode) : (a.addShare t l).word = a.word := by cases l <;> rfl
@[simp] theorem AState.addShare_queue (a : AState) (t : Tid) (l : Mode) : (a.addShare t l).queue = a.queue := by cases l <;> rfl
@[simp] theorem AState.addShare_wr (a : AState) (t : Tid) (l : Mode) : (a.addShare t l).wr = a.wr := by cases l <;> rfl
@[simp] theorem AState.addShare_sp (a : AState) (t : Tid) (l : Mode) : (a.addShare t l).sp = a.sp := by cases l <;> rfl
@[simp] theorem AState.addShare_ro (a : AState) (t : Tid) (l : Mode) : (a.addShare t l).ro = a.ro := by cases l <;> rfl
@[simp] theorem AState.addShare_ts (a : AState) (t : Tid) (l : Mode) : (a.addShare t l).ts = setFn a.ts t (some l) := by cases l <;> rfl

@[simp] theorem AState.subShare_word (a : AState) (t : Tid) (l : Mode) : (a.subShare t l).word = a.word := by cases l <;> rfl
@[simp] theorem AState.subShare_queue (a : AState) (t : Tid) (l : Mode) : (a.subShare t l).queue = a.queue := by cases l <;> rfl
@[simp] theorem AState.subShare_wr (a : AState) (t : Tid) (l : Mode) : (a.subShare t l).wr = a.wr := by cases l <;> rfl
@[simp] theorem AState.subShare_sp (a : AState) (t : Tid) (l : Mode) : (a.subShare t l).sp = a.sp := by cases l <;> rfl
@[simp] theorem AState.subShare_ro (a : AState) (t : Tid) (l : Mode) : (a.subShare t l).ro = a.ro := by cases l <;> rfl
@[simp] theorem AState.subShare_ts (a : AState) (t : Tid) (l : Mode) : (a.subShare t l).ts = setFn a.ts t none := by cases l <;> rfl

@[simp] theorem AState.dropW_word (a : AState) (w : Option Wid) : (a.dropW w).word = a.word := by cases w <;> rfl
@[simp] theorem AState.dropW_queue (a : AState) (w : Option Wid) : (a.dropW w).queue = a.queue := by cases w <;> rfl
@[simp] theorem AState.dropW_sp (a : AState) (w : Option Wid) : (a.dropW w).sp = a.sp := by cases w <;> rfl
@[simp] theorem AState.dropW_ro (a : AState) (w : Option Wid) : (a.dropW w).ro = a.ro := by cases w <;> rfl
@[simp] theorem AState.dropW_ts (a : AState) (w : Option Wid) : (a.dropW w).ts = a.ts := by cases w <;> rfl
@[simp] theorem AState.dropW_wOwner (a : AState) (w : Option Wid) : (a.dropW w).wOwner = a.wOwner := by cases w <;> rfl
@[simp] theorem AState.dropW_rOwners (a : AState) (w : Option Wid) : (a.dropW w).rOwners = a.rOwners := by cases w <;> rfl

@[simp] theorem AState.semPost_word (cfg : Cfg) (a : AState) (k : Wid) : (a.semPost cfg k).word = a.word := rfl
@[simp] theorem AState.semPost_queue (cfg : Cfg) (a : AState) (k : Wid) : (a.semPost cfg k).queue = a.queue := rfl
@[simp] theorem AState.semPost_sp (cfg : Cfg) (a : AState) (k : Wid) : (a.semPost cfg k).sp = a.sp := rfl
@[simp] theorem AState.semPost_ro (cfg : Cfg) (a : AState) (k : Wid) : (a.semPost cfg k).ro = a.ro := rfl
@[simp] theorem AState.semPost_ts (cfg : Cfg) (a : AState) (k : Wid) : (a.semPost cfg k).ts = a.ts := rfl
@[simp] theorem AState.semPost_wOwner (cfg : Cfg) (a : AState) (k : Wid) : (a.semPost cfg k).wOwner = a.wOwner := rfl
@[simp] theorem AState.semPost_rOwners (cfg : Cfg) (a : AState) (k : Wid) : (a.semPost cfg k).rOwners = a.rOwners := rfl

@[simp] theorem AState.advance_word (a : AState) (t : Tid) (sc : Scan) : (a.advance t sc).word = a.word := by
  simp only [AState.advance]; split <;> rfl
@[simp] theorem AState.advance_wr (a : AState) (t : Tid) (sc : Scan) : (a.advance t sc).wr = a.wr := by
  simp only [AState.advance]; split <;> rfl
@[simp] theorem AState.advance_sp (a : AState) (t : Tid) (sc : Scan) : (a.advance t sc).sp = a.sp := by
  simp only [AState.advance]; split <;> rfl
@[simp] theorem AState.advance_ts (a : AState) (t : Tid) (sc : Scan) : (a.advance t sc).ts = a.ts := by
  simp only [AState.advance]; split <;> rfl
@[simp] theorem AState.advance_wOwner (a : AState) (t : Tid) (sc : Scan) : (a.advance t sc).wOwner = a.wOwner := by
  simp only [AState.advance]; split <;> rfl
@[simp] theorem AState.advance_rOwners (a : AState) (t : Tid) (sc : Scan) : (a.advance t sc).rOwners = a.rOwners := by
  simp only [AState.advance]; split <;> rfl

theorem AState.advance_ro_other (a : AState) (t u : Tid) (sc : Scan) (h : u ≠ t) : (a.advance t sc).ro u = a.ro u := by
  simp only [AState.advance]; split <;> simp [setFn, h]

theorem AState.advance_ro_self (a : AState) (t : Tid) (sc : Scan) :
    (∃ sc', (a.advance t sc).ro t = .scan sc') ∨ (∃ f, (a.advance t sc).ro t = .fin f) := by
  simp only [AState.advance]; split
  · left; exact ⟨_, setFn_same _ _ _⟩
  · right; exact ⟨_, setFn_same _ _ _⟩

theorem ALock.congr {a a' : AState} (h : ALock a) (h1 : a'.word.wlock = a.word.wlock)
    (h2 : a'.word.readers = a.word.readers) (h3 : a'.word.cond = a.word.cond)
    (h4 : a'.wOwner = a.wOwner) (h5 : a'.rOwners = a.rOwners) (h6 : a'.ts = a.ts) : ALock a' := by
  obtain ⟨a1, a2, a3, a4, a5, a6, a7⟩ := h
  exact ⟨by rw [h4, h6]; exact a1, by rw [h5, h6]; exact a2, by rw [h5]; exact a3, by rw [h1, h4]; exact a4,
    by rw [h2, h5]; exact a5, by rw [h1, h2]; exact a6, by rw [h3]; exact a7⟩

end NsyncVerif.MuQ
