/-
  Proofs/WaitNSem12.lean — `TI` is preserved by the caller's own steps, part 3: the P of the do-while
  (pd_enter / pd_ret), `(*unlock) (mu)`, the initialising store, and the end of an enqueue call (entry of the
  do-while).
-/
import NsyncVerif.Proofs.WaitNSem11

set_option linter.unusedSimpArgs false
set_option linter.unusedVariables false

namespace WaitN

@[simp] theorem inPhase_relockNext (f : Frame) : inPhase (relockNext f) = false := by
  unfold relockNext; split <;> rfl
@[simp] theorem inPhase_finNext (f : Frame) : inPhase (finNext f) = false := by
  unfold finNext; split
  · rfl
  · exact inPhase_relockNext f
@[simp] theorem inPhase_deqNext (f : Frame) (k : Nat) : inPhase (deqNext f k) = false := by
  unfold deqNext; split
  · split <;> rfl
  · simp

/-- a move to a program point outside the do-while -/
theorem ti_enq_go {s s' : State} {b : SemId → Bool} {t : Tid} {e : Ev}
    (hr : Reachable s) (sb : SB s) (hs : stepThr s t e = .ok s') (ti : TI s b t)
    (hph : inPhase (s.pc t) = true) (hnp : ∀ j, s.pc t ≠ .wPdWait j)
    (frecs : (s'.fr t).recs = (s.fr t).recs) (fobjs : (s'.fr t).objs = (s.fr t).objs)
    (hns : inSleep (s'.pc t) = false)
    (hwr : ∀ i r, (s.fr t).recs[i]? = some r → wrAt (s'.pc t) i → (s'.rcd r).waiting = false →
            wrAt (s.pc t) i ∨ sReady s' (s'.fr t) i) : TI s' (binStep b (.thr t e)) t :=
  ti_move hr sb hs ti hph frecs fobjs (fun j hj => absurd hj (hnp j)) hwr
    (fun h => by rw [hns] at h; cases h) (fun h => by rw [hns] at h; cases h)
    (fun k hk => by rw [scanned_none_of_notSleep hns] at hk; cases hk)

/-! ### the P -/

theorem ti_stepPdEnter {s s' : State} {b : SemId → Bool} {t : Tid} {e : Ev}
    (hr : Reachable s) (sb : SB s) (hs : stepThr s t e = .ok s') (ti : TI s b t)
    (hpc : s.pc t = .wPdEnter) (h : stepPdEnter s t e = .ok s') : TI s' (binStep b (.thr t e)) t := by
  have Kd : dflt s t e = .ok s' → TI s' (binStep b (.thr t e)) t := fun h => ti_keeps hr sb hs (keeps_dflt h) ti
  have hsl : inSleep (s.pc t) = true := by rw [hpc]; rfl
  unfold stepPdEnter at h
  split_ok h
  all_goals first
    | exact Kd h
    | skip
  rename_i j d hd _ s1 hb
  cases h
  have k := keeps_bindSem (t := t) hb
  obtain ⟨frecs, fobjs, fmin, fdl, _, _⟩ := frSame_all k.2
  have hobj := (bindSem_sem hb).2.2.2.2.2
  have hrcd := (bindSem_sem hb).2.2.2.2.1
  refine ti_move hr sb hs ti (inPhase_of_inSleep hsl) (by simpa using frecs) (by simpa using fobjs)
    (fun j hj => by rw [hpc] at hj; cases hj) ?_ ?_ ?_ ?_
  · intro i r _ _ _; exact .inl (wrAt_of_inSleep hsl i)
  · intro _ i r _; exact wrAt_of_inSleep hsl i
  · intro _ i r _ _ _
    right
    refine ⟨hsl, fun hseen => ?_⟩
    rw [hpc] at hseen
    simp only [setPc_pc, setPc_fr, if_true]
    rcases hseen with h1 | h1
    · left; rw [fmin]; exact h1
    · exact h1.elim
  · intro k' hk' hm'
    simp only [setPc_pc, setPc_fr, if_true, setPc_obj, scanned] at hk' hm' ⊢
    rw [fmin] at hm' ⊢
    have hc : (s1.fr t).count = (s.fr t).count := by unfold Frame.count; rw [fobjs]
    rw [hc] at hk'
    obtain ⟨h1, h2⟩ := ti.sd k' (by rw [hpc]; exact hk') hm'
    rw [fdl, fobjs, hobj]
    exact ⟨h1, h2⟩

theorem ti_stepPdWait {s s' : State} {b : SemId → Bool} {t : Tid} {e : Ev} {j : SemId}
    (hr : Reachable s) (sb : SB s) (hs : stepThr s t e = .ok s') (ti : TI s b t)
    (hpc : s.pc t = .wPdWait j) (h : stepPdWait s t j e = .ok s') : TI s' (binStep b (.thr t e)) t := by
  have Kd : dflt s t e = .ok s' → TI s' (binStep b (.thr t e)) t := fun h => ti_keeps hr sb hs (keeps_dflt h) ti
  unfold stepPdWait at h
  split_ok h
  all_goals first
    | exact Kd h
    | (cases h; exact ti_of_notPhase (by simp))
    | (cases h; exact ti_startScan hr ti hpc)

/-! ### `(*unlock) (mu)`: entry of the do-while -/

theorem ti_stepUnlockMu {s s' : State} {b : SemId → Bool} {t : Tid} {e : Ev}
    (hr : Reachable s) (sb : SB s) (hs : stepThr s t e = .ok s') (ti : TI s b t)
    (hpc : s.pc t = .wUnlock) (h : stepUnlockMu s t e = .ok s') : TI s' (binStep b (.thr t e)) t := by
  have hl : LInv .wUnlock (s.fr t) := hpc ▸ linv_of_reachable hr t
  have Kd : dflt s t e = .ok s' → TI s' (binStep b (.thr t e)) t := fun h => ti_keeps hr sb hs (keeps_dflt h) ti
  unfold stepUnlockMu at h
  split_ok h
  all_goals first
    | exact Kd h
    | skip
  cases h
  refine ti_move hr sb hs ti (by rw [hpc]; rfl) (by simp) (by simp) (fun j hj => by rw [hpc] at hj; cases hj) ?_ ?_ ?_ ?_
  · intro i r _ _ _; left; rw [hpc]; trivial
  · intro _ i r _; rw [hpc]; trivial
  · intro _ i r hri _ _
    left
    simp only [setPc_pc, setPc_fr, setFr_fr, if_true]
    apply seen_loopNext _ (Nat.zero_le _)
    have := (List.getElem?_eq_some_iff.1 hri).1
    simp only [Frame.count]; rw [hl.2.1] at this; exact this
  · intro k hk hm
    simp only [setPc_pc, setPc_fr, setFr_fr, if_true] at hk hm ⊢
    have hk0 : k = 0 := scanned_loopNext (Nat.zero_le _) hk
    subst hk0
    rw [hl.1.min]
    exact ⟨dle_refl _, fun i n hi _ => absurd hi (Nat.not_lt_zero _)⟩

/-! ### the end of an enqueue call -/

theorem seen_enqNext (s : State) {f : Frame} {i' i : Nat} {res : Bool} (hsl : inSleep (enqNext f i' res) = true)
    (hi : i < f.count) : Seen s (enqNext f i' res) f i := by
  unfold enqNext at hsl ⊢
  split
  · rename_i h; rw [if_pos h] at hsl; cases hsl
  · rename_i h; rw [if_neg h] at hsl
    split
    · rename_i h2; rw [if_pos h2] at hsl
      split
      · rename_i h3; rw [if_pos h3] at hsl; cases hsl
      · exact seen_loopNext s (Nat.zero_le _) hi
    · rename_i h2; rw [if_neg h2] at hsl; rw [inSleep_deqNext] at hsl; cases hsl

theorem scanned_enqNext {f : Frame} {i' k : Nat} {res : Bool} (h : scanned (enqNext f i' res) f = some k) : k = 0 := by
  unfold enqNext at h
  split at h
  · simp [scanned] at h
  · split at h
    · split at h
      · simp [scanned] at h
      · exact scanned_loopNext (Nat.zero_le _) h
    · rw [scanned_none_of_notSleep (inSleep_deqNext f 0)] at h; cases h

theorem ti_afterEnq {s s1 s' : State} {b : SemId → Bool} {t : Tid} {e : Ev} {i' : Nat} {res : Bool}
    (hr : Reachable s) (sb : SB s) (hs : stepThr s t e = .ok s') (ti : TI s b t)
    (hph : inPhase (s.pc t) = true) (hnp : ∀ j, s.pc t ≠ .wPdWait j) (hpl : PreLoop (s.fr t))
    (hall : ∀ i r, (s.fr t).recs[i]? = some r → wrAt (s.pc t) i)
    (hfr : s1.fr t = s.fr t) (h : afterEnq s1 t i' res = .ok s') : TI s' (binStep b (.thr t e)) t := by
  unfold afterEnq at h
  cases h
  generalize hf : (if res = true then { s1.fr t with who := none }
      else { s1.fr t with who := none, why := Why.readyAt (i' - 1) }) = f at hs ⊢
  have frecs : f.recs = (s.fr t).recs := by subst hf; rw [← hfr]; split <;> rfl
  have fobjs : f.objs = (s.fr t).objs := by subst hf; rw [← hfr]; split <;> rfl
  have fmin : f.min = (s.fr t).min := by subst hf; rw [← hfr]; split <;> rfl
  have fdl : f.dl = (s.fr t).dl := by subst hf; rw [← hfr]; split <;> rfl
  refine ti_move hr sb hs ti hph (by simpa using frecs) (by simpa using fobjs) (fun j hj => absurd hj (hnp j)) ?_ ?_ ?_ ?_
  · intro i r hri _ _; exact .inl (hall i r hri)
  · intro _ i r hri; exact hall i r hri
  · intro hsl i r hri _ _
    left
    simp only [setPc_pc, setPc_fr, setFr_fr, if_true] at hsl ⊢
    apply seen_enqNext _ hsl
    have := (List.getElem?_eq_some_iff.1 hri).1
    have hlen := hpl.len
    simp only [Frame.count] at hlen ⊢; rw [fobjs]; omega
  · intro k hk hm
    simp only [setPc_pc, setPc_fr, setFr_fr, if_true] at hk hm ⊢
    have hk0 : k = 0 := scanned_enqNext hk
    subst hk0
    rw [fmin, fdl, hpl.min]
    exact ⟨dle_refl _, fun i n hi _ => absurd hi (Nat.not_lt_zero _)⟩

/-! ### ATM_STORE (&nw[i].waiting, 0) -/

theorem ti_stepInit {s s' : State} {b : SemId → Bool} {t : Tid} {e : Ev} {k : Nat}
    (hr : Reachable s) (sb : SB s) (hs : stepThr s t e = .ok s') (ti : TI s b t)
    (hpc : s.pc t = .wInit k) (h : stepInit s t k e = .ok s') : TI s' (binStep b (.thr t e)) t := by
  have hl : LInv (.wInit k) (s.fr t) := hpc ▸ linv_of_reachable hr t
  have Kd : dflt s t e = .ok s' → TI s' (binStep b (.thr t e)) t := fun h => ti_keeps hr sb hs (keeps_dflt h) ti
  have M := mono_stepThr hs
  have own := own_of_reachable hr
  have hc : inCall (s.pc t) = true := by rw [hpc]; rfl
  have hkn := known_of_reachable hr t hc
  unfold stepInit at h
  dsimp only at h
  split at h
  rotate_left
  · exact Kd h
  split at h
  rotate_left
  · simp at h
  rename_i r new obs oid hoid hg
  cases h
  have hns : inSleep (if oid.isCv = true then PC.wEnqCv k (.spin .ld) else PC.wEnq k .lockCall) = false := by
    split <;> rfl
  refine ⟨fun i r0 hri hwr hw => ?_, fun hsl => ?_, fun k' hk' => ?_⟩
  · simp only [setPc_pc, setPc_fr, setFr_fr, if_true] at hri hwr
    have hik : i < k := by
      split at hwr
      · rcases hwr with h1 | ⟨_, h2⟩
        · exact h1
        · cases h2
      · rcases hwr with h1 | ⟨_, b', h2⟩
        · exact h1
        · rcases h2 with h2 | h2 <;> cases h2
    have hri0 : (s.fr t).recs[i]? = some r0 := by
      rw [List.getElem?_append_left (by rw [hl.2.1]; exact hik)] at hri; exact hri
    have hlive := (own.own t r0 hc hl.1.frees (List.mem_of_getElem? hri0)).1
    have hne : r0 ≠ r := by
      intro he; subst he; rw [hg.2.1] at hlive; cases hlive
    have hw0 : (s.rcd r0).waiting = false := by simpa [hne] using hw
    have := ti.wr i r0 hri0 (by rw [hpc]; trivial) hw0
    simp only [setPc_fr, setFr_fr, if_true]
    refine sReady_keep (f := s.fr t) (f' := { s.fr t with recs := (s.fr t).recs ++ [r] }) rfl hkn M ?_ hw this
    rw [List.getElem?_append_left (by rw [hl.2.1]; exact hik)]; exact hri0
  · simp only [setPc_pc, if_true] at hsl; rw [hns] at hsl; cases hsl
  · simp only [setPc_pc, if_true] at hk'
    rw [scanned_none_of_notSleep hns] at hk'; cases hk'

end WaitN
