/-
  Layer `CvFix` (cv.c with the repair of F3; adapted from the `Cv` file of the same name): structural invariant — transitions of the spinlock holder that change one record.
-/
import NsyncVerif.Proofs.CvFixInvARec

namespace NsyncVerif.CvFix

theorem InvA.others_free {s : State} (hi : InvA s) {t : Tid} (ht : (s.thr t).loc.holds = true) :
    ∀ u, u ≠ t → (s.thr u).loc.holds = false := by
  intro u hu
  cases hb : (s.thr u).loc.holds
  · rfl
  · exact absurd (hi.holder_unique ht hb) hu

/-- `old_word` after removing `r` from the queue (cv.c:272-274, 481-483). -/
theorem old_after_erase {s : State} (hi : InvA s) {t : Tid} (hh : s.holder = some t) (r : Rid) :
    let old' : Word := if (s.queue.erase r).isEmpty then { (s.thr t).old with ne := false } else (s.thr t).old
    old'.spin = false ∧ (old'.ne = true ↔ s.queue.erase r ≠ []) := by
  obtain ⟨o1, o2⟩ := hi.old t hh
  by_cases hz : (s.queue.erase r).isEmpty = true
  · simp only [hz, if_true]
    simp at hz
    simp [o1, hz]
  · simp only [hz, if_false]
    simp at hz
    refine ⟨o1, ?_⟩
    simp [hz]
    apply o2.mpr
    intro e; rw [e] at hz; simp at hz

theorem invA_enqSt {s : State} (hi : InvA s) (t : Tid) (r : Rid) (hl : (s.thr t).loc = .nLocked) (hm : r.isMucv = false)
    (hst : (s.recs r).stat = .idle) (ho : (s.recs r).owner = t) :
    InvA ({ s with queue := s.queue ++ [r] }.setRec r
            { s.recs r with waiting := true, stat := .queued, pub := false, unl := [], posted := false }
          |>.setThr t { s.thr t with r := r, mine := r :: (s.thr t).mine, old := { (s.thr t).old with ne := true }, loc := .nEnqRel }) := by
  tfacts hl
  have hholds : (s.thr t).loc.holds = true := by simp [hl, Loc.holds]
  have hh := (hi.hold t).mpr hholds
  have hnot := hi.others_free hholds
  have hlist : (s.thr t).list = [] := t1 trivial
  have hrq : r ∉ s.queue := fun e => by have := (hi.qMem r).mp e; rw [hst] at this; cases this
  have hrm : r ∉ (s.thr t).mine := fun e => (t6 r e).2.2.1 hst
  obtain ⟨o1, o2⟩ := hi.old t hh
  refine invA_one (t := t) (r := r) hi (fun u hu => by simp [hu]) (fun q hq => by simp [hq]) hnot
    (by simpa using hi.spin) (.inl ⟨by simpa using hh, by simp [Loc.holds]⟩) (by simp [o1])
    (by simp [hh]) ?_ ?_ (by simp) (by simp [hlist]) ?_ (by simp [hst]) (by simp [hst]) ?_ ?_
  · simp only [setThr_queue, setRec_queue]
    rw [List.nodup_append]
    refine ⟨hi.qNd, by simp, ?_⟩
    intro a ha b hb; simp at hb; subst hb; exact fun e => hrq (e ▸ ha)
  · intro q
    simp only [setThr_queue, setRec_queue, setThr_recs, setRec_recs, List.mem_append, List.mem_singleton]
    by_cases hq : q = r
    · subst hq; simp
    · simp [hq]; exact hi.qMem q
  · intro q
    simp only [setThr_thr, if_true, setThr_recs, setRec_recs, hlist]
    by_cases hq : q = r
    · subst hq; simp
    · simp [hq]; have := (hi.lMem t q).mpr; simp [hlist] at this; exact this
  · constructor <;> simp [waitLive, waitPrep, inWaitN, Loc.wakePhase, hlist, hm, ho]
    · intro q hq
      have hne : q ≠ r := fun e => hrm (e ▸ hq)
      simp [hne]; exact t6 q hq
    · exact ⟨hrm, t7⟩
  · intro u hb1 hb2
    by_cases hu : u = t
    · subst hu; simp at hb2
    · simp [hu] at hb2
      have := hnot u hu
      rcases hb2 with hb2 | hb2 | hb2 <;> simp [hb2, Loc.holds] at this

/-- Removal of the holder's own queued record: the timeout path of the wait (`wCmp`, `lnew = wRmLd`)
    and cv_dequeue (`nLocked`, `lnew = nDeqSt`). -/
theorem invA_selfRemove {s : State} (hi : InvA s) (t : Tid) (r : Rid) (lnew : Loc) (ul : List Unl) (wq : Bool)
    (hholds : (s.thr t).loc.holds = true) (hlist : (s.thr t).list = [])
    (hst : (s.recs r).stat = .queued) (ho : (s.recs r).owner = t) (hln : lnew.holds = true)
    (hb : ¬ (lnew = .sRcLd ∨ lnew = .sRcCas ∨ lnew = .sRel))
    (ht : TInvA ({ s with queue := s.queue.erase r }.setRec r { s.recs r with stat := .selfOut, unl := ul }
          |>.setThr t { s.thr t with r := r, loc := lnew, wasQ := wq, old := if (s.queue.erase r).isEmpty then { (s.thr t).old with ne := false } else (s.thr t).old }) t) :
    InvA ({ s with queue := s.queue.erase r }.setRec r { s.recs r with stat := .selfOut, unl := ul }
          |>.setThr t { s.thr t with r := r, loc := lnew, wasQ := wq, old := if (s.queue.erase r).isEmpty then { (s.thr t).old with ne := false } else (s.thr t).old }) := by
  have hh := (hi.hold t).mpr hholds
  have hnot := hi.others_free hholds
  have hold := old_after_erase hi hh r
  refine invA_one (t := t) (r := r) hi (fun u hu => by simp [hu]) (fun q hq => by simp [hq]) hnot
    (by simpa using hi.spin) (.inl ⟨by simpa using hh, by simpa using hln⟩) (by intro _; simpa using hold)
    (by simp [hh]) ?_ ?_ (by simp) (by simp [hlist]) ?_ (by simp [hst]) (fun _ => .inl ho) ht ?_
  · simp; exact hi.qNd.erase r
  · intro q
    simp only [setThr_queue, setRec_queue, setThr_recs, setRec_recs]
    by_cases hq : q = r
    · subst hq; simp; exact fun e => (List.Nodup.mem_erase_iff hi.qNd).mp e |>.1 rfl
    · simp [hq, List.mem_erase_of_ne hq]; exact hi.qMem q
  · intro q
    simp only [setThr_thr, if_true, setThr_recs, setRec_recs, hlist]
    by_cases hq : q = r
    · subst hq; simp
    · simp [hq]; have := (hi.lMem t q).mpr; simp [hlist] at this; exact this
  · intro u hb1 hb2
    by_cases hu : u = t
    · subst hu; simp at hb2; exact absurd hb2 hb
    · simp [hu] at hb2
      have := hnot u hu
      rcases hb2 with hb2 | hb2 | hb2 <;> simp [hb2, Loc.holds] at this

theorem invA_wCmpEq {s : State} (hi : InvA s) (t : Tid) (r : Rid) (hl : (s.thr t).loc = .wCmp) (hr : r = (s.thr t).r)
    (hst : (s.recs r).stat = .queued) :
    InvA ({ s with queue := s.queue.erase r }.setRec r
            { s.recs r with stat := .selfOut, unl := (s.recs r).unl ++ [Unl.self] }
          |>.setThr t { s.thr t with loc := .wRmLd, old := if (s.queue.erase r).isEmpty then { (s.thr t).old with ne := false } else (s.thr t).old }) := by
  tfacts hl
  subst hr
  have := invA_selfRemove hi t (s.thr t).r .wRmLd ((s.recs (s.thr t).r).unl ++ [Unl.self]) (s.thr t).wasQ (by simp [hl, Loc.holds])
    (t1 trivial) hst (t3 trivial).1 rfl (by simp) ?_
  · exact this
  · have hmine : (s.thr t).mine = [] := t8 trivial
    constructor <;> simp [waitLive, waitPrep, inWaitN, Loc.wakePhase, hmine, t1, RStat.live]
    exact ⟨(t3 trivial).1, (t3 trivial).2.1⟩

theorem invA_deqLdQueued {s : State} (hi : InvA s) (t : Tid) (r : Rid) (hl : (s.thr t).loc = .nLocked)
    (hr : r ∈ (s.thr t).mine) (hst : (s.recs r).stat = .queued) :
    InvA ({ s with queue := s.queue.erase r }.setRec r
            { s.recs r with stat := .selfOut, unl := (s.recs r).unl ++ [Unl.self] }
          |>.setThr t { s.thr t with r := r, loc := .nDeqSt, wasQ := true, old := if (s.queue.erase r).isEmpty then { (s.thr t).old with ne := false } else (s.thr t).old }) := by
  tfacts hl
  refine invA_selfRemove hi t r .nDeqSt ((s.recs r).unl ++ [Unl.self]) true (by simp [hl, Loc.holds])
    (t1 trivial) hst (t6 r hr).2.1 rfl (by simp) ?_
  constructor <;> simp [waitLive, waitPrep, inWaitN, Loc.wakePhase, t1, hr]
  · intro q hq
    by_cases hqr : q = r
    · subst hqr; simp; exact ⟨(t6 q hq).1, (t6 q hq).2.1⟩
    · simp [hqr]; exact t6 q hq
  · exact t7

end NsyncVerif.CvFix
