import NsyncVerif.Proofs.MuQInvLock
/-
  MuQ: preservation of (I_queue), part 1: general lemmas, role-only steps.
-/
namespace NsyncVerif.MuQ

theorem roleAfter_wake (l : List Wid) : (roleAfter l).wake = l := by cases l <;> rfl

theorem roleAfter_not_slow (l : List Wid) (c : SL) (ph : Phase) : roleAfter l ≠ .slow c ph := by
  cases l <;> simp [roleAfter]

theorem roleAfter_not_scan (l : List Wid) (sc : Scan) : roleAfter l ≠ .scan sc := by
  cases l <;> simp [roleAfter]

/-- The owner of a waiter record is unique. -/
theorem AQueue.owner_unique {a : AState} (h : AQueue a) {t t' : Tid} {c c' : SL} {ph ph' : Phase} {k : Wid}
    (h1 : a.ro t = .slow c ph) (hw1 : c.w = some k) (h2 : a.ro t' = .slow c' ph') (hw2 : c'.w = some k) :
    t = t' := by
  have e1 := (h.own k t).2 ⟨c, ph, h1, hw1⟩
  have e2 := (h.own k t').2 ⟨c', ph', h2, hw2⟩
  rw [e1] at e2; exact Option.some.inj e2

/-- Changes that touch neither queue, roles nor the fields `owner`/`waiting`/`lType` of records. -/
theorem aqueue_congr {a a' : AState} (h : AQueue a) (hq : a'.queue = a.queue) (hro : a'.ro = a.ro)
    (hwr : ∀ k, (a'.wr k).owner = (a.wr k).owner ∧ (a'.wr k).waiting = (a.wr k).waiting ∧
      (a'.wr k).lType = (a.wr k).lType) : AQueue a' := by
  obtain ⟨q1, q2, q3, q4, q5, q6, q7, q8, q9, q10, q11⟩ := h
  refine ⟨by rw [hq]; exact q1, ?_, ?_, ?_, ?_, by rw [hro]; exact q6, by rw [hro]; exact q7, ?_,
    by rw [hro]; exact q9, by rw [hro, hq]; exact q10, by rw [hro, hq]; exact q11⟩
  · intro k hk; rw [hq] at hk; rw [(hwr k).2.1, hro]; exact q2 k hk
  · intro k t; rw [(hwr k).1, hro]; exact q3 k t
  · intro t c ph k; rw [(hwr k).2.2, hro]; exact q4 t c ph k
  · intro u k; rw [hro, hq, (hwr k).2.1]; exact q5 u k
  · intro k; rw [(hwr k).2.1, hq, hro]; exact q8 k

/-- Thread `t` changes its role from `r0` to `r1` where neither is a lock_slow role with a record
    and the private wake list is unchanged. -/
theorem aqueue_role_plain {a : AState} {t : Tid} {r1 : Role} (h : AQueue a)
    (h0 : ∀ c ph, a.ro t = .slow c ph → c.w = none)
    (h1 : ∀ c ph, r1 = .slow c ph → c.w = none ∧ c.ok ∧ c.clear = false ∧ (ph = .pre ∨ ph = .st))
    (hwk : r1.wake = (a.ro t).wake)
    (hsc : ∀ sc, r1 = .scan sc → a.ro t = .scan sc) :
    AQueue { a with ro := setFn a.ro t r1 } := by
  obtain ⟨q1, q2, q3, q4, q5, q6, q7, q8, q9, q10, q11⟩ := h
  have keep : ∀ t' c ph k, a.ro t' = .slow c ph → c.w = some k → setFn a.ro t r1 t' = .slow c ph := by
    intro t' c ph k hr hw
    simp only [setFn]; split
    · rename_i hu; subst hu; have := h0 c ph hr; rw [this] at hw; cases hw
    · exact hr
  have back : ∀ t' c ph k, setFn a.ro t r1 t' = .slow c ph → c.w = some k → a.ro t' = .slow c ph := by
    intro t' c ph k hr hw
    simp only [setFn] at hr; split at hr
    · have := (h1 c ph hr).1; rw [this] at hw; cases hw
    · exact hr
  have wake_eq : ∀ u, (setFn a.ro t r1 u).wake = (a.ro u).wake := by
    intro u; simp only [setFn]; split
    · rename_i hu; subst hu; exact hwk
    · rfl
  refine ⟨q1, ?_, ?_, ?_, ?_, ?_, ?_, ?_, ?_, ?_, ?_⟩
  · intro k hk
    obtain ⟨hw, t', c, ph, hr, hcw, hph⟩ := q2 k hk
    exact ⟨hw, t', c, ph, keep t' c ph k hr hcw, hcw, hph⟩
  · intro k t'
    rw [q3 k t']
    constructor
    · rintro ⟨c, ph, hr, hw⟩; exact ⟨c, ph, keep t' c ph k hr hw, hw⟩
    · rintro ⟨c, ph, hr, hw⟩; exact ⟨c, ph, back t' c ph k hr hw, hw⟩
  · intro t' c ph k hr hw; exact q4 t' c ph k (back t' c ph k hr hw) hw
  · intro u k hk
    show k ∉ a.queue ∧ _
    rw [show ({ a with ro := setFn a.ro t r1 } : AState).ro u = setFn a.ro t r1 u from rfl, wake_eq u] at hk
    obtain ⟨hq, hw, t', c, ph, hr, hcw, hph⟩ := q5 u k hk
    exact ⟨hq, hw, t', c, ph, keep t' c ph k hr hcw, hcw, hph⟩
  · intro u; show (setFn a.ro t r1 u).wake.Nodup; rw [wake_eq u]; exact q6 u
  · intro u u' k hk hk'
    rw [show ({ a with ro := setFn a.ro t r1 } : AState).ro u = setFn a.ro t r1 u from rfl, wake_eq u] at hk
    rw [show ({ a with ro := setFn a.ro t r1 } : AState).ro u' = setFn a.ro t r1 u' from rfl, wake_eq u'] at hk'
    exact q7 u u' k hk hk'
  · intro k hk
    rcases q8 k hk with h | ⟨u, hu⟩
    · exact Or.inl h
    · exact Or.inr ⟨u, by show k ∈ (setFn a.ro t r1 u).wake; rw [wake_eq u]; exact hu⟩
  · intro t' c ph hr
    simp only [setFn] at hr; split at hr
    · obtain ⟨e1, e2, e3, e4⟩ := h1 c ph hr
      refine ⟨e2, fun _ => by rw [e1, e3]; rfl, fun hq => ?_⟩
      rcases e4 with e | e <;> subst e <;> simp [Phase.queued] at hq
    · exact q9 t' c ph hr
  · intro t' c hr
    simp only [setFn] at hr; split at hr
    · rcases (h1 c .rel hr).2.2.2 with e | e <;> cases e
    · exact q10 t' c hr
  · intro u sc hr
    simp only [setFn] at hr; split at hr
    · rename_i hu; subst hu; exact q11 u sc (hsc sc hr)
    · exact q11 u sc hr

end NsyncVerif.MuQ

namespace NsyncVerif.MuQ

/-- Thread `t` stays inside lock_slow with the same record and changes phase (and possibly the
    other locals). -/
theorem aqueue_phase {a : AState} {t : Tid} {c c' : SL} {ph ph' : Phase} (h : AQueue a)
    (hro : a.ro t = .slow c ph) (hw : c'.w = c.w) (hl : c'.l = c.l)
    (hq : ph.queued = true → ph'.queued = true ∨ ∀ k, c.w = some k → k ∉ a.queue)
    (hlp : ph.inLoop = true → ph'.inLoop = true ∨ ∀ k, c.w = some k → ∀ u, k ∉ (a.ro u).wake)
    (hok : c'.ok ∧ ((ph' = .pre ∨ ph' = .st) → c'.w.isSome = c'.clear) ∧ (ph'.queued = true → c'.w.isSome = true))
    (hrel : ph' = .rel → ∃ k, c'.w = some k ∧ k ∈ a.queue) :
    AQueue { a with ro := setFn a.ro t (.slow c' ph') } := by
  obtain ⟨q1, q2, q3, q4, q5, q6, q7, q8, q9, q10, q11⟩ := h
  have wake_eq : ∀ u, (setFn a.ro t (.slow c' ph') u).wake = (a.ro u).wake := by
    intro u; simp only [setFn]; split
    · rename_i hu; subst hu; rw [hro]; rfl
    · rfl
  have other : ∀ u, u ≠ t → setFn a.ro t (.slow c' ph') u = a.ro u := fun u hu => by simp [setFn, hu]
  have self : setFn a.ro t (.slow c' ph') t = .slow c' ph' := by simp [setFn]
  refine ⟨q1, ?_, ?_, ?_, ?_, ?_, ?_, ?_, ?_, ?_, ?_⟩
  · intro k hk
    obtain ⟨hwt, t', c1, ph1, hr, hcw, hph⟩ := q2 k hk
    refine ⟨hwt, t', ?_⟩
    by_cases hu : t' = t
    · subst hu; rw [hro] at hr; cases hr
      refine ⟨c', ph', self, by rw [hw]; exact hcw, ?_⟩
      rcases hq hph with h | h
      · exact h
      · exact absurd hk (h k hcw)
    · exact ⟨c1, ph1, by show setFn a.ro t _ t' = _; rw [other t' hu]; exact hr, hcw, hph⟩
  · intro k t'
    rw [q3 k t']
    by_cases hu : t' = t
    · subst hu
      constructor
      · rintro ⟨c1, ph1, hr, hcw⟩; rw [hro] at hr; cases hr; exact ⟨c', ph', self, by rw [hw]; exact hcw⟩
      · rintro ⟨c1, ph1, hr, hcw⟩
        rw [show ({ a with ro := setFn a.ro t' (.slow c' ph') } : AState).ro t' = setFn a.ro t' (.slow c' ph') t' from rfl, self] at hr
        cases hr; exact ⟨c, ph, hro, by rw [← hw]; exact hcw⟩
    · show (∃ c1 ph1, a.ro t' = _ ∧ _) ↔ (∃ c1 ph1, setFn a.ro t _ t' = _ ∧ _)
      rw [other t' hu]
  · intro t' c1 ph1 k hr hcw
    by_cases hu : t' = t
    · subst hu
      rw [show ({ a with ro := setFn a.ro t' (.slow c' ph') } : AState).ro t' = setFn a.ro t' (.slow c' ph') t' from rfl, self] at hr
      cases hr; rw [hl]; exact q4 t' c ph k hro (by rw [← hw]; exact hcw)
    · rw [show ({ a with ro := setFn a.ro t (.slow c' ph') } : AState).ro t' = setFn a.ro t (.slow c' ph') t' from rfl, other t' hu] at hr
      exact q4 t' c1 ph1 k hr hcw
  · intro u k hk
    rw [show ({ a with ro := setFn a.ro t (.slow c' ph') } : AState).ro u = setFn a.ro t (.slow c' ph') u from rfl, wake_eq u] at hk
    obtain ⟨hnq, hwt, t', c1, ph1, hr, hcw, hph⟩ := q5 u k hk
    refine ⟨hnq, hwt, t', ?_⟩
    by_cases hu : t' = t
    · subst hu; rw [hro] at hr; cases hr
      refine ⟨c', ph', self, by rw [hw]; exact hcw, ?_⟩
      rcases hlp hph with h | h
      · exact h
      · exact absurd hk (h k hcw u)
    · exact ⟨c1, ph1, by show setFn a.ro t _ t' = _; rw [other t' hu]; exact hr, hcw, hph⟩
  · intro u; show (setFn a.ro t _ u).wake.Nodup; rw [wake_eq u]; exact q6 u
  · intro u u' k hk hk'
    rw [show ({ a with ro := setFn a.ro t (.slow c' ph') } : AState).ro u = setFn a.ro t (.slow c' ph') u from rfl, wake_eq u] at hk
    rw [show ({ a with ro := setFn a.ro t (.slow c' ph') } : AState).ro u' = setFn a.ro t (.slow c' ph') u' from rfl, wake_eq u'] at hk'
    exact q7 u u' k hk hk'
  · intro k hk
    rcases q8 k hk with h | ⟨u, hu⟩
    · exact Or.inl h
    · exact Or.inr ⟨u, by show k ∈ (setFn a.ro t _ u).wake; rw [wake_eq u]; exact hu⟩
  · intro t' c1 ph1 hr
    by_cases hu : t' = t
    · subst hu
      rw [show ({ a with ro := setFn a.ro t' (.slow c' ph') } : AState).ro t' = setFn a.ro t' (.slow c' ph') t' from rfl, self] at hr
      cases hr; exact hok
    · rw [show ({ a with ro := setFn a.ro t (.slow c' ph') } : AState).ro t' = setFn a.ro t (.slow c' ph') t' from rfl, other t' hu] at hr
      exact q9 t' c1 ph1 hr
  · intro t' c1 hr
    by_cases hu : t' = t
    · subst hu
      rw [show ({ a with ro := setFn a.ro t' (.slow c' ph') } : AState).ro t' = setFn a.ro t' (.slow c' ph') t' from rfl, self] at hr
      cases hr; exact hrel rfl
    · rw [show ({ a with ro := setFn a.ro t (.slow c' ph') } : AState).ro t' = setFn a.ro t (.slow c' ph') t' from rfl, other t' hu] at hr
      exact q10 t' c1 hr
  · intro u sc hr
    by_cases hu : u = t
    · subst hu
      rw [show ({ a with ro := setFn a.ro u (.slow c' ph') } : AState).ro u = setFn a.ro u (.slow c' ph') u from rfl, self] at hr
      cases hr
    · rw [show ({ a with ro := setFn a.ro t (.slow c' ph') } : AState).ro u = setFn a.ro t (.slow c' ph') u from rfl, other u hu] at hr
      exact q11 u sc hr

end NsyncVerif.MuQ
