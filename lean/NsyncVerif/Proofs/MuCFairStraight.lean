import NsyncVerif.Proofs.MuCFairExec
import NsyncVerif.Proofs.MuCScan
/-
  MuC, fair termination: the straight-line parts.  Weak fairness ALONE (no other hypothesis) makes a thread leave
  every region of program points without loops, spins and sleeps: `fair_exit`.  Exact successors of the program
  points of nsync_mu_trylock, of the return points, of the wake-up loop of unlock_slow (mu.c:446-454) and of the
  first load of nsync_mu_wait_with_deadline.
-/
namespace NsyncVerif.MuC

variable {cfg : Cfg} {s0 : State}

/-- Thread `t` takes a step of the library at time `j`. -/
def RMoves (x : Exec cfg s0) (t : Tid) (j : Nat) : Prop := ∃ e, x.σ j = some e ∧ e.tid = some t ∧ e.isData = false

theorem data_step_frame {s s' : State} {e : Event} (h : step cfg s e = .ok s') (hd : e.isData = true) :
    s'.pc = s.pc ∧ s'.held = s.held := by
  cases e <;> simp [Event.isData] at hd
  · simp only [step] at h; split at h
    · cases h; exact ⟨rfl, rfl⟩
    · cases h
  · simp only [step] at h; split at h
    · cases h; exact ⟨rfl, rfl⟩
    · cases h

theorem not_rmoves_frame (x : Exec cfg s0) {t : Tid} {j : Nat} (h : ¬ RMoves x t j) :
    (x.ρ (j + 1)).pc t = (x.ρ j).pc t := by
  cases hs : x.σ j with
  | none => rw [x.next_none hs]
  | some e =>
    by_cases ht : e.tid = some t
    · have hd : e.isData = true := by
        cases hd : e.isData with
        | true => rfl
        | false => exact absurd ⟨e, hs, ht, hd⟩ h
      rw [(data_step_frame (x.next_some hs) hd).1]
    · exact (step_other (x.next_some hs) t ht).1

theorem rframe_until (x : Exec cfg s0) {t : Tid} {i : Nat} : ∀ d,
    (∀ j, i ≤ j → j < i + d → ¬ RMoves x t j) → (x.ρ (i + d)).pc t = (x.ρ i).pc t := by
  intro d
  induction d with
  | zero => intro _; rfl
  | succ d ih =>
    intro h
    have a := ih (fun j h1 h2 => h j h1 (by omega))
    have a' := not_rmoves_frame x (h (i + d) (by omega) (by omega))
    rw [← a, ← a']; rfl

theorem rframe_between (x : Exec cfg s0) {t : Tid} {i j : Nat} (hij : i ≤ j)
    (h : ∀ j', i ≤ j' → j' < j → ¬ RMoves x t j') : (x.ρ j).pc t = (x.ρ i).pc t := by
  obtain ⟨d, rfl⟩ : ∃ d, j = i + d := ⟨j - i, by omega⟩
  exact rframe_until x d h

theorem first_rmove (x : Exec cfg s0) {t : Tid} : ∀ d i, RMoves x t (i + d) →
    ∃ j, i ≤ j ∧ RMoves x t j ∧ ∀ j', i ≤ j' → j' < j → ¬ RMoves x t j' := by
  intro d
  induction d with
  | zero => intro i h; exact ⟨i, Nat.le_refl _, h, fun j' h1 h2 => by omega⟩
  | succ d ih =>
    intro i h
    by_cases hi : RMoves x t i
    · exact ⟨i, Nat.le_refl _, hi, fun j' h1 h2 => by omega⟩
    · obtain ⟨j, h1, h2, h3⟩ := ih (i + 1) (by rw [show i + 1 + d = i + (d + 1) by omega]; exact h)
      refine ⟨j, by omega, h2, fun j' h4 h5 => ?_⟩
      by_cases hj : j' = i
      · subst hj; exact hi
      · exact h3 j' (by omega) h5

/-- Weak fairness: a thread at a program point that is neither idle nor a sleep point takes a step of the library;
    until then it stays where it is. -/
theorem fair_rmove (x : Exec cfg s0) (hf : WeakFair x) {t : Tid} {i : Nat}
    (h1 : (x.ρ i).pc t ≠ .idle) (h2 : ∀ c, (x.ρ i).pc t ≠ .lsPRet c) (h3 : ∀ c dl, (x.ρ i).pc t ≠ .mwPdRet c dl) :
    ∃ j, i ≤ j ∧ RMoves x t j ∧ (x.ρ j).pc t = (x.ρ i).pc t := by
  have hex : ∃ j, i ≤ j ∧ RMoves x t j := by
    apply Classical.byContradiction
    intro hn
    have hnm : ∀ j, i ≤ j → ¬ RMoves x t j := fun j hj hm => hn ⟨j, hj, hm⟩
    have hpc : ∀ j, i ≤ j → (x.ρ j).pc t = (x.ρ i).pc t := fun j hj => rframe_between x hj (fun j' a _ => hnm j' a)
    obtain ⟨j, e, hj, he, ht, hd⟩ := hf t i (fun j hj => by
      rw [hpc j hj]
      refine ⟨h1, ?_⟩
      rintro (⟨c, k, a, _⟩ | ⟨c, k, dl, a, _⟩)
      · rw [hpc j hj] at a; exact h2 c a
      · rw [hpc j hj] at a; exact h3 c dl a)
    exact hnm j hj ⟨e, he, ht, hd⟩
  obtain ⟨j, hij, hm⟩ := hex
  obtain ⟨d, rfl⟩ : ∃ d, j = i + d := ⟨j - i, by omega⟩
  obtain ⟨j, a, b, c⟩ := first_rmove x d i hm
  exact ⟨j, a, b, rframe_between x a c⟩

/-- A region `C` of program points without idle and sleep points, with a rank that every step of the thread that
    stays inside the region decreases: the thread leaves the region, by a step of its own. -/
theorem fair_exit (x : Exec cfg s0) (hf : WeakFair x) (t : Tid) (C : PC → Prop) (rk : PC → Nat)
    (hC : ∀ p, C p → p ≠ .idle ∧ (∀ c, p ≠ .lsPRet c) ∧ (∀ c dl, p ≠ .mwPdRet c dl))
    (hstep : ∀ j, RMoves x t j → C ((x.ρ j).pc t) → C ((x.ρ (j + 1)).pc t) →
      rk ((x.ρ (j + 1)).pc t) < rk ((x.ρ j).pc t)) :
    ∀ n i, rk ((x.ρ i).pc t) ≤ n → C ((x.ρ i).pc t) →
      ∃ j, i ≤ j ∧ C ((x.ρ j).pc t) ∧ RMoves x t j ∧ ¬ C ((x.ρ (j + 1)).pc t) := by
  intro n
  induction n with
  | zero =>
    intro i hn hc
    obtain ⟨a, b, c⟩ := hC _ hc
    obtain ⟨j, hij, hm, hpc⟩ := fair_rmove x hf a b c
    have hcj : C ((x.ρ j).pc t) := by rw [hpc]; exact hc
    by_cases hc' : C ((x.ρ (j + 1)).pc t)
    · have := hstep j hm hcj hc'; rw [hpc] at this; omega
    · exact ⟨j, hij, hcj, hm, hc'⟩
  | succ n ih =>
    intro i hn hc
    obtain ⟨a, b, c⟩ := hC _ hc
    obtain ⟨j, hij, hm, hpc⟩ := fair_rmove x hf a b c
    have hcj : C ((x.ρ j).pc t) := by rw [hpc]; exact hc
    by_cases hc' : C ((x.ρ (j + 1)).pc t)
    · have := hstep j hm hcj hc'; rw [hpc] at this
      obtain ⟨j2, h1, h2, h3, h4⟩ := ih (j + 1) (by omega) hc'
      exact ⟨j2, by omega, h2, h3, h4⟩
    · exact ⟨j, hij, hcj, hm, hc'⟩

/-! ### exact successors -/

macro "own_tac" hs:ident hp:ident : tactic => `(tactic|
  (simp only [step, stepCall, stepRet, stepLd, stepSt, stepCas, stepCond, $hp:ident] at $hs:ident
   try (simp only [casWord, ldWord, ldWaiting] at $hs:ident)
   repeat' split at $hs:ident
   all_goals first
     | (cases $hs:ident; done)
     | (cases $hs:ident; simp [setFn, loopPc, finPc, Ret.pc, afterFin_eq, afterWakes_eq, mwLoop_eq]; done)
     | (cases $hs:ident; simp [setFn, loopPc, finPc, Ret.pc, afterFin_eq, afterWakes_eq, mwLoop_eq] <;> grind)))

macro "own_cases" e:ident ht:ident hd:ident hs:ident hp:ident : tactic => `(tactic|
  (cases $e:ident <;> simp only [Event.tid, Option.some.injEq, reduceCtorEq] at $ht:ident
   all_goals subst $ht:ident
   all_goals first
     | (simp [Event.isData] at $hd:ident; done)
     | own_tac $hs $hp))

variable {s s' : State} {e : Event} {t : Tid}

theorem own_tryCas0 {l : Mode} (hs : step cfg s e = .ok s') (ht : e.tid = some t) (hd : e.isData = false)
    (hp : s.pc t = .tryCas0 l) : s'.pc t = .tryRet l true ∨ s'.pc t = .tryLd l := by
  own_cases e ht hd hs hp

theorem own_tryLd {l : Mode} (hs : step cfg s e = .ok s') (ht : e.tid = some t) (hd : e.isData = false)
    (hp : s.pc t = .tryLd l) : s'.pc t = .tryRet l false ∨ ∃ old, s'.pc t = .tryCas1 l old := by
  own_cases e ht hd hs hp

theorem own_tryCas1 {l : Mode} {old : Word} (hs : step cfg s e = .ok s') (ht : e.tid = some t) (hd : e.isData = false)
    (hp : s.pc t = .tryCas1 l old) : ∃ b, s'.pc t = .tryRet l b := by
  own_cases e ht hd hs hp

theorem own_tryRet {l : Mode} {b : Bool} (hs : step cfg s e = .ok s') (ht : e.tid = some t) (hd : e.isData = false)
    (hp : s.pc t = .tryRet l b) : s'.pc t = .idle := by
  own_cases e ht hd hs hp

theorem own_lkRet {l : Mode} (hs : step cfg s e = .ok s') (ht : e.tid = some t) (hd : e.isData = false)
    (hp : s.pc t = .lkRet l) : s'.pc t = .idle := by
  own_cases e ht hd hs hp

theorem own_ulRet {l : Mode} {nw : Bool} (hs : step cfg s e = .ok s') (ht : e.tid = some t) (hd : e.isData = false)
    (hp : s.pc t = .ulRet l nw) : s'.pc t = .idle := by
  own_cases e ht hd hs hp

theorem own_mwRet {c : MW} {cit : Bool} (hs : step cfg s e = .ok s') (ht : e.tid = some t) (hd : e.isData = false)
    (hp : s.pc t = .mwRet c cit) : s'.pc t = .idle := by
  own_cases e ht hd hs hp

theorem own_usWakeSt {r : Ret} {k : Wid} {rest : List Wid} (hs : step cfg s e = .ok s') (ht : e.tid = some t)
    (hd : e.isData = false) (hp : s.pc t = .usWakeSt r k rest) : s'.pc t = .usWakeV r k rest := by
  own_cases e ht hd hs hp

theorem own_usWakeV {r : Ret} {k : Wid} {rest : List Wid} (hs : step cfg s e = .ok s') (ht : e.tid = some t)
    (hd : e.isData = false) (hp : s.pc t = .usWakeV r k rest) : s'.pc t = finPc r rest := by
  own_cases e ht hd hs hp

theorem own_mwLd0 {c : MW} (hs : step cfg s e = .ok s') (ht : e.tid = some t) (hd : e.isData = false)
    (hp : s.pc t = .mwLd0 c) (hc : c.cond = none) : ∃ c', s'.pc t = .mwRet c' true := by
  own_cases e ht hd hs hp

end NsyncVerif.MuC
