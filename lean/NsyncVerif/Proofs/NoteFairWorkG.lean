/-
  Layer `Note`, fair termination: BOUNDED WORK (`FiniteWork`) for executions without adoptions —
  calls that work on children included: the rank `rankG` never increases and decreases with every
  step a thread takes inside its call (except round the wait loop of an un-notified wait), so a
  thread that is no looper takes finitely many steps.
-/
import NsyncVerif.Proofs.NoteFairStepG
import NsyncVerif.Proofs.NoteFairDeadlock

set_option linter.unusedSimpArgs false

namespace Note

variable {s0 : State}

/-- Every own step of a thread inside a call decreases the rank, or is the return, or is the load of
    the wait loop that finds the flag unset. -/
theorem own_step_gen {s s' : State} {e : Event} {t : Tid} (B : Nat) (hs : step s e = .ok s')
    (ha : e.actor = some t) (hp : s.pc t ≠ .idle) (hr : Reachable s)
    (hB : ∀ k, (s.notes k).allocated = true → k < B) (hm : NoMalloc s) (hna : ¬ Adopts s e) :
    GoodG B s s' t := by
  cases e <;> simp only [Event.actor, Option.some.injEq, reduceCtorEq] at ha <;> subst ha
  · exfalso
    cases hpc : s.pc _ with
    | idle => exact hp hpc
    | _ => simp [step, hpc] at hs
  · exact ownG_ret B hs hp hr hB hm hna
  · exact ownG_ld B hs hp hr hB hm hna
  · exact ownG_stNote B hs hp hr hB hm hna
  · exact ownG_stW B hs hp hr hB hm hna
  · exact ownG_lockCall B hs hp hr hB hm hna
  · exact ownG_lockRet B hs hp hr hB hm hna
  · exact ownG_unlockCall B hs hp hr hB hm hna
  · exact ownG_unlockRet B hs hp hr hB hm hna
  · exact ownG_tryCall B hs hp hr hB hm hna
  · exact ownG_tryRet B hs hp hr hB hm hna
  · exact ownG_waitCall B hs hp hr hB hm hna
  · exact ownG_waitRet B hs hp hr hB hm hna
  · exact ownG_waitnCall B hs hp hr hB hm hna
  · exact ownG_waitnRet B hs hp hr hB hm hna
  · exact ownG_now B hs hp hr hB hm hna
  · exact ownG_semV B hs hp hr hB hm hna
  · exact ownG_pdEnter B hs hp hr hB hm hna
  · exact ownG_pdRet B hs hp hr hB hm hna
  · exact ownG_malloc B hs hp hr hB hm hna
  · exact ownG_free B hs hp hr hB hm hna

/-! ### steps of the others -/

theorem outerW_congr {ch' ch : NoteId → List NoteId} : ∀ l : List Frame,
    (∀ g ∈ l, ch' g.note = ch g.note) → outerW ch' l = outerW ch l := by
  intro l
  induction l with
  | nil => intro _; rfl
  | cons g rest ih =>
    intro h
    simp only [outerW]
    rw [h g List.mem_cons_self, ih (fun g' hg' => h g' (List.mem_cons_of_mem _ hg'))]

/-- The work depends only on the children lists of the notes whose mutexes the thread holds. -/
theorem wGc_congr {ch' ch : NoteId → List NoteId} (pc : PC)
    (h : ∀ k, k ∈ pc.held → ch' k = ch k) : wGc ch' pc = wGc ch pc := by
  cases pc with
  | chd pos stk top =>
    cases stk with
    | nil => rfl
    | cons f rest =>
      have hrest : ∀ g ∈ rest, ch' g.note = ch g.note := by
        intro g hg
        apply h
        have hm : g.note ∈ rest.map Frame.note := List.mem_map_of_mem hg
        cases pos with
        | waitRet b =>
          cases b
          · simp only [PC.held, List.map_cons, List.tail_cons]; exact List.mem_append_left _ hm
          · simp only [PC.held, List.map_cons]
            exact List.mem_append_left _ (List.mem_cons_of_mem _ hm)
        | unlockChild c =>
          simp only [PC.held, List.map_cons]
          exact List.mem_cons_of_mem _ (List.mem_append_left _ (List.mem_cons_of_mem _ hm))
        | _ =>
          simp only [PC.held, List.map_cons]
          exact List.mem_append_left _ (List.mem_cons_of_mem _ hm)
      have hh : headW ch' f pos = headW ch f pos := by
        cases pos with
        | ld => rfl
        | st => rfl
        | waitCall => rfl
        | waitRet b => rfl
        | wake r => simp only [headW]; rw [h f.note (by simp [PC.held])]
        | semV r => simp only [headW]; rw [h f.note (by simp [PC.held])]
        | lockChild c => simp only [headW]; rw [h f.note (by simp [PC.held])]
        | lockChildRet c => simp only [headW]; rw [h f.note (by simp [PC.held])]
        | unlockChild c => simp only [headW]; rw [h f.note (by simp [PC.held])]
        | unlockChildRet c => simp only [headW]; rw [h f.note (by simp [PC.held])]
      simp only [wGc, outerW_congr rest hrest, hh]
  | fr pos n par c nx =>
    cases pos <;> simp only [wGc, frW] <;> (try rfl) <;> rw [h n (by simp [PC.held])]
  | _ => rfl

/-- A step of another thread (or of nobody) leaves the inner part of the rank alone. -/
theorem other_step_gen {s s' : State} {e : Event} (hr : Reachable s) (hs : step s e = .ok s')
    {t : Tid} (ha : e.actor ≠ some t) : restR s' t = restR s t := by
  have hK := hr.inv6.2.2.2.2.2
  have hpc := step_pc_other hs t ha
  have hmn : mn s' (s.pc t) = mn s (s.pc t) := by
    have := other_step_rank hK hs ha
    unfold rank at this
    rw [hpc] at this
    exact congrArg Prod.snd this
  have hw : wG s' (s.pc t) = wG s (s.pc t) :=
    wGc_congr _ (fun k hk => by
      simp only [State.ch]
      exact step_children_other hK hs ha ((hK.iff k t).mpr hk))
  unfold restR
  rw [hpc, hmn, hw]

/-- An event of a thread that is outside any call (and is not a `call`) changes nothing. -/
theorem step_idle_state {s s' : State} {e : Event} {t : Tid} (hs : step s e = .ok s')
    (ha : e.actor = some t) (hp : s.pc t = .idle) (hc : ∀ a, e ≠ .call t a) : s' = s := by
  cases e <;> simp only [Event.actor, Option.some.injEq, reduceCtorEq] at ha <;> subst ha
  · exact absurd rfl (hc _)
  all_goals (simp [step, stepRet, stepLd, stepStNote, stepStW, stepLockCall, stepLockRet,
    stepUnlockCall, stepUnlockRet, stepTryCall, stepTryRet, stepWaitCall, stepWaitRet, hp] at hs)
  all_goals (try (exact hs.symm))

/-! ### the order on ranks -/

theorem lex2_trans {α β : Type} {ra : α → α → Prop} {rb : β → β → Prop}
    (ta : ∀ a b c, ra a b → ra b c → ra a c) (tb : ∀ a b c, rb a b → rb b c → rb a c)
    (a b c : α × β) (h1 : Lex2 ra rb a b) (h2 : Lex2 ra rb b c) : Lex2 ra rb a c := by
  rcases h1 with h1 | ⟨e1, h1⟩ <;> rcases h2 with h2 | ⟨e2, h2⟩
  · exact Or.inl (ta _ _ _ h1 h2)
  · exact Or.inl (e2 ▸ h1)
  · exact Or.inl (e1 ▸ h2)
  · exact Or.inr ⟨e1.trans e2, tb _ _ _ h1 h2⟩

theorem lexLt_trans (a b c : Nat × Nat) (h1 : LexLt a b) (h2 : LexLt b c) : LexLt a c := by
  unfold LexLt at *
  omega

theorem ltG_trans (a b c : Nat × (Nat × (Nat × Nat))) (h1 : LtG a b) (h2 : LtG b c) : LtG a c :=
  lex2_trans (ra := (· < ·)) (rb := Lex2 (· < ·) LexLt) (fun _ _ _ => Nat.lt_trans)
    (lex2_trans (ra := (· < ·)) (rb := LexLt) (fun _ _ _ => Nat.lt_trans) lexLt_trans) a b c h1 h2

def LeG (a b : Nat × (Nat × (Nat × Nat))) : Prop := a = b ∨ LtG a b

theorem LeG.trans {a b c : Nat × (Nat × (Nat × Nat))} (h1 : LeG a b) (h2 : LeG b c) : LeG a c := by
  rcases h1 with rfl | h1
  · exact h2
  · rcases h2 with rfl | h2
    · exact Or.inr h1
    · exact Or.inr (ltG_trans _ _ _ h1 h2)

theorem ltG_of_lt_le {a b c : Nat × (Nat × (Nat × Nat))} (h1 : LtG a b) (h2 : LeG b c) : LtG a c := by
  rcases h2 with rfl | h2
  · exact h1
  · exact ltG_trans _ _ _ h1 h2

/-- No adoption ever happens. -/
def NoAdoptions (x : Exec s0) : Prop := ∀ j e, x.σ j = some e → ¬ Adopts (x.ρ j) e

/-- What one step of the execution does to the rank of `t`, once settled. -/
theorem rank_step (x : Exec s0) (hr : Reachable s0) {N : Nat} (hS : Settled x N)
    (hna : NoAdoptions x) {B : Nat} (hB : ∀ k, ((x.ρ N).notes k).allocated = true → k < B)
    (t : Tid) {j : Nat} (hj : N ≤ j) (hnl : ¬ LoopStep x t j) :
    (x.ρ (j + 1)).pc t = .idle ∨
    (Acts x t j ∧ LtG (rankG B (x.ρ (j + 1)) t) (rankG B (x.ρ j) t)) ∨
    (¬ Acts x t j ∧ LeG (rankG B (x.ρ (j + 1)) t) (rankG B (x.ρ j) t)) := by
  have hrj := x.reach hr j
  have hBj : ∀ k, ((x.ρ j).notes k).allocated = true → k < B := by
    intro k hk
    obtain ⟨d, rfl⟩ : ∃ d, j = N + d := ⟨j - N, by omega⟩
    exact hB k (alloc_back x hS k d hk)
  have hmj : NoMalloc (x.ρ j) := fun a => hS.2 j a hj
  cases hs : x.σ j with
  | none =>
    right; right
    refine ⟨fun h => ?_, Or.inl (by rw [x.next_none hs])⟩
    obtain ⟨⟨e, he, _⟩, _⟩ := h
    rw [hs] at he; cases he
  | some e =>
    have hst := x.next_some hs
    have hnae := hna j e hs
    have hle := PG_le B hrj hst hmj hnae
    by_cases hact : e.actor = some t ∧ (x.ρ j).pc t ≠ .idle
    · rcases own_step_gen B hst hact.1 hact.2 hrj hBj hmj hnae with h | h | h | ⟨n, nt, r, wdl, hpc, hf⟩
      · exact Or.inl h
      · exact Or.inr (Or.inl ⟨⟨⟨e, hs, hact.1⟩, hact.2⟩, ltG_of hle (Or.inl h)⟩)
      · exact Or.inr (Or.inl ⟨⟨⟨e, hs, hact.1⟩, hact.2⟩, ltG_of hle (Or.inr h)⟩)
      · exact absurd ⟨⟨e, hs, hact.1⟩, n, nt, r, wdl, hpc, hf⟩ hnl
    · right; right
      have hnacts : ¬ Acts x t j := by
        rintro ⟨⟨e', he', ha'⟩, hp'⟩
        rw [hs] at he'; cases he'
        exact hact ⟨ha', hp'⟩
      refine ⟨hnacts, ?_⟩
      have hrest : restR (x.ρ (j + 1)) t = restR (x.ρ j) t := by
        by_cases ha : e.actor = some t
        · have hid : (x.ρ j).pc t = .idle := by
            apply Classical.byContradiction; intro h; exact hact ⟨ha, h⟩
          rw [step_idle_state hst ha hid (fun a hc => hS.1 j t a hj (by rw [hs, hc]))]
        · exact other_step_gen hrj hst ha
      show (PG B _, restR _ t) = (PG B _, restR _ t) ∨ _
      rcases Nat.lt_or_ge (PG B (x.ρ (j + 1))) (PG B (x.ρ j)) with h | h
      · exact Or.inr (Or.inl h)
      · left; rw [hrest, Nat.le_antisymm hle h]

/-- BOUNDED WORK for executions without adoptions. -/
theorem finiteWork_of_noAdoptions (x : Exec s0) (hr : Reachable s0) {N : Nat} (hS : Settled x N)
    (hna : NoAdoptions x) : FiniteWork x := by
  obtain ⟨B, hB⟩ := (x.reach hr N).alloc_bound
  intro t
  by_cases hl : Looper x t
  · exact Or.inr hl
  left
  have : ∃ i1, ∀ j, i1 ≤ j → ¬ LoopStep x t j := by
    apply Classical.byContradiction
    intro hno
    apply hl
    intro i
    apply Classical.byContradiction
    intro hn2
    exact hno ⟨i, fun j hj h => hn2 ⟨j, hj, h⟩⟩
  obtain ⟨i1, hi1⟩ := this
  have hidle : ∀ j, N ≤ j → (x.ρ j).pc t = .idle → ∃ i', ∀ j', i' ≤ j' → ¬ Acts x t j' := by
    intro j hj hid
    refine ⟨j, fun j' hj' h => ?_⟩
    obtain ⟨d, rfl⟩ : ∃ d, j' = j + d := ⟨j' - j, by omega⟩
    exact h.2 (idle_stays x hS.1 hj hid d)
  -- the rank never increases
  have mono : ∀ i, max i1 N ≤ i → ∀ d, (∃ i', ∀ j', i' ≤ j' → ¬ Acts x t j') ∨
      LeG (rankG B (x.ρ (i + d)) t) (rankG B (x.ρ i) t) := by
    intro i hi d
    induction d with
    | zero => exact Or.inr (Or.inl rfl)
    | succ d ih =>
      rcases ih with h | h
      · exact Or.inl h
      · rcases rank_step x hr hS hna hB t (j := i + d) (by omega) (hi1 (i + d) (by omega)) with
          h' | ⟨_, h'⟩ | ⟨_, h'⟩
        · exact Or.inl (hidle (i + d + 1) (by omega) h')
        · exact Or.inr (LeG.trans (Or.inr h') h)
        · exact Or.inr (LeG.trans h' h)
  have key : ∀ r, ∀ i, max i1 N ≤ i → rankG B (x.ρ i) t = r →
      ∃ i', ∀ j', i' ≤ j' → ¬ Acts x t j' := by
    intro r
    induction r using ltG_wf.induction with
    | _ r ih =>
      intro i hi hri
      by_cases hact : ∃ j, i ≤ j ∧ Acts x t j
      · obtain ⟨j, hj, haj⟩ := hact
        obtain ⟨d, rfl⟩ : ∃ d, j = i + d := ⟨j - i, by omega⟩
        rcases mono i hi d with h | h
        · exact h
        · rcases rank_step x hr hS hna hB t (j := i + d) (by omega) (hi1 (i + d) (by omega)) with
            h' | ⟨_, h'⟩ | ⟨h', _⟩
          · exact hidle (i + d + 1) (by omega) h'
          · exact ih _ (hri ▸ ltG_of_lt_le h' h) (i + d + 1) (by omega) rfl
          · exact absurd haj h'
      · exact ⟨i, fun j' hj' h => hact ⟨j', hj', h⟩⟩
  exact key _ (max i1 N) (Nat.le_refl _) rfl

end Note
