/-
  Layer `Note` × vector clocks: what a program counter knows about the thread's own ghosts
  (per-thread claims; a step of another thread changes none of them).

  `TClaimX api P pc`: the API call in progress is the one the program counter belongs to (`api`),
  and at every program point from which the call is going to report the note `n` notified
  (`nsync_note_notified_deadline_` about to return zero, `nsync_note_is_notified` about to return 1,
  `nsync_wait_n` about to return index 0) the thread has a REASON `P n` — in the product:
  its own acquire load of `note<n>.notified` read 1 / it stored the flag itself (`saw`), or it read
  `expiry_time == 0` with the flag 0 (`zsaw`).
-/
import NsyncVerif.Proofs.NoteVCInv

set_option linter.unusedSimpArgs false

namespace Note
open NsyncVerif

/-- The API call a continuation of `nsync_note_notified_deadline_ (n)` belongs to. -/
def DK.api (n : NoteId) : DK → ApiCall
  | .isNotified => .isNotified n
  | .notifyApi => .notify n
  | .newSelf par dl => .new par dl
  | .ready1 wdl | .ready2 _ wdl | .dequeue _ wdl => .wait n wdl

/-- The API call an activation of `notify (n)` belongs to: nsync_note_notify (n) itself, or the
    call whose poll of `n` found the deadline passed. -/
def NK.api (n : NoteId) : NK → ApiCall
  | .ofApi => .notify n
  | .ofDeadline dk => dk.api n

def TClaimX (api : Option ApiCall) (P : NoteId → Prop) : PC → Prop
  | .newMalloc par dl => api = some (.new par dl)
  | .dl pos n nt dk => api = some (dk.api n) ∧ (pos.late = true → ¬ nt.pos → P n)
  | .nfy pos n _ nk => api = some (nk.api n) ∧ (pos.done = true → P n)
  | .chd pos stk top =>
    api = some (top.k.api top.n) ∧ ((2 ≤ stk.length ∨ pos.stored = true) → P top.n)
  | .newP _ _ par dl => api = some (.new (some par) dl)
  | .retIs n b => api = some (.isNotified n) ∧ (b = true → P n)
  | .retNotify n => api = some (.notify n)
  | .wt0 pos n wdl =>
    api = some (.wait n wdl) ∧
    (match pos with
     | .nret rd | .ret rd => rd = 0 → P n
     | _ => True)
  | .wt pos n wdl _ =>
    api = some (.wait n wdl) ∧
    (match pos with
     | .qUnlockCall q | .qUnlockRet q => q = false → P n
     | _ => True)
  | _ => True

theorem TClaimX.afterDeadlinePc {api : Option ApiCall} {P : NoteId → Prop} {n : NoteId} {nt : Dl}
    {dk : DK} (ha : api = some (dk.api n)) (hp : ¬ nt.pos → P n) :
    TClaimX api P (Note.afterDeadlinePc n nt dk) := by
  cases dk with
  | isNotified => exact ⟨ha, fun h => hp (by simpa using h)⟩
  | notifyApi =>
    simp only [Note.afterDeadlinePc]
    split
    · exact ⟨ha, fun h => by simp at h⟩
    · exact ha
  | newSelf par dl =>
    simp only [Note.afterDeadlinePc]
    split
    · cases par with
      | none => trivial
      | some p => exact ha
    · trivial
  | ready1 wdl =>
    simp only [Note.afterDeadlinePc]
    split
    · exact ⟨ha, trivial⟩
    · refine ⟨ha, ?_⟩
      show _ = 0 → P n
      split
      · intro h; cases h
      · next h => intro _; exact hp h
  | ready2 r wdl =>
    simp only [Note.afterDeadlinePc]
    split
    · exact ⟨ha, trivial⟩
    · exact ⟨ha, fun h => by simp at h⟩
  | dequeue r wdl => exact ⟨ha, trivial⟩

theorem TClaimX.afterNotifyPc {api : Option ApiCall} {P : NoteId → Prop} {n : NoteId} {nk : NK}
    (ha : api = some (nk.api n)) (hp : P n) : TClaimX api P (Note.afterNotifyPc n nk) := by
  cases nk with
  | ofApi => exact ha
  | ofDeadline dk => exact TClaimX.afterDeadlinePc ha (fun _ => hp)

theorem TClaimX.childReturnPc {api : Option ApiCall} {P : NoteId → Prop} {f : Frame}
    {rest : List Frame} {top : Top} (ha : api = some (top.k.api top.n)) (hp : P top.n) :
    TClaimX api P (Note.childReturnPc f rest top) := by
  unfold Note.childReturnPc
  cases rest with
  | cons g gs => exact ⟨ha, fun _ => hp⟩
  | nil => cases top.par <;> exact ⟨ha, fun _ => hp⟩

theorem TClaimX.childWakeNextPc {api : Option ApiCall} {P : NoteId → Prop} {s1 : State} {f : Frame}
    {rest : List Frame} {top : Top} (ha : api = some (top.k.api top.n)) (hp : P top.n) :
    TClaimX api P (Note.childWakeNextPc s1 f rest top) := by
  unfold Note.childWakeNextPc
  split
  · exact ⟨ha, fun _ => hp⟩
  · unfold childLoopStartPc; split <;> exact ⟨ha, fun _ => hp⟩

theorem TClaimX.childLoopStartPc {api : Option ApiCall} {P : NoteId → Prop} (cs : List NoteId)
    {f : Frame} {rest : List Frame} {top : Top} (ha : api = some (top.k.api top.n)) (hp : P top.n) :
    TClaimX api P (Note.childLoopStartPc cs f rest top) := by
  unfold Note.childLoopStartPc; split <;> exact ⟨ha, fun _ => hp⟩

theorem TClaimX.freeLoopStartPc (api : Option ApiCall) (P : NoteId → Prop) (cs : List NoteId)
    (n : NoteId) (par : Option NoteId) : TClaimX api P (Note.freeLoopStartPc cs n par) := by
  cases cs <;> simp [Note.freeLoopStartPc, TClaimX]

/-- One step of the acting thread `a` that is not an API call: the claim of its new program
    counter, given that its reasons only grow (`hmono`), that an acquire load which evaluates
    NOTIFIED_TIME (k) to zero gives a reason for `k` (`hld`), and that a store of the flag of `k`
    does (`hst`). -/
theorem tclaimX_step {s s' : State} {e : Event} {a : Tid} (hr : Reachable s)
    (hs : step s e = .ok s') (ha : e.actor = some a) (api : Option ApiCall)
    (P P' : NoteId → Prop) (hmono : ∀ n, P n → P' n)
    (hcall : ∀ t c, e ≠ .call t c)
    (hld : ∀ t site o k obs, e = .ld t site o k obs → ¬ (s.notes k).ntime.pos → P' k)
    (hst : ∀ t site o k n ob, e = .stNote t site o k n ob → P' k)
    (hc : TClaimX api P (s.pc a)) : TClaimX api P' (s'.pc a) := by
  have hL := hr.inv6.2.2.2.2.1.claim a
  cases e
  all_goals step_cases hs
  all_goals simp only [Event.actor, Option.some.injEq, reduceCtorEq] at ha
  all_goals (try subst ha)
  all_goals (try (rw [‹s.pc _ = _›] at hc hL))
  all_goals (try (simp only [setPc_pc, upd_same, afterDeadline_pc, afterNotify_pc, childReturn_pc,
    childWakeNext_pc, childScanStart_pc, freeLoopStart_pc, enterChild_pc, leave_pc, addUser_pc, markCalled_pc,
    markFreeing_pc, setAfter_pc, pushObs_pc, publish_pc, delUser_pc, markBorn_pc, allocNote_pc]))
  all_goals (try (exact absurd rfl (hcall _ _)))
  all_goals (try trivial)
  all_goals (try (exact TClaimX.freeLoopStartPc _ _ _ _ _))
  all_goals (try (exact TClaimX.afterDeadlinePc hc.1 (fun h => hmono _ (hc.2 rfl h))))
  all_goals (try (exact TClaimX.afterNotifyPc hc.1 (hmono _ (hc.2 rfl))))
  all_goals (try (exact TClaimX.childWakeNextPc hc.1 (hmono _ (hc.2 (Or.inr rfl)))))
  all_goals (try (exact TClaimX.childLoopStartPc _ hc.1 (hmono _ (hc.2 (Or.inr rfl)))))
  all_goals (try (exact TClaimX.childReturnPc hc.1 (hmono _ (hc.2 (Or.inr rfl)))))
  all_goals (try (simp_all [TClaimX, DK.api, NK.api]; done))
  · -- note.c/4 read 1
    rename_i hflag _ _ _ hk
    refine TClaimX.afterDeadlinePc hc.1 (fun _ => ?_)
    rw [← hk.2]
    exact hld _ _ _ _ _ rfl (by rw [hk.2]; simp [NoteRec.ntime, hflag, Dl.pos])
  · -- note.c/0 found the note notified already
    rename_i f rest top _ hnp _ _ _ hk
    refine TClaimX.childReturnPc hc.1 ?_
    cases rest with
    | nil =>
      have : f.note = top.n := by simpa using hL.2.2.1
      rw [← this, ← hk.2]
      exact hld _ _ _ _ _ rfl (by rw [hk.2]; exact hnp)
    | cons g gs => exact hmono _ (hc.2 (Or.inl (by simp)))
  · -- note.c/1: the store
    rename_i f rest top _ _ hk _
    refine TClaimX.childWakeNextPc hc.1 ?_
    cases rest with
    | nil =>
      have : f.note = top.n := by simpa using hL.2.2.1
      rw [← this, ← hk.2.2.1]
      exact hst _ _ _ _ _ _ rfl
    | cons g gs => exact hmono _ (hc.2 (Or.inl (by simp)))

/-- An API call: the claim of the first program counter of the call. -/
theorem tclaimX_call {s s' : State} {t : Tid} {c : ApiCall} (hs : step s (.call t c) = .ok s')
    (P : NoteId → Prop) : TClaimX (some c) P (s'.pc t) := by
  step_cases hs
  all_goals (simp only [setPc_pc, upd_same, addUser_pc, markCalled_pc, markFreeing_pc, setAfter_pc])
  all_goals (try trivial)
  all_goals (simp [TClaimX, DK.api])

theorem TClaimX.mono {api : Option ApiCall} {P P' : NoteId → Prop} (h : ∀ n, P n → P' n) {pc : PC}
    (hc : TClaimX api P pc) : TClaimX api P' pc := by
  cases pc with
  | dl pos n nt dk => exact ⟨hc.1, fun h1 h2 => h _ (hc.2 h1 h2)⟩
  | nfy pos n par nk => exact ⟨hc.1, fun h1 => h _ (hc.2 h1)⟩
  | chd pos stk top => exact ⟨hc.1, fun h1 => h _ (hc.2 h1)⟩
  | retIs n b => exact ⟨hc.1, fun h1 => h _ (hc.2 h1)⟩
  | wt0 pos n wdl =>
    refine ⟨hc.1, ?_⟩
    have := hc.2
    cases pos <;> first | trivial | exact fun h1 => h _ (this h1)
  | wt pos n wdl r =>
    refine ⟨hc.1, ?_⟩
    have := hc.2
    cases pos <;> first | trivial | exact fun h1 => h _ (this h1)
  | _ => exact hc

/-! ### the product -/

/-- During its current API call thread `t` has obtained a reason to report note `n` notified: its
    own acquire load of `note<n>.notified` read 1 or it stored the flag itself (`saw`), or it read
    `expiry_time == 0` with the flag 0 (`zsaw`). -/
def Pos (p : PState) (t : Tid) (n : NoteId) : Prop := p.saw t n ≠ 0 ∨ p.zsaw t n = true

def TClaim (p : PState) (t : Tid) : Prop := TClaimX (p.capi t) (Pos p t) (p.s.pc t)

theorem gSaw_mono {p : PState} {e : Event} (hv : VInv p) (hnc : ∀ t c, e ≠ .call t c) (t : Tid)
    (n : NoteId) (h : p.saw t n ≠ 0) : gSaw p e t n ≠ 0 := by
  cases e with
  | call u c => exact absurd rfl (hnc u c)
  | ld u site o k obs =>
    simp only [gSaw]
    split
    · next hc =>
      intro h0
      have := hv.nil k (List.eq_nil_of_length_eq_zero h0)
      rw [hc.2.2] at this; cases this
    · exact h
  | stNote u site o k m ob =>
    simp only [gSaw]
    split
    · omega
    · exact h
  | _ => exact h

theorem gZsaw_mono {p : PState} {e : Event} (hnc : ∀ t c, e ≠ .call t c) (t : Tid) (n : NoteId)
    (h : p.zsaw t n = true) : gZsaw p e t n = true := by
  cases e with
  | call u c => exact absurd rfl (hnc u c)
  | ld u site o k obs =>
    simp only [gZsaw]
    split
    · rfl
    · exact h
  | _ => exact h

theorem gCapi_other {p : PState} {e : Event} (hnc : ∀ t c, e ≠ .call t c) : gCapi p e = p.capi := by
  cases e with
  | call u c => exact absurd rfl (hnc u c)
  | _ => rfl

/-- the ghosts of a thread are changed by its own events only -/
theorem ghosts_other {p : PState} {e : Event} {u : Tid} (hu : e.actor ≠ some u) :
    gCapi p e u = p.capi u ∧ gSaw p e u = p.saw u ∧ gZsaw p e u = p.zsaw u := by
  cases e <;> simp only [Event.actor, ne_eq, Option.some.injEq, reduceCtorEq, not_false_eq_true] at hu
  all_goals (try exact ⟨rfl, rfl, rfl⟩)
  · exact ⟨by simp [gCapi, Ne.symm hu], by funext x; simp [gSaw, Ne.symm hu],
      by funext x; simp [gZsaw, Ne.symm hu]⟩
  · exact ⟨rfl, by funext x; simp [gSaw, Ne.symm hu], by funext x; simp [gZsaw, Ne.symm hu]⟩
  · exact ⟨rfl, by funext x; simp [gSaw, Ne.symm hu], rfl⟩

theorem tclaim_step {p p' : PState} {e : Event} (hr : Reachable p.s) (hv : VInv p)
    (hc : ∀ t, TClaim p t) (hp : pstep p e = .ok p') : ∀ t, TClaim p' t := by
  obtain ⟨hs, _, _, hcapi, _, hsaw, hzsaw⟩ := pstep_ok hp
  intro u
  unfold TClaim
  by_cases hu : e.actor = some u
  · by_cases hcall : ∃ t c, e = .call t c
    · obtain ⟨t, c, he⟩ := hcall
      subst he
      simp only [Event.actor, Option.some.injEq] at hu
      subst hu
      have : p'.capi t = some c := by rw [hcapi]; simp [gCapi]
      rw [this]
      exact tclaimX_call hs _
    · have hnc : ∀ t c, e ≠ .call t c := fun t c he => hcall ⟨t, c, he⟩
      have hapi : p'.capi u = p.capi u := by rw [hcapi, gCapi_other hnc]
      rw [hapi]
      refine tclaimX_step hr hs hu (p.capi u) (Pos p u) (Pos p' u) ?_ hnc ?_ ?_ (hc u)
      · intro n hn
        rcases hn with hn | hn
        · left; rw [hsaw]; exact gSaw_mono hv hnc u n hn
        · right; rw [hzsaw]; exact gZsaw_mono hnc u n hn
      · intro t site o k obs he hnp
        subst he
        simp only [Event.actor, Option.some.injEq] at hu
        subst hu
        cases hfl : (p.s.notes k).notified with
        | true =>
          left; rw [hsaw]; simp only [gSaw, hfl, and_self, if_true]
          intro h0
          have := hv.nil k (List.eq_nil_of_length_eq_zero h0)
          rw [hfl] at this; cases this
        | false =>
          right; rw [hzsaw]
          have hz : (p.s.notes k).expiry = some 0 := by
            simpa [NoteRec.ntime, hfl, Dl.pos] using hnp
          simp [gZsaw, hfl, hz]
      · intro t site o k n ob he
        subst he
        simp only [Event.actor, Option.some.injEq] at hu
        subst hu
        left; rw [hsaw]; simp [gSaw]
  · obtain ⟨h1, h2, h3⟩ := ghosts_other (p := p) hu
    rw [step_pc_other hs u hu, hcapi, h1]
    refine TClaimX.mono ?_ (hc u)
    intro n hn
    unfold Pos at hn ⊢
    rw [hsaw, hzsaw, h2, h3]
    exact hn

theorem tclaim_init : ∀ t, TClaim pinit t := by
  intro t; simp [TClaim, pinit, Note.init, TClaimX]

/-- Both invariants hold in every reachable product state. -/
theorem PReachable.inv {p : PState} (h : PReachable p) : VInv p ∧ ∀ t, TClaim p t := by
  refine PReachable.induction (P := fun p => VInv p ∧ ∀ t, TClaim p t) ⟨VInv.init, tclaim_init⟩ ?_ p h
  intro p e p' hr hi hs
  exact ⟨vinv_step hr.s hi.1 hs, tclaim_step hr.s hi.1 hi.2 hs⟩

end Note
