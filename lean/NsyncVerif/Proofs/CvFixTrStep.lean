/-
  Layer `CvFix` (cv.c with the repair of F3; adapted from the `Cv` file of the same name): every accepted event is a transition of `Tr` (the only place where `step` is taken
  apart), and the induction principle for reachable states.
-/
import NsyncVerif.Proofs.CvFixTrStepRec

namespace NsyncVerif.CvFix

theorem stepCall_ok {s s' : State} {t : Tid} {x : Thr} (h : stepCall s t x = .ok s') :
    (s.thr t).loc = .idle ∧ s' = s.setThr t x := by
  unfold stepCall at h
  simp only [need_ok] at h
  exact ⟨h.1, by cases h.2; rfl⟩

theorem stepRet_ok {s s' : State} {t : Tid} {ok : Bool} {msg : String} (h : stepRet s t ok msg = .ok s') :
    ok = true ∧ s' = s.setThr t ((s.thr t).fresh .idle) := by
  unfold stepRet at h
  simp only [need_ok] at h
  exact ⟨h.1, by cases h.2; rfl⟩

theorem step_tr {cfg : Config} {s s' : State} {e : Event} (h : step cfg s e = .ok s') : Tr cfg s e s' := by
  cases e with
  | skip => simp only [step] at h; cases h; exact .same _ rfl rfl
  | tick ns =>
    simp only [step, need_ok] at h
    cases h.2; exact .tick ns h.1
  | callWait t gen dl note =>
    simp only [step] at h
    obtain ⟨hl, rfl⟩ := stepCall_ok h
    exact .loc (.callWait gen dl note hl)
  | retWait t res =>
    simp only [step] at h
    obtain ⟨hok, rfl⟩ := stepRet_ok h
    simp only [decide_eq_true_eq] at hok
    exact .loc (.retWait res hok.1 hok.2)
  | callSignal t =>
    simp only [step] at h
    obtain ⟨hl, rfl⟩ := stepCall_ok h
    exact .loc (.callSignal hl)
  | callBroadcast t =>
    simp only [step] at h
    obtain ⟨hl, rfl⟩ := stepCall_ok h
    exact .loc (.callBroadcast hl)
  | retSignal t =>
    simp only [step] at h
    obtain ⟨hok, rfl⟩ := stepRet_ok h
    simp only [decide_eq_true_eq] at hok
    exact .loc (.retSignal hok.1 hok.2)
  | retBroadcast t =>
    simp only [step] at h
    obtain ⟨hok, rfl⟩ := stepRet_ok h
    simp only [decide_eq_true_eq] at hok
    exact .loc (.retBroadcast hok.1 hok.2)
  | callWaitN t =>
    simp only [step] at h
    obtain ⟨hl, rfl⟩ := stepCall_ok h
    exact .loc (.callWaitN hl)
  | retWaitN t =>
    simp only [step, need_ok] at h
    obtain ⟨hl, hm, h⟩ := h
    cases h
    exact .loc (.retWaitN hl hm)
  | relMark t op =>
    simp only [step, need_ok] at h
    obtain ⟨hl, ho, h⟩ := h
    cases h
    exact .loc (.relMark op hl ho)
  | lockMark t op =>
    simp only [step, need_ok] at h
    obtain ⟨hl, hx, ho, h⟩ := h
    cases h
    exact .loc (.lockMark op hl hx ho)
  | relockSlow t =>
    simp only [step, need_ok] at h
    obtain ⟨hl, hx, h⟩ := h
    cases h
    exact .loc (.relockSlow hl hx)
  | nret t =>
    simp only [step] at h
    split at h
    · rename_i hl; cases h; exact .loc (.nretUnlock hl)
    · rename_i hl; cases h; exact .loc (.nretLock hl)
    · cases h
  | wordLd t site obs => exact tr_wordLd h
  | wordCas t exp new obs ok => exact tr_wordCas h
  | wordSt t site new obs => exact tr_wordSt h
  | recLd t site r obs => exact tr_recLd h
  | recSt t site r new obs => exact tr_recSt h
  | recCas t site r exp new obs ok => exact tr_recCas h
  | muLd t site obs => exact tr_muLd h
  | muCas t site exp new obs ok => exact tr_muCas h
  | semPdEnter t k dl => exact tr_semPdEnter h
  | semPdRet t k to => exact tr_semPdRet h
  | semPEnter t k =>
    simp only [step, need_ok] at h
    cases h.2; exact .same _ rfl rfl
  | semPRet t k =>
    simp only [step, need_ok] at h
    have hopen := h.1
    cases h.2.2
    exact .semOther _ _ rfl (fun u hu => by simp only [Event.tid, Option.some.injEq] at hu; subst hu; exact hopen)
  | semV t k => exact tr_semV h
  | wInit t r =>
    simp only [step, need_ok] at h
    obtain ⟨hl, hm, hst, h⟩ := h
    cases h
    exact .wInit t r hl hm hst
  | nwInit t r =>
    simp only [step, need_ok] at h
    obtain ⟨hl, hm, hst, h⟩ := h
    cases h
    exact .nwInit t r hl hm hst
  | fLd t r f obs =>
    simp only [step, need_ok] at h
    cases h.2.2.2; exact .same _ rfl rfl
  | fSt t r f new =>
    simp only [step, need_ok] at h
    obtain ⟨hl, hf, h⟩ := h
    split at h
    · simp only [need_ok] at h
      cases h.2
      exact .fStW t r new hl hf
    · cases h
  | fCas t r f exp new obs ok =>
    simp only [step, need_ok] at h
    obtain ⟨hl, hf, hfld, hn, ho, hok, h⟩ := h
    subst hfld
    split at h
    · rename_i hk; subst hk; cases h
      exact .fCasOk t r exp new obs hl hf hn ho (by simpa using hok.symm)
    · cases h; exact .same _ rfl rfl
  | noteSeen t =>
    simp only [step] at h
    split at h
    · rename_i hl; cases h; exact .loc (.noteSeen (.inl hl))
    · rename_i hl; cases h; exact .loc (.noteSeen (.inr (.inl hl)))
    · rename_i hl; cases h; exact .loc (.noteSeen (.inr (.inr hl)))
    · cases h; exact .same _ rfl rfl
  | noteNotify t =>
    simp only [step, need_ok] at h
    obtain ⟨⟨hl, ht⟩, h⟩ := h
    cases h
    exact .loc (.noteNotify hl ht)
  | callDebug t k =>
    simp only [step] at h
    obtain ⟨hl, rfl⟩ := stepCall_ok h
    exact .loc (.callDebug k hl)
  | retDebug t k =>
    simp only [step] at h
    obtain ⟨hok, rfl⟩ := stepRet_ok h
    simp only [decide_eq_true_eq] at hok
    exact .loc (.retDebug k hok.1 hok.2)

/-- Induction over reachable states via `Tr`. -/
theorem run_induct {cfg : Config} {P : State → Prop}
    (hs : ∀ s e s', P s → Tr cfg s e s' → P s') :
    ∀ evs s0 s, P s0 → run cfg s0 evs = .ok s → P s := by
  intro evs
  induction evs with
  | nil => intro s0 s h0 h; simp only [run] at h; cases h; exact h0
  | cons e es ih =>
    intro s0 s h0 h
    simp only [run] at h
    cases h1 : step cfg s0 e with
    | error m => rw [h1] at h; cases h
    | ok s1 =>
      rw [h1] at h
      exact ih s1 s (hs s0 e s1 h0 (step_tr h1)) h

theorem reachable_induct {cfg : Config} {P : State → Prop} (h0 : P init)
    (hs : ∀ s e s', P s → Tr cfg s e s' → P s') :
    ∀ s, Reachable cfg s → P s := by
  intro s ⟨evs, h⟩
  exact run_induct hs evs init s h0 h

end NsyncVerif.CvFix
