/-
  Proofs/CounterFairStep4.lean — Counter layer: per-step facts for the invariants behind the
  enabledness lemma (`Proofs/CounterFairEnabled.lean`): counter_mu's log name stays bound, the phase
  is `creating` exactly while a thread is at the initialising store, semaphore bindings are created
  only by `pd_enter` / the waker's post.
-/
import NsyncVerif.Proofs.CounterFairStep

namespace Counter

/-- the thread has called nsync_mu_lock (counter_mu) and has not yet called nsync_mu_unlock -/
def pastLock (p : PC) : Bool := lockWaitPc p || holds p

structure Prog4 (s : State) (t : Tid) (e : Ev) (s' : State) : Prop where
  muk : s.sh.mu ≠ none → s'.sh.mu ≠ none
  mub : pastLock (s'.pc t) = true → pastLock (s.pc t) = true ∨ s'.sh.mu ≠ none
  ph2 : ∀ v, s'.pc t = .newStore v → (s.pc t = .newStore v ∧ s'.sh.phase = s.sh.phase)
      ∨ (s.sh.phase = .absent ∧ s'.sh.phase = .creating)
  ph3 : s.sh.phase = .creating → s'.sh.phase = .creating ∨ (∃ v, s.pc t = .newStore v)
  su : ∀ j, s'.sh.semUser j ≠ none → s.sh.semUser j ≠ none ∨ (∃ dl k, s'.pc t = .wPdWait dl k j)
      ∨ (e = .semV j ∧ ∃ d r idx, s'.pc t = .aHeld d r idx true)

theorem dflt_prog4 {s s' : State} {idle : Bool} {e : Ev} (t : Tid)
    (h : dflt s idle e = .ok s') : Prog4 s t e s' := by
  unfold dflt at h
  repeat' (split at h)
  all_goals first
    | (cases h; done)
    | (cases h; constructor <;> simp_all [Shared.setSem] <;> grind)

set_option hygiene false in
macro "prog4_open" : tactic => `(tactic| (
  simp only [stepThr, hpc] at h
  repeat' (split at h)
  all_goals first | (cases h; done) | exact dflt_prog4 t h | skip
  all_goals (cases h; (try simp only [setPc_eq]))
  all_goals try (have hm := useMu_eq (by assumption); subst hm)
  all_goals try (rcases bind_eq (by assumption) with ⟨hb1, hb2⟩ | ⟨hb1, hb2, hb3⟩ <;> first | subst hb1 | subst hb3)))

set_option hygiene false in
macro "prog4_tac" : tactic => `(tactic| (
  constructor <;>
    (simp only [State.mk', Shared.setSem, Shared.setRec, Shared.setSemUser, Shared.release, pastLock, lockWaitPc,
      holds, hpc, if_pos] <;>
     first | (intros; trivial) | grind | (intros; simp_all <;> grind))))

variable {s s' : State} {t : Tid} {e : Ev}

theorem prog4_idle (hpc : s.pc t = .idle) (h : stepThr s t e = .ok s') : Prog4 s t e s' := by
  prog4_open
  all_goals prog4_tac

theorem prog4_newMalloc {v} (hpc : s.pc t = .newMalloc v) (h : stepThr s t e = .ok s') : Prog4 s t e s' := by
  prog4_open
  all_goals prog4_tac

theorem prog4_newStore {v} (hpc : s.pc t = .newStore v) (h : stepThr s t e = .ok s') : Prog4 s t e s' := by
  prog4_open
  all_goals prog4_tac

theorem prog4_newRet {ok} (hpc : s.pc t = .newRet ok) (h : stepThr s t e = .ok s') : Prog4 s t e s' := by
  prog4_open
  all_goals prog4_tac

theorem prog4_fLockCall (hpc : s.pc t = .fLockCall) (h : stepThr s t e = .ok s') : Prog4 s t e s' := by
  prog4_open
  all_goals prog4_tac

theorem prog4_fLockWait (hpc : s.pc t = .fLockWait) (h : stepThr s t e = .ok s') : Prog4 s t e s' := by
  prog4_open
  all_goals prog4_tac

theorem prog4_fHeld (hpc : s.pc t = .fHeld) (h : stepThr s t e = .ok s') : Prog4 s t e s' := by
  prog4_open
  all_goals prog4_tac

theorem prog4_fUnlockWait (hpc : s.pc t = .fUnlockWait) (h : stepThr s t e = .ok s') : Prog4 s t e s' := by
  prog4_open
  all_goals prog4_tac

theorem prog4_fFree (hpc : s.pc t = .fFree) (h : stepThr s t e = .ok s') : Prog4 s t e s' := by
  prog4_open
  all_goals prog4_tac

theorem prog4_fRet (hpc : s.pc t = .fRet) (h : stepThr s t e = .ok s') : Prog4 s t e s' := by
  prog4_open
  all_goals prog4_tac

theorem prog4_valLoad (hpc : s.pc t = .valLoad) (h : stepThr s t e = .ok s') : Prog4 s t e s' := by
  prog4_open
  all_goals prog4_tac

theorem prog4_valRet {v} (hpc : s.pc t = .valRet v) (h : stepThr s t e = .ok s') : Prog4 s t e s' := by
  prog4_open
  all_goals prog4_tac

theorem prog4_azLoad (hpc : s.pc t = .azLoad) (h : stepThr s t e = .ok s') : Prog4 s t e s' := by
  prog4_open
  all_goals prog4_tac

theorem prog4_azRet {v} (hpc : s.pc t = .azRet v) (h : stepThr s t e = .ok s') : Prog4 s t e s' := by
  prog4_open
  all_goals prog4_tac

theorem prog4_aLockCall {d} (hpc : s.pc t = .aLockCall d) (h : stepThr s t e = .ok s') : Prog4 s t e s' := by
  prog4_open
  all_goals prog4_tac

theorem prog4_aLockWait {d} (hpc : s.pc t = .aLockWait d) (h : stepThr s t e = .ok s') : Prog4 s t e s' := by
  prog4_open
  all_goals prog4_tac

theorem prog4_aLoad {d} (hpc : s.pc t = .aLoad d) (h : stepThr s t e = .ok s') : Prog4 s t e s' := by
  prog4_open
  all_goals prog4_tac

theorem prog4_aCas {d v} (hpc : s.pc t = .aCas d v) (h : stepThr s t e = .ok s') : Prog4 s t e s' := by
  prog4_open
  all_goals prog4_tac

theorem prog4_aLoadWaited {d r idx} (hpc : s.pc t = .aLoadWaited d r idx) (h : stepThr s t e = .ok s') : Prog4 s t e s' := by
  prog4_open
  all_goals prog4_tac

theorem prog4_aHeld {d r idx wake} (hpc : s.pc t = .aHeld d r idx wake) (h : stepThr s t e = .ok s') : Prog4 s t e s' := by
  prog4_open
  all_goals prog4_tac

theorem prog4_aPost {d r idx k} (hpc : s.pc t = .aPost d r idx k) (h : stepThr s t e = .ok s') : Prog4 s t e s' := by
  prog4_open
  all_goals prog4_tac

theorem prog4_aUnlockWait {d r idx} (hpc : s.pc t = .aUnlockWait d r idx) (h : stepThr s t e = .ok s') : Prog4 s t e s' := by
  prog4_open
  all_goals prog4_tac

theorem prog4_aRet {d r idx} (hpc : s.pc t = .aRet d r idx) (h : stepThr s t e = .ok s') : Prog4 s t e s' := by
  prog4_open
  all_goals prog4_tac

theorem prog4_w0Store {dl} (hpc : s.pc t = .w0Store dl) (h : stepThr s t e = .ok s') : Prog4 s t e s' := by
  prog4_open
  all_goals prog4_tac

theorem prog4_w0Load {dl} (hpc : s.pc t = .w0Load dl) (h : stepThr s t e = .ok s') : Prog4 s t e s' := by
  prog4_open
  all_goals prog4_tac

theorem prog4_wInit {dl} (hpc : s.pc t = .wInit dl) (h : stepThr s t e = .ok s') : Prog4 s t e s' := by
  prog4_open
  all_goals prog4_tac

theorem prog4_wEnqLockCall {dl k} (hpc : s.pc t = .wEnqLockCall dl k) (h : stepThr s t e = .ok s') : Prog4 s t e s' := by
  prog4_open
  all_goals prog4_tac

theorem prog4_wEnqLockWait {dl k} (hpc : s.pc t = .wEnqLockWait dl k) (h : stepThr s t e = .ok s') : Prog4 s t e s' := by
  prog4_open
  all_goals prog4_tac

theorem prog4_wEnqLoad {dl k} (hpc : s.pc t = .wEnqLoad dl k) (h : stepThr s t e = .ok s') : Prog4 s t e s' := by
  prog4_open
  all_goals prog4_tac

theorem prog4_wEnqStore {dl k v} (hpc : s.pc t = .wEnqStore dl k v) (h : stepThr s t e = .ok s') : Prog4 s t e s' := by
  prog4_open
  all_goals prog4_tac

theorem prog4_wEnqUnlockCall {dl k enq} (hpc : s.pc t = .wEnqUnlockCall dl k enq) (h : stepThr s t e = .ok s') : Prog4 s t e s' := by
  prog4_open
  all_goals prog4_tac

theorem prog4_wEnqUnlockWait {dl k enq} (hpc : s.pc t = .wEnqUnlockWait dl k enq) (h : stepThr s t e = .ok s') : Prog4 s t e s' := by
  prog4_open
  all_goals prog4_tac

theorem prog4_wLoopStore {dl k} (hpc : s.pc t = .wLoopStore dl k) (h : stepThr s t e = .ok s') : Prog4 s t e s' := by
  prog4_open
  all_goals prog4_tac

theorem prog4_wLoopLoad {dl k} (hpc : s.pc t = .wLoopLoad dl k) (h : stepThr s t e = .ok s') : Prog4 s t e s' := by
  prog4_open
  all_goals prog4_tac

theorem prog4_wPdEnter {dl k} (hpc : s.pc t = .wPdEnter dl k) (h : stepThr s t e = .ok s') : Prog4 s t e s' := by
  prog4_open
  all_goals prog4_tac

theorem prog4_wPdWait {dl k j} (hpc : s.pc t = .wPdWait dl k j) (h : stepThr s t e = .ok s') : Prog4 s t e s' := by
  prog4_open
  all_goals prog4_tac

theorem prog4_wDeqLockCall {dl k tmo} (hpc : s.pc t = .wDeqLockCall dl k tmo) (h : stepThr s t e = .ok s') : Prog4 s t e s' := by
  prog4_open
  all_goals prog4_tac

theorem prog4_wDeqLockWait {dl k tmo} (hpc : s.pc t = .wDeqLockWait dl k tmo) (h : stepThr s t e = .ok s') : Prog4 s t e s' := by
  prog4_open
  all_goals prog4_tac

theorem prog4_wDeqLoadV {dl k tmo} (hpc : s.pc t = .wDeqLoadV dl k tmo) (h : stepThr s t e = .ok s') : Prog4 s t e s' := by
  prog4_open
  all_goals prog4_tac

theorem prog4_wDeqLoadW {dl k tmo v} (hpc : s.pc t = .wDeqLoadW dl k tmo v) (h : stepThr s t e = .ok s') : Prog4 s t e s' := by
  prog4_open
  all_goals prog4_tac

theorem prog4_wDeqStore {dl k tmo v} (hpc : s.pc t = .wDeqStore dl k tmo v) (h : stepThr s t e = .ok s') : Prog4 s t e s' := by
  prog4_open
  all_goals prog4_tac

theorem prog4_wDeqUnlockCall {dl k tmo v} (hpc : s.pc t = .wDeqUnlockCall dl k tmo v) (h : stepThr s t e = .ok s') : Prog4 s t e s' := by
  prog4_open
  all_goals prog4_tac

theorem prog4_wDeqUnlockWait {dl k tmo v} (hpc : s.pc t = .wDeqUnlockWait dl k tmo v) (h : stepThr s t e = .ok s') : Prog4 s t e s' := by
  prog4_open
  all_goals prog4_tac

theorem prog4_wFinalLoad {dl} (hpc : s.pc t = .wFinalLoad dl) (h : stepThr s t e = .ok s') : Prog4 s t e s' := by
  prog4_open
  all_goals prog4_tac

theorem prog4_wRet {dl r} (hpc : s.pc t = .wRet dl r) (h : stepThr s t e = .ok s') : Prog4 s t e s' := by
  prog4_open
  all_goals prog4_tac

theorem prog4_stepThr (h : stepThr s t e = .ok s') : Prog4 s t e s' := by
  cases hpc : s.pc t with
  | idle  => exact prog4_idle hpc h
  | newMalloc v => exact prog4_newMalloc hpc h
  | newStore v => exact prog4_newStore hpc h
  | newRet ok => exact prog4_newRet hpc h
  | fLockCall  => exact prog4_fLockCall hpc h
  | fLockWait  => exact prog4_fLockWait hpc h
  | fHeld  => exact prog4_fHeld hpc h
  | fUnlockWait  => exact prog4_fUnlockWait hpc h
  | fFree  => exact prog4_fFree hpc h
  | fRet  => exact prog4_fRet hpc h
  | valLoad  => exact prog4_valLoad hpc h
  | valRet v => exact prog4_valRet hpc h
  | azLoad  => exact prog4_azLoad hpc h
  | azRet v => exact prog4_azRet hpc h
  | aLockCall d => exact prog4_aLockCall hpc h
  | aLockWait d => exact prog4_aLockWait hpc h
  | aLoad d => exact prog4_aLoad hpc h
  | aCas d v => exact prog4_aCas hpc h
  | aLoadWaited d r idx => exact prog4_aLoadWaited hpc h
  | aHeld d r idx wake => exact prog4_aHeld hpc h
  | aPost d r idx k => exact prog4_aPost hpc h
  | aUnlockWait d r idx => exact prog4_aUnlockWait hpc h
  | aRet d r idx => exact prog4_aRet hpc h
  | w0Store dl => exact prog4_w0Store hpc h
  | w0Load dl => exact prog4_w0Load hpc h
  | wInit dl => exact prog4_wInit hpc h
  | wEnqLockCall dl k => exact prog4_wEnqLockCall hpc h
  | wEnqLockWait dl k => exact prog4_wEnqLockWait hpc h
  | wEnqLoad dl k => exact prog4_wEnqLoad hpc h
  | wEnqStore dl k v => exact prog4_wEnqStore hpc h
  | wEnqUnlockCall dl k enq => exact prog4_wEnqUnlockCall hpc h
  | wEnqUnlockWait dl k enq => exact prog4_wEnqUnlockWait hpc h
  | wLoopStore dl k => exact prog4_wLoopStore hpc h
  | wLoopLoad dl k => exact prog4_wLoopLoad hpc h
  | wPdEnter dl k => exact prog4_wPdEnter hpc h
  | wPdWait dl k j => exact prog4_wPdWait hpc h
  | wDeqLockCall dl k tmo => exact prog4_wDeqLockCall hpc h
  | wDeqLockWait dl k tmo => exact prog4_wDeqLockWait hpc h
  | wDeqLoadV dl k tmo => exact prog4_wDeqLoadV hpc h
  | wDeqLoadW dl k tmo v => exact prog4_wDeqLoadW hpc h
  | wDeqStore dl k tmo v => exact prog4_wDeqStore hpc h
  | wDeqUnlockCall dl k tmo v => exact prog4_wDeqUnlockCall hpc h
  | wDeqUnlockWait dl k tmo v => exact prog4_wDeqUnlockWait hpc h
  | wFinalLoad dl => exact prog4_wFinalLoad hpc h
  | wRet dl r => exact prog4_wRet hpc h

end Counter
