import NsyncVerif.Proofs.MuCFairStraight
import NsyncVerif.Proofs.MuCSpinApi
/-
  MuC, fair termination, steps C and D: exact successors of the program points that hold MU_SPINLOCK outside the scan
  of unlock_slow (queue insertion of lock_slow, mu_release_spinlock; the release loop of nsync_mu_wait; the removal
  after a timeout; the final CAS of unlock_slow; the release before the conditions are tested), with "a CAS after a
  re-read succeeds if the word has not changed in between" built in.
-/
namespace NsyncVerif.MuC

variable {cfg : Cfg} {s s' : State} {e : Event} {t : Tid}

/-- The `old_word` a program point is about to compare-and-swap against. -/
def PC.casOld : PC → Option Word
  | .lsRelCas _ old | .usRelCas _ _ old | .usFinCas _ _ old | .mwRelCas _ old _ => some old
  | _ => none

/-- The spinlock regions outside the scan loop: every program point with `PC.spin` except `usRcLd` / `usRcCas`. -/
def PC.spinS : PC → Bool
  | .lsSt _ | .lsRelLd _ | .lsRelCas _ _ => true
  | .usRelLd _ _ | .usRelCas _ _ _ => true
  | .usFinLd _ _ | .usFinCas _ _ _ => true
  | .mwRelLd _ | .mwRelCas _ _ _ => true
  | .mtLdW _ _ | .mtLdRc _ _ | .mtRmLd _ _ | .mtRmCas _ _ _ | .mtStW _ _ | .mtStRel _ _ _ => true
  | _ => false

theorem spinS_spin {p : PC} (h : p.spinS = true) : p.spin = true := by
  cases p <;> simp [PC.spinS] at h <;> simp [PC.spin]

theorem own_lsSt {c : SL} (hs : step cfg s e = .ok s') (ht : e.tid = some t) (hd : e.isData = false)
    (hp : s.pc t = .lsSt c) : ∃ c', s'.pc t = .lsRelLd c' := by
  own_cases e ht hd hs hp

theorem own_lsRelLd {c : SL} (hs : step cfg s e = .ok s') (ht : e.tid = some t) (hd : e.isData = false)
    (hp : s.pc t = .lsRelLd c) : s'.pc t = .lsRelCas c s.word ∧ s'.word = s.word := by
  own_cases e ht hd hs hp

theorem own_lsRelCas {c : SL} {old : Word} (hs : step cfg s e = .ok s') (ht : e.tid = some t) (hd : e.isData = false)
    (hp : s.pc t = .lsRelCas c old) :
    (s.word = old ∧ s'.pc t = .lsWaitLd c) ∨ (s.word ≠ old ∧ s'.pc t = .lsRelLd c ∧ s'.word = s.word) := by
  cases e <;> simp only [Event.tid, Option.some.injEq, reduceCtorEq] at ht
  all_goals subst ht
  case cas t o loc exp new obs ok =>
    simp only [step, stepCas, hp] at hs
    rcases casWord_ok hs with ⟨a, _, rfl⟩ | ⟨a, _, rfl⟩
    · left; exact ⟨a, by simp⟩
    · right; exact ⟨a, by simp, by simp⟩
  all_goals first
    | (simp [Event.isData] at hd; done)
    | (simp [step, stepCall, stepRet, stepLd, stepSt, stepCond, hp] at hs)

theorem own_mwRelLd {c : MW} (hs : step cfg s e = .ok s') (ht : e.tid = some t) (hd : e.isData = false)
    (hp : s.pc t = .mwRelLd c) : (∃ a, s'.pc t = .mwRelCas c s.word a) ∧ s'.word = s.word := by
  own_cases e ht hd hs hp

theorem own_mwRelCas {c : MW} {old : Word} {a : Bool} (hs : step cfg s e = .ok s') (ht : e.tid = some t)
    (hd : e.isData = false) (hp : s.pc t = .mwRelCas c old a) :
    (s.word = old ∧ (s'.pc t).spinS = false) ∨ (s.word ≠ old ∧ s'.pc t = .mwRelLd c ∧ s'.word = s.word) := by
  cases e <;> simp only [Event.tid, Option.some.injEq, reduceCtorEq] at ht
  all_goals subst ht
  case cas t o loc exp new obs ok =>
    simp only [step, stepCas, hp] at hs
    rcases casWord_ok hs with ⟨h, _, rfl⟩ | ⟨h, _, rfl⟩
    · left; refine ⟨h, ?_⟩; split <;> simp [PC.spinS]
    · right; exact ⟨h, by simp, by simp⟩
  all_goals first
    | (simp [Event.isData] at hd; done)
    | (simp [step, stepCall, stepRet, stepLd, stepSt, stepCond, hp] at hs)

theorem own_usFinLd {r : Ret} {f : Fin} (hs : step cfg s e = .ok s') (ht : e.tid = some t) (hd : e.isData = false)
    (hp : s.pc t = .usFinLd r f) : s'.pc t = .usFinCas r f s.word ∧ s'.word = s.word := by
  own_cases e ht hd hs hp

theorem own_usFinCas {r : Ret} {f : Fin} {old : Word} (hs : step cfg s e = .ok s') (ht : e.tid = some t)
    (hd : e.isData = false) (hp : s.pc t = .usFinCas r f old) :
    (s.word = old ∧ s'.pc t = finPc r f.wake) ∨ (s.word ≠ old ∧ s'.pc t = .usFinLd r f ∧ s'.word = s.word) := by
  cases e <;> simp only [Event.tid, Option.some.injEq, reduceCtorEq] at ht
  all_goals subst ht
  case cas t o loc exp new obs ok =>
    simp only [step, stepCas, hp] at hs
    rcases casWord_ok hs with ⟨h, _, rfl⟩ | ⟨h, _, rfl⟩
    · left; refine ⟨h, ?_⟩; rw [afterFin_eq]; split <;> simp
    · right; exact ⟨h, by simp, by simp⟩
  all_goals first
    | (simp [Event.isData] at hd; done)
    | (simp [step, stepCall, stepRet, stepLd, stepSt, stepCond, hp] at hs)

theorem finPc_not_spinS (r : Ret) (l : List Wid) : (finPc r l).spinS = false := by
  cases l <;> cases r <;> rfl

theorem own_usRelLd {r : Ret} {sc : Scan} (hs : step cfg s e = .ok s') (ht : e.tid = some t) (hd : e.isData = false)
    (hp : s.pc t = .usRelLd r sc) : s'.pc t = .usRelCas r sc s.word ∧ s'.word = s.word := by
  own_cases e ht hd hs hp

theorem ScanPc.spinS_tc {r : Ret} {late : Bool} {p : PC} (h : ScanPc r late p) :
    p.spinS = true → (∃ f, p = .usFinLd r f) ∨ (∃ sc, p = .usRelLd r sc) := by
  cases p <;> simp [ScanPc] at h <;> simp [PC.spinS]
  · exact h.1
  · exact h.1

theorem own_mtLdW {c : MW} {old : Word} (hs : step cfg s e = .ok s') (ht : e.tid = some t) (hd : e.isData = false)
    (hp : s.pc t = .mtLdW c old) : s'.pc t = .mtLdRc c old ∨ s'.pc t = .mtStRel c old false := by
  own_cases e ht hd hs hp

theorem own_mtLdRc {c : MW} {old : Word} (hs : step cfg s e = .ok s') (ht : e.tid = some t) (hd : e.isData = false)
    (hp : s.pc t = .mtLdRc c old) : s'.pc t = .mtRmLd c old ∨ s'.pc t = .mtStRel c old false := by
  own_cases e ht hd hs hp

theorem own_mtRmLd {c : MW} {old : Word} (hs : step cfg s e = .ok s') (ht : e.tid = some t) (hd : e.isData = false)
    (hp : s.pc t = .mtRmLd c old) : ∃ rc, s'.pc t = .mtRmCas c old rc := by
  own_cases e ht hd hs hp

theorem own_mtRmCas {c : MW} {old : Word} {rc : Nat} (hs : step cfg s e = .ok s') (ht : e.tid = some t)
    (hd : e.isData = false) (hp : s.pc t = .mtRmCas c old rc) :
    s'.pc t = .mtStW c old ∨ (s'.pc t = .mtRmLd c old ∧ e.rcFail = true) := by
  cases e <;> simp only [Event.tid, Option.some.injEq, reduceCtorEq] at ht
  all_goals subst ht
  case cas t o loc exp new obs ok =>
    simp only [step, stepCas, hp] at hs
    repeat' split at hs
    all_goals first
      | (cases hs; done)
      | (cases hs; simp; done)
      | (cases hs; simp_all [Event.rcFail])
  all_goals first
    | (simp [Event.isData] at hd; done)
    | (simp [step, stepCall, stepRet, stepLd, stepSt, stepCond, hp] at hs)

theorem own_mtStW {c : MW} {old : Word} (hs : step cfg s e = .ok s') (ht : e.tid = some t) (hd : e.isData = false)
    (hp : s.pc t = .mtStW c old) : s'.pc t = .mtStRel c old true := by
  own_cases e ht hd hs hp

theorem own_mtStRel {c : MW} {old : Word} {ok : Bool} (hs : step cfg s e = .ok s') (ht : e.tid = some t)
    (hd : e.isData = false) (hp : s.pc t = .mtStRel c old ok) : ∃ c', s'.pc t = .mwLd255 c' := by
  own_cases e ht hd hs hp

end NsyncVerif.MuC
