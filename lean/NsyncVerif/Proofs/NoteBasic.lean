/-
  Layer `Note`: basic facts about the acceptor (induction over reachable states, and the projections
  of every primitive state update, field by field).  The projection lemmas are generated
  mechanically (one per primitive and field); they are all proved by unfolding.
-/
import NsyncVerif.Model.Note

set_option linter.unusedSimpArgs false

namespace Note

theorem run_append (s : State) (a b : List Event) :
    run s (a ++ b) = match run s a with | .ok s' => run s' b | .error m => .error m := by
  induction a generalizing s with
  | nil => simp [run]
  | cons e es ih =>
    simp only [List.cons_append, run]
    cases step s e with
    | ok s' => simp [ih]
    | error m => simp

theorem Reachable.start : Reachable Note.init := ⟨[], rfl⟩

theorem Reachable.next {s s' : State} {e : Event} (h : Reachable s) (hs : step s e = .ok s') :
    Reachable s' := by
  obtain ⟨evs, h⟩ := h
  refine ⟨evs ++ [e], ?_⟩
  rw [run_append, h]
  simp [run, hs]

theorem Reachable.many {s s' : State} {evs : List Event} (h : Reachable s)
    (hr : run s evs = .ok s') : Reachable s' := by
  induction evs generalizing s with
  | nil => simp [Note.run] at hr; exact hr ▸ h
  | cons e es ih =>
    simp only [Note.run] at hr
    cases hs : Note.step s e with
    | ok s1 => rw [hs] at hr; exact ih (h.next hs) hr
    | error m => rw [hs] at hr; simp at hr

/-- Induction over reachable states. -/
theorem Reachable.induction {P : State → Prop} (h0 : P Note.init)
    (hstep : ∀ s e s', Reachable s → P s → step s e = .ok s' → P s') :
    ∀ s, Reachable s → P s := by
  intro s ⟨evs, h⟩
  suffices ∀ (evs : List Event) (s0 : State), Reachable s0 → P s0 → ∀ s, run s0 evs = .ok s → P s from
    this evs Note.init Reachable.start h0 s h
  intro evs
  induction evs with
  | nil => intro s0 _ hp s h; simp [run] at h; exact h ▸ hp
  | cons e es ih =>
    intro s0 hr hp s h
    simp only [run] at h
    cases hs : step s0 e with
    | ok s1 => rw [hs] at h; exact ih s1 (hr.next hs) (hstep s0 e s1 hr hp hs) s h
    | error m => rw [hs] at h; simp at h

/-- `need` succeeds iff the condition holds and the continuation succeeds. -/
@[simp] theorem need_ok {c : Prop} [Decidable c] {msg : String} {k : Except String State}
    {s' : State} : need c msg k = .ok s' ↔ c ∧ k = .ok s' := by
  unfold need; split <;> simp [*]

theorem upd_ne {β : Type} (f : Nat → β) {a x : Nat} (b : β) (h : x ≠ a) : upd f a b x = f x := by
  simp [upd, h]


/-! ### State fields left alone by each primitive -/

@[simp] theorem setPc_notes (s : State) (t : Tid) (p : PC) : (s.setPc t p).notes = s.notes := rfl
@[simp] theorem setPc_recs (s : State) (t : Tid) (p : PC) : (s.setPc t p).recs = s.recs := rfl
@[simp] theorem setPc_now (s : State) (t : Tid) (p : PC) : (s.setPc t p).now = s.now := rfl
@[simp] theorem setPc_pc (s : State) (t : Tid) (p : PC) :
    (s.setPc t p).pc = upd s.pc t p := rfl
@[simp] theorem setPc_users (s : State) (t : Tid) (p : PC) : (s.setPc t p).users = s.users := rfl
@[simp] theorem setPc_freeing (s : State) (t : Tid) (p : PC) : (s.setPc t p).freeing = s.freeing := rfl
@[simp] theorem setPc_published (s : State) (t : Tid) (p : PC) : (s.setPc t p).published = s.published := rfl
@[simp] theorem setPc_notifyCalled (s : State) (t : Tid) (p : PC) : (s.setPc t p).notifyCalled = s.notifyCalled := rfl
@[simp] theorem setPc_ownDl (s : State) (t : Tid) (p : PC) : (s.setPc t p).ownDl = s.ownDl := rfl
@[simp] theorem setPc_cparent (s : State) (t : Tid) (p : PC) : (s.setPc t p).cparent = s.cparent := rfl
@[simp] theorem setPc_ancEver (s : State) (t : Tid) (p : PC) : (s.setPc t p).ancEver = s.ancEver := rfl
@[simp] theorem setPc_pathMin (s : State) (t : Tid) (p : PC) : (s.setPc t p).pathMin = s.pathMin := rfl
@[simp] theorem setPc_bornNotified (s : State) (t : Tid) (p : PC) : (s.setPc t p).bornNotified = s.bornNotified := rfl
@[simp] theorem setPc_after (s : State) (t : Tid) (p : PC) : (s.setPc t p).after = s.after := rfl
@[simp] theorem setPc_observed (s : State) (t : Tid) (p : PC) : (s.setPc t p).observed = s.observed := rfl
@[simp] theorem modNote_notes (s : State) (k : NoteId) (f : NoteRec → NoteRec) :
    (s.modNote k f).notes = upd s.notes k (f (s.notes k)) := rfl
@[simp] theorem modNote_recs (s : State) (k : NoteId) (f : NoteRec → NoteRec) : (s.modNote k f).recs = s.recs := rfl
@[simp] theorem modNote_now (s : State) (k : NoteId) (f : NoteRec → NoteRec) : (s.modNote k f).now = s.now := rfl
@[simp] theorem modNote_pc (s : State) (k : NoteId) (f : NoteRec → NoteRec) : (s.modNote k f).pc = s.pc := rfl
@[simp] theorem modNote_users (s : State) (k : NoteId) (f : NoteRec → NoteRec) : (s.modNote k f).users = s.users := rfl
@[simp] theorem modNote_freeing (s : State) (k : NoteId) (f : NoteRec → NoteRec) : (s.modNote k f).freeing = s.freeing := rfl
@[simp] theorem modNote_published (s : State) (k : NoteId) (f : NoteRec → NoteRec) : (s.modNote k f).published = s.published := rfl
@[simp] theorem modNote_notifyCalled (s : State) (k : NoteId) (f : NoteRec → NoteRec) : (s.modNote k f).notifyCalled = s.notifyCalled := rfl
@[simp] theorem modNote_ownDl (s : State) (k : NoteId) (f : NoteRec → NoteRec) : (s.modNote k f).ownDl = s.ownDl := rfl
@[simp] theorem modNote_cparent (s : State) (k : NoteId) (f : NoteRec → NoteRec) : (s.modNote k f).cparent = s.cparent := rfl
@[simp] theorem modNote_ancEver (s : State) (k : NoteId) (f : NoteRec → NoteRec) : (s.modNote k f).ancEver = s.ancEver := rfl
@[simp] theorem modNote_pathMin (s : State) (k : NoteId) (f : NoteRec → NoteRec) : (s.modNote k f).pathMin = s.pathMin := rfl
@[simp] theorem modNote_bornNotified (s : State) (k : NoteId) (f : NoteRec → NoteRec) : (s.modNote k f).bornNotified = s.bornNotified := rfl
@[simp] theorem modNote_after (s : State) (k : NoteId) (f : NoteRec → NoteRec) : (s.modNote k f).after = s.after := rfl
@[simp] theorem modNote_observed (s : State) (k : NoteId) (f : NoteRec → NoteRec) : (s.modNote k f).observed = s.observed := rfl
@[simp] theorem modRec_notes (s : State) (r : Rid) (f : WRec → WRec) : (s.modRec r f).notes = s.notes := rfl
@[simp] theorem modRec_recs (s : State) (r : Rid) (f : WRec → WRec) :
    (s.modRec r f).recs = upd s.recs r (f (s.recs r)) := rfl
@[simp] theorem modRec_now (s : State) (r : Rid) (f : WRec → WRec) : (s.modRec r f).now = s.now := rfl
@[simp] theorem modRec_pc (s : State) (r : Rid) (f : WRec → WRec) : (s.modRec r f).pc = s.pc := rfl
@[simp] theorem modRec_users (s : State) (r : Rid) (f : WRec → WRec) : (s.modRec r f).users = s.users := rfl
@[simp] theorem modRec_freeing (s : State) (r : Rid) (f : WRec → WRec) : (s.modRec r f).freeing = s.freeing := rfl
@[simp] theorem modRec_published (s : State) (r : Rid) (f : WRec → WRec) : (s.modRec r f).published = s.published := rfl
@[simp] theorem modRec_notifyCalled (s : State) (r : Rid) (f : WRec → WRec) : (s.modRec r f).notifyCalled = s.notifyCalled := rfl
@[simp] theorem modRec_ownDl (s : State) (r : Rid) (f : WRec → WRec) : (s.modRec r f).ownDl = s.ownDl := rfl
@[simp] theorem modRec_cparent (s : State) (r : Rid) (f : WRec → WRec) : (s.modRec r f).cparent = s.cparent := rfl
@[simp] theorem modRec_ancEver (s : State) (r : Rid) (f : WRec → WRec) : (s.modRec r f).ancEver = s.ancEver := rfl
@[simp] theorem modRec_pathMin (s : State) (r : Rid) (f : WRec → WRec) : (s.modRec r f).pathMin = s.pathMin := rfl
@[simp] theorem modRec_bornNotified (s : State) (r : Rid) (f : WRec → WRec) : (s.modRec r f).bornNotified = s.bornNotified := rfl
@[simp] theorem modRec_after (s : State) (r : Rid) (f : WRec → WRec) : (s.modRec r f).after = s.after := rfl
@[simp] theorem modRec_observed (s : State) (r : Rid) (f : WRec → WRec) : (s.modRec r f).observed = s.observed := rfl
@[simp] theorem addUser_notes (s : State) (n : NoteId) (t : Tid) : (s.addUser n t).notes = s.notes := rfl
@[simp] theorem addUser_recs (s : State) (n : NoteId) (t : Tid) : (s.addUser n t).recs = s.recs := rfl
@[simp] theorem addUser_now (s : State) (n : NoteId) (t : Tid) : (s.addUser n t).now = s.now := rfl
@[simp] theorem addUser_pc (s : State) (n : NoteId) (t : Tid) : (s.addUser n t).pc = s.pc := rfl
@[simp] theorem addUser_users (s : State) (n : NoteId) (t : Tid) :
    (s.addUser n t).users = upd s.users n (t :: s.users n) := rfl
@[simp] theorem addUser_freeing (s : State) (n : NoteId) (t : Tid) : (s.addUser n t).freeing = s.freeing := rfl
@[simp] theorem addUser_published (s : State) (n : NoteId) (t : Tid) : (s.addUser n t).published = s.published := rfl
@[simp] theorem addUser_notifyCalled (s : State) (n : NoteId) (t : Tid) : (s.addUser n t).notifyCalled = s.notifyCalled := rfl
@[simp] theorem addUser_ownDl (s : State) (n : NoteId) (t : Tid) : (s.addUser n t).ownDl = s.ownDl := rfl
@[simp] theorem addUser_cparent (s : State) (n : NoteId) (t : Tid) : (s.addUser n t).cparent = s.cparent := rfl
@[simp] theorem addUser_ancEver (s : State) (n : NoteId) (t : Tid) : (s.addUser n t).ancEver = s.ancEver := rfl
@[simp] theorem addUser_pathMin (s : State) (n : NoteId) (t : Tid) : (s.addUser n t).pathMin = s.pathMin := rfl
@[simp] theorem addUser_bornNotified (s : State) (n : NoteId) (t : Tid) : (s.addUser n t).bornNotified = s.bornNotified := rfl
@[simp] theorem addUser_after (s : State) (n : NoteId) (t : Tid) : (s.addUser n t).after = s.after := rfl
@[simp] theorem addUser_observed (s : State) (n : NoteId) (t : Tid) : (s.addUser n t).observed = s.observed := rfl
@[simp] theorem delUser_notes (s : State) (n : NoteId) (t : Tid) : (s.delUser n t).notes = s.notes := rfl
@[simp] theorem delUser_recs (s : State) (n : NoteId) (t : Tid) : (s.delUser n t).recs = s.recs := rfl
@[simp] theorem delUser_now (s : State) (n : NoteId) (t : Tid) : (s.delUser n t).now = s.now := rfl
@[simp] theorem delUser_pc (s : State) (n : NoteId) (t : Tid) : (s.delUser n t).pc = s.pc := rfl
@[simp] theorem delUser_users (s : State) (n : NoteId) (t : Tid) :
    (s.delUser n t).users = upd s.users n ((s.users n).erase t) := rfl
@[simp] theorem delUser_freeing (s : State) (n : NoteId) (t : Tid) : (s.delUser n t).freeing = s.freeing := rfl
@[simp] theorem delUser_published (s : State) (n : NoteId) (t : Tid) : (s.delUser n t).published = s.published := rfl
@[simp] theorem delUser_notifyCalled (s : State) (n : NoteId) (t : Tid) : (s.delUser n t).notifyCalled = s.notifyCalled := rfl
@[simp] theorem delUser_ownDl (s : State) (n : NoteId) (t : Tid) : (s.delUser n t).ownDl = s.ownDl := rfl
@[simp] theorem delUser_cparent (s : State) (n : NoteId) (t : Tid) : (s.delUser n t).cparent = s.cparent := rfl
@[simp] theorem delUser_ancEver (s : State) (n : NoteId) (t : Tid) : (s.delUser n t).ancEver = s.ancEver := rfl
@[simp] theorem delUser_pathMin (s : State) (n : NoteId) (t : Tid) : (s.delUser n t).pathMin = s.pathMin := rfl
@[simp] theorem delUser_bornNotified (s : State) (n : NoteId) (t : Tid) : (s.delUser n t).bornNotified = s.bornNotified := rfl
@[simp] theorem delUser_after (s : State) (n : NoteId) (t : Tid) : (s.delUser n t).after = s.after := rfl
@[simp] theorem delUser_observed (s : State) (n : NoteId) (t : Tid) : (s.delUser n t).observed = s.observed := rfl
@[simp] theorem markFreeing_notes (s : State) (n : NoteId) : (s.markFreeing n).notes = s.notes := rfl
@[simp] theorem markFreeing_recs (s : State) (n : NoteId) : (s.markFreeing n).recs = s.recs := rfl
@[simp] theorem markFreeing_now (s : State) (n : NoteId) : (s.markFreeing n).now = s.now := rfl
@[simp] theorem markFreeing_pc (s : State) (n : NoteId) : (s.markFreeing n).pc = s.pc := rfl
@[simp] theorem markFreeing_users (s : State) (n : NoteId) : (s.markFreeing n).users = s.users := rfl
@[simp] theorem markFreeing_freeing (s : State) (n : NoteId) :
    (s.markFreeing n).freeing = upd s.freeing n true := rfl
@[simp] theorem markFreeing_published (s : State) (n : NoteId) : (s.markFreeing n).published = s.published := rfl
@[simp] theorem markFreeing_notifyCalled (s : State) (n : NoteId) : (s.markFreeing n).notifyCalled = s.notifyCalled := rfl
@[simp] theorem markFreeing_ownDl (s : State) (n : NoteId) : (s.markFreeing n).ownDl = s.ownDl := rfl
@[simp] theorem markFreeing_cparent (s : State) (n : NoteId) : (s.markFreeing n).cparent = s.cparent := rfl
@[simp] theorem markFreeing_ancEver (s : State) (n : NoteId) : (s.markFreeing n).ancEver = s.ancEver := rfl
@[simp] theorem markFreeing_pathMin (s : State) (n : NoteId) : (s.markFreeing n).pathMin = s.pathMin := rfl
@[simp] theorem markFreeing_bornNotified (s : State) (n : NoteId) : (s.markFreeing n).bornNotified = s.bornNotified := rfl
@[simp] theorem markFreeing_after (s : State) (n : NoteId) : (s.markFreeing n).after = s.after := rfl
@[simp] theorem markFreeing_observed (s : State) (n : NoteId) : (s.markFreeing n).observed = s.observed := rfl
@[simp] theorem markCalled_notes (s : State) (n : NoteId) : (s.markCalled n).notes = s.notes := rfl
@[simp] theorem markCalled_recs (s : State) (n : NoteId) : (s.markCalled n).recs = s.recs := rfl
@[simp] theorem markCalled_now (s : State) (n : NoteId) : (s.markCalled n).now = s.now := rfl
@[simp] theorem markCalled_pc (s : State) (n : NoteId) : (s.markCalled n).pc = s.pc := rfl
@[simp] theorem markCalled_users (s : State) (n : NoteId) : (s.markCalled n).users = s.users := rfl
@[simp] theorem markCalled_freeing (s : State) (n : NoteId) : (s.markCalled n).freeing = s.freeing := rfl
@[simp] theorem markCalled_published (s : State) (n : NoteId) : (s.markCalled n).published = s.published := rfl
@[simp] theorem markCalled_notifyCalled (s : State) (n : NoteId) :
    (s.markCalled n).notifyCalled = upd s.notifyCalled n true := rfl
@[simp] theorem markCalled_ownDl (s : State) (n : NoteId) : (s.markCalled n).ownDl = s.ownDl := rfl
@[simp] theorem markCalled_cparent (s : State) (n : NoteId) : (s.markCalled n).cparent = s.cparent := rfl
@[simp] theorem markCalled_ancEver (s : State) (n : NoteId) : (s.markCalled n).ancEver = s.ancEver := rfl
@[simp] theorem markCalled_pathMin (s : State) (n : NoteId) : (s.markCalled n).pathMin = s.pathMin := rfl
@[simp] theorem markCalled_bornNotified (s : State) (n : NoteId) : (s.markCalled n).bornNotified = s.bornNotified := rfl
@[simp] theorem markCalled_after (s : State) (n : NoteId) : (s.markCalled n).after = s.after := rfl
@[simp] theorem markCalled_observed (s : State) (n : NoteId) : (s.markCalled n).observed = s.observed := rfl
@[simp] theorem markBorn_notes (s : State) (n : NoteId) : (s.markBorn n).notes = s.notes := rfl
@[simp] theorem markBorn_recs (s : State) (n : NoteId) : (s.markBorn n).recs = s.recs := rfl
@[simp] theorem markBorn_now (s : State) (n : NoteId) : (s.markBorn n).now = s.now := rfl
@[simp] theorem markBorn_pc (s : State) (n : NoteId) : (s.markBorn n).pc = s.pc := rfl
@[simp] theorem markBorn_users (s : State) (n : NoteId) : (s.markBorn n).users = s.users := rfl
@[simp] theorem markBorn_freeing (s : State) (n : NoteId) : (s.markBorn n).freeing = s.freeing := rfl
@[simp] theorem markBorn_published (s : State) (n : NoteId) : (s.markBorn n).published = s.published := rfl
@[simp] theorem markBorn_notifyCalled (s : State) (n : NoteId) : (s.markBorn n).notifyCalled = s.notifyCalled := rfl
@[simp] theorem markBorn_ownDl (s : State) (n : NoteId) : (s.markBorn n).ownDl = s.ownDl := rfl
@[simp] theorem markBorn_cparent (s : State) (n : NoteId) : (s.markBorn n).cparent = s.cparent := rfl
@[simp] theorem markBorn_ancEver (s : State) (n : NoteId) : (s.markBorn n).ancEver = s.ancEver := rfl
@[simp] theorem markBorn_pathMin (s : State) (n : NoteId) : (s.markBorn n).pathMin = s.pathMin := rfl
@[simp] theorem markBorn_bornNotified (s : State) (n : NoteId) :
    (s.markBorn n).bornNotified = upd s.bornNotified n true := rfl
@[simp] theorem markBorn_after (s : State) (n : NoteId) : (s.markBorn n).after = s.after := rfl
@[simp] theorem markBorn_observed (s : State) (n : NoteId) : (s.markBorn n).observed = s.observed := rfl
@[simp] theorem publish_notes (s : State) (n : NoteId) : (s.publish n).notes = s.notes := rfl
@[simp] theorem publish_recs (s : State) (n : NoteId) : (s.publish n).recs = s.recs := rfl
@[simp] theorem publish_now (s : State) (n : NoteId) : (s.publish n).now = s.now := rfl
@[simp] theorem publish_pc (s : State) (n : NoteId) : (s.publish n).pc = s.pc := rfl
@[simp] theorem publish_users (s : State) (n : NoteId) : (s.publish n).users = s.users := rfl
@[simp] theorem publish_freeing (s : State) (n : NoteId) : (s.publish n).freeing = s.freeing := rfl
@[simp] theorem publish_published (s : State) (n : NoteId) :
    (s.publish n).published = upd s.published n true := rfl
@[simp] theorem publish_notifyCalled (s : State) (n : NoteId) : (s.publish n).notifyCalled = s.notifyCalled := rfl
@[simp] theorem publish_ownDl (s : State) (n : NoteId) : (s.publish n).ownDl = s.ownDl := rfl
@[simp] theorem publish_cparent (s : State) (n : NoteId) : (s.publish n).cparent = s.cparent := rfl
@[simp] theorem publish_ancEver (s : State) (n : NoteId) : (s.publish n).ancEver = s.ancEver := rfl
@[simp] theorem publish_pathMin (s : State) (n : NoteId) : (s.publish n).pathMin = s.pathMin := rfl
@[simp] theorem publish_bornNotified (s : State) (n : NoteId) : (s.publish n).bornNotified = s.bornNotified := rfl
@[simp] theorem publish_after (s : State) (n : NoteId) : (s.publish n).after = s.after := rfl
@[simp] theorem publish_observed (s : State) (n : NoteId) : (s.publish n).observed = s.observed := rfl
@[simp] theorem setAfter_notes (s : State) (t : Tid) (b : Bool) : (s.setAfter t b).notes = s.notes := rfl
@[simp] theorem setAfter_recs (s : State) (t : Tid) (b : Bool) : (s.setAfter t b).recs = s.recs := rfl
@[simp] theorem setAfter_now (s : State) (t : Tid) (b : Bool) : (s.setAfter t b).now = s.now := rfl
@[simp] theorem setAfter_pc (s : State) (t : Tid) (b : Bool) : (s.setAfter t b).pc = s.pc := rfl
@[simp] theorem setAfter_users (s : State) (t : Tid) (b : Bool) : (s.setAfter t b).users = s.users := rfl
@[simp] theorem setAfter_freeing (s : State) (t : Tid) (b : Bool) : (s.setAfter t b).freeing = s.freeing := rfl
@[simp] theorem setAfter_published (s : State) (t : Tid) (b : Bool) : (s.setAfter t b).published = s.published := rfl
@[simp] theorem setAfter_notifyCalled (s : State) (t : Tid) (b : Bool) : (s.setAfter t b).notifyCalled = s.notifyCalled := rfl
@[simp] theorem setAfter_ownDl (s : State) (t : Tid) (b : Bool) : (s.setAfter t b).ownDl = s.ownDl := rfl
@[simp] theorem setAfter_cparent (s : State) (t : Tid) (b : Bool) : (s.setAfter t b).cparent = s.cparent := rfl
@[simp] theorem setAfter_ancEver (s : State) (t : Tid) (b : Bool) : (s.setAfter t b).ancEver = s.ancEver := rfl
@[simp] theorem setAfter_pathMin (s : State) (t : Tid) (b : Bool) : (s.setAfter t b).pathMin = s.pathMin := rfl
@[simp] theorem setAfter_bornNotified (s : State) (t : Tid) (b : Bool) : (s.setAfter t b).bornNotified = s.bornNotified := rfl
@[simp] theorem setAfter_after (s : State) (t : Tid) (b : Bool) :
    (s.setAfter t b).after = upd s.after t b := rfl
@[simp] theorem setAfter_observed (s : State) (t : Tid) (b : Bool) : (s.setAfter t b).observed = s.observed := rfl
@[simp] theorem pushObs_notes (s : State) (o : Obs) : (s.pushObs o).notes = s.notes := rfl
@[simp] theorem pushObs_recs (s : State) (o : Obs) : (s.pushObs o).recs = s.recs := rfl
@[simp] theorem pushObs_now (s : State) (o : Obs) : (s.pushObs o).now = s.now := rfl
@[simp] theorem pushObs_pc (s : State) (o : Obs) : (s.pushObs o).pc = s.pc := rfl
@[simp] theorem pushObs_users (s : State) (o : Obs) : (s.pushObs o).users = s.users := rfl
@[simp] theorem pushObs_freeing (s : State) (o : Obs) : (s.pushObs o).freeing = s.freeing := rfl
@[simp] theorem pushObs_published (s : State) (o : Obs) : (s.pushObs o).published = s.published := rfl
@[simp] theorem pushObs_notifyCalled (s : State) (o : Obs) : (s.pushObs o).notifyCalled = s.notifyCalled := rfl
@[simp] theorem pushObs_ownDl (s : State) (o : Obs) : (s.pushObs o).ownDl = s.ownDl := rfl
@[simp] theorem pushObs_cparent (s : State) (o : Obs) : (s.pushObs o).cparent = s.cparent := rfl
@[simp] theorem pushObs_ancEver (s : State) (o : Obs) : (s.pushObs o).ancEver = s.ancEver := rfl
@[simp] theorem pushObs_pathMin (s : State) (o : Obs) : (s.pushObs o).pathMin = s.pathMin := rfl
@[simp] theorem pushObs_bornNotified (s : State) (o : Obs) : (s.pushObs o).bornNotified = s.bornNotified := rfl
@[simp] theorem pushObs_after (s : State) (o : Obs) : (s.pushObs o).after = s.after := rfl
@[simp] theorem pushObs_observed (s : State) (o : Obs) :
    (s.pushObs o).observed = o :: s.observed := rfl
@[simp] theorem setNow_notes (s : State) (v : Nat) : (s.setNow v).notes = s.notes := rfl
@[simp] theorem setNow_recs (s : State) (v : Nat) : (s.setNow v).recs = s.recs := rfl
@[simp] theorem setNow_now (s : State) (v : Nat) :
    (s.setNow v).now = v := rfl
@[simp] theorem setNow_pc (s : State) (v : Nat) : (s.setNow v).pc = s.pc := rfl
@[simp] theorem setNow_users (s : State) (v : Nat) : (s.setNow v).users = s.users := rfl
@[simp] theorem setNow_freeing (s : State) (v : Nat) : (s.setNow v).freeing = s.freeing := rfl
@[simp] theorem setNow_published (s : State) (v : Nat) : (s.setNow v).published = s.published := rfl
@[simp] theorem setNow_notifyCalled (s : State) (v : Nat) : (s.setNow v).notifyCalled = s.notifyCalled := rfl
@[simp] theorem setNow_ownDl (s : State) (v : Nat) : (s.setNow v).ownDl = s.ownDl := rfl
@[simp] theorem setNow_cparent (s : State) (v : Nat) : (s.setNow v).cparent = s.cparent := rfl
@[simp] theorem setNow_ancEver (s : State) (v : Nat) : (s.setNow v).ancEver = s.ancEver := rfl
@[simp] theorem setNow_pathMin (s : State) (v : Nat) : (s.setNow v).pathMin = s.pathMin := rfl
@[simp] theorem setNow_bornNotified (s : State) (v : Nat) : (s.setNow v).bornNotified = s.bornNotified := rfl
@[simp] theorem setNow_after (s : State) (v : Nat) : (s.setNow v).after = s.after := rfl
@[simp] theorem setNow_observed (s : State) (v : Nat) : (s.setNow v).observed = s.observed := rfl
@[simp] theorem allocNote_notes (s : State) (k : NoteId) (par : Option NoteId) (dl : Dl) :
    (s.allocNote k par dl).notes = upd s.notes k { NoteRec.blank with expiry := dl, allocated := true } := rfl
@[simp] theorem allocNote_recs (s : State) (k : NoteId) (par : Option NoteId) (dl : Dl) : (s.allocNote k par dl).recs = s.recs := rfl
@[simp] theorem allocNote_now (s : State) (k : NoteId) (par : Option NoteId) (dl : Dl) : (s.allocNote k par dl).now = s.now := rfl
@[simp] theorem allocNote_pc (s : State) (k : NoteId) (par : Option NoteId) (dl : Dl) : (s.allocNote k par dl).pc = s.pc := rfl
@[simp] theorem allocNote_users (s : State) (k : NoteId) (par : Option NoteId) (dl : Dl) : (s.allocNote k par dl).users = s.users := rfl
@[simp] theorem allocNote_freeing (s : State) (k : NoteId) (par : Option NoteId) (dl : Dl) : (s.allocNote k par dl).freeing = s.freeing := rfl
@[simp] theorem allocNote_published (s : State) (k : NoteId) (par : Option NoteId) (dl : Dl) : (s.allocNote k par dl).published = s.published := rfl
@[simp] theorem allocNote_notifyCalled (s : State) (k : NoteId) (par : Option NoteId) (dl : Dl) : (s.allocNote k par dl).notifyCalled = s.notifyCalled := rfl
@[simp] theorem allocNote_ownDl (s : State) (k : NoteId) (par : Option NoteId) (dl : Dl) :
    (s.allocNote k par dl).ownDl = upd s.ownDl k dl := rfl
@[simp] theorem allocNote_cparent (s : State) (k : NoteId) (par : Option NoteId) (dl : Dl) :
    (s.allocNote k par dl).cparent = upd s.cparent k par := rfl
@[simp] theorem allocNote_ancEver (s : State) (k : NoteId) (par : Option NoteId) (dl : Dl) :
    (s.allocNote k par dl).ancEver = upd s.ancEver k (k :: s.ancOf par) := rfl
@[simp] theorem allocNote_pathMin (s : State) (k : NoteId) (par : Option NoteId) (dl : Dl) :
    (s.allocNote k par dl).pathMin = upd s.pathMin k (s.minOf dl par) := rfl
@[simp] theorem allocNote_bornNotified (s : State) (k : NoteId) (par : Option NoteId) (dl : Dl) : (s.allocNote k par dl).bornNotified = s.bornNotified := rfl
@[simp] theorem allocNote_after (s : State) (k : NoteId) (par : Option NoteId) (dl : Dl) : (s.allocNote k par dl).after = s.after := rfl
@[simp] theorem allocNote_observed (s : State) (k : NoteId) (par : Option NoteId) (dl : Dl) : (s.allocNote k par dl).observed = s.observed := rfl

/-! ### The note primitives, record field by record field -/

@[simp] theorem acquire_recs (s : State) (k : NoteId) (t : Tid) : (s.acquire k t).recs = s.recs := rfl
@[simp] theorem acquire_now (s : State) (k : NoteId) (t : Tid) : (s.acquire k t).now = s.now := rfl
@[simp] theorem acquire_pc (s : State) (k : NoteId) (t : Tid) : (s.acquire k t).pc = s.pc := rfl
@[simp] theorem acquire_users (s : State) (k : NoteId) (t : Tid) : (s.acquire k t).users = s.users := rfl
@[simp] theorem acquire_freeing (s : State) (k : NoteId) (t : Tid) : (s.acquire k t).freeing = s.freeing := rfl
@[simp] theorem acquire_published (s : State) (k : NoteId) (t : Tid) : (s.acquire k t).published = s.published := rfl
@[simp] theorem acquire_notifyCalled (s : State) (k : NoteId) (t : Tid) : (s.acquire k t).notifyCalled = s.notifyCalled := rfl
@[simp] theorem acquire_ownDl (s : State) (k : NoteId) (t : Tid) : (s.acquire k t).ownDl = s.ownDl := rfl
@[simp] theorem acquire_cparent (s : State) (k : NoteId) (t : Tid) : (s.acquire k t).cparent = s.cparent := rfl
@[simp] theorem acquire_ancEver (s : State) (k : NoteId) (t : Tid) : (s.acquire k t).ancEver = s.ancEver := rfl
@[simp] theorem acquire_pathMin (s : State) (k : NoteId) (t : Tid) : (s.acquire k t).pathMin = s.pathMin := rfl
@[simp] theorem acquire_bornNotified (s : State) (k : NoteId) (t : Tid) : (s.acquire k t).bornNotified = s.bornNotified := rfl
@[simp] theorem acquire_after (s : State) (k : NoteId) (t : Tid) : (s.acquire k t).after = s.after := rfl
@[simp] theorem acquire_observed (s : State) (k : NoteId) (t : Tid) : (s.acquire k t).observed = s.observed := rfl
@[simp] theorem acquire_f_parent (s : State) (k : NoteId) (t : Tid) (j : NoteId) :
    ((s.acquire k t).notes j).parent = (s.notes j).parent := by
  simp only [State.acquire, State.release, State.incDisc, State.decDisc, State.setWaiters, State.setAdopted, State.setExpiry, State.setNotified, State.markFreed, State.eraseChild, State.clearParent, State.link, State.unlink, modNote_notes, upd_apply]; (repeat' split) <;> simp_all
@[simp] theorem acquire_f_children (s : State) (k : NoteId) (t : Tid) (j : NoteId) :
    ((s.acquire k t).notes j).children = (s.notes j).children := by
  simp only [State.acquire, State.release, State.incDisc, State.decDisc, State.setWaiters, State.setAdopted, State.setExpiry, State.setNotified, State.markFreed, State.eraseChild, State.clearParent, State.link, State.unlink, modNote_notes, upd_apply]; (repeat' split) <;> simp_all
@[simp] theorem acquire_f_notified (s : State) (k : NoteId) (t : Tid) (j : NoteId) :
    ((s.acquire k t).notes j).notified = (s.notes j).notified := by
  simp only [State.acquire, State.release, State.incDisc, State.decDisc, State.setWaiters, State.setAdopted, State.setExpiry, State.setNotified, State.markFreed, State.eraseChild, State.clearParent, State.link, State.unlink, modNote_notes, upd_apply]; (repeat' split) <;> simp_all
@[simp] theorem acquire_f_expiry (s : State) (k : NoteId) (t : Tid) (j : NoteId) :
    ((s.acquire k t).notes j).expiry = (s.notes j).expiry := by
  simp only [State.acquire, State.release, State.incDisc, State.decDisc, State.setWaiters, State.setAdopted, State.setExpiry, State.setNotified, State.markFreed, State.eraseChild, State.clearParent, State.link, State.unlink, modNote_notes, upd_apply]; (repeat' split) <;> simp_all
@[simp] theorem acquire_f_disconnecting (s : State) (k : NoteId) (t : Tid) (j : NoteId) :
    ((s.acquire k t).notes j).disconnecting = (s.notes j).disconnecting := by
  simp only [State.acquire, State.release, State.incDisc, State.decDisc, State.setWaiters, State.setAdopted, State.setExpiry, State.setNotified, State.markFreed, State.eraseChild, State.clearParent, State.link, State.unlink, modNote_notes, upd_apply]; (repeat' split) <;> simp_all
@[simp] theorem acquire_f_waiters (s : State) (k : NoteId) (t : Tid) (j : NoteId) :
    ((s.acquire k t).notes j).waiters = (s.notes j).waiters := by
  simp only [State.acquire, State.release, State.incDisc, State.decDisc, State.setWaiters, State.setAdopted, State.setExpiry, State.setNotified, State.markFreed, State.eraseChild, State.clearParent, State.link, State.unlink, modNote_notes, upd_apply]; (repeat' split) <;> simp_all
@[simp] theorem acquire_f_lockHolder (s : State) (k : NoteId) (t : Tid) (j : NoteId) :
    ((s.acquire k t).notes j).lockHolder = if j = k then some t else (s.notes j).lockHolder := by
  simp only [State.acquire, State.release, State.incDisc, State.decDisc, State.setWaiters, State.setAdopted, State.setExpiry, State.setNotified, State.markFreed, State.eraseChild, State.clearParent, State.link, State.unlink, modNote_notes, upd_apply]; (repeat' split) <;> simp_all
@[simp] theorem acquire_f_allocated (s : State) (k : NoteId) (t : Tid) (j : NoteId) :
    ((s.acquire k t).notes j).allocated = (s.notes j).allocated := by
  simp only [State.acquire, State.release, State.incDisc, State.decDisc, State.setWaiters, State.setAdopted, State.setExpiry, State.setNotified, State.markFreed, State.eraseChild, State.clearParent, State.link, State.unlink, modNote_notes, upd_apply]; (repeat' split) <;> simp_all
@[simp] theorem acquire_f_freed (s : State) (k : NoteId) (t : Tid) (j : NoteId) :
    ((s.acquire k t).notes j).freed = (s.notes j).freed := by
  simp only [State.acquire, State.release, State.incDisc, State.decDisc, State.setWaiters, State.setAdopted, State.setExpiry, State.setNotified, State.markFreed, State.eraseChild, State.clearParent, State.link, State.unlink, modNote_notes, upd_apply]; (repeat' split) <;> simp_all
@[simp] theorem acquire_f_adopted (s : State) (k : NoteId) (t : Tid) (j : NoteId) :
    ((s.acquire k t).notes j).adopted = (s.notes j).adopted := by
  simp only [State.acquire, State.release, State.incDisc, State.decDisc, State.setWaiters, State.setAdopted, State.setExpiry, State.setNotified, State.markFreed, State.eraseChild, State.clearParent, State.link, State.unlink, modNote_notes, upd_apply]; (repeat' split) <;> simp_all
@[simp] theorem release_recs (s : State) (k : NoteId) : (s.release k).recs = s.recs := rfl
@[simp] theorem release_now (s : State) (k : NoteId) : (s.release k).now = s.now := rfl
@[simp] theorem release_pc (s : State) (k : NoteId) : (s.release k).pc = s.pc := rfl
@[simp] theorem release_users (s : State) (k : NoteId) : (s.release k).users = s.users := rfl
@[simp] theorem release_freeing (s : State) (k : NoteId) : (s.release k).freeing = s.freeing := rfl
@[simp] theorem release_published (s : State) (k : NoteId) : (s.release k).published = s.published := rfl
@[simp] theorem release_notifyCalled (s : State) (k : NoteId) : (s.release k).notifyCalled = s.notifyCalled := rfl
@[simp] theorem release_ownDl (s : State) (k : NoteId) : (s.release k).ownDl = s.ownDl := rfl
@[simp] theorem release_cparent (s : State) (k : NoteId) : (s.release k).cparent = s.cparent := rfl
@[simp] theorem release_ancEver (s : State) (k : NoteId) : (s.release k).ancEver = s.ancEver := rfl
@[simp] theorem release_pathMin (s : State) (k : NoteId) : (s.release k).pathMin = s.pathMin := rfl
@[simp] theorem release_bornNotified (s : State) (k : NoteId) : (s.release k).bornNotified = s.bornNotified := rfl
@[simp] theorem release_after (s : State) (k : NoteId) : (s.release k).after = s.after := rfl
@[simp] theorem release_observed (s : State) (k : NoteId) : (s.release k).observed = s.observed := rfl
@[simp] theorem release_f_parent (s : State) (k : NoteId) (j : NoteId) :
    ((s.release k).notes j).parent = (s.notes j).parent := by
  simp only [State.acquire, State.release, State.incDisc, State.decDisc, State.setWaiters, State.setAdopted, State.setExpiry, State.setNotified, State.markFreed, State.eraseChild, State.clearParent, State.link, State.unlink, modNote_notes, upd_apply]; (repeat' split) <;> simp_all
@[simp] theorem release_f_children (s : State) (k : NoteId) (j : NoteId) :
    ((s.release k).notes j).children = (s.notes j).children := by
  simp only [State.acquire, State.release, State.incDisc, State.decDisc, State.setWaiters, State.setAdopted, State.setExpiry, State.setNotified, State.markFreed, State.eraseChild, State.clearParent, State.link, State.unlink, modNote_notes, upd_apply]; (repeat' split) <;> simp_all
@[simp] theorem release_f_notified (s : State) (k : NoteId) (j : NoteId) :
    ((s.release k).notes j).notified = (s.notes j).notified := by
  simp only [State.acquire, State.release, State.incDisc, State.decDisc, State.setWaiters, State.setAdopted, State.setExpiry, State.setNotified, State.markFreed, State.eraseChild, State.clearParent, State.link, State.unlink, modNote_notes, upd_apply]; (repeat' split) <;> simp_all
@[simp] theorem release_f_expiry (s : State) (k : NoteId) (j : NoteId) :
    ((s.release k).notes j).expiry = (s.notes j).expiry := by
  simp only [State.acquire, State.release, State.incDisc, State.decDisc, State.setWaiters, State.setAdopted, State.setExpiry, State.setNotified, State.markFreed, State.eraseChild, State.clearParent, State.link, State.unlink, modNote_notes, upd_apply]; (repeat' split) <;> simp_all
@[simp] theorem release_f_disconnecting (s : State) (k : NoteId) (j : NoteId) :
    ((s.release k).notes j).disconnecting = (s.notes j).disconnecting := by
  simp only [State.acquire, State.release, State.incDisc, State.decDisc, State.setWaiters, State.setAdopted, State.setExpiry, State.setNotified, State.markFreed, State.eraseChild, State.clearParent, State.link, State.unlink, modNote_notes, upd_apply]; (repeat' split) <;> simp_all
@[simp] theorem release_f_waiters (s : State) (k : NoteId) (j : NoteId) :
    ((s.release k).notes j).waiters = (s.notes j).waiters := by
  simp only [State.acquire, State.release, State.incDisc, State.decDisc, State.setWaiters, State.setAdopted, State.setExpiry, State.setNotified, State.markFreed, State.eraseChild, State.clearParent, State.link, State.unlink, modNote_notes, upd_apply]; (repeat' split) <;> simp_all
@[simp] theorem release_f_lockHolder (s : State) (k : NoteId) (j : NoteId) :
    ((s.release k).notes j).lockHolder = if j = k then none else (s.notes j).lockHolder := by
  simp only [State.acquire, State.release, State.incDisc, State.decDisc, State.setWaiters, State.setAdopted, State.setExpiry, State.setNotified, State.markFreed, State.eraseChild, State.clearParent, State.link, State.unlink, modNote_notes, upd_apply]; (repeat' split) <;> simp_all
@[simp] theorem release_f_allocated (s : State) (k : NoteId) (j : NoteId) :
    ((s.release k).notes j).allocated = (s.notes j).allocated := by
  simp only [State.acquire, State.release, State.incDisc, State.decDisc, State.setWaiters, State.setAdopted, State.setExpiry, State.setNotified, State.markFreed, State.eraseChild, State.clearParent, State.link, State.unlink, modNote_notes, upd_apply]; (repeat' split) <;> simp_all
@[simp] theorem release_f_freed (s : State) (k : NoteId) (j : NoteId) :
    ((s.release k).notes j).freed = (s.notes j).freed := by
  simp only [State.acquire, State.release, State.incDisc, State.decDisc, State.setWaiters, State.setAdopted, State.setExpiry, State.setNotified, State.markFreed, State.eraseChild, State.clearParent, State.link, State.unlink, modNote_notes, upd_apply]; (repeat' split) <;> simp_all
@[simp] theorem release_f_adopted (s : State) (k : NoteId) (j : NoteId) :
    ((s.release k).notes j).adopted = (s.notes j).adopted := by
  simp only [State.acquire, State.release, State.incDisc, State.decDisc, State.setWaiters, State.setAdopted, State.setExpiry, State.setNotified, State.markFreed, State.eraseChild, State.clearParent, State.link, State.unlink, modNote_notes, upd_apply]; (repeat' split) <;> simp_all
@[simp] theorem incDisc_recs (s : State) (k : NoteId) : (s.incDisc k).recs = s.recs := rfl
@[simp] theorem incDisc_now (s : State) (k : NoteId) : (s.incDisc k).now = s.now := rfl
@[simp] theorem incDisc_pc (s : State) (k : NoteId) : (s.incDisc k).pc = s.pc := rfl
@[simp] theorem incDisc_users (s : State) (k : NoteId) : (s.incDisc k).users = s.users := rfl
@[simp] theorem incDisc_freeing (s : State) (k : NoteId) : (s.incDisc k).freeing = s.freeing := rfl
@[simp] theorem incDisc_published (s : State) (k : NoteId) : (s.incDisc k).published = s.published := rfl
@[simp] theorem incDisc_notifyCalled (s : State) (k : NoteId) : (s.incDisc k).notifyCalled = s.notifyCalled := rfl
@[simp] theorem incDisc_ownDl (s : State) (k : NoteId) : (s.incDisc k).ownDl = s.ownDl := rfl
@[simp] theorem incDisc_cparent (s : State) (k : NoteId) : (s.incDisc k).cparent = s.cparent := rfl
@[simp] theorem incDisc_ancEver (s : State) (k : NoteId) : (s.incDisc k).ancEver = s.ancEver := rfl
@[simp] theorem incDisc_pathMin (s : State) (k : NoteId) : (s.incDisc k).pathMin = s.pathMin := rfl
@[simp] theorem incDisc_bornNotified (s : State) (k : NoteId) : (s.incDisc k).bornNotified = s.bornNotified := rfl
@[simp] theorem incDisc_after (s : State) (k : NoteId) : (s.incDisc k).after = s.after := rfl
@[simp] theorem incDisc_observed (s : State) (k : NoteId) : (s.incDisc k).observed = s.observed := rfl
@[simp] theorem incDisc_f_parent (s : State) (k : NoteId) (j : NoteId) :
    ((s.incDisc k).notes j).parent = (s.notes j).parent := by
  simp only [State.acquire, State.release, State.incDisc, State.decDisc, State.setWaiters, State.setAdopted, State.setExpiry, State.setNotified, State.markFreed, State.eraseChild, State.clearParent, State.link, State.unlink, modNote_notes, upd_apply]; (repeat' split) <;> simp_all
@[simp] theorem incDisc_f_children (s : State) (k : NoteId) (j : NoteId) :
    ((s.incDisc k).notes j).children = (s.notes j).children := by
  simp only [State.acquire, State.release, State.incDisc, State.decDisc, State.setWaiters, State.setAdopted, State.setExpiry, State.setNotified, State.markFreed, State.eraseChild, State.clearParent, State.link, State.unlink, modNote_notes, upd_apply]; (repeat' split) <;> simp_all
@[simp] theorem incDisc_f_notified (s : State) (k : NoteId) (j : NoteId) :
    ((s.incDisc k).notes j).notified = (s.notes j).notified := by
  simp only [State.acquire, State.release, State.incDisc, State.decDisc, State.setWaiters, State.setAdopted, State.setExpiry, State.setNotified, State.markFreed, State.eraseChild, State.clearParent, State.link, State.unlink, modNote_notes, upd_apply]; (repeat' split) <;> simp_all
@[simp] theorem incDisc_f_expiry (s : State) (k : NoteId) (j : NoteId) :
    ((s.incDisc k).notes j).expiry = (s.notes j).expiry := by
  simp only [State.acquire, State.release, State.incDisc, State.decDisc, State.setWaiters, State.setAdopted, State.setExpiry, State.setNotified, State.markFreed, State.eraseChild, State.clearParent, State.link, State.unlink, modNote_notes, upd_apply]; (repeat' split) <;> simp_all
@[simp] theorem incDisc_f_disconnecting (s : State) (k : NoteId) (j : NoteId) :
    ((s.incDisc k).notes j).disconnecting = if j = k then (s.notes j).disconnecting + 1 else (s.notes j).disconnecting := by
  simp only [State.acquire, State.release, State.incDisc, State.decDisc, State.setWaiters, State.setAdopted, State.setExpiry, State.setNotified, State.markFreed, State.eraseChild, State.clearParent, State.link, State.unlink, modNote_notes, upd_apply]; (repeat' split) <;> simp_all
@[simp] theorem incDisc_f_waiters (s : State) (k : NoteId) (j : NoteId) :
    ((s.incDisc k).notes j).waiters = (s.notes j).waiters := by
  simp only [State.acquire, State.release, State.incDisc, State.decDisc, State.setWaiters, State.setAdopted, State.setExpiry, State.setNotified, State.markFreed, State.eraseChild, State.clearParent, State.link, State.unlink, modNote_notes, upd_apply]; (repeat' split) <;> simp_all
@[simp] theorem incDisc_f_lockHolder (s : State) (k : NoteId) (j : NoteId) :
    ((s.incDisc k).notes j).lockHolder = (s.notes j).lockHolder := by
  simp only [State.acquire, State.release, State.incDisc, State.decDisc, State.setWaiters, State.setAdopted, State.setExpiry, State.setNotified, State.markFreed, State.eraseChild, State.clearParent, State.link, State.unlink, modNote_notes, upd_apply]; (repeat' split) <;> simp_all
@[simp] theorem incDisc_f_allocated (s : State) (k : NoteId) (j : NoteId) :
    ((s.incDisc k).notes j).allocated = (s.notes j).allocated := by
  simp only [State.acquire, State.release, State.incDisc, State.decDisc, State.setWaiters, State.setAdopted, State.setExpiry, State.setNotified, State.markFreed, State.eraseChild, State.clearParent, State.link, State.unlink, modNote_notes, upd_apply]; (repeat' split) <;> simp_all
@[simp] theorem incDisc_f_freed (s : State) (k : NoteId) (j : NoteId) :
    ((s.incDisc k).notes j).freed = (s.notes j).freed := by
  simp only [State.acquire, State.release, State.incDisc, State.decDisc, State.setWaiters, State.setAdopted, State.setExpiry, State.setNotified, State.markFreed, State.eraseChild, State.clearParent, State.link, State.unlink, modNote_notes, upd_apply]; (repeat' split) <;> simp_all
@[simp] theorem incDisc_f_adopted (s : State) (k : NoteId) (j : NoteId) :
    ((s.incDisc k).notes j).adopted = (s.notes j).adopted := by
  simp only [State.acquire, State.release, State.incDisc, State.decDisc, State.setWaiters, State.setAdopted, State.setExpiry, State.setNotified, State.markFreed, State.eraseChild, State.clearParent, State.link, State.unlink, modNote_notes, upd_apply]; (repeat' split) <;> simp_all
@[simp] theorem decDisc_recs (s : State) (k : NoteId) : (s.decDisc k).recs = s.recs := rfl
@[simp] theorem decDisc_now (s : State) (k : NoteId) : (s.decDisc k).now = s.now := rfl
@[simp] theorem decDisc_pc (s : State) (k : NoteId) : (s.decDisc k).pc = s.pc := rfl
@[simp] theorem decDisc_users (s : State) (k : NoteId) : (s.decDisc k).users = s.users := rfl
@[simp] theorem decDisc_freeing (s : State) (k : NoteId) : (s.decDisc k).freeing = s.freeing := rfl
@[simp] theorem decDisc_published (s : State) (k : NoteId) : (s.decDisc k).published = s.published := rfl
@[simp] theorem decDisc_notifyCalled (s : State) (k : NoteId) : (s.decDisc k).notifyCalled = s.notifyCalled := rfl
@[simp] theorem decDisc_ownDl (s : State) (k : NoteId) : (s.decDisc k).ownDl = s.ownDl := rfl
@[simp] theorem decDisc_cparent (s : State) (k : NoteId) : (s.decDisc k).cparent = s.cparent := rfl
@[simp] theorem decDisc_ancEver (s : State) (k : NoteId) : (s.decDisc k).ancEver = s.ancEver := rfl
@[simp] theorem decDisc_pathMin (s : State) (k : NoteId) : (s.decDisc k).pathMin = s.pathMin := rfl
@[simp] theorem decDisc_bornNotified (s : State) (k : NoteId) : (s.decDisc k).bornNotified = s.bornNotified := rfl
@[simp] theorem decDisc_after (s : State) (k : NoteId) : (s.decDisc k).after = s.after := rfl
@[simp] theorem decDisc_observed (s : State) (k : NoteId) : (s.decDisc k).observed = s.observed := rfl
@[simp] theorem decDisc_f_parent (s : State) (k : NoteId) (j : NoteId) :
    ((s.decDisc k).notes j).parent = (s.notes j).parent := by
  simp only [State.acquire, State.release, State.incDisc, State.decDisc, State.setWaiters, State.setAdopted, State.setExpiry, State.setNotified, State.markFreed, State.eraseChild, State.clearParent, State.link, State.unlink, modNote_notes, upd_apply]; (repeat' split) <;> simp_all
@[simp] theorem decDisc_f_children (s : State) (k : NoteId) (j : NoteId) :
    ((s.decDisc k).notes j).children = (s.notes j).children := by
  simp only [State.acquire, State.release, State.incDisc, State.decDisc, State.setWaiters, State.setAdopted, State.setExpiry, State.setNotified, State.markFreed, State.eraseChild, State.clearParent, State.link, State.unlink, modNote_notes, upd_apply]; (repeat' split) <;> simp_all
@[simp] theorem decDisc_f_notified (s : State) (k : NoteId) (j : NoteId) :
    ((s.decDisc k).notes j).notified = (s.notes j).notified := by
  simp only [State.acquire, State.release, State.incDisc, State.decDisc, State.setWaiters, State.setAdopted, State.setExpiry, State.setNotified, State.markFreed, State.eraseChild, State.clearParent, State.link, State.unlink, modNote_notes, upd_apply]; (repeat' split) <;> simp_all
@[simp] theorem decDisc_f_expiry (s : State) (k : NoteId) (j : NoteId) :
    ((s.decDisc k).notes j).expiry = (s.notes j).expiry := by
  simp only [State.acquire, State.release, State.incDisc, State.decDisc, State.setWaiters, State.setAdopted, State.setExpiry, State.setNotified, State.markFreed, State.eraseChild, State.clearParent, State.link, State.unlink, modNote_notes, upd_apply]; (repeat' split) <;> simp_all
@[simp] theorem decDisc_f_disconnecting (s : State) (k : NoteId) (j : NoteId) :
    ((s.decDisc k).notes j).disconnecting = if j = k then (s.notes j).disconnecting - 1 else (s.notes j).disconnecting := by
  simp only [State.acquire, State.release, State.incDisc, State.decDisc, State.setWaiters, State.setAdopted, State.setExpiry, State.setNotified, State.markFreed, State.eraseChild, State.clearParent, State.link, State.unlink, modNote_notes, upd_apply]; (repeat' split) <;> simp_all
@[simp] theorem decDisc_f_waiters (s : State) (k : NoteId) (j : NoteId) :
    ((s.decDisc k).notes j).waiters = (s.notes j).waiters := by
  simp only [State.acquire, State.release, State.incDisc, State.decDisc, State.setWaiters, State.setAdopted, State.setExpiry, State.setNotified, State.markFreed, State.eraseChild, State.clearParent, State.link, State.unlink, modNote_notes, upd_apply]; (repeat' split) <;> simp_all
@[simp] theorem decDisc_f_lockHolder (s : State) (k : NoteId) (j : NoteId) :
    ((s.decDisc k).notes j).lockHolder = (s.notes j).lockHolder := by
  simp only [State.acquire, State.release, State.incDisc, State.decDisc, State.setWaiters, State.setAdopted, State.setExpiry, State.setNotified, State.markFreed, State.eraseChild, State.clearParent, State.link, State.unlink, modNote_notes, upd_apply]; (repeat' split) <;> simp_all
@[simp] theorem decDisc_f_allocated (s : State) (k : NoteId) (j : NoteId) :
    ((s.decDisc k).notes j).allocated = (s.notes j).allocated := by
  simp only [State.acquire, State.release, State.incDisc, State.decDisc, State.setWaiters, State.setAdopted, State.setExpiry, State.setNotified, State.markFreed, State.eraseChild, State.clearParent, State.link, State.unlink, modNote_notes, upd_apply]; (repeat' split) <;> simp_all
@[simp] theorem decDisc_f_freed (s : State) (k : NoteId) (j : NoteId) :
    ((s.decDisc k).notes j).freed = (s.notes j).freed := by
  simp only [State.acquire, State.release, State.incDisc, State.decDisc, State.setWaiters, State.setAdopted, State.setExpiry, State.setNotified, State.markFreed, State.eraseChild, State.clearParent, State.link, State.unlink, modNote_notes, upd_apply]; (repeat' split) <;> simp_all
@[simp] theorem decDisc_f_adopted (s : State) (k : NoteId) (j : NoteId) :
    ((s.decDisc k).notes j).adopted = (s.notes j).adopted := by
  simp only [State.acquire, State.release, State.incDisc, State.decDisc, State.setWaiters, State.setAdopted, State.setExpiry, State.setNotified, State.markFreed, State.eraseChild, State.clearParent, State.link, State.unlink, modNote_notes, upd_apply]; (repeat' split) <;> simp_all
@[simp] theorem setWaiters_recs (s : State) (k : NoteId) (ws : List Rid) : (s.setWaiters k ws).recs = s.recs := rfl
@[simp] theorem setWaiters_now (s : State) (k : NoteId) (ws : List Rid) : (s.setWaiters k ws).now = s.now := rfl
@[simp] theorem setWaiters_pc (s : State) (k : NoteId) (ws : List Rid) : (s.setWaiters k ws).pc = s.pc := rfl
@[simp] theorem setWaiters_users (s : State) (k : NoteId) (ws : List Rid) : (s.setWaiters k ws).users = s.users := rfl
@[simp] theorem setWaiters_freeing (s : State) (k : NoteId) (ws : List Rid) : (s.setWaiters k ws).freeing = s.freeing := rfl
@[simp] theorem setWaiters_published (s : State) (k : NoteId) (ws : List Rid) : (s.setWaiters k ws).published = s.published := rfl
@[simp] theorem setWaiters_notifyCalled (s : State) (k : NoteId) (ws : List Rid) : (s.setWaiters k ws).notifyCalled = s.notifyCalled := rfl
@[simp] theorem setWaiters_ownDl (s : State) (k : NoteId) (ws : List Rid) : (s.setWaiters k ws).ownDl = s.ownDl := rfl
@[simp] theorem setWaiters_cparent (s : State) (k : NoteId) (ws : List Rid) : (s.setWaiters k ws).cparent = s.cparent := rfl
@[simp] theorem setWaiters_ancEver (s : State) (k : NoteId) (ws : List Rid) : (s.setWaiters k ws).ancEver = s.ancEver := rfl
@[simp] theorem setWaiters_pathMin (s : State) (k : NoteId) (ws : List Rid) : (s.setWaiters k ws).pathMin = s.pathMin := rfl
@[simp] theorem setWaiters_bornNotified (s : State) (k : NoteId) (ws : List Rid) : (s.setWaiters k ws).bornNotified = s.bornNotified := rfl
@[simp] theorem setWaiters_after (s : State) (k : NoteId) (ws : List Rid) : (s.setWaiters k ws).after = s.after := rfl
@[simp] theorem setWaiters_observed (s : State) (k : NoteId) (ws : List Rid) : (s.setWaiters k ws).observed = s.observed := rfl
@[simp] theorem setWaiters_f_parent (s : State) (k : NoteId) (ws : List Rid) (j : NoteId) :
    ((s.setWaiters k ws).notes j).parent = (s.notes j).parent := by
  simp only [State.acquire, State.release, State.incDisc, State.decDisc, State.setWaiters, State.setAdopted, State.setExpiry, State.setNotified, State.markFreed, State.eraseChild, State.clearParent, State.link, State.unlink, modNote_notes, upd_apply]; (repeat' split) <;> simp_all
@[simp] theorem setWaiters_f_children (s : State) (k : NoteId) (ws : List Rid) (j : NoteId) :
    ((s.setWaiters k ws).notes j).children = (s.notes j).children := by
  simp only [State.acquire, State.release, State.incDisc, State.decDisc, State.setWaiters, State.setAdopted, State.setExpiry, State.setNotified, State.markFreed, State.eraseChild, State.clearParent, State.link, State.unlink, modNote_notes, upd_apply]; (repeat' split) <;> simp_all
@[simp] theorem setWaiters_f_notified (s : State) (k : NoteId) (ws : List Rid) (j : NoteId) :
    ((s.setWaiters k ws).notes j).notified = (s.notes j).notified := by
  simp only [State.acquire, State.release, State.incDisc, State.decDisc, State.setWaiters, State.setAdopted, State.setExpiry, State.setNotified, State.markFreed, State.eraseChild, State.clearParent, State.link, State.unlink, modNote_notes, upd_apply]; (repeat' split) <;> simp_all
@[simp] theorem setWaiters_f_expiry (s : State) (k : NoteId) (ws : List Rid) (j : NoteId) :
    ((s.setWaiters k ws).notes j).expiry = (s.notes j).expiry := by
  simp only [State.acquire, State.release, State.incDisc, State.decDisc, State.setWaiters, State.setAdopted, State.setExpiry, State.setNotified, State.markFreed, State.eraseChild, State.clearParent, State.link, State.unlink, modNote_notes, upd_apply]; (repeat' split) <;> simp_all
@[simp] theorem setWaiters_f_disconnecting (s : State) (k : NoteId) (ws : List Rid) (j : NoteId) :
    ((s.setWaiters k ws).notes j).disconnecting = (s.notes j).disconnecting := by
  simp only [State.acquire, State.release, State.incDisc, State.decDisc, State.setWaiters, State.setAdopted, State.setExpiry, State.setNotified, State.markFreed, State.eraseChild, State.clearParent, State.link, State.unlink, modNote_notes, upd_apply]; (repeat' split) <;> simp_all
@[simp] theorem setWaiters_f_waiters (s : State) (k : NoteId) (ws : List Rid) (j : NoteId) :
    ((s.setWaiters k ws).notes j).waiters = if j = k then ws else (s.notes j).waiters := by
  simp only [State.acquire, State.release, State.incDisc, State.decDisc, State.setWaiters, State.setAdopted, State.setExpiry, State.setNotified, State.markFreed, State.eraseChild, State.clearParent, State.link, State.unlink, modNote_notes, upd_apply]; (repeat' split) <;> simp_all
@[simp] theorem setWaiters_f_lockHolder (s : State) (k : NoteId) (ws : List Rid) (j : NoteId) :
    ((s.setWaiters k ws).notes j).lockHolder = (s.notes j).lockHolder := by
  simp only [State.acquire, State.release, State.incDisc, State.decDisc, State.setWaiters, State.setAdopted, State.setExpiry, State.setNotified, State.markFreed, State.eraseChild, State.clearParent, State.link, State.unlink, modNote_notes, upd_apply]; (repeat' split) <;> simp_all
@[simp] theorem setWaiters_f_allocated (s : State) (k : NoteId) (ws : List Rid) (j : NoteId) :
    ((s.setWaiters k ws).notes j).allocated = (s.notes j).allocated := by
  simp only [State.acquire, State.release, State.incDisc, State.decDisc, State.setWaiters, State.setAdopted, State.setExpiry, State.setNotified, State.markFreed, State.eraseChild, State.clearParent, State.link, State.unlink, modNote_notes, upd_apply]; (repeat' split) <;> simp_all
@[simp] theorem setWaiters_f_freed (s : State) (k : NoteId) (ws : List Rid) (j : NoteId) :
    ((s.setWaiters k ws).notes j).freed = (s.notes j).freed := by
  simp only [State.acquire, State.release, State.incDisc, State.decDisc, State.setWaiters, State.setAdopted, State.setExpiry, State.setNotified, State.markFreed, State.eraseChild, State.clearParent, State.link, State.unlink, modNote_notes, upd_apply]; (repeat' split) <;> simp_all
@[simp] theorem setWaiters_f_adopted (s : State) (k : NoteId) (ws : List Rid) (j : NoteId) :
    ((s.setWaiters k ws).notes j).adopted = (s.notes j).adopted := by
  simp only [State.acquire, State.release, State.incDisc, State.decDisc, State.setWaiters, State.setAdopted, State.setExpiry, State.setNotified, State.markFreed, State.eraseChild, State.clearParent, State.link, State.unlink, modNote_notes, upd_apply]; (repeat' split) <;> simp_all
@[simp] theorem setAdopted_recs (s : State) (k : NoteId) (b : Bool) : (s.setAdopted k b).recs = s.recs := rfl
@[simp] theorem setAdopted_now (s : State) (k : NoteId) (b : Bool) : (s.setAdopted k b).now = s.now := rfl
@[simp] theorem setAdopted_pc (s : State) (k : NoteId) (b : Bool) : (s.setAdopted k b).pc = s.pc := rfl
@[simp] theorem setAdopted_users (s : State) (k : NoteId) (b : Bool) : (s.setAdopted k b).users = s.users := rfl
@[simp] theorem setAdopted_freeing (s : State) (k : NoteId) (b : Bool) : (s.setAdopted k b).freeing = s.freeing := rfl
@[simp] theorem setAdopted_published (s : State) (k : NoteId) (b : Bool) : (s.setAdopted k b).published = s.published := rfl
@[simp] theorem setAdopted_notifyCalled (s : State) (k : NoteId) (b : Bool) : (s.setAdopted k b).notifyCalled = s.notifyCalled := rfl
@[simp] theorem setAdopted_ownDl (s : State) (k : NoteId) (b : Bool) : (s.setAdopted k b).ownDl = s.ownDl := rfl
@[simp] theorem setAdopted_cparent (s : State) (k : NoteId) (b : Bool) : (s.setAdopted k b).cparent = s.cparent := rfl
@[simp] theorem setAdopted_ancEver (s : State) (k : NoteId) (b : Bool) : (s.setAdopted k b).ancEver = s.ancEver := rfl
@[simp] theorem setAdopted_pathMin (s : State) (k : NoteId) (b : Bool) : (s.setAdopted k b).pathMin = s.pathMin := rfl
@[simp] theorem setAdopted_bornNotified (s : State) (k : NoteId) (b : Bool) : (s.setAdopted k b).bornNotified = s.bornNotified := rfl
@[simp] theorem setAdopted_after (s : State) (k : NoteId) (b : Bool) : (s.setAdopted k b).after = s.after := rfl
@[simp] theorem setAdopted_observed (s : State) (k : NoteId) (b : Bool) : (s.setAdopted k b).observed = s.observed := rfl
@[simp] theorem setAdopted_f_parent (s : State) (k : NoteId) (b : Bool) (j : NoteId) :
    ((s.setAdopted k b).notes j).parent = (s.notes j).parent := by
  simp only [State.acquire, State.release, State.incDisc, State.decDisc, State.setAdopted, State.setAdopted, State.setExpiry, State.setNotified, State.markFreed, State.eraseChild, State.clearParent, State.link, State.unlink, modNote_notes, upd_apply]; (repeat' split) <;> simp_all
@[simp] theorem setAdopted_f_children (s : State) (k : NoteId) (b : Bool) (j : NoteId) :
    ((s.setAdopted k b).notes j).children = (s.notes j).children := by
  simp only [State.acquire, State.release, State.incDisc, State.decDisc, State.setAdopted, State.setAdopted, State.setExpiry, State.setNotified, State.markFreed, State.eraseChild, State.clearParent, State.link, State.unlink, modNote_notes, upd_apply]; (repeat' split) <;> simp_all
@[simp] theorem setAdopted_f_notified (s : State) (k : NoteId) (b : Bool) (j : NoteId) :
    ((s.setAdopted k b).notes j).notified = (s.notes j).notified := by
  simp only [State.acquire, State.release, State.incDisc, State.decDisc, State.setAdopted, State.setAdopted, State.setExpiry, State.setNotified, State.markFreed, State.eraseChild, State.clearParent, State.link, State.unlink, modNote_notes, upd_apply]; (repeat' split) <;> simp_all
@[simp] theorem setAdopted_f_expiry (s : State) (k : NoteId) (b : Bool) (j : NoteId) :
    ((s.setAdopted k b).notes j).expiry = (s.notes j).expiry := by
  simp only [State.acquire, State.release, State.incDisc, State.decDisc, State.setAdopted, State.setAdopted, State.setExpiry, State.setNotified, State.markFreed, State.eraseChild, State.clearParent, State.link, State.unlink, modNote_notes, upd_apply]; (repeat' split) <;> simp_all
@[simp] theorem setAdopted_f_disconnecting (s : State) (k : NoteId) (b : Bool) (j : NoteId) :
    ((s.setAdopted k b).notes j).disconnecting = (s.notes j).disconnecting := by
  simp only [State.acquire, State.release, State.incDisc, State.decDisc, State.setAdopted, State.setAdopted, State.setExpiry, State.setNotified, State.markFreed, State.eraseChild, State.clearParent, State.link, State.unlink, modNote_notes, upd_apply]; (repeat' split) <;> simp_all
@[simp] theorem setAdopted_f_waiters (s : State) (k : NoteId) (b : Bool) (j : NoteId) :
    ((s.setAdopted k b).notes j).waiters = (s.notes j).waiters := by
  simp only [State.acquire, State.release, State.incDisc, State.decDisc, State.setAdopted, State.setAdopted, State.setExpiry, State.setNotified, State.markFreed, State.eraseChild, State.clearParent, State.link, State.unlink, modNote_notes, upd_apply]; (repeat' split) <;> simp_all
@[simp] theorem setAdopted_f_lockHolder (s : State) (k : NoteId) (b : Bool) (j : NoteId) :
    ((s.setAdopted k b).notes j).lockHolder = (s.notes j).lockHolder := by
  simp only [State.acquire, State.release, State.incDisc, State.decDisc, State.setAdopted, State.setAdopted, State.setExpiry, State.setNotified, State.markFreed, State.eraseChild, State.clearParent, State.link, State.unlink, modNote_notes, upd_apply]; (repeat' split) <;> simp_all
@[simp] theorem setAdopted_f_allocated (s : State) (k : NoteId) (b : Bool) (j : NoteId) :
    ((s.setAdopted k b).notes j).allocated = (s.notes j).allocated := by
  simp only [State.acquire, State.release, State.incDisc, State.decDisc, State.setAdopted, State.setAdopted, State.setExpiry, State.setNotified, State.markFreed, State.eraseChild, State.clearParent, State.link, State.unlink, modNote_notes, upd_apply]; (repeat' split) <;> simp_all
@[simp] theorem setAdopted_f_freed (s : State) (k : NoteId) (b : Bool) (j : NoteId) :
    ((s.setAdopted k b).notes j).freed = (s.notes j).freed := by
  simp only [State.acquire, State.release, State.incDisc, State.decDisc, State.setAdopted, State.setAdopted, State.setExpiry, State.setNotified, State.markFreed, State.eraseChild, State.clearParent, State.link, State.unlink, modNote_notes, upd_apply]; (repeat' split) <;> simp_all
@[simp] theorem setAdopted_f_adopted (s : State) (k : NoteId) (b : Bool) (j : NoteId) :
    ((s.setAdopted k b).notes j).adopted = if j = k then b else (s.notes j).adopted := by
  simp only [State.acquire, State.release, State.incDisc, State.decDisc, State.setAdopted, State.setAdopted, State.setExpiry, State.setNotified, State.markFreed, State.eraseChild, State.clearParent, State.link, State.unlink, modNote_notes, upd_apply]; (repeat' split) <;> simp_all
@[simp] theorem setExpiry_recs (s : State) (k : NoteId) (d : Dl) : (s.setExpiry k d).recs = s.recs := rfl
@[simp] theorem setExpiry_now (s : State) (k : NoteId) (d : Dl) : (s.setExpiry k d).now = s.now := rfl
@[simp] theorem setExpiry_pc (s : State) (k : NoteId) (d : Dl) : (s.setExpiry k d).pc = s.pc := rfl
@[simp] theorem setExpiry_users (s : State) (k : NoteId) (d : Dl) : (s.setExpiry k d).users = s.users := rfl
@[simp] theorem setExpiry_freeing (s : State) (k : NoteId) (d : Dl) : (s.setExpiry k d).freeing = s.freeing := rfl
@[simp] theorem setExpiry_published (s : State) (k : NoteId) (d : Dl) : (s.setExpiry k d).published = s.published := rfl
@[simp] theorem setExpiry_notifyCalled (s : State) (k : NoteId) (d : Dl) : (s.setExpiry k d).notifyCalled = s.notifyCalled := rfl
@[simp] theorem setExpiry_ownDl (s : State) (k : NoteId) (d : Dl) : (s.setExpiry k d).ownDl = s.ownDl := rfl
@[simp] theorem setExpiry_cparent (s : State) (k : NoteId) (d : Dl) : (s.setExpiry k d).cparent = s.cparent := rfl
@[simp] theorem setExpiry_ancEver (s : State) (k : NoteId) (d : Dl) : (s.setExpiry k d).ancEver = s.ancEver := rfl
@[simp] theorem setExpiry_pathMin (s : State) (k : NoteId) (d : Dl) : (s.setExpiry k d).pathMin = s.pathMin := rfl
@[simp] theorem setExpiry_bornNotified (s : State) (k : NoteId) (d : Dl) : (s.setExpiry k d).bornNotified = s.bornNotified := rfl
@[simp] theorem setExpiry_after (s : State) (k : NoteId) (d : Dl) : (s.setExpiry k d).after = s.after := rfl
@[simp] theorem setExpiry_observed (s : State) (k : NoteId) (d : Dl) : (s.setExpiry k d).observed = s.observed := rfl
@[simp] theorem setExpiry_f_parent (s : State) (k : NoteId) (d : Dl) (j : NoteId) :
    ((s.setExpiry k d).notes j).parent = (s.notes j).parent := by
  simp only [State.acquire, State.release, State.incDisc, State.decDisc, State.setWaiters, State.setAdopted, State.setExpiry, State.setNotified, State.markFreed, State.eraseChild, State.clearParent, State.link, State.unlink, modNote_notes, upd_apply]; (repeat' split) <;> simp_all
@[simp] theorem setExpiry_f_children (s : State) (k : NoteId) (d : Dl) (j : NoteId) :
    ((s.setExpiry k d).notes j).children = (s.notes j).children := by
  simp only [State.acquire, State.release, State.incDisc, State.decDisc, State.setWaiters, State.setAdopted, State.setExpiry, State.setNotified, State.markFreed, State.eraseChild, State.clearParent, State.link, State.unlink, modNote_notes, upd_apply]; (repeat' split) <;> simp_all
@[simp] theorem setExpiry_f_notified (s : State) (k : NoteId) (d : Dl) (j : NoteId) :
    ((s.setExpiry k d).notes j).notified = (s.notes j).notified := by
  simp only [State.acquire, State.release, State.incDisc, State.decDisc, State.setWaiters, State.setAdopted, State.setExpiry, State.setNotified, State.markFreed, State.eraseChild, State.clearParent, State.link, State.unlink, modNote_notes, upd_apply]; (repeat' split) <;> simp_all
@[simp] theorem setExpiry_f_expiry (s : State) (k : NoteId) (d : Dl) (j : NoteId) :
    ((s.setExpiry k d).notes j).expiry = if j = k then d else (s.notes j).expiry := by
  simp only [State.acquire, State.release, State.incDisc, State.decDisc, State.setWaiters, State.setAdopted, State.setExpiry, State.setNotified, State.markFreed, State.eraseChild, State.clearParent, State.link, State.unlink, modNote_notes, upd_apply]; (repeat' split) <;> simp_all
@[simp] theorem setExpiry_f_disconnecting (s : State) (k : NoteId) (d : Dl) (j : NoteId) :
    ((s.setExpiry k d).notes j).disconnecting = (s.notes j).disconnecting := by
  simp only [State.acquire, State.release, State.incDisc, State.decDisc, State.setWaiters, State.setAdopted, State.setExpiry, State.setNotified, State.markFreed, State.eraseChild, State.clearParent, State.link, State.unlink, modNote_notes, upd_apply]; (repeat' split) <;> simp_all
@[simp] theorem setExpiry_f_waiters (s : State) (k : NoteId) (d : Dl) (j : NoteId) :
    ((s.setExpiry k d).notes j).waiters = (s.notes j).waiters := by
  simp only [State.acquire, State.release, State.incDisc, State.decDisc, State.setWaiters, State.setAdopted, State.setExpiry, State.setNotified, State.markFreed, State.eraseChild, State.clearParent, State.link, State.unlink, modNote_notes, upd_apply]; (repeat' split) <;> simp_all
@[simp] theorem setExpiry_f_lockHolder (s : State) (k : NoteId) (d : Dl) (j : NoteId) :
    ((s.setExpiry k d).notes j).lockHolder = (s.notes j).lockHolder := by
  simp only [State.acquire, State.release, State.incDisc, State.decDisc, State.setWaiters, State.setAdopted, State.setExpiry, State.setNotified, State.markFreed, State.eraseChild, State.clearParent, State.link, State.unlink, modNote_notes, upd_apply]; (repeat' split) <;> simp_all
@[simp] theorem setExpiry_f_allocated (s : State) (k : NoteId) (d : Dl) (j : NoteId) :
    ((s.setExpiry k d).notes j).allocated = (s.notes j).allocated := by
  simp only [State.acquire, State.release, State.incDisc, State.decDisc, State.setWaiters, State.setAdopted, State.setExpiry, State.setNotified, State.markFreed, State.eraseChild, State.clearParent, State.link, State.unlink, modNote_notes, upd_apply]; (repeat' split) <;> simp_all
@[simp] theorem setExpiry_f_freed (s : State) (k : NoteId) (d : Dl) (j : NoteId) :
    ((s.setExpiry k d).notes j).freed = (s.notes j).freed := by
  simp only [State.acquire, State.release, State.incDisc, State.decDisc, State.setWaiters, State.setAdopted, State.setExpiry, State.setNotified, State.markFreed, State.eraseChild, State.clearParent, State.link, State.unlink, modNote_notes, upd_apply]; (repeat' split) <;> simp_all
@[simp] theorem setExpiry_f_adopted (s : State) (k : NoteId) (d : Dl) (j : NoteId) :
    ((s.setExpiry k d).notes j).adopted = (s.notes j).adopted := by
  simp only [State.acquire, State.release, State.incDisc, State.decDisc, State.setWaiters, State.setAdopted, State.setExpiry, State.setNotified, State.markFreed, State.eraseChild, State.clearParent, State.link, State.unlink, modNote_notes, upd_apply]; (repeat' split) <;> simp_all
@[simp] theorem setNotified_recs (s : State) (k : NoteId) : (s.setNotified k).recs = s.recs := rfl
@[simp] theorem setNotified_now (s : State) (k : NoteId) : (s.setNotified k).now = s.now := rfl
@[simp] theorem setNotified_pc (s : State) (k : NoteId) : (s.setNotified k).pc = s.pc := rfl
@[simp] theorem setNotified_users (s : State) (k : NoteId) : (s.setNotified k).users = s.users := rfl
@[simp] theorem setNotified_freeing (s : State) (k : NoteId) : (s.setNotified k).freeing = s.freeing := rfl
@[simp] theorem setNotified_published (s : State) (k : NoteId) : (s.setNotified k).published = s.published := rfl
@[simp] theorem setNotified_notifyCalled (s : State) (k : NoteId) : (s.setNotified k).notifyCalled = s.notifyCalled := rfl
@[simp] theorem setNotified_ownDl (s : State) (k : NoteId) : (s.setNotified k).ownDl = s.ownDl := rfl
@[simp] theorem setNotified_cparent (s : State) (k : NoteId) : (s.setNotified k).cparent = s.cparent := rfl
@[simp] theorem setNotified_ancEver (s : State) (k : NoteId) : (s.setNotified k).ancEver = s.ancEver := rfl
@[simp] theorem setNotified_pathMin (s : State) (k : NoteId) : (s.setNotified k).pathMin = s.pathMin := rfl
@[simp] theorem setNotified_bornNotified (s : State) (k : NoteId) : (s.setNotified k).bornNotified = s.bornNotified := rfl
@[simp] theorem setNotified_after (s : State) (k : NoteId) : (s.setNotified k).after = s.after := rfl
@[simp] theorem setNotified_observed (s : State) (k : NoteId) : (s.setNotified k).observed = s.observed := rfl
@[simp] theorem setNotified_f_parent (s : State) (k : NoteId) (j : NoteId) :
    ((s.setNotified k).notes j).parent = (s.notes j).parent := by
  simp only [State.acquire, State.release, State.incDisc, State.decDisc, State.setWaiters, State.setAdopted, State.setExpiry, State.setNotified, State.markFreed, State.eraseChild, State.clearParent, State.link, State.unlink, modNote_notes, upd_apply]; (repeat' split) <;> simp_all
@[simp] theorem setNotified_f_children (s : State) (k : NoteId) (j : NoteId) :
    ((s.setNotified k).notes j).children = (s.notes j).children := by
  simp only [State.acquire, State.release, State.incDisc, State.decDisc, State.setWaiters, State.setAdopted, State.setExpiry, State.setNotified, State.markFreed, State.eraseChild, State.clearParent, State.link, State.unlink, modNote_notes, upd_apply]; (repeat' split) <;> simp_all
@[simp] theorem setNotified_f_notified (s : State) (k : NoteId) (j : NoteId) :
    ((s.setNotified k).notes j).notified = if j = k then true else (s.notes j).notified := by
  simp only [State.acquire, State.release, State.incDisc, State.decDisc, State.setWaiters, State.setAdopted, State.setExpiry, State.setNotified, State.markFreed, State.eraseChild, State.clearParent, State.link, State.unlink, modNote_notes, upd_apply]; (repeat' split) <;> simp_all
@[simp] theorem setNotified_f_expiry (s : State) (k : NoteId) (j : NoteId) :
    ((s.setNotified k).notes j).expiry = (s.notes j).expiry := by
  simp only [State.acquire, State.release, State.incDisc, State.decDisc, State.setWaiters, State.setAdopted, State.setExpiry, State.setNotified, State.markFreed, State.eraseChild, State.clearParent, State.link, State.unlink, modNote_notes, upd_apply]; (repeat' split) <;> simp_all
@[simp] theorem setNotified_f_disconnecting (s : State) (k : NoteId) (j : NoteId) :
    ((s.setNotified k).notes j).disconnecting = (s.notes j).disconnecting := by
  simp only [State.acquire, State.release, State.incDisc, State.decDisc, State.setWaiters, State.setAdopted, State.setExpiry, State.setNotified, State.markFreed, State.eraseChild, State.clearParent, State.link, State.unlink, modNote_notes, upd_apply]; (repeat' split) <;> simp_all
@[simp] theorem setNotified_f_waiters (s : State) (k : NoteId) (j : NoteId) :
    ((s.setNotified k).notes j).waiters = (s.notes j).waiters := by
  simp only [State.acquire, State.release, State.incDisc, State.decDisc, State.setWaiters, State.setAdopted, State.setExpiry, State.setNotified, State.markFreed, State.eraseChild, State.clearParent, State.link, State.unlink, modNote_notes, upd_apply]; (repeat' split) <;> simp_all
@[simp] theorem setNotified_f_lockHolder (s : State) (k : NoteId) (j : NoteId) :
    ((s.setNotified k).notes j).lockHolder = (s.notes j).lockHolder := by
  simp only [State.acquire, State.release, State.incDisc, State.decDisc, State.setWaiters, State.setAdopted, State.setExpiry, State.setNotified, State.markFreed, State.eraseChild, State.clearParent, State.link, State.unlink, modNote_notes, upd_apply]; (repeat' split) <;> simp_all
@[simp] theorem setNotified_f_allocated (s : State) (k : NoteId) (j : NoteId) :
    ((s.setNotified k).notes j).allocated = (s.notes j).allocated := by
  simp only [State.acquire, State.release, State.incDisc, State.decDisc, State.setWaiters, State.setAdopted, State.setExpiry, State.setNotified, State.markFreed, State.eraseChild, State.clearParent, State.link, State.unlink, modNote_notes, upd_apply]; (repeat' split) <;> simp_all
@[simp] theorem setNotified_f_freed (s : State) (k : NoteId) (j : NoteId) :
    ((s.setNotified k).notes j).freed = (s.notes j).freed := by
  simp only [State.acquire, State.release, State.incDisc, State.decDisc, State.setWaiters, State.setAdopted, State.setExpiry, State.setNotified, State.markFreed, State.eraseChild, State.clearParent, State.link, State.unlink, modNote_notes, upd_apply]; (repeat' split) <;> simp_all
@[simp] theorem setNotified_f_adopted (s : State) (k : NoteId) (j : NoteId) :
    ((s.setNotified k).notes j).adopted = (s.notes j).adopted := by
  simp only [State.acquire, State.release, State.incDisc, State.decDisc, State.setWaiters, State.setAdopted, State.setExpiry, State.setNotified, State.markFreed, State.eraseChild, State.clearParent, State.link, State.unlink, modNote_notes, upd_apply]; (repeat' split) <;> simp_all
@[simp] theorem markFreed_recs (s : State) (k : NoteId) : (s.markFreed k).recs = s.recs := rfl
@[simp] theorem markFreed_now (s : State) (k : NoteId) : (s.markFreed k).now = s.now := rfl
@[simp] theorem markFreed_pc (s : State) (k : NoteId) : (s.markFreed k).pc = s.pc := rfl
@[simp] theorem markFreed_users (s : State) (k : NoteId) : (s.markFreed k).users = s.users := rfl
@[simp] theorem markFreed_freeing (s : State) (k : NoteId) : (s.markFreed k).freeing = s.freeing := rfl
@[simp] theorem markFreed_published (s : State) (k : NoteId) : (s.markFreed k).published = s.published := rfl
@[simp] theorem markFreed_notifyCalled (s : State) (k : NoteId) : (s.markFreed k).notifyCalled = s.notifyCalled := rfl
@[simp] theorem markFreed_ownDl (s : State) (k : NoteId) : (s.markFreed k).ownDl = s.ownDl := rfl
@[simp] theorem markFreed_cparent (s : State) (k : NoteId) : (s.markFreed k).cparent = s.cparent := rfl
@[simp] theorem markFreed_ancEver (s : State) (k : NoteId) : (s.markFreed k).ancEver = s.ancEver := rfl
@[simp] theorem markFreed_pathMin (s : State) (k : NoteId) : (s.markFreed k).pathMin = s.pathMin := rfl
@[simp] theorem markFreed_bornNotified (s : State) (k : NoteId) : (s.markFreed k).bornNotified = s.bornNotified := rfl
@[simp] theorem markFreed_after (s : State) (k : NoteId) : (s.markFreed k).after = s.after := rfl
@[simp] theorem markFreed_observed (s : State) (k : NoteId) : (s.markFreed k).observed = s.observed := rfl
@[simp] theorem markFreed_f_parent (s : State) (k : NoteId) (j : NoteId) :
    ((s.markFreed k).notes j).parent = (s.notes j).parent := by
  simp only [State.acquire, State.release, State.incDisc, State.decDisc, State.setWaiters, State.setAdopted, State.setExpiry, State.setNotified, State.markFreed, State.eraseChild, State.clearParent, State.link, State.unlink, modNote_notes, upd_apply]; (repeat' split) <;> simp_all
@[simp] theorem markFreed_f_children (s : State) (k : NoteId) (j : NoteId) :
    ((s.markFreed k).notes j).children = (s.notes j).children := by
  simp only [State.acquire, State.release, State.incDisc, State.decDisc, State.setWaiters, State.setAdopted, State.setExpiry, State.setNotified, State.markFreed, State.eraseChild, State.clearParent, State.link, State.unlink, modNote_notes, upd_apply]; (repeat' split) <;> simp_all
@[simp] theorem markFreed_f_notified (s : State) (k : NoteId) (j : NoteId) :
    ((s.markFreed k).notes j).notified = (s.notes j).notified := by
  simp only [State.acquire, State.release, State.incDisc, State.decDisc, State.setWaiters, State.setAdopted, State.setExpiry, State.setNotified, State.markFreed, State.eraseChild, State.clearParent, State.link, State.unlink, modNote_notes, upd_apply]; (repeat' split) <;> simp_all
@[simp] theorem markFreed_f_expiry (s : State) (k : NoteId) (j : NoteId) :
    ((s.markFreed k).notes j).expiry = (s.notes j).expiry := by
  simp only [State.acquire, State.release, State.incDisc, State.decDisc, State.setWaiters, State.setAdopted, State.setExpiry, State.setNotified, State.markFreed, State.eraseChild, State.clearParent, State.link, State.unlink, modNote_notes, upd_apply]; (repeat' split) <;> simp_all
@[simp] theorem markFreed_f_disconnecting (s : State) (k : NoteId) (j : NoteId) :
    ((s.markFreed k).notes j).disconnecting = (s.notes j).disconnecting := by
  simp only [State.acquire, State.release, State.incDisc, State.decDisc, State.setWaiters, State.setAdopted, State.setExpiry, State.setNotified, State.markFreed, State.eraseChild, State.clearParent, State.link, State.unlink, modNote_notes, upd_apply]; (repeat' split) <;> simp_all
@[simp] theorem markFreed_f_waiters (s : State) (k : NoteId) (j : NoteId) :
    ((s.markFreed k).notes j).waiters = (s.notes j).waiters := by
  simp only [State.acquire, State.release, State.incDisc, State.decDisc, State.setWaiters, State.setAdopted, State.setExpiry, State.setNotified, State.markFreed, State.eraseChild, State.clearParent, State.link, State.unlink, modNote_notes, upd_apply]; (repeat' split) <;> simp_all
@[simp] theorem markFreed_f_lockHolder (s : State) (k : NoteId) (j : NoteId) :
    ((s.markFreed k).notes j).lockHolder = (s.notes j).lockHolder := by
  simp only [State.acquire, State.release, State.incDisc, State.decDisc, State.setWaiters, State.setAdopted, State.setExpiry, State.setNotified, State.markFreed, State.eraseChild, State.clearParent, State.link, State.unlink, modNote_notes, upd_apply]; (repeat' split) <;> simp_all
@[simp] theorem markFreed_f_allocated (s : State) (k : NoteId) (j : NoteId) :
    ((s.markFreed k).notes j).allocated = (s.notes j).allocated := by
  simp only [State.acquire, State.release, State.incDisc, State.decDisc, State.setWaiters, State.setAdopted, State.setExpiry, State.setNotified, State.markFreed, State.eraseChild, State.clearParent, State.link, State.unlink, modNote_notes, upd_apply]; (repeat' split) <;> simp_all
@[simp] theorem markFreed_f_freed (s : State) (k : NoteId) (j : NoteId) :
    ((s.markFreed k).notes j).freed = if j = k then true else (s.notes j).freed := by
  simp only [State.acquire, State.release, State.incDisc, State.decDisc, State.setWaiters, State.setAdopted, State.setExpiry, State.setNotified, State.markFreed, State.eraseChild, State.clearParent, State.link, State.unlink, modNote_notes, upd_apply]; (repeat' split) <;> simp_all
@[simp] theorem markFreed_f_adopted (s : State) (k : NoteId) (j : NoteId) :
    ((s.markFreed k).notes j).adopted = (s.notes j).adopted := by
  simp only [State.acquire, State.release, State.incDisc, State.decDisc, State.setWaiters, State.setAdopted, State.setExpiry, State.setNotified, State.markFreed, State.eraseChild, State.clearParent, State.link, State.unlink, modNote_notes, upd_apply]; (repeat' split) <;> simp_all
@[simp] theorem eraseChild_recs (s : State) (n c : NoteId) : (s.eraseChild n c).recs = s.recs := rfl
@[simp] theorem eraseChild_now (s : State) (n c : NoteId) : (s.eraseChild n c).now = s.now := rfl
@[simp] theorem eraseChild_pc (s : State) (n c : NoteId) : (s.eraseChild n c).pc = s.pc := rfl
@[simp] theorem eraseChild_users (s : State) (n c : NoteId) : (s.eraseChild n c).users = s.users := rfl
@[simp] theorem eraseChild_freeing (s : State) (n c : NoteId) : (s.eraseChild n c).freeing = s.freeing := rfl
@[simp] theorem eraseChild_published (s : State) (n c : NoteId) : (s.eraseChild n c).published = s.published := rfl
@[simp] theorem eraseChild_notifyCalled (s : State) (n c : NoteId) : (s.eraseChild n c).notifyCalled = s.notifyCalled := rfl
@[simp] theorem eraseChild_ownDl (s : State) (n c : NoteId) : (s.eraseChild n c).ownDl = s.ownDl := rfl
@[simp] theorem eraseChild_cparent (s : State) (n c : NoteId) : (s.eraseChild n c).cparent = s.cparent := rfl
@[simp] theorem eraseChild_ancEver (s : State) (n c : NoteId) : (s.eraseChild n c).ancEver = s.ancEver := rfl
@[simp] theorem eraseChild_pathMin (s : State) (n c : NoteId) : (s.eraseChild n c).pathMin = s.pathMin := rfl
@[simp] theorem eraseChild_bornNotified (s : State) (n c : NoteId) : (s.eraseChild n c).bornNotified = s.bornNotified := rfl
@[simp] theorem eraseChild_after (s : State) (n c : NoteId) : (s.eraseChild n c).after = s.after := rfl
@[simp] theorem eraseChild_observed (s : State) (n c : NoteId) : (s.eraseChild n c).observed = s.observed := rfl
@[simp] theorem eraseChild_f_parent (s : State) (n c : NoteId) (j : NoteId) :
    ((s.eraseChild n c).notes j).parent = (s.notes j).parent := by
  simp only [State.acquire, State.release, State.incDisc, State.decDisc, State.setWaiters, State.setAdopted, State.setExpiry, State.setNotified, State.markFreed, State.eraseChild, State.clearParent, State.link, State.unlink, modNote_notes, upd_apply]; (repeat' split) <;> simp_all
@[simp] theorem eraseChild_f_children (s : State) (n c : NoteId) (j : NoteId) :
    ((s.eraseChild n c).notes j).children = if j = n then (s.notes j).children.erase c else (s.notes j).children := by
  simp only [State.acquire, State.release, State.incDisc, State.decDisc, State.setWaiters, State.setAdopted, State.setExpiry, State.setNotified, State.markFreed, State.eraseChild, State.clearParent, State.link, State.unlink, modNote_notes, upd_apply]; (repeat' split) <;> simp_all
@[simp] theorem eraseChild_f_notified (s : State) (n c : NoteId) (j : NoteId) :
    ((s.eraseChild n c).notes j).notified = (s.notes j).notified := by
  simp only [State.acquire, State.release, State.incDisc, State.decDisc, State.setWaiters, State.setAdopted, State.setExpiry, State.setNotified, State.markFreed, State.eraseChild, State.clearParent, State.link, State.unlink, modNote_notes, upd_apply]; (repeat' split) <;> simp_all
@[simp] theorem eraseChild_f_expiry (s : State) (n c : NoteId) (j : NoteId) :
    ((s.eraseChild n c).notes j).expiry = (s.notes j).expiry := by
  simp only [State.acquire, State.release, State.incDisc, State.decDisc, State.setWaiters, State.setAdopted, State.setExpiry, State.setNotified, State.markFreed, State.eraseChild, State.clearParent, State.link, State.unlink, modNote_notes, upd_apply]; (repeat' split) <;> simp_all
@[simp] theorem eraseChild_f_disconnecting (s : State) (n c : NoteId) (j : NoteId) :
    ((s.eraseChild n c).notes j).disconnecting = (s.notes j).disconnecting := by
  simp only [State.acquire, State.release, State.incDisc, State.decDisc, State.setWaiters, State.setAdopted, State.setExpiry, State.setNotified, State.markFreed, State.eraseChild, State.clearParent, State.link, State.unlink, modNote_notes, upd_apply]; (repeat' split) <;> simp_all
@[simp] theorem eraseChild_f_waiters (s : State) (n c : NoteId) (j : NoteId) :
    ((s.eraseChild n c).notes j).waiters = (s.notes j).waiters := by
  simp only [State.acquire, State.release, State.incDisc, State.decDisc, State.setWaiters, State.setAdopted, State.setExpiry, State.setNotified, State.markFreed, State.eraseChild, State.clearParent, State.link, State.unlink, modNote_notes, upd_apply]; (repeat' split) <;> simp_all
@[simp] theorem eraseChild_f_lockHolder (s : State) (n c : NoteId) (j : NoteId) :
    ((s.eraseChild n c).notes j).lockHolder = (s.notes j).lockHolder := by
  simp only [State.acquire, State.release, State.incDisc, State.decDisc, State.setWaiters, State.setAdopted, State.setExpiry, State.setNotified, State.markFreed, State.eraseChild, State.clearParent, State.link, State.unlink, modNote_notes, upd_apply]; (repeat' split) <;> simp_all
@[simp] theorem eraseChild_f_allocated (s : State) (n c : NoteId) (j : NoteId) :
    ((s.eraseChild n c).notes j).allocated = (s.notes j).allocated := by
  simp only [State.acquire, State.release, State.incDisc, State.decDisc, State.setWaiters, State.setAdopted, State.setExpiry, State.setNotified, State.markFreed, State.eraseChild, State.clearParent, State.link, State.unlink, modNote_notes, upd_apply]; (repeat' split) <;> simp_all
@[simp] theorem eraseChild_f_freed (s : State) (n c : NoteId) (j : NoteId) :
    ((s.eraseChild n c).notes j).freed = (s.notes j).freed := by
  simp only [State.acquire, State.release, State.incDisc, State.decDisc, State.setWaiters, State.setAdopted, State.setExpiry, State.setNotified, State.markFreed, State.eraseChild, State.clearParent, State.link, State.unlink, modNote_notes, upd_apply]; (repeat' split) <;> simp_all
@[simp] theorem eraseChild_f_adopted (s : State) (n c : NoteId) (j : NoteId) :
    ((s.eraseChild n c).notes j).adopted = (s.notes j).adopted := by
  simp only [State.acquire, State.release, State.incDisc, State.decDisc, State.setWaiters, State.setAdopted, State.setExpiry, State.setNotified, State.markFreed, State.eraseChild, State.clearParent, State.link, State.unlink, modNote_notes, upd_apply]; (repeat' split) <;> simp_all
@[simp] theorem clearParent_recs (s : State) (c : NoteId) : (s.clearParent c).recs = s.recs := rfl
@[simp] theorem clearParent_now (s : State) (c : NoteId) : (s.clearParent c).now = s.now := rfl
@[simp] theorem clearParent_pc (s : State) (c : NoteId) : (s.clearParent c).pc = s.pc := rfl
@[simp] theorem clearParent_users (s : State) (c : NoteId) : (s.clearParent c).users = s.users := rfl
@[simp] theorem clearParent_freeing (s : State) (c : NoteId) : (s.clearParent c).freeing = s.freeing := rfl
@[simp] theorem clearParent_published (s : State) (c : NoteId) : (s.clearParent c).published = s.published := rfl
@[simp] theorem clearParent_notifyCalled (s : State) (c : NoteId) : (s.clearParent c).notifyCalled = s.notifyCalled := rfl
@[simp] theorem clearParent_ownDl (s : State) (c : NoteId) : (s.clearParent c).ownDl = s.ownDl := rfl
@[simp] theorem clearParent_cparent (s : State) (c : NoteId) : (s.clearParent c).cparent = s.cparent := rfl
@[simp] theorem clearParent_ancEver (s : State) (c : NoteId) : (s.clearParent c).ancEver = s.ancEver := rfl
@[simp] theorem clearParent_pathMin (s : State) (c : NoteId) : (s.clearParent c).pathMin = s.pathMin := rfl
@[simp] theorem clearParent_bornNotified (s : State) (c : NoteId) : (s.clearParent c).bornNotified = s.bornNotified := rfl
@[simp] theorem clearParent_after (s : State) (c : NoteId) : (s.clearParent c).after = s.after := rfl
@[simp] theorem clearParent_observed (s : State) (c : NoteId) : (s.clearParent c).observed = s.observed := rfl
@[simp] theorem clearParent_f_parent (s : State) (c : NoteId) (j : NoteId) :
    ((s.clearParent c).notes j).parent = if j = c then none else (s.notes j).parent := by
  simp only [State.acquire, State.release, State.incDisc, State.decDisc, State.setWaiters, State.setAdopted, State.setExpiry, State.setNotified, State.markFreed, State.eraseChild, State.clearParent, State.link, State.unlink, modNote_notes, upd_apply]; (repeat' split) <;> simp_all
@[simp] theorem clearParent_f_children (s : State) (c : NoteId) (j : NoteId) :
    ((s.clearParent c).notes j).children = (s.notes j).children := by
  simp only [State.acquire, State.release, State.incDisc, State.decDisc, State.setWaiters, State.setAdopted, State.setExpiry, State.setNotified, State.markFreed, State.eraseChild, State.clearParent, State.link, State.unlink, modNote_notes, upd_apply]; (repeat' split) <;> simp_all
@[simp] theorem clearParent_f_notified (s : State) (c : NoteId) (j : NoteId) :
    ((s.clearParent c).notes j).notified = (s.notes j).notified := by
  simp only [State.acquire, State.release, State.incDisc, State.decDisc, State.setWaiters, State.setAdopted, State.setExpiry, State.setNotified, State.markFreed, State.eraseChild, State.clearParent, State.link, State.unlink, modNote_notes, upd_apply]; (repeat' split) <;> simp_all
@[simp] theorem clearParent_f_expiry (s : State) (c : NoteId) (j : NoteId) :
    ((s.clearParent c).notes j).expiry = (s.notes j).expiry := by
  simp only [State.acquire, State.release, State.incDisc, State.decDisc, State.setWaiters, State.setAdopted, State.setExpiry, State.setNotified, State.markFreed, State.eraseChild, State.clearParent, State.link, State.unlink, modNote_notes, upd_apply]; (repeat' split) <;> simp_all
@[simp] theorem clearParent_f_disconnecting (s : State) (c : NoteId) (j : NoteId) :
    ((s.clearParent c).notes j).disconnecting = (s.notes j).disconnecting := by
  simp only [State.acquire, State.release, State.incDisc, State.decDisc, State.setWaiters, State.setAdopted, State.setExpiry, State.setNotified, State.markFreed, State.eraseChild, State.clearParent, State.link, State.unlink, modNote_notes, upd_apply]; (repeat' split) <;> simp_all
@[simp] theorem clearParent_f_waiters (s : State) (c : NoteId) (j : NoteId) :
    ((s.clearParent c).notes j).waiters = (s.notes j).waiters := by
  simp only [State.acquire, State.release, State.incDisc, State.decDisc, State.setWaiters, State.setAdopted, State.setExpiry, State.setNotified, State.markFreed, State.eraseChild, State.clearParent, State.link, State.unlink, modNote_notes, upd_apply]; (repeat' split) <;> simp_all
@[simp] theorem clearParent_f_lockHolder (s : State) (c : NoteId) (j : NoteId) :
    ((s.clearParent c).notes j).lockHolder = (s.notes j).lockHolder := by
  simp only [State.acquire, State.release, State.incDisc, State.decDisc, State.setWaiters, State.setAdopted, State.setExpiry, State.setNotified, State.markFreed, State.eraseChild, State.clearParent, State.link, State.unlink, modNote_notes, upd_apply]; (repeat' split) <;> simp_all
@[simp] theorem clearParent_f_allocated (s : State) (c : NoteId) (j : NoteId) :
    ((s.clearParent c).notes j).allocated = (s.notes j).allocated := by
  simp only [State.acquire, State.release, State.incDisc, State.decDisc, State.setWaiters, State.setAdopted, State.setExpiry, State.setNotified, State.markFreed, State.eraseChild, State.clearParent, State.link, State.unlink, modNote_notes, upd_apply]; (repeat' split) <;> simp_all
@[simp] theorem clearParent_f_freed (s : State) (c : NoteId) (j : NoteId) :
    ((s.clearParent c).notes j).freed = (s.notes j).freed := by
  simp only [State.acquire, State.release, State.incDisc, State.decDisc, State.setWaiters, State.setAdopted, State.setExpiry, State.setNotified, State.markFreed, State.eraseChild, State.clearParent, State.link, State.unlink, modNote_notes, upd_apply]; (repeat' split) <;> simp_all
@[simp] theorem clearParent_f_adopted (s : State) (c : NoteId) (j : NoteId) :
    ((s.clearParent c).notes j).adopted = (s.notes j).adopted := by
  simp only [State.acquire, State.release, State.incDisc, State.decDisc, State.setWaiters, State.setAdopted, State.setExpiry, State.setNotified, State.markFreed, State.eraseChild, State.clearParent, State.link, State.unlink, modNote_notes, upd_apply]; (repeat' split) <;> simp_all
@[simp] theorem link_recs (s : State) (c p : NoteId) : (s.link c p).recs = s.recs := rfl
@[simp] theorem link_now (s : State) (c p : NoteId) : (s.link c p).now = s.now := rfl
@[simp] theorem link_pc (s : State) (c p : NoteId) : (s.link c p).pc = s.pc := rfl
@[simp] theorem link_users (s : State) (c p : NoteId) : (s.link c p).users = s.users := rfl
@[simp] theorem link_freeing (s : State) (c p : NoteId) : (s.link c p).freeing = s.freeing := rfl
@[simp] theorem link_published (s : State) (c p : NoteId) : (s.link c p).published = s.published := rfl
@[simp] theorem link_notifyCalled (s : State) (c p : NoteId) : (s.link c p).notifyCalled = s.notifyCalled := rfl
@[simp] theorem link_ownDl (s : State) (c p : NoteId) : (s.link c p).ownDl = s.ownDl := rfl
@[simp] theorem link_cparent (s : State) (c p : NoteId) : (s.link c p).cparent = s.cparent := rfl
@[simp] theorem link_ancEver (s : State) (c p : NoteId) : (s.link c p).ancEver = s.ancEver := rfl
@[simp] theorem link_pathMin (s : State) (c p : NoteId) : (s.link c p).pathMin = s.pathMin := rfl
@[simp] theorem link_bornNotified (s : State) (c p : NoteId) : (s.link c p).bornNotified = s.bornNotified := rfl
@[simp] theorem link_after (s : State) (c p : NoteId) : (s.link c p).after = s.after := rfl
@[simp] theorem link_observed (s : State) (c p : NoteId) : (s.link c p).observed = s.observed := rfl
@[simp] theorem link_f_parent (s : State) (c p : NoteId) (j : NoteId) :
    ((s.link c p).notes j).parent = if j = c then some p else (s.notes j).parent := by
  simp only [State.acquire, State.release, State.incDisc, State.decDisc, State.setWaiters, State.setAdopted, State.setExpiry, State.setNotified, State.markFreed, State.eraseChild, State.clearParent, State.link, State.unlink, modNote_notes, upd_apply]; (repeat' split) <;> simp_all
@[simp] theorem link_f_children (s : State) (c p : NoteId) (j : NoteId) :
    ((s.link c p).notes j).children = if j = p then (s.notes j).children ++ [c] else (s.notes j).children := by
  simp only [State.acquire, State.release, State.incDisc, State.decDisc, State.setWaiters, State.setAdopted, State.setExpiry, State.setNotified, State.markFreed, State.eraseChild, State.clearParent, State.link, State.unlink, modNote_notes, upd_apply]; (repeat' split) <;> simp_all
@[simp] theorem link_f_notified (s : State) (c p : NoteId) (j : NoteId) :
    ((s.link c p).notes j).notified = (s.notes j).notified := by
  simp only [State.acquire, State.release, State.incDisc, State.decDisc, State.setWaiters, State.setAdopted, State.setExpiry, State.setNotified, State.markFreed, State.eraseChild, State.clearParent, State.link, State.unlink, modNote_notes, upd_apply]; (repeat' split) <;> simp_all
@[simp] theorem link_f_expiry (s : State) (c p : NoteId) (j : NoteId) :
    ((s.link c p).notes j).expiry = (s.notes j).expiry := by
  simp only [State.acquire, State.release, State.incDisc, State.decDisc, State.setWaiters, State.setAdopted, State.setExpiry, State.setNotified, State.markFreed, State.eraseChild, State.clearParent, State.link, State.unlink, modNote_notes, upd_apply]; (repeat' split) <;> simp_all
@[simp] theorem link_f_disconnecting (s : State) (c p : NoteId) (j : NoteId) :
    ((s.link c p).notes j).disconnecting = (s.notes j).disconnecting := by
  simp only [State.acquire, State.release, State.incDisc, State.decDisc, State.setWaiters, State.setAdopted, State.setExpiry, State.setNotified, State.markFreed, State.eraseChild, State.clearParent, State.link, State.unlink, modNote_notes, upd_apply]; (repeat' split) <;> simp_all
@[simp] theorem link_f_waiters (s : State) (c p : NoteId) (j : NoteId) :
    ((s.link c p).notes j).waiters = (s.notes j).waiters := by
  simp only [State.acquire, State.release, State.incDisc, State.decDisc, State.setWaiters, State.setAdopted, State.setExpiry, State.setNotified, State.markFreed, State.eraseChild, State.clearParent, State.link, State.unlink, modNote_notes, upd_apply]; (repeat' split) <;> simp_all
@[simp] theorem link_f_lockHolder (s : State) (c p : NoteId) (j : NoteId) :
    ((s.link c p).notes j).lockHolder = (s.notes j).lockHolder := by
  simp only [State.acquire, State.release, State.incDisc, State.decDisc, State.setWaiters, State.setAdopted, State.setExpiry, State.setNotified, State.markFreed, State.eraseChild, State.clearParent, State.link, State.unlink, modNote_notes, upd_apply]; (repeat' split) <;> simp_all
@[simp] theorem link_f_allocated (s : State) (c p : NoteId) (j : NoteId) :
    ((s.link c p).notes j).allocated = (s.notes j).allocated := by
  simp only [State.acquire, State.release, State.incDisc, State.decDisc, State.setWaiters, State.setAdopted, State.setExpiry, State.setNotified, State.markFreed, State.eraseChild, State.clearParent, State.link, State.unlink, modNote_notes, upd_apply]; (repeat' split) <;> simp_all
@[simp] theorem link_f_freed (s : State) (c p : NoteId) (j : NoteId) :
    ((s.link c p).notes j).freed = (s.notes j).freed := by
  simp only [State.acquire, State.release, State.incDisc, State.decDisc, State.setWaiters, State.setAdopted, State.setExpiry, State.setNotified, State.markFreed, State.eraseChild, State.clearParent, State.link, State.unlink, modNote_notes, upd_apply]; (repeat' split) <;> simp_all
@[simp] theorem link_f_adopted (s : State) (c p : NoteId) (j : NoteId) :
    ((s.link c p).notes j).adopted = (s.notes j).adopted := by
  simp only [State.acquire, State.release, State.incDisc, State.decDisc, State.setWaiters, State.setAdopted, State.setExpiry, State.setNotified, State.markFreed, State.eraseChild, State.clearParent, State.link, State.unlink, modNote_notes, upd_apply]; (repeat' split) <;> simp_all
@[simp] theorem unlink_recs (s : State) (c p : NoteId) : (s.unlink c p).recs = s.recs := rfl
@[simp] theorem unlink_now (s : State) (c p : NoteId) : (s.unlink c p).now = s.now := rfl
@[simp] theorem unlink_pc (s : State) (c p : NoteId) : (s.unlink c p).pc = s.pc := rfl
@[simp] theorem unlink_users (s : State) (c p : NoteId) : (s.unlink c p).users = s.users := rfl
@[simp] theorem unlink_freeing (s : State) (c p : NoteId) : (s.unlink c p).freeing = s.freeing := rfl
@[simp] theorem unlink_published (s : State) (c p : NoteId) : (s.unlink c p).published = s.published := rfl
@[simp] theorem unlink_notifyCalled (s : State) (c p : NoteId) : (s.unlink c p).notifyCalled = s.notifyCalled := rfl
@[simp] theorem unlink_ownDl (s : State) (c p : NoteId) : (s.unlink c p).ownDl = s.ownDl := rfl
@[simp] theorem unlink_cparent (s : State) (c p : NoteId) : (s.unlink c p).cparent = s.cparent := rfl
@[simp] theorem unlink_ancEver (s : State) (c p : NoteId) : (s.unlink c p).ancEver = s.ancEver := rfl
@[simp] theorem unlink_pathMin (s : State) (c p : NoteId) : (s.unlink c p).pathMin = s.pathMin := rfl
@[simp] theorem unlink_bornNotified (s : State) (c p : NoteId) : (s.unlink c p).bornNotified = s.bornNotified := rfl
@[simp] theorem unlink_after (s : State) (c p : NoteId) : (s.unlink c p).after = s.after := rfl
@[simp] theorem unlink_observed (s : State) (c p : NoteId) : (s.unlink c p).observed = s.observed := rfl
@[simp] theorem unlink_f_parent (s : State) (c p : NoteId) (j : NoteId) :
    ((s.unlink c p).notes j).parent = if j = c then none else (s.notes j).parent := by
  simp only [State.acquire, State.release, State.incDisc, State.decDisc, State.setWaiters, State.setAdopted, State.setExpiry, State.setNotified, State.markFreed, State.eraseChild, State.clearParent, State.link, State.unlink, modNote_notes, upd_apply]; (repeat' split) <;> simp_all
@[simp] theorem unlink_f_children (s : State) (c p : NoteId) (j : NoteId) :
    ((s.unlink c p).notes j).children = if j = p then (s.notes j).children.erase c else (s.notes j).children := by
  simp only [State.acquire, State.release, State.incDisc, State.decDisc, State.setWaiters, State.setAdopted, State.setExpiry, State.setNotified, State.markFreed, State.eraseChild, State.clearParent, State.link, State.unlink, modNote_notes, upd_apply]; (repeat' split) <;> simp_all
@[simp] theorem unlink_f_notified (s : State) (c p : NoteId) (j : NoteId) :
    ((s.unlink c p).notes j).notified = (s.notes j).notified := by
  simp only [State.acquire, State.release, State.incDisc, State.decDisc, State.setWaiters, State.setAdopted, State.setExpiry, State.setNotified, State.markFreed, State.eraseChild, State.clearParent, State.link, State.unlink, modNote_notes, upd_apply]; (repeat' split) <;> simp_all
@[simp] theorem unlink_f_expiry (s : State) (c p : NoteId) (j : NoteId) :
    ((s.unlink c p).notes j).expiry = (s.notes j).expiry := by
  simp only [State.acquire, State.release, State.incDisc, State.decDisc, State.setWaiters, State.setAdopted, State.setExpiry, State.setNotified, State.markFreed, State.eraseChild, State.clearParent, State.link, State.unlink, modNote_notes, upd_apply]; (repeat' split) <;> simp_all
@[simp] theorem unlink_f_disconnecting (s : State) (c p : NoteId) (j : NoteId) :
    ((s.unlink c p).notes j).disconnecting = (s.notes j).disconnecting := by
  simp only [State.acquire, State.release, State.incDisc, State.decDisc, State.setWaiters, State.setAdopted, State.setExpiry, State.setNotified, State.markFreed, State.eraseChild, State.clearParent, State.link, State.unlink, modNote_notes, upd_apply]; (repeat' split) <;> simp_all
@[simp] theorem unlink_f_waiters (s : State) (c p : NoteId) (j : NoteId) :
    ((s.unlink c p).notes j).waiters = (s.notes j).waiters := by
  simp only [State.acquire, State.release, State.incDisc, State.decDisc, State.setWaiters, State.setAdopted, State.setExpiry, State.setNotified, State.markFreed, State.eraseChild, State.clearParent, State.link, State.unlink, modNote_notes, upd_apply]; (repeat' split) <;> simp_all
@[simp] theorem unlink_f_lockHolder (s : State) (c p : NoteId) (j : NoteId) :
    ((s.unlink c p).notes j).lockHolder = (s.notes j).lockHolder := by
  simp only [State.acquire, State.release, State.incDisc, State.decDisc, State.setWaiters, State.setAdopted, State.setExpiry, State.setNotified, State.markFreed, State.eraseChild, State.clearParent, State.link, State.unlink, modNote_notes, upd_apply]; (repeat' split) <;> simp_all
@[simp] theorem unlink_f_allocated (s : State) (c p : NoteId) (j : NoteId) :
    ((s.unlink c p).notes j).allocated = (s.notes j).allocated := by
  simp only [State.acquire, State.release, State.incDisc, State.decDisc, State.setWaiters, State.setAdopted, State.setExpiry, State.setNotified, State.markFreed, State.eraseChild, State.clearParent, State.link, State.unlink, modNote_notes, upd_apply]; (repeat' split) <;> simp_all
@[simp] theorem unlink_f_freed (s : State) (c p : NoteId) (j : NoteId) :
    ((s.unlink c p).notes j).freed = (s.notes j).freed := by
  simp only [State.acquire, State.release, State.incDisc, State.decDisc, State.setWaiters, State.setAdopted, State.setExpiry, State.setNotified, State.markFreed, State.eraseChild, State.clearParent, State.link, State.unlink, modNote_notes, upd_apply]; (repeat' split) <;> simp_all
@[simp] theorem unlink_f_adopted (s : State) (c p : NoteId) (j : NoteId) :
    ((s.unlink c p).notes j).adopted = (s.notes j).adopted := by
  simp only [State.acquire, State.release, State.incDisc, State.decDisc, State.setWaiters, State.setAdopted, State.setExpiry, State.setNotified, State.markFreed, State.eraseChild, State.clearParent, State.link, State.unlink, modNote_notes, upd_apply]; (repeat' split) <;> simp_all
@[simp] theorem allocNote_f (s : State) (k : NoteId) (par : Option NoteId) (dl : Dl) (j : NoteId) :
    (s.allocNote k par dl).notes j =
      if j = k then { NoteRec.blank with expiry := dl, allocated := true } else s.notes j := by
  simp [upd_apply]

/-! ### The control transfers, field by field -/

/-- The value of `expiry` after `newExpiry`. -/
def newExpiryVal (s : State) (n : NoteId) (k : DK) (j : NoteId) : Dl :=
  match k with
  | .newSelf (some p) dl => if j = n then Dl.min dl (s.notes p).expiry else (s.notes j).expiry
  | _ => (s.notes j).expiry

@[simp] theorem newExpiryVal_isNotified (s : State) (n j : NoteId) :
    newExpiryVal s n .isNotified j = (s.notes j).expiry := rfl
@[simp] theorem newExpiryVal_notifyApi (s : State) (n j : NoteId) :
    newExpiryVal s n .notifyApi j = (s.notes j).expiry := rfl
@[simp] theorem newExpiryVal_ready1 (s : State) (n j : NoteId) (d : Dl) :
    newExpiryVal s n (.ready1 d) j = (s.notes j).expiry := rfl
@[simp] theorem newExpiryVal_ready2 (s : State) (n j : NoteId) (r : Rid) (d : Dl) :
    newExpiryVal s n (.ready2 r d) j = (s.notes j).expiry := rfl
@[simp] theorem newExpiryVal_dequeue (s : State) (n j : NoteId) (r : Rid) (d : Dl) :
    newExpiryVal s n (.dequeue r d) j = (s.notes j).expiry := rfl
@[simp] theorem newExpiryVal_newSelf_none (s : State) (n j : NoteId) (d : Dl) :
    newExpiryVal s n (.newSelf none d) j = (s.notes j).expiry := rfl
@[simp] theorem newExpiryVal_newSelf_some (s : State) (n j p : NoteId) (d : Dl) :
    newExpiryVal s n (.newSelf (some p) d) j =
      if j = n then Dl.min d (s.notes p).expiry else (s.notes j).expiry := rfl
theorem newExpiryVal_ne (s : State) {n j : NoteId} (k : DK) (h : j ≠ n) :
    newExpiryVal s n k j = (s.notes j).expiry := by
  unfold newExpiryVal; split <;> simp [h]

@[simp] theorem newExpiry_recs (s : State) (n : NoteId) (k : DK) : (newExpiry s n k).recs = s.recs := by
  unfold newExpiry; split <;> rfl
@[simp] theorem newExpiry_now (s : State) (n : NoteId) (k : DK) : (newExpiry s n k).now = s.now := by
  unfold newExpiry; split <;> rfl
@[simp] theorem newExpiry_users (s : State) (n : NoteId) (k : DK) : (newExpiry s n k).users = s.users := by
  unfold newExpiry; split <;> rfl
@[simp] theorem newExpiry_freeing (s : State) (n : NoteId) (k : DK) : (newExpiry s n k).freeing = s.freeing := by
  unfold newExpiry; split <;> rfl
@[simp] theorem newExpiry_published (s : State) (n : NoteId) (k : DK) : (newExpiry s n k).published = s.published := by
  unfold newExpiry; split <;> rfl
@[simp] theorem newExpiry_notifyCalled (s : State) (n : NoteId) (k : DK) : (newExpiry s n k).notifyCalled = s.notifyCalled := by
  unfold newExpiry; split <;> rfl
@[simp] theorem newExpiry_ownDl (s : State) (n : NoteId) (k : DK) : (newExpiry s n k).ownDl = s.ownDl := by
  unfold newExpiry; split <;> rfl
@[simp] theorem newExpiry_cparent (s : State) (n : NoteId) (k : DK) : (newExpiry s n k).cparent = s.cparent := by
  unfold newExpiry; split <;> rfl
@[simp] theorem newExpiry_ancEver (s : State) (n : NoteId) (k : DK) : (newExpiry s n k).ancEver = s.ancEver := by
  unfold newExpiry; split <;> rfl
@[simp] theorem newExpiry_pathMin (s : State) (n : NoteId) (k : DK) : (newExpiry s n k).pathMin = s.pathMin := by
  unfold newExpiry; split <;> rfl
@[simp] theorem newExpiry_after (s : State) (n : NoteId) (k : DK) : (newExpiry s n k).after = s.after := by
  unfold newExpiry; split <;> rfl
@[simp] theorem newExpiry_observed (s : State) (n : NoteId) (k : DK) : (newExpiry s n k).observed = s.observed := by
  unfold newExpiry; split <;> rfl
@[simp] theorem newExpiry_pc (s : State) (n : NoteId) (k : DK) : (newExpiry s n k).pc = s.pc := by
  unfold newExpiry; split <;> rfl
@[simp] theorem newExpiry_bornNotified (s : State) (n : NoteId) (k : DK) : (newExpiry s n k).bornNotified = s.bornNotified := by
  unfold newExpiry; split <;> rfl
@[simp] theorem newExpiry_f_parent (s : State) (n : NoteId) (k : DK) (j : NoteId) :
    ((newExpiry s n k).notes j).parent = (s.notes j).parent := by
  unfold newExpiry; split <;> simp
@[simp] theorem newExpiry_f_children (s : State) (n : NoteId) (k : DK) (j : NoteId) :
    ((newExpiry s n k).notes j).children = (s.notes j).children := by
  unfold newExpiry; split <;> simp
@[simp] theorem newExpiry_f_notified (s : State) (n : NoteId) (k : DK) (j : NoteId) :
    ((newExpiry s n k).notes j).notified = (s.notes j).notified := by
  unfold newExpiry; split <;> simp
@[simp] theorem newExpiry_f_disconnecting (s : State) (n : NoteId) (k : DK) (j : NoteId) :
    ((newExpiry s n k).notes j).disconnecting = (s.notes j).disconnecting := by
  unfold newExpiry; split <;> simp
@[simp] theorem newExpiry_f_waiters (s : State) (n : NoteId) (k : DK) (j : NoteId) :
    ((newExpiry s n k).notes j).waiters = (s.notes j).waiters := by
  unfold newExpiry; split <;> simp
@[simp] theorem newExpiry_f_lockHolder (s : State) (n : NoteId) (k : DK) (j : NoteId) :
    ((newExpiry s n k).notes j).lockHolder = (s.notes j).lockHolder := by
  unfold newExpiry; split <;> simp
@[simp] theorem newExpiry_f_allocated (s : State) (n : NoteId) (k : DK) (j : NoteId) :
    ((newExpiry s n k).notes j).allocated = (s.notes j).allocated := by
  unfold newExpiry; split <;> simp
@[simp] theorem newExpiry_f_freed (s : State) (n : NoteId) (k : DK) (j : NoteId) :
    ((newExpiry s n k).notes j).freed = (s.notes j).freed := by
  unfold newExpiry; split <;> simp
@[simp] theorem newExpiry_f_adopted (s : State) (n : NoteId) (k : DK) (j : NoteId) :
    ((newExpiry s n k).notes j).adopted = (s.notes j).adopted := by
  unfold newExpiry; split <;> simp
@[simp] theorem newExpiry_f_expiry (s : State) (n : NoteId) (k : DK) (j : NoteId) :
    ((newExpiry s n k).notes j).expiry = newExpiryVal s n k j := by
  unfold newExpiry newExpiryVal; split <;> simp
@[simp] theorem afterDeadline_f_parent (s : State) (t : Tid) (n : NoteId) (nt : Dl) (k : DK) (j : NoteId) :
    ((afterDeadline s t n nt k).notes j).parent = (s.notes j).parent := by
  unfold afterDeadline; split <;> simp
@[simp] theorem afterDeadline_f_children (s : State) (t : Tid) (n : NoteId) (nt : Dl) (k : DK) (j : NoteId) :
    ((afterDeadline s t n nt k).notes j).children = (s.notes j).children := by
  unfold afterDeadline; split <;> simp
@[simp] theorem afterDeadline_f_notified (s : State) (t : Tid) (n : NoteId) (nt : Dl) (k : DK) (j : NoteId) :
    ((afterDeadline s t n nt k).notes j).notified = (s.notes j).notified := by
  unfold afterDeadline; split <;> simp
@[simp] theorem afterDeadline_f_disconnecting (s : State) (t : Tid) (n : NoteId) (nt : Dl) (k : DK) (j : NoteId) :
    ((afterDeadline s t n nt k).notes j).disconnecting = (s.notes j).disconnecting := by
  unfold afterDeadline; split <;> simp
@[simp] theorem afterDeadline_f_waiters (s : State) (t : Tid) (n : NoteId) (nt : Dl) (k : DK) (j : NoteId) :
    ((afterDeadline s t n nt k).notes j).waiters = (s.notes j).waiters := by
  unfold afterDeadline; split <;> simp
@[simp] theorem afterDeadline_f_lockHolder (s : State) (t : Tid) (n : NoteId) (nt : Dl) (k : DK) (j : NoteId) :
    ((afterDeadline s t n nt k).notes j).lockHolder = (s.notes j).lockHolder := by
  unfold afterDeadline; split <;> simp
@[simp] theorem afterDeadline_f_allocated (s : State) (t : Tid) (n : NoteId) (nt : Dl) (k : DK) (j : NoteId) :
    ((afterDeadline s t n nt k).notes j).allocated = (s.notes j).allocated := by
  unfold afterDeadline; split <;> simp
@[simp] theorem afterDeadline_f_freed (s : State) (t : Tid) (n : NoteId) (nt : Dl) (k : DK) (j : NoteId) :
    ((afterDeadline s t n nt k).notes j).freed = (s.notes j).freed := by
  unfold afterDeadline; split <;> simp
@[simp] theorem afterDeadline_f_adopted (s : State) (t : Tid) (n : NoteId) (nt : Dl) (k : DK) (j : NoteId) :
    ((afterDeadline s t n nt k).notes j).adopted = (s.notes j).adopted := by
  unfold afterDeadline; split <;> simp
@[simp] theorem afterDeadline_f_expiry (s : State) (t : Tid) (n : NoteId) (nt : Dl) (k : DK) (j : NoteId) :
    ((afterDeadline s t n nt k).notes j).expiry = newExpiryVal s n k j := by
  unfold afterDeadline; split <;> simp
/-- Outside `nsync_note_new` with a parent the notes are left alone. -/
theorem afterDeadline_notes_of (s : State) (t : Tid) (n : NoteId) (nt : Dl) {k : DK}
    (h : ∀ p dl, k ≠ .newSelf (some p) dl) : (afterDeadline s t n nt k).notes = s.notes := by
  have e : newExpiry s n k = s := by
    unfold newExpiry
    split
    · exact absurd rfl (h _ _)
    · rfl
  unfold afterDeadline
  rw [e]
  split <;> rfl
@[simp] theorem afterDeadline_recs (s : State) (t : Tid) (n : NoteId) (nt : Dl) (k : DK) : (afterDeadline s t n nt k).recs = s.recs := by
  unfold afterDeadline; split <;> simp
@[simp] theorem afterDeadline_now (s : State) (t : Tid) (n : NoteId) (nt : Dl) (k : DK) : (afterDeadline s t n nt k).now = s.now := by
  unfold afterDeadline; split <;> simp
@[simp] theorem afterDeadline_users (s : State) (t : Tid) (n : NoteId) (nt : Dl) (k : DK) : (afterDeadline s t n nt k).users = s.users := by
  unfold afterDeadline; split <;> simp
@[simp] theorem afterDeadline_freeing (s : State) (t : Tid) (n : NoteId) (nt : Dl) (k : DK) : (afterDeadline s t n nt k).freeing = s.freeing := by
  unfold afterDeadline; split <;> simp
@[simp] theorem afterDeadline_published (s : State) (t : Tid) (n : NoteId) (nt : Dl) (k : DK) : (afterDeadline s t n nt k).published = s.published := by
  unfold afterDeadline; split <;> simp
@[simp] theorem afterDeadline_notifyCalled (s : State) (t : Tid) (n : NoteId) (nt : Dl) (k : DK) : (afterDeadline s t n nt k).notifyCalled = s.notifyCalled := by
  unfold afterDeadline; split <;> simp
@[simp] theorem afterDeadline_ownDl (s : State) (t : Tid) (n : NoteId) (nt : Dl) (k : DK) : (afterDeadline s t n nt k).ownDl = s.ownDl := by
  unfold afterDeadline; split <;> simp
@[simp] theorem afterDeadline_cparent (s : State) (t : Tid) (n : NoteId) (nt : Dl) (k : DK) : (afterDeadline s t n nt k).cparent = s.cparent := by
  unfold afterDeadline; split <;> simp
@[simp] theorem afterDeadline_ancEver (s : State) (t : Tid) (n : NoteId) (nt : Dl) (k : DK) : (afterDeadline s t n nt k).ancEver = s.ancEver := by
  unfold afterDeadline; split <;> simp
@[simp] theorem afterDeadline_pathMin (s : State) (t : Tid) (n : NoteId) (nt : Dl) (k : DK) : (afterDeadline s t n nt k).pathMin = s.pathMin := by
  unfold afterDeadline; split <;> simp
@[simp] theorem afterDeadline_after (s : State) (t : Tid) (n : NoteId) (nt : Dl) (k : DK) : (afterDeadline s t n nt k).after = s.after := by
  unfold afterDeadline; split <;> simp
@[simp] theorem afterDeadline_observed (s : State) (t : Tid) (n : NoteId) (nt : Dl) (k : DK) : (afterDeadline s t n nt k).observed = s.observed := by
  unfold afterDeadline; split <;> simp
@[simp] theorem afterDeadline_pc (s : State) (t : Tid) (n : NoteId) (nt : Dl) (k : DK) :
    (afterDeadline s t n nt k).pc = upd s.pc t (afterDeadlinePc n nt k) := by
  unfold afterDeadline; split <;> simp
@[simp] theorem afterDeadline_bornNotified (s : State) (t : Tid) (n : NoteId) (nt : Dl) (k : DK) : (afterDeadline s t n nt k).bornNotified =
    (if bornNow nt k then upd s.bornNotified n true else s.bornNotified) := by
  unfold afterDeadline; split <;> simp [*]
@[simp] theorem leave_notes (s : State) (t : Tid) (n : NoteId) : (s.leave t n).notes = s.notes := rfl
@[simp] theorem leave_recs (s : State) (t : Tid) (n : NoteId) : (s.leave t n).recs = s.recs := rfl
@[simp] theorem leave_now (s : State) (t : Tid) (n : NoteId) : (s.leave t n).now = s.now := rfl
@[simp] theorem leave_freeing (s : State) (t : Tid) (n : NoteId) : (s.leave t n).freeing = s.freeing := rfl
@[simp] theorem leave_published (s : State) (t : Tid) (n : NoteId) : (s.leave t n).published = s.published := rfl
@[simp] theorem leave_notifyCalled (s : State) (t : Tid) (n : NoteId) : (s.leave t n).notifyCalled = s.notifyCalled := rfl
@[simp] theorem leave_ownDl (s : State) (t : Tid) (n : NoteId) : (s.leave t n).ownDl = s.ownDl := rfl
@[simp] theorem leave_cparent (s : State) (t : Tid) (n : NoteId) : (s.leave t n).cparent = s.cparent := rfl
@[simp] theorem leave_ancEver (s : State) (t : Tid) (n : NoteId) : (s.leave t n).ancEver = s.ancEver := rfl
@[simp] theorem leave_pathMin (s : State) (t : Tid) (n : NoteId) : (s.leave t n).pathMin = s.pathMin := rfl
@[simp] theorem leave_bornNotified (s : State) (t : Tid) (n : NoteId) : (s.leave t n).bornNotified = s.bornNotified := rfl
@[simp] theorem leave_after (s : State) (t : Tid) (n : NoteId) : (s.leave t n).after = s.after := rfl
@[simp] theorem leave_observed (s : State) (t : Tid) (n : NoteId) : (s.leave t n).observed = s.observed := rfl
@[simp] theorem leave_pc (s : State) (t : Tid) (n : NoteId) : (s.leave t n).pc = upd s.pc t .idle := rfl
@[simp] theorem leave_users (s : State) (t : Tid) (n : NoteId) : (s.leave t n).users = upd s.users n ((s.users n).erase t) := rfl

/-- Where control goes when `notify (n)` returns. -/
def afterNotifyPc (n : NoteId) : NK → PC
  | .ofApi => .retNotify n
  | .ofDeadline k => afterDeadlinePc n (some 0) k

/-- `notify` was called by the `nsync_note_is_notified (n)` of `nsync_note_new`. -/
def NK.bornNow : NK → Bool
  | .ofApi => false
  | .ofDeadline k => Note.bornNow (some 0) k

@[simp] theorem afterNotify_f_parent (s : State) (t : Tid) (n : NoteId) (k : NK) (j : NoteId) :
    ((afterNotify s t n k).notes j).parent = (s.notes j).parent := by
  cases k <;> simp [afterNotify]
@[simp] theorem afterNotify_f_children (s : State) (t : Tid) (n : NoteId) (k : NK) (j : NoteId) :
    ((afterNotify s t n k).notes j).children = (s.notes j).children := by
  cases k <;> simp [afterNotify]
@[simp] theorem afterNotify_f_notified (s : State) (t : Tid) (n : NoteId) (k : NK) (j : NoteId) :
    ((afterNotify s t n k).notes j).notified = (s.notes j).notified := by
  cases k <;> simp [afterNotify]
@[simp] theorem afterNotify_f_disconnecting (s : State) (t : Tid) (n : NoteId) (k : NK) (j : NoteId) :
    ((afterNotify s t n k).notes j).disconnecting = (s.notes j).disconnecting := by
  cases k <;> simp [afterNotify]
@[simp] theorem afterNotify_f_waiters (s : State) (t : Tid) (n : NoteId) (k : NK) (j : NoteId) :
    ((afterNotify s t n k).notes j).waiters = (s.notes j).waiters := by
  cases k <;> simp [afterNotify]
@[simp] theorem afterNotify_f_lockHolder (s : State) (t : Tid) (n : NoteId) (k : NK) (j : NoteId) :
    ((afterNotify s t n k).notes j).lockHolder = (s.notes j).lockHolder := by
  cases k <;> simp [afterNotify]
@[simp] theorem afterNotify_f_allocated (s : State) (t : Tid) (n : NoteId) (k : NK) (j : NoteId) :
    ((afterNotify s t n k).notes j).allocated = (s.notes j).allocated := by
  cases k <;> simp [afterNotify]
@[simp] theorem afterNotify_f_freed (s : State) (t : Tid) (n : NoteId) (k : NK) (j : NoteId) :
    ((afterNotify s t n k).notes j).freed = (s.notes j).freed := by
  cases k <;> simp [afterNotify]
@[simp] theorem afterNotify_f_adopted (s : State) (t : Tid) (n : NoteId) (k : NK) (j : NoteId) :
    ((afterNotify s t n k).notes j).adopted = (s.notes j).adopted := by
  cases k <;> simp [afterNotify]
/-- The value of `expiry` after `notify (n)` has returned to its caller. -/
def NK.expiryVal (s : State) (n : NoteId) (k : NK) (j : NoteId) : Dl :=
  match k with
  | .ofApi => (s.notes j).expiry
  | .ofDeadline dk => newExpiryVal s n dk j
@[simp] theorem NK.expiryVal_ofApi (s : State) (n j : NoteId) :
    NK.expiryVal s n .ofApi j = (s.notes j).expiry := rfl
@[simp] theorem NK.expiryVal_ofDeadline (s : State) (n j : NoteId) (dk : DK) :
    NK.expiryVal s n (.ofDeadline dk) j = newExpiryVal s n dk j := rfl
theorem NK.expiryVal_ne (s : State) {n j : NoteId} (k : NK) (h : j ≠ n) :
    NK.expiryVal s n k j = (s.notes j).expiry := by
  cases k
  · rfl
  · exact newExpiryVal_ne s _ h
@[simp] theorem afterNotify_f_expiry (s : State) (t : Tid) (n : NoteId) (k : NK) (j : NoteId) :
    ((afterNotify s t n k).notes j).expiry = NK.expiryVal s n k j := by
  cases k <;> simp [afterNotify]
theorem afterNotify_notes_of (s : State) (t : Tid) (n : NoteId) {k : NK}
    (h : ∀ p dl, k ≠ .ofDeadline (.newSelf (some p) dl)) : (afterNotify s t n k).notes = s.notes := by
  cases k with
  | ofApi => simp [afterNotify]
  | ofDeadline dk =>
    simp only [afterNotify]
    exact afterDeadline_notes_of s t n _ (fun p dl e => h p dl (by rw [e]))
@[simp] theorem afterNotify_recs (s : State) (t : Tid) (n : NoteId) (k : NK) : (afterNotify s t n k).recs = s.recs := by
  cases k <;> simp [afterNotify]
@[simp] theorem afterNotify_now (s : State) (t : Tid) (n : NoteId) (k : NK) : (afterNotify s t n k).now = s.now := by
  cases k <;> simp [afterNotify]
@[simp] theorem afterNotify_users (s : State) (t : Tid) (n : NoteId) (k : NK) : (afterNotify s t n k).users = s.users := by
  cases k <;> simp [afterNotify]
@[simp] theorem afterNotify_freeing (s : State) (t : Tid) (n : NoteId) (k : NK) : (afterNotify s t n k).freeing = s.freeing := by
  cases k <;> simp [afterNotify]
@[simp] theorem afterNotify_published (s : State) (t : Tid) (n : NoteId) (k : NK) : (afterNotify s t n k).published = s.published := by
  cases k <;> simp [afterNotify]
@[simp] theorem afterNotify_notifyCalled (s : State) (t : Tid) (n : NoteId) (k : NK) : (afterNotify s t n k).notifyCalled = s.notifyCalled := by
  cases k <;> simp [afterNotify]
@[simp] theorem afterNotify_ownDl (s : State) (t : Tid) (n : NoteId) (k : NK) : (afterNotify s t n k).ownDl = s.ownDl := by
  cases k <;> simp [afterNotify]
@[simp] theorem afterNotify_cparent (s : State) (t : Tid) (n : NoteId) (k : NK) : (afterNotify s t n k).cparent = s.cparent := by
  cases k <;> simp [afterNotify]
@[simp] theorem afterNotify_ancEver (s : State) (t : Tid) (n : NoteId) (k : NK) : (afterNotify s t n k).ancEver = s.ancEver := by
  cases k <;> simp [afterNotify]
@[simp] theorem afterNotify_pathMin (s : State) (t : Tid) (n : NoteId) (k : NK) : (afterNotify s t n k).pathMin = s.pathMin := by
  cases k <;> simp [afterNotify]
@[simp] theorem afterNotify_after (s : State) (t : Tid) (n : NoteId) (k : NK) : (afterNotify s t n k).after = s.after := by
  cases k <;> simp [afterNotify]
@[simp] theorem afterNotify_observed (s : State) (t : Tid) (n : NoteId) (k : NK) : (afterNotify s t n k).observed = s.observed := by
  cases k <;> simp [afterNotify]
@[simp] theorem afterNotify_pc (s : State) (t : Tid) (n : NoteId) (k : NK) :
    (afterNotify s t n k).pc = upd s.pc t (afterNotifyPc n k) := by
  cases k <;> simp [afterNotify, afterNotifyPc]
@[simp] theorem afterNotify_bornNotified (s : State) (t : Tid) (n : NoteId) (k : NK) : (afterNotify s t n k).bornNotified =
    (if k.bornNow then upd s.bornNotified n true else s.bornNotified) := by
  cases k with
  | ofApi => simp [afterNotify, NK.bornNow]
  | ofDeadline k => simp only [afterNotify, afterDeadline_bornNotified]; rfl
@[simp] theorem childUnlink_recs (s : State) (f : Frame) (rest : List Frame) (top : Top) : (childUnlink s f rest top).recs = s.recs := by
  unfold childUnlink; split <;> rfl
@[simp] theorem childUnlink_now (s : State) (f : Frame) (rest : List Frame) (top : Top) : (childUnlink s f rest top).now = s.now := by
  unfold childUnlink; split <;> rfl
@[simp] theorem childUnlink_users (s : State) (f : Frame) (rest : List Frame) (top : Top) : (childUnlink s f rest top).users = s.users := by
  unfold childUnlink; split <;> rfl
@[simp] theorem childUnlink_freeing (s : State) (f : Frame) (rest : List Frame) (top : Top) : (childUnlink s f rest top).freeing = s.freeing := by
  unfold childUnlink; split <;> rfl
@[simp] theorem childUnlink_published (s : State) (f : Frame) (rest : List Frame) (top : Top) : (childUnlink s f rest top).published = s.published := by
  unfold childUnlink; split <;> rfl
@[simp] theorem childUnlink_notifyCalled (s : State) (f : Frame) (rest : List Frame) (top : Top) : (childUnlink s f rest top).notifyCalled = s.notifyCalled := by
  unfold childUnlink; split <;> rfl
@[simp] theorem childUnlink_ownDl (s : State) (f : Frame) (rest : List Frame) (top : Top) : (childUnlink s f rest top).ownDl = s.ownDl := by
  unfold childUnlink; split <;> rfl
@[simp] theorem childUnlink_cparent (s : State) (f : Frame) (rest : List Frame) (top : Top) : (childUnlink s f rest top).cparent = s.cparent := by
  unfold childUnlink; split <;> rfl
@[simp] theorem childUnlink_ancEver (s : State) (f : Frame) (rest : List Frame) (top : Top) : (childUnlink s f rest top).ancEver = s.ancEver := by
  unfold childUnlink; split <;> rfl
@[simp] theorem childUnlink_pathMin (s : State) (f : Frame) (rest : List Frame) (top : Top) : (childUnlink s f rest top).pathMin = s.pathMin := by
  unfold childUnlink; split <;> rfl
@[simp] theorem childUnlink_bornNotified (s : State) (f : Frame) (rest : List Frame) (top : Top) : (childUnlink s f rest top).bornNotified = s.bornNotified := by
  unfold childUnlink; split <;> rfl
@[simp] theorem childUnlink_after (s : State) (f : Frame) (rest : List Frame) (top : Top) : (childUnlink s f rest top).after = s.after := by
  unfold childUnlink; split <;> rfl
@[simp] theorem childUnlink_observed (s : State) (f : Frame) (rest : List Frame) (top : Top) : (childUnlink s f rest top).observed = s.observed := by
  unfold childUnlink; split <;> rfl
@[simp] theorem childUnlink_pc (s : State) (f : Frame) (rest : List Frame) (top : Top) : (childUnlink s f rest top).pc = s.pc := by
  unfold childUnlink; split <;> rfl
@[simp] theorem childUnlink_f_notified (s : State) (f : Frame) (rest : List Frame) (top : Top) (j : NoteId) :
    ((childUnlink s f rest top).notes j).notified = (s.notes j).notified := by
  unfold childUnlink; split <;> simp
@[simp] theorem childUnlink_f_expiry (s : State) (f : Frame) (rest : List Frame) (top : Top) (j : NoteId) :
    ((childUnlink s f rest top).notes j).expiry = (s.notes j).expiry := by
  unfold childUnlink; split <;> simp
@[simp] theorem childUnlink_f_disconnecting (s : State) (f : Frame) (rest : List Frame) (top : Top) (j : NoteId) :
    ((childUnlink s f rest top).notes j).disconnecting = (s.notes j).disconnecting := by
  unfold childUnlink; split <;> simp
@[simp] theorem childUnlink_f_waiters (s : State) (f : Frame) (rest : List Frame) (top : Top) (j : NoteId) :
    ((childUnlink s f rest top).notes j).waiters = (s.notes j).waiters := by
  unfold childUnlink; split <;> simp
@[simp] theorem childUnlink_f_lockHolder (s : State) (f : Frame) (rest : List Frame) (top : Top) (j : NoteId) :
    ((childUnlink s f rest top).notes j).lockHolder = (s.notes j).lockHolder := by
  unfold childUnlink; split <;> simp
@[simp] theorem childUnlink_f_adopted (s : State) (f : Frame) (rest : List Frame) (top : Top) (j : NoteId) :
    ((childUnlink s f rest top).notes j).adopted = (s.notes j).adopted := by
  unfold childUnlink; split <;> simp
@[simp] theorem childUnlink_f_allocated (s : State) (f : Frame) (rest : List Frame) (top : Top) (j : NoteId) :
    ((childUnlink s f rest top).notes j).allocated = (s.notes j).allocated := by
  unfold childUnlink; split <;> simp
@[simp] theorem childUnlink_f_freed (s : State) (f : Frame) (rest : List Frame) (top : Top) (j : NoteId) :
    ((childUnlink s f rest top).notes j).freed = (s.notes j).freed := by
  unfold childUnlink; split <;> simp
@[simp] theorem childUnlink_f_parent (s : State) (f : Frame) (rest : List Frame) (top : Top) (j : NoteId) :
    ((childUnlink s f rest top).notes j).parent =
      if (childUnlinks s f rest top).isSome = true ∧ j = f.note then none else (s.notes j).parent := by
  unfold childUnlink; split <;> simp_all
@[simp] theorem childUnlink_f_children (s : State) (f : Frame) (rest : List Frame) (top : Top) (j : NoteId) :
    ((childUnlink s f rest top).notes j).children =
      if childUnlinks s f rest top = some j then (s.notes j).children.erase f.note
      else (s.notes j).children := by
  unfold childUnlink; split <;> simp_all
  · rename_i p hp; split <;> simp_all
    intro h; exact absurd h.symm ‹_›
@[simp] theorem childReturn_recs (s : State) (t : Tid) (f : Frame) (rest : List Frame) (top : Top) : (childReturn s t f rest top).recs = s.recs := by
  unfold childReturn; split <;> simp
@[simp] theorem childReturn_now (s : State) (t : Tid) (f : Frame) (rest : List Frame) (top : Top) : (childReturn s t f rest top).now = s.now := by
  unfold childReturn; split <;> simp
@[simp] theorem childReturn_users (s : State) (t : Tid) (f : Frame) (rest : List Frame) (top : Top) : (childReturn s t f rest top).users = s.users := by
  unfold childReturn; split <;> simp
@[simp] theorem childReturn_freeing (s : State) (t : Tid) (f : Frame) (rest : List Frame) (top : Top) : (childReturn s t f rest top).freeing = s.freeing := by
  unfold childReturn; split <;> simp
@[simp] theorem childReturn_published (s : State) (t : Tid) (f : Frame) (rest : List Frame) (top : Top) : (childReturn s t f rest top).published = s.published := by
  unfold childReturn; split <;> simp
@[simp] theorem childReturn_notifyCalled (s : State) (t : Tid) (f : Frame) (rest : List Frame) (top : Top) : (childReturn s t f rest top).notifyCalled = s.notifyCalled := by
  unfold childReturn; split <;> simp
@[simp] theorem childReturn_ownDl (s : State) (t : Tid) (f : Frame) (rest : List Frame) (top : Top) : (childReturn s t f rest top).ownDl = s.ownDl := by
  unfold childReturn; split <;> simp
@[simp] theorem childReturn_cparent (s : State) (t : Tid) (f : Frame) (rest : List Frame) (top : Top) : (childReturn s t f rest top).cparent = s.cparent := by
  unfold childReturn; split <;> simp
@[simp] theorem childReturn_ancEver (s : State) (t : Tid) (f : Frame) (rest : List Frame) (top : Top) : (childReturn s t f rest top).ancEver = s.ancEver := by
  unfold childReturn; split <;> simp
@[simp] theorem childReturn_pathMin (s : State) (t : Tid) (f : Frame) (rest : List Frame) (top : Top) : (childReturn s t f rest top).pathMin = s.pathMin := by
  unfold childReturn; split <;> simp
@[simp] theorem childReturn_bornNotified (s : State) (t : Tid) (f : Frame) (rest : List Frame) (top : Top) : (childReturn s t f rest top).bornNotified = s.bornNotified := by
  unfold childReturn; split <;> simp
@[simp] theorem childReturn_after (s : State) (t : Tid) (f : Frame) (rest : List Frame) (top : Top) : (childReturn s t f rest top).after = s.after := by
  unfold childReturn; split <;> simp
@[simp] theorem childReturn_observed (s : State) (t : Tid) (f : Frame) (rest : List Frame) (top : Top) : (childReturn s t f rest top).observed = s.observed := by
  unfold childReturn; split <;> simp
@[simp] theorem childReturn_pc (s : State) (t : Tid) (f : Frame) (rest : List Frame) (top : Top) :
    (childReturn s t f rest top).pc = upd s.pc t (childReturnPc f rest top) := by
  unfold childReturn; split <;> simp
@[simp] theorem childReturn_f_notified (s : State) (t : Tid) (f : Frame) (rest : List Frame) (top : Top) (j : NoteId) :
    ((childReturn s t f rest top).notes j).notified = (s.notes j).notified := by
  unfold childReturn; split <;> simp
@[simp] theorem childReturn_f_expiry (s : State) (t : Tid) (f : Frame) (rest : List Frame) (top : Top) (j : NoteId) :
    ((childReturn s t f rest top).notes j).expiry = (s.notes j).expiry := by
  unfold childReturn; split <;> simp
@[simp] theorem childReturn_f_waiters (s : State) (t : Tid) (f : Frame) (rest : List Frame) (top : Top) (j : NoteId) :
    ((childReturn s t f rest top).notes j).waiters = (s.notes j).waiters := by
  unfold childReturn; split <;> simp
@[simp] theorem childReturn_f_lockHolder (s : State) (t : Tid) (f : Frame) (rest : List Frame) (top : Top) (j : NoteId) :
    ((childReturn s t f rest top).notes j).lockHolder = (s.notes j).lockHolder := by
  unfold childReturn; split <;> simp
@[simp] theorem childReturn_f_adopted (s : State) (t : Tid) (f : Frame) (rest : List Frame) (top : Top) (j : NoteId) :
    ((childReturn s t f rest top).notes j).adopted = (s.notes j).adopted := by
  unfold childReturn; split <;> simp
@[simp] theorem childReturn_f_allocated (s : State) (t : Tid) (f : Frame) (rest : List Frame) (top : Top) (j : NoteId) :
    ((childReturn s t f rest top).notes j).allocated = (s.notes j).allocated := by
  unfold childReturn; split <;> simp
@[simp] theorem childReturn_f_freed (s : State) (t : Tid) (f : Frame) (rest : List Frame) (top : Top) (j : NoteId) :
    ((childReturn s t f rest top).notes j).freed = (s.notes j).freed := by
  unfold childReturn; split <;> simp
@[simp] theorem childReturn_f_parent (s : State) (t : Tid) (f : Frame) (rest : List Frame) (top : Top) (j : NoteId) :
    ((childReturn s t f rest top).notes j).parent =
      if (childUnlinks s f rest top).isSome = true ∧ j = f.note then none else (s.notes j).parent := by
  unfold childReturn; split <;> simp
@[simp] theorem childReturn_f_children (s : State) (t : Tid) (f : Frame) (rest : List Frame) (top : Top) (j : NoteId) :
    ((childReturn s t f rest top).notes j).children =
      if childUnlinks s f rest top = some j then (s.notes j).children.erase f.note
      else (s.notes j).children := by
  unfold childReturn; split <;> simp
@[simp] theorem childReturn_f_disconnecting (s : State) (t : Tid) (f : Frame) (rest : List Frame) (top : Top) (j : NoteId) :
    ((childReturn s t f rest top).notes j).disconnecting =
      if childReturnDec f rest top = some j then (s.notes j).disconnecting - 1
      else (s.notes j).disconnecting := by
  unfold childReturn; split <;> simp_all
  · rename_i k hk; split <;> simp_all
    intro h; exact absurd h.symm ‹_›
@[simp] theorem childScanStart_recs (s : State) (t : Tid) (f : Frame) (rest : List Frame) (top : Top) : (childScanStart s t f rest top).recs = s.recs := rfl
@[simp] theorem childScanStart_now (s : State) (t : Tid) (f : Frame) (rest : List Frame) (top : Top) : (childScanStart s t f rest top).now = s.now := rfl
@[simp] theorem childScanStart_users (s : State) (t : Tid) (f : Frame) (rest : List Frame) (top : Top) : (childScanStart s t f rest top).users = s.users := rfl
@[simp] theorem childScanStart_freeing (s : State) (t : Tid) (f : Frame) (rest : List Frame) (top : Top) : (childScanStart s t f rest top).freeing = s.freeing := rfl
@[simp] theorem childScanStart_published (s : State) (t : Tid) (f : Frame) (rest : List Frame) (top : Top) : (childScanStart s t f rest top).published = s.published := rfl
@[simp] theorem childScanStart_notifyCalled (s : State) (t : Tid) (f : Frame) (rest : List Frame) (top : Top) : (childScanStart s t f rest top).notifyCalled = s.notifyCalled := rfl
@[simp] theorem childScanStart_ownDl (s : State) (t : Tid) (f : Frame) (rest : List Frame) (top : Top) : (childScanStart s t f rest top).ownDl = s.ownDl := rfl
@[simp] theorem childScanStart_cparent (s : State) (t : Tid) (f : Frame) (rest : List Frame) (top : Top) : (childScanStart s t f rest top).cparent = s.cparent := rfl
@[simp] theorem childScanStart_ancEver (s : State) (t : Tid) (f : Frame) (rest : List Frame) (top : Top) : (childScanStart s t f rest top).ancEver = s.ancEver := rfl
@[simp] theorem childScanStart_pathMin (s : State) (t : Tid) (f : Frame) (rest : List Frame) (top : Top) : (childScanStart s t f rest top).pathMin = s.pathMin := rfl
@[simp] theorem childScanStart_bornNotified (s : State) (t : Tid) (f : Frame) (rest : List Frame) (top : Top) : (childScanStart s t f rest top).bornNotified = s.bornNotified := rfl
@[simp] theorem childScanStart_after (s : State) (t : Tid) (f : Frame) (rest : List Frame) (top : Top) : (childScanStart s t f rest top).after = s.after := rfl
@[simp] theorem childScanStart_observed (s : State) (t : Tid) (f : Frame) (rest : List Frame) (top : Top) : (childScanStart s t f rest top).observed = s.observed := rfl
@[simp] theorem childScanStart_pc (s : State) (t : Tid) (f : Frame) (rest : List Frame) (top : Top) :
    (childScanStart s t f rest top).pc =
      upd s.pc t (childLoopStartPc (s.notes f.note).children f rest top) := rfl
theorem childScanStart_notes (s : State) (t : Tid) (f : Frame) (rest : List Frame) (top : Top) :
    (childScanStart s t f rest top).notes = (s.setAdopted f.note false).notes := rfl
@[simp] theorem childScanStart_f_parent (s : State) (t : Tid) (f : Frame) (rest : List Frame) (top : Top) (j : NoteId) :
    ((childScanStart s t f rest top).notes j).parent = (s.notes j).parent := by
  simp [childScanStart]
@[simp] theorem childScanStart_f_children (s : State) (t : Tid) (f : Frame) (rest : List Frame) (top : Top) (j : NoteId) :
    ((childScanStart s t f rest top).notes j).children = (s.notes j).children := by
  simp [childScanStart]
@[simp] theorem childScanStart_f_notified (s : State) (t : Tid) (f : Frame) (rest : List Frame) (top : Top) (j : NoteId) :
    ((childScanStart s t f rest top).notes j).notified = (s.notes j).notified := by
  simp [childScanStart]
@[simp] theorem childScanStart_f_expiry (s : State) (t : Tid) (f : Frame) (rest : List Frame) (top : Top) (j : NoteId) :
    ((childScanStart s t f rest top).notes j).expiry = (s.notes j).expiry := by
  simp [childScanStart]
@[simp] theorem childScanStart_f_disconnecting (s : State) (t : Tid) (f : Frame) (rest : List Frame) (top : Top) (j : NoteId) :
    ((childScanStart s t f rest top).notes j).disconnecting = (s.notes j).disconnecting := by
  simp [childScanStart]
@[simp] theorem childScanStart_f_waiters (s : State) (t : Tid) (f : Frame) (rest : List Frame) (top : Top) (j : NoteId) :
    ((childScanStart s t f rest top).notes j).waiters = (s.notes j).waiters := by
  simp [childScanStart]
@[simp] theorem childScanStart_f_lockHolder (s : State) (t : Tid) (f : Frame) (rest : List Frame) (top : Top) (j : NoteId) :
    ((childScanStart s t f rest top).notes j).lockHolder = (s.notes j).lockHolder := by
  simp [childScanStart]
@[simp] theorem childScanStart_f_allocated (s : State) (t : Tid) (f : Frame) (rest : List Frame) (top : Top) (j : NoteId) :
    ((childScanStart s t f rest top).notes j).allocated = (s.notes j).allocated := by
  simp [childScanStart]
@[simp] theorem childScanStart_f_freed (s : State) (t : Tid) (f : Frame) (rest : List Frame) (top : Top) (j : NoteId) :
    ((childScanStart s t f rest top).notes j).freed = (s.notes j).freed := by
  simp [childScanStart]
@[simp] theorem childScanStart_f_adopted (s : State) (t : Tid) (f : Frame) (rest : List Frame) (top : Top) (j : NoteId) :
    ((childScanStart s t f rest top).notes j).adopted =
      if j = f.note then false else (s.notes j).adopted := by
  simp [childScanStart]
/-- Where control goes after a waiter has been woken (or the flag stored). -/
def childWakeNextPc (s : State) (f : Frame) (rest : List Frame) (top : Top) : PC :=
  match (s.notes f.note).waiters with
  | r :: _ => .chd (.wake r) (f :: rest) top
  | [] => childLoopStartPc (s.notes f.note).children f rest top

@[simp] theorem childWakeNext_recs (s : State) (t : Tid) (f : Frame) (rest : List Frame) (top : Top) : (childWakeNext s t f rest top).recs = s.recs := by
  unfold childWakeNext; split <;> rfl
@[simp] theorem childWakeNext_now (s : State) (t : Tid) (f : Frame) (rest : List Frame) (top : Top) : (childWakeNext s t f rest top).now = s.now := by
  unfold childWakeNext; split <;> rfl
@[simp] theorem childWakeNext_users (s : State) (t : Tid) (f : Frame) (rest : List Frame) (top : Top) : (childWakeNext s t f rest top).users = s.users := by
  unfold childWakeNext; split <;> rfl
@[simp] theorem childWakeNext_freeing (s : State) (t : Tid) (f : Frame) (rest : List Frame) (top : Top) : (childWakeNext s t f rest top).freeing = s.freeing := by
  unfold childWakeNext; split <;> rfl
@[simp] theorem childWakeNext_published (s : State) (t : Tid) (f : Frame) (rest : List Frame) (top : Top) : (childWakeNext s t f rest top).published = s.published := by
  unfold childWakeNext; split <;> rfl
@[simp] theorem childWakeNext_notifyCalled (s : State) (t : Tid) (f : Frame) (rest : List Frame) (top : Top) : (childWakeNext s t f rest top).notifyCalled = s.notifyCalled := by
  unfold childWakeNext; split <;> rfl
@[simp] theorem childWakeNext_ownDl (s : State) (t : Tid) (f : Frame) (rest : List Frame) (top : Top) : (childWakeNext s t f rest top).ownDl = s.ownDl := by
  unfold childWakeNext; split <;> rfl
@[simp] theorem childWakeNext_cparent (s : State) (t : Tid) (f : Frame) (rest : List Frame) (top : Top) : (childWakeNext s t f rest top).cparent = s.cparent := by
  unfold childWakeNext; split <;> rfl
@[simp] theorem childWakeNext_ancEver (s : State) (t : Tid) (f : Frame) (rest : List Frame) (top : Top) : (childWakeNext s t f rest top).ancEver = s.ancEver := by
  unfold childWakeNext; split <;> rfl
@[simp] theorem childWakeNext_pathMin (s : State) (t : Tid) (f : Frame) (rest : List Frame) (top : Top) : (childWakeNext s t f rest top).pathMin = s.pathMin := by
  unfold childWakeNext; split <;> rfl
@[simp] theorem childWakeNext_bornNotified (s : State) (t : Tid) (f : Frame) (rest : List Frame) (top : Top) : (childWakeNext s t f rest top).bornNotified = s.bornNotified := by
  unfold childWakeNext; split <;> rfl
@[simp] theorem childWakeNext_after (s : State) (t : Tid) (f : Frame) (rest : List Frame) (top : Top) : (childWakeNext s t f rest top).after = s.after := by
  unfold childWakeNext; split <;> rfl
@[simp] theorem childWakeNext_observed (s : State) (t : Tid) (f : Frame) (rest : List Frame) (top : Top) : (childWakeNext s t f rest top).observed = s.observed := by
  unfold childWakeNext; split <;> rfl
@[simp] theorem childWakeNext_pc (s : State) (t : Tid) (f : Frame) (rest : List Frame) (top : Top) :
    (childWakeNext s t f rest top).pc = upd s.pc t (childWakeNextPc s f rest top) := by
  unfold childWakeNext childWakeNextPc; split <;> simp_all
@[simp] theorem childWakeNext_f_parent (s : State) (t : Tid) (f : Frame) (rest : List Frame) (top : Top) (j : NoteId) :
    ((childWakeNext s t f rest top).notes j).parent = (s.notes j).parent := by
  unfold childWakeNext; split <;> simp
@[simp] theorem childWakeNext_f_children (s : State) (t : Tid) (f : Frame) (rest : List Frame) (top : Top) (j : NoteId) :
    ((childWakeNext s t f rest top).notes j).children = (s.notes j).children := by
  unfold childWakeNext; split <;> simp
@[simp] theorem childWakeNext_f_notified (s : State) (t : Tid) (f : Frame) (rest : List Frame) (top : Top) (j : NoteId) :
    ((childWakeNext s t f rest top).notes j).notified = (s.notes j).notified := by
  unfold childWakeNext; split <;> simp
@[simp] theorem childWakeNext_f_expiry (s : State) (t : Tid) (f : Frame) (rest : List Frame) (top : Top) (j : NoteId) :
    ((childWakeNext s t f rest top).notes j).expiry = (s.notes j).expiry := by
  unfold childWakeNext; split <;> simp
@[simp] theorem childWakeNext_f_disconnecting (s : State) (t : Tid) (f : Frame) (rest : List Frame) (top : Top) (j : NoteId) :
    ((childWakeNext s t f rest top).notes j).disconnecting = (s.notes j).disconnecting := by
  unfold childWakeNext; split <;> simp
@[simp] theorem childWakeNext_f_waiters (s : State) (t : Tid) (f : Frame) (rest : List Frame) (top : Top) (j : NoteId) :
    ((childWakeNext s t f rest top).notes j).waiters =
      if j = f.note then (s.notes j).waiters.tail else (s.notes j).waiters := by
  unfold childWakeNext; split <;> simp_all <;> split <;> simp_all
@[simp] theorem childWakeNext_f_lockHolder (s : State) (t : Tid) (f : Frame) (rest : List Frame) (top : Top) (j : NoteId) :
    ((childWakeNext s t f rest top).notes j).lockHolder = (s.notes j).lockHolder := by
  unfold childWakeNext; split <;> simp
@[simp] theorem childWakeNext_f_allocated (s : State) (t : Tid) (f : Frame) (rest : List Frame) (top : Top) (j : NoteId) :
    ((childWakeNext s t f rest top).notes j).allocated = (s.notes j).allocated := by
  unfold childWakeNext; split <;> simp
@[simp] theorem childWakeNext_f_freed (s : State) (t : Tid) (f : Frame) (rest : List Frame) (top : Top) (j : NoteId) :
    ((childWakeNext s t f rest top).notes j).freed = (s.notes j).freed := by
  unfold childWakeNext; split <;> simp
@[simp] theorem childWakeNext_f_adopted (s : State) (t : Tid) (f : Frame) (rest : List Frame) (top : Top) (j : NoteId) :
    ((childWakeNext s t f rest top).notes j).adopted =
      if j = f.note ∧ (s.notes f.note).waiters = [] then false else (s.notes j).adopted := by
  unfold childWakeNext; split <;> simp_all
theorem freeLoopStart_notes (s : State) (t : Tid) (n : NoteId) (par : Option NoteId) : (freeLoopStart s t n par).notes = (s.setAdopted n false).notes := rfl
@[simp] theorem freeLoopStart_f_parent (s : State) (t : Tid) (n : NoteId) (par : Option NoteId) (j : NoteId) :
    ((freeLoopStart s t n par).notes j).parent = (s.notes j).parent := by
  simp [freeLoopStart]
@[simp] theorem freeLoopStart_f_children (s : State) (t : Tid) (n : NoteId) (par : Option NoteId) (j : NoteId) :
    ((freeLoopStart s t n par).notes j).children = (s.notes j).children := by
  simp [freeLoopStart]
@[simp] theorem freeLoopStart_f_notified (s : State) (t : Tid) (n : NoteId) (par : Option NoteId) (j : NoteId) :
    ((freeLoopStart s t n par).notes j).notified = (s.notes j).notified := by
  simp [freeLoopStart]
@[simp] theorem freeLoopStart_f_expiry (s : State) (t : Tid) (n : NoteId) (par : Option NoteId) (j : NoteId) :
    ((freeLoopStart s t n par).notes j).expiry = (s.notes j).expiry := by
  simp [freeLoopStart]
@[simp] theorem freeLoopStart_f_disconnecting (s : State) (t : Tid) (n : NoteId) (par : Option NoteId) (j : NoteId) :
    ((freeLoopStart s t n par).notes j).disconnecting = (s.notes j).disconnecting := by
  simp [freeLoopStart]
@[simp] theorem freeLoopStart_f_waiters (s : State) (t : Tid) (n : NoteId) (par : Option NoteId) (j : NoteId) :
    ((freeLoopStart s t n par).notes j).waiters = (s.notes j).waiters := by
  simp [freeLoopStart]
@[simp] theorem freeLoopStart_f_lockHolder (s : State) (t : Tid) (n : NoteId) (par : Option NoteId) (j : NoteId) :
    ((freeLoopStart s t n par).notes j).lockHolder = (s.notes j).lockHolder := by
  simp [freeLoopStart]
@[simp] theorem freeLoopStart_f_allocated (s : State) (t : Tid) (n : NoteId) (par : Option NoteId) (j : NoteId) :
    ((freeLoopStart s t n par).notes j).allocated = (s.notes j).allocated := by
  simp [freeLoopStart]
@[simp] theorem freeLoopStart_f_freed (s : State) (t : Tid) (n : NoteId) (par : Option NoteId) (j : NoteId) :
    ((freeLoopStart s t n par).notes j).freed = (s.notes j).freed := by
  simp [freeLoopStart]
@[simp] theorem freeLoopStart_f_adopted (s : State) (t : Tid) (n : NoteId) (par : Option NoteId) (j : NoteId) :
    ((freeLoopStart s t n par).notes j).adopted = if j = n then false else (s.notes j).adopted := by
  simp [freeLoopStart]
@[simp] theorem freeLoopStart_recs (s : State) (t : Tid) (n : NoteId) (par : Option NoteId) : (freeLoopStart s t n par).recs = s.recs := rfl
@[simp] theorem freeLoopStart_now (s : State) (t : Tid) (n : NoteId) (par : Option NoteId) : (freeLoopStart s t n par).now = s.now := rfl
@[simp] theorem freeLoopStart_users (s : State) (t : Tid) (n : NoteId) (par : Option NoteId) : (freeLoopStart s t n par).users = s.users := rfl
@[simp] theorem freeLoopStart_freeing (s : State) (t : Tid) (n : NoteId) (par : Option NoteId) : (freeLoopStart s t n par).freeing = s.freeing := rfl
@[simp] theorem freeLoopStart_published (s : State) (t : Tid) (n : NoteId) (par : Option NoteId) : (freeLoopStart s t n par).published = s.published := rfl
@[simp] theorem freeLoopStart_notifyCalled (s : State) (t : Tid) (n : NoteId) (par : Option NoteId) : (freeLoopStart s t n par).notifyCalled = s.notifyCalled := rfl
@[simp] theorem freeLoopStart_ownDl (s : State) (t : Tid) (n : NoteId) (par : Option NoteId) : (freeLoopStart s t n par).ownDl = s.ownDl := rfl
@[simp] theorem freeLoopStart_cparent (s : State) (t : Tid) (n : NoteId) (par : Option NoteId) : (freeLoopStart s t n par).cparent = s.cparent := rfl
@[simp] theorem freeLoopStart_ancEver (s : State) (t : Tid) (n : NoteId) (par : Option NoteId) : (freeLoopStart s t n par).ancEver = s.ancEver := rfl
@[simp] theorem freeLoopStart_pathMin (s : State) (t : Tid) (n : NoteId) (par : Option NoteId) : (freeLoopStart s t n par).pathMin = s.pathMin := rfl
@[simp] theorem freeLoopStart_bornNotified (s : State) (t : Tid) (n : NoteId) (par : Option NoteId) : (freeLoopStart s t n par).bornNotified = s.bornNotified := rfl
@[simp] theorem freeLoopStart_after (s : State) (t : Tid) (n : NoteId) (par : Option NoteId) : (freeLoopStart s t n par).after = s.after := rfl
@[simp] theorem freeLoopStart_observed (s : State) (t : Tid) (n : NoteId) (par : Option NoteId) : (freeLoopStart s t n par).observed = s.observed := rfl
@[simp] theorem freeLoopStart_pc (s : State) (t : Tid) (n : NoteId) (par : Option NoteId) :
    (freeLoopStart s t n par).pc = upd s.pc t (freeLoopStartPc (s.notes n).children n par) := rfl
@[simp] theorem enterChild_notes (s : State) (t : Tid) (n : NoteId) (par : Option NoteId) (k : NK) : (enterChild s t n par k).notes = s.notes := rfl
@[simp] theorem enterChild_recs (s : State) (t : Tid) (n : NoteId) (par : Option NoteId) (k : NK) : (enterChild s t n par k).recs = s.recs := rfl
@[simp] theorem enterChild_now (s : State) (t : Tid) (n : NoteId) (par : Option NoteId) (k : NK) : (enterChild s t n par k).now = s.now := rfl
@[simp] theorem enterChild_users (s : State) (t : Tid) (n : NoteId) (par : Option NoteId) (k : NK) : (enterChild s t n par k).users = s.users := rfl
@[simp] theorem enterChild_freeing (s : State) (t : Tid) (n : NoteId) (par : Option NoteId) (k : NK) : (enterChild s t n par k).freeing = s.freeing := rfl
@[simp] theorem enterChild_published (s : State) (t : Tid) (n : NoteId) (par : Option NoteId) (k : NK) : (enterChild s t n par k).published = s.published := rfl
@[simp] theorem enterChild_notifyCalled (s : State) (t : Tid) (n : NoteId) (par : Option NoteId) (k : NK) : (enterChild s t n par k).notifyCalled = s.notifyCalled := rfl
@[simp] theorem enterChild_ownDl (s : State) (t : Tid) (n : NoteId) (par : Option NoteId) (k : NK) : (enterChild s t n par k).ownDl = s.ownDl := rfl
@[simp] theorem enterChild_cparent (s : State) (t : Tid) (n : NoteId) (par : Option NoteId) (k : NK) : (enterChild s t n par k).cparent = s.cparent := rfl
@[simp] theorem enterChild_ancEver (s : State) (t : Tid) (n : NoteId) (par : Option NoteId) (k : NK) : (enterChild s t n par k).ancEver = s.ancEver := rfl
@[simp] theorem enterChild_pathMin (s : State) (t : Tid) (n : NoteId) (par : Option NoteId) (k : NK) : (enterChild s t n par k).pathMin = s.pathMin := rfl
@[simp] theorem enterChild_bornNotified (s : State) (t : Tid) (n : NoteId) (par : Option NoteId) (k : NK) : (enterChild s t n par k).bornNotified = s.bornNotified := rfl
@[simp] theorem enterChild_after (s : State) (t : Tid) (n : NoteId) (par : Option NoteId) (k : NK) : (enterChild s t n par k).after = s.after := rfl
@[simp] theorem enterChild_observed (s : State) (t : Tid) (n : NoteId) (par : Option NoteId) (k : NK) : (enterChild s t n par k).observed = s.observed := rfl
@[simp] theorem enterChild_pc (s : State) (t : Tid) (n : NoteId) (par : Option NoteId) (k : NK) :
    (enterChild s t n par k).pc = upd s.pc t (.chd .ld [⟨n, none⟩] ⟨n, par, k⟩) := rfl

end Note
