import NsyncVerif.Proofs.MuCInv4Cas2
/-
  MuC (I_queue): remaining steps; the invariant in every reachable state.
-/
namespace NsyncVerif.MuC

theorem inv4_stepCasC {s s' : State} {t : Tid} {o : Ord} {loc : Loc} {exp new obs : Nat} {ok : Bool}
    (h3 : Inv3 s) (h : Inv4 s)
    (hp : match s.pc t with
      | .lsCasAcq _ _ | .usFinCas _ _ _ | .mwEnqCas _ _ => True
      | _ => False)
    (hs : stepCas s t o loc exp new obs ok = .ok s') : Inv4 s' := by
  unfold stepCas at hs
  split at hs
  all_goals try (rename_i heq; rw [heq] at hp; exact False.elim hp)
  all_goals try (rename_i hne; split at hp <;> first | exact False.elim hp | (exfalso; simp_all; done))
  · -- lsCasAcq
    rename_i c old heq
    rcases casWord_ok hs with ⟨hw, -, rfl⟩ | ⟨-, -, rfl⟩
    · cases hmw : c.mw with
      | none =>
        simp only []
        cases hcw : c.w with
        | none =>
          refine Inv4.local t h (by simp [dropW]) (by intro x; simp [dropW]) (by intro u hu; simp [dropW, setFn, hu])
            ?_ ?_ ?_ ?_ ?_ ?_ <;> simp [dropW, heq, PC.ws, PC.unl, PC.scan?, PC.wakeL, PC.limbo, PC.finOf]
        | some k =>
          have hk : (s.wr k).owner = some t := h.own t k (by rw [heq]; simp [PC.ws, SL.ws, hcw])
          refine Inv4.local t h (by simp [dropW]) ?_ (by intro u hu; simp [dropW, setFn, hu])
            ?_ ?_ ?_ ?_ ?_ ?_
          · intro x
            simp only [addShare_wr, dropW, setPc_wr, setFn]
            constructor
            · by_cases hx : x = k
              · subst hx; right; exact ⟨hk, by simp [dropW, PC.ws]⟩
              · left; simp [hx]
            · split <;> simp_all
          all_goals simp [dropW, heq, PC.ws, PC.unl, PC.scan?, PC.wakeL, PC.limbo, PC.finOf]
      | some m =>
        have hif : ∀ s1 : State, (if m.cond.isSome = true then setPc s1 t (PC.mwEval m) else mwLoop s1 t m true)
            = setPc s1 t (if m.cond.isSome = true then PC.mwEval m else loopPc m true) := by
          intro s1; split <;> simp [mwLoop_eq]
        simp only [hif]
        have hpcs : (if m.cond.isSome = true then PC.mwEval m else loopPc m true) = PC.mwEval m ∨
            (if m.cond.isSome = true then PC.mwEval m else loopPc m true) = PC.mwRet m true := by
          split
          · exact Or.inl rfl
          · right; simp [loopPc]
        refine Inv4.local t h (by simp) (by intro x; simp) (by intro u hu; simp [setFn, hu])
          ?_ ?_ ?_ ?_ ?_ ?_ <;>
          (simp only [addShare_pc, setPc_pc, setFn_same, heq]
           rcases hpcs with e | e <;> rw [e] <;> simp [PC.ws, SL.ws, hmw, PC.unl, PC.scan?, PC.wakeL, PC.limbo, PC.finOf] <;>
           (intro k hk; exact Or.inr hk))
    · inv4_local t h heq
  · -- usFinCas
    rename_i r f old heq
    rcases casWord_ok hs with ⟨hw, -, rfl⟩ | ⟨-, -, rfl⟩
    · rw [afterFin_eq]
      have hwake : (finPc r f.wake).wakeL = f.wake := by
        cases f.wake <;> cases r <;> simp [finPc, Ret.pc, PC.wakeL]
      refine Inv4.local t h (by split <;> simp) (by intro x; split <;> simp) (by intro u hu; split <;> simp [setFn, hu])
        ?_ ?_ ?_ ?_ ?_ ?_ <;> simp only [setPc_pc, setFn_same, heq]
      · intro k hk; cases hf : f.wake <;> rw [hf] at hk <;> cases r <;> simp_all [finPc, Ret.pc, PC.ws, Ret.ws]
      · intro hk; cases hf : f.wake <;> rw [hf] at hk <;> cases r <;> simp_all [finPc, Ret.pc, PC.unl]
      · cases f.wake <;> cases r <;> simp [finPc, Ret.pc, PC.scan?]
      · rw [hwake]; simp [PC.wakeL]
      · cases f.wake <;> cases r <;> simp [finPc, Ret.pc, PC.limbo]
      · intro f' hk; cases hf : f.wake <;> rw [hf] at hk <;> cases r <;> simp_all [finPc, Ret.pc, PC.finOf]
    · inv4_local t h heq
  · -- mwEnqCas: enqueue (mu_wait.c:202-219)
    rename_i c old heq
    split at hs
    · cases hs
    · rename_i k hcw
      have hok3 := h3.ok3 t; rw [heq] at hok3
      rcases casWord_ok hs with ⟨hw, -, rfl⟩ | ⟨-, -, rfl⟩
      · have hlb : (s.pc t).limbo = some k := by rw [heq]; simp [PC.limbo, hcw]
        obtain ⟨hwait, hnq, hnw⟩ := h.limbo t k hlb
        have hmem : k ∈ (s.pc t).ws := limbo_mem_ws hlb
        have hown := h.own t k hmem
        -- nobody holds the spinlock, in particular nobody is at the final CAS of unlock_slow
        have hnofin : ∀ u f, (s.pc u).finOf = some f → False := by
          intro u f hf
          have h1 := (h3.own u).2 (fin_spin hf)
          have h2 := h3.bit; rw [hw, hok3, h1] at h2; cases h2
        have hsc : ∀ u, ((setPc (if c.first = true then enqLast { s with word := mwEnqWord c.cond.isSome old, sp := some t } k
              else enqFirst { s with word := mwEnqWord c.cond.isSome old, sp := some t } k) t
              (PC.mwRelLd { c with hadW := old.waiting, first := false })).pc u).scan? = (s.pc u).scan? := by
          intro u; by_cases hu : u = t
          · subst hu; simp [heq, PC.scan?]
          · split <;> simp [enqLast, enqFirst, setFn, hu]
        have hwkL : ∀ u, ((setPc (if c.first = true then enqLast { s with word := mwEnqWord c.cond.isSome old, sp := some t } k
              else enqFirst { s with word := mwEnqWord c.cond.isSome old, sp := some t } k) t
              (PC.mwRelLd { c with hadW := old.waiting, first := false })).pc u).wakeL = (s.pc u).wakeL := by
          intro u; by_cases hu : u = t
          · subst hu; simp [heq, PC.wakeL]
          · split <;> simp [enqLast, enqFirst, setFn, hu]
        have hwr : ∀ x, ((setPc (if c.first = true then enqLast { s with word := mwEnqWord c.cond.isSome old, sp := some t } k
              else enqFirst { s with word := mwEnqWord c.cond.isSome old, sp := some t } k) t
              (PC.mwRelLd { c with hadW := old.waiting, first := false })).wr x).owner = (s.wr x).owner ∧
            ((setPc (if c.first = true then enqLast { s with word := mwEnqWord c.cond.isSome old, sp := some t } k
              else enqFirst { s with word := mwEnqWord c.cond.isSome old, sp := some t } k) t
              (PC.mwRelLd { c with hadW := old.waiting, first := false })).wr x).waiting = (s.wr x).waiting := by
          intro x; split <;> simp [enqLast, enqFirst, wr_of_merge]
        have hmemq : ∀ x, x ∈ (setPc (if c.first = true then enqLast { s with word := mwEnqWord c.cond.isSome old, sp := some t } k
              else enqFirst { s with word := mwEnqWord c.cond.isSome old, sp := some t } k) t
              (PC.mwRelLd { c with hadW := old.waiting, first := false })).queue ↔ x = k ∨ x ∈ s.queue := by
          intro x; split <;> simp [enqLast, enqFirst, or_comm]
        have hQ : ∀ x, Queued (setPc (if c.first = true then enqLast { s with word := mwEnqWord c.cond.isSome old, sp := some t } k
              else enqFirst { s with word := mwEnqWord c.cond.isSome old, sp := some t } k) t
              (PC.mwRelLd { c with hadW := old.waiting, first := false })) x ↔ x = k ∨ Queued s x := by
          intro x
          simp only [Queued, hmemq, hsc]
          constructor
          · rintro ((h1 | h1) | h1)
            · exact Or.inl h1
            · exact Or.inr (Or.inl h1)
            · exact Or.inr (Or.inr h1)
          · rintro (h1 | h1 | h1)
            · exact Or.inl (Or.inl h1)
            · exact Or.inl (Or.inr h1)
            · exact Or.inr h1
        have hkq : k ∉ s.queue := fun e => hnq (Or.inl e)
        have hkp : ∀ u, k ∉ (s.pc u).priv := fun u e => by
          obtain ⟨sc, h1, h2⟩ := mem_priv_iff.1 e
          exact hnq (Or.inr ⟨u, sc, h1, h2⟩)
        have hother : ∀ u, u ≠ t → k ∉ (s.pc u).ws := by
          intro u hu e; have := h.own u k e; rw [hown] at this; cases this; exact hu rfl
        refine ⟨?_, ?_, ?_, ?_, ?_, ?_, ?_, fun u v x hu hv => by rw [hwkL] at hu hv; exact h.wkd u v x hu hv⟩
        · intro u x hx
          rw [(hwr x).1]
          by_cases hu : u = t
          · subst hu; refine h.own u x ?_; rw [heq]; simpa [PC.ws] using hx
          · have : x ∈ (s.pc u).ws := by split at hx <;> simpa [enqLast, enqFirst, setFn, hu] using hx
            exact h.own u x this
        · intro u v hu hv
          have e : ∀ w, ((setPc (if c.first = true then enqLast { s with word := mwEnqWord c.cond.isSome old, sp := some t } k
              else enqFirst { s with word := mwEnqWord c.cond.isSome old, sp := some t } k) t
              (PC.mwRelLd { c with hadW := old.waiting, first := false })).pc w).unl = (s.pc w).unl := by
            intro w; by_cases hw' : w = t
            · subst hw'; simp [heq, PC.unl]
            · split <;> simp [enqLast, enqFirst, setFn, hw']
          rw [e] at hu hv; exact h.uniq u v hu hv
        · intro u
          have hnd := h.nd u
          simp only [allOf, PC.priv, hsc, hwkL] at hnd ⊢
          have hk' : k ∉ s.queue ++ (match (s.pc u).scan? with | some sc => sc.lists | none => []) ++ (s.pc u).wakeL := by
            simp only [List.mem_append, not_or]
            exact ⟨⟨hkq, hkp u⟩, hnw u⟩
          split
          · simp only [setPc_queue, enqLast, List.append_assoc] at hnd hk' ⊢
            have : (s.queue ++ ([k] ++ ((match (s.pc u).scan? with | some sc => sc.lists | none => []) ++ (s.pc u).wakeL))).Perm
                (k :: (s.queue ++ ((match (s.pc u).scan? with | some sc => sc.lists | none => []) ++ (s.pc u).wakeL))) := by
              simpa using List.perm_middle
            exact (List.Perm.nodup_iff this).2 (List.nodup_cons.2 ⟨hk', hnd⟩)
          · simp only [setPc_queue, enqFirst, List.cons_append, List.append_assoc] at hnd hk' ⊢
            exact List.nodup_cons.2 ⟨hk', hnd⟩
        · intro x hx
          rw [(hwr x).2]
          rcases (hQ x).1 hx with rfl | hx'
          · exact hwait
          · exact h.wait x hx'
        · intro u x hx
          rw [hwkL] at hx
          obtain ⟨a, b⟩ := h.wk u x hx
          refine ⟨by rw [(hwr x).2]; exact a, fun hqx => ?_⟩
          rcases (hQ x).1 hqx with e | e
          · exact hnw u (e ▸ hx)
          · exact b e
        · intro u x hx
          by_cases hu : u = t
          · subst hu; simp [PC.limbo] at hx
          · have hx' : (s.pc u).limbo = some x := by split at hx <;> simpa [enqLast, enqFirst, setFn, hu] using hx
            obtain ⟨a, b, c'⟩ := h.limbo u x hx'
            have hxk : x ≠ k := fun e => hother u hu (e ▸ limbo_mem_ws hx')
            refine ⟨by rw [(hwr x).2]; exact a, fun hqx => ?_, fun v => by rw [hwkL]; exact c' v⟩
            rcases (hQ x).1 hqx with e | e
            · exact hxk e
            · exact b e
        · intro u f hf
          by_cases hu : u = t
          · subst hu; simp [PC.finOf] at hf
          · have hf' : (s.pc u).finOf = some f := by split at hf <;> simpa [enqLast, enqFirst, setFn, hu] using hf
            exact (hnofin u f hf').elim
      · inv4_local t h heq

end NsyncVerif.MuC
