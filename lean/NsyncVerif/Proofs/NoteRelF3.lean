/-
  Layer `Note`, the current forest: how the acting thread selects a child in the loops of
  `nsync_note_free` and `note_notify_child`, and how its activation stack evolves.
-/
import NsyncVerif.Proofs.NoteRelF2

set_option linter.unusedSimpArgs false

namespace Note

/-- The child selected by the loop of `nsync_note_free (n)` is taken from `n->children`. -/
theorem step_to_frLoop {s s' : State} {e : Event} (hs : step s e = .ok s') (a : Tid)
    (ha : e.actor = some a) {pos : FPos} {n : NoteId} {par : Option NoteId} {c : NoteId}
    {nx : Option NoteId} (h : s'.pc a = .fr pos n par c nx) (hp : pos.inLoop = true) :
    c ∈ (s'.notes n).children ∨
    (∃ pos0, pos0.inLoop = true ∧ s.pc a = .fr pos0 n par c nx ∧
      (s'.notes n).children = (s.notes n).children) := by
  cases e
  all_goals step_cases hs
  all_goals simp only [Event.actor, Option.some.injEq, reduceCtorEq] at ha
  all_goals (try subst ha)
  nrel_pc_cases h
  all_goals (try (cases h; simp at hp; done))
  -- the lock call on the selected child
  · cases h
    right
    exact ⟨.lockChild, rfl, by assumption, rfl⟩
  -- the loop starts with the first child
  all_goals (try (
    have hcs := ‹(State.notes _ _).children = _ :: _›
    cases h
    left
    simp only [freeLoopStart_f_children]
    rw [hcs]; simp
    done))
  -- the loop moves to the saved next pointer
  · cases h
    left
    simpa using ‹_ ∈ (s.notes _).children›

/-- The child selected by the loop of `note_notify_child (f, …)` is taken from `f->children`. -/
theorem step_to_chChild {s s' : State} {e : Event} (hs : step s e = .ok s') (a : Tid)
    (ha : e.actor = some a) {pos : CPos} {f : Frame} {rest : List Frame} {top : Top}
    {c : NoteId} (h : s'.pc a = .chd pos (f :: rest) top) (hp : pos.child = some c) :
    c ∈ (s'.notes f.note).children ∨
    (∃ pos0, pos0.child = some c ∧ s.pc a = .chd pos0 (f :: rest) top ∧
      (s'.notes f.note).children = (s.notes f.note).children) := by
  cases e
  all_goals step_cases hs
  all_goals simp only [Event.actor, Option.some.injEq, reduceCtorEq] at ha
  all_goals (try subst ha)
  nrel_pc_cases h
  all_goals (try (cases h; simp at hp; done))
  -- the loop starts with the first child (after the store of the flag, after the last V, or for
  -- another scan after WAIT_FOR_NO_CHILDREN)
  all_goals (try (
    have hcs := ‹(State.notes _ _).children = _ :: _›
    cases h
    simp only [CPos.child, Option.some.injEq] at hp
    subst hp
    left
    simp only [childWakeNext_f_children, childScanStart_f_children]
    rw [hcs]; simp
    done))
  -- the lock call on the selected child
  all_goals (try (
    cases h
    right
    exact ⟨.lockChild _, hp, by assumption, rfl⟩))
  -- the loop moves to the saved next pointer
  all_goals (
    cases h
    simp only [CPos.child, Option.some.injEq] at hp
    subst hp
    left
    simpa using ‹_ ∈ (s.notes _).children›)

/-- How the activation stack of `note_notify_child` evolves: it stays (as a list of notes), a
    child is pushed, the innermost activation returns, or `notify` enters the outermost one. -/
theorem step_stack {s s' : State} {e : Event} (hs : step s e = .ok s') (a : Tid)
    (ha : e.actor = some a) {pos' : CPos} {stk' : List Frame} {top' : Top}
    (h : s'.pc a = .chd pos' stk' top') :
    (∃ pos stk, s.pc a = .chd pos stk top' ∧ stk'.map Frame.note = stk.map Frame.note) ∨
    (∃ c stk, s.pc a = .chd (.lockChildRet c) stk top' ∧
      stk'.map Frame.note = c :: stk.map Frame.note) ∨
    (∃ pos f, s.pc a = .chd pos (f :: stk') top') ∨
    stk'.map Frame.note = [top'.n] := by
  cases e
  all_goals step_cases hs
  all_goals simp only [Event.actor, Option.some.injEq, reduceCtorEq] at ha
  all_goals (try subst ha)
  nrel_pc_cases h
  all_goals (try (
    cases h
    left
    apply Exists.intro; apply Exists.intro
    refine ⟨?_, ?_⟩
    · assumption
    · simp
    done))
  all_goals (try (
    cases h
    right; right; left
    apply Exists.intro; apply Exists.intro
    assumption
    done))
  all_goals (try (
    cases h
    right; left
    apply Exists.intro; apply Exists.intro
    refine ⟨?_, ?_⟩
    · assumption
    · simp
    done))
  all_goals (try (cases h; right; right; right; rfl))

end Note
