/-
  Layer `CvFix` (cv.c with the repair of F3; adapted from the `Cv` file of the same name): the structural invariant is preserved by the local transitions (atomic operations).
-/
import NsyncVerif.Proofs.CvFixInvALoc

namespace NsyncVerif.CvFix

set_option maxHeartbeats 1000000 in
theorem invA_loc_atm {s : State} {t : Tid} {e : Event} {x' : Thr} (hi : InvA s) (h : LTr s t e x')
    (he : e.isAtomic = true) : InvA (s.setThr t x') := by
  have ht := hi.thr t
  have hold := hi.old t
  have hh := hi.hold t
  obtain ⟨t1, t2, t3, t4, t5, t6, t7, t8, t9, t10, t11, t12⟩ := ht
  cases h with
  | spinLd site obs hl ho => rcases hl with ⟨_, hl⟩ | ⟨_, hl⟩ <;> split <;> loc_case hl
  | spinLdN obs hl ho => split <;> loc_case hl
  | sigLd site obs hl hs ho => split <;> loc_case hl
  | casFail exp new obs hl ho hne => loc_case hl
  | wRc r obs hl hr ho => loc_case hl
  | wHeadStay r obs hl hr ho hz =>
    split
    · by_cases hn : (s.thr t).note = true <;> simp only [hn, if_true, if_false] <;> loc_case hl
    · loc_case hl
  | wChk y r obs hy hl hr ho hso =>
    by_cases hz : obs = 0 <;> simp only [hz, if_true, if_false]
    all_goals
      cases hy with
      | id _ _ => loc_case hl
      | pre h hn => loc_case h
      | postOk h ht => loc_case h
      | postCancel h ht hc hn => loc_case h
      | postTimed h ht hc hd => loc_case h
  | wChk2 r obs hl hr ho => by_cases hz : obs = 0 <;> simp only [hz, if_true, if_false] <;> loc_case hl
  | wCmpNe r obs hl hr ho hne => loc_case hl
  | wRmLd r obs hl hr ho => loc_case hl
  | wTail y r obs hy hl hr ho =>
    cases hy with
    | id _ _ => loc_case hl
    | pre h hn => loc_case h
    | postOk h ht => loc_case h
    | postCancel h ht hc hn => loc_case h
    | postTimed h ht hc hd => loc_case h
  | rcLd site r obs hl hs hr ho => loc_case hl
  | ready r obs hl hr ho => rw [setThr_self]; exact hi
  | deqLd0 r hl hr ho =>
    have hnq : (s.recs r).stat ≠ .queued := fun e => by have := hi.qWait r e; rw [ho] at this; cases this
    by_cases hz : s.queue.isEmpty = true <;> simp only [hz, if_true, if_false] <;> loc_case hl
  | deqLdGone r obs hl hr hw hq =>
    have hnq : (s.recs r).stat ≠ .queued := fun e => hq ((hi.qMem r).mpr e)
    by_cases hz : s.queue.isEmpty = true <;> simp only [hz, if_true, if_false] <;> loc_case hl
  | deqSpinStay r obs hl hr hw => rw [setThr_self]; exact hi
  | wRmCasFail r exp new obs hl hr => loc_case hl
  | sRcCasFail site r exp new obs hl hr0 => loc_case hl
  | wwLd obs f rest hl hlist => by_cases hc : wantTransfer (s.recs f).lt obs (s.thr t).list.length (s.thr t).allReaders = true <;> simp only [hc, if_true, if_false] <;> loc_case hl
  | wwRelLd site obs hl => rcases hl with ⟨_, hl⟩ | ⟨_, hl⟩ <;> loc_case hl
  | wwCasFail exp new obs hl => loc_case hl
  | wwRelCasOk exp new obs hl => by_cases hz : (s.thr t).list.isEmpty = true <;> simp only [hz, if_true, if_false] <;> loc_case hl
  | wwRelCasFail exp new obs hl => loc_case hl
  | dbgLd obs hl ho => split <;> loc_case hl
  | dbgW r obs hl hq hm ho => loc_case hl
  | dbgRc r obs hl hq ho => loc_case hl
  | _ => simp [Event.isAtomic] at he

theorem invA_loc {s : State} {t : Tid} {e : Event} {x' : Thr} (hi : InvA s) (h : LTr s t e x') :
    InvA (s.setThr t x') := by
  cases he : e.isAtomic
  · exact invA_loc_api hi h he
  · exact invA_loc_atm hi h he

end NsyncVerif.CvFix
