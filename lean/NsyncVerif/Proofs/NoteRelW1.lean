/-
  Layer `Note`, waiter records: how one accepted step changes a waiter record (`nw<r>`).
-/
import NsyncVerif.Proofs.NoteRelW

set_option linter.unusedSimpArgs false

namespace Note

/-! ### How a step changes a waiter record -/

/-- Close the "unchanged" alternative of `step_recs`. -/
macro "nrel_rsame" : tactic => `(tactic| (
  left
  refine ⟨?_, fun a ha => ?_⟩
  · first | rfl | simp [*]
  · simp only [Event.actor, Option.some.injEq, reduceCtorEq] at ha
    try (subst ha; simp [*, PC.touch]; done)))

theorem step_recs {s s' : State} {e : Event} (hs : step s e = .ok s') (r : Rid) :
    (s'.recs r = s.recs r ∧ ∀ a, e.actor = some a → (s.pc a).touch ≠ some r) ∨
    (∃ a f rest top, e.actor = some a ∧ s.pc a = .chd (.wake r) (f :: rest) top ∧
      s'.recs r = { s.recs r with waiting := false } ∧
      s'.pc a = .chd (.semV r) (f :: rest) top) ∨
    (∃ a f rest top sem, e.actor = some a ∧ s.pc a = .chd (.semV r) (f :: rest) top ∧
      s'.recs r = { s.recs r with sem := some sem, posted := (s.recs r).posted + 1 }) ∨
    (∃ a n wdl, e.actor = some a ∧ s.pc a = .wt0 .newRec n wdl ∧ (s.recs r).used = false ∧
      s'.recs r = { used := true, waiting := false, owner := a, note := n, sem := none,
                    posted := 0 } ∧
      s'.pc a = .wt .eLockCall n wdl r) ∨
    (∃ a v n wdl, e.actor = some a ∧ s.pc a = .wt (.eSt v) n wdl r ∧
      s'.recs r = { s.recs r with waiting := v } ∧ s'.pc a = .wt .eUnlockCall n wdl r) ∨
    (∃ a n wdl, e.actor = some a ∧ s.pc a = .wt .qSt n wdl r ∧
      s'.recs r = { s.recs r with waiting := false } ∧
      s'.pc a = .wt (.qUnlockCall true) n wdl r) ∨
    (∃ a m n wdl sem, e.actor = some a ∧ s.pc a = .wt (.pdEnter m) n wdl r ∧
      s'.recs r = { s.recs r with sem := some sem } ∧ s'.pc a = .wt (.pdRet m) n wdl r) := by
  cases e
  all_goals step_cases hs
  all_goals (try (nrel_rsame; done))
  all_goals (repeat' split)
  all_goals (try (nrel_rsame; done))
  -- the guard `r = r'` of the stores
  all_goals (try (
    obtain ⟨_, _, hr, _⟩ := (by assumption : _ = _ ∧ _ = _ ∧ _ = _ ∧ _ = _)
    subst hr))
  all_goals (
    simp only [setPc_recs, modRec_recs, childWakeNext_recs, upd_apply]
    split
    · next h =>
      subst h
      first
        | (right; left; exact ⟨_, _, _, _, rfl, by assumption, rfl, by simp⟩)
        | (right; right; left; exact ⟨_, _, _, _, _, rfl, by assumption, rfl⟩)
        | (right; right; right; left; exact ⟨_, _, _, rfl, by assumption, by assumption, rfl, by simp⟩)
        | (right; right; right; right; left; exact ⟨_, _, _, _, rfl, by assumption, rfl, by simp⟩)
        | (right; right; right; right; right; left; exact ⟨_, _, _, rfl, by assumption, rfl, by simp⟩)
        | (right; right; right; right; right; right;
           exact ⟨_, _, _, _, _, rfl, by assumption, rfl, by simp⟩)
    · next h =>
      refine Or.inl ⟨rfl, fun a ha => ?_⟩
      simp only [Event.actor, Option.some.injEq] at ha
      subst ha
      simp [*, PC.touch]
      try (exact fun h' => h h'.symm))

end Note
