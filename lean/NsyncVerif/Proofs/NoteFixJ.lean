/-
  Layer `Note`, invariant J (delivery) WITHOUT the hypothesis `ReachableH` — the repaired code
  (/verif/fixes/F4F7/note_fix.diff): a notified note with children has a thread inside
  `note_notify_child` on it, past the store of the flag, in EVERY reachable state.

  What `ReachableH` assumed away was the adoption of a child under an already notified parent `p`
  whose notifier is gone.  Since the repair of F7 the adopter `nsync_note_free (n)` finds `n` itself
  still on `p->children` (I1, `InvForest.linked`: `n` is disconnected from `p` only by the last
  disconnector of `n`, and the adopter is one of them), so `p->children` was not empty before the
  adoption and `p` had a thread with an activation past the store already; since the repair of F4
  that activation ends only with `p->children` empty (`step_active`: it rescans when
  `children_adopted` ended its wait).
-/
import NsyncVerif.Proofs.NoteRelF6

set_option linter.unusedSimpArgs false

namespace Note

theorem step_invJ_fix {s s' : State} {e : Event} (hr : Reachable s) (hJ : InvJ s)
    (hs : step s e = .ok s') : InvJ s' := by
  refine step_invJ' hr hJ hs ?_
  intro t n p c nx _ hpc _ _ hch
  -- `n` is still a child of `p`
  have hpar := hr.invForest.linked t n p (by rw [hpc]; rfl)
  have := hr.invT.p2c p n hpar
  rw [hch] at this
  cases this

theorem Reachable.invJ {s : State} (h : Reachable s) : InvJ s := by
  refine Reachable.induction (P := InvJ) ?_ ?_ s h
  · intro p hn; simp [Note.init, NoteRec.blank] at hn
  · intro s e s' hr hJ hs; exact step_invJ_fix hr hJ hs

end Note
