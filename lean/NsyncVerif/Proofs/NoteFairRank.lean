/-
  Layer `Note`, fair termination: the local rank of a thread inside a call that works on no child
  note ("leaf calls"): `mj` (position in the code, with the continuations `DK` / `NK` of
  `nsync_note_notified_deadline_` / `notify` added in) and `mn` (the length of the `waiters` list
  inside the wake loop of `note_notify_child`).  Every own step decreases `(mj, mn)`
  lexicographically — except the load of `nsync_note_notified_deadline_` in the wait loop of
  `nsync_wait_n` that finds the flag unset (the loop of a wait that is not yet notified).
-/
import NsyncVerif.Proofs.NoteFairDefs

set_option linter.unusedSimpArgs false

namespace Note

/-- Bound of the rank of the code that follows `nsync_note_notified_deadline_` for caller `k`. -/
def DK.after : DK → Nat
  | .isNotified => 1
  | .notifyApi => 21
  | .newSelf _ _ => 7
  | .dequeue _ _ => 8
  | .ready2 _ _ => 38
  | .ready1 _ => 43

/-- Bound of the rank of the code that follows `notify` for caller `k`. -/
def NK.after : NK → Nat
  | .ofApi => 1
  | .ofDeadline k => k.after

def DPos.rk : DPos → Nat
  | .ld1 => 7 | .lockCall => 6 | .lockRet => 5 | .ld2 => 4 | .unlockCall => 3 | .unlockRet => 2
  | .now => 1

def NPos.rk : NPos → Nat
  | .lockCall => 20 | .lockRet => 19 | .ld => 18 | .tryCall => 17 | .tryRet => 16
  | .sUnlockCall => 15 | .sUnlockRet => 14 | .sLockPCall => 13 | .sLockPRet => 12
  | .sLockNCall => 11 | .sLockNRet => 10
  | .unlockPCall => 4 | .unlockPRet => 3 | .unlockCall => 2 | .unlockRet => 1

def CPos.rk : CPos → Nat
  | .ld => 9 | .st => 8 | .wake _ => 7 | .semV _ => 7 | .waitCall => 6 | .waitRet true => 5
  | _ => 0

def NewPos.rk : NewPos → Nat
  | .lockCall => 7 | .lockRet => 6 | .ld => 5 | .st => 4 | .unlockCall => 3 | .unlockRet => 2

def FPos.rk : FPos → Nat
  | .lockCall => 18 | .lockRet => 17 | .tryCall => 16 | .tryRet => 15
  | .sUnlockCall => 14 | .sUnlockRet => 13 | .sLockPCall => 12 | .sLockPRet => 11
  | .sLockNCall => 10 | .sLockNRet => 9 | .waitCall => 8 | .waitRet true => 7
  | .unlockPCall => 6 | .unlockPRet => 5 | .unlockCall => 4 | .unlockRet => 3 | .free => 2 | .ret => 1
  | _ => 0

def W0Pos.rk : W0Pos → Nat
  | .ncall => 71 | .newRec => 43 | .nret _ => 2 | .ret _ => 1

def WPos.rk : WPos → Nat
  | .eLockCall => 42 | .eLockRet => 41 | .eLd => 40 | .eSt _ => 39 | .eUnlockCall => 38
  | .eUnlockRet => 37
  | .pdEnter _ => 38 | .pdRet _ => 37
  | .qLockCall => 8 | .qLockRet => 7 | .qLd => 6 | .qSt => 5 | .qUnlockCall _ => 4 | .qUnlockRet _ => 3

/-- The position rank. -/
def mj : PC → Nat
  | .idle => 0
  | .newMalloc _ _ => 35
  | .newRetNull _ => 1
  | .dl .ld1 _ _ (.ready2 _ _) => 36
  | .dl p _ _ k => p.rk + 20 + k.after
  | .nfy p _ _ k => p.rk + k.after
  | .chd p _ top => p.rk + top.k.after
  | .newP p _ _ _ => p.rk
  | .retNew _ _ => 1
  | .retIs _ _ => 1
  | .retNotify _ => 1
  | .retExpiry _ => 1
  | .fr p _ _ _ _ => p.rk
  | .wt0 p _ _ => p.rk
  | .wt p _ _ _ => p.rk

/-- The inner rank: inside the wake loop, the number of waiters still to wake. -/
def mn (s : State) : PC → Nat
  | .chd (.wake _) (f :: _) _ => 2 * (s.notes f.note).waiters.length + 1
  | .chd (.semV _) (f :: _) _ => 2 * (s.notes f.note).waiters.length
  | _ => 0

def rank (s : State) (t : Tid) : Nat × Nat := (mj (s.pc t), mn s (s.pc t))

theorem min_zero_not_pos (wdl : Dl) : ¬ (Dl.min wdl (some 0)).pos := by
  cases wdl with
  | none => simp [Dl.min, Dl.lt, Dl.pos]
  | some v =>
    simp only [Dl.min, Dl.lt, Dl.pos]
    by_cases h : 0 < v <;> simp [h]
    omega

theorem mj_afterDeadlinePc (n : NoteId) (nt : Dl) (k : DK) : mj (afterDeadlinePc n nt k) ≤ k.after := by
  cases k <;> simp only [afterDeadlinePc, DK.after]
  · simp [mj]
  · split <;> simp [mj, NPos.rk, NK.after]
  · split
    · split <;> simp [mj, NewPos.rk]
    · simp [mj]
  · split <;> simp [mj, W0Pos.rk]
  · split <;> simp [mj, WPos.rk, DPos.rk, DK.after]
  · simp [mj, WPos.rk]

theorem mj_afterNotifyPc (n : NoteId) (k : NK) : mj (afterNotifyPc n k) ≤ k.after := by
  cases k with
  | ofApi => simp [afterNotifyPc, mj, NK.after]
  | ofDeadline k => exact mj_afterDeadlinePc n (some 0) k

/-- With the flag set the wait loop leaves through `note_dequeue`. -/
theorem mj_afterDeadlinePc_ready2 (n : NoteId) (r : Rid) (wdl : Dl) :
    mj (afterDeadlinePc n (some 0) (.ready2 r wdl)) = 35 := by
  simp [afterDeadlinePc, min_zero_not_pos, mj, DPos.rk, DK.after]

theorem mj_ld1_flag (n : NoteId) (nt : Dl) (k : DK) :
    mj (afterDeadlinePc n (some 0) k) < mj (.dl .ld1 n nt k) := by
  cases k with
  | ready2 r wdl => rw [mj_afterDeadlinePc_ready2]; simp [mj]
  | _ =>
    refine Nat.lt_of_le_of_lt (mj_afterDeadlinePc n (some 0) _) ?_
    simp [mj, DPos.rk, DK.after]

theorem mj_after_lt_dl (n : NoteId) (nt nt' : Dl) (k : DK) (p : DPos) (h : p ≠ .ld1) :
    mj (afterDeadlinePc n nt k) < mj (.dl p n nt' k) := by
  refine Nat.lt_of_le_of_lt (mj_afterDeadlinePc n nt k) ?_
  cases p <;> first | exact absurd rfl h | (cases k <;> simp [mj, DPos.rk, DK.after])

theorem mj_afterNotify_lt (n : NoteId) (par : Option NoteId) (k : NK) :
    mj (afterNotifyPc n k) < mj (.nfy .unlockRet n par k) := by
  refine Nat.lt_of_le_of_lt (mj_afterNotifyPc n k) ?_
  simp [mj, NPos.rk]

theorem mj_childReturnPc (f : Frame) (top : Top) : mj (childReturnPc f [] top) ≤ 4 + top.k.after := by
  unfold childReturnPc
  cases top.par <;> simp [mj, NPos.rk]

theorem mn_afterDeadlinePc (s : State) (n : NoteId) (nt : Dl) (k : DK) :
    mn s (afterDeadlinePc n nt k) = 0 := by
  cases k <;> simp only [afterDeadlinePc] <;> (repeat' split) <;> rfl

theorem mn_afterNotifyPc (s : State) (n : NoteId) (k : NK) : mn s (afterNotifyPc n k) = 0 := by
  cases k with
  | ofApi => rfl
  | ofDeadline k => exact mn_afterDeadlinePc s n (some 0) k

theorem mn_childReturnPc (s : State) (f : Frame) (top : Top) : mn s (childReturnPc f [] top) = 0 := by
  unfold childReturnPc
  cases top.par <;> rfl

end Note
