/-
  Proofs/SemWaitInvA3.lean — preservation of the frame / record / semaphore invariant `InvA` by the effects of a
  thread step (part 3).
-/
import NsyncVerif.Proofs.SemWaitTac

namespace SemWait
set_option maxHeartbeats 400000

theorem a_i6 {cfg : Config} {s s' : State} {t : Tid} (hi : InvA s) (he : Eff cfg s t s') :
    ∀ t j, (s'.fr t).sem = some j ↔ s'.semUser j = some t := by
  have h6 := hi.i6
  have h7 := hi.i7
  eff_cases he <;> (try cases ‹Use›) <;> grind [inCall, ndNext, nfNext]

theorem a_i7 {cfg : Config} {s s' : State} {t : Tid} (hi : InvA s) (he : Eff cfg s t s') :
    ∀ t, s'.pc t = .idle → (s'.fr t).sem = none := by
  have h1 := hi.i1
  have h4 := hi.i4
  have h6 := hi.i6
  have h7 := hi.i7
  eff_cases he <;> (try cases ‹Use›) <;> grind [inCall, ndNext, nfNext]

theorem a_i8 {cfg : Config} {s s' : State} {t : Tid} (hi : InvA s) (he : Eff cfg s t s') :
    ∀ t j, s'.pc t = .pdWait j → (s'.fr t).sem = some j := by
  have h6 := hi.i6
  have h7 := hi.i7
  have h8 := hi.i8
  eff_cases he <;> (try cases ‹Use›) <;> grind [inCall, ndNext, nfNext]

end SemWait
