/-
  Proofs/WaitNFairStep3.lean — WaitN layer, liveness: `Prog` for the remaining step functions and for `stepThr`.
-/
import NsyncVerif.Proofs.WaitNFairStep2

set_option linter.unusedSimpArgs false
set_option linter.unusedVariables false

namespace WaitN

theorem prog_open {s s' : State} {t : Tid} {e : Ev} (hnf : isNfWake (s.pc t) = true)
    (h : stepOpen s t e = .ok s') : Prog s s' t e := by
  obtain ⟨h1, h2⟩ := stepOpen_keeps2 h
  exact .inr (.inr ⟨(h2 t).1, (h2 t).2, .inr (.inr (.inr (.inr (.inl ⟨hnf, by rw [h1]⟩))))⟩)

theorem prog_stepND {s s' : State} {t : Tid} {u : Use} {i : Nat} {st : NDst} {e : Ev} (hpc : s.pc t = .wND u i st)
    (h : stepND s t u i st e = .ok s') : Prog s s' t e := by
  unfold stepND at h
  split_ok h
  all_goals first
    | prog_leaf hpc h
    | exact prog_rtDone (lt_count_of_objs ‹_›) (by simp [rk, hpc, rank, ndR]) h
    | exact prog_open (by rw [hpc]; rfl) h

theorem prog_stepCtrRT {s s' : State} {t : Tid} {u : Use} {i : Nat} {l : Bool} {e : Ev} (hpc : s.pc t = .wCtrRT u i l)
    (h : stepCtrRT s t u i l e = .ok s') : Prog s s' t e := by
  unfold stepCtrRT at h
  split_ok h
  all_goals first
    | prog_leaf hpc h
    | exact prog_rtDone (lt_count_of_objs ‹_›) (by simp [rk, hpc, rank]) h

theorem prog_stepCvRT {s s' : State} {t : Tid} {j : Nat} {e : Ev} (hpc : s.pc t = .wCvRT j)
    (hl : LInv (s.pc t) (s.fr t)) (h : stepCvRT s t j e = .ok s') : Prog s s' t e := by
  rw [hpc] at hl
  obtain ⟨c, hc⟩ := hl.2
  unfold stepCvRT at h
  split_ok h
  all_goals first
    | prog_leaf hpc h
    | exact prog_rtDone (lt_count_of_objs hc) (by simp [rk, hpc, rank, base]) h

theorem prog_stepAlloc {s s' : State} {t : Tid} {e : Ev} (hpc : s.pc t = .wAlloc)
    (h : stepAlloc s t e = .ok s') : Prog s s' t e := by
  unfold stepAlloc at h
  split_ok h
  all_goals first
    | prog_leaf hpc h
    | (cases h
       refine Prog.dec (by simp) (by simp) ?_
       simp only [rk, hpc, setPc_pc, if_pos, setPc_fr, setPc_post, setFr_fr, setFr_post, rank]
       exact rank_enqNext0 { s.fr t with heap := _, mallocs := _ } true (s.post t))

theorem prog_stepInit {s s' : State} {t : Tid} {i : Nat} {e : Ev} (hpc : s.pc t = .wInit i)
    (h : stepInit s t i e = .ok s') : Prog s s' t e := by
  unfold stepInit at h
  split_ok h
  all_goals first
    | prog_leaf hpc h
    | (cases h
       refine Prog.dec (by simp) (by simp) ?_
       simp only [rk, hpc, setPc_pc, if_pos, setPc_fr, setPc_post, setFr_fr, setFr_post, setRec_fr, setRec_post]
       split <;> simp [rank, cvEnqR, enqR, Frame.count])

theorem prog_stepUnlockMu {s s' : State} {t : Tid} {e : Ev} (hpc : s.pc t = .wUnlock)
    (h : stepUnlockMu s t e = .ok s') : Prog s s' t e := by
  unfold stepUnlockMu at h
  split_ok h
  all_goals first
    | prog_leaf hpc h
    | (cases h
       refine Prog.decle (X := offU (s.fr t).count) (by simp [rk, hpc, rank]) (by simp) (by simp) ?_
       simp only [rk, setPc_pc, if_pos, setPc_fr, setPc_post, setFr_fr, setFr_post]
       have := rank_loopNext { s.fr t with held := false, unlocked := true, who := none } 0 (s.fr t).count (s.post t)
       simp only [offU, offS, Frame.count] at this ⊢
       omega)

theorem prog_stepPdEnter {s s' : State} {t : Tid} {e : Ev} (hpc : s.pc t = .wPdEnter)
    (h : stepPdEnter s t e = .ok s') : Prog s s' t e := by
  unfold stepPdEnter at h
  split_ok h
  all_goals first
    | prog_leaf hpc h
    | (cases h
       rename_i hb
       obtain ⟨h1, h2, h3⟩ := bindSem_keeps hb
       refine Prog.dec (by simpa using (h3 t).1) (by simpa using (h3 t).2) ?_
       simp only [rk, hpc, setPc_pc, if_pos, setPc_fr, setPc_post, rank, h2, count_eq (h3 t).1]
       omega)

theorem prog_stepPdWait {s s' : State} {t : Tid} {j : SemId} {e : Ev} (hpc : s.pc t = .wPdWait j)
    (h : stepPdWait s t j e = .ok s') : Prog s s' t e := by
  unfold stepPdWait at h
  split_ok h
  all_goals first
    | prog_leaf hpc h
    | (cases h
       refine Prog.decle (X := offS (s.fr t).count + 1) (by simp [rk, hpc, rank]) (by simp) (by simp) ?_
       simp only [rk, setPc_pc, if_pos, setPc_fr, setPc_post, setFr_fr, setFr_post]
       have := fun f => rank_deqNext f 0 (s.fr t).count (s.post t)
       simp only [offS, Frame.count] at this ⊢
       exact Nat.lt_of_le_of_lt (this _) (by omega))
    | (cases h
       refine .inr (.inr ⟨by simp [startScan], by simp [startScan], .inr (.inr (.inr (.inl ⟨j, hpc, by simp_all, ?_⟩)))⟩)
       simp only [rk, startScan, setPc_pc, if_pos, setPc_fr, setPc_post, setFr_fr, setFr_post, setSem_fr, setSem_post]
       have := fun f => rank_loopNext f 0 (s.fr t).count (s.post t)
       simp only [offU, offS, Frame.count] at this ⊢
       exact Nat.lt_of_le_of_lt (this _) (by omega))

theorem prog_stepFree {s s' : State} {t : Tid} {e : Ev} (hpc : s.pc t = .wFree)
    (h : stepFree s t e = .ok s') : Prog s s' t e := by
  unfold stepFree at h
  split_ok h
  all_goals first
    | prog_leaf hpc h
    | (cases h
       refine Prog.decle (X := 3) (by simp [rk, hpc, rank]) (by simp) (by simp) ?_
       simp only [rk, setPc_pc, if_pos, setPc_fr, setPc_post, setFr_fr, setFr_post, kill_post]
       have := fun f n => rank_relockNext f n (s.post t)
       exact Nat.lt_of_le_of_lt (this _ _) (by omega))

theorem prog_stepRelock {s s' : State} {t : Tid} {e : Ev} (hpc : s.pc t = .wRelock)
    (h : stepRelock s t e = .ok s') : Prog s s' t e := by
  unfold stepRelock at h
  split_ok h
  all_goals prog_leaf hpc h

theorem prog_stepRet {s s' : State} {t : Tid} {r : Nat} {e : Ev} (hpc : s.pc t = .wRet r)
    (h : stepRet s t r e = .ok s') : Prog s s' t e := by
  unfold stepRet at h
  split_ok h
  all_goals first
    | (cases h; refine .inr (.inl ?_); simp; done)
    | prog_leaf hpc h

theorem prog_sgEarly {s s' : State} {t : Tid} {e : Ev} (he : sgNext (s.pc t) (s'.pc t)) (hp : s'.post t = s.post t)
    (ho : (s'.fr t).objs = (s.fr t).objs) (hd : (s'.fr t).dl = (s.fr t).dl) : Prog s s' t e :=
  .inr (.inr ⟨ho, hd, .inr (.inr (.inr (.inr (.inr ⟨he, hp⟩))))⟩)

theorem prog_sgSpin {s s' : State} {t : Tid} {c : Nat} {bc : Bool} {st : SpinSt} {e : Ev}
    (hpc : s.pc t = .sg c bc (.spin st))
    (h : spinAcq s t c st (fun x => .sg c bc (.spin x)) (.sg c bc .held) e = .ok s') : Prog s s' t e := by
  obtain ⟨h1, h2, h3⟩ := spinAcq_cases h
  rcases h3 with h3 | ⟨sp, h3⟩ | h3
  · exact Prog.stutter (by rw [h3]) (by rw [h2]) (by rw [h1]; exact frSame_refl _)
  · exact prog_sgEarly (by rw [hpc, h3]; exact .inl ⟨sp, rfl⟩) (by rw [h2]) (by rw [h1]) (by rw [h1])
  · exact prog_sgEarly (by rw [hpc, h3]; exact .inr rfl) (by rw [h2]) (by rw [h1]) (by rw [h1])

theorem prog_stepSg {s s' : State} {t : Tid} {c : Nat} {bc : Bool} {st : SgSt} {e : Ev} (hpc : s.pc t = .sg c bc st)
    (h : stepSg s t c bc st e = .ok s') : Prog s s' t e := by
  unfold stepSg at h
  split_ok h
  all_goals first
    | exact prog_dflt h
    | exact prog_sgSpin hpc h
    | (cases h; refine .inr (.inl ?_); simp; done)
    | (cases h; refine prog_sgEarly ?_ ?_ ?_ ?_ <;> first | (simp [hpc, sgNext]; done) | (simp; done))
    | (cases h
       refine Prog.dec ?_ ?_ ?_ <;> first
         | (simp; done)
         | (simp_all [rk, hpc, rank]; done)
         | (simp_all [rk, hpc, rank]; omega))
    | (cases h
       have hp := postSem_keeps ‹postSem _ _ _ = some _›
       refine Prog.dec ?_ ?_ ?_
       · simpa using (hp.2.2 t).1
       · simpa using (hp.2.2 t).2
       · simp_all [rk, hpc, rank]
         try omega)

theorem prog_stepThr {s s' : State} {t : Tid} {e : Ev} (hl : LInv (s.pc t) (s.fr t))
    (h : stepThr s t e = .ok s') : Prog s s' t e := by
  unfold stepThr at h
  split at h <;> rename_i hpc
  · exact .inl hpc
  · simp at h
  · exact prog_stepSg hpc h
  · exact prog_stepCtrRT hpc h
  · exact prog_stepND hpc h
  · exact prog_stepEnqCv hpc h
  · exact prog_stepEnq hpc h
  · exact prog_stepDeqCv hpc h
  · exact prog_stepDeq hpc h
  · exact prog_stepAlloc hpc h
  · exact prog_stepInit hpc h
  · exact prog_stepUnlockMu hpc h
  · exact prog_stepCvRT hpc hl h
  · exact prog_stepPdEnter hpc h
  · exact prog_stepPdWait hpc h
  · exact prog_stepFree hpc h
  · exact prog_stepRelock hpc h
  · exact prog_stepRet hpc h

end WaitN
