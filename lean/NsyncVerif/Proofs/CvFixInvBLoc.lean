/-
  Layer `CvFix` (cv.c with the repair of F3; adapted from the `Cv` file of the same name): protocol invariant — local transitions (API boundaries, marks, semaphore, notes).
-/
import NsyncVerif.Proofs.CvFixInvB

namespace NsyncVerif.CvFix

theorem invB_setThr {s : State} {t : Tid} (hi : InvB s) (ha : InvA s) (x' : Thr)
    (htodo : x'.todo = (s.thr t).todo) (ht : TInvB (s.setThr t x') t) : InvB (s.setThr t x') := by
  obtain ⟨b1, b2, b3, b4, b5, b6, b7, b8⟩ := hi
  refine ⟨b1, b2, b3, b4, b5, b6, ?_, b8⟩
  intro u
  by_cases hu : u = t
  · subst hu; exact ht
  · refine tinvB_other (s := s) (b7 u) (ha.thr u) (by simp [hu]) ?_ (fun q _ _ => ⟨rfl, rfl, rfl⟩)
    intro v
    by_cases hv : v = t
    · subst hv; simp [htodo]
    · simp [hv]

set_option hygiene false in
macro "locB_case" hl:ident : tactic =>
  `(tactic| (
     simp only [savedLoc, waitLive, waitPrep, Loc.afterLoop, $hl:ident] at b1 b2 b3 b4 b5 b6 b7 b8 b9 b12 b13 b14 a3
     refine invB_setThr hi ha _ ?_ ?_
     · (try simp [Thr.fresh]) <;> (try simp_all)
     · constructor <;> simp [savedLoc, waitLive, waitPrep, Loc.afterLoop, Thr.fresh] <;> (try simp_all) <;>
         (first | done | (intro u hst; by_cases hut : u = t <;> simp_all) | (intro h0 u hst; by_cases hut : u = t <;> simp_all))))

set_option maxHeartbeats 1000000 in
theorem invB_loc_api {s : State} {t : Tid} {e : Event} {x' : Thr} (hi : InvB s) (ha : InvA s) (h : LTr s t e x')
    (he : e.isAtomic = false) : InvB (s.setThr t x') := by
  have hb := hi.thr t
  obtain ⟨b1, b2, b3, b4, b5, b6, b7, b8, b9, b10, b11, b12, b13, b14⟩ := hb
  have a3 := (ha.thr t).live
  cases h with
  | callWait gen dl note hl => locB_case hl
  | retWait res hl hr => rcases hl with hl | hl <;> locB_case hl
  | callSignal hl => locB_case hl
  | callBroadcast hl => locB_case hl
  | retSignal hl hb => locB_case hl
  | retBroadcast hl hb => locB_case hl
  | callWaitN hl => locB_case hl
  | retWaitN hl hm => locB_case hl
  | relMark op hl ho => locB_case hl
  | lockMark op hl hx ho => locB_case hl
  | relockSlow hl hx => locB_case hl
  | nretUnlock hl => locB_case hl
  | nretLock hl => locB_case hl
  | semPdEnterW k dl hl hk hd => locB_case hl
  | semPdEnterC k dl hl hk hd => locB_case hl
  | semPdRetTimedW k d hl hd hn => locB_case hl
  | semPdRetTimedC k d hl hd hn => locB_case hl
  | noteSeen hl => rcases hl with hl | hl | hl <;> locB_case hl
  | noteNotify hl ht => locB_case hl
  | callDebug k hl => locB_case hl
  | retDebug k hl hk => locB_case hl
  | _ => simp [Event.isAtomic] at he

end NsyncVerif.CvFix
