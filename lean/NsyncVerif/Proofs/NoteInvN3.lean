/-
  Layer `Note`, invariant family N: preservation of the whole invariant.
-/
import NsyncVerif.Proofs.NoteInvN2

set_option linter.unusedSimpArgs false

namespace Note

/-- `Dl.lt (some 0) d` unless `d` is zero. -/
theorem Dl.lt_zero {d : Dl} (h : d ≠ some 0) : Dl.lt (some 0) d = true := by
  cases d with
  | none => rfl
  | some v =>
    have : v ≠ 0 := fun e => h (by rw [e])
    simp [Dl.lt]; omega

theorem born_afterDeadline {s : State} {t : Tid} {m n : NoteId} {nt : Dl} {dk : DK}
    (hb : (afterDeadline s t m nt dk).bornNotified n = true) :
    s.bornNotified n = true ∨ (n = m ∧ ¬ nt.pos) := by
  rw [afterDeadline_bornNotified] at hb
  split at hb
  · next hbn =>
    rw [upd_apply] at hb
    split at hb
    · next e =>
      right; refine ⟨e, ?_⟩
      cases dk <;> simp_all [bornNow]
    · left; exact hb
  · left; exact hb

theorem na_afterDeadline {s : State} {t : Tid} {m n : NoteId} {nt : Dl} {dk : DK}
    (hd : ∀ par dl, dk = .newSelf par dl → (s.notes m).expiry = dl) (h : NA s n) :
    NA (afterDeadline s t m nt dk) n := by
  refine ⟨?_, by simpa using h.2⟩
  rcases h.1 with hf | he
  · left; simpa using hf
  · right
    rw [afterDeadline_f_expiry]
    by_cases hnm : n = m
    · subst hnm
      cases dk with
      | newSelf par dl =>
        cases par with
        | none => simpa using he
        | some p =>
          have := hd _ _ rfl
          rw [he] at this
          simp [← this, Dl.min_zero_left]
      | _ => simpa using he
    · rw [newExpiryVal_ne s dk hnm]; exact he

/-- A note that `nsync_note_new` marks as born notified is notified. -/
theorem step_born_na {s s' : State} {e : Event} (hN : InvN s)
    (hs : step s e = .ok s') (a : Tid) (ha : e.actor = some a) (n : NoteId)
    (hb : s'.bornNotified n = true) : s.bornNotified n = true ∨ NA s' n := by
  have hc := hN.claim a
  cases e
  all_goals step_cases hs
  all_goals (try (left; exact hb))
  all_goals (try (left; simpa using hb))
  all_goals simp only [Event.actor, Option.some.injEq, reduceCtorEq] at ha
  all_goals (try subst ha)
  all_goals (try (rw [‹s.pc _ = _›] at hc))
  -- nsync_note_notified_deadline_ returns
  all_goals (try (
    rcases born_afterDeadline hb with h | ⟨h1, h2⟩
    · left; exact h
    · right; subst h1; refine na_afterDeadline hc.2.1.2 ?_
      first
        | exact ⟨(hc.2.2 rfl).1 h2, hc.1⟩
        | exact ⟨Or.inl (by assumption), hc.1⟩))
  -- notify returns to nsync_note_notified_deadline_
  all_goals (try (
    simp only [afterNotify_bornNotified] at hb
    split at hb
    · rw [upd_apply] at hb
      split at hb
      · next e =>
        right; subst e
        exact ⟨by simpa [State.Notified] using hc.2.2 rfl, by simpa using hc.1⟩
      · left; exact hb
    · left; exact hb))
  -- notify returns to the nsync_note_is_notified of nsync_note_new
  all_goals (try (
    rename_i nk hpc
    cases nk with
    | ofApi => left; simpa [afterNotify] using hb
    | ofDeadline dk =>
      simp only [afterNotify] at hb ⊢
      rcases born_afterDeadline hb with h | ⟨h1, _⟩
      · left; exact h
      · right; subst h1
        exact na_afterDeadline hc.2.1.2 ⟨hc.2.2 rfl, hc.1⟩))
  -- nsync_note_new finds the parent notified: the store to the new note's flag
  · simp only [setPc_bornNotified, markBorn_bornNotified, upd_apply] at hb
    split at hb
    · next e =>
      subst e
      right
      exact ⟨Or.inl (by simp), by simpa using hc.1⟩
    · left; simpa using hb

/-- The list of observations grows only when `nsync_note_is_notified` / `nsync_note_wait` return. -/
theorem step_observed {s s' : State} {e : Event} (hs : step s e = .ok s') :
    s'.observed = s.observed ∨
    ∃ t n b, e.actor = some t ∧ s'.observed = ⟨t, n, b, s.after t⟩ :: s.observed ∧
      (s.pc t = .retIs n b ∨ ∃ rd wdl, s.pc t = .wt0 (.ret rd) n wdl ∧ b = decide (rd = 0)) := by
  cases e
  all_goals step_cases hs
  all_goals (try (left; rfl))
  all_goals (try (left; simp; done))
  all_goals (repeat' split)
  all_goals (try (left; simp; done))
  · right; exact ⟨_, _, _, rfl, rfl, Or.inl (by assumption)⟩
  · right; exact ⟨_, _, _, rfl, rfl, Or.inr ⟨_, _, by assumption, by assumption⟩⟩

theorem step_invN {s s' : State} {e : Event} (hA : InvA s) (hN : InvN s)
    (hs : step s e = .ok s') : InvN s' := by
  have hna : ∀ n, NA s n → NA s' n := fun n h => NA.step hA hN hs h
  refine ⟨?_, ?_, ?_, ?_⟩
  · intro t
    by_cases ha : e.actor = some t
    · exact NClaim.actor hA hN hs t ha
    · rw [step_pc_other hs t ha]; exact NClaim.other hA hN hs t ha
  · intro o ho hres
    rcases step_observed hs with h | ⟨t, n, b, ha, h, hpc⟩
    · rw [h] at ho; exact hna _ (hN.obs o ho hres)
    · rw [h] at ho
      rcases List.mem_cons.mp ho with ho | ho
      · subst ho
        have hc := hN.claim t
        rcases hpc with hpc | ⟨rd, wdl, hpc, hb⟩
        · rw [hpc] at hc; exact hna _ (hc.1 hres)
        · rw [hpc] at hc
          have : rd = 0 := by simpa [hb] using hres
          exact hna _ ⟨hc.2.2.1 this, hc.1⟩
      · exact hna _ (hN.obs o ho hres)
  · intro o ho haf
    rcases step_observed hs with h | ⟨t, n, b, ha, h, hpc⟩
    · rw [h] at ho; exact hN.mono o ho haf
    · rw [h] at ho
      rcases List.mem_cons.mp ho with ho | ho
      · subst ho
        have hc := hN.claim t
        rcases hpc with hpc | ⟨rd, wdl, hpc, hb⟩
        · rw [hpc] at hc; exact hc.2 haf
        · rw [hpc] at hc
          have := hc.2.2.2 haf
          simp [hb, this]
      · exact hN.mono o ho haf
  · intro n hb
    rcases step_born hs with h | ⟨a, m, ha, _, _⟩
    · rw [h] at hb; exact hna n (hN.born n hb)
    · rcases step_born_na hN hs a ha n hb with h | h
      · exact hna n (hN.born n h)
      · exact h

theorem Reachable.invN {s : State} (h : Reachable s) : InvA s ∧ InvN s := by
  refine Reachable.induction (P := fun s => InvA s ∧ InvN s) ⟨InvA.init, InvN.init⟩ ?_ s h
  intro s e s' _ hi hs
  exact ⟨step_invA hi.1 hs, step_invN hi.1 hi.2 hs⟩

end Note
