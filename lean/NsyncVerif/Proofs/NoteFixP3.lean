/-
  Layer `Note`, invariant family P, third part: at most one thread has an activation of
  `note_notify_child` past the store on a given note; how `children_adopted` changes; at most one
  scan of a given `children` list is in progress.
-/
import NsyncVerif.Proofs.NoteFixP2

set_option linter.unusedSimpArgs false

namespace Note

theorem Active.of_move {pos pos' : CPos} {stk : List Frame} {top : Top} {m : NoteId}
    (hs : pos.stored = true) (h : Active (.chd pos' stk top) m) : Active (.chd pos stk top) m := by
  cases stk with
  | nil => exact h
  | cons f rest =>
    rcases h with h | h
    · exact Or.inl ⟨h.1, hs⟩
    · exact Or.inr h

theorem Active.of_push {pos pos' : CPos} {g : Frame} {stk : List Frame} {top : Top} {m : NoteId}
    (hs : pos.stored = true) (hg : pos'.stored = false)
    (h : Active (.chd pos' (g :: stk) top) m) : Active (.chd pos stk top) m := by
  cases stk with
  | nil =>
    rcases h with h | h
    · rw [hg] at h; cases h.2
    · simp at h
  | cons f rest =>
    rcases h with h | h
    · rw [hg] at h; cases h.2
    · simp only [List.map_cons, List.mem_cons] at h
      rcases h with h | h
      · exact Or.inl ⟨h.symm, hs⟩
      · exact Or.inr h

/-- A thread gets an activation past the store on `m` only by storing the flag of `m`. -/
theorem step_active_new {s s' : State} {e : Event} (hs : step s e = .ok s') (a : Tid)
    (ha : e.actor = some a) (m : NoteId) (h : Active (s'.pc a) m) :
    Active (s.pc a) m ∨ ∃ f rest top, s.pc a = .chd .st (f :: rest) top ∧ f.note = m := by
  cases e
  all_goals step_cases hs
  all_goals simp only [Event.actor, Option.some.injEq, reduceCtorEq] at ha
  all_goals (try subst ha)
  all_goals (try (left; exact h))
  all_goals (try (nrel_pc_simp h))
  all_goals (try (simp [Active] at h; done))
  all_goals (try (exact absurd h (active_afterDeadlinePc _ _ _ _)))
  all_goals (try (exact absurd h (active_freeLoopStartPc _ _ _ _)))
  all_goals (try (left; rw [‹s.pc _ = _›]; simpa [Active] using h; done))
  -- the end of an activation: only outer activations remain
  all_goals (try (
    left
    rw [active_childReturnPc] at h
    rw [‹s.pc _ = _›]
    exact Or.inr h))
  -- another scan: same stack
  all_goals (try (
    left
    rw [active_childLoopStartPc] at h
    rw [‹s.pc _ = _›]
    rcases h with h | h
    · exact Or.inl ⟨h, rfl⟩
    · exact Or.inr h))
  -- the store itself
  all_goals (try (
    have hpc := ‹s.pc _ = PC.chd CPos.st _ _›
    rw [active_childWakeNextPc] at h
    rcases h with h | h
    · right; exact ⟨_, _, _, hpc, h⟩
    · left; rw [hpc]; exact Or.inr h))
  -- a wake-up: same stack
  all_goals (try (
    left
    rw [active_childWakeNextPc] at h
    rw [‹s.pc _ = _›]
    rcases h with h | h
    · exact Or.inl ⟨h, rfl⟩
    · exact Or.inr h))
  -- notify returns
  all_goals (try (
    cases ‹NK› with
    | ofApi => simp [afterNotifyPc, Active] at h
    | ofDeadline dk => exact absurd h (active_afterDeadlinePc _ _ _ _)))
  -- positions with a general stack
  all_goals (
    left
    rw [‹s.pc _ = _›]
    first
      | exact Active.of_move rfl h
      | exact Active.of_push rfl rfl h)

/-- A note with an activation past the store has its flag set, and there is at most one such
    activation. -/
structure InvAct (s : State) : Prop where
  flag : ∀ t m, Active (s.pc t) m → (s.notes m).notified = true
  uniq : ∀ t u m, Active (s.pc t) m → Active (s.pc u) m → t = u

theorem InvAct.init : InvAct Note.init := by
  refine ⟨?_, ?_⟩ <;> simp [Note.init, Active]

theorem step_stored_flag {s s' : State} {e : Event} (hs : step s e = .ok s') {a : Tid}
    (ha : e.actor = some a) {f : Frame} {rest : List Frame} {top : Top}
    (hpc : s.pc a = .chd .st (f :: rest) top) : (s'.notes f.note).notified = true := by
  replace hpc := hpc.symm
  cases e
  all_goals step_cases hs
  all_goals simp only [Event.actor, Option.some.injEq, reduceCtorEq] at ha
  all_goals (try subst ha)
  all_goals (try (rw [‹s.pc _ = _›] at hpc; cases hpc; done))
  all_goals (
    rw [‹s.pc _ = _›] at hpc
    cases hpc
    obtain ⟨_, _, hk, _⟩ := (by assumption : _ = Site.childSt ∧ _ ∧ _ ∧ _)
    subst hk
    simp)

theorem step_invAct {s s' : State} {e : Event} (hr : Reachable s) (hI : InvAct s)
    (hs : step s e = .ok s') : InvAct s' := by
  have hst := step_stable hs
  have hA := hr.inv6.1
  -- what an activation past the store in the new state comes from
  have src : ∀ t m, Active (s'.pc t) m → Active (s.pc t) m ∨
      (e.actor = some t ∧ ∃ f rest top, s.pc t = .chd .st (f :: rest) top ∧ f.note = m) := by
    intro t m h
    by_cases ha : e.actor = some t
    · rcases step_active_new hs t ha m h with h1 | h1
      · exact Or.inl h1
      · exact Or.inr ⟨ha, h1⟩
    · rw [step_pc_other hs t ha] at h; exact Or.inl h
  refine ⟨?_, ?_⟩
  · intro t m h
    rcases src t m h with h1 | ⟨ha, f, rest, top, hpc, hf⟩
    · have := hI.flag t m h1
      exact hst.flag m (hA.flag m this) this
    · rw [← hf]; exact step_stored_flag hs ha hpc
  · intro t u m ht hu
    rcases src t m ht with h1 | ⟨ha, f, rest, top, hpc, hf⟩
    · rcases src u m hu with h2 | ⟨ha2, f2, rest2, top2, hpc2, hf2⟩
      · exact hI.uniq t u m h1 h2
      · -- `u` stores the flag now, `t` had stored it before
        have h0 := hr.invF u
        rw [hpc2] at h0
        have := hI.flag t m h1
        rw [← hf2] at this
        simp only [FClaim] at h0
        rw [h0] at this; cases this
    · rcases src u m hu with h2 | ⟨ha2, _⟩
      · have h0 := hr.invF t
        rw [hpc] at h0
        have := hI.flag u m h2
        rw [← hf] at this
        simp only [FClaim] at h0
        rw [h0] at this; cases this
      · exact Option.some.inj (ha.symm.trans ha2)

theorem Reachable.invAct {s : State} (h : Reachable s) : InvAct s :=
  Reachable.induction (P := InvAct) InvAct.init (fun _ _ _ hr hI hs => step_invAct hr hI hs) s h

/-! ### `children_adopted` -/

/-- The flag is set by the adoption step of `nsync_note_free` only. -/
theorem step_adopted_set {s s' : State} {e : Event} (hs : step s e = .ok s') {m : NoteId}
    (h0 : (s.notes m).adopted = false) (h1 : (s'.notes m).adopted = true) :
    ∃ a n c nx, e = .lockRet a ∧ s.pc a = .fr .lockChildRet n (some m) c nx ∧
      (s.notes c).disconnecting = 0 := by
  cases e
  all_goals step_cases hs
  all_goals (try (rw [h0] at h1; cases h1; done))
  all_goals (try (simp [h0] at h1; done))
  all_goals (repeat' split at h1)
  all_goals (try (simp [h0] at h1; done))
  -- the adoption
  all_goals (try (
    have hpc := ‹s.pc _ = PC.fr FPos.lockChildRet _ (some _) _ _›
    simp only [setPc_notes, setAdopted_f_adopted, link_f_adopted, eraseChild_f_adopted,
      acquire_f_adopted] at h1
    split at h1
    · next hm => subst hm; exact ⟨_, _, _, _, rfl, hpc, ‹_ = 0›⟩
    · rw [h0] at h1; cases h1))
  -- malloc
  all_goals (
    simp only [setPc_notes, allocNote_f] at h1
    split at h1
    · simp [NoteRec.blank] at h1
    · rw [h0] at h1; cases h1)

theorem scans_childLoopStartPc (cs : List NoteId) (f : Frame) (rest : List Frame) (top : Top) :
    ∃ oc nx, (f.note, oc, nx) ∈ (childLoopStartPc cs f rest top).scans := by
  cases cs with
  | nil => exact ⟨none, none, by simp [childLoopStartPc, PC.scans, CPos.scan, headScan]⟩
  | cons c cs' =>
    exact ⟨some c, cs'.head?, by simp [childLoopStartPc, PC.scans, CPos.scan, headScan]⟩

theorem scans_childWakeNextPc {s : State} {f : Frame} (rest : List Frame) (top : Top)
    (hw : (s.notes f.note).waiters = []) :
    ∃ oc nx, (f.note, oc, nx) ∈ (childWakeNextPc s f rest top).scans := by
  unfold childWakeNextPc
  rw [hw]
  exact scans_childLoopStartPc _ f rest top

theorem scans_freeLoopStartPc (cs : List NoteId) (n : NoteId) (par : Option NoteId) :
    ∃ oc nx, (n, oc, nx) ∈ (freeLoopStartPc cs n par).scans := by
  cases cs with
  | nil => exact ⟨none, none, by simp [freeLoopStartPc, PC.scans, FPos.scan, headScan]⟩
  | cons c cs' =>
    exact ⟨some c, cs'.head?, by simp [freeLoopStartPc, PC.scans, FPos.scan, headScan]⟩

/-- The flag is cleared only by a thread that starts a scan of the list. -/
theorem step_adopted_clear {s s' : State} {e : Event} (hs : step s e = .ok s') {m : NoteId}
    (hm : (s.notes m).allocated = true)
    (h0 : (s.notes m).adopted = true) (h1 : (s'.notes m).adopted = false) :
    ∃ a oc nx, e.actor = some a ∧ (m, oc, nx) ∈ (s'.pc a).scans := by
  cases e
  all_goals step_cases hs
  all_goals (try (rw [h0] at h1; cases h1; done))
  all_goals (try (simp [h0] at h1; done))
  all_goals (repeat' split at h1)
  all_goals (try (simp [h0] at h1; done))
  -- note_notify_child: after the store / the last V
  all_goals (try (
    simp only [childWakeNext_f_adopted, setNotified_f_adopted, setNotified_f_waiters,
      modRec_notes] at h1
    split at h1
    · next hmf =>
      obtain ⟨hmf, hw⟩ := hmf
      subst hmf
      obtain ⟨oc, nx, h⟩ := scans_childWakeNextPc (s := s.setNotified _) _ _ (by simpa using hw)
      exact ⟨_, oc, nx, rfl, by simpa using h⟩
    · rw [h0] at h1; cases h1))
  -- note_notify_child: another scan
  all_goals (try (
    simp only [childScanStart_f_adopted, acquire_f_adopted] at h1
    split at h1
    · next hmf =>
      subst hmf
      obtain ⟨oc, nx, h⟩ := scans_childLoopStartPc _ _ _ _
      exact ⟨_, oc, nx, rfl, by simpa using h⟩
    · rw [h0] at h1; cases h1))
  -- nsync_note_free
  all_goals (try (
    simp only [freeLoopStart_f_adopted, acquire_f_adopted, incDisc_f_adopted] at h1
    split at h1
    · next hmf =>
      subst hmf
      obtain ⟨oc, nx, h⟩ := scans_freeLoopStartPc _ _ _
      exact ⟨_, oc, nx, rfl, by simpa using h⟩
    · rw [h0] at h1; cases h1))
  -- malloc
  all_goals (try (
    have hfresh := ‹(s.notes _).allocated = false›
    simp only [setPc_notes, allocNote_f] at h1
    split at h1
    · next hk => subst hk; rw [hfresh] at hm; cases hm
    · rw [h0] at h1; cases h1))
  · rename_i f rest top _ _
    simp only [childWakeNext_f_adopted] at h1
    have h1' : (if m = f.note ∧ (s.notes f.note).waiters = [] then false
        else (s.notes m).adopted) = false := h1
    by_cases hmf : m = f.note ∧ (s.notes f.note).waiters = []
    · obtain ⟨hmf, hw⟩ := hmf
      subst hmf
      obtain ⟨oc, nx, h⟩ := scans_childWakeNextPc (s := s.modRec _ _) rest top (by simpa using hw)
      exact ⟨_, oc, nx, rfl, by simpa using h⟩
    · rw [if_neg hmf, h0] at h1'; cases h1'

end Note
