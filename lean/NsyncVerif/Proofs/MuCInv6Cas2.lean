import NsyncVerif.Proofs.MuCInv6Cas
/-
  MuC, ring invariant: the CAS steps that continue with the plain code of the scan.
-/
namespace NsyncVerif.MuC

theorem inv6_stepCasA {s s' : State} {t : Tid} {o : Ord} {loc : Loc} {exp new obs : Nat} {ok : Bool}
    (h1 : Inv1 s) (h3 : Inv3 s) (h4 : Inv4 s) (h : Inv6 s)
    (hp : match s.pc t with
      | .usCasGrab _ _ | .usRelCas _ _ _ | .usReCas _ _ _ | .usRcCas _ _ _ _ => True
      | _ => False)
    (hs : stepCas s t o loc exp new obs ok = .ok s') : Inv6 s' := by
  unfold stepCas at hs
  split at hs
  all_goals try (rename_i heq; rw [heq] at hp; exact False.elim hp)
  all_goals try (rename_i hne; split at hp <;> first | exact False.elim hp | (exfalso; simp_all; done))
  · -- usCasGrab
    rename_i r old heq
    have hok3 := h3.ok3 t; rw [heq] at hok3
    rcases casWordE_ok hs with ⟨hw, -, hs⟩ | ⟨-, -, rfl⟩
    · have hsc0 : Scan.ok { late := old.cond, tc := old.cond, done := [], passed := [], todo := [], wake := [], wt := none,
                            sww := false, saf := true } := fun h => h
      obtain ⟨hf, p, hpc, hsc⟩ := afterPickup_frame hs hsc0
      obtain ⟨hlo, _⟩ := afterPickup_lists hs
      have hpt : ScanPc r old.cond (s'.pc t) := by rw [hpc]; simpa using hsc
      have hsh : shareOf s t ≠ none := by
        rw [h1.share_eq (by rw [heq]; simp), heq]; simp [pcShare]
      have hoth := no_unl_at_grab h1 h3 hsh (by rw [hw]; exact hok3)
      have hno : ∀ u, (s.pc u).unl = false := by
        intro u; by_cases e : u = t
        · subst e; rw [heq]; rfl
        · exact hoth u e
      have hc0 : ChainsS s { late := old.cond, tc := old.cond, done := [], passed := [], todo := [], wake := [], wt := none,
                             sww := false, saf := true } := Inv6.chainsS0 h h4 hno rfl rfl rfl
      have hat := afterPickup_chains hs (hc0.congr_state (by simp) (by simp))
      refine Inv6.of_chainsAt t h hat (fun x => by have := hlo x; simp at this; exact this.2.2.2.2.1) (by rw [hf.cargs]; simp)
        (by intro u hu; rw [hpc]; simp [setFn, hu]) hoth ?_
      rw [hpt.mw, heq]; rfl
    · inv6_local t h heq
  · -- usRelCas
    rename_i r sc old heq
    have hok1 := h1.pcok t; rw [heq] at hok1
    rcases casWordE_ok hs with ⟨hw, -, hs⟩ | ⟨-, -, rfl⟩
    · obtain ⟨hf, p, hpc, hsc⟩ := scanRun_frame _ _ t r sc s' hs hok1.2
      obtain ⟨hlo, _⟩ := scanRun_lists _ _ t r sc s' hs
      have hpt : ScanPc r sc.late (s'.pc t) := by rw [hpc]; simpa using hsc
      have hc0 := Inv6.chainsS h h4 (t := t) (sc := sc) (by rw [heq]; rfl)
      have hat := scanRun_chains _ _ t r sc s' hs (hc0.congr_state rfl rfl)
      refine Inv6.of_chainsAt t h hat (fun x => (hlo x).2.2.2.2.1) (by rw [hf.cargs])
        (by intro u hu; rw [hpc]; simp [setFn, hu]) ?_ ?_
      · intro u hu
        cases e : (s.pc u).unl with
        | false => rfl
        | true => exact absurd (h4.uniq u t e (by rw [heq]; rfl)) hu
      · rw [hpt.mw, heq]; rfl
    · inv6_local t h heq
  · -- usReCas
    rename_i r sc old heq
    have hok1 := h1.pcok t; rw [heq] at hok1
    rcases casWordE_ok hs with ⟨hw, -, hs⟩ | ⟨-, -, rfl⟩
    · obtain ⟨hf, p, hpc, hsc⟩ := afterPickup_frame hs hok1.2
      obtain ⟨hlo, _⟩ := afterPickup_lists hs
      have hpt : ScanPc r sc.late (s'.pc t) := by rw [hpc]; simpa using hsc
      have hc0 := Inv6.chainsS h h4 (t := t) (sc := sc) (by rw [heq]; rfl)
      have hat := afterPickup_chains hs (hc0.congr_state rfl rfl)
      refine Inv6.of_chainsAt t h hat (fun x => (hlo x).2.2.2.2.1) (by rw [hf.cargs])
        (by intro u hu; rw [hpc]; simp [setFn, hu]) ?_ ?_
      · intro u hu
        cases e : (s.pc u).unl with
        | false => rfl
        | true => exact absurd (h4.uniq u t e (by rw [heq]; rfl)) hu
      · rw [hpt.mw, heq]; rfl
    · inv6_local t h heq
  · -- usRcCas
    rename_i r sc k old heq
    have hok1 := h1.pcok t; rw [heq] at hok1
    repeat' split at hs
    all_goals first
      | (cases hs; done)
      | skip
    · obtain ⟨hf, p, hpc, hsc⟩ := scanRun_frame _ _ t r sc s' hs hok1.2
      obtain ⟨hlo, _⟩ := scanRun_lists _ _ t r sc s' hs
      have hpt : ScanPc r sc.late (s'.pc t) := by rw [hpc]; simpa using hsc
      have hc0 := Inv6.chainsS h h4 (t := t) (sc := sc) (by rw [heq]; rfl)
      have hat := scanRun_chains _ _ t r sc s' hs
        (hc0.congr_wr (by intro x; simp only [setFn]; split <;> simp_all) rfl)
      refine Inv6.of_chainsAt t h hat ?_ (by rw [hf.cargs])
        (by intro u hu; rw [hpc]; simp [setFn, hu]) ?_ ?_
      · intro x
        have := (hlo x).2.2.2.2.1
        simp only [setFn] at this
        rw [this]; split <;> simp_all
      · intro u hu
        cases e : (s.pc u).unl with
        | false => rfl
        | true => exact absurd (h4.uniq u t e (by rw [heq]; rfl)) hu
      · rw [hpt.mw, heq]; rfl
    · cases hs; inv6_local t h heq

theorem inv6_stepCas {s s' : State} {t : Tid} {o : Ord} {loc : Loc} {exp new obs : Nat} {ok : Bool}
    (h1 : Inv1 s) (h3 : Inv3 s) (h4 : Inv4 s) (h : Inv6 s)
    (hs : stepCas s t o loc exp new obs ok = .ok s') : Inv6 s' := by
  cases hpc : s.pc t <;>
    first
    | exact inv6_stepCasA h1 h3 h4 h (by rw [hpc]; trivial) hs
    | exact inv6_stepCasB h (by rw [hpc]; trivial) hs
    | exact inv6_stepCasC h4 h (by rw [hpc]; trivial) hs
    | (simp [stepCas, hpc] at hs)

end NsyncVerif.MuC
