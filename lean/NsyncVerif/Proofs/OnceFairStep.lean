/-
  Layer `Once`, fair termination (C07): the local ranks and what one accepted step does to them.

  * `relRank`  own steps of a slot-lock holder until it releases the lock (≤ 5);
  * `wRank`    own steps of the CAS winner until its store of 2 (≤ 9);
  * `zRank`    own steps of a caller until its CAS, while the word is 0 (≤ 5);
  * `dRank`    own steps of a caller until its return, once the word is 2 (≤ 10).
-/
import NsyncVerif.Proofs.OnceFairExec

namespace Once

/-- Own steps a holder of a slot lock needs at most to release it. -/
def relRank : PC → Nat
  | .wBcastCall _ => 5
  | .wBcastRet _ | .casTry _ => 4
  | .wStore _ | .casReload _ => 3
  | .waitLd _ => 2
  | .wUnlockCall _ | .cvWaitCall _ | .fUnlockCall _ => 1
  | _ => 0

/-- Own steps the CAS winner needs to reach (and perform) its store of 2. -/
def wRank : PC → Nat
  | .wUnlockCall _ => 9 | .wUnlockRet _ => 8 | .wCbStart _ => 7 | .wCbEnd _ => 6
  | .wLockCall _ => 5 | .wLockRet _ => 4 | .wBcastCall _ => 3 | .wBcastRet _ => 2
  | .wStore _ => 1
  | _ => 0

/-- Own steps to the CAS while the word is 0. -/
def zRank : PC → Nat
  | .outerLd _ => 5 | .implLd _ => 4 | .lock1Call _ _ => 3 | .lock1Ret _ _ => 2 | .casTry _ => 1
  | _ => 0

/-- Own steps to the return once the word is 2. -/
def dRank : PC → Nat
  | .idle => 0 | .readyRet _ => 1 | .fUnlockRet _ => 2 | .fUnlockCall _ => 3 | .waitLd _ => 4
  | .cvWaitRet _ | .casReload _ => 5
  | .cvWaitCall _ | .casTry _ => 6
  | .lock1Ret _ _ => 7 | .lock1Call _ _ => 8 | .implLd _ => 9 | .outerLd _ => 10
  | _ => 11

variable {cfg : Config}

/-- A thread stays in its call frame until it returns. -/
theorem frame_step {s s' : State} {e : Event} {t : Tid} {f : Frame}
    (h : step cfg s e = .ok s') (hf : (s.pc t).frame? = some f) :
    (s'.pc t).frame? = some f ∨ s'.pc t = .idle := by
  step_cases e h
  all_goals try simp only [State.setPc, State.acquire, State.release]
  all_goals grind [upd, afterLoc, PC.frame?]

/-- The only way out of a call is the `ret` event from `readyRet`; it records the return. -/
theorem to_idle {s s' : State} {e : Event} {t : Tid}
    (h : step cfg s e = .ok s') (hp : s.pc t ≠ .idle) (hp' : s'.pc t = .idle) :
    ∃ f, s.pc t = .readyRet f ∧ e = .ret t f.blocking f.arg ∧
      s'.returned = (t, f.o) :: s.returned := by
  step_cases e h
  all_goals try simp only [State.setPc, State.acquire, State.release] at hp' ⊢
  all_goals grind [upd, afterLoc]

/-- A lock held by `t` is not touched by the others. -/
theorem holder_other {s s' : State} {e : Event} {t : Tid} {k : SlotId}
    (h : step cfg s e = .ok s') (hne : e.tid ≠ some t) (hl : s.lockHolder k = some t) :
    s'.lockHolder k = some t := by
  step_cases e h
  all_goals try simp only [State.setPc, State.acquire, State.release]
  all_goals grind [upd, Event.tid]

/-- Every own step of a lock holder releases the lock or brings the release closer. -/
theorem holder_move {s s' : State} {e : Event} {t : Tid} {k : SlotId} (hi : Inv cfg s)
    (h : step cfg s e = .ok s') (he : e.tid = some t) (hl : s.lockHolder k = some t) :
    s'.lockHolder k = none ∨
      (s'.lockHolder k = some t ∧ relRank (s'.pc t) < relRank (s.pc t)) := by
  have hH := hi.lock k t hl
  have hw := hi.waiting t
  step_cases e h
  all_goals try simp only [State.setPc, State.acquire, State.release]
  all_goals grind [upd, afterLoc, Event.tid, PC.Holds, PC.Waiting, relRank]

/-- Every own step of the winner of `o` stores 2 or brings the store closer. -/
theorem winner_move {s s' : State} {e : Event} {t : Tid} {o : OnceId}
    (h : step cfg s e = .ok s') (he : e.tid = some t) (hw : (s.pc t).InW o) :
    s'.word o = 2 ∨ ((s'.pc t).InW o ∧ wRank (s'.pc t) < wRank (s.pc t)) := by
  step_cases e h
  all_goals try simp only [State.setPc, State.acquire, State.release]
  all_goals grind [upd, afterLoc, Event.tid, PC.InW, wRank]

/-- While the word of its once object is 0, every own step of a caller makes the word non-zero
    (its CAS succeeds) or brings the CAS closer. -/
theorem zero_move {s s' : State} {e : Event} {t : Tid} {f : Frame} (hi : Inv cfg s)
    (h : step cfg s e = .ok s') (he : e.tid = some t) (hf : (s.pc t).frame? = some f)
    (hw : s.word f.o = 0) :
    s'.word f.o ≠ 0 ∨ ((s'.pc t).frame? = some f ∧ zRank (s'.pc t) < zRank (s.pc t)) := by
  have h1 := hi.waiting t f.o
  have h2 := hi.sawNonzero t f.o
  have h3 := hi.inW t f.o
  have h4 := hi.leaving t f.o
  step_cases e h
  all_goals try simp only [State.setPc, State.acquire, State.release]
  all_goals grind [upd, afterLoc, Event.tid, PC.frame?, PC.Waiting, PC.SawNonzero, PC.InW,
    PC.Leaving, zRank]

/-- Once the word of its once object is 2, every own step of a caller brings its return closer. -/
theorem done_move {s s' : State} {e : Event} {t : Tid} {f : Frame} (hi : Inv cfg s)
    (h : step cfg s e = .ok s') (he : e.tid = some t) (hf : (s.pc t).frame? = some f)
    (hw : s.word f.o = 2) : dRank (s'.pc t) < dRank (s.pc t) := by
  have h3 := hi.inW t f.o
  step_cases e h
  all_goals try simp only [State.setPc, State.acquire, State.release]
  all_goals grind [upd, afterLoc, Event.tid, PC.frame?, PC.InW, dRank]

/-- "Done" is stable. -/
theorem word2_step {s s' : State} {e : Event} {o : OnceId} (hi : Inv cfg s)
    (h : step cfg s e = .ok s') (hw : s.word o = 2) : s'.word o = 2 := by
  have := word_step hi h o
  omega

/-- A pc at which the thread holds a slot lock is `Ready`. -/
theorem ready_of_holds {s : State} {t : Tid} {k : SlotId} (h : (s.pc t).Holds cfg k) :
    Ready cfg s t := by
  refine ⟨?_, ?_, ?_⟩
  · intro hp; simp [hp, PC.Holds] at h
  · intro hu; cases hp : s.pc t <;> simp [hp, PC.Holds, PC.InUser] at h hu
  · intro k' hk'; cases hp : s.pc t <;> simp [hp, PC.Holds, PC.LockWait] at h hk'

end Once
