import NsyncVerif.Proofs.MuQStepFacts2
/-
  MuQ: single-step facts for the queue (C02 I_spin), the enqueue step (C14) and the release
  point (C13).
-/
namespace NsyncVerif.MuQ

@[simp] theorem semPost_queue (cfg : Cfg) (s : State) (k : Wid) : (semPost cfg s k).queue = s.queue := rfl

/-- The queue changes only in steps of the thread that owns the spinlock (before or after). -/
theorem queue_changed_by_spin_holder {cfg : Cfg} {s s' : State} {e : Event}
    (h : step cfg s e = .ok s') (hq : s'.queue ≠ s.queue) :
    ∃ t, e.tid = some t ∧ ((role (s.pc t)).spin = true ∨ (role (s'.pc t)).spin = true) := by
  cases e
  case call t a => obtain ⟨p, hd, rfl⟩ := stepCall_shape h; exact absurd rfl hq
  case ret t a res => obtain ⟨hd, rfl⟩ := stepRet_shape h; exact absurd rfl hq
  case ld t o loc obs => obtain ⟨p, rfl⟩ := stepLd_shape h; exact absurd rfl hq
  case st t o loc new obs =>
    simp only [step, stepSt] at h
    cases hp : s.pc t <;> simp only [hp] at h <;> try (cases h; done)
    · exact ⟨t, rfl, Or.inl (by rw [hp]; rfl)⟩
    · repeat' split at h
      all_goals first | (cases h; done) | (cases h; exact absurd rfl hq)
  case cas t o loc exp new obs ok =>
    simp only [step, stepCas] at h
    cases hp : s.pc t <;> simp only [hp] at h <;> try (cases h; done)
    case usRcCas l sc k old => exact ⟨t, rfl, Or.inl (by rw [hp]; rfl)⟩
    case usCasGrab l old =>
      rcases casWord_ok h with ⟨hw, _, rfl⟩ | ⟨_, _, rfl⟩
      · exact ⟨t, rfl, Or.inr (scanAdvance_spin _ t l _)⟩
      · exact absurd rfl hq
    all_goals
      rcases casWord_ok h with ⟨hw, _, rfl⟩ | ⟨_, _, rfl⟩ <;> exact absurd (by simp [setPc]) hq
  case semPEnter t k =>
    simp only [step] at h
    cases hp : s.pc t <;> simp only [hp] at h <;> try (cases h; done)
    split at h <;> try (cases h; done)
    cases h; exact absurd rfl hq
  case semPRet t k =>
    simp only [step] at h
    cases hp : s.pc t <;> simp only [hp] at h <;> try (cases h; done)
    repeat' split at h
    all_goals first | (cases h; done) | (cases h; exact absurd rfl hq)
  case semV t k =>
    simp only [step] at h
    cases hp : s.pc t <;> simp only [hp] at h <;> try (cases h; done)
    split at h <;> try (cases h; done)
    cases h; exact absurd (by simp) hq
  case envV k => simp only [step] at h; cases h; exact absurd rfl hq
  case envSem k n =>
    simp only [step] at h
    split at h <;> try (cases h; done)
    cases h; exact absurd rfl hq

/-! ### C14: the enqueue step -/

theorem enq_cas_effect {cfg : Cfg} {s s' : State} {t : Tid} {c : SL} {old : Word} {o : Ord} {loc : Loc}
    {exp new obs : Nat} (hp : s.pc t = .lsCasEnq c old)
    (h : step cfg s (.cas t o loc exp new obs true) = .ok s') :
    s'.word = enqWord c.l c.clear c.lwl old ∧ s'.pc t = .lsSt c ∧ s'.queue = s.queue := by
  simp only [step, stepCas, hp] at h
  rcases casWord_ok h with ⟨hw, _, rfl⟩ | ⟨_, hok, _⟩
  · simp [setPc]
  · cases hok

theorem enq_store_effect {cfg : Cfg} {s s' : State} {t : Tid} {c : SL} {o : Ord} {loc : Loc} {new obs : Nat}
    (hp : s.pc t = .lsSt c) (h : step cfg s (.st t o loc new obs) = .ok s') :
    ∃ k, loc = .waiting k ∧ s'.queue = (if c.wc = 0 then s.queue ++ [k] else k :: s.queue) ∧
      (s'.wr k).waiting = true := by
  simp only [step, stepSt, hp] at h
  cases loc <;> simp only at h <;> try (cases h; done)
  rename_i k
  refine ⟨k, rfl, ?_⟩
  repeat' split at h
  all_goals first | (cases h; done) | (cases h; simp_all [setPc])

theorem blocked_ign (l : Mode) (w : Word) :
    blocked l true w = (w.wlock || (l == .W && w.readers != 0)) := by
  cases l <;> simp [blocked]

theorem woken_load {cfg : Cfg} {s s' : State} {t : Tid} {c : SL} {o : Ord} {loc : Loc} {obs : Nat}
    (hk : PcOk s) (hp : s.pc t = .lsLd c) (hc : c.clear = true)
    (h : step cfg s (.ld t o loc obs) = .ok s')
    (hfree : s.word.wlock = false ∧ (c.l = .W → s.word.readers = 0)) :
    s'.pc t = .lsCasAcq c s.word := by
  have hkt := hk t; simp only [hp, PC.ok] at hkt
  have hign : c.ign = true := by rw [hkt.1.1]; exact hc
  simp only [step, stepLd, hp] at h
  have h := ldWord_ok h; subst h
  have hb : blocked c.l c.ign s.word = false := by
    rw [hign, blocked_ign, hfree.1]
    cases hl : c.l with
    | W => simp [hfree.2 hl]
    | R => simp
  simp [hb, setPc]

/-! ### C13: the release point -/

/-- Inside nsync_mu_unlock / nsync_mu_runlock / nsync_mu_unlock_slow_. -/
def inRelease : PC → Prop
  | .ulCas0 _ | .ulLd _ | .ulCas1 _ _ | .ulRet _ => True
  | .usLd _ | .usCasUnc _ _ | .usCasGrab _ _ | .usRcLd _ _ _ | .usRcCas _ _ _ _ => True
  | .usFinLd _ _ | .usFinCas _ _ _ | .usWakeSt _ _ _ | .usWakeV _ _ _ => True
  | _ => False

/-- After the release point: only waiter records and semaphores are touched, then `ret`. -/
def relDone : PC → Prop
  | .ulRet _ | .usWakeSt _ _ _ | .usWakeV _ _ _ => True
  | _ => False

theorem relDone_step {cfg : Cfg} {s s' : State} {e : Event} {t : Tid}
    (hd : relDone (s.pc t)) (h : step cfg s e = .ok s') (he : e.tid = some t) :
    stepTouchesMu s e = false ∧ (relDone (s'.pc t) ∨ s'.pc t = .idle) ∧ s'.word = s.word ∧
      s'.queue = s.queue ∧ s'.sp = s.sp ∧ s'.wOwner = s.wOwner ∧ s'.rOwners = s.rOwners := by
  have htm : stepTouchesMu s e = false := by
    simp only [stepTouchesMu, he]
    cases hp : s.pc t <;> simp [hp, relDone] at hd <;> rfl
  refine ⟨htm, ?_⟩
  cases e <;> simp only [Event.tid, Option.some.injEq, reduceCtorEq] at he <;> subst he
  case call t a =>
    simp only [step, stepCall] at h
    cases hp : s.pc t <;> simp [hp, relDone] at hd h
  case ret t a res =>
    obtain ⟨hd', rfl⟩ := stepRet_shape h
    simp [setPc]
  case ld t o loc obs =>
    simp only [step, stepLd] at h
    cases hp : s.pc t <;> simp [hp, relDone] at hd h
  case st t o loc new obs =>
    simp only [step, stepSt] at h
    cases hp : s.pc t <;> simp only [hp, relDone] at hd h <;> try (exact absurd hd id)
    all_goals try (cases h; done)
    repeat' split at h
    all_goals first | (cases h; done) | (cases h; simp [setPc, relDone])
  case cas t o loc exp new obs ok =>
    simp only [step, stepCas] at h
    cases hp : s.pc t <;> simp [hp, relDone] at hd h
  case semPEnter t k =>
    simp only [step] at h
    cases hp : s.pc t <;> simp [hp, relDone] at hd h
  case semPRet t k =>
    simp only [step] at h
    cases hp : s.pc t <;> simp [hp, relDone] at hd h
  case semV t k =>
    simp only [step] at h
    cases hp : s.pc t <;> simp only [hp, relDone] at hd h <;> try (exact absurd hd id)
    all_goals try (cases h; done)
    split at h <;> try (cases h; done)
    cases h
    rename_i l k' r _
    cases r <;> simp [semPost, afterFin, setPc, relDone]

end NsyncVerif.MuQ

namespace NsyncVerif.MuQ

theorem scanAdvance_not_done (s : State) (t : Tid) (l : Mode) (sc : Scan) :
    ¬ relDone ((scanAdvance s t l sc).pc t) := by
  simp only [scanAdvance]; split <;> simp [setPc, relDone]

/-- The step that takes a releasing call across its release point is a successful CAS on the word:
    either the CAS that gives up the caller's share (fast paths, uncontended CAS of unlock_slow)
    or the final CAS of unlock_slow that drops the spinlock. -/
theorem release_point_step {cfg : Cfg} {s s' : State} {e : Event} {t : Tid}
    (hin : inRelease (s.pc t)) (hnd : ¬ relDone (s.pc t)) (h : step cfg s e = .ok s')
    (he : e.tid = some t) (hd : relDone (s'.pc t)) :
    (∃ o exp new obs, e = .cas t o .word exp new obs true) ∧ stepTouchesMu s e = true ∧
      ((∃ l, pcShare (s.pc t) = some l ∧ s' = subShare { setPc s t (.ulRet l) with word := s'.word } t l) ∨
       (∃ l f old, s.pc t = .usFinCas l f old ∧ s.word = old ∧ s'.word = finWord f old ∧ s'.sp = none)) := by
  cases e <;> simp only [Event.tid, Option.some.injEq, reduceCtorEq] at he <;> subst he
  case call t a =>
    simp only [step, stepCall] at h
    cases hp : s.pc t <;> simp [hp, inRelease] at hin h
  case ret t a res =>
    simp only [step, stepRet] at h
    split at h <;> try (cases h; done)
    all_goals rename_i hp
    all_goals simp [hp, inRelease, relDone] at hin hnd
  case ld t o loc obs =>
    simp only [step, stepLd] at h
    cases hp : s.pc t <;> simp only [hp, inRelease, relDone] at hin hnd h <;> try (exact absurd hin id)
    all_goals try (exact absurd trivial hnd)
    all_goals try (cases h; done)
    all_goals repeat' split at h
    all_goals first
      | (cases h; done)
      | (cases h; simp [setPc, relDone] at hd; done)
      | (have h' := ldWord_ok h; subst h'; repeat' split at hd
         all_goals simp [setPc, relDone] at hd)
  case st t o loc new obs =>
    simp only [step, stepSt] at h
    cases hp : s.pc t <;> simp only [hp, inRelease, relDone] at hin hnd h <;> try (exact absurd hin id)
    all_goals try (exact absurd trivial hnd)
    all_goals try (cases h; done)
  case cas t o loc exp new obs ok =>
    have htm : stepTouchesMu s (.cas t o loc exp new obs ok) = true := by
      simp only [stepTouchesMu, Event.tid]
      cases hp : s.pc t <;> simp [hp, inRelease, relDone] at hin hnd <;> rfl
    simp only [step, stepCas] at h
    cases hp : s.pc t <;> simp only [hp, inRelease, relDone] at hin hnd h <;> try (exact absurd hin id)
    all_goals try (exact absurd trivial hnd)
    all_goals try (cases h; done)
    case ulCas0 l =>
      have hloc := (casWord_loc h).1
      rcases casWord_ok h with ⟨hw, hok, rfl⟩ | ⟨_, _, rfl⟩
      · subst hok hloc
        exact ⟨⟨_, _, _, _, rfl⟩, htm, Or.inl ⟨l, by simp [pcShare], by cases l <;> rfl⟩⟩
      · simp [setPc, relDone] at hd
    case ulCas1 l old =>
      have hloc := (casWord_loc h).1
      rcases casWord_ok h with ⟨hw, hok, rfl⟩ | ⟨_, _, rfl⟩
      · subst hok hloc
        exact ⟨⟨_, _, _, _, rfl⟩, htm, Or.inl ⟨l, by simp [pcShare], by cases l <;> rfl⟩⟩
      · simp [setPc, relDone] at hd
    case usCasUnc l old =>
      have hloc := (casWord_loc h).1
      rcases casWord_ok h with ⟨hw, hok, rfl⟩ | ⟨_, _, rfl⟩
      · subst hok hloc
        exact ⟨⟨_, _, _, _, rfl⟩, htm, Or.inl ⟨l, by simp [pcShare], by cases l <;> rfl⟩⟩
      · simp [setPc, relDone] at hd
    case usCasGrab l old =>
      rcases casWord_ok h with ⟨hw, hok, rfl⟩ | ⟨_, _, rfl⟩
      · exact absurd hd (scanAdvance_not_done _ t l _)
      · simp [setPc, relDone] at hd
    case usRcCas l sc k old =>
      repeat' split at h
      all_goals first | (cases h; done) | skip
      · cases h; exact absurd hd (scanAdvance_not_done _ t l _)
      · cases h; simp [setPc, relDone] at hd
    case usFinCas l f old =>
      have hloc := (casWord_loc h).1
      rcases casWord_ok h with ⟨hw, hok, rfl⟩ | ⟨_, _, rfl⟩
      · subst hok hloc
        exact ⟨⟨_, _, _, _, rfl⟩, htm, Or.inr ⟨l, f, old, rfl, hw, by simp, by simp⟩⟩
      · simp [setPc, relDone] at hd
  case semPEnter t k =>
    simp only [step] at h
    cases hp : s.pc t <;> simp [hp, inRelease] at hin h
  case semPRet t k =>
    simp only [step] at h
    cases hp : s.pc t <;> simp [hp, inRelease] at hin h
  case semV t k =>
    simp only [step] at h
    cases hp : s.pc t <;> simp only [hp, inRelease, relDone] at hin hnd h <;> try (exact absurd hin id)
    all_goals try (exact absurd trivial hnd)
    all_goals try (cases h; done)

/-- In a reachable state, a thread inside a releasing call that owns neither a share nor the
    spinlock has passed its release point. -/
theorem relDone_of_owns_nothing {cfg : Cfg} {s : State} (hr : Reachable cfg s) {t : Tid}
    (hin : inRelease (s.pc t)) (hw : s.wOwner ≠ some t) (hrd : t ∉ s.rOwners) (hsp : s.sp ≠ some t) :
    relDone (s.pc t) := by
  have inv := reachable_inv hr
  have hside := reachable_side hr
  have noShare : ∀ l, pcShare (s.pc t) = some l → False := by
    intro l hl
    have hnone : s.held t = none := held_none_of_active hside.2 (by
      intro hi; rw [hi] at hl; cases hl)
    have hts : (abs s).ts t = some l := by simp [abs, tshare, hnone, hl]
    cases l
    · exact hw ((inv.lock.wown t).2 hts)
    · exact hrd ((inv.lock.rown t).2 hts)
  have noSpin : (role (s.pc t)).spin = true → False := fun hx => hsp ((inv.spin.own t).2 hx)
  cases hp : s.pc t <;> simp only [hp, inRelease, relDone] at hin ⊢ <;> try (exact absurd hin id)
  all_goals first
    | trivial
    | (exact (noShare _ (by rw [hp]; rfl)).elim)
    | (exact (noSpin (by rw [hp]; rfl)).elim)

end NsyncVerif.MuQ
