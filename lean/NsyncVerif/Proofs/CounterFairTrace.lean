/-
  Proofs/CounterFairTrace.lean — Counter layer: a finite accepted trace followed by idling for ever,
  as an `Exec` (non-vacuity and witness executions for `Props/C10Fair.lean`).
-/
import NsyncVerif.Proofs.CounterFairMain

namespace Counter

theorem run_append_ok : ∀ (a b : List Event) (s s' : State), run s (a ++ b) = .ok s' →
    ∃ s1, run s a = .ok s1 ∧ run s1 b = .ok s' := by
  intro a
  induction a with
  | nil => intro b s s' h; exact ⟨s, rfl, h⟩
  | cons e es ih =>
    intro b s s' h
    simp only [List.cons_append, run] at h ⊢
    cases hs : step s e with
    | ok s1 => rw [hs] at h; exact ih b s1 s' h
    | error m => rw [hs] at h; cases h

theorem run_append_one {a : List Event} {e : Event} {s s1 s' : State} (h1 : run s a = .ok s1)
    (h : run s (a ++ [e]) = .ok s') : step s1 e = .ok s' := by
  obtain ⟨s2, h2, h3⟩ := run_append_ok _ _ _ _ h
  rw [h1] at h2; cases h2
  simp only [run] at h3
  cases hs : step s1 e with
  | ok s3 => rw [hs] at h3; exact h3
  | error m => rw [hs] at h3; cases h3

/-- The state after the first `i` events (the initial state if the trace is not accepted). -/
def stateAt (evs : List Event) (i : Nat) : State :=
  match run init (evs.take i) with
  | .ok s => s
  | .error _ => init

theorem stateAt_ok {evs : List Event} {sf : State} (h : run init evs = .ok sf) (i : Nat) :
    run init (evs.take i) = .ok (stateAt evs i) := by
  have : run init (evs.take i ++ evs.drop i) = .ok sf := by rw [List.take_append_drop]; exact h
  obtain ⟨s1, h1, _⟩ := run_append_ok _ _ _ _ this
  simp only [stateAt, h1]

theorem stateAt_ge {evs : List Event} {sf : State} (h : run init evs = .ok sf) {i : Nat}
    (hi : evs.length ≤ i) : stateAt evs i = sf := by
  simp only [stateAt, List.take_of_length_le hi, h]

/-- A finite accepted trace, then nothing for ever. -/
def traceExec (evs : List Event) (sf : State) (h : run init evs = .ok sf) : Exec init :=
  { ρ := stateAt evs
    σ := fun i => evs[i]?
    start := by simp [stateAt, run]
    next := by
      intro i
      cases he : evs[i]? with
      | none =>
        have hi : evs.length ≤ i := by simpa using he
        show stateAt evs (i + 1) = stateAt evs i
        rw [stateAt_ge h hi, stateAt_ge h (by omega)]
      | some e =>
        show step (stateAt evs i) e = .ok (stateAt evs (i + 1))
        have h1 := stateAt_ok h (i + 1)
        rw [List.take_add_one, he, Option.toList] at h1
        exact run_append_one (stateAt_ok h i) h1 }

theorem traceExec_tail {evs : List Event} {sf : State} (h : run init evs = .ok sf) {j : Nat}
    (hj : evs.length ≤ j) : (traceExec evs sf h).ρ j = sf ∧ (traceExec evs sf h).σ j = none :=
  ⟨stateAt_ge h hj, by show evs[j]? = none; simpa using hj⟩

def Event.tidOf : Event → Option Tid
  | .thr t _ => some t
  | .tick _ => none

/-- Threads that do not occur in a trace are where they were. -/
theorem run_untouched {t : Tid} : ∀ (evs : List Event) (s s' : State), Reachable s →
    (∀ e ∈ evs, e.tidOf ≠ some t) → run s evs = .ok s' → s'.pc t = s.pc t := by
  intro evs
  induction evs with
  | nil => intro s s' _ _ h; simp [run] at h; subst h; rfl
  | cons e es ih =>
    intro s s' hr hne h
    simp only [run] at h
    cases hs : step s e with
    | error m => rw [hs] at h; cases h
    | ok s1 =>
      rw [hs] at h
      have a := ih s1 s' (reachable_step hr hs) (fun e' he' => hne e' (by simp [he'])) h
      have hn := hne e (by simp)
      rw [a]
      cases e with
      | tick ns => exact congrFun (C10_tick_keeps hs).2.2.2 t
      | thr u ev =>
        have f := facts_stepThr (inv_of_reachable hr) hs
        exact f.others t (fun h => hn (by simp [Event.tidOf, h]))

theorem reachable_init : Reachable init := ⟨[], rfl⟩

variable {s0 : State}

/-- an execution that ends with every thread idle or blocked for ever is weakly fair -/
theorem weakFair_of_final (x : Exec s0) (N : Nat)
    (hN : ∀ j, N ≤ j → ∀ t, (x.ρ j).pc t = .idle ∨ Blocked (x.ρ j) t) : WeakFair x := by
  intro t i h
  rcases hN (max i N) (by omega) t with h1 | h1
  · exact absurd h1 (h (max i N) (by omega)).1
  · exact absurd h1 (h (max i N) (by omega)).2

theorem finiteArrivals_of_tail (x : Exec s0) (N : Nat) (hN : ∀ j, N ≤ j → x.σ j = none) :
    FiniteArrivals x :=
  ⟨N, fun j t e hj he => by rw [hN j hj] at he; cases he⟩

end Counter
