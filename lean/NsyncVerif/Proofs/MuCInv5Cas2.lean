import NsyncVerif.Proofs.MuCInv5Cas
/-
  MuC, MU_CONDITION hint: the CAS steps that change the lists or may clear the bit.
-/
namespace NsyncVerif.MuC

/-- A step of the unlocker `t` that permutes its lists: MU_CONDITION is kept, records keep their
    conditions, nothing new is queued. -/
theorem Inv5.scan_step {s s' : State} (t : Tid) (h : Inv5 s) (h4' : Inv4 s')
    (hlo : ∀ x, (s'.wr x).cond = (s.wr x).cond)
    (hw : s.word.cond = true → s'.word.cond = true)
    (hpc : ∀ u, u ≠ t → s'.pc u = s.pc u)
    (hperm : (allOf s' t).Perm (allOf s t))
    (hoth : ∀ u, u ≠ t → (s.pc u).unl = false)
    (hwake : ∀ x, x ∈ (s.pc t).wakeL → x ∈ (s'.pc t).wakeL)
    (hmt : (s'.pc t).mtOld = none) (hlc : (s'.pc t).limboC = none) : Inv5 s' := by
  refine Inv5.local t h ?_ hlo hw hpc ?_ ?_
  · intro k hk
    exact queued_of_scan h4' hpc hperm hoth hwake hk
  · intro old ho; rw [hmt] at ho; cases ho
  · intro k c hl; rw [hlc] at hl; cases hl

theorem scanPc_limboC {r : Ret} {late : Bool} {p : PC} (h : ScanPc r late p) : p.limboC = none := by
  cases p <;> simp [ScanPc] at h <;> rfl

theorem scanPc_mtOld {r : Ret} {late : Bool} {p : PC} (h : ScanPc r late p) : p.mtOld = none := by
  cases p <;> simp [ScanPc] at h <;> rfl

theorem inv5_stepCasA {s s' : State} {t : Tid} {o : Ord} {loc : Loc} {exp new obs : Nat} {ok : Bool}
    (h1 : Inv1 s) (h3 : Inv3 s) (h4 : Inv4 s) (h4' : Inv4 s') (h : Inv5 s)
    (hp : match s.pc t with
      | .usCasGrab _ _ | .usRelCas _ _ _ | .usReCas _ _ _ | .usRcCas _ _ _ _ => True
      | _ => False)
    (hs : stepCas s t o loc exp new obs ok = .ok s') : Inv5 s' := by
  unfold stepCas at hs
  split at hs
  all_goals try (rename_i heq; rw [heq] at hp; exact False.elim hp)
  all_goals try (rename_i hne; split at hp <;> first | exact False.elim hp | (exfalso; simp_all; done))
  · -- usCasGrab
    rename_i r old heq
    have hok3 := h3.ok3 t; rw [heq] at hok3
    rcases casWordE_ok hs with ⟨hw, -, hs⟩ | ⟨-, -, rfl⟩
    · have hsc0 : Scan.ok { late := old.cond, tc := old.cond, done := [], passed := [], todo := [], wake := [], wt := none,
                            sww := false, saf := true } := fun h => h
      obtain ⟨hf, p, hpc, hsc⟩ := afterPickup_frame hs hsc0
      obtain ⟨hlo, hperm⟩ := afterPickup_lists hs
      have hwk := afterPickup_wake hs
      have hpt : ScanPc r old.cond (s'.pc t) := by rw [hpc]; simpa using hsc
      have hsh : shareOf s t ≠ none := by
        rw [h1.share_eq (by rw [heq]; simp), heq]; simp [pcShare]
      refine Inv5.scan_step t h h4' (fun x => by have := hlo x; simp at this; exact this.2.2.2.2.1) ?_
        (by intro u hu; rw [hpc]; simp [setFn, hu]) ?_ (no_unl_at_grab h1 h3 hsh (by rw [hw]; exact hok3))
        (by intro x hx; rw [heq] at hx; simp [PC.wakeL] at hx) (scanPc_mtOld hpt) (scanPc_limboC hpt)
      · rw [hf.word]; simp [grabWord, hw]; cases r.mode <;> simp [subWord]
      · refine hperm.trans ?_
        simp [allOf, heq, PC.priv, PC.scan?, PC.wakeL, Scan.lists]
    · inv5_local t h heq
  · -- usRelCas
    rename_i r sc old heq
    have hok1 := h1.pcok t; rw [heq] at hok1
    rcases casWordE_ok hs with ⟨hw, -, hs⟩ | ⟨-, -, rfl⟩
    · obtain ⟨hf, p, hpc, hsc⟩ := scanRun_frame _ _ t r sc s' hs hok1.2
      obtain ⟨hlo, hperm⟩ := scanRun_lists _ _ t r sc s' hs
      have hwk := scanRun_wake _ _ t r sc s' hs
      have hpt : ScanPc r sc.late (s'.pc t) := by rw [hpc]; simpa using hsc
      refine Inv5.scan_step t h h4' (fun x => (hlo x).2.2.2.2.1) (by rw [hf.word]; simp [hw])
        (by intro u hu; rw [hpc]; simp [setFn, hu]) ?_ ?_ (by intro x hx; rw [heq] at hx; exact hwk x hx) (scanPc_mtOld hpt) (scanPc_limboC hpt)
      · refine hperm.trans ?_
        simp [allOf, heq, PC.priv, PC.scan?, PC.wakeL]
      · intro u hu
        cases e : (s.pc u).unl with
        | false => rfl
        | true => exact absurd (h4.uniq u t e (by rw [heq]; rfl)) hu
    · inv5_local t h heq
  · -- usReCas
    rename_i r sc old heq
    have hok1 := h1.pcok t; rw [heq] at hok1
    rcases casWordE_ok hs with ⟨hw, -, hs⟩ | ⟨-, -, rfl⟩
    · obtain ⟨hf, p, hpc, hsc⟩ := afterPickup_frame hs hok1.2
      obtain ⟨hlo, hperm⟩ := afterPickup_lists hs
      have hwk := afterPickup_wake hs
      have hpt : ScanPc r sc.late (s'.pc t) := by rw [hpc]; simpa using hsc
      refine Inv5.scan_step t h h4' (fun x => (hlo x).2.2.2.2.1) (by rw [hf.word]; simp [hw])
        (by intro u hu; rw [hpc]; simp [setFn, hu]) ?_ ?_ (by intro x hx; rw [heq] at hx; exact hwk x hx) (scanPc_mtOld hpt) (scanPc_limboC hpt)
      · refine hperm.trans ?_
        simp [allOf, heq, PC.priv, PC.scan?, PC.wakeL]
      · intro u hu
        cases e : (s.pc u).unl with
        | false => rfl
        | true => exact absurd (h4.uniq u t e (by rw [heq]; rfl)) hu
    · inv5_local t h heq
  · -- usRcCas
    rename_i r sc k old heq
    have hok1 := h1.pcok t; rw [heq] at hok1
    repeat' split at hs
    all_goals first
      | (cases hs; done)
      | skip
    · obtain ⟨hf, p, hpc, hsc⟩ := scanRun_frame _ _ t r sc s' hs hok1.2
      obtain ⟨hlo, hperm⟩ := scanRun_lists _ _ t r sc s' hs
      have hwk := scanRun_wake _ _ t r sc s' hs
      have hpt : ScanPc r sc.late (s'.pc t) := by rw [hpc]; simpa using hsc
      refine Inv5.scan_step t h h4' ?_ (by rw [hf.word]; simp)
        (by intro u hu; rw [hpc]; simp [setFn, hu]) ?_ ?_ (by intro x hx; rw [heq] at hx; exact hwk x hx) (scanPc_mtOld hpt) (scanPc_limboC hpt)
      · intro x
        have := (hlo x).2.2.2.2.1
        simp only [setFn] at this
        rw [this]; split <;> simp_all
      · refine hperm.trans ?_
        simp [allOf, heq, PC.priv, PC.scan?, PC.wakeL]
      · intro u hu
        cases e : (s.pc u).unl with
        | false => rfl
        | true => exact absurd (h4.uniq u t e (by rw [heq]; rfl)) hu
    · cases hs; inv5_local t h heq

end NsyncVerif.MuC
