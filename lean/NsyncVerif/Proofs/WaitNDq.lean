/-
  Proofs/WaitNDq.lean — what one step of a thread does to the ghost lists `deqRes` / `deqUnl` of its own frame:
  nothing (`DqSame`), a push by the return of a dequeue call (`DqPush`), or a reset by call / return.
-/
import NsyncVerif.Proofs.WaitNCvLife2

set_option linter.unusedSimpArgs false
set_option linter.unusedVariables false

namespace WaitN

structure DqSame (s s' : State) (t : Tid) : Prop where
  res : (s'.fr t).deqRes = (s.fr t).deqRes
  unl : (s'.fr t).deqUnl = (s.fr t).deqUnl
  objs : (s'.fr t).objs = (s.fr t).objs

/-- the dequeue call on object j returns `res` -/
def DqPush (s s' : State) (t : Tid) : Prop :=
  ∃ (j : Nat) (res : Bool) (r : Rid), (s.fr t).recs[j]? = some r
    ∧ (s'.fr t).deqRes = (s.fr t).deqRes ++ [res] ∧ (s'.fr t).deqUnl = (s.fr t).deqUnl ++ [(s.rcd r).unl]
    ∧ (s'.fr t).objs = (s.fr t).objs
    ∧ ((s.pc t = .wDeqCv j (.release res)) ∨ (s.pc t = .wDeqCv j .wspin ∧ res = false ∧ (s.rcd r).waiting = false)
        ∨ ∃ st, s.pc t = .wDeq j st)

def DqReset (s' : State) (t : Tid) : Prop := (s'.fr t).deqRes = [] ∧ (s'.fr t).deqUnl = []

def DqEff (s s' : State) (t : Tid) : Prop := DqSame s s' t ∨ DqPush s s' t ∨ DqReset s' t

theorem b2n_zero {b : Bool} (h : 0 = b2n b) : b = false := by cases b <;> simp [b2n] at h ⊢

theorem DqSame.of_eq {s s' : State} {t : Tid} (h : s'.fr t = s.fr t) : DqSame s s' t := ⟨by rw [h], by rw [h], by rw [h]⟩

theorem dqsame_dflt {s s' : State} {t : Tid} {e : Ev} (h : dflt s t e = .ok s') : DqSame s s' t :=
  DqSame.of_eq (by rw [(dflt_frame h).2.1])

theorem dqsame_bindSem {s s' : State} {t owner : Tid} {j : SemId} (h : bindSem s owner j = some s') : DqSame s s' t := by
  unfold bindSem at h
  split at h
  · split at h
    · cases h; exact DqSame.of_eq rfl
    · cases h
  · split at h
    · cases h
    · cases h
      by_cases ho : t = owner
      · subst ho; exact ⟨by simp, by simp, by simp⟩
      · exact DqSame.of_eq (by simp [ho])

theorem dqsame_postSem {s s' : State} {t : Tid} {r : Rid} {j : SemId} (h : postSem s r j = some s') : DqSame s s' t := by
  unfold postSem at h
  split at h
  · exact dqsame_bindSem h
  · cases h; exact DqSame.of_eq rfl

theorem DqSame.trans {s s1 s2 : State} {t : Tid} (a : DqSame s s1 t) (b : DqSame s1 s2 t) : DqSame s s2 t :=
  ⟨b.res.trans a.res, b.unl.trans a.unl, b.objs.trans a.objs⟩

theorem dqsame_rtDone {s s' : State} {t : Tid} {u : Use} {i : Nat} {time : Deadline}
    (h : rtDone s t u i time = .ok s') : DqSame s s' t := by
  unfold rtDone at h
  split_ok h <;> (cases h; exact ⟨by simp, by simp, by simp⟩)

theorem dqsame_afterEnq {s s' : State} {t : Tid} {i : Nat} {res : Bool}
    (h : afterEnq s t i res = .ok s') : DqSame s s' t := by
  unfold afterEnq at h
  cases h
  cases res <;> exact ⟨by simp, by simp, by simp⟩

theorem dqsame_spinAcq {s s' : State} {t : Tid} {c : Nat} {st : SpinSt} {mk : SpinSt → PC} {done : PC} {e : Ev}
    (h : spinAcq s t c st mk done e = .ok s') : DqSame s s' t := DqSame.of_eq (spinAcq_pc h).1

theorem dqsame_startScan (s : State) (t : Tid) : DqSame s (startScan s t) t := by
  unfold startScan; exact ⟨by simp, by simp, by simp⟩

/-- the push itself -/
theorem dqpush_deqDone {s s' : State} {t : Tid} {j : Nat} {res : Bool} {r : Rid} (hr : (s.fr t).recs[j]? = some r)
    (h : deqDone s t j res = .ok s') :
    (s'.fr t).deqRes = (s.fr t).deqRes ++ [res] ∧ (s'.fr t).deqUnl = (s.fr t).deqUnl ++ [(s.rcd r).unl]
    ∧ (s'.fr t).objs = (s.fr t).objs := by
  unfold deqDone at h
  dsimp only at h
  rw [hr] at h
  split at h
  · cases h; simp
  · cases h
    simp only [setPc_fr]
    unfold unbindSem
    split <;> simp

macro "dq_leaf" h:ident : tactic =>
  `(tactic| first
    | exact .inl (dqsame_dflt $h)
    | exact .inl (dqsame_rtDone $h)
    | exact .inl (dqsame_afterEnq $h)
    | exact .inl (dqsame_spinAcq $h)
    | (cases $h:ident; first
        | exact .inl (DqSame.of_eq rfl)
        | (refine .inl (DqSame.of_eq ?_); simp; done)
        | (refine .inl ⟨?_, ?_, ?_⟩; all_goals (simp; done))
        | exact .inl (dqsame_startScan _ _)
        | (refine .inl (DqSame.trans (s1 := State.setSem _ _ _) ?_ (dqsame_startScan _ _)); exact DqSame.of_eq rfl)
        | (refine .inl (DqSame.trans (dqsame_postSem ‹postSem _ _ _ = some _›) (DqSame.of_eq ?_)); simp; done)
        | (refine .inl (DqSame.trans (dqsame_bindSem ‹bindSem _ _ _ = some _›) ?_); first
            | (refine DqSame.of_eq ?_; simp; done)
            | (refine ⟨?_, ?_, ?_⟩; all_goals (simp; done)))))

theorem dq_proto {s s' : State} {t : Tid} {e : Ev} (h : proto s t e = .ok s') : DqEff s s' t := by
  unfold proto at h
  split_ok h <;> dq_leaf h

theorem dq_stepOpen {s s' : State} {t : Tid} {e : Ev} (h : stepOpen s t e = .ok s') : DqEff s s' t := by
  unfold stepOpen at h
  split_ok h <;> first | exact dq_proto h | dq_leaf h

set_option hygiene false in
macro "dq_leaf2" h:ident : tactic =>
  `(tactic| first
    | dq_leaf $h
    | exact dq_stepOpen $h
    | exact dq_proto $h)

theorem dq_stepSg {s s' : State} {t : Tid} {c : Nat} {bc : Bool} {st : SgSt} {e : Ev}
    (hpc : s.pc t = .sg c bc st) (h : stepSg s t c bc st e = .ok s') : DqEff s s' t := by
  unfold stepSg at h
  split_ok h <;> dq_leaf2 h

theorem dq_stepCtrRT {s s' : State} {t : Tid} {u : Use} {i : Nat} {l : Bool} {e : Ev}
    (hpc : s.pc t = .wCtrRT u i l) (h : stepCtrRT s t u i l e = .ok s') : DqEff s s' t := by
  unfold stepCtrRT at h
  split_ok h <;> dq_leaf2 h

theorem dq_stepND {s s' : State} {t : Tid} {u : Use} {i : Nat} {st : NDst} {e : Ev}
    (hpc : s.pc t = .wND u i st) (h : stepND s t u i st e = .ok s') : DqEff s s' t := by
  unfold stepND at h
  split_ok h <;> dq_leaf2 h

theorem dq_stepEnqCv {s s' : State} {t : Tid} {i : Nat} {st : CvEnqSt} {e : Ev}
    (hpc : s.pc t = .wEnqCv i st) (h : stepEnqCv s t i st e = .ok s') : DqEff s s' t := by
  unfold stepEnqCv at h
  split_ok h <;> dq_leaf2 h

theorem dq_stepEnq {s s' : State} {t : Tid} {i : Nat} {st : EnqSt} {e : Ev}
    (hpc : s.pc t = .wEnq i st) (h : stepEnq s t i st e = .ok s') : DqEff s s' t := by
  unfold stepEnq at h
  split_ok h <;> dq_leaf2 h

theorem dq_stepAlloc {s s' : State} {t : Tid}  {e : Ev}
    (hpc : s.pc t = .wAlloc) (h : stepAlloc s t  e = .ok s') : DqEff s s' t := by
  unfold stepAlloc at h
  split_ok h <;> dq_leaf2 h

theorem dq_stepInit {s s' : State} {t : Tid} {i : Nat} {e : Ev}
    (hpc : s.pc t = .wInit i) (h : stepInit s t i e = .ok s') : DqEff s s' t := by
  unfold stepInit at h
  split_ok h <;> dq_leaf2 h

theorem dq_stepUnlockMu {s s' : State} {t : Tid}  {e : Ev}
    (hpc : s.pc t = .wUnlock) (h : stepUnlockMu s t  e = .ok s') : DqEff s s' t := by
  unfold stepUnlockMu at h
  split_ok h <;> dq_leaf2 h

theorem dq_stepCvRT {s s' : State} {t : Tid} {j : Nat} {e : Ev}
    (hpc : s.pc t = .wCvRT j) (h : stepCvRT s t j e = .ok s') : DqEff s s' t := by
  unfold stepCvRT at h
  split_ok h <;> dq_leaf2 h

theorem dq_stepPdEnter {s s' : State} {t : Tid}  {e : Ev}
    (hpc : s.pc t = .wPdEnter) (h : stepPdEnter s t  e = .ok s') : DqEff s s' t := by
  unfold stepPdEnter at h
  split_ok h <;> dq_leaf2 h

theorem dq_stepPdWait {s s' : State} {t : Tid} {j : SemId} {e : Ev}
    (hpc : s.pc t = .wPdWait j) (h : stepPdWait s t j e = .ok s') : DqEff s s' t := by
  unfold stepPdWait at h
  split_ok h <;> dq_leaf2 h

theorem dq_stepFree {s s' : State} {t : Tid}  {e : Ev}
    (hpc : s.pc t = .wFree) (h : stepFree s t  e = .ok s') : DqEff s s' t := by
  unfold stepFree at h
  split_ok h <;> dq_leaf2 h

theorem dq_stepRelock {s s' : State} {t : Tid}  {e : Ev}
    (hpc : s.pc t = .wRelock) (h : stepRelock s t  e = .ok s') : DqEff s s' t := by
  unfold stepRelock at h
  split_ok h <;> dq_leaf2 h

theorem dq_stepDeqCv {s s' : State} {t : Tid} {j : Nat} {st : CvDeqSt} {e : Ev}
    (hpc : s.pc t = .wDeqCv j st) (h : stepDeqCv s t j st e = .ok s') : DqEff s s' t := by
  unfold stepDeqCv at h
  split_ok h
  all_goals try dq_leaf2 h
  · have hri := ‹(s.fr t).recs[j]? = some _›
    have hp := dqpush_deqDone (s := (s.setObj _ _).setRec _ _) (by simpa using hri) h
    simp at hp
    exact .inr (.inl ⟨j, _, _, hri, hp.1, hp.2.1, hp.2.2, .inl hpc⟩)
  · have hri := ‹(s.fr t).recs[j]? = some _›
    have hg := ‹_ = _ ∧ _ = b2n _›
    have h0 := ‹_ = 0›
    have hw := hg.2
    rw [h0] at hw
    have hp := dqpush_deqDone (s := s.setRec _ _) (by simpa using hri) h
    simp at hp
    exact .inr (.inl ⟨j, _, _, hri, hp.1, hp.2.1, hp.2.2, .inr (.inl ⟨hpc, rfl, b2n_zero hw⟩)⟩)

theorem dq_stepDeq {s s' : State} {t : Tid} {j : Nat} {st : DeqSt} {e : Ev}
    (hpc : s.pc t = .wDeq j st) (h : stepDeq s t j st e = .ok s') : DqEff s s' t := by
  unfold stepDeq at h
  split_ok h
  all_goals try dq_leaf2 h
  · have hri := ‹(s.fr t).recs[j]? = some _›
    have hp := dqpush_deqDone hri h
    exact .inr (.inl ⟨j, _, _, hri, hp.1, hp.2.1, hp.2.2, .inr (.inr ⟨_, hpc⟩)⟩)

theorem dq_stepRet {s s' : State} {t : Tid} {r : Nat} {e : Ev}
    (hpc : s.pc t = .wRet r) (h : stepRet s t r e = .ok s') : DqEff s s' t := by
  unfold stepRet at h
  split_ok h
  all_goals try dq_leaf2 h
  all_goals (cases h; exact .inr (.inr ⟨by simp [Frame.empty], by simp [Frame.empty]⟩))

theorem dq_stepIdle {s s' : State} {t : Tid} {e : Ev}
    (hpc : s.pc t = .idle) (h : stepIdle s t e = .ok s') : DqEff s s' t := by
  unfold stepIdle at h
  split_ok h
  all_goals try dq_leaf2 h
  all_goals (cases h; exact .inr (.inr ⟨by simp [Frame.new, Frame.empty], by simp [Frame.new, Frame.empty]⟩))

theorem dq_stepThr {s s' : State} {t : Tid} {e : Ev} (h : stepThr s t e = .ok s') : DqEff s s' t := by
  unfold stepThr at h
  split at h <;> rename_i hpc
  · exact dq_stepIdle hpc h
  · simp at h
  · exact dq_stepSg hpc h
  · exact dq_stepCtrRT hpc h
  · exact dq_stepND hpc h
  · exact dq_stepEnqCv hpc h
  · exact dq_stepEnq hpc h
  · exact dq_stepDeqCv hpc h
  · exact dq_stepDeq hpc h
  · exact dq_stepAlloc hpc h
  · exact dq_stepInit hpc h
  · exact dq_stepUnlockMu hpc h
  · exact dq_stepCvRT hpc h
  · exact dq_stepPdEnter hpc h
  · exact dq_stepPdWait hpc h
  · exact dq_stepFree hpc h
  · exact dq_stepRelock hpc h
  · exact dq_stepRet hpc h

end WaitN
