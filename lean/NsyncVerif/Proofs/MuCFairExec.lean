import NsyncVerif.Proofs.MuCFairDefs
import NsyncVerif.Proofs.MuCOther2
/-
  MuC, fair termination (C06): infinite executions.  Port of Proofs/MuQFairExec.lean (model MuQ).

  Generic facts about `Exec` (every state is reachable, a thread's program point and `held` change only
  when it moves, first move after a given time), the use of weak fairness (`fair_move`), the
  well-founded chain argument (`chain`: a rank that no step of another thread increases and every
  own step decreases, in a class of states in which the thread eventually moves, cannot exist),
  and "eventually for ever" combinators (`mono_stabilizes`, `eventually_list`).
  Not ported: `Moves.own`, `fair_move_pc` (they rest on MuQ-specific lemmas).
-/
namespace NsyncVerif.MuC

variable {cfg : Cfg} {s0 : State}

theorem Exec.next_none (x : Exec cfg s0) {i : Nat} (h : x.σ i = none) : x.ρ (i + 1) = x.ρ i := by
  have := x.next i; rw [h] at this; exact this

theorem Exec.next_some (x : Exec cfg s0) {i : Nat} {e : Event} (h : x.σ i = some e) :
    step cfg (x.ρ i) e = .ok (x.ρ (i + 1)) := by
  have := x.next i; rw [h] at this; exact this

theorem Exec.reach (x : Exec cfg s0) (hr : Reachable cfg s0) : ∀ i, Reachable cfg (x.ρ i) := by
  intro i
  induction i with
  | zero => rw [x.start]; exact hr
  | succ i ih =>
    cases h : x.σ i with
    | none => rw [x.next_none h]; exact ih
    | some e => exact reachable_step ih (x.next_some h)

/-- Thread `t` takes a step at time `j`. -/
def Moves (x : Exec cfg s0) (t : Tid) (j : Nat) : Prop := ∃ e, x.σ j = some e ∧ e.tid = some t

theorem not_moves_frame (x : Exec cfg s0) {t : Tid} {j : Nat} (h : ¬ Moves x t j) :
    (x.ρ (j + 1)).pc t = (x.ρ j).pc t ∧ (x.ρ (j + 1)).held t = (x.ρ j).held t := by
  cases hs : x.σ j with
  | none => rw [x.next_none hs]; exact ⟨rfl, rfl⟩
  | some e =>
    have hne : e.tid ≠ some t := fun ht => h ⟨e, hs, ht⟩
    exact step_other (x.next_some hs) t hne

theorem frame_until (x : Exec cfg s0) {t : Tid} {i : Nat} : ∀ d,
    (∀ j, i ≤ j → j < i + d → ¬ Moves x t j) →
    (x.ρ (i + d)).pc t = (x.ρ i).pc t ∧ (x.ρ (i + d)).held t = (x.ρ i).held t := by
  intro d
  induction d with
  | zero => intro _; exact ⟨rfl, rfl⟩
  | succ d ih =>
    intro h
    obtain ⟨a, b⟩ := ih (fun j h1 h2 => h j h1 (by omega))
    obtain ⟨a', b'⟩ := not_moves_frame x (h (i + d) (by omega) (by omega))
    exact ⟨by rw [← a, ← a']; rfl, by rw [← b, ← b']; rfl⟩

theorem frame_between (x : Exec cfg s0) {t : Tid} {i j : Nat} (hij : i ≤ j)
    (h : ∀ j', i ≤ j' → j' < j → ¬ Moves x t j') :
    (x.ρ j).pc t = (x.ρ i).pc t ∧ (x.ρ j).held t = (x.ρ i).held t := by
  obtain ⟨d, rfl⟩ : ∃ d, j = i + d := ⟨j - i, by omega⟩
  exact frame_until x d h

/-- The first move of `t` at or after time `i`. -/
theorem first_move (x : Exec cfg s0) {t : Tid} : ∀ d i, Moves x t (i + d) →
    ∃ j, i ≤ j ∧ Moves x t j ∧ ∀ j', i ≤ j' → j' < j → ¬ Moves x t j' := by
  intro d
  induction d with
  | zero => intro i h; exact ⟨i, Nat.le_refl _, h, fun j' h1 h2 => by omega⟩
  | succ d ih =>
    intro i h
    by_cases hi : Moves x t i
    · exact ⟨i, Nat.le_refl _, hi, fun j' h1 h2 => by omega⟩
    · obtain ⟨j, h1, h2, h3⟩ := ih (i + 1) (by rw [show i + 1 + d = i + (d + 1) by omega]; exact h)
      refine ⟨j, by omega, h2, fun j' h4 h5 => ?_⟩
      by_cases hj : j' = i
      · subst hj; exact hi
      · exact h3 j' (by omega) h5

theorem first_move' (x : Exec cfg s0) {t : Tid} {i : Nat} (h : ∃ j, i ≤ j ∧ Moves x t j) :
    ∃ j, i ≤ j ∧ Moves x t j ∧ ∀ j', i ≤ j' → j' < j → ¬ Moves x t j' := by
  obtain ⟨j, hij, hm⟩ := h
  obtain ⟨d, rfl⟩ : ∃ d, j = i + d := ⟨j - i, by omega⟩
  exact first_move x d i hm

/-- Weak fairness: a thread that stays inside a call and awake as long as it does not move, moves. -/
theorem fair_move (x : Exec cfg s0) (hf : WeakFair x) {t : Tid} {i : Nat}
    (h : ∀ j, i ≤ j → (∀ j', i ≤ j' → j' < j → ¬ Moves x t j') →
      (x.ρ j).pc t ≠ .idle ∧ ¬ AsleepOnSem (x.ρ j) t) :
    ∃ j, i ≤ j ∧ Moves x t j := by
  apply Classical.byContradiction
  intro hn
  have hnm : ∀ j, i ≤ j → ¬ Moves x t j := fun j hj hm => hn ⟨j, hj, hm⟩
  obtain ⟨j, e, hj, he, ht, _⟩ := hf t i (fun j hj => h j hj (fun j' h1 _ => hnm j' h1))
  exact hnm j hj ⟨e, he, ht⟩

/-! ### the chain argument -/

theorem stay_until (x : Exec cfg s0) {t : Tid} {n : Nat} {R : Nat → Prop} {rk : Nat → Nat}
    (hstay : ∀ j, n ≤ j → R j → ¬ Moves x t j → R (j + 1) ∧ rk (j + 1) ≤ rk j) {i : Nat} (hi : n ≤ i) :
    ∀ d, (∀ j, i ≤ j → j < i + d → ¬ Moves x t j) → R i → R (i + d) ∧ rk (i + d) ≤ rk i := by
  intro d
  induction d with
  | zero => intro _ h; exact ⟨h, Nat.le_refl _⟩
  | succ d ih =>
    intro h hR
    obtain ⟨a, b⟩ := ih (fun j h1 h2 => h j h1 (by omega)) hR
    obtain ⟨a', b'⟩ := hstay (i + d) (by omega) a (h (i + d) (by omega) (by omega))
    exact ⟨a', by rw [show i + (d + 1) = i + d + 1 by omega]; omega⟩

/-- A class of states `R` (indexed by time) with a rank that steps of the others do not increase
    and every step of `t` decreases, and in which `t` always moves again, is empty. -/
theorem chain (x : Exec cfg s0) (t : Tid) (n : Nat) (R : Nat → Prop) (rk : Nat → Nat)
    (hstay : ∀ j, n ≤ j → R j → ¬ Moves x t j → R (j + 1) ∧ rk (j + 1) ≤ rk j)
    (hmove : ∀ j, n ≤ j → R j → Moves x t j → R (j + 1) ∧ rk (j + 1) < rk j)
    (hlive : ∀ j, n ≤ j → R j → ∃ j', j ≤ j' ∧ Moves x t j') :
    ∀ j, n ≤ j → ¬ R j := by
  have key : ∀ m j, rk j ≤ m → n ≤ j → R j → False := by
    intro m
    induction m with
    | zero =>
      intro j hm hj hR
      obtain ⟨j', h1, h2, h3⟩ := first_move' x (hlive j hj hR)
      obtain ⟨d, rfl⟩ : ∃ d, j' = j + d := ⟨j' - j, by omega⟩
      obtain ⟨a, b⟩ := stay_until x hstay hj d h3 hR
      obtain ⟨_, c⟩ := hmove (j + d) (by omega) a h2
      omega
    | succ m ih =>
      intro j hm hj hR
      obtain ⟨j', h1, h2, h3⟩ := first_move' x (hlive j hj hR)
      obtain ⟨d, rfl⟩ : ∃ d, j' = j + d := ⟨j' - j, by omega⟩
      obtain ⟨a, b⟩ := stay_until x hstay hj d h3 hR
      obtain ⟨a', c⟩ := hmove (j + d) (by omega) a h2
      exact ih (j + d + 1) (by omega) (by omega) a'
  intro j hj hR
  exact key (rk j) j (Nat.le_refl _) hj hR

/-! ### eventually for ever -/

theorem mono_le {f : Nat → Nat} {n0 : Nat} (h : ∀ j, n0 ≤ j → f (j + 1) ≤ f j) :
    ∀ d, f (n0 + d) ≤ f n0 := by
  intro d
  induction d with
  | zero => exact Nat.le_refl _
  | succ d ih => have := h (n0 + d) (by omega); rw [show n0 + (d + 1) = n0 + d + 1 by omega]; omega

/-- A non-increasing sequence of naturals is eventually constant. -/
theorem mono_stabilizes (f : Nat → Nat) : ∀ (m n0 : Nat), f n0 ≤ m → (∀ j, n0 ≤ j → f (j + 1) ≤ f j) →
    ∃ n, n0 ≤ n ∧ ∀ j, n ≤ j → f j = f n := by
  intro m
  induction m with
  | zero =>
    intro n0 hm h
    refine ⟨n0, Nat.le_refl _, fun j hj => ?_⟩
    obtain ⟨d, rfl⟩ : ∃ d, j = n0 + d := ⟨j - n0, by omega⟩
    have := mono_le h d; omega
  | succ m ih =>
    intro n0 hm h
    by_cases hex : ∃ j, n0 ≤ j ∧ f j < f n0
    · obtain ⟨j, hj, hlt⟩ := hex
      obtain ⟨n, hn, hc⟩ := ih j (by omega) (fun j' hj' => h j' (by omega))
      exact ⟨n, by omega, hc⟩
    · refine ⟨n0, Nat.le_refl _, fun j hj => ?_⟩
      obtain ⟨d, rfl⟩ : ∃ d, j = n0 + d := ⟨j - n0, by omega⟩
      have h1 := mono_le h d
      have h2 : ¬ f (n0 + d) < f n0 := fun hlt => hex ⟨n0 + d, by omega, hlt⟩
      omega

/-- Finitely many "eventually for ever" hold together eventually for ever. -/
theorem eventually_list {P : Tid → Nat → Prop} (n0 : Nat) : ∀ (L : List Tid),
    (∀ t ∈ L, ∃ n, n0 ≤ n ∧ ∀ j, n ≤ j → P t j) →
    ∃ n, n0 ≤ n ∧ ∀ t ∈ L, ∀ j, n ≤ j → P t j := by
  intro L
  induction L with
  | nil => intro _; exact ⟨n0, Nat.le_refl _, fun t ht => by cases ht⟩
  | cons u L ih =>
    intro h
    obtain ⟨n1, h1, hP1⟩ := h u (by simp)
    obtain ⟨n2, h2, hP2⟩ := ih (fun t ht => h t (by simp [ht]))
    refine ⟨max n1 n2, by omega, fun t ht j hj => ?_⟩
    rcases List.mem_cons.1 ht with rfl | ht'
    · exact hP1 j (by omega)
    · exact hP2 t ht' j (by omega)

end NsyncVerif.MuC
