/-
  Layer `CvFix` × vector clocks: the cv-signal edge along an accepted event list (trace form).
-/
import NsyncVerif.Proofs.CvFixVCTrace

namespace NsyncVerif.CvFix
open NsyncVerif

theorem prun_single {cfg : Config} {fo : Nat → VC.Ord} {p p' : PState} {e : Event} :
    prun cfg fo p [e] = .ok p' ↔ pstep cfg fo p e = .ok p' := by
  simp only [prun]
  cases pstep cfg fo p e with
  | ok p1 => simp
  | error m => simp

theorem preachable_prun {cfg : Config} {fo : Nat → VC.Ord} {p p' : PState} {evs : List Event}
    (h : PReachable cfg fo p) (h' : prun cfg fo p evs = .ok p') : PReachable cfg fo p' := by
  obtain ⟨e0, h0⟩ := h
  exact ⟨e0 ++ evs, prun_append.mpr ⟨p, h0, h'⟩⟩

/-- A thread's clock only grows along an event list. -/
theorem prun_vc_mono {cfg : Config} {fo : Nat → VC.Ord} {evs : List Event} {p p' : PState}
    (h : prun cfg fo p evs = .ok p') (u : Tid) : VC.Clock.le (p.c.vc u) (p'.c.vc u) := by
  induction evs generalizing p with
  | nil => simp only [prun, Except.ok.injEq] at h; subst h; exact VC.Clock.le_refl _
  | cons e es ih =>
    simp only [prun] at h
    split at h
    · rename_i p1 hp
      obtain ⟨s1, _, rfl⟩ := pstep_ok hp
      exact VC.Clock.le_trans (cstep_mono (fo p.n) p.c e u) (ih h)
    · cases h

/-- The state right after the waker's store `ATM_STORE_REL (&p_nw->waiting, 0)` [cv.c/5]. -/
theorem wake_state {cfg : Config} {fo : Nat → VC.Ord} {p p' : PState} {u : Tid} {r : Rid} {n o : Nat}
    (hr : PReachable cfg fo p) (hs : pstep cfg fo p (.recSt u .wake r n o) = .ok p') :
    (p.s.recs r).stat = .listed u ∧ WokenFresh p'.s r ∧
    p'.wk r = some ⟨u, p.c.vc u, p.cc u⟩ := by
  obtain ⟨s1, hs1, rfl⟩ := pstep_ok hs
  obtain ⟨h1, h2⟩ := wokenFresh_wake (preachable_reachable hr) hs1
  refine ⟨h1, h2, ?_⟩
  simp only [pnext, wkUpd]; exact VC.upd_same _ _ _

/-- TRACE FORM, nsync_cv_wait*.  In an accepted event list take a store `waiting := 0` by a waker
    `u` into record `r` [cv.c/5], the first load `ATM_LOAD_ACQ (&w->nw.waiting)` [cv.c/10] on `r`
    after it that observes 0 (thread `t` leaving its wait loop), and the first `ret` of `t`'s wait
    after that.  Then the wait returns 0 and `u`'s clock just before its store is covered by
    `t`'s clock at the return. -/
theorem signal_trace {cfg : Config} {fo : Nat → VC.Ord} {pre mid rest post : List Event}
    {u t : Tid} {r : Rid} {n o : Nat} {res : Outcome} {s : State}
    (h : run cfg init (pre ++ [.recSt u .wake r n o] ++ mid ++ [.recLd t .wHead r 0] ++ rest ++
          [.retWait t res] ++ post) = .ok s)
    (hmid : ∀ t', Event.recLd t' .wHead r 0 ∉ mid)
    (hrest : ∀ res', Event.retWait t res' ∉ rest) :
    res = .ok ∧
    VC.Clock.le ((clocks fo pre).vc u)
      ((clocks fo (pre ++ [.recSt u .wake r n o] ++ mid ++ [.recLd t .wHead r 0] ++ rest ++
          [.retWait t res])).vc t) := by
  obtain ⟨pF, hF, -⟩ := prun_of_run (fo := fo) (p := pinit) h
  obtain ⟨p5, h5, -⟩ := prun_append.mp hF
  obtain ⟨p4, h4, hret⟩ := prun_append.mp h5
  obtain ⟨p3, h3, hrest'⟩ := prun_append.mp h4
  obtain ⟨p2, h2, hld⟩ := prun_append.mp h3
  obtain ⟨p1, h1, hmid'⟩ := prun_append.mp h2
  obtain ⟨p0, h0, hwk⟩ := prun_append.mp h1
  rw [prun_single] at hret hld hwk
  have r0 : PReachable cfg fo p0 := ⟨_, h0⟩
  have r1 : PReachable cfg fo p1 := ⟨_, h1⟩
  have r2 : PReachable cfg fo p2 := ⟨_, h2⟩
  have r3 : PReachable cfg fo p3 := ⟨_, h3⟩
  have r4 : PReachable cfg fo p4 := ⟨_, h4⟩
  -- the store
  obtain ⟨_, hfresh, hk1⟩ := wake_state r0 hwk
  -- the record is a pooled waiter
  obtain ⟨s3, hs3, rfl⟩ := pstep_ok hld
  obtain ⟨hl2, hr2, _, hl3, hu3, _, _⟩ := wHead_exit_accepted hs3
  have hi2 := inv_reachable (preachable_reachable r2)
  have hm : r.isMucv = true := by
    rw [hr2]; exact ((hi2.a.thr t).live (by simp [waitLive, hl2])).2.1
  -- from the store to the exit
  obtain ⟨hw2, hk2⟩ := woken_stable_run (preachable_reachable r1) hm hfresh.1 hk1 hmid hmid'
  obtain ⟨w, hw, hunl, _, _⟩ := (vinv_preachable r2).woken r hw2
  rw [hk2] at hw; cases hw
  -- the exit
  have hx3 : (pnext fo p2 (.recLd t .wHead r 0) s3).xw t = some ⟨u, p0.c.vc u, p0.cc u⟩ := by
    simp only [pnext, xwUpd, hw2, if_true]
    rw [VC.upd_same]; exact hk2
  have hal3 : ((pnext fo p2 (.recLd t .wHead r 0) s3).s.thr t).loc.afterLoop = true := by
    simp only [pnext]; rw [hl3]; rfl
  -- from the exit to the return
  obtain ⟨_, hx4, hu4, _⟩ := exit_stable_run (preachable_reachable r3) hal3 hrest hrest'
  obtain ⟨hle, _⟩ := (vinv_preachable r4).seen t _ (hx4.trans hx3)
  -- the return
  obtain ⟨s5, hs5, rfl⟩ := pstep_ok hret
  refine ⟨?_, ?_⟩
  · obtain ⟨hl4, hres⟩ := retWait_accepted hs5
    have hb := (inv_reachable (preachable_reachable r4)).b.thr t
    cases hr : res with
    | ok => rfl
    | timedOut =>
      have := hb.outE (by rcases hl4 with hl | hl <;> simp [hl, Loc.afterLoop]) (by rw [← hres, hr]; simp)
      rw [hu4] at this; simp only [pnext] at this
      rw [hu3, hunl] at this; simp at this
    | cancelled =>
      have := hb.outE (by rcases hl4 with hl | hl <;> simp [hl, Loc.afterLoop]) (by rw [← hres, hr]; simp)
      rw [hu4] at this; simp only [pnext] at this
      rw [hu3, hunl] at this; simp at this
  · rw [← (preachable_clocks h0).1, ← (preachable_clocks h5).1]
    exact hle

/-- TRACE FORM, nsync_wait_n.  In an accepted event list take a store `waiting := 0` by a waker
    `u` into record `r` [cv.c/5] and the first load of `r.waiting` by cv_dequeue after it that
    observes 0 (`ATM_LOAD_ACQ` at cv.c/32, or in the wait-for-waker loop at cv.c/35; `t` is the
    thread inside nsync_wait_n).  Then `u`'s clock just before its store is covered by `t`'s clock
    after the load, and `was_queued` of that cv_dequeue is 0: the object is reported ready. -/
theorem signal_trace_waitn {cfg : Config} {fo : Nat → VC.Ord} {pre mid post : List Event}
    {u t : Tid} {r : Rid} {n o : Nat} {site : RSite} {s : State}
    (h : run cfg init (pre ++ [.recSt u .wake r n o] ++ mid ++ [.recLd t site r 0] ++ post) = .ok s)
    (hsite : site = .deqLd ∨ site = .deqSpin)
    (hmid : ∀ t', Event.recLd t' .deqLd r 0 ∉ mid ∧ Event.recLd t' .deqSpin r 0 ∉ mid ∧
      Event.recLd t' .wHead r 0 ∉ mid) :
    VC.Clock.le ((clocks fo pre).vc u)
      ((clocks fo (pre ++ [.recSt u .wake r n o] ++ mid ++ [.recLd t site r 0])).vc t) ∧
    ∃ s3, run cfg init (pre ++ [.recSt u .wake r n o] ++ mid ++ [.recLd t site r 0]) = .ok s3 ∧
      (s3.thr t).wasQ = false := by
  obtain ⟨pF, hF, -⟩ := prun_of_run (fo := fo) (p := pinit) h
  obtain ⟨p3, h3, -⟩ := prun_append.mp hF
  obtain ⟨p2, h2, hld⟩ := prun_append.mp h3
  obtain ⟨p1, h1, hmid'⟩ := prun_append.mp h2
  obtain ⟨p0, h0, hwk⟩ := prun_append.mp h1
  rw [prun_single] at hld hwk
  have r0 : PReachable cfg fo p0 := ⟨_, h0⟩
  have r1 : PReachable cfg fo p1 := ⟨_, h1⟩
  have r2 : PReachable cfg fo p2 := ⟨_, h2⟩
  have r3 : PReachable cfg fo p3 := ⟨_, h3⟩
  obtain ⟨_, hfresh, hk1⟩ := wake_state r0 hwk
  obtain ⟨hq2, hk2⟩ := wokenFresh_run (preachable_reachable r1) hfresh hk1 hmid hmid'
  obtain ⟨w, hw, _, hrel, _⟩ := (vinv_preachable r2).woken r hq2.1
  rw [hk2] at hw; cases hw
  obtain ⟨s3, hs3, rfl⟩ := pstep_ok hld
  refine ⟨?_, s3, (run_of_prun h3).1, ?_⟩
  · rw [← (preachable_clocks h0).1, ← (preachable_clocks h3).1]
    rcases hsite with rfl | rfl
    · exact VC.Clock.le_trans hrel (cstep_acq_ld (fo p2.n) p2.c t .deqLd r 0 rfl)
    · exact VC.Clock.le_trans hrel (cstep_acq_ld (fo p2.n) p2.c t .deqSpin r 0 rfl)
  · have hf3 := invF_reachable (preachable_reachable r3)
    rcases hsite with rfl | rfl
    · -- cv.c/32 observing 0: `was_queued` stays 0
      have htr := step_tr hs3
      cases htr with
      | same e h => simp [touches] at h; split at h <;> simp at h
      | semOther e sem' h => simp [touches] at h; split at h <;> simp at h
      | loc h => cases h with
        | deqLd0 r' hl hr ho => simp
        | rcLd site r' obs hl hs hr ho => rcases hs with ⟨hs, _⟩ | ⟨hs, _⟩ <;> cases hs
        | deqLdGone r' obs hl hr hw hq =>
          exfalso
          have := (inv_reachable (preachable_reachable r2)).b.wokenW r hq2.1
          rw [hw] at this; cases this
      | deqLdQueued t' r' obs hl hr hw hq =>
        exfalso
        have := (inv_reachable (preachable_reachable r2)).b.wokenW r hq2.1
        rw [hw] at this; cases this
    · -- cv.c/35 observing 0: `was_queued` has been 0 since cv.c/32
      obtain ⟨hl, _, _, rfl⟩ := deqSpin_exit_accepted hs3
      have := ((invF_reachable (preachable_reachable r2)).thr t).wqW (.inr hl)
      simpa using this.1

/-! ### program order -/

theorem cstepx_mono (so : Site → VC.Ord) (o : VC.Ord) (c : VC.St VLoc) (e : Event) (u : Tid) :
    VC.Clock.le (c.vc u) ((cstepx so o c e).vc u) := by
  unfold cstepx
  split
  · exact VC.vc_mono c _ u
  · exact VC.Clock.le_refl _

theorem crunx_mono (so : Site → VC.Ord) (fo : Nat → VC.Ord) (n : Nat) (c : VC.St VLoc)
    (evs : List Event) (u : Tid) : VC.Clock.le (c.vc u) ((crunx so fo n c evs).vc u) := by
  induction evs generalizing n c with
  | nil => exact VC.Clock.le_refl _
  | cons e es ih => exact VC.Clock.le_trans (cstepx_mono so (fo n) c e u) (ih (n + 1) _)

/-- A thread's clock after a longer event list covers its clock after any prefix. -/
theorem clocks_prefix_le (fo : Nat → VC.Ord) (a b : List Event) (u : Tid) :
    VC.Clock.le ((clocks fo a).vc u) ((clocks fo (a ++ b)).vc u) := by
  unfold clocks
  rw [crunx_append]
  exact crunx_mono _ _ _ _ _ _

end NsyncVerif.CvFix
