/-
  Layer `Note`, fair termination: a `nsync_note_wait` that has left the wait loop of `nsync_wait_n`
  — it is inside the implicit `notify` of an expired note, or past the decision to dequeue — never
  comes back to it (`PC.noLoop` is kept by own steps until the call returns).
-/
import NsyncVerif.Proofs.NoteFairKeep

set_option linter.unusedSimpArgs false

namespace Note

def DK.isWaitK : DK → Bool
  | .ready1 _ | .ready2 _ _ | .dequeue _ _ => true
  | _ => false

def NK.isWaitK : NK → Bool
  | .ofDeadline k => k.isWaitK
  | .ofApi => false

/-- The call is a `nsync_note_wait` that will not execute the `ready_time` load of the wait loop
    again. -/
def PC.noLoop : PC → Bool
  | .nfy _ _ _ k => k.isWaitK
  | .chd _ _ top => top.k.isWaitK
  | .dl _ _ _ (.dequeue _ _) => true
  | .wt p _ _ _ =>
    (match p with
     | .qLockCall | .qLockRet | .qLd | .qSt | .qUnlockCall _ | .qUnlockRet _ => true
     | _ => false)
  | .wt0 (.nret _) _ _ | .wt0 (.ret _) _ _ => true
  | _ => false

theorem noLoop_afterDeadlinePc_zero (n : NoteId) (k : DK) (h : k.isWaitK = true) :
    (afterDeadlinePc n (some 0) k).noLoop = true := by
  cases k <;> simp [DK.isWaitK] at h
  · simp [afterDeadlinePc, Dl.pos, PC.noLoop]
  · simp [afterDeadlinePc, min_zero_not_pos, PC.noLoop]
  · simp [afterDeadlinePc, PC.noLoop]

theorem noLoop_afterDeadlinePc_deq (n : NoteId) (nt : Dl) (r : Rid) (wdl : Dl) :
    (afterDeadlinePc n nt (.dequeue r wdl)).noLoop = true := by
  simp [afterDeadlinePc, PC.noLoop]

theorem noLoop_afterNotifyPc (n : NoteId) (k : NK) (h : k.isWaitK = true) :
    (afterNotifyPc n k).noLoop = true := by
  cases k with
  | ofApi => simp [NK.isWaitK] at h
  | ofDeadline k => exact noLoop_afterDeadlinePc_zero n k h

theorem noLoop_childReturnPc (f : Frame) (rest : List Frame) (top : Top) :
    (childReturnPc f rest top).noLoop = top.k.isWaitK := by
  unfold childReturnPc
  cases rest with
  | cons g r => rfl
  | nil => cases top.par <;> rfl

theorem noLoop_childLoopStartPc (cs : List NoteId) (f : Frame) (rest : List Frame) (top : Top) :
    (childLoopStartPc cs f rest top).noLoop = top.k.isWaitK := by
  cases cs <;> rfl

theorem noLoop_childWakeNextPc (s : State) (f : Frame) (rest : List Frame) (top : Top) :
    (childWakeNextPc s f rest top).noLoop = top.k.isWaitK := by
  unfold childWakeNextPc
  split
  · rfl
  · exact noLoop_childLoopStartPc _ _ _ _

theorem noLoop_freeLoopStartPc (cs : List NoteId) (n : NoteId) (par : Option NoteId) :
    (freeLoopStartPc cs n par).noLoop = false := by
  cases cs <;> rfl

theorem noLoop_dl {p : DPos} {n : NoteId} {nt : Dl} {dk : DK} (h : (PC.dl p n nt dk).noLoop = true) :
    ∃ r w, dk = .dequeue r w := by
  cases dk <;> simp [PC.noLoop] at h
  exact ⟨_, _, rfl⟩

/-- What an own step keeps. -/
def KeepNL (s s' : State) (t : Tid) : Prop :=
  (s.pc t).noLoop = true → s'.pc t = .idle ∨ (s'.pc t).noLoop = true

macro "knl_simp" : tactic => `(tactic| (
  simp only [KeepNL, setPc_pc, upd_same, afterDeadline_pc, afterNotify_pc, childReturn_pc,
    childWakeNext_pc, childScanStart_pc, freeLoopStart_pc, enterChild_pc, leave_pc, addUser_pc,
    markCalled_pc, markFreeing_pc, setAfter_pc, pushObs_pc, publish_pc, delUser_pc, modRec_pc,
    modNote_pc, markBorn_pc, setNow_pc, allocNote_pc, acquire_pc, release_pc, incDisc_pc,
    decDisc_pc, setWaiters_pc, setAdopted_pc, setExpiry_pc, setNotified_pc, markFreed_pc,
    eraseChild_pc, clearParent_pc, link_pc, unlink_pc, newExpiry_pc] at *))

macro "knl_close" : tactic => `(tactic| (
  intro hnl
  rw [‹Note.State.pc _ _ = _›] at hnl
  try simp only [noLoop_childReturnPc, noLoop_childLoopStartPc, noLoop_childWakeNextPc,
    noLoop_freeLoopStartPc, noLoop_afterDeadlinePc_deq]
  first
    | (simp [PC.noLoop, NK.isWaitK, DK.isWaitK] at hnl; done)
    | (right; simp_all [PC.noLoop, NK.isWaitK, DK.isWaitK]; done)
    | (left; simp_all; done)))

theorem knl_lockRet {s s' : State} {t : Tid}  (hs : step s (.lockRet t) = .ok s') :
    KeepNL s s' t := by
  step_cases hs
  all_goals knl_simp
  all_goals (try (knl_close; done))
  all_goals (try (
    intro hnl
    rw [‹Note.State.pc _ _ = _›] at hnl
    first
      | (obtain ⟨r, w, rfl⟩ := noLoop_dl hnl
         right
         first | rfl | exact noLoop_afterDeadlinePc_deq _ _ _ _)
      | (right; exact noLoop_afterNotifyPc _ _ hnl)))

theorem knl_lockCall {s s' : State} {t : Tid} {k : NoteId} (hs : step s (.lockCall t k) = .ok s') :
    KeepNL s s' t := by
  step_cases hs
  all_goals knl_simp
  all_goals (try (knl_close; done))
  all_goals (try (
    intro hnl
    rw [‹Note.State.pc _ _ = _›] at hnl
    first
      | (obtain ⟨r, w, rfl⟩ := noLoop_dl hnl
         right
         first | rfl | exact noLoop_afterDeadlinePc_deq _ _ _ _)
      | (right; exact noLoop_afterNotifyPc _ _ hnl)))

theorem knl_unlockCall {s s' : State} {t : Tid} {k : NoteId} (hs : step s (.unlockCall t k) = .ok s') :
    KeepNL s s' t := by
  step_cases hs
  all_goals knl_simp
  all_goals (try (knl_close; done))
  all_goals (try (
    intro hnl
    rw [‹Note.State.pc _ _ = _›] at hnl
    first
      | (obtain ⟨r, w, rfl⟩ := noLoop_dl hnl
         right
         first | rfl | exact noLoop_afterDeadlinePc_deq _ _ _ _)
      | (right; exact noLoop_afterNotifyPc _ _ hnl)))

theorem knl_unlockRet {s s' : State} {t : Tid}  (hs : step s (.unlockRet t) = .ok s') :
    KeepNL s s' t := by
  step_cases hs
  all_goals knl_simp
  all_goals (try (knl_close; done))
  all_goals (try (
    intro hnl
    rw [‹Note.State.pc _ _ = _›] at hnl
    first
      | (obtain ⟨r, w, rfl⟩ := noLoop_dl hnl
         right
         first | rfl | exact noLoop_afterDeadlinePc_deq _ _ _ _)
      | (right; exact noLoop_afterNotifyPc _ _ hnl)))

theorem knl_tryCall {s s' : State} {t : Tid} {k : NoteId} (hs : step s (.tryCall t k) = .ok s') :
    KeepNL s s' t := by
  step_cases hs
  all_goals knl_simp
  all_goals (try (knl_close; done))
  all_goals (try (
    intro hnl
    rw [‹Note.State.pc _ _ = _›] at hnl
    first
      | (obtain ⟨r, w, rfl⟩ := noLoop_dl hnl
         right
         first | rfl | exact noLoop_afterDeadlinePc_deq _ _ _ _)
      | (right; exact noLoop_afterNotifyPc _ _ hnl)))

theorem knl_tryRet {s s' : State} {t : Tid} {ok : Bool} (hs : step s (.tryRet t ok) = .ok s') :
    KeepNL s s' t := by
  step_cases hs
  all_goals knl_simp
  all_goals (try (knl_close; done))
  all_goals (try (
    intro hnl
    rw [‹Note.State.pc _ _ = _›] at hnl
    first
      | (obtain ⟨r, w, rfl⟩ := noLoop_dl hnl
         right
         first | rfl | exact noLoop_afterDeadlinePc_deq _ _ _ _)
      | (right; exact noLoop_afterNotifyPc _ _ hnl)))

theorem knl_waitCall {s s' : State} {t : Tid} {k : NoteId} (hs : step s (.waitCall t k) = .ok s') :
    KeepNL s s' t := by
  step_cases hs
  all_goals knl_simp
  all_goals (try (knl_close; done))
  all_goals (try (
    intro hnl
    rw [‹Note.State.pc _ _ = _›] at hnl
    first
      | (obtain ⟨r, w, rfl⟩ := noLoop_dl hnl
         right
         first | rfl | exact noLoop_afterDeadlinePc_deq _ _ _ _)
      | (right; exact noLoop_afterNotifyPc _ _ hnl)))

theorem knl_waitRet {s s' : State} {t : Tid}  (hs : step s (.waitRet t) = .ok s') :
    KeepNL s s' t := by
  step_cases hs
  all_goals knl_simp
  all_goals (try (knl_close; done))
  all_goals (try (
    intro hnl
    rw [‹Note.State.pc _ _ = _›] at hnl
    first
      | (obtain ⟨r, w, rfl⟩ := noLoop_dl hnl
         right
         first | rfl | exact noLoop_afterDeadlinePc_deq _ _ _ _)
      | (right; exact noLoop_afterNotifyPc _ _ hnl)))

theorem knl_ld {s s' : State} {t : Tid} {site : Site} {ord : Ord} {k : NoteId} {obs : Nat} (hs : step s (.ld t site ord k obs) = .ok s') :
    KeepNL s s' t := by
  step_cases hs
  all_goals knl_simp
  all_goals (try (knl_close; done))
  all_goals (try (
    intro hnl
    rw [‹Note.State.pc _ _ = _›] at hnl
    first
      | (obtain ⟨r, w, rfl⟩ := noLoop_dl hnl
         right
         first | rfl | exact noLoop_afterDeadlinePc_deq _ _ _ _)
      | (right; exact noLoop_afterNotifyPc _ _ hnl)))

theorem knl_stNote {s s' : State} {t : Tid} {site : Site} {ord : Ord} {k : NoteId} {new obs : Nat} (hs : step s (.stNote t site ord k new obs) = .ok s') :
    KeepNL s s' t := by
  step_cases hs
  all_goals knl_simp
  all_goals (try (knl_close; done))
  all_goals (try (
    intro hnl
    rw [‹Note.State.pc _ _ = _›] at hnl
    first
      | (obtain ⟨r, w, rfl⟩ := noLoop_dl hnl
         right
         first | rfl | exact noLoop_afterDeadlinePc_deq _ _ _ _)
      | (right; exact noLoop_afterNotifyPc _ _ hnl)))

theorem knl_stW {s s' : State} {t : Tid} {site : Site} {ord : Ord} {r : Rid} {new obs : Nat} (hs : step s (.stW t site ord r new obs) = .ok s') :
    KeepNL s s' t := by
  step_cases hs
  all_goals knl_simp
  all_goals (try (knl_close; done))
  all_goals (try (
    intro hnl
    rw [‹Note.State.pc _ _ = _›] at hnl
    first
      | (obtain ⟨r, w, rfl⟩ := noLoop_dl hnl
         right
         first | rfl | exact noLoop_afterDeadlinePc_deq _ _ _ _)
      | (right; exact noLoop_afterNotifyPc _ _ hnl)))

theorem knl_ret {s s' : State} {t : Tid} {r : ApiRet} (hs : step s (.ret t r) = .ok s') :
    KeepNL s s' t := by
  step_cases hs
  all_goals knl_simp
  all_goals (try (knl_close; done))
  all_goals (try (
    intro hnl
    rw [‹Note.State.pc _ _ = _›] at hnl
    first
      | (obtain ⟨r, w, rfl⟩ := noLoop_dl hnl
         right
         first | rfl | exact noLoop_afterDeadlinePc_deq _ _ _ _)
      | (right; exact noLoop_afterNotifyPc _ _ hnl)))

theorem knl_waitnCall {s s' : State} {t : Tid} {d : Dl} (hs : step s (.waitnCall t d) = .ok s') :
    KeepNL s s' t := by
  step_cases hs
  all_goals knl_simp
  all_goals (try (knl_close; done))
  all_goals (try (
    intro hnl
    rw [‹Note.State.pc _ _ = _›] at hnl
    first
      | (obtain ⟨r, w, rfl⟩ := noLoop_dl hnl
         right
         first | rfl | exact noLoop_afterDeadlinePc_deq _ _ _ _)
      | (right; exact noLoop_afterNotifyPc _ _ hnl)))

theorem knl_waitnRet {s s' : State} {t : Tid} {rd : Nat} (hs : step s (.waitnRet t rd) = .ok s') :
    KeepNL s s' t := by
  step_cases hs
  all_goals knl_simp
  all_goals (try (knl_close; done))
  all_goals (try (
    intro hnl
    rw [‹Note.State.pc _ _ = _›] at hnl
    first
      | (obtain ⟨r, w, rfl⟩ := noLoop_dl hnl
         right
         first | rfl | exact noLoop_afterDeadlinePc_deq _ _ _ _)
      | (right; exact noLoop_afterNotifyPc _ _ hnl)))

theorem knl_now {s s' : State} {t : Tid} {v : Nat} (hs : step s (.now t v) = .ok s') :
    KeepNL s s' t := by
  step_cases hs
  all_goals knl_simp
  all_goals (try (knl_close; done))
  all_goals (try (
    intro hnl
    rw [‹Note.State.pc _ _ = _›] at hnl
    first
      | (obtain ⟨r, w, rfl⟩ := noLoop_dl hnl
         right
         first | rfl | exact noLoop_afterDeadlinePc_deq _ _ _ _)
      | (right; exact noLoop_afterNotifyPc _ _ hnl)))

theorem knl_semV {s s' : State} {t : Tid} {sem : Nat} (hs : step s (.semV t sem) = .ok s') :
    KeepNL s s' t := by
  step_cases hs
  all_goals knl_simp
  all_goals (try (knl_close; done))
  all_goals (try (
    intro hnl
    rw [‹Note.State.pc _ _ = _›] at hnl
    first
      | (obtain ⟨r, w, rfl⟩ := noLoop_dl hnl
         right
         first | rfl | exact noLoop_afterDeadlinePc_deq _ _ _ _)
      | (right; exact noLoop_afterNotifyPc _ _ hnl)))

theorem knl_pdEnter {s s' : State} {t : Tid} {sem : Nat} {d : Dl} (hs : step s (.pdEnter t sem d) = .ok s') :
    KeepNL s s' t := by
  step_cases hs
  all_goals knl_simp
  all_goals (try (knl_close; done))
  all_goals (try (
    intro hnl
    rw [‹Note.State.pc _ _ = _›] at hnl
    first
      | (obtain ⟨r, w, rfl⟩ := noLoop_dl hnl
         right
         first | rfl | exact noLoop_afterDeadlinePc_deq _ _ _ _)
      | (right; exact noLoop_afterNotifyPc _ _ hnl)))

theorem knl_pdRet {s s' : State} {t : Tid} {sem : Nat} {b : Bool} (hs : step s (.pdRet t sem b) = .ok s') :
    KeepNL s s' t := by
  step_cases hs
  all_goals knl_simp
  all_goals (try (knl_close; done))
  all_goals (try (
    intro hnl
    rw [‹Note.State.pc _ _ = _›] at hnl
    first
      | (obtain ⟨r, w, rfl⟩ := noLoop_dl hnl
         right
         first | rfl | exact noLoop_afterDeadlinePc_deq _ _ _ _)
      | (right; exact noLoop_afterNotifyPc _ _ hnl)))

theorem knl_malloc {s s' : State} {t : Tid} {res : Option NoteId} (hs : step s (.malloc t res) = .ok s') :
    KeepNL s s' t := by
  step_cases hs
  all_goals knl_simp
  all_goals (try (knl_close; done))
  all_goals (try (
    intro hnl
    rw [‹Note.State.pc _ _ = _›] at hnl
    first
      | (obtain ⟨r, w, rfl⟩ := noLoop_dl hnl
         right
         first | rfl | exact noLoop_afterDeadlinePc_deq _ _ _ _)
      | (right; exact noLoop_afterNotifyPc _ _ hnl)))

theorem knl_free {s s' : State} {t : Tid} {k : NoteId} (hs : step s (.free t k) = .ok s') :
    KeepNL s s' t := by
  step_cases hs
  all_goals knl_simp
  all_goals (try (knl_close; done))
  all_goals (try (
    intro hnl
    rw [‹Note.State.pc _ _ = _›] at hnl
    first
      | (obtain ⟨r, w, rfl⟩ := noLoop_dl hnl
         right
         first | rfl | exact noLoop_afterDeadlinePc_deq _ _ _ _)
      | (right; exact noLoop_afterNotifyPc _ _ hnl)))

/-- An own step of a `nsync_note_wait` that has left the wait loop does not re-enter it. -/
theorem own_keepNL {s s' : State} {e : Event} {t : Tid} (hs : step s e = .ok s')
    (ha : e.actor = some t) (hn : (s.pc t).noLoop = true) :
    s'.pc t = .idle ∨ (s'.pc t).noLoop = true := by
  cases e <;> simp only [Event.actor, Option.some.injEq, reduceCtorEq] at ha <;> subst ha
  · exfalso
    cases hpc : s.pc _ with
    | idle => rw [hpc] at hn; cases hn
    | _ => simp [step, hpc] at hs
  · exact knl_ret hs hn
  · exact knl_ld hs hn
  · exact knl_stNote hs hn
  · exact knl_stW hs hn
  · exact knl_lockCall hs hn
  · exact knl_lockRet hs hn
  · exact knl_unlockCall hs hn
  · exact knl_unlockRet hs hn
  · exact knl_tryCall hs hn
  · exact knl_tryRet hs hn
  · exact knl_waitCall hs hn
  · exact knl_waitRet hs hn
  · exact knl_waitnCall hs hn
  · exact knl_waitnRet hs hn
  · exact knl_now hs hn
  · exact knl_semV hs hn
  · exact knl_pdEnter hs hn
  · exact knl_pdRet hs hn
  · exact knl_malloc hs hn
  · exact knl_free hs hn

/-- A `nsync_note_wait` that is counted in a `disconnecting`, or has an activation of
    `note_notify_child`, has left the wait loop. -/
theorem noLoop_of_inNotify {pc : PC} (h : InNotify pc = true) (hw : pc.waitOn ≠ none) :
    pc.noLoop = true := by
  cases pc with
  | nfy p n par k =>
    cases k with
    | ofApi => simp [PC.waitOn, NK.waitDl] at hw
    | ofDeadline dk => cases dk <;> simp [PC.waitOn, NK.waitDl, DK.waitDl] at hw <;> rfl
  | chd p stk top =>
    obtain ⟨n, par, k⟩ := top
    cases k with
    | ofApi => simp [PC.waitOn, NK.waitDl] at hw
    | ofDeadline dk => cases dk <;> simp [PC.waitOn, NK.waitDl, DK.waitDl] at hw <;> rfl
  | fr p n par c nx => simp [PC.waitOn] at hw
  | _ => simp [InNotify] at h

end Note
