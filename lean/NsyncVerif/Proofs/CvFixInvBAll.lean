/-
  Layer `CvFix` (cv.c with the repair of F3; adapted from the `Cv` file of the same name): protocol invariant — the unlinking step of signal/broadcast, and the assembly:
  `InvA ∧ InvB` is preserved by every transition, hence holds in every reachable state.
-/
import NsyncVerif.Proofs.CvFixInvBSig

namespace NsyncVerif.CvFix

theorem invB_acq_sig {s : State} (hi : InvB s) (ha : InvA s) (t : Tid) (n : Word) (sel : List Rid) (ar : Bool)
    (o' : Word) (lnew : Loc)
    (hlocs : ((sel.filter Rid.isMucv) = [] ∧ lnew = .sRel) ∨ ((sel.filter Rid.isMucv) ≠ [] ∧ lnew = .sRcLd))
    (hl : (s.thr t).loc = .spCas) (hc : (s.thr t).cont = .sig) (hsub : sel.Sublist s.queue)
    (hfree : ∀ u, (s.thr u).loc.holds = false) :
    InvB { s with word := n, holder := some t, queue := s.queue.filter (fun r => !(sel.contains r)), recs := fun r => if sel.contains r then { s.recs r with stat := .listed t, unl := (s.recs r).unl ++ [Unl.waker t] } else s.recs r, thr := updT s.thr t { s.thr t with list := sel, todo := sel.filter Rid.isMucv, firstRc := true, old := o', allReaders := ar, loc := lnew } } := by
  have hselst : ∀ r, r ∈ sel → (s.recs r).stat = .queued := fun r h => (ha.qMem r).mp (hsub.subset h)
  have hlist : (s.thr t).list = [] := (ha.thr t).list0 (by simp [hl, Loc.wakePhase])
  have hmine : (s.thr t).mine = [] := (ha.thr t).mine0 (by simp [inWaitN, hl, hc])
  have hnl : ∀ q, (s.recs q).stat ≠ .listed t := by
    intro q e; have := (ha.lMem t q).mpr e; rw [hlist] at this; simp at this
  obtain ⟨b1, b2, b3, b4, b5, b6, b7, b8⟩ := hi
  constructor
  · intro q u
    by_cases hq : q ∈ sel
    · simp [hq]; intro _; exact ha.qWait q (hselst q hq)
    · simpa [hq] using b1 q u
  · intro q
    by_cases hq : q ∈ sel
    · simp [hq]
    · simpa [hq] using b2 q
  · intro q
    by_cases hq : q ∈ sel
    · simp [hq]
    · simpa [hq] using b3 q
  · intro q
    by_cases hq : q ∈ sel
    · simp [hq]
    · simpa [hq] using b4 q
  · intro q
    by_cases hq : q ∈ sel
    · simp [hq]
    · simpa [hq] using b5 q
  · intro q
    by_cases hq : q ∈ sel
    · simp [hq, b4 q (.inl (hselst q hq))]
    · simpa [hq] using b6 q
  · intro u
    by_cases hu : u = t
    · subst hu
      rcases hlocs with ⟨h1, rfl⟩ | ⟨h1, rfl⟩ <;>
        constructor <;> simp [savedLoc, waitLive, waitPrep, Loc.afterLoop, hmine, h1]
      all_goals first
        | exact (hsub.nodup ha.qNd).filter _
        | (intro q hq; simp [List.mem_filter] at hq; exact hq)
        | (intro q hq hm; exact ⟨hq, hm⟩)
    · refine tinvB_other3 (b7 u) (ha.thr u) (by simp [hu]) ?_ ?_
      · intro q _ _
        by_cases hq : q ∈ sel
        · simp [hq, hselst q hq]
        · simp [hq]
      · intro hs
        unfold SvOK
        have hsv := b7 u
        obtain ⟨_, hmu, _⟩ := (ha.thr u).live (savedLoc_live hs)
        by_cases hq : (s.thr u).r ∈ sel
        · simp only [List.contains_iff_mem, hq, if_true]
          have hrc := hsv.svQ hs (hselst _ hq)
          refine ⟨by simp, by simp, ?_⟩
          intro w hw
          simp at hw
          subst hw
          simp only [updT_apply, if_true]
          refine ⟨fun _ => hrc, fun hn => absurd ?_ hn⟩
          simp [List.mem_filter, hq, hmu]
        · simp only [List.contains_iff_mem, hq, if_false]
          refine ⟨hsv.svQ hs, hsv.svX hs, ?_⟩
          intro w hw
          by_cases hwt : w = t
          · subst hwt; exact absurd hw (hnl _)
          · simp only [updT_apply, hwt, if_false]; exact hsv.svL hs w hw
  · exact b8


theorem invB_tr {cfg : Config} {s s' : State} {e : Event} (ha : InvA s) (hi : InvB s) (h : Tr cfg s e s') :
    InvB s' := by
  cases h with
  | same e h => exact hi
  | tick ns h => exact invB_congr hi ha rfl rfl rfl
  | loc h => exact invB_loc hi ha h
  | acq t exp new obs o n hl hexp hw he ho hn hnew =>
    obtain ⟨f1, f2, f3, f4, f5, f6⟩ := acq_facts ha hl hexp hw he ho hn hnew
    subst f1
    unfold afterAcquire
    split
    · rename_i hc; simp only at hc
      exact invB_acq_waitEnq hi ha t n hl hc
    · rename_i hc; simp only at hc
      exact invB_acq_plain hi ha t n .wChk2 hl (.inl ⟨hc, rfl⟩)
    · rename_i hc; simp only at hc
      exact invB_acq_plain hi ha t n .nLocked hl (.inr (.inl ⟨hc, rfl⟩))
    · rename_i hc; simp only at hc
      exact invB_acq_plain hi ha t n .dWalk hl (.inr (.inr ⟨hc, rfl⟩))
    · rename_i hc; simp only at hc
      refine invB_acq_sig hi ha t n _ _ _ _ ?_ hl hc ?_ f6
      · dsimp only
        cases hz : (List.filter Rid.isMucv (if (s.thr t).bcast = true then s.queue else sigSelect s.recs s.queue)) with
        | nil => left; simp
        | cons a l => right; simp
      · dsimp only; split
        · exact List.Sublist.refl _
        · exact sigSelect_sublist _ _
  | relWait t new obs n hl hh hnew hn hsp => exact invB_relWait hi ha t n hl
  | relWait2 t new obs n hl hh hnew hn hsp => exact invB_relWait2 hi ha t n hl
  | relSig t site new obs n hl hs hh hnew hn hsp => exact invB_relSig hi ha t n hl
  | relEnq t new obs n hl hh hnew hn hsp => exact invB_relEnq hi ha t n hl
  | relDeq t new obs n hl hh hnew hn hsp => exact invB_relDeq hi ha t n hl
  | wHeadExit t r y hy hl hr hw => subst hy; exact (invB_wHeadExit hi ha t r hl hr hw).2
  | wCmpEq t r obs hl hr ho he => exact (invB_wCmpEq hi ha t r obs hl hr ho he).2
  | relDeqW t new obs n hl hh hnew hn hsp => exact invB_relDeqW hi ha t n hl
  | relDbg t new obs n hl hh hnew hn hsp => exact invB_relDbg hi ha t n hl
  | deqLdQueued t r obs hl hr hw hq => exact invB_deqLdQueued hi ha t r hl hr ((ha.qMem r).mp hq)
  | deqSpinExit t r hl hr hw => exact invB_deqSpinExit hi ha t r hl hr
  | wSt1 t r obs hl hm hst => exact invB_wSt1 hi ha t r hl hm hst
  | wClr t r obs hl hr => exact invB_wClr hi ha t r hl hr
  | wake t r obs hl hr => exact invB_wake hi ha t r hl hr
  | enqSt t r obs hl hm hst ho he => exact invB_enqSt hi ha t r hl hm hst
  | deqSt t r obs hl hr => exact invB_deqSt hi ha t r hl hr
  | wRmCasOk t r exp new obs hl hr hn ho he => exact invB_wRmCasOk hi ha t r new hl hr
  | sRcCasOk t site r exp new obs hl hr hn ho he =>
    have hnew : new = (s.recs r).rc + 1 := by rw [hn, ← he, ho]
    subst hnew
    refine invB_sRcCasOk hi ha t r _ hl hr ?_
    cases hz : (s.thr t).todo.tail with
    | nil => left; simp
    | cons a l => right; simp
  | muMode t obs lt hl hlt => exact invB_muMode hi ha t lt hl
  | wwCasOk t exp new obs f rest hl hlist =>
    obtain ⟨f', rest', hl', hf'⟩ := (hi.thr t).wwHead (.inr hl)
    have hfm : f.isMucv = true := by rw [hlist] at hl'; cases hl'; exact hf'
    refine invB_transfer hi ha t _ _ hl (transferSet_subset _ _ _) ?_
    rw [hlist]
    exact transferSet_mucv _ _ f rest hfm
  | semVWake t k r q hl hc => exact invB_semVWake hi ha t r _ k _ hl
  | semOther e sem' h => exact invB_congr hi ha rfl rfl rfl
  | semPdRetOkW t k hl => exact invB_semPdRetOkW hi ha t _ hl
  | semPdRetOkC t k hl => exact invB_semPdRetOkC hi ha t _ hl
  | wInit t r hl hm hst =>
    exact invB_foreign hi ha r _ (by simp [foreignOk, hst]) rfl rfl (fun e => by rw [hst] at e; cases e)
  | nwInit t r hl hm hst =>
    exact invB_foreign hi ha r _ (by simp [foreignOk, hst]) rfl rfl (fun e => by rw [hst] at e; cases e)
  | fStW t r new hl hf => exact invB_foreign hi ha r _ hf rfl rfl (fun _ => Nat.le_refl _)
  | fCasOk t r exp new obs hl hf hn ho he =>
    exact invB_foreign hi ha r _ hf rfl rfl (fun _ => by simp; omega)

/-- The combined invariant. -/
structure Inv (s : State) : Prop where
  a : InvA s
  b : InvB s

theorem inv_reachable {cfg : Config} {s : State} (h : Reachable cfg s) : Inv s := by
  refine reachable_induct (P := Inv) ⟨invA_init, invB_init⟩ ?_ s h
  intro s e s' hi htr
  have hb := invB_tr hi.a hi.b htr
  exact ⟨invA_tr hi.a htr hb.nobad, hb⟩

end NsyncVerif.CvFix
