/-
  Layer `CvFix` (cv.c with the repair of F3; adapted from the `Cv` file of the same name): protocol invariant — generic lemma for a transition that changes one record and the
  frame of the acting thread (no `todo` list changes).
-/
import NsyncVerif.Proofs.CvFixInvBFrame

namespace NsyncVerif.CvFix

/-- The handshake facts of thread `u` about its record, evaluated in `s'`. -/
def SvOK (s s' : State) (u : Tid) : Prop :=
  ((s'.recs (s.thr u).r).stat = .queued → (s'.recs (s.thr u).r).rc = (s.thr u).saved) ∧
  ((s'.recs (s.thr u).r).stat = .xfer ∨ (s'.recs (s.thr u).r).stat = .woken →
    (s.thr u).saved < (s'.recs (s.thr u).r).rc) ∧
  (∀ v, (s'.recs (s.thr u).r).stat = .listed v →
    ((s.thr u).r ∈ (s'.thr v).todo → (s'.recs (s.thr u).r).rc = (s.thr u).saved) ∧
    ((s.thr u).r ∉ (s'.thr v).todo → (s.thr u).saved < (s'.recs (s.thr u).r).rc))

/-- A thread that does not act keeps its facts if, among the records it owns, the self-removed ones
    are the same (with the same `waiting`) and the handshake for its own record is re-established. -/
theorem tinvB_other3 {s s' : State} {u : Tid} (h : TInvB s u) (ha : TInvA s u) (ht : s'.thr u = s.thr u)
    (hso : ∀ q, (s.recs q).owner = u → (s.recs q).stat ≠ .idle →
      ((s'.recs q).stat = .selfOut ↔ (s.recs q).stat = .selfOut) ∧
      ((s.recs q).stat = .selfOut → (s'.recs q).waiting = (s.recs q).waiting))
    (hsv : savedLoc (s.thr u) = true → SvOK s s' u) : TInvB s' u := by
  obtain ⟨b1, b2, b3, b4, b5, b6, b7, b8, b9, b10, b11, b12, b13, b14⟩ := h
  have hlive : waitLive (s.thr u) = true →
      ((s'.recs (s.thr u).r).stat = .selfOut ↔ (s.recs (s.thr u).r).stat = .selfOut) ∧
      ((s.recs (s.thr u).r).stat = .selfOut → (s'.recs (s.thr u).r).waiting = (s.recs (s.thr u).r).waiting) := by
    intro hl
    obtain ⟨o, _, lv⟩ := ha.live hl
    exact hso _ o (by intro e; rw [e] at lv; simp [RStat.live] at lv)
  constructor <;> rw [ht]
  · intro h1; exact (hsv h1).1
  · intro h1; exact (hsv h1).2.1
  · intro h1; exact (hsv h1).2.2
  · intro h1 h2; exact b4 h1 ((hlive h1).1.mp h2)
  · intro h1 h2 h3; rw [(hlive h1).2 ((hlive h1).1.mp h2)]; exact b5 h1 ((hlive h1).1.mp h2) h3
  · exact b6
  · intro h1 h2; obtain ⟨c1, c2⟩ := b7 h1 h2; exact ⟨(hlive h1).1.mpr c1, c2⟩
  · exact b8
  · intro q hq h2
    obtain ⟨_, o, ni, _⟩ := ha.mine q hq
    exact b9 q hq ((hso q o ni).1.mp h2)
  · exact b10
  · exact b11
  · exact b12
  · exact b13
  · intro h1
    obtain ⟨hm, _⟩ := ha.nDeq (.inl h1)
    obtain ⟨_, o, ni, _⟩ := ha.mine _ hm
    exact ((hso _ o ni).1).mpr (b14 h1)

theorem savedLoc_live {x : Thr} (h : savedLoc x = true) : waitLive x = true := by
  unfold savedLoc at h; unfold waitLive; split at h <;> simp_all

theorem invB_one {s s' : State} {t : Tid} {r : Rid} (hi : InvB s) (ha : InvA s)
    (hthr : ∀ u, u ≠ t → s'.thr u = s.thr u)
    (hrecs : ∀ q, q ≠ r → s'.recs q = s.recs q)
    (htodo : (s'.thr t).todo = (s.thr t).todo)
    (hbad : s'.bad = false)
    -- the global facts for the changed record
    (g1 : ∀ u, (s'.recs r).stat = .listed u → (s'.recs r).waiting = true)
    (g2 : (s'.recs r).stat = .woken → (s'.recs r).waiting = false)
    (g3 : (s'.recs r).stat = .xfer → r.isMucv = true)
    (g4 : (s'.recs r).stat = .queued ∨ (s'.recs r).stat = .prep → (s'.recs r).unl = [])
    (g5 : (s'.recs r).stat = .selfOut → r.isMucv = true → (s'.recs r).unl = [Unl.self])
    (g6 : r.isMucv = true → (s'.recs r).unl.length ≤ 1)
    -- the owner of the record, if it is another thread
    (hown : ∀ u, u ≠ t → (s.recs r).owner = u → (s.recs r).stat ≠ .idle →
      ((s'.recs r).stat = .selfOut ↔ (s.recs r).stat = .selfOut) ∧
      ((s.recs r).stat = .selfOut → (s'.recs r).waiting = (s.recs r).waiting) ∧
      (savedLoc (s.thr u) = true → (s.thr u).r = r → SvOK s s' u))
    (ht : TInvB s' t) : InvB s' := by
  obtain ⟨b1, b2, b3, b4, b5, b6, b7, b8⟩ := hi
  have todo_eq : ∀ v, (s'.thr v).todo = (s.thr v).todo := by
    intro v
    by_cases hv : v = t
    · subst hv; exact htodo
    · rw [hthr v hv]
  constructor
  · intro q u
    by_cases hq : q = r
    · subst hq; exact g1 u
    · rw [hrecs q hq]; exact b1 q u
  · intro q
    by_cases hq : q = r
    · subst hq; exact g2
    · rw [hrecs q hq]; exact b2 q
  · intro q
    by_cases hq : q = r
    · subst hq; exact g3
    · rw [hrecs q hq]; exact b3 q
  · intro q
    by_cases hq : q = r
    · subst hq; exact g4
    · rw [hrecs q hq]; exact b4 q
  · intro q
    by_cases hq : q = r
    · subst hq; exact g5
    · rw [hrecs q hq]; exact b5 q
  · intro q
    by_cases hq : q = r
    · subst hq; exact g6
    · rw [hrecs q hq]; exact b6 q
  · intro u
    by_cases hu : u = t
    · subst hu; exact ht
    · refine tinvB_other3 (b7 u) (ha.thr u) (hthr u hu) ?_ ?_
      · intro q ho hni
        by_cases hq : q = r
        · subst hq
          obtain ⟨c1, c2, _⟩ := hown u hu ho hni
          exact ⟨c1, c2⟩
        · rw [hrecs q hq]; exact ⟨Iff.rfl, fun _ => rfl⟩
      · intro hs
        by_cases hq : (s.thr u).r = r
        · obtain ⟨o, _, lv⟩ := (ha.thr u).live (savedLoc_live hs)
          rw [hq] at o lv
          exact (hown u hu o (by intro e; rw [e] at lv; simp [RStat.live] at lv)).2.2 hs hq
        · unfold SvOK
          rw [hrecs _ hq]
          refine ⟨(b7 u).svQ hs, (b7 u).svX hs, ?_⟩
          intro v; rw [todo_eq v]; exact (b7 u).svL hs v
  · exact hbad

end NsyncVerif.CvFix
