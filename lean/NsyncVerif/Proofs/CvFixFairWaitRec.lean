/-
  Layer `CvFix`, liveness, the waiter's side: the record of a wait that a waker has woken or
  transferred keeps its status (and sequence number, unlinkers, `posted`) until its owner leaves
  the wait loop (`rec_stable`).
-/
import NsyncVerif.Proofs.CvFixFairWaitStep

namespace NsyncVerif.CvFix

/-- What is kept of record `r` from `s` to `s'`. -/
def RecKept (s s' : State) (r : Rid) : Prop :=
  (s'.recs r).stat = (s.recs r).stat ∧ (s'.recs r).enqSeq = (s.recs r).enqSeq ∧
  (s'.recs r).unl = (s.recs r).unl ∧ (s'.recs r).owner = (s.recs r).owner ∧
  ((s.recs r).posted = true → (s'.recs r).posted = true)

theorem recKept_refl (s : State) (r : Rid) : RecKept s s r := ⟨rfl, rfl, rfl, rfl, id⟩

theorem recKept_of_eq {s s' : State} {r : Rid} (h : s'.recs r = s.recs r) : RecKept s s' r := by
  unfold RecKept; rw [h]; exact ⟨rfl, rfl, rfl, rfl, id⟩

theorem afterAcquire_recs (s1 : State) (t0 : Tid) (x : Thr) (q : Rid) (h1 : q ∉ s1.queue)
    (h2 : x.cont = .waitEnq → q ≠ x.r) : (afterAcquire s1 t0 x).recs q = s1.recs q := by
  unfold afterAcquire
  split
  · rename_i hc; simp [h2 hc]
  · rfl
  · rfl
  · rfl
  · dsimp only
    rw [if_neg]
    intro hcon
    apply h1
    by_cases hb : x.bcast = true
    · simpa [hb] using hcon
    · simp only [hb] at hcon
      exact (sigSelect_sublist s1.recs s1.queue).subset (by simpa using hcon)

theorem rec_stable {cfg : Config} {s s' : State} {e : Event} {t : Tid} (htr : Tr cfg s e s')
    (hi : Inv s) (hl : waitLive (s.thr t) = true)
    (hst : (s.recs (s.thr t).r).stat = .woken ∨ (s.recs (s.thr t).r).stat = .xfer) :
    (s'.thr t).loc = .wExit ∨ RecKept s s' (s.thr t).r := by
  obtain ⟨hown, hmu, _⟩ := (hi.a.thr t).live hl
  -- a record whose status is not woken / xfer is another record
  have hne : ∀ q, (s.recs q).stat ≠ .woken → (s.recs q).stat ≠ .xfer → (s.thr t).r ≠ q := by
    intro q h1 h2 he; subst he; rcases hst with h | h
    · exact h1 h
    · exact h2 h
  have hnm : ∀ q, q.isMucv = false → (s.thr t).r ≠ q := by
    intro q h he; subst he; rw [hmu] at h; cases h
  have upd : ∀ (q : Rid) (v : Rec) (s1 : State), (s.thr t).r ≠ q → s1.recs = s.recs →
      RecKept s (s1.setRec q v) (s.thr t).r := by
    intro q v s1 hq h1
    apply recKept_of_eq
    simp only [setRec_recs, h1]; rw [if_neg hq]
  cases htr with
  | same e h hna => exact .inr (recKept_refl _ _)
  | tick ns h => exact .inr (recKept_refl _ _)
  | semOther e sem' h hopen => exact .inr (recKept_refl _ _)
  | loc h => exact .inr (recKept_refl _ _)
  | acq t0 exp new obs o n hl0 hexp hw he ho hn hnew =>
    right
    apply recKept_of_eq
    apply afterAcquire_recs
    · intro hmem
      have hq := (hi.a.qMem _).mp hmem
      rcases hst with h | h <;> rw [h] at hq <;> cases hq
    · intro hc
      have hp := ((hi.a.thr t0).prep (by simp [waitPrep, hl0, show (s.thr t0).cont = .waitEnq from hc])).1
      exact hne _ (by rw [hp]; simp) (by rw [hp]; simp)
  | relWait t0 new obs n hl0 hh hnew hn hsp =>
    right
    have hq := (hi.a.thr t0).enq (.inr hl0)
    have := upd (s.thr t0).r { s.recs (s.thr t0).r with pub := true, enqSeq := s.seq }
      { s with word := n, holder := none, seq := s.seq + 1 }
      (hne _ (by rw [hq]; simp) (by rw [hq]; simp)) rfl
    exact this
  | relWait2 t0 new obs n hl0 hh hnew hn hsp => exact .inr (recKept_refl _ _)
  | relSig t0 site new obs n hl0 hs hh hnew hn hsp => exact .inr (recKept_refl _ _)
  | relEnq t0 new obs n hl0 hh hnew hn hsp =>
    right
    have hq := ((hi.a.thr t0).nEnq hl0).1
    exact upd (s.thr t0).r { s.recs (s.thr t0).r with pub := true, enqSeq := s.seq }
      { s with word := n, holder := none, seq := s.seq + 1 }
      (hne _ (by rw [hq]; simp) (by rw [hq]; simp)) rfl
  | relDeq t0 new obs n hl0 hh hnew hn hsp =>
    right
    have hm := ((hi.a.thr t0).nDeq (.inr hl0)).1
    exact upd (s.thr t0).r _ { s with word := n, holder := none }
      (hnm _ ((hi.a.thr t0).mine _ hm).1) rfl
  | relDeqW t0 new obs n hl0 hh hnew hn hsp => exact .inr (recKept_refl _ _)
  | relDbg t0 new obs n hl0 hh hnew hn hsp => exact .inr (recKept_refl _ _)
  | wHeadExit t0 r y hy hl0 hr hw =>
    subst hy
    by_cases hq : (s.thr t).r = r
    · left
      have hl0' : waitLive (s.thr t0) = true := by simp [waitLive, hl0]
      have ho0 := ((hi.a.thr t0).live hl0').1
      rw [← hr, ← hq, hown] at ho0
      subst ho0
      simp
    · right
      exact upd r _ { s with bad := s.bad || (s.recs r).stat.registered } hq rfl
  | wCmpEq t0 r obs hl0 hr ho he =>
    right
    by_cases hq : (s.thr t).r = r
    · exfalso
      have hl0' : waitLive (s.thr t0) = true := by simp [waitLive, hl0]
      have ho0 := ((hi.a.thr t0).live hl0').1
      rw [← hr, ← hq, hown] at ho0
      subst ho0
      have := (hi.b.thr t).svX (by simp [savedLoc, hl0]) (by rcases hst with h | h <;> simp [h])
      rw [hq, ← ho, he] at this
      exact Nat.lt_irrefl _ this
    · exact upd r _ { s with queue := s.queue.erase r, bad := s.bad || decide ((s.recs r).stat ≠ RStat.queued) } hq rfl
  | deqLdQueued t0 r obs hl0 hr hw hq =>
    exact .inr (upd r _ { s with queue := s.queue.erase r } (hnm _ ((hi.a.thr t0).mine _ hr).1) rfl)
  | deqSpinExit t0 r hl0 hr hw =>
    have hm := ((hi.a.thr t0).nSpin (.inr hl0)).1
    exact .inr (upd r _ s (by rw [hr]; exact hnm _ ((hi.a.thr t0).mine _ hm).1) rfl)
  | wSt1 t0 r obs hl0 hm hst0 =>
    exact .inr (upd r _ s (hne _ (by rw [hst0]; simp) (by rw [hst0]; simp)) rfl)
  | wClr t0 r obs hl0 hr =>
    have hq := (hi.a.thr t0).selfO (.inr (.inr hl0))
    exact .inr (upd r _ s (by rw [hr]; exact hne _ (by rw [hq]; simp) (by rw [hq]; simp)) rfl)
  | wake t0 r obs hl0 hr =>
    have hq := (hi.a.lMem t0 r).mp (head_mem' hr)
    exact .inr (upd r _ s (hne _ (by rw [hq]; simp) (by rw [hq]; simp)) rfl)
  | enqSt t0 r obs hl0 hm hst0 ho he =>
    exact .inr (upd r _ { s with queue := s.queue ++ [r] } (hnm _ hm) rfl)
  | deqSt t0 r obs hl0 hr =>
    have hm := ((hi.a.thr t0).nDeq (.inl hl0)).1
    exact .inr (upd r _ s (by rw [hr]; exact hnm _ ((hi.a.thr t0).mine _ hm).1) rfl)
  | wRmCasOk t0 r exp new obs hl0 hr hn ho he =>
    have hq := (hi.a.thr t0).selfO (.inr (.inl hl0))
    exact .inr (upd r _ s (by rw [hr]; exact hne _ (by rw [hq]; simp) (by rw [hq]; simp)) rfl)
  | sRcCasOk t0 site r exp new obs hl0 hr hn ho he =>
    have hq := (hi.a.lMem t0 r).mp ((hi.b.thr t0).todoL r (head_mem' hr)).1
    exact .inr (upd r _ s (hne _ (by rw [hq]; simp) (by rw [hq]; simp)) rfl)
  | muMode t0 obs lt hl0 hlt =>
    have hq := ((hi.a.thr t0).prep (by simp [waitPrep, hl0])).1
    exact .inr (upd _ _ s (hne _ (by rw [hq]; simp) (by rw [hq]; simp)) rfl)
  | wwCasOk t0 exp new obs f rest hl0 hlist =>
    right
    apply recKept_of_eq
    dsimp only
    split
    · rename_i hc
      exfalso
      have hmem := transferSet_subset _ _ _ _ (List.contains_iff_mem.mp hc)
      have hq := (hi.a.lMem t0 _).mp hmem
      rcases hst with h | h <;> rw [h] at hq <;> cases hq
    · rfl
  | semVWake t0 k r q hl0 hc =>
    right
    by_cases hq : (s.thr t).r = r
    · subst hq
      refine ⟨by simp, by simp, by simp, by simp, ?_⟩
      intro hp; simp [hp]
    · exact upd r _ { s with sem := updS s.sem k (vCount cfg (s.sem k)) } hq rfl
  | semPdRetOkW t0 k hl0 => exact .inr (recKept_refl _ _)
  | semPdRetOkC t0 k hl0 => exact .inr (recKept_refl _ _)
  | wInit t0 r h hm hst0 =>
    exact .inr (upd r _ s (hne _ (by rw [hst0]; simp) (by rw [hst0]; simp)) rfl)
  | nwInit t0 r h hm hst0 => exact .inr (upd r _ s (hnm _ hm) rfl)
  | fStW t0 r new h hf =>
    right
    by_cases hq : (s.thr t).r = r
    · subst hq; exact ⟨by simp, by simp, by simp, by simp, by simp⟩
    · exact upd r _ s hq rfl
  | fCasOk t0 r exp new obs h hf hn ho he =>
    right
    by_cases hq : (s.thr t).r = r
    · subst hq; exact ⟨by simp, by simp, by simp, by simp, by simp⟩
    · exact upd r _ s hq rfl

end NsyncVerif.CvFix
