import NsyncVerif.Proofs.MuQAbs
/-
  MuQ: specification of the waiter scan `scanGo` (mu.c:361-394 with testing_conditions = 0).
-/
namespace NsyncVerif.MuQ

theorem mode_ne_R {m : Mode} (h : ¬ m = .R) : m = .W := by cases m <;> simp_all

theorem scanGo_spec (lt : Wid → Mode) : ∀ (todo : List Wid) (sc : Scan),
    (∀ k sc', scanGo lt todo sc = .remove k sc' →
      ∃ mid, todo = mid ++ k :: sc'.todo ∧ sc'.wake = sc.wake ++ [k] ∧ sc'.wt = some (lt k) ∧
        (sc.wt = none → mid = []) ∧ (mid = [] → sc'.sww = sc.sww ∧ sc'.saf = sc.saf) ∧
        (mid ≠ [] → sc'.sww = true ∧ sc'.saf = false ∧ ∃ x, x ∈ mid ∧ lt x = .W)) ∧
    (∀ sc', scanGo lt todo sc = .done sc' →
      ∃ mid, todo = mid ++ sc'.todo ∧ sc'.wake = sc.wake ∧ sc'.wt = sc.wt ∧
        (sc.wt = none → todo = []) ∧ (mid = [] → sc'.sww = sc.sww ∧ (sc'.todo = [] → sc'.saf = sc.saf)) ∧
        (sc'.todo ≠ [] → sc'.saf = false) ∧
        (mid ≠ [] → sc'.sww = true ∧ sc'.saf = false ∧ ∃ x, x ∈ mid ∧ lt x = .W)) := by
  intro todo
  induction todo with
  | nil =>
    intro sc
    constructor
    · intro k sc' h; simp [scanGo] at h
    · intro sc' h; simp only [scanGo, ScanRes.done.injEq] at h; subst h
      exact ⟨[], by simp⟩
  | cons k rest ih =>
    intro sc
    by_cases h1 : sc.wt = some .W
    · constructor
      · intro k' sc' h; simp [scanGo, h1] at h
      · intro sc' h; simp only [scanGo, h1, if_true, ScanRes.done.injEq] at h; subst h
        exact ⟨[], by simp [h1]⟩
    · by_cases h2 : sc.wt = none ∨ lt k = .R
      · constructor
        · intro k' sc' h
          simp only [scanGo, h1, if_false, h2, if_true, ScanRes.remove.injEq] at h
          obtain ⟨rfl, rfl⟩ := h
          exact ⟨[], by simp⟩
        · intro sc' h; simp [scanGo, h1, h2] at h
      · have hk : lt k = .W := mode_ne_R (fun h => h2 (Or.inr h))
        have hwt : sc.wt ≠ none := fun h => h2 (Or.inl h)
        obtain ⟨ihr, ihd⟩ := ih { sc with sww := true, saf := false }
        constructor
        · intro k' sc' h
          simp only [scanGo, h1, if_false, h2] at h
          obtain ⟨mid, e1, e2, e3, _, e5, e6⟩ := ihr k' sc' h
          refine ⟨k :: mid, by simp [e1], e2, e3, fun h => absurd h hwt, (fun h => by cases h), fun _ => ?_⟩
          by_cases hm : mid = []
          · obtain ⟨a1, a2⟩ := e5 hm
            exact ⟨a1, a2, k, by simp, hk⟩
          · obtain ⟨a1, a2, _⟩ := e6 hm
            exact ⟨a1, a2, k, by simp, hk⟩
        · intro sc' h
          simp only [scanGo, h1, if_false, h2] at h
          obtain ⟨mid, e1, e2, e3, _, e5, e6, e7⟩ := ihd sc' h
          refine ⟨k :: mid, by simp [e1], e2, e3, fun h => absurd h hwt, (fun h => by cases h), e6, fun _ => ?_⟩
          by_cases hm : mid = []
          · obtain ⟨a1, a2⟩ := e5 hm
            refine ⟨a1, ?_, k, by simp, hk⟩
            by_cases ht : sc'.todo = []
            · exact a2 ht
            · exact e6 ht
          · obtain ⟨a1, a2, _⟩ := e7 hm
            exact ⟨a1, a2, k, by simp, hk⟩

end NsyncVerif.MuQ
