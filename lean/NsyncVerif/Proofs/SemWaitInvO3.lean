/-
  Proofs/SemWaitInvO3.lean — preservation of the invariant by the effects of a thread step: `o2`.
-/
import NsyncVerif.Proofs.SemWaitTac

namespace SemWait
set_option maxHeartbeats 400000
set_option linter.unusedVariables false

theorem o_o2 {cfg : Config} {s s' : State} {t : Tid} (hc : cfg.noReread = false) (ha : InvA s) (ho : InvO s) (he : Eff cfg s t s') :
    ∀ t, late (s'.pc t) = true → (s'.fr t).out = .cancelled →
        (s'.note (s'.fr t).note).flag = true ∨ dlePast (s'.note (s'.fr t).note).expiry = true := by
  have o2 := ho.o2
  have o1 := ho.o1
  have o5 := ho.o5
  have i5 := ha.i5
  eff_cases he
  case nop  =>
    clear ha ho; clear i5; grind [late, ndNext, nfNext, timePos]
  case semV j =>
    clear ha ho; clear i5; grind [late, ndNext, nfNext, timePos]
  case semP j c hu hs =>
    clear ha ho; clear i5; grind [late, ndNext, nfNext, timePos]
  case lock k hp hl =>
    clear ha ho; clear i5; grind [late, ndNext, nfNext, timePos]
  case unlock k hp hl hpost hfq =>
    clear ha ho; clear i5; grind [late, ndNext, nfNext, timePos]
  case setFlag k hp hl hk hf hd =>
    clear ha ho; clear i5; grind [late, ndNext, nfNext, timePos]
  case born k p hp hk hfr hne hl hf htp =>
    clear ha ho; clear i5; grind [late, ndNext, nfNext, timePos]
  case pop r tl hp hqu hl hf hpost =>
    clear ha ho; clear i5; grind [late, ndNext, nfNext, timePos]
  case postDead r j hp hpost hlive =>
    clear ha ho; clear i5; grind [late, ndNext, nfNext, timePos]
  case postBound r j hp hpost hlive hsem =>
    clear ha ho; clear i5; grind [late, ndNext, nfNext, timePos]
  case postBind r j hp hpost hlive hsem huser =>
    clear ha ho; clear i5; grind [late, ndNext, nfNext, timePos]
  case newNote k ex hp hk =>
    clear ha ho; grind [late, late_inCall]
  case inherit k p hp hk hfr hne =>
    clear ha ho; grind [late, late_inCall]
  case call n dl hpc hk hpost hl =>
    clear ha ho; clear i5; grind [late, ndNext, nfNext, timePos]
  case openEnd u hpc hf hl hpost hqu =>
    clear ha ho; cases u <;> (clear i5; grind [late, ndNext, nfNext, timePos])
  case nd_ld0_set u hpc hf =>
    clear ha ho; cases u <;> (clear i5; grind [late, ndNext, nfNext, timePos])
  case nd_ld0_clr u hpc hf =>
    clear ha ho; cases u <;> (clear i5; grind [late, ndNext, nfNext, timePos])
  case nd_lk u hpc hl =>
    clear ha ho; cases u <;> (clear i5; grind [late, ndNext, nfNext, timePos])
  case nd_ld1 u hpc =>
    clear ha ho; cases u <;> (clear i5; grind [late, ndNext, nfNext, timePos])
  case nd_ulk_done u obs hpc hl hob =>
    clear ha ho; cases u <;> (clear i5; grind [late, ndNext, nfNext, timePos])
  case nd_ulk_now u obs hpc hl hob =>
    clear ha ho; cases u <;> (clear i5; grind [late, ndNext, nfNext, timePos])
  case nd_now_exp u hpc hx =>
    clear ha ho; cases u <;> (clear i5; grind [late, ndNext, nfNext, timePos])
  case nd_now_ok u hpc hx =>
    clear ha ho; cases u <;> (clear i5; grind [late, ndNext, nfNext, timePos])
  case nf_lk u hpc hl =>
    clear ha ho; cases u <;> (clear i5; grind [late, ndNext, nfNext, timePos])
  case nf_ld_ulk u hpc hf =>
    clear ha ho; cases u <;> (clear i5; grind [late, ndNext, nfNext, timePos])
  case nf_ld_open u hpc hf =>
    clear ha ho; cases u <;> (clear i5; grind [late, ndNext, nfNext, timePos])
  case nf_ulk u hpc hl =>
    clear ha ho; cases u <;> (clear i5; grind [late, ndNext, nfNext, timePos])
  case m_init r hpc hlive =>
    clear ha ho; clear i5; grind [late, ndNext, nfNext, timePos]
  case m_lk1 hpc hl =>
    clear ha ho; clear i5; grind [late, ndNext, nfNext, timePos]
  case m_ld49_enq r hpc hen hnw =>
    clear ha ho; clear i5; grind [late, ndNext, nfNext, timePos]
  case m_ld49_no hpc hen =>
    clear ha ho; clear i5; grind [late, ndNext, nfNext, timePos]
  case m_ulk1 b hpc hl =>
    clear ha ho; clear i5; grind [late, ndNext, nfNext, timePos]
  case m_pdEnterBound j hpc hsem =>
    clear ha ho; clear i5; grind [late, ndNext, nfNext, timePos]
  case m_pdEnterBind j hpc hsem huser =>
    clear ha ho; clear i5; grind [late, ndNext, nfNext, timePos]
  case m_tmoNear j hpc hx hn =>
    clear ha ho; clear i5; grind [late, ndNext, nfNext, timePos]
  case m_tmoFar j hpc hx hn =>
    clear ha ho; clear i5; grind [late, ndNext, nfNext, timePos]
  case m_p0 j c hpc hs =>
    clear ha ho; clear i5; grind [late, ndNext, nfNext, timePos]
  case m_lk2 hpc hl =>
    clear ha ho; clear i5; grind [late, ndNext, nfNext, timePos]
  case m_ld68_rm r hpc htp hnw hm =>
    clear ha ho; clear i5; grind [late, ndNext, nfNext, timePos]
  case m_ld68_no hpc htp =>
    clear ha ho; clear i5; grind [late, ndNext, nfNext, timePos]
  case m_ulk2 hpc hl =>
    clear ha ho; clear i5; grind [late, ndNext, nfNext, timePos]
  case m_ret hpc =>
    clear ha ho; clear i5; grind [late, ndNext, nfNext, timePos]

end SemWait
