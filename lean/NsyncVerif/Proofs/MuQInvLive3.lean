import NsyncVerif.Proofs.MuQInvLive2
/-
  MuQ: preservation of ALive, part 3: queue insertion, semaphore changes, the unlocking side.
-/
namespace NsyncVerif.MuQ

/-- `waiting := 1` + queue insertion (first wait or re-queue). -/
theorem alive_enqueue {a X : AState} {t : Tid} {c c' : SL} {k : Wid} (h : ALive a)
    (hro : a.ro t = .slow c .st) (hc1 : c'.l = c.l) (hc2 : c'.lwl = c.lwl) (hc3 : c'.w = some k)
    (hk_own : ∀ t' c1 ph1, a.ro t' = .slow c1 ph1 → c1.w = some k → t' = t)
    (hword : X.word = a.word) (hts : X.ts = a.ts)
    (hq : ∀ x, x ∈ X.queue ↔ x = k ∨ x ∈ a.queue)
    (hr' : X.ro = setFn a.ro t (.slow c' .rel))
    (hwk : (X.wr k).waiting = true) (hwo : ∀ k', k' ≠ k → X.wr k' = a.wr k') : ALive X := by
  have other : ∀ u, u ≠ t → X.ro u = a.ro u := fun u hu => by rw [hr']; simp [setFn, hu]
  have self : X.ro t = .slow c' .rel := by rw [hr']; simp [setFn]
  have tIF : ∀ u, InFlight a u → InFlight X u := by
    intro u hi
    have hu : u ≠ t := by
      intro e; subst e; obtain ⟨c1, ph, hr, hx⟩ := hi; rw [hro] at hr; cases hr
      rcases hx with ⟨hx, _⟩ | ⟨hx, _⟩ <;> cases hx
    obtain ⟨c1, ph, hr, hx⟩ := hi
    refine ⟨c1, ph, by rw [other u hu]; exact hr, ?_⟩
    rcases hx with hx | ⟨h1, k1, h2, h3⟩
    · exact Or.inl hx
    · refine Or.inr ⟨h1, k1, h2, fun hm => ?_⟩
      rcases (hq k1).1 hm with e | e
      · subst e; exact hu (hk_own u c1 ph hr h2)
      · exact h3 e
  have tUn : ∀ u, Unlocking a u → Unlocking X u := by
    intro u hi
    refine hi.mono (other u ?_)
    intro e; subst e; rcases hi with ⟨sc, hr⟩ | ⟨f, hr⟩ <;> rw [hro] at hr <;> cases hr
  refine ⟨?_, ?_, ?_, ?_, ?_⟩
  · intro hx; rw [hword] at hx
    rcases h.desig hx with ⟨u, hu⟩ | ⟨u, hu⟩
    · exact Or.inl ⟨u, tIF u hu⟩
    · exact Or.inr ⟨u, tUn u hu⟩
  · intro hx; rw [hword] at hx
    obtain ⟨u, c1, ph, hr, hc⟩ := h.lw hx
    by_cases e : u = t
    · subst e; rw [hro] at hr; cases hr; exact ⟨u, c', .rel, self, by rw [hc2]; exact hc⟩
    · exact ⟨u, c1, ph, by rw [other u e]; exact hr, hc⟩
  · intro hx; rw [hword] at hx
    obtain ⟨u, c1, ph, hr, hc, hp⟩ := h.ww hx
    by_cases e : u = t
    · subst e; rw [hro] at hr; cases hr
      exact ⟨u, c', .rel, self, by rw [hc1]; exact hc, Or.inr (by rw [hc3]; rfl)⟩
    · exact ⟨u, c1, ph, by rw [other u e]; exact hr, hc, hp⟩
  · intro _
    exact (h.resp (Or.inr ⟨t, c, hro⟩)).mono (fun u hu => by rw [hts]; exact hu) tIF tUn
  · intro u c1 k1 hr hcw hwt
    have hu : u ≠ t := fun e => by subst e; rw [self] at hr; cases hr
    rw [other u hu] at hr
    have hk1 : k1 ≠ k := fun e => by subst e; rw [hwk] at hwt; cases hwt
    rw [hwo k1 hk1] at hwt ⊢
    rcases h.post u c1 k1 hr hcw hwt with h1 | ⟨v, r, hv⟩
    · exact Or.inl h1
    · right; refine ⟨v, r, ?_⟩
      rw [other v ?_]; exact hv
      intro e; subst e; rw [hro] at hv; cases hv

/-- Only semaphore counts change, and no sleeper loses a count it relies on. -/
theorem alive_sem {a X : AState} (h : ALive a) (hword : X.word = a.word) (hq : X.queue = a.queue)
    (hts : X.ts = a.ts) (hro : X.ro = a.ro)
    (hwt : ∀ k, (X.wr k).waiting = (a.wr k).waiting)
    (hsem : ∀ u c k, a.ro u = .slow c .loopP → c.w = some k → (a.wr k).sem ≠ 0 → (X.wr k).sem ≠ 0) :
    ALive X := by
  have tIF : ∀ u, InFlight a u → InFlight X u :=
    fun u hi => hi.mono (by rw [hro]) (fun k hk => by rw [hq] at hk; exact hk)
  have tUn : ∀ u, Unlocking a u → Unlocking X u := fun u hi => hi.mono (by rw [hro])
  refine ⟨?_, by rw [hword, hro]; exact h.lw, by rw [hword, hro]; exact h.ww, ?_, ?_⟩
  · intro hx; rw [hword] at hx
    rcases h.desig hx with ⟨u, hu⟩ | ⟨u, hu⟩
    · exact Or.inl ⟨u, tIF u hu⟩
    · exact Or.inr ⟨u, tUn u hu⟩
  · intro hn
    have : Need a := by
      rcases hn with hn | ⟨u, c, hr⟩
      · exact Or.inl (by rw [hq] at hn; exact hn)
      · exact Or.inr ⟨u, c, by rw [hro] at hr; exact hr⟩
    exact (h.resp this).mono (fun u hu => by rw [hts]; exact hu) tIF tUn
  · intro u c k hr hcw hw
    rw [hro] at hr ⊢; rw [hwt k] at hw
    rcases h.post u c k hr hcw hw with h1 | h1
    · exact Or.inl (hsem u c k hr hcw h1)
    · exact Or.inr h1

/-- A release that does not take the spinlock. -/
theorem alive_release {a X : AState} {t : Tid} (hl : ALock a) (hs : ASpin a) (hh : AHint a) (h : ALive a)
    (hrt : a.ro t = .quiet) (hrc : relCond a.word) (hsh : a.ts t = some .R → a.word.readers > 1 → ∃ u, u ≠ t ∧ a.ts u ≠ none)
    (hd : X.word.desig = a.word.desig) (hlw : X.word.lw = a.word.lw) (hww : X.word.ww = a.word.ww)
    (hq : X.queue = a.queue) (hro : X.ro = a.ro) (hwr : X.wr = a.wr)
    (hts : ∀ u, u ≠ t → X.ts u = a.ts u) : ALive X := by
  have tIF : ∀ u, InFlight a u → InFlight X u :=
    fun u hi => hi.mono (by rw [hro]) (fun k hk => by rw [hq] at hk; exact hk)
  have tUn : ∀ u, Unlocking a u → Unlocking X u := fun u hi => hi.mono (by rw [hro])
  have hdes : a.word.desig = true → (∃ u, InFlight X u) ∨ (∃ u, Unlocking X u) := by
    intro hx
    rcases h.desig hx with ⟨u, hu⟩ | ⟨u, hu⟩
    · exact Or.inl ⟨u, tIF u hu⟩
    · exact Or.inr ⟨u, tUn u hu⟩
  refine ⟨by rw [hd]; exact hdes, by rw [hlw, hro]; exact h.lw, by rw [hww, hro]; exact h.ww, ?_,
    by rw [hro, hwr]; exact h.post⟩
  intro hn
  have hna : Need a := by
    rcases hn with hn | ⟨u, c, hr⟩
    · exact Or.inl (by rw [hq] at hn; exact hn)
    · exact Or.inr ⟨u, c, by rw [hro] at hr; exact hr⟩
  rcases h.resp hna with ⟨u, hu⟩ | ⟨u, hu⟩ | ⟨u, hu⟩
  · by_cases e : u = t
    · subst e
      -- the releasing thread was the witness: find another responsible party
      have hwaiting : a.word.waiting = true ∨ ∃ v, Unlocking a v := by
        cases hsp : a.sp with
        | none =>
          left
          rcases hna with hne | ⟨v, c, hr⟩
          · exact (hh.wq hsp).2 hne
          · have : (a.ro v).spin = true := by rw [hr]; rfl
            have := (hs.own v).2 this; rw [hsp] at this; cases this
        | some v =>
          have hv : (a.ro v).spin = true := (hs.own v).1 hsp
          left; exact hh.wsp v hv
      rcases hwaiting with hw | ⟨v, hv⟩
      · rcases hrc hw with hdsg | hrd | haf
        · rcases hdes hdsg with h1 | h1
          · exact Or.inr (Or.inl h1)
          · exact Or.inr (Or.inr h1)
        · -- another reader remains
          have hR : a.ts u = some .R := by
            cases hx : a.ts u with
            | none => exact absurd hx hu
            | some m =>
              cases m with
              | R => rfl
              | W =>
                have hwo := (hl.wown u).2 hx
                have := hl.wl; rw [hwo] at this
                have := hl.excl this; omega
          obtain ⟨v, hv1, hv2⟩ := hsh hR hrd
          exact Or.inl ⟨v, by rw [hts v hv1]; exact hv2⟩
        · rw [hh.af] at haf; cases haf
      · exact Or.inr (Or.inr ⟨v, tUn v hv⟩)
    · exact Or.inl ⟨u, by rw [hts u e]; exact hu⟩
  · exact Or.inr (Or.inl ⟨u, tIF u hu⟩)
  · exact Or.inr (Or.inr ⟨u, tUn u hu⟩)

/-- Thread `t` is (still) between grab CAS and final CAS after the step. -/
theorem alive_unlocking {a X : AState} {t : Tid} (h : ALive a) (hU : Unlocking X t)
    (hro : ∀ u, u ≠ t → X.ro u = a.ro u) (hq : ∀ k, k ∈ X.queue → k ∈ a.queue) (hwr : X.wr = a.wr)
    (hlw : X.word.lw = a.word.lw) (hww : X.word.ww = a.word.ww)
    (hns : ∀ c ph, a.ro t ≠ .slow c ph) (hnv : ∀ k r, a.ro t ≠ .wakeV k r) : ALive X := by
  refine ⟨fun _ => Or.inr ⟨t, hU⟩, ?_, ?_, fun _ => Or.inr (Or.inr ⟨t, hU⟩), ?_⟩
  · intro hx; rw [hlw] at hx
    obtain ⟨u, c, ph, hr, hc⟩ := h.lw hx
    exact ⟨u, c, ph, by rw [hro u (fun e => hns c ph (e ▸ hr))]; exact hr, hc⟩
  · intro hx; rw [hww] at hx
    obtain ⟨u, c, ph, hr, hc, hp⟩ := h.ww hx
    exact ⟨u, c, ph, by rw [hro u (fun e => hns c ph (e ▸ hr))]; exact hr, hc, hp⟩
  · intro u c k hr hcw hwt
    have hu : u ≠ t := by
      intro e; subst e
      rcases hU with ⟨sc, h1⟩ | ⟨f, h1⟩ <;> rw [h1] at hr <;> cases hr
    rw [hro u hu] at hr; rw [hwr] at hwt ⊢
    rcases h.post u c k hr hcw hwt with h1 | ⟨v, r, hv⟩
    · exact Or.inl h1
    · exact Or.inr ⟨v, r, by rw [hro v (fun e => hnv k r (e ▸ hv))]; exact hv⟩

end NsyncVerif.MuQ
